(* C16 - lemmas and proofs. *)
From HV Require Import Prelude PearsonQ C16_Model C16_Check.
From Coq Require Import QArith.
Open Scope Z_scope.

(* ---- the statistic --------------------------------------------------------- *)

Lemma combine_swap (t d : list Z) : combine d t = map swap (combine t d).
Proof.
  revert d. induction t as [|a t IH]; intros [|b d]; try reflexivity.
  cbn [combine map]. unfold swap at 1. cbn [fst snd]. f_equal. apply IH.
Qed.

Lemma corr_sym t d : corr d t = corr t d.
Proof. unfold corr. rewrite combine_swap. apply pearson_swap. Qed.

Lemma corr_nan_iff t d :
  corr t d = None <-> constant_on fx (combine t d) \/ constant_on fy (combine t d).
Proof. apply pearson_none_iff. Qed.

Lemma corr_sq_le_1 t d s r : corr t d = Some (s, r) -> (0 <= r <= 1)%Q.
Proof. apply pearson_r2_range. Qed.

(* ---- the pinned tree ------------------------------------------------------------ *)

Definition witness16 : lcase :=
  mkl 0 [mkgv 0 0 1 [(0, 0); (0, 0)] []] [] [true; true] None true true true (Err 5) [].

Lemma legacy_refuted :
  wf witness16 = true /\ legacy_ld witness16 = Err E_Attr /\ holds_ld witness16 = false
  /\ model_ld witness16 = Ok [(0, None)].
Proof. vm_compute. repeat split; reflexivity. Qed.

(* ---- generic list facts ------------------------------------------------------------ *)

Lemma map_filter_comm {A B} (f : A -> B) (p : B -> bool) l :
  map f (filter (fun a => p (f a)) l) = filter p (map f l).
Proof. induction l as [|a l IH]; [reflexivity|]. cbn. destruct (p (f a)); cbn; rewrite IH; reflexivity. Qed.

Lemma filter_all {A} (f : A -> bool) l : (forall a, In a l -> f a = true) -> filter f l = l.
Proof.
  induction l as [|a l IH]; intro H; [reflexivity|]. cbn. rewrite (H a) by (left; reflexivity).
  rewrite IH; [reflexivity|]. intros x Hx. apply H. right. exact Hx.
Qed.

Lemma filter_filter {A} (f g : A -> bool) l : filter g (filter f l) = filter (fun a => f a && g a) l.
Proof.
  induction l as [|a l IH]; [reflexivity|]. cbn. destruct (f a); cbn; [|exact IH].
  destruct (g a); rewrite IH; reflexivity.
Qed.

Lemma memZ_cons x a l : memZ x (a :: l) = (x =? a) || memZ x l.
Proof. reflexivity. Qed.

Lemma memZ_In x l : memZ x l = true <-> In x l.
Proof.
  unfold memZ. rewrite existsb_exists. split.
  - intros (y & Hy & E). apply Z.eqb_eq in E. subst. exact Hy.
  - intro H. exists x. split; [exact H|apply Z.eqb_refl].
Qed.

Lemma memZ_app x l1 l2 : memZ x (l1 ++ l2) = memZ x l1 || memZ x l2.
Proof. apply existsb_app. Qed.

Lemma map_res_fst {A B} (key : A -> Z) (f : A -> res B) l hd :
  map_res (fun a => bind (f a) (fun d => Ok (key a, d))) l = Ok hd -> map fst hd = map key l.
Proof.
  revert hd. induction l as [|a l IH]; intros hd H; cbn in H.
  - inversion H. reflexivity.
  - destruct (f a) as [d|e]; cbn in H; [|discriminate].
    destruct (map_res (fun a => bind (f a) (fun d => Ok (key a, d))) l) as [r|e]; cbn in H; [|discriminate].
    inversion H; subst. cbn. f_equal. apply IH. reflexivity.
Qed.

(* ---- haplotypes --------------------------------------------------------------------- *)

Lemma load_haps_ids flt lines :
  map h_id (load_haps flt lines)
  = filter (fun id => match flt with None => true | Some s => memZ id s end) (hap_ids lines).
Proof.
  unfold hap_ids, load_haps. induction lines as [|ln r IH]; [reflexivity|].
  cbn [flat_map]. rewrite !map_app, IH. destruct ln as [h|i]; cbn [app map]; [|reflexivity].
  destruct flt as [s|]; cbn [filter map app].
  - destruct (memZ (h_id h) s); reflexivity.
  - reflexivity.
Qed.

Lemma find_hap_none t hs : find_hap t hs = None -> forall id, In id (map h_id hs) -> (id =? t) = false.
Proof.
  unfold find_hap. intros H id Hid. apply in_map_iff in Hid. destruct Hid as (h & <- & Hh).
  exact (find_none _ _ H h Hh).
Qed.

Lemma find_hap_some t hs h : find_hap t hs = Some h -> In h hs /\ h_id h = t.
Proof. unfold find_hap. intro H. apply find_some in H. destruct H as [H E]. apply Z.eqb_eq in E. tauto. Qed.

Lemma remove_hap_ids t hs : map h_id (remove_hap t hs) = filter (fun id => negb (id =? t)) (map h_id hs).
Proof. unfold remove_hap. apply (map_filter_comm h_id (fun id => negb (id =? t))). Qed.

(* ---- variants ----------------------------------------------------------------------- *)

Lemma find_var_filter v s gs : memZ v s = true ->
  find_var v (filter (fun g => memZ (gv_id g) s) gs) = find_var v gs.
Proof.
  intro Hv. unfold find_var. induction gs as [|g r IH]; [reflexivity|]. cbn [filter find].
  destruct (gv_id g =? v) eqn:E.
  - apply Z.eqb_eq in E. rewrite E, Hv. cbn [find]. rewrite E, Z.eqb_refl. reflexivity.
  - destruct (memZ (gv_id g) s); [cbn [find]; rewrite E|]; exact IH.
Qed.

Lemma find_var_id v gs g : find_var v gs = Some g -> gv_id g = v.
Proof. unfold find_var. intro H. apply find_some in H. apply Z.eqb_eq. tauto. Qed.

Lemma find_var_mem v gs : memZ v (var_ids gs) = match find_var v gs with Some _ => true | None => false end.
Proof.
  unfold var_ids, find_var. induction gs as [|g r IH]; [reflexivity|]. cbn [map find]. rewrite memZ_cons, IH.
  rewrite (Z.eqb_sym v). destruct (gv_id g =? v); reflexivity.
Qed.

Lemma listed_by_ids gs loaded l :
  (forall id, In id l -> find_var id loaded = find_var id gs) ->
  map gv_id (flat_map (fun id => match find_var id loaded with Some g => [g] | None => [] end) l)
  = filter (fun id => memZ id (var_ids gs)) l.
Proof.
  induction l as [|id l IH]; intro H; [reflexivity|]. cbn [flat_map filter]. rewrite map_app, IH.
  - rewrite find_var_mem, (H id) by (left; reflexivity).
    destruct (find_var id gs) as [g|] eqn:E; [|reflexivity]. cbn. rewrite (find_var_id _ _ _ E). reflexivity.
  - intros x Hx. apply H. right. exact Hx.
Qed.

(* ---- what is listed ------------------------------------------------------------------- *)

Definition listing_spec (target : Z) (gs : list gvar) (lines : list hline) (ids : option (list Z))
           (from_gts : bool) : list Z :=
  let req id := match ids with None => true | Some l => memZ id l end in
  if from_gts then
    if memZ target (hap_ids lines) then
      match ids with
      | None => var_ids gs                                         (* every variant, file order *)
      | Some l => filter (fun id => memZ id (var_ids gs)) l        (* the requested ones, --id order *)
      end
    else filter (fun id => req id || (id =? target)) (var_ids gs)  (* requested + the target variant *)
  else filter (fun id => req id && negb (id =? target)) (hap_ids lines).

Lemma th_mem target lines :
  memZ target (hap_ids lines) = match find_hap target (load_haps None lines) with Some _ => true | None => false end.
Proof.
  unfold hap_ids, find_hap. induction (load_haps None lines) as [|h r IH]; [reflexivity|].
  cbn [map find]. rewrite memZ_cons, IH, (Z.eqb_sym target). destruct (h_id h =? target); reflexivity.
Qed.

Lemma ld_listing_lemma target gs lines keep ids fg rows :
  calc_ld false target gs lines keep ids fg = Ok rows ->
  map fst rows = listing_spec target gs lines ids fg.
Proof.
  unfold calc_ld, listing_spec. destruct fg.
  - (* --from-gts: rows are variants *)
    rewrite th_mem. set (hs := load_haps None lines).
    destruct (find_hap target hs) as [h|] eqn:TH.
    + cbn [bind]. destruct ids as [l|].
      * set (loaded := filter _ gs).
        destruct (existsb _ loaded); [discriminate|]. destruct (target_not_loaded _ _ _ _ _); [discriminate|]. cbn [bind].
        destruct (hap_dosage loaded keep h) as [td|e]; cbn [bind]; [|discriminate].
        intro H. inversion H; subst. rewrite map_map. cbn [fst]. change (fun x : gvar => gv_id x) with gv_id.
        apply listed_by_ids. intros id Hid. apply find_var_filter.
        rewrite memZ_app. apply orb_true_iff. left. apply memZ_In. exact Hid.
      * destruct (existsb _ gs); [discriminate|]. destruct (target_not_loaded _ _ _ _ _); [discriminate|]. cbn [bind].
        destruct (hap_dosage gs keep h) as [td|e]; cbn [bind]; [|discriminate].
        intro H. inversion H; subst. rewrite map_map. reflexivity.
    + destruct ids as [l|]; cbn [bind].
      * set (loaded := filter _ gs).
        destruct (existsb _ loaded); [discriminate|]. destruct (target_not_loaded _ _ _ _ _); [discriminate|]. cbn [bind].
        destruct (find_var target loaded) as [g|]; cbn [bind]; [|discriminate].
        intro H. inversion H; subst. rewrite map_map. cbn [fst]. change (fun x : gvar => gv_id x) with gv_id.
        unfold loaded, var_ids.
        rewrite (map_filter_comm gv_id (fun id => memZ id (target :: l ++ []))).
        apply filter_ext. intro id. rewrite memZ_cons, app_nil_r. apply orb_comm.
      * destruct (existsb _ gs); [discriminate|]. destruct (target_not_loaded _ _ _ _ _); [discriminate|]. cbn [bind].
        destruct (find_var target gs) as [g|]; cbn [bind]; [|discriminate].
        intro H. inversion H; subst. rewrite map_map. cbn [fst]. change (fun x : gvar => gv_id x) with gv_id.
        symmetry. apply filter_all. reflexivity.
  - (* .hap output: rows are haplotypes *)
    set (hflt := option_map (fun l => target :: l) ids). set (hs := load_haps hflt lines).
    destruct (find_hap target hs) as [h|] eqn:TH; cbn [bind].
    + set (loaded := filter _ gs).
      destruct (existsb _ loaded); [discriminate|]. destruct (target_not_loaded _ _ _ _ _); [discriminate|].
      destruct (map_res _ (remove_hap target hs)) as [hd|e] eqn:MR; cbn [bind]; [|discriminate].
      destruct (hap_dosage loaded keep h) as [td|e]; cbn [bind]; [|discriminate].
      intro H. inversion H; subst. rewrite map_map. cbn [fst].
      change (fun x : Z * list Z => fst x) with (@fst Z (list Z)).
      rewrite (map_res_fst h_id _ _ _ MR), remove_hap_ids. unfold hs. rewrite load_haps_ids, filter_filter.
      apply filter_ext. intro id. unfold hflt. destruct ids as [l|]; cbn [option_map]; [|reflexivity].
      rewrite memZ_cons. destruct (id =? target), (memZ id l); reflexivity.
    + set (loaded := filter _ gs).
      destruct (existsb _ loaded); [discriminate|]. destruct (target_not_loaded _ _ _ _ _); [discriminate|].
      destruct (map_res _ hs) as [hd|e] eqn:MR; cbn [bind]; [|discriminate].
      destruct (find_var target loaded) as [g|]; cbn [bind]; [|discriminate].
      intro H. inversion H; subst. rewrite map_map. cbn [fst].
      change (fun x : Z * list Z => fst x) with (@fst Z (list Z)).
      rewrite (map_res_fst h_id _ _ _ MR).
      pose proof (find_hap_none _ _ TH) as NT. unfold hs in *. rewrite load_haps_ids in *.
      (* no haplotype of the file is called [target] *)
      assert (forall id, In id (hap_ids lines) -> (id =? target) = false) as NT'.
      { intros id Hid. destruct (id =? target) eqn:E; [|reflexivity].
        rewrite <- E. apply NT. apply filter_In. split; [exact Hid|].
        unfold hflt. destruct ids as [l|]; cbn [option_map]; [|reflexivity]. rewrite memZ_cons, E. reflexivity. }
      apply filter_ext_in. intros id Hid. rewrite (NT' id Hid). unfold hflt.
      destruct ids as [l|]; cbn [option_map]; [|reflexivity].
      rewrite memZ_cons, (NT' id Hid). cbn. rewrite andb_true_r. reflexivity.
Qed.

(* ---- consequences in the property's words ------------------------------------------------ *)

Definition req_in (ids : option (list Z)) (id : Z) : Prop :=
  match ids with None => True | Some l => In id l end.

Lemma req_in_b ids id : (match ids with None => true | Some l => memZ id l end) = true <-> req_in ids id.
Proof. destruct ids as [l|]; cbn; [apply memZ_In|tauto]. Qed.

(* the target haplotype itself is not listed *)
Lemma target_hap_not_listed target gs lines keep ids rows :
  calc_ld false target gs lines keep ids false = Ok rows -> ~ In target (map fst rows).
Proof.
  intros H K. rewrite (ld_listing_lemma _ _ _ _ _ _ _ H) in K. cbn in K.
  apply filter_In in K. destruct K as [_ K]. rewrite Z.eqb_refl, andb_false_r in K. discriminate.
Qed.

(* a variant target is listed among the variants in --from-gts mode *)
Lemma variant_target_listed target gs lines keep ids rows :
  calc_ld false target gs lines keep ids true = Ok rows ->
  ~ In target (hap_ids lines) -> In target (var_ids gs) -> In target (map fst rows).
Proof.
  intros H NH HV. rewrite (ld_listing_lemma _ _ _ _ _ _ _ H). cbn.
  destruct (memZ target (hap_ids lines)) eqn:E; [apply memZ_In in E; contradiction|].
  apply filter_In. split; [exact HV|]. rewrite Z.eqb_refl. apply orb_true_r.
Qed.

(* every requested haplotype / variant is listed, and listed once *)
Lemma requested_listed_once target gs lines keep ids fg rows :
  calc_ld false target gs lines keep ids fg = Ok rows ->
  NoDup (hap_ids lines) -> NoDup (var_ids gs) -> match ids with Some l => NoDup l | None => True end ->
  NoDup (map fst rows) /\
  forall id, req_in ids id ->
    (if fg then In id (var_ids gs) else In id (hap_ids lines) /\ id <> target) -> In id (map fst rows).
Proof.
  intros H NH NV NI. rewrite (ld_listing_lemma _ _ _ _ _ _ _ H). unfold listing_spec.
  destruct fg.
  - destruct (memZ target (hap_ids lines)).
    + destruct ids as [l|].
      * split; [apply NoDup_filter; exact NI|]. intros id R V. apply filter_In. split; [exact R|].
        apply memZ_In. exact V.
      * split; [exact NV|]. intros id _ V. exact V.
    + split; [apply NoDup_filter; exact NV|]. intros id R V. apply filter_In. split; [exact V|].
      apply orb_true_iff. left. apply req_in_b. exact R.
  - split; [apply NoDup_filter; exact NH|]. intros id R [V NT]. apply filter_In. split; [exact V|].
    apply andb_true_iff. split; [apply req_in_b; exact R|].
    apply negb_true_iff. apply Z.eqb_neq. exact NT.
Qed.

(* ---- no mode raises on well-formed input ---------------------------------------------------- *)

Definition inputs_ok (target : Z) (gs : list gvar) (lines : list hline) (keep : list bool) : bool :=
  forallb (fun g => negb (calls_bad 0 keep (gv_calls g) (gv_unph g))) gs
  && forallb (hap_ok gs) (load_haps None lines)
  && (memZ target (hap_ids lines) || memZ target (var_ids gs)).

Lemma hap_strands_ext gs1 gs2 keep vars : forall acc,
  (forall va, In va vars -> find_var (fst va) gs1 = find_var (fst va) gs2) ->
  hap_strands gs1 keep vars acc = hap_strands gs2 keep vars acc.
Proof.
  induction vars as [|[v a] r IH]; intros acc H; [reflexivity|]. cbn [hap_strands].
  pose proof (H (v, a) (or_introl eq_refl)) as E. cbn [fst] in E. rewrite E.
  destruct (find_var v gs2) as [g|]; [|reflexivity]. destruct (allele_index g a); [|reflexivity].
  apply IH. intros va Hva. apply H. right. exact Hva.
Qed.

Lemma hap_strands_ok gs keep vars : forall acc,
  forallb (fun va : Z * Z => match find_var (fst va) gs with
                             | Some g => match allele_index g (snd va) with Some _ => true | None => false end
                             | None => false end) vars = true ->
  exists st, hap_strands gs keep vars acc = Ok st.
Proof.
  induction vars as [|[v a] r IH]; intros acc H; [exists acc; reflexivity|].
  cbn [forallb fst snd] in H. apply andb_true_iff in H. destruct H as [H1 H2]. cbn [hap_strands].
  destruct (find_var v gs) as [g|]; [|discriminate]. destruct (allele_index g a); [|discriminate].
  apply IH. exact H2.
Qed.

Lemma hap_dosage_ok gs loaded keep h :
  hap_ok gs h = true ->
  (forall va, In va (h_vars h) -> find_var (fst va) loaded = find_var (fst va) gs) ->
  exists d, hap_dosage loaded keep h = Ok d.
Proof.
  intros OK EXT. unfold hap_dosage. rewrite (hap_strands_ext loaded gs) by exact EXT.
  unfold hap_ok in OK.
  destruct (hap_strands_ok gs keep (h_vars h) (map (fun _ => (true, true)) (filter (fun k : bool => k) keep)) OK) as [st E].
  rewrite E. cbn [bind]. eexists. reflexivity.
Qed.

Lemma map_res_total {A B} (f : A -> res B) l :
  (forall a, In a l -> exists b, f a = Ok b) -> exists bs, map_res f l = Ok bs.
Proof.
  induction l as [|a l IH]; intro H; [exists []; reflexivity|]. cbn [map_res].
  destruct (H a) as [b E]; [left; reflexivity|]. rewrite E. cbn [bind].
  destruct IH as [bs E2]; [intros x Hx; apply H; right; exact Hx|]. rewrite E2. cbn [bind]. eexists. reflexivity.
Qed.

Lemma load_haps_incl flt lines h : In h (load_haps flt lines) -> In h (load_haps None lines).
Proof.
  unfold load_haps. rewrite !in_flat_map. intros (ln & Hln & Hh). exists ln. split; [exact Hln|].
  destruct ln as [h'|i]; [|exact Hh]. destruct flt as [s|]; [|exact Hh].
  destruct (memZ (h_id h') s); [exact Hh|contradiction].
Qed.

Lemma hap_vars_in_set (hs : list hap) h va :
  In h hs -> In va (h_vars h) -> memZ (fst va) (flat_map (fun h => map fst (h_vars h)) hs) = true.
Proof.
  intros Hh Hva. apply memZ_In. apply in_flat_map. exists h. split; [exact Hh|]. apply in_map. exact Hva.
Qed.

Lemma no_bad_in_filter keep (p : gvar -> bool) gs :
  forallb (fun g => negb (calls_bad 0 keep (gv_calls g) (gv_unph g))) gs = true ->
  existsb (fun g => calls_bad 0 keep (gv_calls g) (gv_unph g)) (filter p gs) = false.
Proof.
  intro H. destruct (existsb _ (filter p gs)) eqn:E; [|reflexivity].
  apply existsb_exists in E. destruct E as (g & Hg & B). apply filter_In in Hg. destruct Hg as [Hg _].
  rewrite forallb_forall in H. specialize (H g Hg). rewrite B in H. discriminate.
Qed.

Lemma no_bad_all keep gs :
  forallb (fun g => negb (calls_bad 0 keep (gv_calls g) (gv_unph g))) gs = true ->
  existsb (fun g => calls_bad 0 keep (gv_calls g) (gv_unph g)) gs = false.
Proof.
  intro H. rewrite <- (filter_all (fun _ => true) gs) by reflexivity. apply no_bad_in_filter. exact H.
Qed.

Lemma find_var_present v gs : memZ v (var_ids gs) = true -> exists g, find_var v gs = Some g.
Proof. rewrite find_var_mem. destruct (find_var v gs) as [g|]; [eexists; reflexivity|discriminate]. Qed.

Lemma tnl_some legacy h vset t loaded : target_not_loaded legacy (Some h) vset t loaded = false.
Proof. destruct legacy; reflexivity. Qed.

Lemma tnl_found legacy th vset t loaded g :
  find_var t loaded = Some g -> target_not_loaded legacy th vset t loaded = false.
Proof.
  intro E. unfold target_not_loaded. rewrite E. destruct legacy, th, vset; cbn [negb andb]; rewrite ?andb_false_r; reflexivity.
Qed.

Lemma ld_modes_total_lemma target gs lines keep ids fg :
  inputs_ok target gs lines keep = true ->
  exists rows, calc_ld false target gs lines keep ids fg = Ok rows.
Proof.
  unfold inputs_ok. rewrite !andb_true_iff. intros [[NB HO] TG].
  rewrite forallb_forall in HO.
  unfold calc_ld. destruct fg.
  - (* --from-gts *)
    rewrite th_mem in TG. set (hs := load_haps None lines) in *.
    destruct (find_hap target hs) as [h|] eqn:TH.
    + destruct (find_hap_some _ _ _ TH) as [Hh _]. cbn [bind]. destruct ids as [l|].
      * rewrite no_bad_in_filter by exact NB. rewrite tnl_some. cbn [bind].
        destruct (hap_dosage_ok gs (filter (fun g => memZ (gv_id g) (l ++ map fst (h_vars h))) gs) keep h (HO h Hh)) as [d E].
        { intros va Hva. apply find_var_filter. rewrite memZ_app. apply orb_true_iff. right.
          apply memZ_In. apply in_map. exact Hva. }
        rewrite E. cbn [bind]. eexists. reflexivity.
      * rewrite no_bad_all by exact NB. rewrite tnl_some. cbn [bind].
        destruct (hap_dosage_ok gs gs keep h (HO h Hh)) as [d E]; [reflexivity|].
        rewrite E. cbn [bind]. eexists. reflexivity.
    + cbn [orb] in TG. destruct (find_var_present _ _ TG) as [g Eg]. destruct ids as [l|]; cbn [bind].
      * rewrite no_bad_in_filter by exact NB.
        rewrite (tnl_found false None _ target _ g)
          by (rewrite find_var_filter by (rewrite memZ_cons, Z.eqb_refl; reflexivity); exact Eg).
        cbn [bind].
        rewrite find_var_filter by (rewrite memZ_cons, Z.eqb_refl; reflexivity).
        rewrite Eg. cbn [bind]. eexists. reflexivity.
      * rewrite no_bad_all by exact NB. rewrite (tnl_found false None None target gs g Eg). cbn [bind]. rewrite Eg. cbn [bind]. eexists. reflexivity.
  - (* .hap output *)
    set (hflt := option_map (fun l => target :: l) ids). set (hs := load_haps hflt lines).
    assert (forall h, In h hs -> hap_ok gs h = true) as HO'
      by (intros h Hh; apply HO; eapply load_haps_incl; exact Hh).
    destruct (find_hap target hs) as [h|] eqn:TH; cbn [bind].
    + destruct (find_hap_some _ _ _ TH) as [Hh _].
      rewrite no_bad_in_filter by exact NB. rewrite tnl_some.
      set (loaded := filter _ gs).
      assert (forall h', In h' hs -> exists d, hap_dosage loaded keep h' = Ok d) as HD.
      { intros h' Hh'. apply (hap_dosage_ok gs); [apply HO'; exact Hh'|].
        intros va Hva. apply find_var_filter. eapply hap_vars_in_set; eassumption. }
      destruct (map_res_total (fun h0 => bind (hap_dosage loaded keep h0) (fun d => Ok (h_id h0, d))) (remove_hap target hs)) as [hd E].
      { intros h' Hh'. unfold remove_hap in Hh'. apply filter_In in Hh'. destruct Hh' as [Hh' _].
        destruct (HD h' Hh') as [d Ed]. rewrite Ed. cbn [bind]. eexists. reflexivity. }
      rewrite E. cbn [bind]. destruct (HD h Hh) as [d Ed]. rewrite Ed. cbn [bind]. eexists. reflexivity.
    + (* the target is a variant *)
      assert (memZ target (var_ids gs) = true) as TV.
      { destruct (memZ target (hap_ids lines)) eqn:E; [|exact TG]. exfalso.
        apply memZ_In in E. unfold hap_ids in E. apply in_map_iff in E. destruct E as (h & Eh & Hh).
        assert (In h hs) as Hhs.
        { unfold hs, load_haps in *. apply in_flat_map in Hh. destruct Hh as (ln & Hln & Hh).
          apply in_flat_map. exists ln. split; [exact Hln|]. destruct ln as [h'|i]; [|exact Hh].
          cbn in Hh. destruct Hh as [->|[]]. unfold hflt. destruct ids as [l|]; cbn [option_map]; [|left; reflexivity].
          rewrite memZ_cons, Eh, Z.eqb_refl. left. reflexivity. }
        pose proof (find_hap_none _ _ TH (h_id h) (in_map h_id _ _ Hhs)) as K.
        rewrite Eh, Z.eqb_refl in K. discriminate. }
      destruct (find_var_present _ _ TV) as [g Eg].
      rewrite no_bad_in_filter by exact NB.
      rewrite (tnl_found false None _ target _ g)
        by (rewrite find_var_filter by (rewrite memZ_cons, Z.eqb_refl; reflexivity); exact Eg).
      set (loaded := filter _ gs).
      assert (forall h', In h' hs -> exists d, hap_dosage loaded keep h' = Ok d) as HD.
      { intros h' Hh'. apply (hap_dosage_ok gs); [apply HO'; exact Hh'|].
        intros va Hva. apply find_var_filter. rewrite memZ_cons. apply orb_true_iff. right.
        eapply hap_vars_in_set; eassumption. }
      destruct (map_res_total (fun h0 => bind (hap_dosage loaded keep h0) (fun d => Ok (h_id h0, d))) hs) as [hd E].
      { intros h' Hh'. destruct (HD h' Hh') as [d Ed]. rewrite Ed. cbn [bind]. eexists. reflexivity. }
      rewrite E. cbn [bind]. unfold loaded. rewrite find_var_filter by (rewrite memZ_cons, Z.eqb_refl; reflexivity).
      rewrite Eg. cbn [bind]. eexists. reflexivity.
Qed.

(* ---- what the boolean checkers mean ----------------------------------------------------------- *)

From Coq Require Import Lqa.

(* near_abs pm a2: every non-negative rational below (above) the square root of a2 is
   below pm + eps (above pm - eps), i.e. sqrt a2 lies in [pm - eps, pm + eps] *)
Lemma near_abs_sound pm a2 : near_abs pm a2 = true ->
  forall a : Q, (0 <= a)%Q ->
    ((a * a <= a2)%Q -> (a <= pm + eps)%Q) /\ ((a2 <= a * a)%Q -> (pm - eps <= a)%Q).
Proof.
  unfold near_abs. rewrite !andb_true_iff, orb_true_iff, !Qle_bool_iff.
  intros [[H1 H2] H3] a Ha. split; intro K.
  - destruct (Qlt_le_dec (pm + eps) a) as [L|L]; [|exact L]. exfalso.
    assert ((pm + eps) * (pm + eps) < a * a)%Q by nra. lra.
  - destruct H3 as [H3|H3]; [lra|].
    destruct (Qlt_le_dec a (pm - eps)) as [L|L]; [|exact L]. exfalso.
    assert (a * a < (pm - eps) * (pm - eps))%Q by nra. lra.
Qed.

Definition r_near_spec (printed : option Z) (m : option (Z * Q)) : Prop :=
  match printed, m with
  | None, None => True
  | Some t, Some (s, r2) =>
      let pm := (t # 1000)%Q in
      if s =? 0 then (- eps <= pm <= eps)%Q
      else forall a : Q, (0 <= a)%Q ->
             let pm' := if 0 <? s then pm else (- pm)%Q in
             ((a * a <= r2)%Q -> (a <= pm' + eps)%Q) /\ ((r2 <= a * a)%Q -> (pm' - eps <= a)%Q)
  | _, _ => False
  end.

Lemma r_near_sound printed m : r_near printed m = true -> r_near_spec printed m.
Proof.
  unfold r_near, r_near_spec. destruct printed as [t|], m as [[s r2]|]; try discriminate; [|tauto].
  destruct (s =? 0).
  - rewrite andb_true_iff, !Qle_bool_iff. tauto.
  - destruct (0 <? s); intros H a Ha; apply near_abs_sound; assumption.
Qed.

Lemma holds_ld_sound c rows td :
  wf c = true -> skipped c (l_target c) = false -> l_obs c = Ok rows ->
  dosage_of c (negb (target_is_hap c)) (l_target c) = Some td ->
  holds_ld c = true ->
  (forall r, In r rows -> exists d, dosage_of c (l_fg c) (fst r) = Some d /\ r_near_spec (snd r) (corr td d))
  /\ (forall id, In id (requested c) -> countZ id (map fst rows) = 1)
  /\ (target_is_hap c = true -> ~ In (l_target c) (map fst rows))
  /\ (forall b r, In (b, Ok r) (l_sym c) -> skipped c b = false ->
        exists d, dosage_of c (l_fg c) b = Some d /\ r_near_spec r (corr d td) /\ r_near_spec r (corr td d)).
Proof.
  intros W SK O T. unfold holds_ld. rewrite W, SK, O, T. cbn [negb].
  rewrite !andb_true_iff. intros [[[H1 H2] H3] H4]. rewrite forallb_forall in H1, H2, H4. split; [|split; [|split]].
  - intros r Hr. specialize (H1 r Hr). destruct (dosage_of c (l_fg c) (fst r)) as [d|]; [|discriminate].
    exists d. split; [reflexivity|apply r_near_sound; exact H1].
  - intros id Hid. apply Z.eqb_eq. apply H2. exact Hid.
  - intros TH K. rewrite TH in H3. cbn [andb] in H3. apply negb_true_iff in H3.
    apply memZ_In in K. congruence.
  - intros b r Hb SKb. specialize (H4 _ Hb). cbn [fst snd] in H4. rewrite SKb in H4.
    destruct (dosage_of c (l_fg c) b) as [d|]; [|discriminate].
    exists d. split; [reflexivity|]. split; [|rewrite (corr_sym d td)]; apply r_near_sound; exact H4.
Qed.

(* ---- every R of the model is the correlation of the two dosages ---------------------------------- *)

(* dosage of a haplotype / variant of the input, from the whole matrix *)
Definition dosage_spec (gs : list gvar) (lines : list hline) (keep : list bool) (as_variant : bool) (id : Z)
  : option (list Z) :=
  if as_variant then option_map (var_dosage keep) (find_var id gs)
  else match find_hap id (load_haps None lines) with
       | Some h => match hap_dosage gs keep h with Ok d => Some d | Err _ => None end
       | None => None end.

Lemma dosage_of_spec c b id : dosage_of c b id = dosage_spec (l_gs c) (l_lines c) (l_keep c) b id.
Proof. reflexivity. Qed.

Lemma find_var_nodup gs g : NoDup (var_ids gs) -> In g gs -> find_var (gv_id g) gs = Some g.
Proof.
  unfold var_ids, find_var. induction gs as [|x r IH]; intros ND Hg; [contradiction|].
  cbn [map] in ND. inversion ND as [|? ? NI ND']; subst. cbn [find]. destruct Hg as [->|Hg].
  - rewrite Z.eqb_refl. reflexivity.
  - destruct (gv_id x =? gv_id g) eqn:E; [|apply IH; assumption].
    apply Z.eqb_eq in E. exfalso. apply NI. rewrite E. apply in_map. exact Hg.
Qed.

Lemma find_hap_nodup hs h : NoDup (map h_id hs) -> In h hs -> find_hap (h_id h) hs = Some h.
Proof.
  unfold find_hap. induction hs as [|x r IH]; intros ND Hh; [contradiction|].
  cbn [map] in ND. inversion ND as [|? ? NI ND']; subst. cbn [find]. destruct Hh as [->|Hh].
  - rewrite Z.eqb_refl. reflexivity.
  - destruct (h_id x =? h_id h) eqn:E; [|apply IH; assumption].
    apply Z.eqb_eq in E. exfalso. apply NI. rewrite E. apply in_map. exact Hh.
Qed.

Lemma hap_dosage_ext gs1 gs2 keep h :
  (forall va, In va (h_vars h) -> find_var (fst va) gs1 = find_var (fst va) gs2) ->
  hap_dosage gs1 keep h = hap_dosage gs2 keep h.
Proof. intro H. unfold hap_dosage. rewrite (hap_strands_ext gs1 gs2) by exact H. reflexivity. Qed.

Lemma map_res_in {A B} (key : A -> Z) (f : A -> res B) l hd :
  map_res (fun a => bind (f a) (fun d => Ok (key a, d))) l = Ok hd ->
  forall x, In x hd -> exists a, In a l /\ fst x = key a /\ f a = Ok (snd x).
Proof.
  revert hd. induction l as [|a l IH]; intros hd H x Hx; cbn in H.
  - inversion H; subst. contradiction.
  - destruct (f a) as [d|e] eqn:E; cbn in H; [|discriminate].
    destruct (map_res (fun a => bind (f a) (fun d => Ok (key a, d))) l) as [r|e]; cbn in H; [|discriminate].
    inversion H; subst. destruct Hx as [<-|Hx].
    + exists a. cbn. split; [left; reflexivity|]. split; [reflexivity|exact E].
    + destruct (IH r eq_refl x Hx) as (a' & Ha' & K). exists a'. split; [right; exact Ha'|exact K].
Qed.

Lemma th_none_not_hap target ids lines :
  find_hap target (load_haps (option_map (fun l => target :: l) ids) lines) = None ->
  memZ target (hap_ids lines) = false.
Proof.
  intro TH. destruct (memZ target (hap_ids lines)) eqn:E; [|reflexivity]. exfalso.
  apply memZ_In in E. pose proof (find_hap_none _ _ TH target) as K.
  rewrite load_haps_ids in K. rewrite Z.eqb_refl in K.
  assert (true = false) as X; [|discriminate]. apply K. apply filter_In. split; [exact E|].
  destruct ids as [l|]; cbn [option_map]; [|reflexivity]. rewrite memZ_cons, Z.eqb_refl. reflexivity.
Qed.

Definition row_ok (gs : list gvar) (lines : list hline) (keep : list bool) (fg : bool) (td : list Z) (r : row) : Prop :=
  exists d, dosage_spec gs lines keep fg (fst r) = Some d /\ snd r = corr td d.

Lemma target_hap_spec gs lines keep target h hs td flt :
  NoDup (hap_ids lines) -> hs = load_haps flt lines ->
  find_hap target hs = Some h -> hap_dosage gs keep h = Ok td ->
  memZ target (hap_ids lines) = true /\ dosage_spec gs lines keep false target = Some td.
Proof.
  intros ND -> TH HD. destruct (find_hap_some _ _ _ TH) as [Hh Eid].
  pose proof (load_haps_incl _ _ _ Hh) as Hh0. split.
  - apply memZ_In. rewrite <- Eid. unfold hap_ids. apply in_map. exact Hh0.
  - unfold dosage_spec. rewrite <- Eid, (find_hap_nodup _ _ ND Hh0), HD. reflexivity.
Qed.

Lemma ld_rows_lemma target gs lines keep ids fg rows :
  NoDup (hap_ids lines) -> NoDup (var_ids gs) ->
  calc_ld false target gs lines keep ids fg = Ok rows ->
  exists td, dosage_spec gs lines keep (negb (memZ target (hap_ids lines))) target = Some td
             /\ forall r, In r rows -> row_ok gs lines keep fg td r.
Proof.
  intros NDH NDV. unfold calc_ld. destruct fg.
  - set (hs := load_haps None lines).
    destruct (find_hap target hs) as [h|] eqn:TH.
    + cbn [bind]. destruct ids as [l|].
      * set (loaded := filter _ gs).
        destruct (existsb _ loaded); [discriminate|]. destruct (target_not_loaded _ _ _ _ _); [discriminate|]. cbn [bind].
        destruct (hap_dosage loaded keep h) as [td|e] eqn:HD; cbn [bind]; [|discriminate].
        intro H. inversion H; subst; clear H.
        assert (forall id, memZ id (l ++ map fst (h_vars h)) = true -> find_var id loaded = find_var id gs) as FV
          by (intros id Hid; apply find_var_filter; exact Hid).
        rewrite (hap_dosage_ext loaded gs) in HD.
        2:{ intros va Hva. apply FV. rewrite memZ_app. apply orb_true_iff. right. apply memZ_In, in_map, Hva. }
        destruct (target_hap_spec gs lines keep target h hs td None NDH eq_refl TH HD) as [M S].
        exists td. rewrite M. split; [exact S|].
        intros r Hr. apply in_map_iff in Hr. destruct Hr as (g & <- & Hg).
        apply in_flat_map in Hg. destruct Hg as (id & Hid & Hg).
        destruct (find_var id loaded) as [g'|] eqn:E; [|contradiction]. destruct Hg as [->|[]].
        rewrite FV in E by (rewrite memZ_app; apply orb_true_iff; left; apply memZ_In, Hid).
        exists (var_dosage keep g). cbn [fst snd]. split; [|reflexivity].
        unfold dosage_spec. rewrite (find_var_id _ _ _ E), E. reflexivity.
      * destruct (existsb _ gs); [discriminate|]. destruct (target_not_loaded _ _ _ _ _); [discriminate|]. cbn [bind].
        destruct (hap_dosage gs keep h) as [td|e] eqn:HD; cbn [bind]; [|discriminate].
        intro H. inversion H; subst; clear H.
        destruct (target_hap_spec gs lines keep target h hs td None NDH eq_refl TH HD) as [M S].
        exists td. rewrite M. split; [exact S|].
        intros r Hr. apply in_map_iff in Hr. destruct Hr as (g & <- & Hg).
        exists (var_dosage keep g). cbn [fst snd]. split; [|reflexivity].
        unfold dosage_spec. rewrite (find_var_nodup _ _ NDV Hg). reflexivity.
    + pose proof (th_mem target lines) as M. fold hs in M. rewrite TH in M. rewrite M. cbn [negb].
      destruct ids as [l|]; cbn [bind].
      * set (loaded := filter _ gs).
        destruct (existsb _ loaded); [discriminate|]. destruct (target_not_loaded _ _ _ _ _); [discriminate|]. cbn [bind].
        destruct (find_var target loaded) as [g|] eqn:E; cbn [bind]; [|discriminate].
        intro H. inversion H; subst; clear H.
        unfold loaded in E. rewrite find_var_filter in E by (rewrite memZ_cons, Z.eqb_refl; reflexivity).
        exists (var_dosage keep g). split; [unfold dosage_spec; rewrite E; reflexivity|].
        intros r Hr. apply in_map_iff in Hr. destruct Hr as (g' & <- & Hg). apply filter_In in Hg. destruct Hg as [Hg _].
        exists (var_dosage keep g'). cbn [fst snd]. split; [|reflexivity].
        unfold dosage_spec. rewrite (find_var_nodup _ _ NDV Hg). reflexivity.
      * destruct (existsb _ gs); [discriminate|]. destruct (target_not_loaded _ _ _ _ _); [discriminate|]. cbn [bind].
        destruct (find_var target gs) as [g|] eqn:E; cbn [bind]; [|discriminate].
        intro H. inversion H; subst; clear H.
        exists (var_dosage keep g). split; [unfold dosage_spec; rewrite E; reflexivity|].
        intros r Hr. apply in_map_iff in Hr. destruct Hr as (g' & <- & Hg).
        exists (var_dosage keep g'). cbn [fst snd]. split; [|reflexivity].
        unfold dosage_spec. rewrite (find_var_nodup _ _ NDV Hg). reflexivity.
  - set (hflt := option_map (fun l => target :: l) ids). set (hs := load_haps hflt lines).
    (* the rows of the listed haplotypes, whatever the loaded subset of variants *)
    assert (forall loaded td hs' hd,
              (forall h, In h hs' -> In h hs) ->
              (forall id, memZ id (flat_map (fun h => map fst (h_vars h)) hs) = true ->
                          find_var id loaded = find_var id gs) ->
              map_res (fun h => bind (hap_dosage loaded keep h) (fun d => Ok (h_id h, d))) hs' = Ok hd ->
              forall r, In r (map (fun x : Z * list Z => (fst x, corr td (snd x))) hd) ->
                        row_ok gs lines keep false td r) as ROWS.
    { intros loaded td hs' hd SUB FV MR r Hr. apply in_map_iff in Hr. destruct Hr as (x & <- & Hx).
      destruct (map_res_in h_id _ _ _ MR x Hx) as (h & Hh & E1 & E2).
      exists (snd x). cbn [fst snd]. split; [|reflexivity].
      pose proof (load_haps_incl _ _ _ (SUB h Hh)) as Hh0.
      rewrite (hap_dosage_ext loaded gs) in E2
        by (intros va Hva; apply FV; eapply hap_vars_in_set; [apply SUB; exact Hh|exact Hva]).
      unfold dosage_spec. rewrite E1, (find_hap_nodup _ _ NDH Hh0), E2. reflexivity. }
    destruct (find_hap target hs) as [h|] eqn:TH; cbn [bind].
    + set (loaded := filter _ gs).
      destruct (existsb _ loaded); [discriminate|]. destruct (target_not_loaded _ _ _ _ _); [discriminate|].
      destruct (map_res _ (remove_hap target hs)) as [hd|e] eqn:MR; cbn [bind]; [|discriminate].
      destruct (hap_dosage loaded keep h) as [td|e] eqn:HD; cbn [bind]; [|discriminate].
      intro H. inversion H; subst; clear H.
      assert (forall id, memZ id (flat_map (fun h => map fst (h_vars h)) hs) = true ->
                         find_var id loaded = find_var id gs) as FV
        by (intros id Hid; apply find_var_filter; exact Hid).
      destruct (find_hap_some _ _ _ TH) as [Hh _].
      rewrite (hap_dosage_ext loaded gs) in HD
        by (intros va Hva; apply FV; eapply hap_vars_in_set; eassumption).
      destruct (target_hap_spec gs lines keep target h hs td hflt NDH eq_refl TH HD) as [M S].
      exists td. rewrite M. split; [exact S|].
      apply (ROWS loaded td (remove_hap target hs) hd); [|exact FV|exact MR].
      intros h' Hh'. unfold remove_hap in Hh'. apply filter_In in Hh'. tauto.
    + rewrite (th_none_not_hap _ _ _ TH). cbn [negb].
      set (loaded := filter _ gs).
      destruct (existsb _ loaded); [discriminate|]. destruct (target_not_loaded _ _ _ _ _); [discriminate|].
      destruct (map_res _ hs) as [hd|e] eqn:MR; cbn [bind]; [|discriminate].
      destruct (find_var target loaded) as [g|] eqn:E; cbn [bind]; [|discriminate].
      intro H. inversion H; subst; clear H.
      unfold loaded in E. rewrite find_var_filter in E by (rewrite memZ_cons, Z.eqb_refl; reflexivity).
      exists (var_dosage keep g). split; [unfold dosage_spec; rewrite E; reflexivity|].
      apply (ROWS loaded (var_dosage keep g) hs hd); [tauto| |exact MR].
      intros id Hid. apply find_var_filter. rewrite memZ_cons, Hid. apply orb_true_r.
Qed.

(* the R of haplotype A against variant T in the .hap output equals the R of variant T
   against haplotype A in the .ld output *)
Lemma hap_and_ld_outputs_agree_lemma gs lines keep T A rows1 rows2 r1 r2 :
  NoDup (hap_ids lines) -> NoDup (var_ids gs) ->
  ~ In T (hap_ids lines) -> In A (hap_ids lines) ->
  calc_ld false T gs lines keep None false = Ok rows1 -> In (A, r1) rows1 ->
  calc_ld false A gs lines keep None true = Ok rows2 -> In (T, r2) rows2 ->
  r1 = r2.
Proof.
  intros NDH NDV NT HA R1 I1 R2 I2.
  destruct (ld_rows_lemma _ _ _ _ _ _ _ NDH NDV R1) as (td1 & S1 & K1).
  destruct (ld_rows_lemma _ _ _ _ _ _ _ NDH NDV R2) as (td2 & S2 & K2).
  destruct (K1 _ I1) as (d1 & D1 & E1). destruct (K2 _ I2) as (d2 & D2 & E2). cbn [fst snd] in *.
  assert (memZ T (hap_ids lines) = false) as MT
    by (destruct (memZ T (hap_ids lines)) eqn:E; [apply memZ_In in E; contradiction|reflexivity]).
  assert (memZ A (hap_ids lines) = true) as MA by (apply memZ_In; exact HA).
  rewrite MT in S1. rewrite MA in S2. cbn [negb] in S1, S2.
  rewrite S2 in D1. rewrite S1 in D2. inversion D1; inversion D2; subst.
  apply corr_sym.
Qed.

(* ---- an ID given twice with --id ------------------------------------------------------------------------ *)

Lemma dedup_in x l : In x (dedup l) <-> In x l.
Proof.
  induction l as [|a r IH]; [tauto|]. cbn [dedup In]. rewrite filter_In, IH.
  destruct (Z.eq_dec x a) as [->|NE].
  - tauto.
  - rewrite negb_true_iff, Z.eqb_neq. split; [intros [E|[H _]]; [subst; tauto|tauto]|].
    intros [E|H]; [subst; contradiction|]. right. tauto.
Qed.

Lemma dedup_nodup l : NoDup (dedup l).
Proof.
  induction l as [|a r IH]; [constructor|]. cbn [dedup]. constructor.
  - intro K. apply filter_In in K. destruct K as [_ K]. rewrite Z.eqb_refl in K. discriminate.
  - apply NoDup_filter. exact IH.
Qed.

(* with the repaired entry point every requested item is listed exactly once even when
   --id repeats it *)
Lemma requested_listed_once_cli target gs lines keep ids fg rows :
  calc_ld_cli false target gs lines keep ids fg = Ok rows ->
  NoDup (hap_ids lines) -> NoDup (var_ids gs) ->
  NoDup (map fst rows) /\
  forall id, req_in ids id ->
    (if fg then In id (var_ids gs) else In id (hap_ids lines) /\ id <> target) -> In id (map fst rows).
Proof.
  unfold calc_ld_cli. intros H NH NV.
  destruct (requested_listed_once _ _ _ _ _ _ _ H NH NV) as [ND L].
  { destruct ids as [l|]; cbn [option_map]; [apply dedup_nodup|exact I]. }
  split; [exact ND|]. intros id R. apply L.
  destruct ids as [l|]; cbn [option_map req_in] in *; [apply dedup_in; exact R|exact I].
Qed.

(* the tree before fixes/C16_repeated_id.patch: `--from-gts -i v -i v` with a haplotype target
   lists variant v twice *)
Definition witness16_dup : lcase :=
  mkl 5 [mkgv 0 0 1 [(0, 1); (1, 1); (0, 0)] []; mkgv 1 0 1 [(0, 0); (1, 1); (0, 1)] []]
      [HL (mkhap 5 [(0, 1)])] [true; true; true] (Some [1; 1]) true true true
      (Ok [(1, Some 500); (1, Some 500)]) [].

Lemma legacy_dup_refuted :
  wf witness16_dup = true
  /\ option_map (map fst) (match calc_ld false 5 (l_gs witness16_dup) (l_lines witness16_dup)
                                 (l_keep witness16_dup) (l_ids witness16_dup) true with
                           | Ok r => Some r | Err _ => None end) = Some [1; 1]
  /\ holds_ld witness16_dup = false
  /\ option_map (map fst) (match model_ld witness16_dup with Ok r => Some r | Err _ => None end) = Some [1].
Proof. vm_compute. repeat split; reflexivity. Qed.
