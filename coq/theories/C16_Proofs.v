(* C16 - lemmas and proofs. *)
From HV Require Import Prelude PearsonQ C16_Model C16_Check.
From Coq Require Import QArith.
Open Scope Z_scope.

(* ---- the statistic --------------------------------------------------------- *)

Lemma corr_sym t d : length t = length d -> corr d t = corr t d.
Proof.
  intro H. unfold corr. rewrite <- (pearson_swap (combine t d)). f_equal.
  revert d H. induction t as [|a t IH]; intros [|b d] H; try discriminate; [reflexivity|].
  cbn [combine map]. unfold swap at 1. cbn [fst snd]. f_equal. apply IH. inversion H. reflexivity.
Qed.

Lemma corr_nan_iff t d :
  corr t d = None <-> constant_on fx (combine t d) \/ constant_on fy (combine t d).
Proof. apply pearson_none_iff. Qed.

Lemma corr_sq_le_1 t d s r : corr t d = Some (s, r) -> (0 <= r <= 1)%Q.
Proof. apply pearson_r2_range. Qed.
