(* C16 - the dictionary / subset() / positional-index mechanism of Haplotypes.transform
   ([C16_ModelBatch.batch_transform]) computes, for every listed haplotype, the per-haplotype conjunction
   [C16_Model.hap_strands] that [hap_dosage] and [calc_ld] are stated with. *)
From HV Require Import Prelude PearsonQ C16_Model C16_Check C16_Proofs C16_ProofsPerm C16_ModelBatch.
Open Scope Z_scope.

(* ---- the dictionary ------------------------------------------------------------------------------- *)

Lemma pair_eqb_eq x y : pair_eqb x y = true <-> x = y.
Proof.
  destruct x as [x1 x2], y as [y1 y2]. unfold pair_eqb. cbn [fst snd]. rewrite andb_true_iff, !Z.eqb_eq. split.
  - intros [-> ->]. reflexivity.
  - intro H. inversion H. split; reflexivity.
Qed.

Lemma pos_of_nth x keys : forall i, pos_of x keys = Some i -> nth_error keys i = Some x.
Proof.
  induction keys as [|a r IH]; intros i H; cbn [pos_of] in H; [discriminate|].
  destruct (pair_eqb x a) eqn:E.
  - inversion H; subst. apply pair_eqb_eq in E. subst. reflexivity.
  - destruct (pos_of x r) as [j|]; cbn [option_map] in H; [|discriminate]. inversion H; subst. cbn [nth_error].
    apply IH. reflexivity.
Qed.

Lemma pos_of_In x keys : In x keys -> exists i, pos_of x keys = Some i.
Proof.
  induction keys as [|a r IH]; intro H; [contradiction|]. cbn [pos_of].
  destruct (pair_eqb x a) eqn:E; [eexists; reflexivity|]. destruct H as [->|H].
  - rewrite (proj2 (pair_eqb_eq x x) eq_refl) in E. discriminate.
  - destruct (IH H) as [i Ei]. rewrite Ei. eexists. reflexivity.
Qed.

Lemma pos_of_app x keys ys : forall i, pos_of x keys = Some i -> pos_of x (keys ++ ys) = Some i.
Proof.
  induction keys as [|a r IH]; intros i H; cbn [pos_of app] in *; [discriminate|].
  destruct (pair_eqb x a); [exact H|]. destruct (pos_of x r) as [j|]; cbn [option_map] in H; [|discriminate].
  rewrite (IH j eq_refl). exact H.
Qed.

Lemma add_key_stable keys y x i : pos_of x keys = Some i -> pos_of x (add_key keys y) = Some i.
Proof. intro H. unfold add_key. destruct (pos_of y keys); [exact H|apply pos_of_app; exact H]. Qed.

Lemma fold_add_stable l : forall keys x i,
  pos_of x keys = Some i -> pos_of x (fold_left add_key l keys) = Some i.
Proof.
  induction l as [|a l IH]; intros keys x i H; [exact H|]. cbn [fold_left]. apply IH. apply add_key_stable. exact H.
Qed.

Lemma add_key_incl keys y x : In x keys -> In x (add_key keys y).
Proof. intro H. unfold add_key. destruct (pos_of y keys); [exact H|apply in_or_app; left; exact H]. Qed.

Lemma add_key_In keys y : In y (add_key keys y).
Proof.
  unfold add_key. destruct (pos_of y keys) as [i|] eqn:E.
  - apply pos_of_nth in E. eapply nth_error_In. exact E.
  - apply in_or_app. right. left. reflexivity.
Qed.

Lemma fold_add_In l : forall keys x, In x l \/ In x keys -> In x (fold_left add_key l keys).
Proof.
  induction l as [|a l IH]; intros keys x H; cbn [fold_left].
  - destruct H as [[]|H]. exact H.
  - apply IH. destruct H as [[->|H]|H].
    + right. apply add_key_In.
    + left. exact H.
    + right. apply add_key_incl. exact H.
Qed.

Lemma fold_add_sub l : forall keys x, In x (fold_left add_key l keys) -> In x l \/ In x keys.
Proof.
  induction l as [|a l IH]; intros keys x H; cbn [fold_left] in H; [right; exact H|].
  destruct (IH _ _ H) as [H1|H1]; [left; right; exact H1|].
  unfold add_key in H1. destruct (pos_of a keys); [right; exact H1|].
  apply in_app_or in H1. destruct H1 as [H1|[<-|[]]]; [right; exact H1|left; left; reflexivity].
Qed.

(* every (variant, allele) of every haplotype has an index, and that index holds this very pair *)
Lemma keys_of_index hs va :
  In va (flat_map h_vars hs) -> exists i, pos_of va (keys_of hs) = Some i /\ nth_error (keys_of hs) i = Some va.
Proof.
  intro H. destruct (pos_of_In va (keys_of hs)) as [i Ei].
  - unfold keys_of. apply fold_add_In. left. exact H.
  - exists i. split; [exact Ei|apply pos_of_nth; exact Ei].
Qed.

(* the dictionary holds nothing else *)
Lemma keys_of_sub hs va : In va (keys_of hs) -> In va (flat_map h_vars hs).
Proof. intro H. unfold keys_of in H. apply fold_add_sub in H. destruct H as [H|[]]. exact H. Qed.

(* ---- subset() and the equality columns ------------------------------------------------------------- *)

Lemma subset_known gs ids :
  (forall id, In id ids -> find_var id gs <> None) ->
  Forall2 (fun id g => find_var id gs = Some g) ids (subset_records gs ids).
Proof.
  induction ids as [|a r IH]; intro H; cbn [subset_records flat_map]; [constructor|].
  destruct (find_var a gs) as [g|] eqn:E; [|exfalso; apply (H a); [left; reflexivity|exact E]].
  cbn [app]. constructor; [exact E|]. apply IH. intros id Hid. apply H. right. exact Hid.
Qed.

(* the column the specification associates with a (variant, allele) pair *)
Definition col_of (gs : list gvar) (keep : list bool) (va : Z * Z) : option (list (bool * bool)) :=
  match find_var (fst va) gs with
  | Some g => match allele_index g (snd va) with Some k => Some (eq_col keep g k) | None => None end
  | None => None
  end.

Lemma eq_cols_spec gs keep keys : forall recs,
  Forall2 (fun id g => find_var id gs = Some g) (map fst keys) recs ->
  match eq_cols keep keys recs with
  | Ok cols => Forall2 (fun va c => col_of gs keep va = Some c) keys cols
  | Err e => e = E_Value /\ exists va, In va keys /\ col_of gs keep va = None
  end.
Proof.
  induction keys as [|[v a] ks IH]; intros recs F; cbn [eq_cols]; [constructor|].
  cbn [map fst] in F. inversion F as [|? g ? rs Eg F']; subst.
  destruct (allele_index g a) as [k|] eqn:Ek.
  - specialize (IH rs F'). destruct (eq_cols keep ks rs) as [cs|e]; cbn [bind].
    + constructor; [|exact IH]. unfold col_of. cbn [fst snd]. rewrite Eg, Ek. reflexivity.
    + destruct IH as [-> (va & Hva & Hc)]. split; [reflexivity|]. exists va. split; [right; exact Hva|exact Hc].
  - split; [reflexivity|]. exists (v, a). split; [left; reflexivity|]. unfold col_of. cbn [fst snd]. rewrite Eg, Ek. reflexivity.
Qed.

Lemma Forall2_nth_error {A B} (R : A -> B -> Prop) l1 l2 : Forall2 R l1 l2 ->
  forall i a, nth_error l1 i = Some a -> exists b, nth_error l2 i = Some b /\ R a b.
Proof.
  induction 1 as [|x y l1 l2 Hxy _ IH]; intros i a Hi; [destruct i; discriminate|].
  destruct i as [|i]; cbn [nth_error] in *.
  - inversion Hi; subst. exists y. split; [reflexivity|exact Hxy].
  - apply IH. exact Hi.
Qed.

(* ---- the AND of the selected columns is the per-haplotype conjunction ------------------------------- *)

Lemma and_step keep g k : forall acc,
  map (fun sc : (bool * bool) * (bool * bool) => and2 (fst sc) (snd sc)) (combine acc (eq_col keep g k))
  = strand_step k acc (select keep (gv_calls g)).
Proof.
  unfold eq_col, strand_step. generalize (select keep (gv_calls g)) as cs.
  intros cs acc. revert cs. induction acc as [|s acc IH]; intros [|c cs]; cbn [map combine]; try reflexivity.
  rewrite IH. destruct s, c. reflexivity.
Qed.

Lemma and_cols_cons init cols i idx :
  and_cols init cols (i :: idx)
  = and_cols (map (fun sc : (bool * bool) * (bool * bool) => and2 (fst sc) (snd sc)) (combine init (nth i cols []))) cols idx.
Proof. reflexivity. Qed.

Lemma and_cols_is_hap_strands gs keep keys cols :
  Forall2 (fun va c => col_of gs keep va = Some c) keys cols ->
  forall vars acc, (forall va, In va vars -> exists i, pos_of va keys = Some i) ->
  hap_strands gs keep vars acc = Ok (and_cols acc cols (map (key_index keys) vars)).
Proof.
  intro F. induction vars as [|[v a] r IH]; intros acc H; [reflexivity|].
  rewrite hap_strands_cons. cbn [map]. rewrite and_cols_cons.
  destruct (H (v, a) (or_introl eq_refl)) as [i Ei]. unfold key_index at 1. rewrite Ei.
  destruct (Forall2_nth_error _ _ _ F i (v, a) (pos_of_nth _ _ _ Ei)) as (c & Ec & Hc).
  unfold col_of in Hc. cbn [fst snd] in Hc.
  destruct (find_var v gs) as [g|]; [|discriminate]. destruct (allele_index g a) as [k|]; [|discriminate].
  inversion Hc; subst c. rewrite (nth_error_nth _ _ [] Ec), and_step.
  apply IH. intros va Hva. apply H. right. exact Hva.
Qed.

Lemma hap_strands_err_of gs keep vars : forall acc va,
  In va vars -> col_of gs keep va = None -> exists e, hap_strands gs keep vars acc = Err e.
Proof.
  induction vars as [|[v a] r IH]; intros acc va Hva Hc; [contradiction|]. rewrite hap_strands_cons.
  destruct (find_var v gs) as [g|] eqn:Eg; [|eexists; reflexivity].
  destruct (allele_index g a) as [k|] eqn:Ek; [|eexists; reflexivity].
  destruct Hva as [<-|Hva].
  - unfold col_of in Hc. cbn [fst snd] in Hc. rewrite Eg, Ek in Hc. discriminate.
  - eapply IH; eassumption.
Qed.

Lemma map_res_ok {A B} (f : A -> res B) (g : A -> B) l :
  (forall a, In a l -> f a = Ok (g a)) -> map_res f l = Ok (map g l).
Proof.
  induction l as [|a l IH]; intro H; [reflexivity|]. cbn [map_res map].
  rewrite (H a (or_introl eq_refl)). cbn [bind]. rewrite IH by (intros x Hx; apply H; right; exact Hx). reflexivity.
Qed.

Lemma map_res_err {A B} (f : A -> res B) l e :
  (forall a e', In a l -> f a = Err e' -> e' = e) ->
  (exists a e', In a l /\ f a = Err e') -> map_res f l = Err e.
Proof.
  induction l as [|a l IH]; intros K (x & e' & Hx & Ex); [contradiction|]. cbn [map_res].
  destruct (f a) as [b|e''] eqn:Ea; cbn [bind].
  - rewrite IH; [reflexivity| |].
    + intros y ey Hy. apply K. right. exact Hy.
    + destruct Hx as [<-|Hx]; [congruence|]. exists x, e'. split; assumption.
  - rewrite (K a e'' (or_introl eq_refl) Ea). reflexivity.
Qed.

(* Haplotypes.transform = the per-haplotype conjunction, for every set of haplotypes whose variants are
   among the loaded records (any order of the V lines, repeated variants, a variant with both alleles,
   haplotypes without V lines), the error ("Some alleles were not present": ValueError) included *)
Theorem batch_transform_refines gs keep hs :
  (forall h va, In h hs -> In va (h_vars h) -> find_var (fst va) gs <> None) ->
  batch_transform gs keep hs
  = map_res (fun h => hap_strands gs keep (h_vars h)
                        (map (fun _ : bool => (true, true)) (filter (fun k : bool => k) keep))) hs.
Proof.
  intro KN. unfold batch_transform. cbv zeta.
  set (keys := keys_of hs). set (init := map _ (filter _ keep)).
  assert (Forall2 (fun id g => find_var id gs = Some g) (map fst keys) (subset_records gs (map fst keys))) as F.
  { apply subset_known. intros id Hid. apply in_map_iff in Hid. destruct Hid as (va & <- & Hva).
    apply keys_of_sub in Hva. apply in_flat_map in Hva. destruct Hva as (h & Hh & Hva). eapply KN; eassumption. }
  pose proof (eq_cols_spec gs keep keys _ F) as S.
  destruct (eq_cols keep keys (subset_records gs (map fst keys))) as [cols|e]; cbn [bind].
  - symmetry. apply map_res_ok. intros h Hh. apply (and_cols_is_hap_strands gs keep keys cols S).
    intros va Hva. destruct (keys_of_index hs va) as (i & Ei & _); [|exists i; exact Ei].
    apply in_flat_map. exists h. split; assumption.
  - destruct S as [-> (va & Hva & Hc)]. symmetry. apply map_res_err.
    + intros h e' _ E. eapply hap_strands_err. exact E.
    + apply keys_of_sub in Hva. apply in_flat_map in Hva. destruct Hva as (h & Hh & Hva).
      destruct (hap_strands_err_of gs keep (h_vars h) init va Hva Hc) as [e' Ee]. exists h, e'. split; assumption.
Qed.

(* hence the dosages calc_ld lists are the batch transform's strand sums *)
Corollary batch_transform_dosages gs keep hs :
  (forall h va, In h hs -> In va (h_vars h) -> find_var (fst va) gs <> None) ->
  map_res (fun h => bind (hap_dosage gs keep h) (fun d => Ok (h_id h, d))) hs
  = bind (batch_transform gs keep hs)
         (fun cols => Ok (map (fun hc : hap * list (bool * bool) =>
                                 (h_id (fst hc), map (fun s : bool * bool => b2z (fst s) + b2z (snd s)) (snd hc)))
                              (combine hs cols))).
Proof.
  intro KN. rewrite (batch_transform_refines gs keep hs KN). clear KN. unfold hap_dosage.
  set (F := fun h : hap => hap_strands gs keep (h_vars h)
                             (map (fun _ : bool => (true, true)) (filter (fun k : bool => k) keep))).
  induction hs as [|h hs IH]; [reflexivity|]. cbn [map_res]. fold (F h).
  destruct (F h) as [st|e]; cbn [bind]; [|reflexivity].
  rewrite IH. destruct (map_res F hs) as [sts|e]; cbn [bind]; reflexivity.
Qed.

(* What the order of subset()'s result means: were subset() to leave the records in file order whenever as
   many are requested as are loaded, two haplotypes over two A>G variants, listed in the other order than the
   records, would silently receive each other's column. *)
Lemma shortcut_refuted :
  let gs := [mkgv 1 0 1 [(0,1); (1,1); (0,0); (1,0)] []; mkgv 2 0 1 [(0,0); (1,1); (0,1); (0,0)] []] in
  let hs := [mkhap 10 [(2, 1)]; mkhap 11 [(1, 1)]] in
  let keep := [true; true; true; true] in
  batch_transform gs keep hs
  = Ok [[(false, false); (true, true); (false, true); (false, false)];
        [(false, true); (true, true); (false, false); (true, false)]]
  /\ batch_transform_shortcut gs keep hs
     = Ok [[(false, true); (true, true); (false, false); (true, false)];
           [(false, false); (true, true); (false, true); (false, false)]].
Proof. vm_compute. split; reflexivity. Qed.
