(* C16 - haplotypes without V lines: the dosage is 2 for every kept sample (the empty conjunction holds
   on both strands), hence every R involving such a haplotype is NaN, in every mode, as a target and as a
   listed item; what the tree before fixes/C16_empty_haplotype.patch did instead, and that it differs
   from the repaired model for nothing else. *)
From HV Require Import Prelude PearsonQ C16_Model C16_Check C16_Proofs C16_ProofsPerm.
From Coq Require Import QArith.
Open Scope Z_scope.

Definition kept (keep : list bool) : list bool := filter (fun k : bool => k) keep.

Lemma hap_dosage_no_vlines gs keep h :
  h_vars h = [] -> hap_dosage gs keep h = Ok (map (fun _ => 2) (kept keep)).
Proof.
  intro E. unfold hap_dosage, kept. rewrite E. cbn [hap_strands bind]. rewrite map_map. reflexivity.
Qed.

(* ... which is the declarative reading: every strand carries all of the (no) alleles *)
Lemma strand_carries_nil gs keep i st : strand_carries gs keep [] i st.
Proof. intros v a []. Qed.

Lemma corr_constant_r t d c : (forall x, In x d -> x = c) -> corr t d = None.
Proof.
  intro H. apply corr_nan_iff. right. intros [a1 a2] [b1 b2] Ha Hb. unfold fy. cbn [snd].
  apply in_combine_r in Ha. apply in_combine_r in Hb. rewrite (H _ Ha), (H _ Hb). reflexivity.
Qed.

Lemma corr_constant_l t d c : (forall x, In x t -> x = c) -> corr t d = None.
Proof. intro H. rewrite <- corr_sym. eapply corr_constant_r. exact H. Qed.

Lemma corr_constant_both t d c : (forall x, In x d -> x = c) -> corr t d = None /\ corr d t = None.
Proof. intro H. split; [exact (corr_constant_r t d c H)|exact (corr_constant_l d t c H)]. Qed.

Lemma all_two (l : list bool) x : In x (map (fun _ : bool => 2) l) -> x = 2.
Proof. intro H. apply in_map_iff in H. destruct H as (b & <- & _). reflexivity. Qed.

Definition no_vlines (lines : list hline) (id : Z) : Prop :=
  exists h, find_hap id (load_haps None lines) = Some h /\ h_vars h = [].

Lemma no_vlines_is_hap lines id : no_vlines lines id -> memZ id (hap_ids lines) = true.
Proof. intros (h & E & _). rewrite th_mem, E. reflexivity. Qed.

Lemma no_vlines_dosage gs lines keep id :
  no_vlines lines id -> dosage_spec gs lines keep false id = Some (map (fun _ => 2) (kept keep)).
Proof. intros (h & E & V). unfold dosage_spec. rewrite E, (hap_dosage_no_vlines gs keep h V). reflexivity. Qed.

(* every R that involves a haplotype without V lines is NaN: all of them when it is the target, its own
   when it is listed *)
Lemma ld_no_vlines_nan target gs lines keep ids fg rows :
  NoDup (hap_ids lines) -> NoDup (var_ids gs) ->
  calc_ld false target gs lines keep ids fg = Ok rows ->
  (no_vlines lines target -> forall r, In r rows -> snd r = None)
  /\ (fg = false -> forall b r, In (b, r) rows -> no_vlines lines b -> r = None).
Proof.
  intros NDH NDV H. destruct (ld_rows_lemma _ _ _ _ _ _ _ NDH NDV H) as (td & S & K). split.
  - intros NV r Hr. rewrite (no_vlines_is_hap _ _ NV) in S. cbn [negb] in S.
    rewrite (no_vlines_dosage gs lines keep target NV) in S. inversion S; subst td.
    destruct (K r Hr) as (d & _ & E). rewrite E. eapply corr_constant_l. apply all_two.
  - intros -> b r Hb NV. destruct (K _ Hb) as (d & D & E). cbn [fst snd] in D, E.
    rewrite (no_vlines_dosage gs lines keep b NV) in D. inversion D; subst d.
    rewrite E. eapply corr_constant_r. apply all_two.
Qed.

(* ---- the pinned tree ----------------------------------------------------------------------------- *)

Lemma find_hap_load_filtered target flt lines :
  match flt with None => True | Some s => memZ target s = true end ->
  find_hap target (load_haps flt lines) = find_hap target (load_haps None lines).
Proof.
  intro M. unfold find_hap, load_haps. induction lines as [|ln r IH]; [reflexivity|].
  cbn [flat_map]. destruct ln as [h|i]; [|exact IH].
  destruct flt as [s|]; [|cbn [app find]; destruct (h_id h =? target); [reflexivity|exact IH]].
  cbn [app find]. destruct (h_id h =? target) eqn:E.
  - apply Z.eqb_eq in E. rewrite E, M. cbn [app find]. rewrite E, Z.eqb_refl. reflexivity.
  - destruct (memZ (h_id h) s); cbn [app find]; [rewrite E|]; exact IH.
Qed.

(* the tree before fixes/C16_empty_haplotype.patch is the repaired model except when the TARGET is a
   haplotype without V lines *)
Lemma pinned_differs_only_for_empty_target vcf target gs lines keep ids fg :
  ~ no_vlines lines target ->
  calc_ld_sw false vcf target gs lines keep ids fg = calc_ld false target gs lines keep ids fg.
Proof.
  intro NV. unfold calc_ld_sw, pinned_empty_target.
  rewrite find_hap_load_filtered.
  - destruct (find_hap target (load_haps None lines)) as [h|] eqn:E; [|reflexivity].
    destruct (h_vars h) eqn:V; [|reflexivity]. exfalso. apply NV. exists h. split; [exact E|exact V].
  - destruct fg; [exact I|]. destruct ids as [l|]; cbn [option_map]; [|exact I].
    rewrite memZ_cons, Z.eqb_refl. reflexivity.
Qed.

Lemma repaired_is_calc_ld vcf target gs lines keep ids fg :
  calc_ld_sw true vcf target gs lines keep ids fg = calc_ld false target gs lines keep ids fg.
Proof. reflexivity. Qed.

(* for such a target the pinned tree never lists anything: it raises ValueError, or (VCF input from which
   no record was selected) writes an empty listing *)
Lemma pinned_empty_target_lists_nothing vcf target gs lines keep ids fg rows :
  no_vlines lines target ->
  calc_ld_sw false vcf target gs lines keep ids fg = Ok rows -> rows = [].
Proof.
  intros (h & E & V). unfold calc_ld_sw, pinned_empty_target.
  rewrite find_hap_load_filtered.
  - rewrite E, V. destruct (vcf && _); [|discriminate]. destruct fg.
    + intro H. inversion H. reflexivity.
    + destruct (remove_hap target _); [|discriminate]. intro H. inversion H. reflexivity.
  - destruct fg; [exact I|]. destruct ids as [l|]; cbn [option_map]; [|exact I].
    rewrite memZ_cons, Z.eqb_refl. reflexivity.
Qed.

(* two variants, haplotype 5 without V lines, haplotype 6 = variant 0 ALT; target 5, .hap output.
   The property: 6 is listed once, R = nan.  The pinned tree: ValueError. *)
Definition witness16_empty (empty_ok : bool) (obs : res (list orow)) : lcase :=
  mkl 5 [mkgv 0 0 1 [(0, 1); (1, 1); (0, 0)] []; mkgv 1 0 1 [(0, 0); (1, 1); (0, 1)] []]
      [HL (mkhap 5 []); HL (mkhap 6 [(0, 1)])] [true; true; true] None false true empty_ok obs [].

Lemma pinned_empty_target_refuted :
  wf (witness16_empty true (Err E_Value)) = true
  /\ model_ld (witness16_empty false (Err E_Value)) = Err E_Value           (* the pinned tree *)
  /\ holds_ld (witness16_empty true (Err E_Value)) = false                  (* which violates the property *)
  /\ model_ld (witness16_empty true (Err E_Value)) = Ok [(6, None)]         (* the repaired tree *)
  /\ holds_ld (witness16_empty true (Ok [(6, None)])) = true
  /\ holds_ld (witness16_empty false (Err E_Value)) = true.                 (* switch off: not looked at *)
Proof. vm_compute. repeat split; reflexivity. Qed.

(* ---- what a pass of the checker says about such haplotypes ------------------------------------------ *)

Lemma is_empty_hap_no_vlines c id : is_empty_hap c id = true <-> no_vlines (l_lines c) id.
Proof.
  unfold is_empty_hap, no_vlines. split.
  - destruct (find_hap id (load_haps None (l_lines c))) as [h|]; [|discriminate].
    destruct (h_vars h) eqn:V; [|discriminate]. intros _. exists h. split; [reflexivity|exact V].
  - intros (h & E & V). rewrite E, V. reflexivity.
Qed.

Lemma r_near_spec_nan p : r_near_spec p None -> p = None.
Proof. destruct p; [contradiction|reflexivity]. Qed.

(* on a well-formed case that passes [holds_ld]: a listed haplotype without V lines was printed as nan,
   and when the target is one, every R was printed as nan *)
Lemma holds_ld_no_vlines c rows :
  wf c = true -> skipped c (l_target c) = false -> l_obs c = Ok rows -> holds_ld c = true ->
  (l_fg c = false -> forall b p, In (b, p) rows -> is_empty_hap c b = true -> p = None)
  /\ (is_empty_hap c (l_target c) = true -> forall b p, In (b, p) rows -> p = None).
Proof.
  intros W SK O H.
  (* the target exists, so it has a dosage *)
  assert (exists td, dosage_of c (negb (target_is_hap c)) (l_target c) = Some td
                     /\ (is_empty_hap c (l_target c) = true -> td = map (fun _ => 2) (kept (l_keep c)))) as (td & T & TE).
  { unfold wf in W. rewrite !andb_true_iff in W. destruct W as [[[_ HO] _] TG].
    unfold dosage_of, target_is_hap, is_empty_hap. rewrite th_mem.
    destruct (find_hap (l_target c) (load_haps None (l_lines c))) as [h|] eqn:E.
    - cbn [negb]. destruct (find_hap_some _ _ _ E) as [Hh _].
      rewrite forallb_forall in HO. specialize (HO h Hh).
      destruct (hap_dosage_ok (l_gs c) (l_gs c) (l_keep c) h HO (fun _ _ => eq_refl)) as [d Ed].
      rewrite Ed. exists d. split; [reflexivity|].
      destruct (h_vars h) eqn:V; [|discriminate]. intros _.
      rewrite (hap_dosage_no_vlines _ _ h V) in Ed. inversion Ed. reflexivity.
    - cbn [negb]. rewrite th_mem, E in TG. cbn [orb] in TG. destruct (find_var_present _ _ TG) as [g Eg].
      rewrite Eg. exists (var_dosage (l_keep c) g). split; [reflexivity|discriminate]. }
  destruct (holds_ld_sound c rows td W SK O T H) as (R & _). split.
  - intros FG b p Hb EB. destruct (R _ Hb) as (d & D & N). cbn [fst snd] in D, N.
    rewrite FG, dosage_of_spec in D. apply is_empty_hap_no_vlines in EB.
    rewrite (no_vlines_dosage _ _ _ _ EB) in D. inversion D; subst d.
    rewrite (corr_constant_r td _ 2 (all_two _)) in N. apply r_near_spec_nan. exact N.
  - intros ET b p Hb. destruct (R _ Hb) as (d & _ & N). cbn [fst snd] in N.
    rewrite (TE ET), (corr_constant_l _ d 2 (all_two _)) in N. apply r_near_spec_nan. exact N.
Qed.

(* inputs_ok admits haplotypes without V lines: first, in the middle, last, as the target *)
Lemma inputs_ok_empty_example :
  let gs := [mkgv 10 0 1 [(0,1); (1,1); (0,0); (1,0)] []; mkgv 11 0 1 [(0,0); (1,1); (0,1); (0,0)] []] in
  let lines := [HL (mkhap 7 []); HL (mkhap 1 [(10, 1); (11, 1)]); HL (mkhap 8 []); RL 2; HL (mkhap 3 [(11, 0)]); HL (mkhap 9 [])] in
  let keep := [true; true; false; true] in
  inputs_ok 7 gs lines keep = true /\ inputs_ok 10 gs lines keep = true
  /\ calc_ld false 8 gs lines keep None false = Ok [(7, None); (1, None); (3, None); (9, None)]
  /\ calc_ld false 8 gs lines keep None true = Ok [(10, None); (11, None)]
  /\ option_map (map (fun r : row => (fst r, match snd r with None => true | Some _ => false end)))
                (match calc_ld false 10 gs lines keep None false with Ok r => Some r | Err _ => None end)
     = Some [(7, true); (1, false); (8, true); (3, false); (9, true)].
Proof. vm_compute. repeat split; reflexivity. Qed.

(* ---- LD(A,B) = LD(B,A) on the implementation's two outputs ------------------------------------------ *)

(* on a well-formed case that passes [holds_ld]: the R printed for B in the run with target A and the R
   printed for A in the run with target B are both the three-decimal rendering of one exact number, the
   correlation of the two dosages *)
Lemma holds_ld_two_runs c rows td b p r :
  wf c = true -> skipped c (l_target c) = false -> l_obs c = Ok rows ->
  dosage_of c (negb (target_is_hap c)) (l_target c) = Some td ->
  holds_ld c = true ->
  In (b, p) rows -> In (b, Ok r) (l_sym c) -> skipped c b = false ->
  exists d, dosage_of c (l_fg c) b = Some d
            /\ r_near_spec p (corr td d) /\ r_near_spec r (corr td d)
            /\ (p = None <-> r = None).
Proof.
  intros W SK O T H Hp Hr SKb.
  destruct (holds_ld_sound c rows td W SK O T H) as (R & _ & _ & S).
  destruct (R _ Hp) as (d & D & N). cbn [fst snd] in D, N.
  destruct (S _ _ Hr SKb) as (d' & D' & _ & N'). rewrite D in D'. injection D' as <-.
  exists d. split; [exact D|]. split; [exact N|]. split; [exact N'|].
  destruct (corr td d) as [[s q]|], p as [p|], r as [r|]; cbn in N, N'; try contradiction; split; intro K; try discriminate; reflexivity.
Qed.
