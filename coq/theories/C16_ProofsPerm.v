(* C16 - the order of a haplotype's V lines does not matter; a haplotype's dosage counts the
   strands that carry all of its alleles; LD(A,B) = LD(B,A) across two runs of calc_ld. *)
From HV Require Import Prelude PearsonQ C16_Model C16_Check C16_Proofs.
From Coq Require Import QArith Permutation.
Open Scope Z_scope.

(* ---- one step of hap_strands ------------------------------------------------------------------ *)

Definition strand_step (k : Z) (acc : list (bool * bool)) (cs : list (Z * Z)) : list (bool * bool) :=
  map (fun sc : (bool * bool) * (Z * Z) =>
         let '(s, c) := sc in (fst s && (fst c =? k), snd s && (snd c =? k))) (combine acc cs).

Lemma hap_strands_cons gs keep v a r acc :
  hap_strands gs keep ((v, a) :: r) acc
  = match find_var v gs with
    | None => Err E_Value
    | Some g => match allele_index g a with
                | None => Err E_Value
                | Some k => hap_strands gs keep r (strand_step k acc (select keep (gv_calls g)))
                end
    end.
Proof. reflexivity. Qed.

Lemma strand_step_comm k1 k2 : forall acc c1 c2,
  strand_step k2 (strand_step k1 acc c1) c2 = strand_step k1 (strand_step k2 acc c2) c1.
Proof.
  induction acc as [|[s0 s1] acc IH]; intros [|[a1 b1] c1] [|[a2 b2] c2]; try reflexivity.
  unfold strand_step in *. cbn [combine map fst snd]. f_equal.
  - destruct s0, s1, (a1 =? k1), (a2 =? k2), (b1 =? k1), (b2 =? k2); reflexivity.
  - apply IH.
Qed.

Lemma hap_strands_err gs keep vars : forall acc e, hap_strands gs keep vars acc = Err e -> e = E_Value.
Proof.
  induction vars as [|[v a] r IH]; intros acc e H; [discriminate|]. rewrite hap_strands_cons in H.
  destruct (find_var v gs) as [g|]; [|inversion H; reflexivity].
  destruct (allele_index g a) as [k|]; [|inversion H; reflexivity]. eapply IH. exact H.
Qed.

(* the V lines of a haplotype may be given in any order *)
Lemma hap_strands_perm gs keep l l' :
  Permutation l l' -> forall acc, hap_strands gs keep l acc = hap_strands gs keep l' acc.
Proof.
  induction 1 as [|[v a] l l' P IH|[v1 a1] [v2 a2] l|l1 l2 l3 P1 IH1 P2 IH2]; intro acc.
  - reflexivity.
  - rewrite !hap_strands_cons. destruct (find_var v gs) as [g|]; [|reflexivity].
    destruct (allele_index g a); [apply IH|reflexivity].
  - rewrite (hap_strands_cons gs keep v1 a1), (hap_strands_cons gs keep v2 a2).
    destruct (find_var v1 gs) as [g1|] eqn:E1, (find_var v2 gs) as [g2|] eqn:E2.
    + destruct (allele_index g1 a1) as [k1|] eqn:K1, (allele_index g2 a2) as [k2|] eqn:K2;
        rewrite ?hap_strands_cons, ?E1, ?E2, ?K1, ?K2; try reflexivity.
      rewrite strand_step_comm. reflexivity.
    + destruct (allele_index g1 a1) eqn:K1; rewrite ?hap_strands_cons, ?E2; reflexivity.
    + destruct (allele_index g2 a2) eqn:K2; rewrite ?hap_strands_cons, ?E1; reflexivity.
    + reflexivity.
  - rewrite IH1. apply IH2.
Qed.

Lemma hap_dosage_perm gs keep h h' :
  Permutation (h_vars h) (h_vars h') -> hap_dosage gs keep h = hap_dosage gs keep h'.
Proof. intro P. unfold hap_dosage. rewrite (hap_strands_perm gs keep _ _ P). reflexivity. Qed.

(* ---- a haplotype's dosage = number of strands carrying all of its alleles ----------------------- *)

(* the allele index called on strand [st] (false = first, true = second) of the i-th kept sample *)
Definition strand_call (cs : list (Z * Z)) (i : nat) (st : bool) : option Z :=
  option_map (fun c : Z * Z => if st then snd c else fst c) (nth_error cs i).

(* strand (i, st) carries every allele of [vars]: for each (variant, allele) the variant is in the
   genotypes, the allele is one of its alleles, and the strand's call is that allele's index.
   Depends on [vars] only through membership, hence not on its order. *)
Definition strand_carries (gs : list gvar) (keep : list bool) (vars : list (Z * Z)) (i : nat) (st : bool) : Prop :=
  forall v a, In (v, a) vars ->
    exists g k, find_var v gs = Some g /\ allele_index g a = Some k
                /\ strand_call (select keep (gv_calls g)) i st = Some k.

Definition carries_allele (gs : list gvar) (keep : list bool) (i : nat) (st : bool) (va : Z * Z) : bool :=
  match find_var (fst va) gs with
  | Some g => match allele_index g (snd va), strand_call (select keep (gv_calls g)) i st with
              | Some k, Some c => c =? k
              | _, _ => false end
  | None => false end.

Definition carriesb (gs : list gvar) (keep : list bool) (vars : list (Z * Z)) (i : nat) (st : bool) : bool :=
  forallb (carries_allele gs keep i st) vars.

Lemma carriesb_spec gs keep vars i st :
  carriesb gs keep vars i st = true <-> strand_carries gs keep vars i st.
Proof.
  unfold carriesb, strand_carries. rewrite forallb_forall. split.
  - intros H v a Hva. specialize (H _ Hva). unfold carries_allele in H. cbn [fst snd] in H.
    destruct (find_var v gs) as [g|] eqn:E1; [|discriminate].
    destruct (allele_index g a) as [k|] eqn:E2; [|discriminate].
    destruct (strand_call (select keep (gv_calls g)) i st) as [c|] eqn:E3; [|discriminate].
    apply Z.eqb_eq in H. subst. exists g, k. split; [reflexivity|]. split; [exact E2|exact E3].
  - intros H [v a] Hva. destruct (H v a Hva) as (g & k & E1 & E2 & E3). unfold carries_allele. cbn [fst snd].
    rewrite E1, E2, E3. apply Z.eqb_refl.
Qed.

Lemma strand_carries_perm gs keep l l' i st :
  Permutation l l' -> strand_carries gs keep l i st <-> strand_carries gs keep l' i st.
Proof.
  intro P. unfold strand_carries. split; intros H v a Hva; apply H.
  - eapply Permutation_in; [apply Permutation_sym; exact P|exact Hva].
  - eapply Permutation_in; [exact P|exact Hva].
Qed.

Lemma strand_step_length k acc cs : length cs = length acc -> length (strand_step k acc cs) = length acc.
Proof. intro E. unfold strand_step. rewrite map_length, combine_length, E. apply Nat.min_id. Qed.

Lemma strand_step_nth k : forall acc cs i a c,
  nth_error acc i = Some a -> nth_error cs i = Some c ->
  nth_error (strand_step k acc cs) i = Some (fst a && (fst c =? k), snd a && (snd c =? k)).
Proof.
  induction acc as [|s acc IH]; intros cs i a c Ha Hc; [destruct i; discriminate|].
  destruct cs as [|c0 cs]; [destruct i; discriminate|]. destruct i as [|i].
  - cbn in Ha, Hc. inversion Ha; inversion Hc; subst. reflexivity.
  - cbn in Ha, Hc. unfold strand_step. cbn [combine map nth_error]. apply IH; assumption.
Qed.

Lemma hap_strands_length gs keep vars : forall acc out,
  (forall va g, In va vars -> find_var (fst va) gs = Some g -> length (select keep (gv_calls g)) = length acc) ->
  hap_strands gs keep vars acc = Ok out -> length out = length acc.
Proof.
  induction vars as [|[v a] r IH]; intros acc out L H.
  - inversion H. reflexivity.
  - rewrite hap_strands_cons in H. destruct (find_var v gs) as [g|] eqn:Eg; [|discriminate].
    destruct (allele_index g a) as [k|]; [|discriminate].
    pose proof (L (v, a) g (or_introl eq_refl) Eg) as Lg.
    assert (forall va g', In va r -> find_var (fst va) gs = Some g' ->
              length (select keep (gv_calls g')) = length (strand_step k acc (select keep (gv_calls g)))) as L'.
    { intros va g' Hva Eg'. rewrite strand_step_length by exact Lg. apply (L va g'); [right; exact Hva|exact Eg']. }
    rewrite (IH _ _ L' H). apply strand_step_length. exact Lg.
Qed.

Lemma carriesb_cons gs keep va r i st :
  carriesb gs keep (va :: r) i st = carries_allele gs keep i st va && carriesb gs keep r i st.
Proof. reflexivity. Qed.

Lemma carries_allele_eq gs keep i st v a g k c :
  find_var v gs = Some g -> allele_index g a = Some k -> nth_error (select keep (gv_calls g)) i = Some c ->
  carries_allele gs keep i st (v, a) = ((if st then snd c else fst c) =? k).
Proof.
  intros Eg Ek Hc. unfold carries_allele, strand_call. cbn [fst snd]. rewrite Eg, Ek, Hc. reflexivity.
Qed.

Lemma hap_strands_char gs keep vars : forall acc out,
  (forall va g, In va vars -> find_var (fst va) gs = Some g -> length (select keep (gv_calls g)) = length acc) ->
  hap_strands gs keep vars acc = Ok out ->
  forall i s, nth_error acc i = Some s ->
    nth_error out i = Some (fst s && carriesb gs keep vars i false, snd s && carriesb gs keep vars i true).
Proof.
  induction vars as [|[v a] r IH]; intros acc out L H i s Hs.
  - inversion H; subst. cbn [carriesb forallb]. rewrite !andb_true_r, Hs. destruct s; reflexivity.
  - rewrite hap_strands_cons in H. destruct (find_var v gs) as [g|] eqn:Eg; [|discriminate].
    destruct (allele_index g a) as [k|] eqn:Ek; [|discriminate].
    pose proof (L (v, a) g (or_introl eq_refl) Eg) as Lg.
    assert (exists c, nth_error (select keep (gv_calls g)) i = Some c) as [c Hc].
    { destruct (nth_error (select keep (gv_calls g)) i) as [c|] eqn:E; [exists c; reflexivity|].
      apply nth_error_None in E. assert (nth_error acc i <> None) as K by congruence.
      apply nth_error_Some in K. rewrite Lg in E. exfalso. apply (Nat.lt_irrefl i).
      eapply Nat.lt_le_trans; eassumption. }
    assert (forall va g', In va r -> find_var (fst va) gs = Some g' ->
              length (select keep (gv_calls g')) = length (strand_step k acc (select keep (gv_calls g)))) as L'.
    { intros va g' Hva Eg'. rewrite strand_step_length by exact Lg. apply (L va g'); [right; exact Hva|exact Eg']. }
    rewrite (IH _ _ L' H i _ (strand_step_nth k acc _ i s c Hs Hc)).
    cbn [fst snd]. rewrite !carriesb_cons, !(carries_allele_eq gs keep i _ v a g k c Eg Ek Hc), !andb_assoc.
    reflexivity.
Qed.

Lemma select_length {A} : forall (keep : list bool) (l : list A),
  length l = length keep -> length (select keep l) = length (filter (fun k : bool => k) keep).
Proof.
  induction keep as [|k keep IH]; intros [|a l] E; try reflexivity; try discriminate.
  cbn [select filter]. destruct k; cbn [length]; rewrite IH by (cbn in E; congruence); reflexivity.
Qed.

Lemma find_var_in v gs g : find_var v gs = Some g -> In g gs.
Proof. unfold find_var. intro H. apply find_some in H. tauto. Qed.

Lemma hap_dosage_char gs keep h d :
  (forall g, In g gs -> length (gv_calls g) = length keep) ->
  hap_dosage gs keep h = Ok d ->
  length d = length (filter (fun k : bool => k) keep)
  /\ forall i, (i < length d)%nat ->
       nth_error d i = Some (b2z (carriesb gs keep (h_vars h) i false) + b2z (carriesb gs keep (h_vars h) i true)).
Proof.
  intros RECT H. unfold hap_dosage in H.
  set (acc := map (fun _ : bool => (true, true)) (filter (fun k : bool => k) keep)) in H.
  destruct (hap_strands gs keep (h_vars h) acc) as [st|e] eqn:E; cbn [bind] in H; [|discriminate].
  inversion H; subst d; clear H.
  assert (length acc = length (filter (fun k : bool => k) keep)) as LA by (unfold acc; apply map_length).
  assert (forall va g, In va (h_vars h) -> find_var (fst va) gs = Some g ->
                       length (select keep (gv_calls g)) = length acc) as L.
  { intros va g _ Eg. rewrite LA. apply select_length. apply RECT. eapply find_var_in. exact Eg. }
  pose proof (hap_strands_length _ _ _ _ _ L E) as LS.
  split; [rewrite map_length, LS; exact LA|].
  intros i Hi. rewrite map_length, LS in Hi.
  assert (nth_error acc i = Some (true, true)) as Hs.
  { unfold acc. rewrite nth_error_map. rewrite LA in Hi. apply nth_error_Some in Hi.
    destruct (nth_error (filter (fun k : bool => k) keep) i); [reflexivity|congruence]. }
  rewrite nth_error_map, (hap_strands_char _ _ _ _ _ L E i _ Hs). reflexivity.
Qed.

Lemma hap_dosage_counts_strands gs keep h d :
  (forall g, In g gs -> length (gv_calls g) = length keep) ->
  hap_dosage gs keep h = Ok d ->
  length d = length (filter (fun k : bool => k) keep)
  /\ forall i, (i < length d)%nat ->
       exists b0 b1, nth_error d i = Some (b2z b0 + b2z b1)
                     /\ (b0 = true <-> strand_carries gs keep (h_vars h) i false)
                     /\ (b1 = true <-> strand_carries gs keep (h_vars h) i true).
Proof.
  intros RECT H. destruct (hap_dosage_char _ _ _ _ RECT H) as [L N]. split; [exact L|].
  intros i Hi. exists (carriesb gs keep (h_vars h) i false), (carriesb gs keep (h_vars h) i true).
  split; [apply N; exact Hi|]. split; apply carriesb_spec.
Qed.

(* ---- LD(A,B) = LD(B,A) across two runs ------------------------------------------------------------ *)

Lemma listing_kind target gs lines ids fg id :
  In id (listing_spec target gs lines ids fg) -> if fg then In id (var_ids gs) else In id (hap_ids lines).
Proof.
  unfold listing_spec. destruct fg.
  - destruct (memZ target (hap_ids lines)).
    + destruct ids as [l|]; [|tauto]. intro H. apply filter_In in H. apply memZ_In. tauto.
    + intro H. apply filter_In in H. tauto.
  - intro H. apply filter_In in H. tauto.
Qed.

Lemma nodup_app_disjoint {A} (l l' : list A) x : NoDup (l ++ l') -> In x l -> In x l' -> False.
Proof.
  induction l as [|a l IH]; intros ND H H'; [contradiction|].
  cbn in ND. inversion ND as [|? ? NI ND']; subst. destruct H as [->|H].
  - apply NI. apply in_or_app. right. exact H'.
  - apply IH; assumption.
Qed.

Lemma nodup_app_parts {A} (l l' : list A) : NoDup (l ++ l') -> NoDup l /\ NoDup l'.
Proof.
  induction l as [|a l IH]; intro ND; [split; [constructor|exact ND]|].
  cbn in ND. inversion ND as [|? ? NI ND']; subst. destruct (IH ND') as [N1 N2]. split; [|exact N2].
  constructor; [|exact N1]. intro K. apply NI. apply in_or_app. left. exact K.
Qed.

Lemma listed_kind_is_target_kind target gs lines keep ids fg rows b r :
  NoDup (hap_ids lines ++ var_ids gs) ->
  calc_ld false target gs lines keep ids fg = Ok rows -> In (b, r) rows ->
  fg = negb (memZ b (hap_ids lines)).
Proof.
  intros ND H Hb. assert (In b (map fst rows)) as K by (change b with (fst (b, r)); apply in_map; exact Hb).
  rewrite (ld_listing_lemma _ _ _ _ _ _ _ H) in K. apply listing_kind in K. destruct fg.
  - destruct (memZ b (hap_ids lines)) eqn:E; [|reflexivity]. apply memZ_In in E.
    exfalso. eapply nodup_app_disjoint; eassumption.
  - apply memZ_In in K. rewrite K. reflexivity.
Qed.

(* whatever the two modes and --id lists: if B is listed with target A and A is listed with target B,
   the two R are the same *)
Lemma ld_symmetric gs lines keep A B idsA idsB fgA fgB rowsA rowsB rA rB :
  NoDup (hap_ids lines ++ var_ids gs) ->
  calc_ld false A gs lines keep idsA fgA = Ok rowsA -> In (B, rA) rowsA ->
  calc_ld false B gs lines keep idsB fgB = Ok rowsB -> In (A, rB) rowsB ->
  rA = rB.
Proof.
  intros ND RA IA RB IB.
  destruct (nodup_app_parts _ _ ND) as [NDH NDV].
  destruct (ld_rows_lemma _ _ _ _ _ _ _ NDH NDV RA) as (tdA & SA & KA).
  destruct (ld_rows_lemma _ _ _ _ _ _ _ NDH NDV RB) as (tdB & SB & KB).
  destruct (KA _ IA) as (dB & DB & EA). destruct (KB _ IB) as (dA & DA & EB). cbn [fst snd] in *.
  rewrite (listed_kind_is_target_kind _ _ _ _ _ _ _ _ _ ND RA IA), SB in DB.
  rewrite (listed_kind_is_target_kind _ _ _ _ _ _ _ _ _ ND RB IB), SA in DA.
  inversion DB; inversion DA; subst. apply corr_sym.
Qed.

(* ---- calc_ld does not depend on the order of the V lines ----------------------------------------- *)

Definition hap_perm (h h' : hap) : Prop := h_id h = h_id h' /\ Permutation (h_vars h) (h_vars h').

(* the same H and R lines in the same order, every haplotype's V lines in any order *)
Definition hline_perm (a b : hline) : Prop :=
  match a, b with
  | HL h, HL h' => hap_perm h h'
  | RL i, RL j => i = j
  | _, _ => False
  end.

Lemma load_haps_perm flt lines lines' :
  Forall2 hline_perm lines lines' -> Forall2 hap_perm (load_haps flt lines) (load_haps flt lines').
Proof.
  induction 1 as [|a b l l' Hab _ IH]; [constructor|]. unfold load_haps in *. cbn [flat_map].
  apply Forall2_app; [|exact IH]. destruct a as [h|i], b as [h'|j]; cbn in Hab; try contradiction; [|constructor].
  destruct Hab as [Eid P]. rewrite Eid.
  destruct (match flt with Some s => memZ (h_id h') s | None => true end); [|constructor].
  constructor; [split; assumption|constructor].
Qed.

Lemma find_hap_perm t hs hs' :
  Forall2 hap_perm hs hs' ->
  match find_hap t hs, find_hap t hs' with
  | Some h, Some h' => hap_perm h h'
  | None, None => True
  | _, _ => False
  end.
Proof.
  unfold find_hap. induction 1 as [|h h' l l' [Eid P] _ IH]; [exact I|]. cbn [find]. rewrite Eid.
  destruct (h_id h' =? t); [split; assumption|exact IH].
Qed.

Lemma remove_hap_perm t hs hs' :
  Forall2 hap_perm hs hs' -> Forall2 hap_perm (remove_hap t hs) (remove_hap t hs').
Proof.
  unfold remove_hap. induction 1 as [|h h' l l' [Eid P] _ IH]; [constructor|]. cbn [filter]. rewrite Eid.
  destruct (negb (h_id h' =? t)); [constructor; [split; assumption|exact IH]|exact IH].
Qed.

Lemma memZ_perm x l l' : Permutation l l' -> memZ x l = memZ x l'.
Proof.
  induction 1 as [|a l l' P IH|a b l|l1 l2 l3 P1 IH1 P2 IH2]; rewrite ?memZ_cons.
  - reflexivity.
  - rewrite IH. reflexivity.
  - destruct (x =? a), (x =? b); reflexivity.
  - rewrite IH1. exact IH2.
Qed.

Lemma hap_vars_memZ_perm x h h' : hap_perm h h' -> memZ x (map fst (h_vars h)) = memZ x (map fst (h_vars h')).
Proof. intros [_ P]. apply memZ_perm. apply Permutation_map. exact P. Qed.

Lemma haps_vars_memZ_perm x hs hs' :
  Forall2 hap_perm hs hs' ->
  memZ x (flat_map (fun h => map fst (h_vars h)) hs) = memZ x (flat_map (fun h => map fst (h_vars h)) hs').
Proof.
  induction 1 as [|h h' l l' Hh _ IH]; [reflexivity|]. cbn [flat_map].
  rewrite !memZ_app, IH, (hap_vars_memZ_perm x h h' Hh). reflexivity.
Qed.

Lemma map_res_perm gs keep hs hs' :
  Forall2 hap_perm hs hs' ->
  map_res (fun h => bind (hap_dosage gs keep h) (fun d => Ok (h_id h, d))) hs
  = map_res (fun h => bind (hap_dosage gs keep h) (fun d => Ok (h_id h, d))) hs'.
Proof.
  induction 1 as [|h h' l l' [Eid P] _ IH]; [reflexivity|]. cbn [map_res].
  rewrite IH, Eid, (hap_dosage_perm gs keep h h' P). reflexivity.
Qed.

Lemma loaded_ext (s s' : list Z) (gs : list gvar) :
  (forall x, memZ x s = memZ x s') ->
  filter (fun g => memZ (gv_id g) s) gs = filter (fun g => memZ (gv_id g) s') gs.
Proof. intro H. apply filter_ext. intro g. apply H. Qed.

Lemma dedup_perm_length l l' : Permutation l l' -> lenZ (dedup l) = lenZ (dedup l').
Proof.
  intro P. unfold lenZ. f_equal. apply Permutation_length.
  apply NoDup_Permutation; [apply dedup_nodup|apply dedup_nodup|].
  intro x. rewrite !dedup_in. split; apply Permutation_in; [exact P|apply Permutation_sym; exact P].
Qed.

Lemma tnl_perm legacy th s s' t loaded :
  Permutation s s' ->
  target_not_loaded legacy th (Some s) t loaded = target_not_loaded legacy th (Some s') t loaded.
Proof. intro P. unfold target_not_loaded. rewrite (dedup_perm_length s s' P). reflexivity. Qed.

Lemma haps_vars_perm hs hs' :
  Forall2 hap_perm hs hs' ->
  Permutation (flat_map (fun h => map fst (h_vars h)) hs) (flat_map (fun h => map fst (h_vars h)) hs').
Proof.
  induction 1 as [|h h' l l' [_ P] _ IH]; [constructor|]. cbn [flat_map].
  apply Permutation_app; [apply Permutation_map; exact P|exact IH].
Qed.

Lemma calc_ld_perm target gs lines lines' keep ids fg :
  Forall2 hline_perm lines lines' ->
  calc_ld false target gs lines keep ids fg = calc_ld false target gs lines' keep ids fg.
Proof.
  intro P. unfold calc_ld. cbv zeta. destruct fg.
  - pose proof (load_haps_perm None _ _ P) as HS.
    pose proof (find_hap_perm target _ _ HS) as TH.
    destruct (find_hap target (load_haps None lines)) as [h|], (find_hap target (load_haps None lines')) as [h'|];
      try contradiction; [|reflexivity].
    destruct ids as [l|]; cbn [bind].
    + rewrite (loaded_ext (l ++ map fst (h_vars h)) (l ++ map fst (h_vars h')) gs)
        by (intro x; rewrite !memZ_app, (hap_vars_memZ_perm x h h' TH); reflexivity).
      rewrite (hap_dosage_perm _ keep h h' (proj2 TH)). reflexivity.
    + rewrite (hap_dosage_perm _ keep h h' (proj2 TH)). reflexivity.
  - pose proof (load_haps_perm (option_map (fun l => target :: l) ids) _ _ P) as HS.
    set (hs := load_haps _ lines) in *. set (hs' := load_haps _ lines') in *.
    pose proof (find_hap_perm target _ _ HS) as TH.
    destruct (find_hap target hs) as [h|], (find_hap target hs') as [h'|]; try contradiction; cbn [bind].
    + rewrite (loaded_ext _ _ gs (fun x => haps_vars_memZ_perm x hs hs' HS)).
      rewrite (map_res_perm _ keep _ _ (remove_hap_perm target _ _ HS)).
      rewrite (hap_dosage_perm _ keep h h' (proj2 TH)). reflexivity.
    + rewrite (loaded_ext (target :: flat_map (fun h => map fst (h_vars h)) hs)
                          (target :: flat_map (fun h => map fst (h_vars h)) hs') gs)
        by (intro x; rewrite !memZ_cons, (haps_vars_memZ_perm x hs hs' HS); reflexivity).
      rewrite (tnl_perm false None _ _ target _ (perm_skip target (haps_vars_perm hs hs' HS))).
      rewrite (map_res_perm _ keep _ _ HS). reflexivity.
Qed.
