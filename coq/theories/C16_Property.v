(* C16 - property theorems only. *)
From HV Require Import Prelude PearsonQ C16_Model C16_Check C16_Proofs C16_ProofsPerm C16_ProofsEmpty C16_ModelBatch C16_ProofsBatch.
From Coq Require Import QArith Permutation.
Open Scope Z_scope.

(* LD(A,B) = LD(B,A): the statistic is symmetric in the two dosage vectors *)
Theorem C16_pearson_sym :
  forall t d, corr d t = corr t d.
Proof. exact corr_sym. Qed.
Print Assumptions C16_pearson_sym.

(* NaN exactly when one of the two dosage vectors is constant over the samples *)
Theorem C16_pearson_nan_iff_constant :
  forall t d, corr t d = None <-> constant_on fx (combine t d) \/ constant_on fy (combine t d).
Proof. exact corr_nan_iff. Qed.
Print Assumptions C16_pearson_nan_iff_constant.

(* Cauchy-Schwarz: the squared correlation is in [0,1] *)
Theorem C16_pearson_sq_le_1 :
  forall t d s r, corr t d = Some (s, r) -> (0 <= r <= 1)%Q.
Proof. exact corr_sq_le_1. Qed.
Print Assumptions C16_pearson_sq_le_1.

(* What calc_ld lists, in every mode: [listing_spec] (C16_Proofs.v) spells out the IDs and
   their order - .hap mode: the requested haplotypes of the file, in file order, without
   the target; --from-gts with a haplotype target: every variant in file order, or the
   requested variants in --id order; --from-gts with a variant target: the requested
   variants and the target, in file order. *)
Theorem C16_ld_listing :
  forall target gs lines keep ids fg rows,
  calc_ld false target gs lines keep ids fg = Ok rows ->
  map fst rows = listing_spec target gs lines ids fg.
Proof. exact ld_listing_lemma. Qed.
Print Assumptions C16_ld_listing.

(* every requested haplotype or variant is listed, and nothing is listed twice *)
Theorem C16_ld_requested_listed_once :
  forall target gs lines keep ids fg rows,
  calc_ld false target gs lines keep ids fg = Ok rows ->
  NoDup (hap_ids lines) -> NoDup (var_ids gs) -> match ids with Some l => NoDup l | None => True end ->
  NoDup (map fst rows) /\
  forall id, req_in ids id ->
    (if fg then In id (var_ids gs) else In id (hap_ids lines) /\ id <> target) -> In id (map fst rows).
Proof. exact requested_listed_once. Qed.
Print Assumptions C16_ld_requested_listed_once.

(* the target haplotype itself is not listed *)
Theorem C16_ld_target_haplotype_not_listed :
  forall target gs lines keep ids rows,
  calc_ld false target gs lines keep ids false = Ok rows -> ~ In target (map fst rows).
Proof. exact target_hap_not_listed. Qed.
Print Assumptions C16_ld_target_haplotype_not_listed.

(* a variant target is listed among the variants with --from-gts *)
Theorem C16_ld_variant_target_listed :
  forall target gs lines keep ids rows,
  calc_ld false target gs lines keep ids true = Ok rows ->
  ~ In target (hap_ids lines) -> In target (var_ids gs) -> In target (map fst rows).
Proof. exact variant_target_listed. Qed.
Print Assumptions C16_ld_variant_target_listed.

(* no mode raises: biallelic phased calls without missing values for the kept samples,
   a .hap set whose alleles exist in the genotypes (a haplotype may have no V line at all),
   a target that is a haplotype or a variant *)
Theorem C16_ld_modes_total :
  forall target gs lines keep ids fg,
  inputs_ok target gs lines keep = true ->
  exists rows, calc_ld false target gs lines keep ids fg = Ok rows.
Proof. exact ld_modes_total_lemma. Qed.
Print Assumptions C16_ld_modes_total.

(* ... which the pinned tree violated: a variant target with --from-gts raised AttributeError *)
Example C16_legacy_variant_fromgts_refuted :
  wf witness16 = true /\ legacy_ld witness16 = Err E_Attr /\ holds_ld witness16 = false
  /\ model_ld witness16 = Ok [(0, None)].
Proof. exact legacy_refuted. Qed.
Print Assumptions C16_legacy_variant_fromgts_refuted.

(* the boolean checkers mean what the property says *)
Theorem C16_r_near_sound :
  forall printed m, r_near printed m = true -> r_near_spec printed m.
Proof. exact r_near_sound. Qed.
Print Assumptions C16_r_near_sound.

(* [skipped c id]: the switch STRICT_EMPTY_HAPLOTYPE is off and [id] is a haplotype without V lines (runs
   with such a TARGET are not looked at then); with the switch on it is [false] for every id *)
Theorem C16_holds_ld_sound :
  forall c rows td,
  wf c = true -> skipped c (l_target c) = false -> l_obs c = Ok rows ->
  dosage_of c (negb (target_is_hap c)) (l_target c) = Some td ->
  holds_ld c = true ->
  (forall r, In r rows -> exists d, dosage_of c (l_fg c) (fst r) = Some d /\ r_near_spec (snd r) (corr td d))
  /\ (forall id, In id (requested c) -> countZ id (map fst rows) = 1)
  /\ (target_is_hap c = true -> ~ In (l_target c) (map fst rows))
  (* LD(A,B) = LD(B,A): the R printed for the target in the run whose target is the listed item b *)
  /\ (forall b r, In (b, Ok r) (l_sym c) -> skipped c b = false ->
        exists d, dosage_of c (l_fg c) b = Some d /\ r_near_spec r (corr d td) /\ r_near_spec r (corr td d)).
Proof. exact holds_ld_sound. Qed.
Print Assumptions C16_holds_ld_sound.

(* Every R of the model is the Pearson correlation of the target's and the listed item's
   dosage computed from the whole matrix (a haplotype's dosage = number of strands carrying
   all of its alleles; a variant's = the sum of its two calls). *)
Theorem C16_ld_rows_are_correlations :
  forall target gs lines keep ids fg rows,
  NoDup (hap_ids lines) -> NoDup (var_ids gs) ->
  calc_ld false target gs lines keep ids fg = Ok rows ->
  exists td, dosage_spec gs lines keep (negb (memZ target (hap_ids lines))) target = Some td
             /\ forall r, In r rows -> row_ok gs lines keep fg td r.
Proof. exact ld_rows_lemma. Qed.
Print Assumptions C16_ld_rows_are_correlations.

(* the .hap and the .ld output modes agree: R(A) for target variant T in .hap mode is
   R(T) for target haplotype A in --from-gts mode *)
Theorem C16_hap_and_ld_outputs_agree :
  forall gs lines keep T A rows1 rows2 r1 r2,
  NoDup (hap_ids lines) -> NoDup (var_ids gs) ->
  ~ In T (hap_ids lines) -> In A (hap_ids lines) ->
  calc_ld false T gs lines keep None false = Ok rows1 -> In (A, r1) rows1 ->
  calc_ld false A gs lines keep None true = Ok rows2 -> In (T, r2) rows2 ->
  r1 = r2.
Proof. exact hap_and_ld_outputs_agree_lemma. Qed.
Print Assumptions C16_hap_and_ld_outputs_agree.

(* the hypotheses are satisfiable, and the statement has content *)
Example C16_outputs_agree_example :
  let gs := [mkgv 10 0 1 [(0,1); (1,1); (0,0); (1,0)] []; mkgv 11 0 1 [(0,0); (1,1); (0,1); (0,0)] []] in
  let lines := [HL (mkhap 1 [(10, 1); (11, 1)]); RL 2; HL (mkhap 3 [(11, 0)])] in
  let keep := [true; true; true; true] in
  exists r, In (1, r) (match calc_ld false 10 gs lines keep None false with Ok x => x | Err _ => [] end)
         /\ In (10, r) (match calc_ld false 1 gs lines keep None true with Ok x => x | Err _ => [] end)
         /\ r <> None.
Proof. eexists. vm_compute. split; [left; reflexivity|]. split; [left; reflexivity|discriminate]. Qed.
Print Assumptions C16_outputs_agree_example.

(* the precondition of C16_ld_modes_total is satisfiable (two variants, two haplotypes and a repeat) *)
Example C16_inputs_ok_example :
  let gs := [mkgv 10 0 1 [(0,1); (1,1); (0,0); (1,0)] []; mkgv 11 0 1 [(0,0); (1,1); (0,1); (0,0)] []] in
  let lines := [HL (mkhap 1 [(10, 1); (11, 1)]); RL 2; HL (mkhap 3 [(11, 0)])] in
  inputs_ok 10 gs lines [true; false; true; true] = true /\ inputs_ok 3 gs lines [true; true; true; true] = true.
Proof. vm_compute. split; reflexivity. Qed.
Print Assumptions C16_inputs_ok_example.

(* Through the repaired entry point (an ID repeated with --id counts once) every requested
   haplotype or variant is listed exactly once, whatever the --id list. *)
Theorem C16_ld_requested_listed_once_any_ids :
  forall target gs lines keep ids fg rows,
  calc_ld_cli false target gs lines keep ids fg = Ok rows ->
  NoDup (hap_ids lines) -> NoDup (var_ids gs) ->
  NoDup (map fst rows) /\
  forall id, req_in ids id ->
    (if fg then In id (var_ids gs) else In id (hap_ids lines) /\ id <> target) -> In id (map fst rows).
Proof. exact requested_listed_once_cli. Qed.
Print Assumptions C16_ld_requested_listed_once_any_ids.

(* ... which the tree before fixes/C16_repeated_id.patch violated *)
Example C16_legacy_repeated_id_refuted :
  wf witness16_dup = true
  /\ option_map (map fst) (match calc_ld false 5 (l_gs witness16_dup) (l_lines witness16_dup)
                                 (l_keep witness16_dup) (l_ids witness16_dup) true with
                           | Ok r => Some r | Err _ => None end) = Some [1; 1]
  /\ holds_ld witness16_dup = false
  /\ option_map (map fst) (match model_ld witness16_dup with Ok r => Some r | Err _ => None end) = Some [1].
Proof. exact legacy_dup_refuted. Qed.
Print Assumptions C16_legacy_repeated_id_refuted.

(* LD(A,B) = LD(B,A) across two runs of the model, whatever the two modes and --id lists: if B is
   listed when A is the target and A is listed when B is the target, the two R are the same.
   (IDs of haplotypes and variants are distinct, as the property's inputs are.) *)
Theorem C16_ld_symmetric_across_runs :
  forall gs lines keep A B idsA idsB fgA fgB rowsA rowsB rA rB,
  NoDup (hap_ids lines ++ var_ids gs) ->
  calc_ld false A gs lines keep idsA fgA = Ok rowsA -> In (B, rA) rowsA ->
  calc_ld false B gs lines keep idsB fgB = Ok rowsB -> In (A, rB) rowsB ->
  rA = rB.
Proof. exact ld_symmetric. Qed.
Print Assumptions C16_ld_symmetric_across_runs.

(* the hypotheses are satisfiable: two haplotypes whose V lines are not in the order of the genotype
   records and mix REF and ALT alleles, each the target in turn *)
Example C16_ld_symmetric_example :
  let gs := [mkgv 10 0 1 [(0,1); (1,1); (0,0); (1,0)] []; mkgv 11 0 1 [(0,0); (1,1); (0,1); (0,0)] [];
             mkgv 12 0 1 [(1,0); (1,0); (0,1); (1,1)] []] in
  let lines := [HL (mkhap 1 [(12, 1); (10, 0)]); HL (mkhap 3 [(11, 0); (10, 1)])] in
  let keep := [true; true; true; true] in
  NoDup (hap_ids lines ++ var_ids gs)
  /\ exists r, calc_ld false 1 gs lines keep None false = Ok [(3, r)]
             /\ calc_ld false 3 gs lines keep None false = Ok [(1, r)] /\ r <> None.
Proof.
  split.
  - repeat constructor; cbn; intuition discriminate.
  - eexists. vm_compute. split; [reflexivity|]. split; [reflexivity|discriminate].
Qed.
Print Assumptions C16_ld_symmetric_example.

(* The order in which a haplotype's V lines are written does not matter: the model's dosage (or its
   error) is the same for every permutation of the haplotype's (variant, allele) list. *)
Theorem C16_hap_dosage_vline_order_irrelevant :
  forall gs keep h h',
  Permutation (h_vars h) (h_vars h') -> hap_dosage gs keep h = hap_dosage gs keep h'.
Proof. exact hap_dosage_perm. Qed.
Print Assumptions C16_hap_dosage_vline_order_irrelevant.

(* A haplotype's dosage is the number of strands carrying all of its alleles, stated without
   reference to the order of the V lines: for the i-th kept sample it is [b0 + b1] where [b0] ([b1])
   says whether the first (second) strand has, for EVERY (variant, allele) of the haplotype, a call
   equal to the index of that allele among the variant's alleles ([strand_carries] quantifies over
   membership in the list only).  The matrix is rectangular: one call per sample for every record. *)
Theorem C16_hap_dosage_counts_carrying_strands :
  forall gs keep h d,
  (forall g, In g gs -> length (gv_calls g) = length keep) ->
  hap_dosage gs keep h = Ok d ->
  length d = length (filter (fun k : bool => k) keep)
  /\ forall i, (i < length d)%nat ->
       exists b0 b1, nth_error d i = Some (b2z b0 + b2z b1)
                     /\ (b0 = true <-> strand_carries gs keep (h_vars h) i false)
                     /\ (b1 = true <-> strand_carries gs keep (h_vars h) i true).
Proof. exact hap_dosage_counts_strands. Qed.
Print Assumptions C16_hap_dosage_counts_carrying_strands.

Theorem C16_strand_carries_order_irrelevant :
  forall gs keep l l' i st,
  Permutation l l' -> (strand_carries gs keep l i st <-> strand_carries gs keep l' i st).
Proof. exact strand_carries_perm. Qed.
Print Assumptions C16_strand_carries_order_irrelevant.

(* content: V lines in reverse order of the records with REF and ALT mixed; samples 0, 1 and 3 each
   have exactly one strand with 12 = ALT and 10 = REF, sample 2 has none *)
Example C16_hap_dosage_example :
  let gs := [mkgv 10 0 1 [(0,1); (1,0); (0,0); (1,0)] []; mkgv 11 0 1 [(0,0); (1,1); (0,1); (0,0)] [];
             mkgv 12 0 1 [(1,0); (1,1); (0,0); (1,1)] []] in
  hap_dosage gs [true; true; true; true] (mkhap 1 [(12, 1); (10, 0)]) = Ok [1; 1; 0; 1]
  /\ hap_dosage gs [true; true; true; true] (mkhap 1 [(10, 0); (12, 1)]) = Ok [1; 1; 0; 1]
  /\ hap_dosage gs [true; false; true; true] (mkhap 1 [(12, 1); (10, 0)]) = Ok [1; 0; 1].
Proof. vm_compute. repeat split; reflexivity. Qed.
Print Assumptions C16_hap_dosage_example.

(* ... and so does not matter to anything calc_ld reports (rows or error), in every mode: [hline_perm]
   relates two .hap contents with the same H and R lines in the same order where every haplotype's
   V lines are a permutation of the other's. *)
Theorem C16_ld_vline_order_irrelevant :
  forall target gs lines lines' keep ids fg,
  Forall2 hline_perm lines lines' ->
  calc_ld false target gs lines keep ids fg = calc_ld false target gs lines' keep ids fg.
Proof. exact calc_ld_perm. Qed.
Print Assumptions C16_ld_vline_order_irrelevant.

Example C16_hline_perm_example :
  Forall2 hline_perm [HL (mkhap 1 [(12, 1); (10, 0); (11, 1)]); RL 2; HL (mkhap 3 [(11, 0); (10, 1)])]
                     [HL (mkhap 1 [(10, 0); (11, 1); (12, 1)]); RL 2; HL (mkhap 3 [(10, 1); (11, 0)])].
Proof.
  constructor; [split; [reflexivity|]|constructor; [reflexivity|constructor; [split; [reflexivity|]|constructor]]];
    cbn [h_vars].
  - exact (Permutation_cons_append [(10, 0); (11, 1)] (12, 1)).
  - apply perm_swap.
Qed.
Print Assumptions C16_hline_perm_example.

(* ---- haplotypes without V lines -------------------------------------------------------------------- *)

(* the dosage of a haplotype without V lines is 2 for every kept sample ... *)
Theorem C16_hap_dosage_no_vlines :
  forall gs keep h, h_vars h = [] -> hap_dosage gs keep h = Ok (map (fun _ => 2) (kept keep)).
Proof. exact hap_dosage_no_vlines. Qed.
Print Assumptions C16_hap_dosage_no_vlines.

(* ... in the declarative reading of C16_hap_dosage_counts_carrying_strands: every strand carries all of
   its (no) alleles *)
Theorem C16_strand_carries_no_alleles :
  forall gs keep i st, strand_carries gs keep [] i st.
Proof. exact strand_carries_nil. Qed.
Print Assumptions C16_strand_carries_no_alleles.

(* NaN when one of the two dosage vectors is constant (the direction of C16_pearson_nan_iff_constant used
   below, for any constant and any length) *)
Theorem C16_pearson_constant_nan :
  forall t d c, (forall x, In x d -> x = c) -> corr t d = None /\ corr d t = None.
Proof. exact corr_constant_both. Qed.
Print Assumptions C16_pearson_constant_nan.

(* Every R that involves a haplotype without V lines is NaN, in every mode: all the rows when it is the
   target, its own row when it is listed. *)
Theorem C16_ld_no_vlines_nan :
  forall target gs lines keep ids fg rows,
  NoDup (hap_ids lines) -> NoDup (var_ids gs) ->
  calc_ld false target gs lines keep ids fg = Ok rows ->
  (no_vlines lines target -> forall r, In r rows -> snd r = None)
  /\ (fg = false -> forall b r, In (b, r) rows -> no_vlines lines b -> r = None).
Proof. exact ld_no_vlines_nan. Qed.
Print Assumptions C16_ld_no_vlines_nan.

(* content, and satisfiability of C16_ld_modes_total's precondition with such haplotypes: haplotypes
   without V lines first (7), in the middle (8) and last (9) in the .hap file; as the target in both output
   modes; listed with a variant target *)
Example C16_no_vlines_example :
  let gs := [mkgv 10 0 1 [(0,1); (1,1); (0,0); (1,0)] []; mkgv 11 0 1 [(0,0); (1,1); (0,1); (0,0)] []] in
  let lines := [HL (mkhap 7 []); HL (mkhap 1 [(10, 1); (11, 1)]); HL (mkhap 8 []); RL 2; HL (mkhap 3 [(11, 0)]); HL (mkhap 9 [])] in
  let keep := [true; true; false; true] in
  inputs_ok 7 gs lines keep = true /\ inputs_ok 10 gs lines keep = true
  /\ calc_ld false 8 gs lines keep None false = Ok [(7, None); (1, None); (3, None); (9, None)]
  /\ calc_ld false 8 gs lines keep None true = Ok [(10, None); (11, None)]
  /\ option_map (map (fun r : row => (fst r, match snd r with None => true | Some _ => false end)))
                (match calc_ld false 10 gs lines keep None false with Ok r => Some r | Err _ => None end)
     = Some [(7, true); (1, false); (8, true); (3, false); (9, true)].
Proof. exact inputs_ok_empty_example. Qed.
Print Assumptions C16_no_vlines_example.

(* The tree before fixes/C16_empty_haplotype.patch ([calc_ld_sw false]: Haplotype.transform raises
   ValueError for a haplotype without V lines) is the repaired model for every other target ... *)
Theorem C16_pinned_differs_only_for_empty_target :
  forall vcf target gs lines keep ids fg,
  ~ no_vlines lines target ->
  calc_ld_sw false vcf target gs lines keep ids fg = calc_ld false target gs lines keep ids fg.
Proof. exact pinned_differs_only_for_empty_target. Qed.
Print Assumptions C16_pinned_differs_only_for_empty_target.

(* ... and for such a target it never lists anything *)
Theorem C16_pinned_empty_target_lists_nothing :
  forall vcf target gs lines keep ids fg rows,
  no_vlines lines target ->
  calc_ld_sw false vcf target gs lines keep ids fg = Ok rows -> rows = [].
Proof. exact pinned_empty_target_lists_nothing. Qed.
Print Assumptions C16_pinned_empty_target_lists_nothing.

(* ... which violates the property: target = a haplotype without V lines, another haplotype to list *)
Example C16_pinned_empty_target_refuted :
  wf (witness16_empty true (Err E_Value)) = true
  /\ model_ld (witness16_empty false (Err E_Value)) = Err E_Value
  /\ holds_ld (witness16_empty true (Err E_Value)) = false
  /\ model_ld (witness16_empty true (Err E_Value)) = Ok [(6, None)]
  /\ holds_ld (witness16_empty true (Ok [(6, None)])) = true
  /\ holds_ld (witness16_empty false (Err E_Value)) = true.
Proof. exact pinned_empty_target_refuted. Qed.
Print Assumptions C16_pinned_empty_target_refuted.

(* what a pass of the checker says about them: a listed haplotype without V lines was printed as nan, and
   when the target is one every R was printed as nan *)
Theorem C16_holds_ld_no_vlines :
  forall c rows,
  wf c = true -> skipped c (l_target c) = false -> l_obs c = Ok rows -> holds_ld c = true ->
  (l_fg c = false -> forall b p, In (b, p) rows -> is_empty_hap c b = true -> p = None)
  /\ (is_empty_hap c (l_target c) = true -> forall b p, In (b, p) rows -> p = None).
Proof. exact holds_ld_no_vlines. Qed.
Print Assumptions C16_holds_ld_no_vlines.

(* LD(A,B) = LD(B,A) on what the implementation printed in two runs: when the checker passes, the R printed
   for B with target A and the R printed for A with target B render one exact number, the correlation of
   the two dosages (so they differ by at most 2 * (0.0005 + 1e-9)), and one is nan iff the other is *)
Theorem C16_holds_ld_two_runs :
  forall c rows td b p r,
  wf c = true -> skipped c (l_target c) = false -> l_obs c = Ok rows ->
  dosage_of c (negb (target_is_hap c)) (l_target c) = Some td ->
  holds_ld c = true ->
  In (b, p) rows -> In (b, Ok r) (l_sym c) -> skipped c b = false ->
  exists d, dosage_of c (l_fg c) b = Some d
            /\ r_near_spec p (corr td d) /\ r_near_spec r (corr td d)
            /\ (p = None <-> r = None).
Proof. exact holds_ld_two_runs. Qed.
Print Assumptions C16_holds_ld_two_runs.

(* ---- the mechanism inside Haplotypes.transform ------------------------------------------------------ *)

(* [batch_transform] (C16_ModelBatch.v) transcribes Haplotypes.transform: the dictionary of (variant, allele)
   pairs in order of first appearance, one column per pair requested from Genotypes.subset() IN THAT ORDER,
   the allele looked up in the record at the same POSITION, the AND of each haplotype's columns.  For every
   set of haplotypes whose variants are among the loaded records - V lines in any order, variants shared
   between haplotypes or used with both alleles, haplotypes without V lines - it is the per-haplotype
   conjunction that [hap_dosage] sums, the ValueError for an allele that is not in the record included. *)
Theorem C16_batch_transform_refines :
  forall gs keep hs,
  (forall h va, In h hs -> In va (h_vars h) -> find_var (fst va) gs <> None) ->
  batch_transform gs keep hs
  = map_res (fun h => hap_strands gs keep (h_vars h)
                        (map (fun _ : bool => (true, true)) (filter (fun k : bool => k) keep))) hs.
Proof. exact batch_transform_refines. Qed.
Print Assumptions C16_batch_transform_refines.

(* the (ID, dosage) list calc_ld correlates with the target is the batch transform's strand sums *)
Theorem C16_batch_transform_dosages :
  forall gs keep hs,
  (forall h va, In h hs -> In va (h_vars h) -> find_var (fst va) gs <> None) ->
  map_res (fun h => bind (hap_dosage gs keep h) (fun d => Ok (h_id h, d))) hs
  = bind (batch_transform gs keep hs)
         (fun cols => Ok (map (fun hc : hap * list (bool * bool) =>
                                 (h_id (fst hc), map (fun s : bool * bool => b2z (fst s) + b2z (snd s)) (snd hc)))
                              (combine hs cols))).
Proof. exact batch_transform_dosages. Qed.
Print Assumptions C16_batch_transform_dosages.

(* the order of subset()'s result matters: with a subset() that leaves the records in file order when as many
   are requested as are loaded, two haplotypes listed in the other order than their (A>G) variants receive
   each other's column, silently *)
Example C16_subset_order_shortcut_refuted :
  let gs := [mkgv 1 0 1 [(0,1); (1,1); (0,0); (1,0)] []; mkgv 2 0 1 [(0,0); (1,1); (0,1); (0,0)] []] in
  let hs := [mkhap 10 [(2, 1)]; mkhap 11 [(1, 1)]] in
  let keep := [true; true; true; true] in
  batch_transform gs keep hs
  = Ok [[(false, false); (true, true); (false, true); (false, false)];
        [(false, true); (true, true); (false, false); (true, false)]]
  /\ batch_transform_shortcut gs keep hs
     = Ok [[(false, true); (true, true); (false, false); (true, false)];
           [(false, false); (true, true); (false, true); (false, false)]].
Proof. exact shortcut_refuted. Qed.
Print Assumptions C16_subset_order_shortcut_refuted.
