(* C16 - property theorems only. *)
From HV Require Import Prelude PearsonQ C16_Model C16_Check C16_Proofs.
From Coq Require Import QArith.
Open Scope Z_scope.

(* LD(A,B) = LD(B,A): the statistic is symmetric in the two dosage vectors *)
Theorem C16_pearson_sym :
  forall t d, length t = length d -> corr d t = corr t d.
Proof. exact corr_sym. Qed.
Print Assumptions C16_pearson_sym.

(* NaN exactly when one of the two dosage vectors is constant over the samples *)
Theorem C16_pearson_nan_iff_constant :
  forall t d, corr t d = None <-> constant_on fx (combine t d) \/ constant_on fy (combine t d).
Proof. exact corr_nan_iff. Qed.
Print Assumptions C16_pearson_nan_iff_constant.

(* Cauchy-Schwarz: the squared correlation is in [0,1] *)
Theorem C16_pearson_sq_le_1 :
  forall t d s r, corr t d = Some (s, r) -> (0 <= r <= 1)%Q.
Proof. exact corr_sq_le_1. Qed.
Print Assumptions C16_pearson_sq_le_1.
