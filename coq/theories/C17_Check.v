(* C17 - boolean checkers evaluated on what haptools.clump wrote / returned.
   clump relation: the rows of the .clump file (all six columns; every member as printed);
   agree compares them with the model run with the code's float64 window test, holds checks the
   greedy-clumping property on the rows (a printed variant is resolved to a row of the loaded
   table by ID, CHROM, POS; duplicate IDs are inside the domain) with the window as a rational test;
   computeld relation: the r2 returned by ComputeLD and the roots its cubic solver found. *)
From HV Require Import Prelude PearsonQ Stats C17_Model.
From Coq Require Import QArith.
Open Scope Z_scope.

(* ---- clump ------------------------------------------------------------------ *)

(* one variant as the .clump file prints it: ID, CHROM, POS, P (the exact value of the printed
   float), VARTYPE (0 SNP / 1 STR) - the five columns of a row, and the text of each member *)
Definition vrow := (Z * Z * Z * Q * Z)%type.
Definition orow := (vrow * list vrow)%type.
(* what identifies a printed variant: ID, CHROM, POS.  Two rows of the loaded table that agree on
   the three cannot be told apart in the .clump file; the checker resolves a printed variant to a
   row with that signature (see greedy_okb) *)
Definition sig := (Z * Z * Z)%type.
Definition srow := (sig * list sig)%type.                  (* index, members *)
Definition sig_eqb (a b : sig) : bool :=
  let '(i, c, p) := a in let '(i', c', p') := b in (i =? i') && (c =? c') && (p =? p').
Definition sv_sig (v : svar) : sig := (sv_id v, sv_chrom v, sv_pos v).
Definition irow := (Z * list Z)%type.                      (* index ID, member IDs *)

Record ccase := mkcc {
  cc_cfg : cfg;
  cc_kb : PrimFloat.float;          (* clump_kb as the code receives it *)
  (* the decimal the user typed for --clump-kb (the float64 it parses to is cc_kb); equal to the
     exact value of cc_kb when kb was given as a float *)
  cc_kbdec : Q;
  (* Exact mode only: the r2 ComputeLD returned for (index, candidate), each named by
     (ID, CHROM, POS), recorded from the run *)
  cc_r2tab : list (sig * sig * option Q);
  cc_obs : res (list orow)
}.

Definition tab_oracle (tab : list (sig * sig * option Q)) (iv c : svar) (gc gi : list (Z * Z)) : res (option Q) :=
  match find (fun e : sig * sig * option Q => sig_eqb (fst (fst e)) (sv_sig iv) && sig_eqb (snd (fst e)) (sv_sig c)) tab with
  | Some e => Ok (snd e)
  | None => Err E_Unobserved
  end.

Definition r2oracle := svar -> svar -> list (Z * Z) -> list (Z * Z) -> res (option Q).
Definition oracle_for (c : cfg) (tab : list (sig * sig * option Q)) : r2oracle :=
  if k_exact c then tab_oracle tab else pearson_oracle.
Definition oracle_of (k : ccase) : r2oracle := oracle_for (cc_cfg k) (cc_r2tab k).

Definition vrow_of (v : svar) : vrow := (sv_id v, sv_chrom v, sv_pos v, sv_p v, sv_type v).
Definition vrow_id (r : vrow) : Z := fst (fst (fst (fst r))).
Definition rows_of (cl : list clump) : list orow :=
  map (fun c : clump => (vrow_of (fst c), map vrow_of (snd c))) cl.
Definition ids_of (cl : list clump) : list irow :=
  map (fun c : clump => (sv_id (fst c), map sv_id (snd c))) cl.
Definition row_ids (r : orow) : irow := (vrow_id (fst r), map vrow_id (snd r)).
Definition vrow_sig (r : vrow) : sig := let '(i, c, p, _, _) := r in (i, c, p).
Definition row_sigs (r : orow) : srow := (vrow_sig (fst r), map vrow_sig (snd r)).
Definition sigs_of (cl : list clump) : list srow :=
  map (fun c : clump => (sv_sig (fst c), map sv_sig (snd c))) cl.

Definition model_clump (k : ccase) : res (list orow) :=
  match clumpstr (oracle_of k) (win_float (cc_kb k)) (cc_cfg k) with Ok cl => Ok (rows_of cl) | Err e => Err e end.

Definition vrow_eqb (a b : vrow) : bool :=
  let '(i, c, p, pv, t) := a in let '(i', c', p', pv', t') := b in
  (i =? i') && (c =? c') && (p =? p') && Qeq_bool pv pv' && (t =? t').
Definition orow_eqb (a b : orow) : bool := vrow_eqb (fst a) (fst b) && list_eqb vrow_eqb (snd a) (snd b).

(* the float model of the window against the mathematical test, on every pair of loaded variants:
   |d|/1000 <_float64 kb implies |d|/1000 < kb over Q, and the two differ only where the float64
   quotient |d|/1000 rounds to kb itself (a statement about IEEE arithmetic, evaluated per case:
   it is not proved here for all inputs) *)
Definition window_link (kb : PrimFloat.float) (st : list svar) : bool :=
  match f2q kb with
  | None => true
  | Some kq =>
      forallb (fun iv => forallb (fun c =>
        let f := win_float kb iv c in let m := win_q kq iv c in
        (negb f || m) && (negb m || f || PrimFloat.eqb (dist_kb iv c) kb)) st) st
  end.

(* the property, checked on the observed rows against the input alone *)

Definition eligible (p1 : Q) (v : svar) : bool := Qlt_bool (sv_p v) p1 && Qlt_bool (sv_p v) 1.
(* "p below the index threshold" read literally *)
Definition below_p1 (p1 : Q) (v : svar) : bool := Qlt_bool (sv_p v) p1.

Definition memZ (x : Z) (l : list Z) : bool := existsb (Z.eqb x) l.
Fixpoint nodupb (l : list Z) : bool :=
  match l with [] => true | a :: r => negb (memZ a r) && nodupb r end.

(* split the remaining table at the first row with the given load key *)
Fixpoint split_key (k : Z) (l : list svar) : option (list svar * svar * list svar) :=
  match l with
  | [] => None
  | v :: r => if sv_key v =? k then Some ([], v, r)
              else match split_key k r with
                   | Some (pre, iv, post) => Some (v :: pre, iv, post)
                   | None => None end
  end.

(* the row a printed index stands for: among the not-yet-clumped rows with that signature the one
   of smallest p, the first of those in file order (the only one that can be a greedy index) *)
Fixpoint pick (s : sig) (best : option svar) (l : list svar) : option svar :=
  match l with
  | [] => best
  | v :: r =>
      if sig_eqb (sv_sig v) s && match best with None => true | Some b => Qlt_bool (sv_p v) (sv_p b) end
      then pick s (Some v) r else pick s best r
  end.

(* the rows a printed member list stands for: each printed member takes the first row with its
   signature that no earlier member took (rows with one signature behave alike in the window and
   r2 tests, so which of them is taken does not matter); None = some printed member is not a
   not-yet-clumped row, or more members carry a signature than rows do *)
Fixpoint take_sig (s : sig) (pool : list svar) : option (svar * list svar) :=
  match pool with
  | [] => None
  | v :: r => if sig_eqb (sv_sig v) s then Some (v, r)
              else match take_sig s r with
                   | Some (w, r') => Some (w, v :: r')
                   | None => None end
  end.
Fixpoint resolve (ms : list sig) (pool : list svar) : option (list svar) :=
  match ms with
  | [] => Some []
  | s :: rest =>
      match take_sig s pool with
      | None => None
      | Some (v, pool') => match resolve rest pool' with Some l => Some (v :: l) | None => None end
      end
  end.

(* the members of one clump, as rows.  Two window predicates: [wlo iv c] = c is strictly within the
   window under every reading of "the user's kb", [whi iv c] = under some reading (see holds_clump;
   the two coincide except at a distance equal to the decimal typed).  A not-yet-clumped row that
   is inside for sure is listed iff it passes the r2 test; one outside for sure is not listed; one
   in between may be listed only if it passes; a test the run did not record (Exact mode)
   constrains nothing.  (That every listed row is a not-yet-clumped row and none is listed twice
   is what [resolve] establishes.) *)
Definition members_ok (pass : svar -> svar -> option bool) (wlo whi : svar -> svar -> bool)
           (iv : svar) (st : list svar) (ms : list svar) : bool :=
  forallb (fun c =>
     let listed := has_key (sv_key c) ms in
     if wlo iv c then match pass iv c with Some b => Bool.eqb listed b | None => true end
     else if whi iv c then match pass iv c with Some b => negb listed || b | None => true end
     else negb listed) st.

(* [ei]: what an index must satisfy (and the set over which it is minimal / first among ties);
   [es]: what must not be left when the file ends.  The table that remains after a clump is the
   table without the rows of the clump (by load key): a row is never in two clumps *)
Fixpoint greedy_okb (ei es : svar -> bool) (wlo whi : svar -> svar -> bool)
         (pass : svar -> svar -> option bool) (st : list svar) (obs : list srow) : bool :=
  match obs with
  | [] => forallb (fun v => negb (es v)) st                    (* stops only when no index is left *)
  | (s, mss) :: rest =>
      match pick s None st with
      | None => false                                          (* not a not-yet-clumped variant *)
      | Some b =>
          match split_key (sv_key b) st, resolve mss st with
          | Some (pre, iv, post), Some ms =>
              sig_eqb (sv_sig iv) s
              && ei iv
              && forallb (fun v => negb (ei v) || Qle_bool (sv_p iv) (sv_p v)) st      (* smallest p *)
              && forallb (fun v => negb (ei v) || Qlt_bool (sv_p iv) (sv_p v)) pre     (* file order on ties *)
              && members_ok pass wlo whi iv st ms
              && greedy_okb ei es wlo whi pass (remove_vars (ms ++ [iv]) st) rest
          | _, _ => false
          end
      end
  end.

(* the quantifier: both tables load, every variant has exactly one genotype record, SNP
   genotypes are complete and biallelic, kb is finite.  Variant IDs need not be distinct *)
Definition stats_of (k : cfg) : option (list svar) :=
  match opt_load (k_hdr_snp k) (k_fields k) (k_p2 k) 0 (k_rows_snp k),
        opt_load (k_hdr_str k) (k_fields k) (k_p2 k) 1 (k_rows_str k) with
  | Ok a, Ok b => Some (rekey 0 (a ++ b))
  | _, _ => None
  end.

Definition passb (c : cfg) (orc : r2oracle) (gts : list gent) (iv x : svar) : option bool :=
  match load_variant gts iv, load_variant gts x with
  | Ok gi, Ok gc =>
      match orc iv x gc gi with
      | Ok (Some v) => Some (Qlt_bool (k_r2 c) v)
      | Ok None => Some false
      | Err _ => None end
  | _, _ => None
  end.

Definition Qmin_b (a b : Q) : Q := if Qle_bool a b then a else b.
Definition Qmax_b (a b : Q) : Q := if Qle_bool a b then b else a.

(* "strictly within the kb window": |dpos| / 1000 < kb, decided over the rationals.  The user's kb
   is the decimal typed (kbdec) and the float64 it parses to (exact value kq); a variant
   strictly within under both readings must be listed (if its r2 passes), one strictly within
   under neither must not be; where the readings differ - the distance equals the decimal typed
   and the float64 lies above it, e.g. --clump-kb 0.1 and 100 bp - nothing is demanded.
   Index eligibility: an index has p < p1 and is minimal / first among those (the property's
   words); the file may end only when no variant with p < p1 and p < 1 is left (for p1 <= 1 the
   same set; DESIGN.md section 10 for p1 > 1). *)
Definition holds_core (c : cfg) (orc : r2oracle) (kq kbdec : Q) (o : res (list orow)) : bool :=
  if negb (Bool.eqb (is_some (k_rows_snp c)) (is_some (k_snps c))
           && Bool.eqb (is_some (k_rows_str c)) (is_some (k_strs c))
           && (is_some (k_snps c) || is_some (k_strs c))
           && negb (k_exact c && is_some (k_rows_str c))) then true else
  if match k_snps c with Some a => existsb snp_calls_bad (gs_vars a) | None => false end then true else
  match stats_of c, merged_gts (k_snps c) (k_strs c) with
  | Some st, Ok gts =>
      if negb (forallb (fun v => match load_variant gts v with Ok _ => true | Err _ => false end) st) then true else
      match o with
      | Err e => e =? E_Unobserved                 (* raises or does not terminate (Err 12) *)
      | Ok obs =>
          greedy_okb (below_p1 (k_p1 c)) (eligible (k_p1 c))
                     (win_q (Qmin_b kq kbdec)) (win_q (Qmax_b kq kbdec))
                     (passb c orc gts) st (map row_sigs obs)
      end
  | _, _ => true
  end.

(* kb not finite: outside the quantifier *)
Definition holds_clump (k : ccase) : bool :=
  match f2q (cc_kb k) with
  | Some kq => holds_core (cc_cfg k) (oracle_of k) kq (cc_kbdec k) (cc_obs k)
  | None => true
  end.

Definition agree_clump (k : ccase) : bool :=
  res_eqb (list_eqb orow_eqb) (model_clump k) (cc_obs k)
  && match stats_of (cc_cfg k) with Some st => window_link (cc_kb k) st | None => true end.

Definition check_clump (k : ccase) : bool * bool := (agree_clump k, holds_clump k).

(* ---- ComputeLD --------------------------------------------------------------- *)

Record dcase := mkd {
  d_cand : list (Z * Z); d_idx : list (Z * Z); d_exact : bool;
  d_obs : res (option Q);           (* the returned r2 as the exact value of the float; None = nan *)
  d_roots : list Q;                 (* Exact: the frequencies f00 that ComputeExactLD evaluated (recorded at _CalcLDStats) *)
  d_allroots : list Q               (* Exact: all real roots the solver handed to _CalcBestRoot, admissible or not *)
}.

Definition Qabs_le (a b tol : Q) : bool := Qle_bool (a - b) tol && Qle_bool (b - a) tol.
Definition tol_pearson : Q := 1 # 1000000000.
Definition tol_exact : Q := 1 # 1000000.

Definition model_computeld (d : dcase) : exact_out :=
  if d_exact d then exact_ld (d_cand d) (d_idx d)
  else match pearson_ld (d_cand d) (d_idx d) with Some v => EX_val v | None => EX_nan end.

Definition in01 (v : Q) : bool := Qle_bool 0 v && Qle_bool v 1.

(* the cubic is not solved in the model: the root the implementation used is checked instead -
   it lies in the admissible interval (+- 1e-5 as in _CalcBestRoot), it is a root of the model's
   cubic up to 1e-9 * n, and the returned r2 is the model's r2 formula at that root (6 decimals);
   and every number the solver presents as a real root, admissible or not, is a root of the
   model's cubic up to 1e-9 * n *)
Definition tol_root : Q := 1 # 1000000000.
Definition slack_hap : Q := 1 # 100000.
Definition root_ok (t : tab) (o f : Q) : bool :=
  Qle_bool (minhap t - slack_hap) f && Qle_bool f (maxhap t + slack_hap)
  && Qabs_le (cubic t f) 0 (tol_root * t_n t)
  && Qabs_le o (exact_r2 (t_p t) (t_q t) f) tol_exact.

Definition agree_computeld (d : dcase) : bool :=
  match model_computeld d, d_obs d with
  | EX_nan, Ok None => true
  | EX_val v, Ok (Some o) => Qabs_le o v (if d_exact d then tol_exact else tol_pearson)
  | EX_root t, Ok (Some o) =>
      forallb (fun f => Qabs_le (cubic t f) 0 (tol_root * t_n t)) (d_allroots d)
      && match d_roots d with
         | [] => Qeq_bool o 0                    (* no root in range: best_rsquared stays 0 *)
         | fs => existsb (root_ok t o) fs
         end
  | _, _ => false
  end.

(* dosages of a biallelic pair are 0/1/2 *)
Definition dosage012 (l : list smp) : bool :=
  forallb (fun s : smp => (0 <=? fst s) && (fst s <=? 2) && (0 <=? snd s) && (snd s <=? 2)) l.

(* r^2 of the 2x2 haplotype table that the 3x3 table determines when n11 = 0 *)
Definition hap_r2 (t : tab) : Q :=
  let h00 := (2 * n00 t + n01 t + n10 t)%Q in
  let h01 := (n01 t + 2 * n02 t + n12 t)%Q in
  let h10 := (n10 t + 2 * n20 t + n21 t)%Q in
  let h11 := (n12 t + n21 t + 2 * n22 t)%Q in
  (((h00 * h11 - h01 * h10) * (h00 * h11 - h01 * h10))
   / ((h00 + h01) * (h10 + h11) * (h00 + h10) * (h01 + h11)))%Q.

Definition holds_computeld (d : dcase) : bool :=
  let l := filter_gts (d_cand d) (d_idx d) in
  match d_obs d with
  | Err e => e =? E_Unobserved
  | Ok o =>
      if d_exact d then
        if negb (dosage012 l) then true else
        match l with
        | [] => true
        | _ =>
          if constantb fx l || constantb fy l then true else
          match o with
          | None => false
          | Some v => in01 v
                      && (negb (Qeq_bool (n11 (table_of l)) 0) || Qabs_le v (hap_r2 (table_of l)) tol_exact)
          end
        end
      else
        (* Pearson r2 = squared correlation of the dosages over the samples with no missing call *)
        match l with
        | [] => true
        | _ => match pearson_r2 l, o with
               | None, None => true
               | Some v, Some w => Qabs_le w v tol_pearson
               | _, _ => false end
        end
  end.

Definition check_computeld (d : dcase) : bool * bool := (agree_computeld d, holds_computeld d).
