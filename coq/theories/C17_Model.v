(* C17 - executable model of haptools/clump.py: SummaryStats.Load,
   GetNextIndexVariant, QueryWindow, RemoveClump, GetOverlappingSamples,
   LoadVariant, _FilterGts / ComputeLD (Pearson exactly; Exact LD as the cubic's
   coefficients and the r^2(f00) formula over Q) and the main loop of clumpstr
   on fuel.  No proofs here.

   Strings (variant IDs, chromosomes, header names, sample names) are interned
   to Z by the harness (sample names order-preservingly).  p-values and the
   thresholds p1, p2, r2 are the exact rational values of the parsed float64s.
   kb is the float64 the code receives and the window test is the code's own
   arithmetic, bit for bit: abs(pos - pos_i) / 1000 < kb with an IEEE-754
   binary64 division and comparison (PrimFloat).  Python's int / int is the
   correctly rounded quotient of the two integers; for |dpos| < 2^53 (every
   VCF / PVAR position is < 2^31) that is float(|dpos|) / 1000.0, which is
   what [dist_kb] computes.
   Variant objects are compared by identity in RemoveClump: every loaded row
   carries its load index [sv_key] and removal is by key, so that two rows with
   the same ID are two variants, as in the code. *)
From HV Require Import Prelude PearsonQ Stats.
From Coq Require Import QArith.
From Coq Require PrimFloat.
Open Scope Z_scope.

Definition E_Value : Z := 1.
Definition E_Index : Z := 2.
Definition E_Exc : Z := 9.
Definition E_Timeout : Z := 12.

Definition Qlt_bool (a b : Q) : bool := negb (Qle_bool b a).

(* ---- summary statistics ---------------------------------------------------- *)

(* type: 0 SNP, 1 STR; key: index of the row among the loaded rows (object identity) *)
Record svar := mksv { sv_id : Z; sv_chrom : Z; sv_pos : Z; sv_p : Q; sv_type : Z; sv_key : Z }.

(* a whitespace-separated token with what Python's int() / float() make of it *)
Record cell := mkcell { c_tok : Z; c_int : option Z; c_flt : option Q }.

Fixpoint index_of (x : Z) (l : list Z) : option nat :=
  match l with
  | [] => None
  | a :: r => if a =? x then Some O else option_map S (index_of x r)
  end.

Definition col (k : nat) (row : list cell) : res cell :=
  match nth_error row k with Some c => Ok c | None => Err E_Index end.

Definition need {A} (o : option A) : res A := match o with Some a => Ok a | None => Err E_Value end.

(* one data line; None = skipped because p > pthresh *)
Definition load_row (snp_col p_col chrom_col pos_col : nat) (p2 : Q) (vartype : Z) (row : list cell)
  : res (option svar) :=
  bind (col p_col row) (fun cp => bind (need (c_flt cp)) (fun p =>
  if Qlt_bool p2 p then Ok None else
  bind (col snp_col row) (fun cs => bind (col chrom_col row) (fun cc =>
  bind (col pos_col row) (fun cq => bind (need (c_int cq)) (fun pos =>
  Ok (Some (mksv (c_tok cs) (c_tok cc) pos p vartype 0)))))))).

(* reading stops at the first blank line *)
Fixpoint load_rows (snp_col p_col chrom_col pos_col : nat) (p2 : Q) (vartype : Z) (rows : list (list cell))
  : res (list svar) :=
  match rows with
  | [] => Ok []
  | [] :: _ => Ok []
  | row :: rest =>
      bind (load_row snp_col p_col chrom_col pos_col p2 vartype row) (fun o =>
      bind (load_rows snp_col p_col chrom_col pos_col p2 vartype rest) (fun l =>
      Ok (match o with Some v => v :: l | None => l end)))
  end.

Record fields := mkf { f_id : Z; f_p : Z; f_chrom : Z; f_pos : Z }.

Definition load_stats (hdr : list Z) (f : fields) (p2 : Q) (vartype : Z) (rows : list (list cell))
  : res (list svar) :=
  bind (need (index_of (f_id f) hdr)) (fun snp_col =>
  bind (need (index_of (f_p f) hdr)) (fun p_col =>
  bind (need (index_of (f_chrom f) hdr)) (fun chrom_col =>
  bind (need (index_of (f_pos f) hdr)) (fun pos_col =>
  load_rows snp_col p_col chrom_col pos_col p2 vartype rows)))).

(* GetNextIndexVariant: strict < scan starting from 1.0 *)
Fixpoint scan_best (p1 : Q) (best : option svar) (bestp : Q) (l : list svar) : option svar :=
  match l with
  | [] => best
  | v :: r => if Qlt_bool (sv_p v) bestp && Qlt_bool (sv_p v) p1
              then scan_best p1 (Some v) (sv_p v) r
              else scan_best p1 best bestp r
  end.
Definition next_index (p1 : Q) (l : list svar) : option svar := scan_best p1 None 1 l.

(* the keys 0, 1, 2, ... in load order (SNP table, then STR table) *)
Fixpoint rekey (k : Z) (l : list svar) : list svar :=
  match l with
  | [] => []
  | v :: r => mksv (sv_id v) (sv_chrom v) (sv_pos v) (sv_p v) (sv_type v) k :: rekey (k + 1) r
  end.

(* QueryWindow: abs(pos - pos_i) / 1000 < kb on the index's chromosome.
   [win_float]: the code's float64 arithmetic.  [win_q]: the mathematical test
   |dpos| / 1000 < kb over the rationals (used by the checker of the property). *)
Definition dist_bp (iv v : svar) : Z := Z.abs (sv_pos v - sv_pos iv).
Definition dist_kb (iv v : svar) : PrimFloat.float := PrimFloat.div (f_of_Z (dist_bp iv v)) (f_of_Z 1000).
Definition win_float (kb : PrimFloat.float) (iv v : svar) : bool :=
  (sv_chrom v =? sv_chrom iv) && PrimFloat.ltb (dist_kb iv v) kb.
Definition win_q (kb : Q) (iv v : svar) : bool :=
  (sv_chrom v =? sv_chrom iv) && Qlt_bool (dist_bp iv v # 1000) kb.
(* the window predicate is a parameter of the loop: [win iv v] = "v is in the window of index iv" *)
Definition query_window (win : svar -> svar -> bool) (iv : svar) (l : list svar) : list svar := filter (win iv) l.

(* RemoveClump: Variant objects are compared by identity = by load key *)
Definition has_key (x : Z) (l : list svar) : bool := existsb (fun v => sv_key v =? x) l.
Definition remove_vars (gone l : list svar) : list svar := filter (fun v => negb (has_key (sv_key v) gone)) l.

Fixpoint filter_res {A} (f : A -> res bool) (l : list A) : res (list A) :=
  match l with
  | [] => Ok []
  | a :: r => bind (f a) (fun b => bind (filter_res f r) (fun s => Ok (if b then a :: s else s)))
  end.

Definition clump := (svar * list svar)%type.

(* the while loop of clumpstr.  [load iv] = LoadVariant(indexvar) (done before the candidates
   are looked at, so it can raise even when the window is empty); [pass gi iv c] = "r2 of c
   with the index exceeds the threshold".  Fuel: one unit per clump. *)
Fixpoint clump_loop {G} (fuel : nat) (p1 : Q) (win : svar -> svar -> bool) (load : svar -> res G)
         (pass : G -> svar -> svar -> res bool) (stats : list svar) : res (list clump) :=
  match next_index p1 stats with
  | None => Ok []
  | Some iv =>
      match fuel with
      | O => Err E_Timeout
      | S f =>
          bind (load iv) (fun gi =>
          bind (filter_res (pass gi iv) (query_window win iv stats)) (fun members =>
          bind (clump_loop f p1 win load pass (remove_vars (members ++ [iv]) stats)) (fun rest =>
          Ok ((iv, members) :: rest))))
      end
  end.

(* the loop over a total boolean r2 test (no genotype lookup failures) *)
Definition clump_loop_total (fuel : nat) (p1 : Q) (win pb : svar -> svar -> bool) (stats : list svar)
  : res (list clump) :=
  clump_loop fuel p1 win (fun _ => Ok tt) (fun _ iv c => Ok (pb iv c)) stats.

(* ---- genotypes -------------------------------------------------------------- *)

(* one record as loaded: per sample the two allele values (SNP: 0/1, STR: copy
   numbers, 254/255 = missing) *)
Record gent := mkg { g_chrom : Z; g_pos : Z; g_calls : list (Z * Z) }.

(* _SortSamples: (name, original index) sorted by name *)
Fixpoint insert_s (x : Z * Z) (l : list (Z * Z)) : list (Z * Z) :=
  match l with
  | [] => [x]
  | y :: r => if (fst x <? fst y) || ((fst x =? fst y) && (snd x <=? snd y)) then x :: l else y :: insert_s x r
  end.
Fixpoint index_from (i : Z) (l : list Z) : list (Z * Z) :=
  match l with [] => [] | a :: r => (a, i) :: index_from (i + 1) r end.
Definition sort_samples (names : list Z) : list (Z * Z) := fold_right insert_s [] (index_from 0 names).

(* GetOverlappingSamples: the merge walk over the two sorted lists *)
Fixpoint overlap (fuel : nat) (a b : list (Z * Z)) : list (Z * Z) :=   (* (snp index, str index) *)
  match fuel with
  | O => []
  | S f =>
      match a, b with
      | (sa, ia) :: ra, (sb, ib) :: rb =>
          if sb <? sa then overlap f a rb
          else if sb =? sa then (ia, ib) :: overlap f ra rb
          else overlap f ra b
      | _, _ => []
      end
  end.
Definition overlapping (snp_names str_names : list Z) : list (Z * Z) :=
  overlap (length snp_names + length str_names) (sort_samples snp_names) (sort_samples str_names).

Definition take_idx {A} (d : A) (l : list A) (idx : list Z) : list A :=
  map (fun i => nth (Z.to_nat i) l d) idx.

Definition reindex (idx : list Z) (g : gent) : gent :=
  mkg (g_chrom g) (g_pos g) (take_idx (0, 0) (g_calls g) idx).

(* LoadVariant: exactly one record at (chrom, pos), else numpy's reshape raises ValueError *)
Definition load_variant (gts : list gent) (v : svar) : res (list (Z * Z)) :=
  match filter (fun g => (g_pos g =? sv_pos v) && (g_chrom g =? sv_chrom v)) gts with
  | [g] => Ok (g_calls g)
  | _ => Err E_Value
  end.

(* _FilterGts: samples with no missing call (254, 255) at either variant; dosages *)
Definition valid_call (c : Z * Z) : bool := (fst c <? 254) && (snd c <? 254).
Definition filter_gts (cand idx : list (Z * Z)) : list smp :=
  map (fun ci : (Z * Z) * (Z * Z) => (fst (fst ci) + snd (fst ci), fst (snd ci) + snd (snd ci)))
      (filter (fun ci : (Z * Z) * (Z * Z) => valid_call (fst ci) && valid_call (snd ci)) (combine cand idx)).

(* r2 value returned by ComputeLD: None = NaN *)
Definition pearson_ld (cand idx : list (Z * Z)) : option Q :=
  match filter_gts cand idx with
  | [] => Some 0%Q                                (* "return None, 0" *)
  | l => pearson_r2 l                             (* NaN when a dosage vector is constant *)
  end.

(* ---- exact LD: the quantities ComputeExactLD derives from the 3x3 table ----- *)

Record tab := mkt { n00 : Q; n01 : Q; n02 : Q; n10 : Q; n11 : Q; n12 : Q; n20 : Q; n21 : Q; n22 : Q }.
Local Open Scope Q_scope.
Definition t_n (t : tab) : Q := n00 t + n01 t + n02 t + n10 t + n11 t + n12 t + n20 t + n21 t + n22 t.
Definition t_p (t : tab) : Q := (2 * (n00 t + n01 t + n02 t) + (n10 t + n11 t + n12 t)) / (2 * t_n t).
Definition t_q (t : tab) : Q := (2 * (n00 t + n10 t + n20 t) + (n01 t + n11 t + n21 t)) / (2 * t_n t).
Definition num_alt (t : tab) : Q := 2 * n00 t + n01 t + n10 t.
Definition cub_a (t : tab) : Q := 4 * t_n t.
Definition cub_b (t : tab) : Q := 2 * t_n t * (1 - 2 * t_p t - 2 * t_q t) - 2 * num_alt t - n11 t.
Definition cub_c (t : tab) : Q :=
  - num_alt t * (1 - 2 * t_p t - 2 * t_q t) - n11 t * (1 - t_p t - t_q t) + 2 * t_n t * t_p t * t_q t.
Definition cub_d (t : tab) : Q := - num_alt t * t_p t * t_q t.
Definition cubic (t : tab) (f : Q) : Q := cub_a t * f * f * f + cub_b t * f * f + cub_c t * f + cub_d t.
Definition minhap (t : tab) : Q := num_alt t / (2 * t_n t).
Definition maxhap (t : tab) : Q := (num_alt t + n11 t) / (2 * t_n t).
(* _CalcLDStats: D = f00*f11 - f01*f10, r2 = D^2 / (p(1-p)q(1-q)) *)
Definition exact_D (p q f00 : Q) : Q :=
  let f01 := p - f00 in let f10 := q - f00 in let f11 := 1 - (f00 + f01 + f10) in f00 * f11 - f01 * f10.
Definition exact_r2 (p q f00 : Q) : Q := (exact_D p q f00 * exact_D p q f00) / (p * (1 - p) * q * (1 - q)).
Local Close Scope Q_scope.

(* the 3x3 table of (candidate dosage, index dosage) counts *)
Definition count_cell (l : list smp) (i j : Z) : Q :=
  inject_Z (lenZ (filter (fun s : smp => (fst s =? i) && (snd s =? j)) l)).
Definition table_of (l : list smp) : tab :=
  mkt (count_cell l 0 0) (count_cell l 0 1) (count_cell l 0 2)
      (count_cell l 1 0) (count_cell l 1 1) (count_cell l 1 2)
      (count_cell l 2 0) (count_cell l 2 1) (count_cell l 2 2).

(* what the model can say about ComputeLD(..., "Exact") without solving the cubic:
   NaN / 0 exactly as for Pearson; the exact value when no sample is doubly
   heterozygous (the admissible interval is the single point minhap) *)
Inductive exact_out := EX_nan | EX_val (v : Q) | EX_root (t : tab).
Definition exact_ld (cand idx : list (Z * Z)) : exact_out :=
  match filter_gts cand idx with
  | [] => EX_val 0%Q
  | l => if constantb fx l || constantb fy l then EX_nan
         else let t := table_of l in
              if Qeq_bool (n11 t) 0 then EX_val (exact_r2 (t_p t) (t_q t) (minhap t)) else EX_root t
  end.

(* ---- clumpstr end to end ------------------------------------------------------ *)

(* GenotypesVCF.load / GenotypesPLINK.load on the SNP file: check_missing,
   check_biallelic (check_phase: only phased input is generated) *)
Definition snp_calls_bad (g : gent) : bool :=
  existsb (fun c : Z * Z => (254 <=? fst c) || (254 <=? snd c) || (1 <? fst c) || (1 <? snd c)) (g_calls g).

Record gset := mkgs { gs_samples : list Z; gs_vars : list gent }.

Definition merged_gts (snps strs : option gset) : res (list gent) :=
  match snps, strs with
  | Some a, Some b =>
      let ov := overlapping (gs_samples a) (gs_samples b) in
      Ok (map (reindex (map fst ov)) (gs_vars a) ++ map (reindex (map snd ov)) (gs_vars b))
  | Some a, None => Ok (gs_vars a)
  | None, Some b => Ok (gs_vars b)
  | None, None => Err E_Exc
  end.

Record cfg := mkcfg {
  k_hdr_snp : list Z; k_rows_snp : option (list (list cell));
  k_hdr_str : list Z; k_rows_str : option (list (list cell));
  k_fields : fields; k_p1 : Q; k_p2 : Q; k_r2 : Q;
  k_exact : bool;
  k_snps : option gset; k_strs : option gset
}.

Definition is_some {A} (o : option A) : bool := match o with Some _ => true | None => false end.

Definition opt_load (hdr : list Z) (f : fields) (p2 : Q) (ty : Z) (rows : option (list (list cell)))
  : res (list svar) :=
  match rows with None => Ok [] | Some r => load_stats hdr f p2 ty r end.

(* "r2 > clump_r2" for candidate c of index iv whose calls gi are loaded; NaN > x is False *)
Definition r2_pass (r2of : svar -> svar -> list (Z * Z) -> list (Z * Z) -> res (option Q)) (r2 : Q)
           (gts : list gent) (gi : list (Z * Z)) (iv c : svar) : res bool :=
  bind (load_variant gts c) (fun gc =>
  bind (r2of iv c gc gi) (fun r =>
  Ok (match r with Some v => Qlt_bool r2 v | None => false end))).

(* [r2of] : the r2 ComputeLD returns for (candidate calls, index calls); None = NaN.
   [win] : the window test of QueryWindow - the code's is [win_float kb] with kb the float64
   given as clump_kb (C17_Check.model_clump); the theorems hold for every window predicate *)
(* clumpstr up to the clumping loop: presence checks, both tables loaded and keyed, genotypes
   loaded and merged; [run gts stats] is the loop *)
Definition clumpstr_gen {R} (run : list gent -> list svar -> res R) (k : cfg) : res R :=
  (* "One of summstats-... and gts-... is not present" *)
  if negb (Bool.eqb (is_some (k_rows_snp k)) (is_some (k_snps k))) then Err E_Exc else
  if negb (Bool.eqb (is_some (k_rows_str k)) (is_some (k_strs k))) then Err E_Exc else
  if k_exact k && is_some (k_rows_str k) then Err E_Exc else
  bind (opt_load (k_hdr_snp k) (k_fields k) (k_p2 k) 0 (k_rows_snp k)) (fun s1 =>
  bind (opt_load (k_hdr_str k) (k_fields k) (k_p2 k) 1 (k_rows_str k)) (fun s2 =>
  if match k_snps k with Some a => existsb snp_calls_bad (gs_vars a) | None => false end then Err E_Value else
  bind (merged_gts (k_snps k) (k_strs k)) (fun gts =>
  run gts (rekey 0 (s1 ++ s2))))).

Definition clumpstr (r2of : svar -> svar -> list (Z * Z) -> list (Z * Z) -> res (option Q))
           (win : svar -> svar -> bool) (k : cfg)
  : res (list clump) :=
  clumpstr_gen (fun gts stats =>
    clump_loop (length stats) (k_p1 k) win (load_variant gts) (r2_pass r2of (k_r2 k) gts) stats) k.

Definition pearson_oracle (iv c : svar) (gc gi : list (Z * Z)) : res (option Q) := Ok (pearson_ld gc gi).

(* the total boolean test the Pearson oracle induces: "both variants have exactly one genotype
   record and the squared correlation of their dosages exceeds r2" *)
Definition pearson_pb (r2 : Q) (gts : list gent) (iv c : svar) : bool :=
  match load_variant gts iv, load_variant gts c with
  | Ok gi, Ok gc => match pearson_ld gc gi with Some v => Qlt_bool r2 v | None => false end
  | _, _ => false
  end.
