(* C17 - lemmas and proofs: the clumping loop for an arbitrary window predicate, its composition
   with loading and the Pearson test (clumpstr_greedy), the checker's soundness.
   (Exact-LD algebra: C17_ProofsExact.v) *)
From HV Require Import Prelude PearsonQ Stats C17_Model C17_Check.
From Coq Require Import QArith.
Open Scope Z_scope.

Lemma pearson_r2_in_01 l r : pearson_r2 l = Some r -> (0 <= r <= 1)%Q.
Proof.
  unfold pearson_r2. destruct (pearson l) as [[s r']|] eqn:E; cbn; [|discriminate].
  intro H. inversion H; subst. eapply pearson_r2_range. exact E.
Qed.

(* ---- order on Q through the boolean tests ---------------------------------- *)

Lemma Qlt_bool_iff a b : Qlt_bool a b = true <-> (a < b)%Q.
Proof.
  unfold Qlt_bool. rewrite negb_true_iff. split.
  - intro H. apply Qnot_le_lt. intro K. apply Qle_bool_iff in K. congruence.
  - intro H. destruct (Qle_bool b a) eqn:E; [|reflexivity].
    apply Qle_bool_iff in E. exfalso. exact (Qlt_not_le _ _ H E).
Qed.

Lemma Qlt_bool_false a b : Qlt_bool a b = false <-> (b <= a)%Q.
Proof.
  unfold Qlt_bool. rewrite negb_false_iff. apply Qle_bool_iff.
Qed.

(* ---- GetNextIndexVariant ---------------------------------------------------- *)

Definition upd (p1 bestp : Q) (v : svar) : bool := Qlt_bool (sv_p v) bestp && Qlt_bool (sv_p v) p1.

Lemma scan_best_spec p1 l : forall best bestp,
  (scan_best p1 best bestp l = best /\ forall v, In v l -> upd p1 bestp v = false)
  \/ (exists pre iv post, l = pre ++ iv :: post /\ scan_best p1 best bestp l = Some iv /\
        (sv_p iv < bestp)%Q /\ (sv_p iv < p1)%Q /\
        (forall v, In v pre -> (sv_p v < p1)%Q -> (sv_p iv < sv_p v)%Q) /\
        (forall v, In v post -> (sv_p v < p1)%Q -> (sv_p iv <= sv_p v)%Q)).
Proof.
  induction l as [|v r IH]; intros best bestp.
  - left. split; [reflexivity|intros v []].
  - cbn [scan_best]. fold (upd p1 bestp v). destruct (upd p1 bestp v) eqn:U.
    + apply andb_true_iff in U. destruct U as [U1 U2].
      apply Qlt_bool_iff in U1. apply Qlt_bool_iff in U2.
      right. destruct (IH (Some v) (sv_p v)) as [[E N]|(pre & iv & post & E & R & L1 & L2 & Hpre & Hpost)].
      * exists [], v, r. split; [reflexivity|]. split; [exact E|]. split; [exact U1|]. split; [exact U2|].
        split; [intros x []|]. intros x Hx Hp. specialize (N x Hx). unfold upd in N.
        apply andb_false_iff in N. destruct N as [N|N].
        -- apply Qlt_bool_false in N. exact N.
        -- apply Qlt_bool_false in N. exfalso. exact (Qlt_not_le _ _ Hp N).
      * exists (v :: pre), iv, post. split; [rewrite E; reflexivity|]. split; [exact R|].
        split; [apply Qlt_trans with (sv_p v); assumption|]. split; [exact L2|]. split; [|exact Hpost].
        intros x [<-|Hx] Hp; [exact L1|]. apply Hpre; assumption.
    + destruct (IH best bestp) as [[E N]|(pre & iv & post & E & R & L1 & L2 & Hpre & Hpost)].
      * left. split; [exact E|]. intros x [<-|Hx]; [exact U|apply N, Hx].
      * right. exists (v :: pre), iv, post. split; [rewrite E; reflexivity|]. split; [exact R|].
        split; [exact L1|]. split; [exact L2|]. split; [|exact Hpost].
        intros x [<-|Hx] Hp; [|apply Hpre; assumption].
        unfold upd in U. apply andb_false_iff in U. destruct U as [U|U]; apply Qlt_bool_false in U.
        -- apply Qlt_le_trans with bestp; assumption.
        -- exfalso. exact (Qlt_not_le _ _ Hp U).
Qed.

Lemma eligible_iff p1 v : eligible p1 v = true <-> (sv_p v < p1)%Q /\ (sv_p v < 1)%Q.
Proof. unfold eligible. rewrite andb_true_iff, !Qlt_bool_iff. tauto. Qed.

Lemma next_index_none p1 l :
  next_index p1 l = None -> forall v, In v l -> eligible p1 v = false.
Proof.
  unfold next_index. intros H v Hv.
  destruct (scan_best_spec p1 l None 1%Q) as [[_ N]|(pre & iv & post & _ & R & _)]; [|congruence].
  specialize (N v Hv). unfold upd in N. unfold eligible. rewrite andb_comm. exact N.
Qed.

Lemma next_index_some p1 l iv :
  next_index p1 l = Some iv ->
  exists pre post, l = pre ++ iv :: post /\ eligible p1 iv = true /\
    (forall v, In v l -> eligible p1 v = true -> (sv_p iv <= sv_p v)%Q) /\
    (forall v, In v pre -> eligible p1 v = true -> (sv_p iv < sv_p v)%Q).
Proof.
  unfold next_index. intro H.
  destruct (scan_best_spec p1 l None 1%Q) as [[E _]|(pre & iv' & post & E & R & L1 & L2 & Hpre & Hpost)]; [congruence|].
  rewrite R in H. inversion H; subst iv'. exists pre, post. split; [exact E|].
  split; [apply eligible_iff; split; assumption|]. split.
  - intros v Hv El. apply eligible_iff in El. destruct El as [El _]. rewrite E in Hv.
    apply in_app_or in Hv. destruct Hv as [Hv|[<-|Hv]].
    + apply Qlt_le_weak. apply Hpre; assumption.
    + apply Qle_refl.
    + apply Hpost; assumption.
  - intros v Hv El. apply eligible_iff in El. apply Hpre; tauto.
Qed.

Lemma next_index_in p1 l iv : next_index p1 l = Some iv -> In iv l.
Proof.
  intro H. destruct (next_index_some _ _ _ H) as (pre & post & E & _). rewrite E.
  apply in_or_app. right. left. reflexivity.
Qed.

(* ---- the loop ----------------------------------------------------------------- *)

Lemma filter_length_le {A} (f : A -> bool) l : (length (filter f l) <= length l)%nat.
Proof. induction l as [|a l IH]; cbn; [lia|]. destruct (f a); cbn; lia. Qed.

Lemma filter_length_lt {A} (f : A -> bool) l x :
  In x l -> f x = false -> (length (filter f l) < length l)%nat.
Proof.
  induction l as [|a l IH]; intros Hx Hf; [contradiction|]. cbn.
  destruct Hx as [->|Hx].
  - rewrite Hf. pose proof (filter_length_le f l). lia.
  - specialize (IH Hx Hf). destruct (f a); cbn; lia.
Qed.

Lemma has_key_app_self iv ms : has_key (sv_key iv) (ms ++ [iv]) = true.
Proof.
  unfold has_key. rewrite existsb_app. cbn. rewrite Z.eqb_refl. apply orb_true_r.
Qed.

Lemma remove_shrinks iv ms st :
  In iv st -> (length (remove_vars (ms ++ [iv]) st) < length st)%nat.
Proof.
  intro H. unfold remove_vars. apply filter_length_lt with (x := iv); [exact H|].
  rewrite has_key_app_self. reflexivity.
Qed.

Lemma filter_res_err {A} (f : A -> res bool) l e :
  filter_res f l = Err e -> exists a, In a l /\ f a = Err e.
Proof.
  induction l as [|a l IH]; cbn; [discriminate|].
  destruct (f a) as [b|e'] eqn:E; cbn.
  - destruct (filter_res f l) as [s|e''] eqn:F; cbn; [discriminate|].
    intro H. inversion H; subst. destruct (IH eq_refl) as (x & Hx & Fx). exists x. split; [right; exact Hx|exact Fx].
  - intro H. inversion H; subst. exists a. split; [left; reflexivity|exact E].
Qed.

Lemma filter_res_total {A} (f : A -> bool) l :
  filter_res (fun a => Ok (f a)) l = Ok (filter f l).
Proof.
  induction l as [|a l IH]; [reflexivity|]. cbn. rewrite IH. cbn. destruct (f a); reflexivity.
Qed.

(* a partial filter that succeeds is the total filter of any test that agrees with it *)
Lemma filter_res_ok_filter {A} (f : A -> res bool) (g : A -> bool) l : forall s,
  filter_res f l = Ok s -> (forall a b, In a l -> f a = Ok b -> g a = b) -> s = filter g l.
Proof.
  induction l as [|a l IH]; intros s H Hg; cbn in H.
  - inversion H. reflexivity.
  - destruct (f a) as [b|e] eqn:E; cbn [bind] in H; [|discriminate].
    destruct (filter_res f l) as [s'|e] eqn:F; cbn [bind] in H; [|discriminate].
    inversion H; subst. cbn [filter]. rewrite (Hg a b (or_introl eq_refl) E).
    rewrite (IH s' eq_refl) by (intros x y Hx; apply Hg; right; exact Hx). reflexivity.
Qed.

(* termination: one unit of fuel per variant always suffices *)
Lemma clump_loop_fuel {G} p1 win (load : svar -> res G) pass :
  (forall iv, load iv <> Err E_Timeout) ->
  (forall gi iv c, pass gi iv c <> Err E_Timeout) ->
  forall fuel stats, (length stats <= fuel)%nat ->
  clump_loop fuel p1 win load pass stats <> Err E_Timeout.
Proof.
  intros HL HP fuel. induction fuel as [|f IH]; intros stats Hl.
  - destruct stats; [|cbn in Hl; lia]. cbn. discriminate.
  - cbn [clump_loop]. destruct (next_index p1 stats) as [iv|] eqn:N; [|discriminate].
    destruct (load iv) as [gi|e] eqn:LD; cbn [bind].
    2:{ intro K. inversion K; subst. exact (HL iv LD). }
    destruct (filter_res (pass gi iv) (query_window win iv stats)) as [ms|e] eqn:F; cbn [bind].
    + pose proof (remove_shrinks iv ms stats (next_index_in _ _ _ N)) as Hs.
      specialize (IH (remove_vars (ms ++ [iv]) stats)).
      destruct (clump_loop f p1 win load pass (remove_vars (ms ++ [iv]) stats)) as [rest|e] eqn:R; cbn [bind].
      * discriminate.
      * intro K. inversion K; subst. apply IH; [lia|reflexivity].
    + intro K. inversion K; subst. destruct (filter_res_err _ _ _ F) as (c & _ & Hc). exact (HP gi iv c Hc).
Qed.

Lemma clump_terminates_total p1 win (pb : svar -> svar -> bool) stats :
  exists cl, clump_loop_total (length stats) p1 win pb stats = Ok cl.
Proof.
  unfold clump_loop_total.
  assert (forall fuel st, (length st <= fuel)%nat ->
          exists cl, clump_loop fuel p1 win (fun _ => Ok tt) (fun _ iv c => Ok (pb iv c)) st = Ok cl) as G.
  { induction fuel as [|f IH]; intros st Hl.
    - destruct st; [|cbn in Hl; lia]. exists []. reflexivity.
    - cbn [clump_loop]. destruct (next_index p1 st) as [iv|] eqn:N; [|exists []; reflexivity].
      cbn [bind]. rewrite filter_res_total. cbn [bind].
      pose proof (remove_shrinks iv (filter (pb iv) (query_window win iv st)) st (next_index_in _ _ _ N)) as Hs.
      destruct (IH (remove_vars (filter (pb iv) (query_window win iv st) ++ [iv]) st)) as [rest R]; [lia|].
      rewrite R. cbn [bind]. eexists. reflexivity. }
  apply G. lia.
Qed.

(* a run of the loop with partial genotype lookups that succeeds is the run of the total loop
   with any boolean test that agrees with the lookups that succeeded *)
Lemma clump_loop_as_total {G} p1 win (load : svar -> res G) pass (pb : svar -> svar -> bool) :
  (forall iv gi c b, load iv = Ok gi -> pass gi iv c = Ok b -> pb iv c = b) ->
  forall fuel stats cl,
  clump_loop fuel p1 win load pass stats = Ok cl ->
  clump_loop_total fuel p1 win pb stats = Ok cl.
Proof.
  intros Hpb. unfold clump_loop_total. induction fuel as [|f IH]; intros stats cl H.
  - cbn in *. destruct (next_index p1 stats); [discriminate|exact H].
  - cbn [clump_loop] in *. destruct (next_index p1 stats) as [iv|] eqn:N; [|exact H].
    destruct (load iv) as [gi|e] eqn:LD; cbn [bind] in H; [|discriminate].
    destruct (filter_res (pass gi iv) (query_window win iv stats)) as [ms|e] eqn:F; cbn [bind] in H; [|discriminate].
    destruct (clump_loop f p1 win load pass (remove_vars (ms ++ [iv]) stats)) as [rest|e] eqn:R;
      cbn [bind] in H; [|discriminate].
    inversion H; subst. cbn [bind]. rewrite filter_res_total. cbn [bind].
    assert (ms = filter (pb iv) (query_window win iv stats)) as <-.
    { apply (filter_res_ok_filter _ _ _ _ F). intros c b _ Hc. exact (Hpb iv gi c b LD Hc). }
    rewrite (IH _ _ R). reflexivity.
Qed.

(* ---- greedy characterisation --------------------------------------------------- *)

Definition members (win pb : svar -> svar -> bool) (iv : svar) (st : list svar) : list svar :=
  filter (fun c => win iv c && pb iv c) st.

Inductive greedy (p1 : Q) (win pb : svar -> svar -> bool) : list svar -> list clump -> Prop :=
| greedy_stop st :
    (forall v, In v st -> eligible p1 v = false) ->
    greedy p1 win pb st []
| greedy_step st pre iv post rest :
    st = pre ++ iv :: post ->
    eligible p1 iv = true ->
    (forall v, In v st -> eligible p1 v = true -> (sv_p iv <= sv_p v)%Q) ->
    (forall v, In v pre -> eligible p1 v = true -> (sv_p iv < sv_p v)%Q) ->
    greedy p1 win pb (remove_vars (members win pb iv st ++ [iv]) st) rest ->
    greedy p1 win pb st ((iv, members win pb iv st) :: rest).

Lemma filter_filter {A} (f g : A -> bool) l : filter g (filter f l) = filter (fun a => f a && g a) l.
Proof.
  induction l as [|a l IH]; [reflexivity|]. cbn. destruct (f a); cbn; [|exact IH].
  destruct (g a); rewrite IH; reflexivity.
Qed.

Lemma clump_loop_greedy p1 win pb : forall fuel stats cl,
  clump_loop_total fuel p1 win pb stats = Ok cl -> greedy p1 win pb stats cl.
Proof.
  unfold clump_loop_total. induction fuel as [|f IH]; intros stats cl H.
  - cbn in H. destruct (next_index p1 stats) eqn:N; [discriminate|]. inversion H; subst.
    apply greedy_stop. apply next_index_none. exact N.
  - cbn [clump_loop] in H. destruct (next_index p1 stats) as [iv|] eqn:N.
    + cbn [bind] in H. rewrite filter_res_total in H. cbn [bind] in H.
      unfold query_window in H. rewrite filter_filter in H. fold (members win pb iv stats) in H.
      destruct (clump_loop f p1 win (fun _ => Ok tt) (fun _ iv c => Ok (pb iv c))
                  (remove_vars (members win pb iv stats ++ [iv]) stats))
        as [rest|e] eqn:R; cbn [bind] in H; [|discriminate].
      inversion H; subst.
      destruct (next_index_some _ _ _ N) as (pre & post & E & El & Hmin & Hpre).
      eapply greedy_step; try eassumption. apply IH. exact R.
    + inversion H; subst. apply greedy_stop. apply next_index_none. exact N.
Qed.

(* ---- disjointness ------------------------------------------------------------------ *)

Definition clump_keys (c : clump) : list Z := sv_key (fst c) :: map sv_key (snd c).
Definition clump_ids (c : clump) : list Z := sv_id (fst c) :: map sv_id (snd c).

Lemma greedy_within p1 win pb st cl :
  greedy p1 win pb st cl -> forall c, In c cl -> In (fst c) st /\ incl (snd c) st.
Proof.
  induction 1 as [st _|st pre iv post rest E El Hmin Hpre G IH]; intros c Hc; [contradiction|].
  destruct Hc as [<-|Hc]; cbn [fst snd].
  - split; [rewrite E; apply in_or_app; right; left; reflexivity|].
    intros x Hx. unfold members in Hx. apply filter_In in Hx. tauto.
  - destruct (IH c Hc) as [I1 I2]. unfold remove_vars in I1, I2. split.
    + apply filter_In in I1. tauto.
    + intros x Hx. specialize (I2 x Hx). apply filter_In in I2. tauto.
Qed.

Lemma has_key_true x l : has_key x l = true <-> In x (map sv_key l).
Proof.
  unfold has_key. rewrite existsb_exists, in_map_iff. split.
  - intros (v & Hv & E). apply Z.eqb_eq in E. exists v. tauto.
  - intros (v & E & Hv). exists v. split; [exact Hv|apply Z.eqb_eq; exact E].
Qed.

Lemma clump_keys_gone iv ms x : In x (clump_keys (iv, ms)) -> has_key x (ms ++ [iv]) = true.
Proof.
  intro H. apply has_key_true. rewrite map_app. apply in_or_app. cbn in H. destruct H as [<-|H].
  - right. left. reflexivity.
  - left. exact H.
Qed.

(* no variant (row of the tables, identified by its load key) is in two clumps *)
Lemma greedy_disjoint p1 win pb st cl :
  greedy p1 win pb st cl ->
  ForallOrdPairs (fun c1 c2 => forall x, In x (clump_keys c1) -> In x (clump_keys c2) -> False) cl.
Proof.
  induction 1 as [st _|st pre iv post rest E El Hmin Hpre G IH]; [constructor|].
  constructor; [|exact IH].
  apply Forall_forall. intros c Hc x H1 H2.
  pose proof (clump_keys_gone _ _ _ H1) as Hg.
  destruct (greedy_within _ _ _ _ _ G c Hc) as [I1 I2].
  assert (exists v, In v (remove_vars (members win pb iv st ++ [iv]) st) /\ sv_key v = x) as (v & Hv & <-).
  { unfold clump_keys in H2. destruct H2 as [<-|H2].
    - exists (fst c). split; [exact I1|reflexivity].
    - apply in_map_iff in H2. destruct H2 as (v & Ev & Hv). exists v. split; [apply I2; exact Hv|exact Ev]. }
  unfold remove_vars in Hv. apply filter_In in Hv. destruct Hv as [_ Hv].
  rewrite Hg in Hv. discriminate.
Qed.

Lemma nodup_map_inj {A} (f : A -> Z) l a b :
  NoDup (map f l) -> In a l -> In b l -> f a = f b -> a = b.
Proof.
  induction l as [|x l IH]; intros ND Ha Hb E; [contradiction|].
  cbn [map] in ND. inversion ND as [|? ? NI ND']; subst.
  destruct Ha as [->|Ha], Hb as [->|Hb].
  - reflexivity.
  - exfalso. apply NI. rewrite E. apply in_map. exact Hb.
  - exfalso. apply NI. rewrite <- E. apply in_map. exact Ha.
  - apply IH; assumption.
Qed.

Lemma nodup_map_filter {A} (k : A -> Z) (f : A -> bool) l : NoDup (map k l) -> NoDup (map k (filter f l)).
Proof.
  induction l as [|v r IHr]; intro ND; [constructor|]. cbn [map] in ND. inversion ND as [|? ? NI ND']; subst.
  cbn [filter]. destruct (f v); [|apply IHr; exact ND']. cbn [map]. constructor; [|apply IHr; exact ND'].
  intro K. apply NI. apply in_map_iff in K. destruct K as (w & Ew & Hw). apply filter_In in Hw.
  rewrite <- Ew. apply in_map. tauto.
Qed.

Lemma fop_impl_in {A} (P Q : A -> A -> Prop) l :
  ForallOrdPairs P l -> (forall a b, In a l -> In b l -> P a b -> Q a b) -> ForallOrdPairs Q l.
Proof.
  induction 1 as [|a l F D IH]; intro H; [constructor|]. constructor.
  - rewrite Forall_forall in *. intros b Hb. apply H; [left; reflexivity|right; exact Hb|apply F; exact Hb].
  - apply IH. intros x y Hx Hy. apply H; right; assumption.
Qed.

(* with distinct IDs: no ID is in two clumps *)
Lemma greedy_disjoint_ids p1 win pb st cl :
  NoDup (map sv_id st) ->
  greedy p1 win pb st cl ->
  ForallOrdPairs (fun c1 c2 => forall x, In x (clump_ids c1) -> In x (clump_ids c2) -> False) cl.
Proof.
  intros ND G.
  assert (forall c, In c cl -> forall x, In x (clump_ids c) ->
          exists v, In v st /\ sv_id v = x /\ In (sv_key v) (clump_keys c)) as W.
  { intros c Hc x Hx. destruct (greedy_within _ _ _ _ _ G c Hc) as [I1 I2].
    unfold clump_ids in Hx. destruct Hx as [<-|Hx].
    - exists (fst c). split; [exact I1|]. split; [reflexivity|left; reflexivity].
    - apply in_map_iff in Hx. destruct Hx as (v & Ev & Hv). exists v. split; [apply I2; exact Hv|].
      split; [exact Ev|]. right. apply in_map. exact Hv. }
  apply (fop_impl_in _ _ _ (greedy_disjoint _ _ _ _ _ G)).
  intros c c' Hc Hc' F x H1 H2.
  destruct (W c Hc x H1) as (v1 & S1 & E1 & K1).
  destruct (W c' Hc' x H2) as (v2 & S2 & E2 & K2).
  assert (v1 = v2) as <- by (apply (nodup_map_inj sv_id st); try assumption; congruence).
  exact (F _ K1 K2).
Qed.

(* ---- what the boolean checker of the .clump rows means ------------------------------------------ *)

(* the members [ms] (rows) of a clump with index iv over the remaining table st *)
Definition members_spec (wlo whi pb : svar -> svar -> bool) (iv : svar) (st ms : list svar) : Prop :=
  incl ms st /\ NoDup (map sv_key ms) /\
  (forall c, In c st -> wlo iv c = true -> (In c ms <-> pb iv c = true)) /\
  (forall c, In c ms -> (wlo iv c = true \/ whi iv c = true) /\ pb iv c = true).

(* greedy clumping stated on rows of the table (two rows with one ID are two variants); the table
   that remains after a clump is the table without the clump's rows *)
Inductive greedy_rows (ei es : svar -> bool) (wlo whi pb : svar -> svar -> bool) : list svar -> list clump -> Prop :=
| gr_stop st :
    (forall v, In v st -> es v = false) ->
    greedy_rows ei es wlo whi pb st []
| gr_step st pre iv post ms rest :
    st = pre ++ iv :: post ->
    ei iv = true ->
    (forall v, In v st -> ei v = true -> (sv_p iv <= sv_p v)%Q) ->
    (forall v, In v pre -> ei v = true -> (sv_p iv < sv_p v)%Q) ->
    members_spec wlo whi pb iv st ms ->
    greedy_rows ei es wlo whi pb (remove_vars (ms ++ [iv]) st) rest ->
    greedy_rows ei es wlo whi pb st ((iv, ms) :: rest).

(* with a single window predicate the members are exactly the rows of [members] *)
Lemma members_spec_single win pb iv st ms :
  members_spec win win pb iv st ms ->
  (forall c, In c ms <-> In c (members win pb iv st)) /\ NoDup (map sv_key ms).
Proof.
  intros (S1 & S2 & S3 & S4). split; [|exact S2]. intro c. unfold members. rewrite filter_In. split; intro K.
  - destruct (S4 c K) as [W P]. split; [apply S1; exact K|].
    assert (win iv c = true) as -> by tauto. rewrite P. reflexivity.
  - destruct K as [Hc E]. apply andb_true_iff in E. destruct E as [W P]. apply (S3 c Hc W). exact P.
Qed.

Lemma sig_eqb_eq a b : sig_eqb a b = true -> a = b.
Proof.
  destruct a as [[i c] p], b as [[i' c'] p']. unfold sig_eqb. rewrite !andb_true_iff, !Z.eqb_eq.
  intros [[-> ->] ->]. reflexivity.
Qed.

Lemma split_key_spec k l pre iv post :
  split_key k l = Some (pre, iv, post) -> l = pre ++ iv :: post.
Proof.
  revert pre. induction l as [|v r IH]; intros pre H; [discriminate|]. cbn [split_key] in H.
  destruct (sv_key v =? k).
  - inversion H; subst. reflexivity.
  - destruct (split_key k r) as [[[pre' iv'] post']|]; [|discriminate]. inversion H; subst.
    rewrite (IH pre' eq_refl). reflexivity.
Qed.

Lemma take_sig_spec s pool v pool' :
  take_sig s pool = Some (v, pool') ->
  sv_sig v = s /\ exists a b, pool = a ++ v :: b /\ pool' = a ++ b.
Proof.
  revert pool'. induction pool as [|w r IH]; intros pool' H; [discriminate|]. cbn [take_sig] in H.
  destruct (sig_eqb (sv_sig w) s) eqn:E.
  - inversion H; subst. split; [apply sig_eqb_eq; exact E|]. exists [], pool'. split; reflexivity.
  - destruct (take_sig s r) as [[x r']|]; [|discriminate]. inversion H; subst.
    destruct (IH r' eq_refl) as (E1 & a & b & E2 & E3). split; [exact E1|].
    exists (w :: a), b. split; [rewrite E2; reflexivity|rewrite E3; reflexivity].
Qed.

(* the rows a printed member list is resolved to: they print as that list, are rows of the pool,
   and no row is taken twice *)
Lemma resolve_spec : forall ms pool l,
  resolve ms pool = Some l ->
  map sv_sig l = ms /\ incl l pool /\ (NoDup (map sv_key pool) -> NoDup (map sv_key l)).
Proof.
  induction ms as [|s rest IH]; intros pool l H; cbn [resolve] in H.
  - inversion H; subst. split; [reflexivity|]. split; [intros ? []|intros _; constructor].
  - destruct (take_sig s pool) as [[v pool']|] eqn:T; [|discriminate].
    destruct (resolve rest pool') as [l'|] eqn:R; [|discriminate]. inversion H; subst.
    destruct (take_sig_spec _ _ _ _ T) as (Es & a & b & Ep & Ep').
    destruct (IH _ _ R) as (I1 & I2 & I3).
    assert (incl pool' pool) as Hsub.
    { subst pool pool'. intros x Hx. apply in_app_or in Hx. apply in_or_app.
      destruct Hx as [Hx|Hx]; [left; exact Hx|right; right; exact Hx]. }
    split; [cbn [map]; rewrite Es, I1; reflexivity|]. split.
    + intros x [<-|Hx]; [subst pool; apply in_or_app; right; left; reflexivity|apply Hsub, I2, Hx].
    + intro ND. cbn [map]. subst pool pool'. rewrite map_app in ND. cbn [map] in ND.
      pose proof (NoDup_remove_1 _ _ _ ND) as N1. pose proof (NoDup_remove_2 _ _ _ ND) as N2.
      rewrite <- map_app in N1, N2. constructor; [|apply I3; exact N1].
      intro K. apply N2. apply in_map_iff in K. destruct K as (w & Ew & Hw).
      rewrite <- Ew. apply in_map. apply I2. exact Hw.
Qed.

(* in a table with distinct load keys, "listed by key" is "listed" *)
Lemma has_key_in st ms c :
  NoDup (map sv_key st) -> incl ms st -> In c st -> (has_key (sv_key c) ms = true <-> In c ms).
Proof.
  intros ND Hs Hc. rewrite has_key_true, in_map_iff. split.
  - intros (m & Em & Hm). assert (m = c) as <- by (apply (nodup_map_inj sv_key st); auto). exact Hm.
  - intro H. exists c. split; [reflexivity|exact H].
Qed.

Lemma members_ok_sound pass pb wlo whi iv st ms :
  NoDup (map sv_key st) -> incl ms st -> NoDup (map sv_key ms) ->
  (forall c, In c st -> pass iv c = Some (pb iv c)) ->
  members_ok pass wlo whi iv st ms = true ->
  members_spec wlo whi pb iv st ms.
Proof.
  intros ND Hs NDm Hp. unfold members_ok. rewrite forallb_forall. intro H1.
  split; [exact Hs|]. split; [exact NDm|]. split.
  - intros c Hc W. specialize (H1 c Hc). cbv zeta in H1. rewrite W, (Hp c Hc) in H1. apply eqb_prop in H1.
    rewrite <- (has_key_in st ms c ND Hs Hc), H1. tauto.
  - intros c K. pose proof (Hs c K) as Hc. specialize (H1 c Hc). cbv zeta in H1. rewrite (Hp c Hc) in H1.
    apply (has_key_in st ms c ND Hs Hc) in K. rewrite K in H1.
    destruct (wlo iv c).
    + apply eqb_prop in H1. split; [left; reflexivity|symmetry; exact H1].
    + destruct (whi iv c); [|discriminate]. cbn in H1. split; [right; reflexivity|exact H1].
Qed.

Lemma remove_vars_nodup gone st : NoDup (map sv_key st) -> NoDup (map sv_key (remove_vars gone st)).
Proof. unfold remove_vars. apply nodup_map_filter. Qed.

(* the checker accepts the printed rows only if they are the printed form of a greedy clumping of
   the table: [cl] resolves every printed variant to a row.  [pass] may be partial (a test the run
   did not record); here it is total on the table *)
Lemma greedy_okb_sound_gen ei es wlo whi pass pb : forall obs st,
  NoDup (map sv_key st) ->
  (forall iv c, In iv st -> In c st -> pass iv c = Some (pb iv c)) ->
  greedy_okb ei es wlo whi pass st obs = true ->
  exists cl, sigs_of cl = obs /\ greedy_rows ei es wlo whi pb st cl.
Proof.
  induction obs as [|[s mss] rest IH]; intros st ND Hp H; cbn [greedy_okb] in H.
  - exists []. split; [reflexivity|]. apply gr_stop. rewrite forallb_forall in H. intros v Hv.
    apply negb_true_iff. apply H. exact Hv.
  - destruct (pick s None st) as [b|]; [|discriminate].
    destruct (split_key (sv_key b) st) as [[[pre iv] post]|] eqn:S; [|discriminate].
    destruct (resolve mss st) as [ms|] eqn:R; [|discriminate].
    pose proof (split_key_spec _ _ _ _ _ S) as E.
    assert (In iv st) as Hiv by (rewrite E; apply in_or_app; right; left; reflexivity).
    destruct (resolve_spec _ _ _ R) as (R1 & R2 & R3).
    rewrite !andb_true_iff in H. destruct H as [[[[[H0 H1] H2] H3] H4] H5].
    rewrite forallb_forall in H2, H3.
    pose proof (members_ok_sound _ _ _ _ _ _ _ ND R2 (R3 ND) (fun c Hc => Hp iv c Hiv Hc) H4) as MS.
    destruct (IH _ (remove_vars_nodup (ms ++ [iv]) st ND)) as (cl & Ecl & G); [|exact H5|].
    { intros x c Hx Hc. unfold remove_vars in Hx, Hc. apply filter_In in Hx. apply filter_In in Hc.
      apply Hp; tauto. }
    exists ((iv, ms) :: cl). split.
    + cbn [sigs_of map fst snd]. fold (sigs_of cl). rewrite Ecl, R1, (sig_eqb_eq _ _ H0). reflexivity.
    + eapply gr_step; try eassumption.
      * intros v Hv El. specialize (H2 v Hv). rewrite El in H2. cbn in H2. apply Qle_bool_iff. exact H2.
      * intros v Hv El. specialize (H3 v Hv). rewrite El in H3. cbn in H3. apply Qlt_bool_iff. exact H3.
Qed.

Lemma greedy_okb_sound ei es wlo whi pb obs st :
  NoDup (map sv_key st) ->
  greedy_okb ei es wlo whi (fun iv c => Some (pb iv c)) st obs = true ->
  exists cl, sigs_of cl = obs /\ greedy_rows ei es wlo whi pb st cl.
Proof. intros ND. apply greedy_okb_sound_gen; [exact ND|reflexivity]. Qed.

(* the model's own output satisfies the checker's specification: the two characterisations agree *)
Lemma greedy_to_rows p1 win pb st cl :
  NoDup (map sv_key st) -> greedy p1 win pb st cl ->
  greedy_rows (eligible p1) (eligible p1) win win pb st cl.
Proof.
  intros NK G. induction G as [st H|st pre iv post rest E El Hmin Hpre G IH].
  - apply gr_stop. exact H.
  - eapply gr_step; try eassumption.
    + unfold members. split; [intros x Hx; apply filter_In in Hx; tauto|].
      split; [apply nodup_map_filter; exact NK|]. split.
      * intros c Hc W. rewrite filter_In, W. cbn [andb]. tauto.
      * intros c Hc. apply filter_In in Hc. destruct Hc as [_ Hc]. apply andb_true_iff in Hc. tauto.
    + apply IH. apply remove_vars_nodup. exact NK.
Qed.

Lemma greedy_rows_within ei es wlo whi pb st cl :
  greedy_rows ei es wlo whi pb st cl -> forall c, In c cl -> In (fst c) st /\ incl (snd c) st.
Proof.
  induction 1 as [st _|st pre iv post ms rest E El Hmin Hpre MS G IH]; intros c Hc; [contradiction|].
  destruct Hc as [<-|Hc]; cbn [fst snd].
  - split; [rewrite E; apply in_or_app; right; left; reflexivity|]. destruct MS as [MS _]. exact MS.
  - destruct (IH c Hc) as [I1 I2]. unfold remove_vars in I1, I2. split.
    + apply filter_In in I1. tauto.
    + intros x Hx. specialize (I2 x Hx). apply filter_In in I2. tauto.
Qed.

(* no row is in two clumps of a greedy clumping *)
Lemma greedy_rows_disjoint ei es wlo whi pb st cl :
  greedy_rows ei es wlo whi pb st cl ->
  ForallOrdPairs (fun c1 c2 => forall x, In x (clump_keys c1) -> In x (clump_keys c2) -> False) cl.
Proof.
  induction 1 as [st _|st pre iv post ms rest E El Hmin Hpre MS G IH]; [constructor|].
  constructor; [|exact IH].
  apply Forall_forall. intros c Hc x H1 H2.
  pose proof (clump_keys_gone _ _ _ H1) as Hg.
  destruct (greedy_rows_within _ _ _ _ _ _ _ G c Hc) as [I1 I2].
  assert (exists v, In v (remove_vars (ms ++ [iv]) st) /\ sv_key v = x) as (v & Hv & <-).
  { unfold clump_keys in H2. destruct H2 as [<-|H2].
    - exists (fst c). split; [exact I1|reflexivity].
    - apply in_map_iff in H2. destruct H2 as (v & Ev & Hv). exists v. split; [apply I2; exact Hv|exact Ev]. }
  unfold remove_vars in Hv. apply filter_In in Hv. destruct Hv as [_ Hv].
  rewrite Hg in Hv. discriminate.
Qed.

(* ---- SummaryStats.Load -------------------------------------------------------------------------- *)

Lemma load_rows_below_p2 ks kp kc kq p2 ty rows : forall l,
  load_rows ks kp kc kq p2 ty rows = Ok l -> Forall (fun v => (sv_p v <= p2)%Q /\ sv_type v = ty) l.
Proof.
  induction rows as [|row rest IH]; intros l H; cbn [load_rows] in H.
  - inversion H. constructor.
  - destruct row as [|c0 row']; [inversion H; constructor|].
    destruct (load_row ks kp kc kq p2 ty (c0 :: row')) as [o|e] eqn:R; cbn [bind] in H; [|discriminate].
    destruct (load_rows ks kp kc kq p2 ty rest) as [l'|e]; cbn [bind] in H; [|discriminate].
    inversion H; subst. specialize (IH l' eq_refl). destruct o as [v|]; [|exact IH].
    constructor; [|exact IH].
    unfold load_row in R.
    destruct (col kp (c0 :: row')) as [cp|]; cbn [bind] in R; [|discriminate].
    destruct (need (c_flt cp)) as [p|]; cbn [bind] in R; [|discriminate].
    destruct (Qlt_bool p2 p) eqn:L; [discriminate|].
    destruct (col ks (c0 :: row')) as [cs|]; cbn [bind] in R; [|discriminate].
    destruct (col kc (c0 :: row')) as [cc|]; cbn [bind] in R; [|discriminate].
    destruct (col kq (c0 :: row')) as [cq|]; cbn [bind] in R; [|discriminate].
    destruct (need (c_int cq)) as [pos|]; cbn [bind] in R; [|discriminate].
    inversion R; subst. cbn [sv_p sv_type]. split; [apply Qlt_bool_false; exact L|reflexivity].
Qed.

(* the result depends only on the cells under the four named columns, wherever they are *)
Lemma load_rows_columns ks kp kc kq ks' kp' kc' kq' p2 ty rows rows' :
  Forall2 (fun r r' => (r = [] <-> r' = []) /\
                       nth_error r ks = nth_error r' ks' /\ nth_error r kp = nth_error r' kp' /\
                       nth_error r kc = nth_error r' kc' /\ nth_error r kq = nth_error r' kq') rows rows' ->
  load_rows ks kp kc kq p2 ty rows = load_rows ks' kp' kc' kq' p2 ty rows'.
Proof.
  induction 1 as [|r r' rest rest' (E0 & E1 & E2 & E3 & E4) F IH]; [reflexivity|].
  cbn [load_rows]. destruct r as [|c r0], r' as [|c' r0'].
  - reflexivity.
  - exfalso. destruct E0 as [E0 _]. specialize (E0 eq_refl). discriminate.
  - exfalso. destruct E0 as [_ E0]. specialize (E0 eq_refl). discriminate.
  - rewrite IH. unfold load_row, col. rewrite E1, E2, E3, E4. reflexivity.
Qed.

(* ---- clumpstr as a whole never runs out of fuel ------------------------------------------------------ *)

Lemma bind_not {A B} (x : res A) (f : A -> res B) k :
  x <> Err k -> (forall a, f a <> Err k) -> bind x f <> Err k.
Proof.
  intros Hx Hf. destruct x as [a|e]; cbn; [apply Hf|]. intro K. apply Hx. inversion K. reflexivity.
Qed.

Lemma need_not_timeout {A} (o : option A) : need o <> Err E_Timeout.
Proof. destruct o; cbn; discriminate. Qed.

Lemma col_not_timeout k row : col k row <> Err E_Timeout.
Proof. unfold col. destruct (nth_error row k); discriminate. Qed.

Lemma load_rows_not_timeout ks kp kc kq p2 ty rows : load_rows ks kp kc kq p2 ty rows <> Err E_Timeout.
Proof.
  induction rows as [|row rest IH]; cbn [load_rows]; [discriminate|].
  destruct row as [|c0 row']; [discriminate|].
  apply bind_not.
  - unfold load_row. apply bind_not; [apply col_not_timeout|]. intro cp.
    apply bind_not; [apply need_not_timeout|]. intro p. destruct (Qlt_bool p2 p); [discriminate|].
    apply bind_not; [apply col_not_timeout|]. intro cs. apply bind_not; [apply col_not_timeout|]. intro cc.
    apply bind_not; [apply col_not_timeout|]. intro cq. apply bind_not; [apply need_not_timeout|]. intro pos.
    discriminate.
  - intro o. apply bind_not; [exact IH|]. intro l. discriminate.
Qed.

Lemma opt_load_not_timeout hdr f p2 ty rows : opt_load hdr f p2 ty rows <> Err E_Timeout.
Proof.
  unfold opt_load. destruct rows as [r|]; [|discriminate]. unfold load_stats.
  repeat (apply bind_not; [apply need_not_timeout|]; intro). apply load_rows_not_timeout.
Qed.

Lemma load_variant_not_timeout gts v : load_variant gts v <> Err E_Timeout.
Proof. unfold load_variant. destruct (filter _ gts) as [|g [|g' r]]; discriminate. Qed.

Lemma rekey_length l : forall k, length (rekey k l) = length l.
Proof. induction l as [|v r IH]; intro k; [reflexivity|]. cbn. rewrite IH. reflexivity. Qed.

Lemma clumpstr_terminates win k : clumpstr pearson_oracle win k <> Err E_Timeout.
Proof.
  unfold clumpstr, clumpstr_gen.
  destruct (negb (Bool.eqb (is_some (k_rows_snp k)) (is_some (k_snps k)))); [discriminate|].
  destruct (negb (Bool.eqb (is_some (k_rows_str k)) (is_some (k_strs k)))); [discriminate|].
  destruct (k_exact k && is_some (k_rows_str k)); [discriminate|].
  apply bind_not; [apply opt_load_not_timeout|]. intro s1.
  apply bind_not; [apply opt_load_not_timeout|]. intro s2.
  destruct (match k_snps k with Some a => existsb snp_calls_bad (gs_vars a) | None => false end); [discriminate|].
  apply bind_not.
  - unfold merged_gts. destruct (k_snps k), (k_strs k); discriminate.
  - intro gts. apply clump_loop_fuel; [apply load_variant_not_timeout| |apply le_n].
    intros gi iv c. unfold r2_pass. apply bind_not; [apply load_variant_not_timeout|]. intro gc.
    unfold pearson_oracle. cbn [bind]. discriminate.
Qed.

(* ---- clumpstr = load, then the greedy loop ------------------------------------------------------------ *)

Lemma rekey_keys_ge l : forall k x, In x (map sv_key (rekey k l)) -> k <= x.
Proof.
  induction l as [|v r IH]; intros k x H; [contradiction|]. cbn in H. destruct H as [<-|H]; [lia|].
  specialize (IH (k + 1) x H). lia.
Qed.

Lemma rekey_nodup l : forall k, NoDup (map sv_key (rekey k l)).
Proof.
  induction l as [|v r IH]; intro k; [constructor|]. cbn [rekey map sv_key]. constructor; [|apply IH].
  intro K. apply rekey_keys_ge in K. lia.
Qed.

(* re-keying changes nothing but the key *)
Lemma rekey_forall (P : svar -> Prop) :
  (forall v k, P v -> P (mksv (sv_id v) (sv_chrom v) (sv_pos v) (sv_p v) (sv_type v) k)) ->
  forall l k, Forall P l -> Forall P (rekey k l).
Proof.
  intros HP. induction l as [|v r IH]; intros k F; [constructor|]. inversion F; subst.
  cbn [rekey]. constructor; [apply HP; assumption|apply IH; assumption].
Qed.

Lemma rekey_ids l : forall k, map sv_id (rekey k l) = map sv_id l.
Proof. induction l as [|v r IH]; intro k; [reflexivity|]. cbn. rewrite IH. reflexivity. Qed.

Lemma opt_load_below_p2 hdr f p2 ty rows l :
  opt_load hdr f p2 ty rows = Ok l -> Forall (fun v => (sv_p v <= p2)%Q /\ sv_type v = ty) l.
Proof.
  unfold opt_load. destruct rows as [r|]; [|intro H; inversion H; constructor].
  unfold load_stats.
  destruct (need (index_of (f_id f) hdr)) as [a|]; cbn [bind]; [|discriminate].
  destruct (need (index_of (f_p f) hdr)) as [b|]; cbn [bind]; [|discriminate].
  destruct (need (index_of (f_chrom f) hdr)) as [c|]; cbn [bind]; [|discriminate].
  destruct (need (index_of (f_pos f) hdr)) as [d|]; cbn [bind]; [|discriminate].
  apply load_rows_below_p2.
Qed.

Lemma pearson_pb_spec r2 gts iv gi c b :
  load_variant gts iv = Ok gi -> r2_pass pearson_oracle r2 gts gi iv c = Ok b -> pearson_pb r2 gts iv c = b.
Proof.
  intros L H. unfold pearson_pb. rewrite L. unfold r2_pass, pearson_oracle in H.
  destruct (load_variant gts c) as [gc|e]; cbn [bind] in H; [|discriminate].
  inversion H. reflexivity.
Qed.

(* clumpstr's model with the Pearson oracle: when it returns clumps, both tables loaded (every
   loaded variant has p <= p2), the genotype sets merged, and the clumps are the greedy clumping
   of the loaded statistics - index order, membership = window (the code's float64 test) and
   r2 (squared correlation of the dosages over complete samples > clump_r2), removal - and no
   loaded row is in two clumps *)
Lemma clumpstr_greedy win k cl :
  clumpstr pearson_oracle win k = Ok cl ->
  exists s1 s2 gts,
    opt_load (k_hdr_snp k) (k_fields k) (k_p2 k) 0 (k_rows_snp k) = Ok s1 /\
    opt_load (k_hdr_str k) (k_fields k) (k_p2 k) 1 (k_rows_str k) = Ok s2 /\
    merged_gts (k_snps k) (k_strs k) = Ok gts /\
    let stats := rekey 0 (s1 ++ s2) in
    map sv_id stats = map sv_id (s1 ++ s2) /\
    Forall (fun v => (sv_p v <= k_p2 k)%Q) stats /\
    NoDup (map sv_key stats) /\
    greedy (k_p1 k) win (pearson_pb (k_r2 k) gts) stats cl /\
    ForallOrdPairs (fun c1 c2 => forall x, In x (clump_keys c1) -> In x (clump_keys c2) -> False) cl.
Proof.
  unfold clumpstr, clumpstr_gen. intro H.
  destruct (negb (Bool.eqb (is_some (k_rows_snp k)) (is_some (k_snps k)))); [discriminate|].
  destruct (negb (Bool.eqb (is_some (k_rows_str k)) (is_some (k_strs k)))); [discriminate|].
  destruct (k_exact k && is_some (k_rows_str k)); [discriminate|].
  destruct (opt_load (k_hdr_snp k) (k_fields k) (k_p2 k) 0 (k_rows_snp k)) as [s1|] eqn:L1; cbn [bind] in H; [|discriminate].
  destruct (opt_load (k_hdr_str k) (k_fields k) (k_p2 k) 1 (k_rows_str k)) as [s2|] eqn:L2; cbn [bind] in H; [|discriminate].
  destruct (match k_snps k with Some a => existsb snp_calls_bad (gs_vars a) | None => false end); [discriminate|].
  destruct (merged_gts (k_snps k) (k_strs k)) as [gts|] eqn:M; cbn [bind] in H; [|discriminate].
  exists s1, s2, gts. split; [reflexivity|]. split; [reflexivity|]. split; [reflexivity|].
  cbv zeta.
  assert (greedy (k_p1 k) win (pearson_pb (k_r2 k) gts) (rekey 0 (s1 ++ s2)) cl) as G.
  { eapply clump_loop_greedy. eapply clump_loop_as_total; [|exact H].
    intros iv gi c b. apply pearson_pb_spec. }
  split; [apply rekey_ids|]. split; [|split; [apply rekey_nodup|split; [exact G|eapply greedy_disjoint; exact G]]].
  apply rekey_forall; [intros v key Hv; exact Hv|].
  apply Forall_app. split.
  - eapply Forall_impl; [|eapply opt_load_below_p2; exact L1]. cbn. intros v Hv. tauto.
  - eapply Forall_impl; [|eapply opt_load_below_p2; exact L2]. cbn. intros v Hv. tauto.
Qed.

(* ---- what holds_clump = true says about a .clump file (Pearson) ---------------------------------------- *)

Lemma stats_of_nodup c st : stats_of c = Some st -> NoDup (map sv_key st).
Proof.
  unfold stats_of. destruct (opt_load _ _ _ 0 _) as [a|]; [|discriminate].
  destruct (opt_load _ _ _ 1 _) as [b|]; [|discriminate]. intro H. inversion H. apply rekey_nodup.
Qed.

(* for a Pearson run on input inside the quantifier (tables load, SNP genotypes complete and
   biallelic, every loaded variant has exactly one genotype record, kb finite) whatever the IDs:
   if holds_clump accepts the observed file, the file is the printed form (ID, CHROM, POS of index
   and members) of a greedy clumping [cl] of the loaded rows with the r2 test "squared dosage
   correlation over complete samples > clump_r2" and the window as the rational test.
   (holds_clump k = holds_core (cc_cfg k) (oracle_of k) kq (cc_kbdec k) (cc_obs k) with kq the exact
   value of the float64 kb; in Pearson mode oracle_of k = pearson_oracle) *)
Lemma holds_core_sound c kq kbdec st gts obs :
  Bool.eqb (is_some (k_rows_snp c)) (is_some (k_snps c)) = true ->
  Bool.eqb (is_some (k_rows_str c)) (is_some (k_strs c)) = true ->
  is_some (k_snps c) || is_some (k_strs c) = true ->
  k_exact c = false ->
  match k_snps c with Some a => existsb snp_calls_bad (gs_vars a) | None => false end = false ->
  stats_of c = Some st -> merged_gts (k_snps c) (k_strs c) = Ok gts ->
  (forall v, In v st -> exists g, load_variant gts v = Ok g) ->
  holds_core c pearson_oracle kq kbdec (Ok obs) = true ->
  exists cl, sigs_of cl = map row_sigs obs /\
    greedy_rows (below_p1 (k_p1 c)) (eligible (k_p1 c))
                (win_q (Qmin_b kq kbdec)) (win_q (Qmax_b kq kbdec))
                (pearson_pb (k_r2 c) gts) st cl.
Proof.
  intros P1 P2 P3 PE PB S M L H. unfold holds_core in H.
  rewrite P1, P2, P3, PE, PB, S, M in H. cbn [andb negb] in H.
  assert (forallb (fun v => match load_variant gts v with Ok _ => true | Err _ => false end) st = true) as LA.
  { apply forallb_forall. intros v Hv. destruct (L v Hv) as [g ->]. reflexivity. }
  rewrite LA in H. cbn [negb] in H.
  apply greedy_okb_sound_gen with (pass := passb c pearson_oracle gts); [eapply stats_of_nodup; exact S| |exact H].
  intros iv x Hiv Hx. unfold passb, pearson_pb.
  destruct (L iv Hiv) as [gi ->]. destruct (L x Hx) as [gc ->]. unfold pearson_oracle.
  destruct (pearson_ld gc gi); reflexivity.
Qed.

(* ---- GetOverlappingSamples: every returned pair of indices names the same sample -------------------- *)

Lemma index_from_spec l : forall k s i, In (s, i) (index_from k l) -> nthZ l (i - k) = Some s.
Proof.
  induction l as [|a r IH]; intros k s i H; [contradiction|]. cbn [index_from] in H. destruct H as [H|H].
  - inversion H; subst. rewrite Z.sub_diag. reflexivity.
  - specialize (IH (k + 1) s i H). unfold nthZ in *.
    assert (k + 1 <= i) as Hk.
    { clear IH. revert k H. induction r as [|b r' IHr]; intros k H; [contradiction|]. cbn [index_from] in H.
      destruct H as [H|H]; [inversion H; lia|]. specialize (IHr (k + 1) H). lia. }
    destruct (i - (k + 1) <? 0) eqn:E1; [discriminate|]. destruct (i - k <? 0) eqn:E2; [lia|].
    replace (Z.to_nat (i - k)) with (S (Z.to_nat (i - (k + 1)))) by lia. exact IH.
Qed.

Lemma insert_s_in x y l : In x (insert_s y l) <-> x = y \/ In x l.
Proof.
  induction l as [|z r IH]; cbn [insert_s].
  - cbn. intuition.
  - destruct ((fst y <? fst z) || ((fst y =? fst z) && (snd y <=? snd z))); cbn [In].
    + intuition.
    + rewrite IH. intuition.
Qed.

Lemma sort_samples_in x names : In x (sort_samples names) <-> In x (index_from 0 names).
Proof.
  unfold sort_samples. induction (index_from 0 names) as [|y r IH]; cbn [fold_right]; [tauto|].
  rewrite insert_s_in, IH. cbn [In]. intuition.
Qed.

Lemma overlap_in fuel : forall a b ia ib,
  In (ia, ib) (overlap fuel a b) -> exists s, In (s, ia) a /\ In (s, ib) b.
Proof.
  induction fuel as [|f IH]; intros a b ia ib H; [contradiction|]. cbn [overlap] in H.
  destruct a as [|[sa xa] ra]; [contradiction|]. destruct b as [|[sb xb] rb]; [contradiction|].
  destruct (sb <? sa).
  - destruct (IH _ _ _ _ H) as (s & H1 & H2). exists s. split; [exact H1|right; exact H2].
  - destruct (sb =? sa) eqn:E.
    + apply Z.eqb_eq in E. subst sb. destruct H as [H|H].
      * inversion H; subst. exists sa. split; left; reflexivity.
      * destruct (IH _ _ _ _ H) as (s & H1 & H2). exists s. split; right; assumption.
    + destruct (IH _ _ _ _ H) as (s & H1 & H2). exists s. split; [right; exact H1|exact H2].
Qed.

Lemma overlapping_same_sample snp_names str_names i j :
  In (i, j) (overlapping snp_names str_names) ->
  exists s, nthZ snp_names i = Some s /\ nthZ str_names j = Some s.
Proof.
  unfold overlapping. intro H. destruct (overlap_in _ _ _ _ _ H) as (s & H1 & H2).
  apply sort_samples_in in H1. apply sort_samples_in in H2.
  apply index_from_spec in H1. apply index_from_spec in H2. rewrite Z.sub_0_r in H1, H2.
  exists s. tauto.
Qed.

(* ---- ComputeLD checker ------------------------------------------------------------------------------- *)

Lemma Qabs_le_spec a b tol : Qabs_le a b tol = true <-> (a - b <= tol /\ b - a <= tol)%Q.
Proof. unfold Qabs_le. rewrite andb_true_iff, !Qle_bool_iff. tauto. Qed.

Lemma holds_computeld_sound d o :
  d_obs d = Ok o -> filter_gts (d_cand d) (d_idx d) <> [] -> holds_computeld d = true ->
  let l := filter_gts (d_cand d) (d_idx d) in
  if d_exact d then
    dosage012 l = true -> constantb fx l || constantb fy l = false ->
    exists v, o = Some v /\ (0 <= v <= 1)%Q /\
              (Qeq_bool (n11 (table_of l)) 0 = true ->
               (v - hap_r2 (table_of l) <= tol_exact /\ hap_r2 (table_of l) - v <= tol_exact)%Q)
  else match pearson_r2 l, o with
       | None, None => True
       | Some v, Some w => (w - v <= tol_pearson /\ v - w <= tol_pearson)%Q
       | _, _ => False end.
Proof.
  intros O NE. unfold holds_computeld. rewrite O. cbn zeta.
  destruct (filter_gts (d_cand d) (d_idx d)) as [|s l0] eqn:L; [contradiction|].
  destruct (d_exact d).
  - intros H D C. rewrite D, C in H. cbn [negb] in H. destruct o as [v|]; [|discriminate].
    apply andb_true_iff in H. destruct H as [H1 H2]. exists v. split; [reflexivity|].
    unfold in01 in H1. apply andb_true_iff in H1. rewrite !Qle_bool_iff in H1. split; [exact H1|].
    intro N. rewrite N in H2. cbn [negb orb] in H2. apply Qabs_le_spec. exact H2.
  - intro H. destruct (pearson_r2 (s :: l0)) as [v|], o as [w|]; try discriminate; [|exact I].
    apply Qabs_le_spec. exact H.
Qed.

(* ---- NaN exactly for constant genotypes; r2 of a variant with itself is 1 ----------------------------- *)

Lemma pearson_ld_nan_iff cand idx :
  pearson_ld cand idx = None <->
  filter_gts cand idx <> [] /\
  (constant_on fx (filter_gts cand idx) \/ constant_on fy (filter_gts cand idx)).
Proof.
  unfold pearson_ld. destruct (filter_gts cand idx) as [|s l] eqn:E.
  - split; [discriminate|]. intros [H _]. contradiction.
  - unfold pearson_r2. rewrite <- pearson_none_iff.
    destruct (pearson (s :: l)) as [[sg r]|]; cbn [option_map]; split; try discriminate; try tauto.
    + intros [_ H]. discriminate.
    + intros _. split; [discriminate|reflexivity].
Qed.

Lemma diag_sums (l : list smp) : (forall p, In p l -> fst p = snd p) ->
  dot fx fy l = dot fx fx l /\ dot fy fy l = dot fx fx l /\ sumf fy l = sumf fx l.
Proof.
  induction l as [|p l IH]; intro H; [repeat split; reflexivity|].
  destruct IH as (I1 & I2 & I3); [intros q Hq; apply H; right; exact Hq|].
  rewrite !dot_cons, !sumf_cons, I1, I2, I3. unfold fx, fy. rewrite <- (H p) by (left; reflexivity).
  repeat split; reflexivity.
Qed.

(* the r2 of a variant with itself is 1 unless its genotypes are constant (then NaN) *)
Lemma pearson_self (l : list smp) : (forall p, In p l -> fst p = snd p) ->
  pearson_r2 l = None \/ exists r, pearson_r2 l = Some r /\ (r == 1)%Q.
Proof.
  intro H. destruct (diag_sums l H) as (E1 & E2 & E3).
  assert (varn fy l = varn fx l) as V by (unfold varn; rewrite E2, E3; reflexivity).
  assert (covn l = varn fx l) as C by (unfold covn, varn; rewrite E1, E3; reflexivity).
  unfold pearson_r2, pearson. rewrite V, C.
  destruct (Z.eqb_spec (varn fx l) 0) as [Z0|NZ]; cbn [orb option_map]; [left; reflexivity|].
  right. eexists. split; [reflexivity|]. cbn [snd].
  pose proof (varn_nonneg fx l) as P.
  assert (0 < varn fx l * varn fx l) as PP by (apply Z.mul_pos_pos; lia).
  unfold Qeq. cbn [Qnum Qden]. rewrite Z2Pos.id by exact PP. ring.
Qed.

(* ---- GetOverlappingSamples finds every shared sample --------------------------------------------------- *)

From Coq Require Import Sorted.

Definition name_lt (p q : Z * Z) : Prop := fst p < fst q.
Definition ssorted (l : list (Z * Z)) : Prop := StronglySorted name_lt l.

Lemma insert_s_sorted x l :
  ssorted l -> ~ In (fst x) (map fst l) -> ssorted (insert_s x l).
Proof.
  induction l as [|y r IH]; intros S NI; cbn [insert_s].
  - constructor; constructor.
  - inversion S as [|? ? Sr Fy]; subst.
    assert (fst x <> fst y) as NE by (intro E; apply NI; left; symmetry; exact E).
    destruct ((fst x <? fst y) || ((fst x =? fst y) && (snd x <=? snd y))) eqn:C.
    + assert (fst x < fst y) as L.
      { apply orb_true_iff in C. destruct C as [C|C]; [apply Z.ltb_lt; exact C|].
        apply andb_true_iff in C. destruct C as [C _]. apply Z.eqb_eq in C. contradiction. }
      constructor; [exact S|]. constructor; [exact L|].
      rewrite Forall_forall in *. intros z Hz. specialize (Fy z Hz). unfold name_lt in *. lia.
    + apply orb_false_iff in C. destruct C as [C _]. apply Z.ltb_ge in C.
      constructor.
      * apply IH; [exact Sr|]. intro K. apply NI. right. exact K.
      * rewrite Forall_forall in *. intros z Hz. apply insert_s_in in Hz. destruct Hz as [->|Hz].
        -- unfold name_lt. lia.
        -- apply Fy. exact Hz.
Qed.

Lemma index_from_names l : forall k, map fst (index_from k l) = l.
Proof. induction l as [|a r IH]; intro k; [reflexivity|]. cbn. rewrite IH. reflexivity. Qed.

Lemma sort_samples_sorted names : NoDup names -> ssorted (sort_samples names).
Proof.
  unfold sort_samples. intro ND. rewrite <- (index_from_names names 0) in ND.
  induction (index_from 0 names) as [|y r IH]; cbn [fold_right]; [constructor|].
  cbn [map] in ND. inversion ND as [|? ? NI ND']; subst.
  apply insert_s_sorted; [apply IH; exact ND'|].
  intro K. apply NI. apply in_map_iff in K. destruct K as (z & Ez & Hz).
  rewrite <- Ez. apply in_map. clear - Hz. induction r as [|w r' IHr]; [exact Hz|].
  cbn [fold_right] in Hz. apply insert_s_in in Hz. destruct Hz as [->|Hz]; [left; reflexivity|right; apply IHr; exact Hz].
Qed.

Lemma overlap_complete : forall fuel a b s ia ib,
  ssorted a -> ssorted b -> (length a + length b <= fuel)%nat ->
  In (s, ia) a -> In (s, ib) b -> In (ia, ib) (overlap fuel a b).
Proof.
  induction fuel as [|f IH]; intros a b s ia ib Sa Sb Hl Ha Hb.
  - destruct a; [contradiction|]. cbn in Hl. lia.
  - cbn [overlap]. destruct a as [|[sa xa] ra]; [contradiction|]. destruct b as [|[sb xb] rb]; [contradiction|].
    inversion Sa as [|? ? Sra Fa]; subst. inversion Sb as [|? ? Srb Fb]; subst.
    rewrite Forall_forall in Fa, Fb. unfold name_lt in Fa, Fb. cbn [fst] in Fa, Fb.
    assert (sa <= s) as LA by (destruct Ha as [E|Ha]; [inversion E; lia|specialize (Fa _ Ha); cbn in Fa; lia]).
    assert (sb <= s) as LB by (destruct Hb as [E|Hb]; [inversion E; lia|specialize (Fb _ Hb); cbn in Fb; lia]).
    cbn [length] in Hl.
    destruct (sb <? sa) eqn:C1.
    + apply Z.ltb_lt in C1. apply (IH _ _ s); try assumption; [cbn [length]; lia|].
      destruct Hb as [E|Hb]; [inversion E; lia|exact Hb].
    + apply Z.ltb_ge in C1. destruct (sb =? sa) eqn:C2.
      * apply Z.eqb_eq in C2. subst sb.
        destruct Ha as [Ea|Ha].
        -- inversion Ea; subst. destruct Hb as [Eb|Hb]; [inversion Eb; subst; left; reflexivity|].
           specialize (Fb _ Hb). cbn in Fb. lia.
        -- right. specialize (Fa _ Ha). cbn in Fa.
           destruct Hb as [Eb|Hb]; [inversion Eb; lia|].
           apply (IH _ _ s); try assumption. lia.
      * apply Z.eqb_neq in C2. apply (IH _ _ s); try assumption; [cbn [length]; lia|].
        destruct Ha as [E|Ha]; [inversion E; lia|exact Ha].
Qed.

Lemma index_from_in l : forall k i s, nthZ l i = Some s -> In (s, k + i) (index_from k l).
Proof.
  induction l as [|a r IH]; intros k i s H; unfold nthZ in H.
  - destruct (i <? 0); [discriminate|]. destruct (Z.to_nat i); discriminate.
  - destruct (i <? 0) eqn:E; [discriminate|]. apply Z.ltb_ge in E.
    destruct (Z.to_nat i) as [|n] eqn:N.
    + cbn in H. inversion H; subst. assert (i = 0) by lia. subst. rewrite Z.add_0_r. left. reflexivity.
    + cbn [nth_error] in H. right. replace (k + i) with ((k + 1) + (i - 1)) by lia. apply IH.
      unfold nthZ. destruct (i - 1 <? 0) eqn:E2; [lia|]. replace (Z.to_nat (i - 1)) with n by lia. exact H.
Qed.

Lemma sort_samples_length names : length (sort_samples names) = length names.
Proof.
  unfold sort_samples.
  assert (forall l : list (Z * Z), length (fold_right insert_s [] l) = length l) as G.
  { induction l as [|y r IHr]; [reflexivity|]. cbn [fold_right length]. rewrite <- IHr.
    generalize (fold_right insert_s [] r). intro m. induction m as [|z m' IHm]; [reflexivity|].
    cbn [insert_s]. destruct (_ || _); cbn [length]; [reflexivity|rewrite IHm; reflexivity]. }
  rewrite G. rewrite <- (map_length fst), index_from_names. reflexivity.
Qed.

Lemma overlapping_complete snp_names str_names i j s :
  NoDup snp_names -> NoDup str_names ->
  nthZ snp_names i = Some s -> nthZ str_names j = Some s ->
  In (i, j) (overlapping snp_names str_names).
Proof.
  intros N1 N2 H1 H2. unfold overlapping.
  apply (overlap_complete _ _ _ s).
  - apply sort_samples_sorted. exact N1.
  - apply sort_samples_sorted. exact N2.
  - rewrite !sort_samples_length. lia.
  - apply sort_samples_in. apply (index_from_in _ 0). exact H1.
  - apply sort_samples_in. apply (index_from_in _ 0). exact H2.
Qed.

(* ---- the float64 window test on fractional radii (evaluated; PrimFloat primitives) ------------------ *)

(* The window test in the code's float64 arithmetic on fractional radii: --clump-kb 2.01 (the
   float64 0x1.0147ae147ae14p+1 = 201/100 correctly rounded, whose product with 1000 is
   2009.9999999999998) keeps the variant
   2009 bp from the index and drops the one at 2010 bp; --clump-kb 1.2345 keeps 1234 bp and drops
   1235 bp; --clump-kb 0.1 (the float64 above 1/10) drops 100 bp. *)
Example window_float_example :
  let v pos := mksv pos 1 pos (1#2) 0 pos in
  (map (fun d => win_float (PrimFloat.div (Stats.f_of_Z 201) (Stats.f_of_Z 100)) (v 5000) (v (5000 + d))) [2009; -2009; 2010; -2010],
   map (fun d => win_float (PrimFloat.div (Stats.f_of_Z 12345) (Stats.f_of_Z 10000)) (v 5000) (v (5000 + d))) [1234; 1235],
   map (fun d => win_float (PrimFloat.div (Stats.f_of_Z 1) (Stats.f_of_Z 10)) (v 5000) (v (5000 + d))) [99; 100])
  = ([true; true; false; false], [true; false], [true; false]).
Proof. vm_compute. reflexivity. Qed.

