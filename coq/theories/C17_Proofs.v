(* C17 - lemmas and proofs: the clumping loop. (Exact-LD algebra: C17_ProofsExact.v) *)
From HV Require Import Prelude PearsonQ C17_Model C17_Check.
From Coq Require Import QArith.
Open Scope Z_scope.

Lemma pearson_r2_in_01 l r : pearson_r2 l = Some r -> (0 <= r <= 1)%Q.
Proof.
  unfold pearson_r2. destruct (pearson l) as [[s r']|] eqn:E; cbn; [|discriminate].
  intro H. inversion H; subst. eapply pearson_r2_range. exact E.
Qed.

(* ---- order on Q through the boolean tests ---------------------------------- *)

Lemma Qlt_bool_iff a b : Qlt_bool a b = true <-> (a < b)%Q.
Proof.
  unfold Qlt_bool. rewrite negb_true_iff. split.
  - intro H. apply Qnot_le_lt. intro K. apply Qle_bool_iff in K. congruence.
  - intro H. destruct (Qle_bool b a) eqn:E; [|reflexivity].
    apply Qle_bool_iff in E. exfalso. exact (Qlt_not_le _ _ H E).
Qed.

Lemma Qlt_bool_false a b : Qlt_bool a b = false <-> (b <= a)%Q.
Proof.
  unfold Qlt_bool. rewrite negb_false_iff. apply Qle_bool_iff.
Qed.

(* ---- GetNextIndexVariant ---------------------------------------------------- *)

Definition upd (p1 bestp : Q) (v : svar) : bool := Qlt_bool (sv_p v) bestp && Qlt_bool (sv_p v) p1.

Lemma scan_best_spec p1 l : forall best bestp,
  (scan_best p1 best bestp l = best /\ forall v, In v l -> upd p1 bestp v = false)
  \/ (exists pre iv post, l = pre ++ iv :: post /\ scan_best p1 best bestp l = Some iv /\
        (sv_p iv < bestp)%Q /\ (sv_p iv < p1)%Q /\
        (forall v, In v pre -> (sv_p v < p1)%Q -> (sv_p iv < sv_p v)%Q) /\
        (forall v, In v post -> (sv_p v < p1)%Q -> (sv_p iv <= sv_p v)%Q)).
Proof.
  induction l as [|v r IH]; intros best bestp.
  - left. split; [reflexivity|intros v []].
  - cbn [scan_best]. fold (upd p1 bestp v). destruct (upd p1 bestp v) eqn:U.
    + apply andb_true_iff in U. destruct U as [U1 U2].
      apply Qlt_bool_iff in U1. apply Qlt_bool_iff in U2.
      right. destruct (IH (Some v) (sv_p v)) as [[E N]|(pre & iv & post & E & R & L1 & L2 & Hpre & Hpost)].
      * exists [], v, r. split; [reflexivity|]. split; [exact E|]. split; [exact U1|]. split; [exact U2|].
        split; [intros x []|]. intros x Hx Hp. specialize (N x Hx). unfold upd in N.
        apply andb_false_iff in N. destruct N as [N|N].
        -- apply Qlt_bool_false in N. exact N.
        -- apply Qlt_bool_false in N. exfalso. exact (Qlt_not_le _ _ Hp N).
      * exists (v :: pre), iv, post. split; [rewrite E; reflexivity|]. split; [exact R|].
        split; [apply Qlt_trans with (sv_p v); assumption|]. split; [exact L2|]. split; [|exact Hpost].
        intros x [<-|Hx] Hp; [exact L1|]. apply Hpre; assumption.
    + destruct (IH best bestp) as [[E N]|(pre & iv & post & E & R & L1 & L2 & Hpre & Hpost)].
      * left. split; [exact E|]. intros x [<-|Hx]; [exact U|apply N, Hx].
      * right. exists (v :: pre), iv, post. split; [rewrite E; reflexivity|]. split; [exact R|].
        split; [exact L1|]. split; [exact L2|]. split; [|exact Hpost].
        intros x [<-|Hx] Hp; [|apply Hpre; assumption].
        unfold upd in U. apply andb_false_iff in U. destruct U as [U|U]; apply Qlt_bool_false in U.
        -- apply Qlt_le_trans with bestp; assumption.
        -- exfalso. exact (Qlt_not_le _ _ Hp U).
Qed.

Lemma eligible_iff p1 v : eligible p1 v = true <-> (sv_p v < p1)%Q /\ (sv_p v < 1)%Q.
Proof. unfold eligible. rewrite andb_true_iff, !Qlt_bool_iff. tauto. Qed.

Lemma next_index_none p1 l :
  next_index p1 l = None -> forall v, In v l -> eligible p1 v = false.
Proof.
  unfold next_index. intros H v Hv.
  destruct (scan_best_spec p1 l None 1%Q) as [[_ N]|(pre & iv & post & _ & R & _)]; [|congruence].
  specialize (N v Hv). unfold upd in N. unfold eligible. rewrite andb_comm. exact N.
Qed.

Lemma next_index_some p1 l iv :
  next_index p1 l = Some iv ->
  exists pre post, l = pre ++ iv :: post /\ eligible p1 iv = true /\
    (forall v, In v l -> eligible p1 v = true -> (sv_p iv <= sv_p v)%Q) /\
    (forall v, In v pre -> eligible p1 v = true -> (sv_p iv < sv_p v)%Q).
Proof.
  unfold next_index. intro H.
  destruct (scan_best_spec p1 l None 1%Q) as [[E _]|(pre & iv' & post & E & R & L1 & L2 & Hpre & Hpost)]; [congruence|].
  rewrite R in H. inversion H; subst iv'. exists pre, post. split; [exact E|].
  split; [apply eligible_iff; split; assumption|]. split.
  - intros v Hv El. apply eligible_iff in El. destruct El as [El _]. rewrite E in Hv.
    apply in_app_or in Hv. destruct Hv as [Hv|[<-|Hv]].
    + apply Qlt_le_weak. apply Hpre; assumption.
    + apply Qle_refl.
    + apply Hpost; assumption.
  - intros v Hv El. apply eligible_iff in El. apply Hpre; tauto.
Qed.

Lemma next_index_in p1 l iv : next_index p1 l = Some iv -> In iv l.
Proof.
  intro H. destruct (next_index_some _ _ _ H) as (pre & post & E & _). rewrite E.
  apply in_or_app. right. left. reflexivity.
Qed.

(* ---- the loop ----------------------------------------------------------------- *)

Lemma filter_length_le {A} (f : A -> bool) l : (length (filter f l) <= length l)%nat.
Proof. induction l as [|a l IH]; cbn; [lia|]. destruct (f a); cbn; lia. Qed.

Lemma filter_length_lt {A} (f : A -> bool) l x :
  In x l -> f x = false -> (length (filter f l) < length l)%nat.
Proof.
  induction l as [|a l IH]; intros Hx Hf; [contradiction|]. cbn.
  destruct Hx as [->|Hx].
  - rewrite Hf. pose proof (filter_length_le f l). lia.
  - specialize (IH Hx Hf). destruct (f a); cbn; lia.
Qed.

Lemma has_id_app_self iv ms : has_id (sv_id iv) (ms ++ [iv]) = true.
Proof.
  unfold has_id. rewrite existsb_app. cbn. rewrite Z.eqb_refl. apply orb_true_r.
Qed.

Lemma remove_shrinks iv ms st :
  In iv st -> (length (remove_vars (ms ++ [iv]) st) < length st)%nat.
Proof.
  intro H. unfold remove_vars. apply filter_length_lt with (x := iv); [exact H|].
  rewrite has_id_app_self. reflexivity.
Qed.

Lemma filter_res_err {A} (f : A -> res bool) l e :
  filter_res f l = Err e -> exists a, In a l /\ f a = Err e.
Proof.
  induction l as [|a l IH]; cbn; [discriminate|].
  destruct (f a) as [b|e'] eqn:E; cbn.
  - destruct (filter_res f l) as [s|e''] eqn:F; cbn; [discriminate|].
    intro H. inversion H; subst. destruct (IH eq_refl) as (x & Hx & Fx). exists x. split; [right; exact Hx|exact Fx].
  - intro H. inversion H; subst. exists a. split; [left; reflexivity|exact E].
Qed.

Lemma filter_res_total {A} (f : A -> bool) l :
  filter_res (fun a => Ok (f a)) l = Ok (filter f l).
Proof.
  induction l as [|a l IH]; [reflexivity|]. cbn. rewrite IH. cbn. destruct (f a); reflexivity.
Qed.

(* termination: one unit of fuel per variant always suffices *)
Lemma clump_loop_fuel p1 kb pass :
  (forall iv c, pass iv c <> Err E_Timeout) ->
  forall fuel stats, (length stats <= fuel)%nat ->
  clump_loop fuel p1 kb pass stats <> Err E_Timeout.
Proof.
  intros HP fuel. induction fuel as [|f IH]; intros stats Hl.
  - destruct stats; [|cbn in Hl; lia]. cbn. discriminate.
  - cbn [clump_loop]. destruct (next_index p1 stats) as [iv|] eqn:N; [|discriminate].
    destruct (filter_res (pass iv) (query_window iv kb stats)) as [ms|e] eqn:F; cbn [bind].
    + pose proof (remove_shrinks iv ms stats (next_index_in _ _ _ N)) as Hs.
      specialize (IH (remove_vars (ms ++ [iv]) stats)).
      destruct (clump_loop f p1 kb pass (remove_vars (ms ++ [iv]) stats)) as [rest|e] eqn:R; cbn [bind].
      * discriminate.
      * intro K. inversion K; subst. apply IH; [lia|reflexivity].
    + intro K. inversion K; subst. destruct (filter_res_err _ _ _ F) as (c & _ & Hc). exact (HP iv c Hc).
Qed.

Lemma clump_terminates_total p1 kb (pb : svar -> svar -> bool) stats :
  exists cl, clump_loop (length stats) p1 kb (fun iv c => Ok (pb iv c)) stats = Ok cl.
Proof.
  assert (forall fuel st, (length st <= fuel)%nat ->
          exists cl, clump_loop fuel p1 kb (fun iv c => Ok (pb iv c)) st = Ok cl) as G.
  { induction fuel as [|f IH]; intros st Hl.
    - destruct st; [|cbn in Hl; lia]. exists []. reflexivity.
    - cbn [clump_loop]. destruct (next_index p1 st) as [iv|] eqn:N; [|exists []; reflexivity].
      rewrite filter_res_total. cbn [bind].
      pose proof (remove_shrinks iv (filter (pb iv) (query_window iv kb st)) st (next_index_in _ _ _ N)) as Hs.
      destruct (IH (remove_vars (filter (pb iv) (query_window iv kb st) ++ [iv]) st)) as [rest R]; [lia|].
      rewrite R. cbn [bind]. eexists. reflexivity. }
  apply G. lia.
Qed.

(* ---- greedy characterisation --------------------------------------------------- *)

Definition members (kb : Q) (pb : svar -> svar -> bool) (iv : svar) (st : list svar) : list svar :=
  filter (fun c => in_window iv kb c && pb iv c) st.

Inductive greedy (p1 kb : Q) (pb : svar -> svar -> bool) : list svar -> list clump -> Prop :=
| greedy_stop st :
    (forall v, In v st -> eligible p1 v = false) ->
    greedy p1 kb pb st []
| greedy_step st pre iv post rest :
    st = pre ++ iv :: post ->
    eligible p1 iv = true ->
    (forall v, In v st -> eligible p1 v = true -> (sv_p iv <= sv_p v)%Q) ->
    (forall v, In v pre -> eligible p1 v = true -> (sv_p iv < sv_p v)%Q) ->
    greedy p1 kb pb (remove_vars (members kb pb iv st ++ [iv]) st) rest ->
    greedy p1 kb pb st ((iv, members kb pb iv st) :: rest).

Lemma filter_filter {A} (f g : A -> bool) l : filter g (filter f l) = filter (fun a => f a && g a) l.
Proof.
  induction l as [|a l IH]; [reflexivity|]. cbn. destruct (f a); cbn; [|exact IH].
  destruct (g a); rewrite IH; reflexivity.
Qed.

Lemma clump_loop_greedy p1 kb pb : forall fuel stats cl,
  clump_loop fuel p1 kb (fun iv c => Ok (pb iv c)) stats = Ok cl -> greedy p1 kb pb stats cl.
Proof.
  induction fuel as [|f IH]; intros stats cl H.
  - cbn in H. destruct (next_index p1 stats) eqn:N; [discriminate|]. inversion H; subst.
    apply greedy_stop. apply next_index_none. exact N.
  - cbn [clump_loop] in H. destruct (next_index p1 stats) as [iv|] eqn:N.
    + rewrite filter_res_total in H. cbn [bind] in H.
      unfold query_window in H. rewrite filter_filter in H. fold (members kb pb iv stats) in H.
      destruct (clump_loop f p1 kb (fun iv c => Ok (pb iv c)) (remove_vars (members kb pb iv stats ++ [iv]) stats))
        as [rest|e] eqn:R; cbn [bind] in H; [|discriminate].
      inversion H; subst.
      destruct (next_index_some _ _ _ N) as (pre & post & E & El & Hmin & Hpre).
      eapply greedy_step; try eassumption. apply IH. exact R.
    + inversion H; subst. apply greedy_stop. apply next_index_none. exact N.
Qed.

(* ---- disjointness ------------------------------------------------------------------ *)

Definition clump_ids (c : clump) : list Z := sv_id (fst c) :: map sv_id (snd c).

Lemma greedy_within p1 kb pb st cl :
  greedy p1 kb pb st cl -> forall c, In c cl -> In (fst c) st /\ incl (snd c) st.
Proof.
  induction 1 as [st _|st pre iv post rest E El Hmin Hpre G IH]; intros c Hc; [contradiction|].
  destruct Hc as [<-|Hc]; cbn [fst snd].
  - split; [rewrite E; apply in_or_app; right; left; reflexivity|].
    intros x Hx. unfold members in Hx. apply filter_In in Hx. tauto.
  - destruct (IH c Hc) as [I1 I2]. unfold remove_vars in I1, I2. split.
    + apply filter_In in I1. tauto.
    + intros x Hx. specialize (I2 x Hx). apply filter_In in I2. tauto.
Qed.

Lemma has_id_true x l : has_id x l = true <-> In x (map sv_id l).
Proof.
  unfold has_id. rewrite existsb_exists, in_map_iff. split.
  - intros (v & Hv & E). apply Z.eqb_eq in E. exists v. tauto.
  - intros (v & E & Hv). exists v. split; [exact Hv|apply Z.eqb_eq; exact E].
Qed.

Lemma clump_ids_gone iv ms x : In x (clump_ids (iv, ms)) -> has_id x (ms ++ [iv]) = true.
Proof.
  intro H. apply has_id_true. rewrite map_app. apply in_or_app. cbn in H. destruct H as [<-|H].
  - right. left. reflexivity.
  - left. exact H.
Qed.

Lemma greedy_disjoint p1 kb pb st cl :
  greedy p1 kb pb st cl ->
  ForallOrdPairs (fun c1 c2 => forall x, In x (clump_ids c1) -> In x (clump_ids c2) -> False) cl.
Proof.
  induction 1 as [st _|st pre iv post rest E El Hmin Hpre G IH]; [constructor|].
  constructor; [|exact IH].
  apply Forall_forall. intros c Hc x H1 H2.
  pose proof (clump_ids_gone _ _ _ H1) as Hg.
  destruct (greedy_within _ _ _ _ _ G c Hc) as [I1 I2].
  assert (exists v, In v (remove_vars (members kb pb iv st ++ [iv]) st) /\ sv_id v = x) as (v & Hv & <-).
  { unfold clump_ids in H2. destruct H2 as [<-|H2].
    - exists (fst c). split; [exact I1|reflexivity].
    - apply in_map_iff in H2. destruct H2 as (v & Ev & Hv). exists v. split; [apply I2; exact Hv|exact Ev]. }
  unfold remove_vars in Hv. apply filter_In in Hv. destruct Hv as [_ Hv].
  rewrite Hg in Hv. discriminate.
Qed.
