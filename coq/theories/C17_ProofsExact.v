(* C17 - the algebra of exact LD (ComputeExactLD / _CalcLDStats) over Q. *)
From HV Require Import Prelude PearsonQ C17_Model C17_Check.
From Coq Require Import QArith Lqa.
Open Scope Q_scope.

Lemma exact_D_simpl p q f : exact_D p q f == f - p * q.
Proof. unfold exact_D. ring. Qed.

(* for ANY p, q: f = num_alt / 2n is a root of the cubic with n11 = 0 *)
Lemma cubic_root_gen (n p q na : Q) : ~ n == 0 ->
  let f := na / (2 * n) in
  4 * n * f * f * f + (2 * n * (1 - 2 * p - 2 * q) - 2 * na - 0) * f * f
  + (- na * (1 - 2 * p - 2 * q) - 0 * (1 - p - q) + 2 * n * p * q) * f + - na * p * q == 0.
Proof. intros Hn f. unfold f. field. exact Hn. Qed.

Lemma exact_root t : ~ t_n t == 0 -> n11 t == 0 -> cubic t (minhap t) == 0.
Proof.
  intros Hn H11. unfold cubic, cub_a, cub_b, cub_c, cub_d, minhap. rewrite H11.
  apply cubic_root_gen. exact Hn.
Qed.

(* marginal haplotype counts of the 2x2 table (n11 = 0) *)
Definition hm_c0 (t : tab) : Q := 2 * n00 t + n01 t + n10 t + (n01 t + 2 * n02 t + n12 t).   (* candidate allele 0 *)
Definition hm_c1 (t : tab) : Q := n10 t + 2 * n20 t + n21 t + (n12 t + n21 t + 2 * n22 t).   (* candidate allele 1 *)
Definition hm_i0 (t : tab) : Q := 2 * n00 t + n01 t + n10 t + (n10 t + 2 * n20 t + n21 t).   (* index allele 0 *)
Definition hm_i1 (t : tab) : Q := n01 t + 2 * n02 t + n12 t + (n12 t + n21 t + 2 * n22 t).   (* index allele 1 *)

Lemma exact_r2_hap t :
  ~ t_n t == 0 -> n11 t == 0 ->
  ~ hm_c0 t == 0 -> ~ hm_c1 t == 0 -> ~ hm_i0 t == 0 -> ~ hm_i1 t == 0 ->
  exact_r2 (t_p t) (t_q t) (minhap t) == hap_r2 t.
Proof.
  intros Hn H11 C0 C1 I0 I1.
  unfold exact_r2, exact_D, hap_r2, minhap, num_alt, t_p, t_q. unfold t_n, hm_c0, hm_c1, hm_i0, hm_i1 in *.
  destruct t as [a00 a01 a02 a10 a11 a12 a20 a21 a22]. cbn [n00 n01 n02 n10 n11 n12 n20 n21 n22] in *.
  rewrite H11. field.
  repeat split; try assumption.
  intro K. apply Hn. lra.
Qed.

(* ---- range ------------------------------------------------------------------- *)

Lemma freq_cs (a b c d : Q) : 0 <= a -> 0 <= b -> 0 <= c -> 0 <= d ->
  (a * d - b * c) * (a * d - b * c) <= (a + b) * (c + d) * (a + c) * (b + d).
Proof.
  intros Ha Hb Hc Hd.
  assert (0 <= a * b) by (apply Qmult_le_0_compat; assumption).
  assert (0 <= a * c) by (apply Qmult_le_0_compat; assumption).
  assert (0 <= a * d) by (apply Qmult_le_0_compat; assumption).
  assert (0 <= b * c) by (apply Qmult_le_0_compat; assumption).
  assert (0 <= b * d) by (apply Qmult_le_0_compat; assumption).
  assert (0 <= c * d) by (apply Qmult_le_0_compat; assumption).
  nra.
Qed.

Lemma exact_r2_range_freq p q f :
  0 <= f -> f <= p -> f <= q -> 0 <= 1 - p - q + f -> 0 < p * (1 - p) * q * (1 - q) ->
  0 <= exact_r2 p q f <= 1.
Proof.
  intros Ha Hb Hc Hd Hden.
  pose proof (freq_cs f (p - f) (q - f) (1 - p - q + f)) as CS.
  assert (0 <= p - f) as Hb' by lra. assert (0 <= q - f) as Hc' by lra.
  specialize (CS Ha Hb' Hc' Hd).
  assert (exact_D p q f == f * (1 - p - q + f) - (p - f) * (q - f)) as ED by (unfold exact_D; ring).
  assert ((f + (p - f)) * (q - f + (1 - p - q + f)) * (f + (q - f)) * (p - f + (1 - p - q + f))
          == p * (1 - p) * q * (1 - q)) as EDen by ring.
  rewrite EDen, <- ED in CS.
  unfold exact_r2. split.
  - apply Qle_shift_div_l; [exact Hden|]. rewrite Qmult_0_l.
    assert (0 <= exact_D p q f * exact_D p q f) by nra. assumption.
  - apply Qle_shift_div_r; [exact Hden|]. rewrite Qmult_1_l. exact CS.
Qed.

Definition tab_nonneg (t : tab) : Prop :=
  0 <= n00 t /\ 0 <= n01 t /\ 0 <= n02 t /\ 0 <= n10 t /\ 0 <= n11 t /\ 0 <= n12 t /\
  0 <= n20 t /\ 0 <= n21 t /\ 0 <= n22 t.

Lemma div_nonneg x y : 0 <= x -> 0 < y -> 0 <= x / y.
Proof. intros Hx Hy. apply Qle_shift_div_l; [exact Hy|]. rewrite Qmult_0_l. exact Hx. Qed.

(* for every f00 in the admissible interval [minhap, maxhap] the r^2 formula is in [0,1] *)
Lemma exact_r2_range_tab t f :
  tab_nonneg t -> 0 < t_n t ->
  0 < t_p t * (1 - t_p t) * t_q t * (1 - t_q t) ->
  minhap t <= f <= maxhap t ->
  0 <= exact_r2 (t_p t) (t_q t) f <= 1.
Proof.
  intros (P00 & P01 & P02 & P10 & P11 & P12 & P20 & P21 & P22) Hn Hden [Hlo Hhi].
  assert (0 < 2 * t_n t) as H2n by lra.
  assert (~ t_n t == 0) as Hn0 by lra.
  apply exact_r2_range_freq; try exact Hden.
  - apply Qle_trans with (minhap t); [|exact Hlo]. unfold minhap, num_alt. apply div_nonneg; lra.
  - apply Qle_trans with (maxhap t); [exact Hhi|].
    assert (t_p t - maxhap t == (n01 t + 2 * n02 t + n12 t) / (2 * t_n t)) as E
      by (unfold t_p, maxhap, num_alt; field; exact Hn0).
    assert (0 <= t_p t - maxhap t) by (rewrite E; apply div_nonneg; lra). lra.
  - apply Qle_trans with (maxhap t); [exact Hhi|].
    assert (t_q t - maxhap t == (n10 t + 2 * n20 t + n21 t) / (2 * t_n t)) as E
      by (unfold t_q, maxhap, num_alt; field; exact Hn0).
    assert (0 <= t_q t - maxhap t) by (rewrite E; apply div_nonneg; lra). lra.
  - assert (1 - t_p t - t_q t + minhap t == (n12 t + n21 t + 2 * n22 t) / (2 * t_n t)) as E
      by (unfold t_p, t_q, minhap, num_alt, t_n; field; unfold t_n in Hn0; exact Hn0).
    assert (0 <= 1 - t_p t - t_q t + minhap t) by (rewrite E; apply div_nonneg; lra). lra.
Qed.

(* ---- the cubic changes sign on the admissible interval ------------------------------- *)

(* the cubic is the EM fixed-point equation
     (2n f - num_alt) (f00 f11 + f01 f10) - n11 f00 f11 = 0:
   at f = minhap = num_alt/2n it equals - n11 f00 f11, at f = maxhap it equals n11 f01 f10 *)
Lemma cubic_at_minhap t : ~ t_n t == 0 ->
  cubic t (minhap t) == - (n11 t * minhap t * ((n12 t + n21 t + 2 * n22 t) / (2 * t_n t))).
Proof.
  intro Hn. unfold cubic, cub_a, cub_b, cub_c, cub_d, minhap, num_alt, t_p, t_q. unfold t_n in *.
  destruct t as [a00 a01 a02 a10 a11 a12 a20 a21 a22]. cbn [n00 n01 n02 n10 n11 n12 n20 n21 n22] in *.
  field. exact Hn.
Qed.

Lemma cubic_at_maxhap t : ~ t_n t == 0 ->
  cubic t (maxhap t) == n11 t * ((n01 t + 2 * n02 t + n12 t) / (2 * t_n t)) * ((n10 t + 2 * n20 t + n21 t) / (2 * t_n t)).
Proof.
  intro Hn. unfold cubic, cub_a, cub_b, cub_c, cub_d, maxhap, num_alt, t_p, t_q. unfold t_n in *.
  destruct t as [a00 a01 a02 a10 a11 a12 a20 a21 a22]. cbn [n00 n01 n02 n10 n11 n12 n20 n21 n22] in *.
  field. exact Hn.
Qed.

(* so for every table of non-negative counts the cubic is <= 0 at minhap and >= 0 at maxhap: it
   has a real root in the admissible interval (intermediate values; not formalised), and a solver
   that reports none has lost one *)
Lemma cubic_sign_change t : tab_nonneg t -> 0 < t_n t ->
  cubic t (minhap t) <= 0 /\ 0 <= cubic t (maxhap t).
Proof.
  intros (P00 & P01 & P02 & P10 & P11 & P12 & P20 & P21 & P22) Hn.
  assert (~ t_n t == 0) as Hn0 by lra.
  assert (0 < 2 * t_n t) as H2n by lra.
  rewrite (cubic_at_minhap t Hn0), (cubic_at_maxhap t Hn0). split.
  - assert (0 <= minhap t) as A by (unfold minhap, num_alt; apply div_nonneg; lra).
    assert (0 <= (n12 t + n21 t + 2 * n22 t) / (2 * t_n t)) as B by (apply div_nonneg; lra).
    assert (0 <= n11 t * minhap t) as C by (apply Qmult_le_0_compat; assumption).
    assert (0 <= n11 t * minhap t * ((n12 t + n21 t + 2 * n22 t) / (2 * t_n t))) by (apply Qmult_le_0_compat; assumption).
    lra.
  - assert (0 <= (n01 t + 2 * n02 t + n12 t) / (2 * t_n t)) as A by (apply div_nonneg; lra).
    assert (0 <= (n10 t + 2 * n20 t + n21 t) / (2 * t_n t)) as B by (apply div_nonneg; lra).
    apply Qmult_le_0_compat; [apply Qmult_le_0_compat|]; assumption.
Qed.
