(* C17 - the algebra of exact LD (ComputeExactLD / _CalcLDStats) over Q. *)
From HV Require Import Prelude PearsonQ C17_Model C17_Check.
From Coq Require Import QArith Lqa.
Open Scope Q_scope.

Lemma exact_D_simpl p q f : exact_D p q f == f - p * q.
Proof. unfold exact_D. ring. Qed.

(* for ANY p, q: f = num_alt / 2n is a root of the cubic with n11 = 0 *)
Lemma cubic_root_gen (n p q na : Q) : ~ n == 0 ->
  let f := na / (2 * n) in
  4 * n * f * f * f + (2 * n * (1 - 2 * p - 2 * q) - 2 * na - 0) * f * f
  + (- na * (1 - 2 * p - 2 * q) - 0 * (1 - p - q) + 2 * n * p * q) * f + - na * p * q == 0.
Proof. intros Hn f. unfold f. field. exact Hn. Qed.

Lemma exact_root t : ~ t_n t == 0 -> n11 t == 0 -> cubic t (minhap t) == 0.
Proof.
  intros Hn H11. unfold cubic, cub_a, cub_b, cub_c, cub_d, minhap. rewrite H11.
  apply cubic_root_gen. exact Hn.
Qed.
