(* C17 - property theorems only. *)
From HV Require Import Prelude PearsonQ C17_Model C17_Check C17_Proofs.
From Coq Require Import QArith.
Open Scope Z_scope.

(* The procedure terminates for every input: with one unit of fuel per variant of the
   table the loop never runs out of fuel, whatever ComputeLD returns (NaN included) -
   every iteration removes at least the index variant. *)
Theorem C17_clump_terminates :
  forall p1 kb pass,
  (forall iv c, pass iv c <> Err E_Timeout) ->
  forall fuel stats, (length stats <= fuel)%nat ->
  clump_loop fuel p1 kb pass stats <> Err E_Timeout.
Proof. exact clump_loop_fuel. Qed.
Print Assumptions C17_clump_terminates.

Theorem C17_clump_terminates_total :
  forall p1 kb (pb : svar -> svar -> bool) stats,
  exists cl, clump_loop (length stats) p1 kb (fun iv c => Ok (pb iv c)) stats = Ok cl.
Proof. exact clump_terminates_total. Qed.
Print Assumptions C17_clump_terminates_total.

(* The output is greedy clumping: each clump's index is, among the not-yet-clumped
   variants, eligible (p < p1, p < 1), of minimal p, the first in file order among ties;
   its members are exactly the not-yet-clumped variants on the index's chromosome
   strictly within the window that pass the r2 test; the loop stops only when no
   eligible variant is left. *)
Theorem C17_clump_is_greedy :
  forall p1 kb pb fuel stats cl,
  clump_loop fuel p1 kb (fun iv c => Ok (pb iv c)) stats = Ok cl -> greedy p1 kb pb stats cl.
Proof. exact clump_loop_greedy. Qed.
Print Assumptions C17_clump_is_greedy.

(* No variant ID appears in two clumps (as index or as member). *)
Theorem C17_clumps_disjoint :
  forall p1 kb pb fuel stats cl,
  clump_loop fuel p1 kb (fun iv c => Ok (pb iv c)) stats = Ok cl ->
  ForallOrdPairs (fun c1 c2 => forall x, In x (clump_ids c1) -> In x (clump_ids c2) -> False) cl.
Proof. intros. eapply greedy_disjoint. eapply clump_loop_greedy. eassumption. Qed.
Print Assumptions C17_clumps_disjoint.

(* The hypotheses are satisfiable and the statement is not vacuous: a table with a tie,
   p = 0, p = 1 and a constant-genotype index (r2 with itself NaN, never "passes"). *)
Example C17_greedy_example :
  let v i p := mksv i 1 (1000 + i) p 0 in
  let st := [v 0 (1#1); v 1 (1#1000); v 2 (0#1); v 3 (1#1000)] in
  option_map (map (fun c : clump => (sv_id (fst c), map sv_id (snd c))))
    (match clump_loop (length st) (1#100) (1#1) (fun iv c => Ok (negb (sv_id iv =? 2) && (sv_id c <=? sv_id iv))) st
     with Ok cl => Some cl | Err _ => None end)
  = Some [(2, []); (1, [0; 1]); (3, [3])].
Proof. vm_compute. reflexivity. Qed.
Print Assumptions C17_greedy_example.

(* Pearson r^2 of any two dosage vectors lies in [0,1] *)
Theorem C17_pearson_r2_range :
  forall l r, pearson_r2 l = Some r -> (0 <= r <= 1)%Q.
Proof. exact pearson_r2_in_01. Qed.
Print Assumptions C17_pearson_r2_range.
