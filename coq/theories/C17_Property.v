(* C17 - property theorems only. *)
From HV Require Import Prelude PearsonQ C17_Model C17_Check C17_Proofs C17_ProofsExact.
From Coq Require Import QArith.
Open Scope Z_scope.

(* The procedure terminates for every input: with one unit of fuel per variant of the
   table the loop never runs out of fuel, whatever ComputeLD returns (NaN included) -
   every iteration removes at least the index variant. *)
Theorem C17_clump_terminates :
  forall (G : Type) p1 win (load : svar -> res G) pass,
  (forall iv, load iv <> Err E_Timeout) ->
  (forall gi iv c, pass gi iv c <> Err E_Timeout) ->
  forall fuel stats, (length stats <= fuel)%nat ->
  clump_loop fuel p1 win load pass stats <> Err E_Timeout.
Proof. exact @clump_loop_fuel. Qed.
Print Assumptions C17_clump_terminates.

Theorem C17_clump_terminates_total :
  forall p1 win (pb : svar -> svar -> bool) stats,
  exists cl, clump_loop_total (length stats) p1 win pb stats = Ok cl.
Proof. exact clump_terminates_total. Qed.
Print Assumptions C17_clump_terminates_total.

(* The output is greedy clumping: each clump's index is, among the not-yet-clumped
   variants, eligible (p < p1, p < 1), of minimal p, the first in file order among ties;
   its members are exactly the not-yet-clumped variants that are in the window of the
   index (for every window predicate [win]: the code's float64 test win_float kb, or the
   rational test win_q kb) and pass the r2 test; the loop stops only when no eligible
   variant is left. *)
Theorem C17_clump_is_greedy :
  forall p1 win pb fuel stats cl,
  clump_loop_total fuel p1 win pb stats = Ok cl -> greedy p1 win pb stats cl.
Proof. exact clump_loop_greedy. Qed.
Print Assumptions C17_clump_is_greedy.

(* No variant - row of the tables, identified by its load key as the code identifies a Variant
   object - appears in two clumps (as index or as member), whatever the IDs ... *)
Theorem C17_clumps_disjoint :
  forall p1 win pb fuel stats cl,
  clump_loop_total fuel p1 win pb stats = Ok cl ->
  ForallOrdPairs (fun c1 c2 => forall x, In x (clump_keys c1) -> In x (clump_keys c2) -> False) cl.
Proof. intros. eapply greedy_disjoint. eapply clump_loop_greedy. eassumption. Qed.
Print Assumptions C17_clumps_disjoint.

(* ... and with distinct variant IDs no ID appears in two clumps. *)
Theorem C17_clumps_disjoint_ids :
  forall p1 win pb fuel stats cl,
  NoDup (map sv_id stats) ->
  clump_loop_total fuel p1 win pb stats = Ok cl ->
  ForallOrdPairs (fun c1 c2 => forall x, In x (clump_ids c1) -> In x (clump_ids c2) -> False) cl.
Proof. intros. eapply greedy_disjoint_ids; [eassumption|]. eapply clump_loop_greedy. eassumption. Qed.
Print Assumptions C17_clumps_disjoint_ids.

(* clumpstr as a whole with the Pearson oracle: whenever the model returns clumps, the two tables
   loaded (every loaded variant has p <= p2), the genotype sets merged, and the clumps are the
   greedy clumping of the loaded statistics: index order and ties, members = not-yet-clumped
   variants in the window (any window predicate; the code's is the float64 test win_float kb,
   C17_Check.model_clump) with exactly one genotype
   record whose squared dosage correlation with the index over the complete samples exceeds
   clump_r2, removal of index and members, and no loaded row in two clumps. *)
Theorem C17_clumpstr_is_greedy :
  forall win k cl,
  clumpstr pearson_oracle win k = Ok cl ->
  exists s1 s2 gts,
    opt_load (k_hdr_snp k) (k_fields k) (k_p2 k) 0 (k_rows_snp k) = Ok s1 /\
    opt_load (k_hdr_str k) (k_fields k) (k_p2 k) 1 (k_rows_str k) = Ok s2 /\
    merged_gts (k_snps k) (k_strs k) = Ok gts /\
    let stats := rekey 0 (s1 ++ s2) in
    map sv_id stats = map sv_id (s1 ++ s2) /\
    Forall (fun v => (sv_p v <= k_p2 k)%Q) stats /\
    NoDup (map sv_key stats) /\
    greedy (k_p1 k) win (pearson_pb (k_r2 k) gts) stats cl /\
    ForallOrdPairs (fun c1 c2 => forall x, In x (clump_keys c1) -> In x (clump_keys c2) -> False) cl.
Proof. exact clumpstr_greedy. Qed.
Print Assumptions C17_clumpstr_is_greedy.

(* a partial run of the loop (genotype lookups may fail) that succeeds is the total loop with
   any boolean test that agrees with the lookups made *)
Theorem C17_partial_loop_is_total :
  forall (G : Type) p1 win (load : svar -> res G) pass (pb : svar -> svar -> bool),
  (forall iv gi c b, load iv = Ok gi -> pass gi iv c = Ok b -> pb iv c = b) ->
  forall fuel stats cl,
  clump_loop fuel p1 win load pass stats = Ok cl ->
  clump_loop_total fuel p1 win pb stats = Ok cl.
Proof. exact @clump_loop_as_total. Qed.
Print Assumptions C17_partial_loop_is_total.

(* The hypotheses are satisfiable and the statement is not vacuous: a table with a tie,
   p = 0, p = 1 and a constant-genotype index (r2 with itself NaN, never "passes"). *)
Example C17_greedy_example :
  let v i p := mksv i 1 (1000 + i) p 0 i in
  let st := [v 0 (1#1); v 1 (1#1000); v 2 (0#1); v 3 (1#1000)] in
  option_map (map (fun c : clump => (sv_id (fst c), map sv_id (snd c))))
    (match clump_loop_total (length st) (1#100) (win_q (1#1)) (fun iv c => negb (sv_id iv =? 2) && (sv_id c <=? sv_id iv)) st
     with Ok cl => Some cl | Err _ => None end)
  = Some [(2, []); (1, [0; 1]); (3, [3])].
Proof. vm_compute. reflexivity. Qed.
Print Assumptions C17_greedy_example.

(* Pearson r^2 of any two dosage vectors lies in [0,1] *)
Theorem C17_pearson_r2_range :
  forall l r, pearson_r2 l = Some r -> (0 <= r <= 1)%Q.
Proof. exact pearson_r2_in_01. Qed.
Print Assumptions C17_pearson_r2_range.

(* Exact LD.  When no sample is doubly heterozygous (n11 = 0) the admissible interval
   [minhap, maxhap] is the single point num_alt/2n; it is a root of the cubic that
   ComputeExactLD solves ... *)
Theorem C17_exact_root_no_double_het :
  forall t, ~ (t_n t == 0)%Q -> (n11 t == 0)%Q -> (cubic t (minhap t) == 0)%Q.
Proof. exact exact_root. Qed.
Print Assumptions C17_exact_root_no_double_het.

(* ... and the r^2 formula evaluated there is the r^2 of the 2x2 haplotype table the
   genotypes determine (both variants polymorphic). *)
Theorem C17_exact_r2_is_haplotype_r2 :
  forall t, ~ (t_n t == 0)%Q -> (n11 t == 0)%Q ->
  ~ (hm_c0 t == 0)%Q -> ~ (hm_c1 t == 0)%Q -> ~ (hm_i0 t == 0)%Q -> ~ (hm_i1 t == 0)%Q ->
  (exact_r2 (t_p t) (t_q t) (minhap t) == hap_r2 t)%Q.
Proof. exact exact_r2_hap. Qed.
Print Assumptions C17_exact_r2_is_haplotype_r2.

(* For every 3x3 table of non-negative counts with both variants polymorphic and every
   f00 in the admissible interval, the r^2 formula of _CalcLDStats lies in [0,1]. *)
Theorem C17_exact_r2_range :
  forall t f, tab_nonneg t -> (0 < t_n t)%Q ->
  (0 < t_p t * (1 - t_p t) * t_q t * (1 - t_q t))%Q ->
  (minhap t <= f <= maxhap t)%Q ->
  (0 <= exact_r2 (t_p t) (t_q t) f <= 1)%Q.
Proof. exact exact_r2_range_tab. Qed.
Print Assumptions C17_exact_r2_range.

(* The cubic ComputeExactLD solves changes sign on the admissible interval, for every table of
   non-negative counts: cubic(minhap) = - n11 f00 f11 <= 0 <= n11 f01 f10 = cubic(maxhap).  So an
   admissible real root always exists (by continuity; not formalised). *)
Theorem C17_exact_cubic_sign_change :
  forall t, tab_nonneg t -> (0 < t_n t)%Q ->
  (cubic t (minhap t) <= 0)%Q /\ (0 <= cubic t (maxhap t))%Q.
Proof. exact cubic_sign_change. Qed.
Print Assumptions C17_exact_cubic_sign_change.

(* the hypotheses are satisfiable: 2 samples 0|0 / 0|0, 1 sample 0|1 / 0|0 ... *)
Example C17_exact_example :
  let t := mkt 2 1 0 1 0 1 0 1 2 in
  (Qeq_bool (cubic t (minhap t)) 0 && Qeq_bool (exact_r2 (t_p t) (t_q t) (minhap t)) (hap_r2 t)
   && Qle_bool (exact_r2 (t_p t) (t_q t) (minhap t)) 1 && negb (Qeq_bool (hap_r2 t) 0)) = true.
Proof. vm_compute. reflexivity. Qed.
Print Assumptions C17_exact_example.

(* The model of clumpstr as a whole (tables, genotype lookup, Pearson r2 of the samples
   without missing calls, constant columns giving NaN) never runs out of the fuel it is
   given: one unit per variant of the two tables. *)
Theorem C17_clumpstr_terminates :
  forall win k, clumpstr pearson_oracle win k <> Err E_Timeout.
Proof. exact clumpstr_terminates. Qed.
Print Assumptions C17_clumpstr_terminates.

(* The boolean checker evaluated on the rows of the .clump file means the property, stated on rows
   of the loaded table (a printed variant names a row by ID, CHROM, POS; IDs may repeat): the
   checker accepts only if the printed rows are the printed form [sigs_of cl] of some [cl] that
   resolves every printed variant to a row such that (greedy_rows) each index is a not-yet-clumped
   row, satisfies [ei], has minimal p among those and is the first in file order among ties;
   its members (members_spec) are not-yet-clumped rows, none twice, every not-yet-clumped row in
   the window [wlo] is a member iff it passes the r2 test, every member is in [wlo] or [whi] and
   passes; the next clump is over the table without the rows of this one; the file ends only when
   nothing satisfies [es].
   holds_clump instantiates ei := p < p1, es := p < p1 and p < 1, wlo / whi := |dpos|/1000 < kb
   over Q with kb the smaller / larger of the decimal typed and the float64 it parses to. *)
Theorem C17_greedy_okb_sound :
  forall ei es wlo whi pb obs st,
  NoDup (map sv_key st) ->
  greedy_okb ei es wlo whi (fun iv c => Some (pb iv c)) st obs = true ->
  exists cl, sigs_of cl = obs /\ greedy_rows ei es wlo whi pb st cl.
Proof. exact greedy_okb_sound. Qed.
Print Assumptions C17_greedy_okb_sound.

(* with one window predicate the member clause is: the members are exactly the not-yet-clumped
   rows in the window that pass the r2 test, none twice *)
Theorem C17_members_spec_single :
  forall win pb iv st ms,
  members_spec win win pb iv st ms ->
  (forall c, In c ms <-> In c (members win pb iv st)) /\ NoDup (map sv_key ms).
Proof. exact members_spec_single. Qed.
Print Assumptions C17_members_spec_single.

(* ... and the model's output satisfies that same specification, whatever the IDs *)
Theorem C17_model_meets_checker_spec :
  forall p1 win pb fuel stats cl,
  NoDup (map sv_key stats) ->
  clump_loop_total fuel p1 win pb stats = Ok cl ->
  greedy_rows (eligible p1) (eligible p1) win win pb stats cl.
Proof. intros. apply greedy_to_rows; [assumption|]. eapply clump_loop_greedy. eassumption. Qed.
Print Assumptions C17_model_meets_checker_spec.

(* no row is in two clumps of anything the checker's specification admits *)
Theorem C17_greedy_rows_disjoint :
  forall ei es wlo whi pb st cl,
  greedy_rows ei es wlo whi pb st cl ->
  ForallOrdPairs (fun c1 c2 => forall x, In x (clump_keys c1) -> In x (clump_keys c2) -> False) cl.
Proof. exact greedy_rows_disjoint. Qed.
Print Assumptions C17_greedy_rows_disjoint.

(* What holds_clump = true establishes about an observed .clump file of a Pearson run on input
   inside the quantifier (both tables load, SNP genotypes complete and biallelic, every loaded
   variant has exactly one genotype record, kb finite), whatever the variant IDs: the file is the
   printed form of a greedy clumping of the loaded rows.  (holds_clump k is holds_core of the
   case's configuration, oracle - pearson_oracle in Pearson mode -, the exact value kq of the
   float64 kb, the decimal typed and the observed rows.) *)
Theorem C17_holds_clump_sound :
  forall c kq kbdec st gts obs,
  Bool.eqb (is_some (k_rows_snp c)) (is_some (k_snps c)) = true ->
  Bool.eqb (is_some (k_rows_str c)) (is_some (k_strs c)) = true ->
  is_some (k_snps c) || is_some (k_strs c) = true ->
  k_exact c = false ->
  match k_snps c with Some a => existsb snp_calls_bad (gs_vars a) | None => false end = false ->
  stats_of c = Some st -> merged_gts (k_snps c) (k_strs c) = Ok gts ->
  (forall v, In v st -> exists g, load_variant gts v = Ok g) ->
  holds_core c pearson_oracle kq kbdec (Ok obs) = true ->
  exists cl, sigs_of cl = map row_sigs obs /\
    greedy_rows (below_p1 (k_p1 c)) (eligible (k_p1 c))
                (win_q (Qmin_b kq kbdec)) (win_q (Qmax_b kq kbdec))
                (pearson_pb (k_r2 c) gts) st cl.
Proof. exact holds_core_sound. Qed.
Print Assumptions C17_holds_clump_sound.

(* The checker on duplicate IDs: the same ID "7" on two chromosomes, both rows eligible.  The greedy
   clumping has two clumps; a file that stops after the first (what removal by ID produces) is
   rejected, as is one that lists the second row as a member of the first clump. *)
Example C17_checker_duplicate_id_example :
  let st := [mksv 7 1 1000 (1#1000) 0 0; mksv 7 2 1000 (1#500) 0 1] in
  let chk := greedy_okb (eligible (1#100)) (eligible (1#100)) (win_q (1#1)) (win_q (1#1))
                        (fun _ _ => Some true) st in
  (chk [((7, 1, 1000), [(7, 1, 1000)]); ((7, 2, 1000), [(7, 2, 1000)])],
   chk [((7, 1, 1000), [(7, 1, 1000)])],
   chk [((7, 1, 1000), [(7, 1, 1000); (7, 2, 1000)])]) = (true, false, false).
Proof. vm_compute. reflexivity. Qed.
Print Assumptions C17_checker_duplicate_id_example.

(* Only variants not above the inclusion threshold are ever loaded ... *)
Theorem C17_load_not_above_p2 :
  forall ks kp kc kq p2 ty rows l,
  load_rows ks kp kc kq p2 ty rows = Ok l -> Forall (fun v => (sv_p v <= p2)%Q /\ sv_type v = ty) l.
Proof. exact load_rows_below_p2. Qed.
Print Assumptions C17_load_not_above_p2.

(* ... and the loaded table depends only on the cells under the four named columns,
   whatever their position (any column order, any further columns). *)
Theorem C17_load_column_order_irrelevant :
  forall ks kp kc kq ks' kp' kc' kq' p2 ty rows rows',
  Forall2 (fun r r' => (r = [] <-> r' = []) /\
                       nth_error r ks = nth_error r' ks' /\ nth_error r kp = nth_error r' kp' /\
                       nth_error r kc = nth_error r' kc' /\ nth_error r kq = nth_error r' kq') rows rows' ->
  load_rows ks kp kc kq p2 ty rows = load_rows ks' kp' kc' kq' p2 ty rows'.
Proof. exact load_rows_columns. Qed.
Print Assumptions C17_load_column_order_irrelevant.

(* GetOverlappingSamples pairs only indices that name the same sample in the two files *)
Theorem C17_overlapping_same_sample :
  forall snp_names str_names i j,
  In (i, j) (overlapping snp_names str_names) ->
  exists s, nthZ snp_names i = Some s /\ nthZ str_names j = Some s.
Proof. exact overlapping_same_sample. Qed.
Print Assumptions C17_overlapping_same_sample.

(* what the ComputeLD checker establishes about a returned r2: Pearson - within 1e-9 of the
   squared correlation of the dosages over the samples with no missing call at either variant
   (NaN iff NaN); Exact - in [0,1], and within 1e-6 of the haplotype-table r2 when no sample is
   doubly heterozygous *)
Theorem C17_holds_computeld_sound :
  forall d o,
  d_obs d = Ok o -> filter_gts (d_cand d) (d_idx d) <> [] -> holds_computeld d = true ->
  let l := filter_gts (d_cand d) (d_idx d) in
  if d_exact d then
    dosage012 l = true -> constantb fx l || constantb fy l = false ->
    exists v, o = Some v /\ (0 <= v <= 1)%Q /\
              (Qeq_bool (n11 (table_of l)) 0 = true ->
               (v - hap_r2 (table_of l) <= tol_exact /\ hap_r2 (table_of l) - v <= tol_exact)%Q)
  else match pearson_r2 l, o with
       | None, None => True
       | Some v, Some w => (w - v <= tol_pearson /\ v - w <= tol_pearson)%Q
       | _, _ => False end.
Proof. exact holds_computeld_sound. Qed.
Print Assumptions C17_holds_computeld_sound.

(* ComputeLD's Pearson r2 is NaN exactly when a sample is left after the missing-call filter
   and one of the two dosage vectors is constant over those samples ... *)
Theorem C17_pearson_nan_iff_constant :
  forall cand idx,
  pearson_ld cand idx = None <->
  filter_gts cand idx <> [] /\
  (constant_on fx (filter_gts cand idx) \/ constant_on fy (filter_gts cand idx)).
Proof. exact pearson_ld_nan_iff. Qed.
Print Assumptions C17_pearson_nan_iff_constant.

(* ... and the r2 of a variant with itself is 1, or NaN if its genotypes are constant: this is the
   case in which the index variant is not a member of its own clump, and the loop still ends. *)
Theorem C17_pearson_self :
  forall l : list smp, (forall p, In p l -> fst p = snd p) ->
  pearson_r2 l = None \/ exists r, pearson_r2 l = Some r /\ (r == 1)%Q.
Proof. exact pearson_self. Qed.
Print Assumptions C17_pearson_self.

(* ... and it finds every sample the two files share (sample names are distinct within a file) *)
Theorem C17_overlapping_complete :
  forall snp_names str_names i j s,
  NoDup snp_names -> NoDup str_names ->
  nthZ snp_names i = Some s -> nthZ str_names j = Some s ->
  In (i, j) (overlapping snp_names str_names).
Proof. exact overlapping_complete. Qed.
Print Assumptions C17_overlapping_complete.

(* the hypotheses of C17_exact_r2_range are satisfiable with a doubly heterozygous sample
   (the admissible interval is not a point) *)
Example C17_exact_range_example :
  let t := mkt 2 1 0 1 2 1 0 1 2 in
  tab_nonneg t /\ (0 < t_n t)%Q /\ (0 < t_p t * (1 - t_p t) * t_q t * (1 - t_q t))%Q
  /\ (minhap t < maxhap t)%Q.
Proof.
  cbv zeta. unfold tab_nonneg. cbn [n00 n01 n02 n10 n11 n12 n20 n21 n22].
  repeat split; vm_compute; congruence.
Qed.
Print Assumptions C17_exact_range_example.

(* Two rows with the same ID are two variants: removing the clump of the first leaves the second,
   which becomes an index of its own (removal by load key, as the code's identity comparison). *)
Example C17_duplicate_id_example :
  let st := [mksv 7 1 1000 (1#1000) 0 0; mksv 7 1 9000 (1#500) 0 1] in
  option_map (map (fun c : clump => (sv_key (fst c), map sv_key (snd c))))
    (match clump_loop_total (length st) (1#100) (win_q (1#1)) (fun _ _ => true) st
     with Ok cl => Some cl | Err _ => None end)
  = Some [(0, [0]); (1, [1])].
Proof. vm_compute. reflexivity. Qed.
Print Assumptions C17_duplicate_id_example.
