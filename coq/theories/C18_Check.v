(* C18 - boolean checkers evaluated by the correspondence run on what
   haptools.karyogram returned.  Floats are PrimFloat (bit-exact binary64), the
   token codecs float()/int() are tables recorded from Python per case.
   [agree] compares with the model of C18_Model; [holds] is the property text as a
   finite check that does not use the model's state machine: the sample's two
   sections are cut out of the file declaratively (lines between the header
   "<name>_1"/"<name>_2" and the next one-token line). *)
From Coq Require Import PrimFloat Uint63 FloatOps SpecFloat.
From HV Require Import Prelude BpText C18_Model.

Definition feqb (a b : float) : bool := PrimFloat.eqb a b || (PrimFloat.is_nan a && PrimFloat.is_nan b).
Definition fleb (a b : float) : bool := PrimFloat.leb a b.

Definition f_finite (x : float) : bool := negb (PrimFloat.is_nan x) && negb (PrimFloat.is_infinity x).

Definition f_eps : float := 0x1.a36e2eb1c432dp-14%float.      (* 0.0001 *)
Definition f_padding : float := 0x1.999999999999ap-2%float.   (* PADDING = 0.4 *)
Definition f_tol : float := 0x1.0624dd2f1a9fcp-10%float.      (* 0.001 *)
Definition fofZ (z : Z) : float := PrimFloat.of_uint63 (Uint63.of_Z z).
Definition f_plus_eps (x : float) : float := PrimFloat.add x f_eps.
Definition f_ylo (ci hap : Z) : float := PrimFloat.sub (fofZ ci) (PrimFloat.mul (fofZ hap) f_padding).
Definition f_yhi (ci hap : Z) : float := PrimFloat.add (fofZ ci) (PrimFloat.mul (fofZ (1 - hap)) f_padding).

Definition hb : Type := hblock float.

(* token -> (float(token), int(token)) as recorded from Python *)
Definition ftab : Type := list (str * (res float * res Z)).
Definition tab_flt (t : ftab) (s : str) : res float :=
  match assoc str_eqb s t with Some (a, _) => a | None => Err E_Unobserved end.
Definition tab_int (t : ftab) (s : str) : res Z :=
  match assoc str_eqb s t with Some (_, b) => b | None => Err E_Unobserved end.

Definition hb_eqb (a b : hb) : bool :=
  str_eqb (h_pop a) (h_pop b) && (h_chrom a =? h_chrom b)
  && feqb (h_start a) (h_start b) && feqb (h_end a) (h_end b).
Definition sb_eqb : list (list hb) -> list (list hb) -> bool := list_eqb (list_eqb hb_eqb).

Definition m_get_blocks (t : ftab) :=
  get_blocks float (tab_flt t) (tab_int t) f_eps f_plus_eps.
Definition m_get_blocks_legacy (t : ftab) :=
  get_blocks_legacy float (tab_flt t) (tab_int t) f_eps f_plus_eps.
Definition m_plot (t : ftab) :=
  plot float (tab_flt t) (tab_int t) f_eps f_plus_eps f_ylo f_yhi 0%float.

(* ---- the declarative reading of a well-formed file ------------------------- *)

Definition is_header (l : list str) : bool := match l with [_] => true | _ => false end.

Fixpoint take_section (lines : list (list str)) : list (list str) :=
  match lines with
  | [] => []
  | l :: r => if is_header l then [] else l :: take_section r
  end.

Fixpoint section_of (hdr : str) (lines : list (list str)) : option (list (list str)) :=
  match lines with
  | [] => None
  | l :: r =>
      match l with
      | [h] => if str_eqb h hdr then Some (take_section r) else section_of hdr r
      | _ => section_of hdr r
      end
  end.

(* headers come in pairs of one sample, n_1 then n_2 or n_2 then n_1; returns the sample
   names in file order *)
Definition pair_ok (a b : str) : bool :=
  ((ends_with sfx_1 a && ends_with sfx_2 b) || (ends_with sfx_2 a && ends_with sfx_1 b))
  && str_eqb (drop_last 2 a) (drop_last 2 b).

Fixpoint names_of (hs : list str) : option (list str) :=
  match hs with
  | [] => Some []
  | a :: r1 =>
      match r1 with
      | b :: r => if pair_ok a b then option_map (cons (drop_last 2 a)) (names_of r) else None
      | [] => None
      end
  end.

(* which of the two headers h1, h2 comes first in the file (true: h1) *)
Fixpoint first_hdr (h1 h2 : str) (lines : list (list str)) : option bool :=
  match lines with
  | [] => None
  | l :: r =>
      match l with
      | [h] => if str_eqb h h1 then Some true else if str_eqb h h2 then Some false else first_hdr h1 h2 r
      | _ => first_hdr h1 h2 r
      end
  end.

Fixpoint nodup_str (l : list str) : bool :=
  match l with
  | [] => true
  | x :: r => negb (existsb (str_eqb x) r) && nodup_str r
  end.

(* a block line as the file states it: label, chromosome, (finite) cM end *)
Definition entry (t : ftab) (l : list str) : option (str * Z * float) :=
  match l with
  | t0 :: t1 :: _ =>
      match get_chrom (tab_int t) t1, last_opt l with
      | Ok c, Some tl => match tab_flt t tl with
                         | Ok e => if f_finite e then Some (t0, c, e) else None
                         | Err _ => None
                         end
      | _, _ => None
      end
  | _ => None
  end.

Definition headers (lines : list (list str)) : list str :=
  flat_map (fun l => match l with [h] => [h] | _ => [] end) lines.

Definition wf_file (t : ftab) (lines : list (list str)) : option (list str) :=
  match lines with
  | l0 :: _ =>
      if is_header l0
         && forallb (fun l => is_header l || match entry t l with Some _ => true | None => false end) lines
      then match names_of (headers lines) with
           | Some ns => if nodup_str ns then Some ns else None
           | None => None
           end
      else None
  | [] => None
  end.

Fixpoint entries (t : ftab) (ls : list (list str)) : list (str * Z * float) :=
  match ls with
  | [] => []
  | l :: r => match entry t l with Some e => e :: entries t r | None => entries t r end
  end.

(* the listed end of every chromosome: the last line naming it wins *)
Fixpoint cen_table (t : ftab) (cl : list (list str)) (d : list (Z * float)) : option (list (Z * float)) :=
  match cl with
  | [] => Some d
  | l :: r =>
      match l, last_opt l with
      | t0 :: _, Some tl =>
          match get_chrom (tab_int t) t0, tab_flt t tl with
          | Ok c, Ok e => cen_table t r (dict_set Z.eqb c e d)
          | _, _ => None
          end
      | _, _ => None
      end
  end.

Definition ent : Type := (str * Z * float)%type.

Definition e_chrom (x : ent) : Z := snd (fst x).

(* the next entry is on another chromosome (or there is none): last block of a run *)
Definition last_of_run (c : Z) (er : list ent) : bool :=
  match er with [] => true | x :: _ => negb (e_chrom x =? c) end.

(* the chromosome comes back later in the strand (a shape outside the property's quantifier) *)
Definition recurs (c : Z) (er : list ent) : bool := existsb (fun x => e_chrom x =? c) er.

(* the lower bound of a block's start: the previous file end on the same run, else 0 *)
Definition start_lo (prev : option (Z * float)) (c : Z) : float :=
  match prev with
  | Some (pc, pe) => if pc =? c then pe else 0%float
  | None => 0%float
  end.

(* the end demanded of a block: its recorded end, except for the last block of its
   chromosome when a table of chromosome ends is given: the listed end.  A run end whose
   chromosome recurs later may carry either. *)
Definition end_ok (ends : option (list (Z * float))) (c : Z) (e : float) (er : list ent) (x : float) : bool :=
  match ends with
  | Some tb => if last_of_run c er
               then match assoc Z.eqb c tb with
                    | Some y => feqb x y || (recurs c er && feqb x e)
                    | None => true
                    end
               else feqb x e
  | None => feqb x e
  end.

(* one strand: labels, chromosomes, number and order as in the file; every block ends as
   [end_ok] says; a chromosome starts at (about) 0 and each further block where the
   previous one ended in the file (tolerance 0.001 cM; the code adds 0.0001) *)
Fixpoint strand_ok (chk_chrom : bool) (ends : option (list (Z * float))) (prev : option (Z * float))
    (exp : list ent) (obs : list hb) : bool :=
  match exp, obs with
  | [], [] => true
  | (p, c, e) :: er, b :: br =>
      let lo := start_lo prev c in
      str_eqb p (h_pop b)
      && (negb chk_chrom || (c =? h_chrom b))
      && fleb lo (h_start b) && fleb (h_start b) (PrimFloat.add lo f_tol)
      && end_ok ends c e er (h_end b)
      && strand_ok chk_chrom ends (Some (c, e)) er br
  | _, _ => false
  end.

(* ---- non-overlapping ---------------------------------------------------------------
   precondition on the file (and the table): within a run of one chromosome the recorded
   ends increase by at least 0.0001 (x < x + 0.0001 <= next end; first end >= 0.0001), and a
   listed end is not below the recorded end of the block it replaces *)
Fixpoint inc_pre (ends : option (list (Z * float))) (prev : option (Z * float)) (exp : list ent) : bool :=
  match exp with
  | [] => true
  | (p, c, e) :: er =>
      (match prev with
       | Some (pc, pe) => if pc =? c then PrimFloat.ltb pe (f_plus_eps pe) && fleb (f_plus_eps pe) e
                          else fleb f_eps e
       | None => fleb f_eps e
       end)
      && (match ends with
          | Some tb => if last_of_run c er
                       then match assoc Z.eqb c tb with Some y => fleb e y | None => false end
                       else true
          | None => true
          end)
      && inc_pre ends (Some (c, e)) er
  end.

(* every later block of the same run (chromosomes read from the file's entries) starts at
   or after x *)
Fixpoint later_ok (c : Z) (x : float) (er : list ent) (br : list hb) : bool :=
  match er, br with
  | y :: er', b :: br' => if e_chrom y =? c then fleb x (h_start b) && later_ok c x er' br' else true
  | _, _ => true
  end.

(* the observed blocks of every run are ordered (start <= end) and pairwise disjoint
   (a block ends where or before every later block of its run starts) *)
Fixpoint nonoverlap_ok (exp : list ent) (obs : list hb) : bool :=
  match exp, obs with
  | x :: er, b :: br =>
      fleb (h_start b) (h_end b) && later_ok (e_chrom x) (h_end b) er br && nonoverlap_ok er br
  | _, _ => true
  end.

Definition strand_holds (chk_chrom : bool) (ends : option (list (Z * float))) (exp : list ent) (obs : list hb) : bool :=
  strand_ok chk_chrom ends None exp obs
  && (negb (inc_pre ends None exp) || nonoverlap_ok exp obs).

Definition listed (tb : list (Z * float)) (exp : list (str * Z * float)) : bool :=
  forallb (fun x : str * Z * float => match assoc Z.eqb (snd (fst x)) tb with Some _ => true | None => false end) exp.

(* what the property fixes about the answer for (file, name, ends file):
   None: nothing is demanded (file or ends file outside the quantifier's domain);
   Some None: the sample is absent; Some (Some (s1, s2, tb)): its two strands *)
Definition expectation (t : ftab) (name : str) (lines : list (list str)) (cen : option (list (list str)))
  : option (option (list (str * Z * float) * list (str * Z * float) * option (list (Z * float)))) :=
  match wf_file t lines with
  | None => None
  | Some ns =>
      let tbo := match cen with
                 | None => Some None
                 | Some cl => option_map Some (cen_table t cl [])
                 end in
      match tbo with
      | None => None
      | Some tb =>
        if existsb (str_eqb name) ns then
          match section_of (name ++ sfx_1) lines, section_of (name ++ sfx_2) lines with
          | Some l1, Some l2 =>
              (* strand 0 is the section whose header comes first in the file *)
              let swap := match first_hdr (name ++ sfx_1) (name ++ sfx_2) lines with
                          | Some false => true | _ => false end in
              let e1 := entries t (if swap then l2 else l1) in
              let e2 := entries t (if swap then l1 else l2) in
              match tb with
              | Some tbl =>
                  if listed tbl e1 && listed tbl e2
                     && negb (match e1 with [] => true | _ => false end)
                     && negb (match e2 with [] => true | _ => false end)
                  then Some (Some (e1, e2, tb)) else None
              | None => Some (Some (e1, e2, tb))
              end
          | _, _ => None
          end
        else Some None
      end
  end.

(* -------- relation blocks: GetHaplotypeBlocks -------------------------------- *)

Record bcase := mkb {
  b_name : str; b_lines : list (list str); b_cen : option (list (list str)); b_tab : ftab;
  b_obs : res (list (list hb))
}.

Definition holds_blocks (k : bcase) : bool :=
  match expectation (b_tab k) (b_name k) (b_lines k) (b_cen k) with
  | None => true
  | Some None => match b_obs k with Ok [] => true | _ => false end
  | Some (Some (e1, e2, tb)) =>
      match b_obs k with
      | Ok [o1; o2] => strand_holds true tb e1 o1 && strand_holds true tb e2 o2
      | _ => false
      end
  end.

Definition model_blocks (k : bcase) := m_get_blocks (b_tab k) (b_name k) (b_lines k) (b_cen k).

Definition check_blocks (k : bcase) : bool * bool :=
  (res_eqb sb_eqb (model_blocks k) (b_obs k), holds_blocks k).

(* -------- relation plot: the collections PlotKaryogram adds to the axes ------- *)

Definition rect : Type := (str * list (float * float))%type.   (* label of the face colour, vertices *)

Record pcase := mkp {
  p_name : str; p_lines : list (list str); p_cen : option (list (list str)); p_tab : ftab;
  p_obs : res (list rect)
}.

Definition ff_eqb : float * float -> float * float -> bool := pair_eqb feqb feqb.
Definition rect_eqb : rect -> rect -> bool := pair_eqb str_eqb (list_eqb ff_eqb).

(* the horizontal extent of a drawn rectangle as a block (chromosome not read back) *)
Definition rect_block (r : rect) : option hb :=
  match snd r with
  | [(x0, _); (x1, _); (x2, _); (x3, _); _] =>
      if feqb x0 x1 && feqb x2 x3 then Some (mkhb (fst r) 0 x0 x2) else None
  | _ => None
  end.

Fixpoint all_some {A} (l : list (option A)) : option (list A) :=
  match l with
  | [] => Some []
  | Some a :: r => option_map (cons a) (all_some r)
  | None :: _ => None
  end.

Definition holds_plot (k : pcase) : bool :=
  match expectation (p_tab k) (p_name k) (p_lines k) (p_cen k) with
  | None => true
  | Some None => match p_obs k with Err _ => true | Ok _ => false end
  | Some (Some ([], [], _)) => true    (* nothing to draw: the axis range is undefined *)
  | Some (Some (e1, e2, tb)) =>
      match p_obs k with
      | Ok rs =>
          match all_some (map rect_block rs) with
          | Some bs =>
              strand_holds false tb e1 (firstn (length e1) bs)
              && strand_holds false tb e2 (skipn (length e1) bs)
          | None => false
          end
      | Err _ => false
      end
  end.

Definition model_plot (k : pcase) := m_plot (p_tab k) (p_name k) (p_lines k) (p_cen k).

Definition check_plot (k : pcase) : bool * bool :=
  (res_eqb (list_eqb rect_eqb) (model_plot k) (p_obs k), holds_plot k).
