(* C18 - executable model of haptools/karyogram.py: GetChrom, GetHaplotypeBlocks
   (sample framing state machine over whitespace-split token lines, block start
   rule, chromosome-end extension pass), PlotHaplotypeBlock's rectangle and the
   part of PlotKaryogram that decides what is drawn.  No proofs here.

   Floats are an abstract type F: the code only parses them, adds 0.0001 and
   copies them.  Python's float()/int() are Section variables (C18_Check
   instantiates F with PrimFloat and the token codecs with recorded tables). *)
From HV Require Import Prelude BpText.

Definition E_Value : Z := 1.
Definition E_Index : Z := 2.
Definition E_Key : Z := 3.
Definition E_Assert : Z := 8.
Definition E_Exit : Z := 10.

Fixpoint update_nth {A} (n : nat) (f : A -> A) (l : list A) : list A :=
  match l, n with
  | [], _ => []
  | x :: r, O => f x :: r
  | x :: r, S n' => x :: update_nth n' f r
  end.

Fixpoint mapM {A B} (f : A -> res B) (l : list A) : res (list B) :=
  match l with
  | [] => Ok []
  | a :: r => bind (f a) (fun b => bind (mapM f r) (fun bs => Ok (b :: bs)))
  end.

Fixpoint insert_sorted (x : Z) (l : list Z) : list Z :=
  match l with
  | [] => [x]
  | y :: r => if x <? y then x :: l else if x =? y then l else y :: insert_sorted x r
  end.

(* sorted(set(l)) *)
Definition sort_set (l : list Z) : list Z := fold_right insert_sorted [] l.

Fixpoint index_of (x : Z) (l : list Z) : Z :=
  match l with
  | [] => 0
  | y :: r => if x =? y then 0 else 1 + index_of x r
  end.

Section Karyogram.
Variable F : Type.
Variable parse_flt : str -> res F.   (* Python float(token): ValueError *)
Variable parse_int : str -> res Z.   (* Python int(token): ValueError *)
Variable eps0 : F.                   (* the literal 0.0001 *)
Variable plus_eps : F -> F.          (* x + 0.0001 *)

Record hblock := mkhb { h_pop : str; h_chrom : Z; h_start : F; h_end : F }.

Definition get_chrom (t : str) : res Z :=
  if mem_char c_X t then Ok 23
  else if mem_char c_Y t then Ok 24
  else if starts_with s_chr t then parse_int (skipn 3 t)
  else parse_int t.

(* ---- the loop over the lines of the .bp file ------------------------------ *)

Record gst := mkg {
  g_sb : list (list hblock);    (* sample_blocks *)
  g_parsing : bool;             (* parsing_sample *)
  g_blocks : list hblock        (* blocks *)
}.

(* a line that is not a one-token line, read while parsing_sample *)
Definition add_block (line : list str) (blocks : list hblock) : res (list hblock) :=
  match line with
  | t0 :: t1 :: _ =>
      bind (get_chrom t1) (fun c =>
        let start := match last_opt blocks with
                     | None => eps0
                     | Some b => if h_chrom b =? c then plus_eps (h_end b) else eps0
                     end in
        match last_opt line with
        | Some tl => bind (parse_flt tl) (fun e => Ok (blocks ++ [mkhb t0 c start e]))
        | None => Err E_Index
        end)
  | _ => Err E_Index            (* line[1] on a blank line *)
  end.

(* result: new state and whether the loop was left by [break] *)
Definition step (name : str) (st : gst) (line : list str) : res (gst * bool) :=
  match line with
  | [h] =>
      if negb (ends_with sfx_1 h || ends_with sfx_2 h) then Err E_Assert else
      let sb := if g_parsing st then g_sb st ++ [g_blocks st] else g_sb st in
      if Nat.eqb (length sb) 2 then Ok (mkg sb false (g_blocks st), true)
      else if str_eqb name (before_last c_us h) then Ok (mkg sb true [], false)
      else Ok (mkg sb false (g_blocks st), false)
  | _ =>
      if g_parsing st
      then bind (add_block line (g_blocks st)) (fun b => Ok (mkg (g_sb st) true b, false))
      else Ok (st, false)
  end.

Fixpoint run (name : str) (lines : list (list str)) (st : gst) : res gst :=
  match lines with
  | [] => Ok st
  | l :: r =>
      bind (step name st l) (fun x => if snd x then Ok (fst x) else run name r (fst x))
  end.

Definition finish (st : gst) : list (list hblock) :=
  if g_parsing st then g_sb st ++ [g_blocks st] else g_sb st.

Definition parse_blocks (name : str) (lines : list (list str)) : res (list (list hblock)) :=
  bind (run name lines (mkg [] false [])) (fun st => Ok (finish st)).

(* ---- the chromosome-ends file and the extension pass ----------------------- *)

Fixpoint chrom_ends (lines : list (list str)) (d : list (Z * F)) : res (list (Z * F)) :=
  match lines with
  | [] => Ok d
  | l :: r =>
      match l, last_opt l with
      | t0 :: _, Some tl =>
          bind (parse_flt tl) (fun e => bind (get_chrom t0) (fun c =>
            chrom_ends r (dict_set Z.eqb c e d)))
      | _, _ => Err E_Index     (* blank line *)
      end
  end.

Definition end_of (ends : list (Z * F)) (c : Z) : res F :=
  match assoc Z.eqb c ends with Some e => Ok e | None => Err E_Key end.

Definition set_end (b : hblock) (e : F) : hblock := mkhb (h_pop b) (h_chrom b) (h_start b) e.

(* the updates made inside the loop: at every change of chromosome the block before
   the change gets the listed end of its chromosome *)
Fixpoint ext_loop (ends : list (Z * F)) (l : list hblock) : res (list hblock) :=
  match l with
  | [] => Ok []
  | b :: r =>
      match r with
      | [] => Ok [b]
      | b' :: _ =>
          bind (if h_chrom b' =? h_chrom b then Ok b
                else bind (end_of ends (h_chrom b)) (fun e => Ok (set_end b e))) (fun b1 =>
          bind (ext_loop ends r) (fun r' => Ok (b1 :: r')))
      end
  end.

(* [legacy = true]: the pinned tree, where the statement after the loop writes to
   index tind - 1 (Python's -1 = last element when the strand has one block);
   [legacy = false]: index tind, the last block. *)
Definition ext_strand (legacy : bool) (ends : list (Z * F)) (l : list hblock) : res (list hblock) :=
  match last_opt l with
  | None => Err E_Index         (* block[0] on a strand without blocks *)
  | Some lb =>
      bind (ext_loop ends l) (fun l1 =>
      bind (end_of ends (h_chrom lb)) (fun e =>
        let n := length l in
        let i := if legacy then (if Nat.eqb n 1 then O else (n - 2)%nat) else (n - 1)%nat in
        Ok (update_nth i (fun b => set_end b e) l1)))
  end.

Definition get_blocks_with (legacy : bool) (name : str) (lines : list (list str))
    (cen : option (list (list str))) : res (list (list hblock)) :=
  bind (parse_blocks name lines) (fun sb =>
    match cen with
    | None => Ok sb
    | Some cl => bind (chrom_ends cl []) (fun ends => mapM (ext_strand legacy ends) sb)
    end).

Definition get_blocks := get_blocks_with false.
Definition get_blocks_legacy := get_blocks_with true.

(* ---- what PlotKaryogram draws ---------------------------------------------- *)

Variable ylo yhi : Z -> Z -> F.  (* chrom_coord - hapnum*PADDING, chrom_coord + (1-hapnum)*PADDING *)
Variable fzero : F.

Definition chrom_order (sb : list (list hblock)) : list Z :=
  sort_set (map h_chrom (concat sb)).

(* the five vertices PlotHaplotypeBlock hands to matplotlib *)
Definition block_rectangle (order : list Z) (hap : Z) (b : hblock) : list (F * F) :=
  let ci := index_of (h_chrom b) order in
  [(h_start b, ylo ci hap); (h_start b, yhi ci hap);
   (h_end b, yhi ci hap); (h_end b, ylo ci hap); (fzero, fzero)].

(* the collections added to the axes, in order, each with the label whose colour it
   gets; an absent sample is sys.exit(1); a sample with one strand only runs into
   sample_blocks[1] *)
Definition plot (name : str) (lines : list (list str)) (cen : option (list (list str)))
  : res (list (str * list (F * F))) :=
  bind (get_blocks name lines cen) (fun sb =>
    match sb with
    | [] => Err E_Exit
    | [_] => Err E_Index
    | s0 :: s1 :: _ =>
        let order := chrom_order sb in
        Ok (map (fun b => (h_pop b, block_rectangle order 0 b)) s0
            ++ map (fun b => (h_pop b, block_rectangle order 1 b)) s1)
    end).
End Karyogram.

Arguments mkhb {F}.
Arguments h_pop {F}.
Arguments h_chrom {F}.
Arguments h_start {F}.
Arguments h_end {F}.
