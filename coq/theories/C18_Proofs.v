(* C18 - proofs about the model of GetHaplotypeBlocks / PlotKaryogram. *)
From HV Require Import Prelude BpText C18_Model.

Section Proofs.
Variable F : Type.
Variable parse_flt : str -> res F.
Variable parse_int : str -> res Z.
Variable eps0 : F.
Variable plus_eps : F -> F.
Variable ylo yhi : Z -> Z -> F.
Variable fzero : F.

Notation hblock := (hblock F).
Notation get_chrom := (get_chrom parse_int).
Notation add_block := (add_block F parse_flt parse_int eps0 plus_eps).
Notation step := (step F parse_flt parse_int eps0 plus_eps).
Notation run := (run F parse_flt parse_int eps0 plus_eps).
Notation parse_blocks := (parse_blocks F parse_flt parse_int eps0 plus_eps).
Notation get_blocks := (get_blocks F parse_flt parse_int eps0 plus_eps).
Notation get_blocks_with := (get_blocks_with F parse_flt parse_int eps0 plus_eps).
Notation plot := (plot F parse_flt parse_int eps0 plus_eps ylo yhi fzero).
Notation ext_loop := (ext_loop F).
Notation ext_strand := (ext_strand F).
Notation end_of := (end_of F).
Notation set_end := (set_end F).
Notation mkg := (mkg F).
Notation finish := (finish F).

(* ---- the blocks of a run of non-header lines -------------------------------- *)

(* the direct reading of a strand's lines: one block per line, in order *)
Fixpoint blocks_from (ls : list (list str)) (B : list hblock) : res (list hblock) :=
  match ls with
  | [] => Ok B
  | l :: r => bind (add_block l B) (blocks_from r)
  end.

Definition blocks_of (ls : list (list str)) : res (list hblock) := blocks_from ls [].

Definition not_header (l : list str) : Prop := forall h, l <> [h].

(* a one-token line of another sample: passes the assertion and does not name [name] *)
Definition foreign_header (name : str) (l : list str) : Prop :=
  forall h, l = [h] -> (ends_with sfx_1 h || ends_with sfx_2 h) = true /\ before_last c_us h <> name.

Definition good_header (h : str) : Prop := (ends_with sfx_1 h || ends_with sfx_2 h) = true.

Lemma step_not_parsing_foreign name sb B l :
  foreign_header name l -> (length sb <> 2)%nat ->
  exists B', step name (mkg sb false B) l = Ok (mkg sb false B', false).
Proof.
  intros Hf Hl. unfold C18_Model.step. cbn [g_parsing g_sb g_blocks].
  destruct l as [|h [|t r]]; try (exists B; reflexivity).
  destruct (Hf h eq_refl) as [Hg Hn]. rewrite Hg. cbn [negb].
  destruct (Nat.eqb (length sb) 2) eqn:E; [apply Nat.eqb_eq in E; contradiction|].
  destruct (str_eqb name (before_last c_us h)) eqn:En; [apply str_eqb_spec in En; congruence|].
  exists B. reflexivity.
Qed.

Lemma run_foreign name pre : forall B rest,
  Forall (foreign_header name) pre ->
  exists B', run name (pre ++ rest) (mkg [] false B) = run name rest (mkg [] false B').
Proof.
  induction pre as [|l pre IH]; intros B rest Hf; [exists B; reflexivity|].
  inversion Hf as [|? ? Hl Hpre]; subst.
  destruct (step_not_parsing_foreign name [] B l Hl) as [B1 E]; [cbn; lia|].
  cbn [app C18_Model.run]. rewrite E. cbn [bind snd fst].
  apply IH. exact Hpre.
Qed.

Lemma run_lines name ls : forall sb B rest,
  Forall not_header ls ->
  run name (ls ++ rest) (mkg sb true B) =
  bind (blocks_from ls B) (fun B' => run name rest (mkg sb true B')).
Proof.
  induction ls as [|l ls IH]; intros sb B rest Hn; [reflexivity|].
  inversion Hn as [|? ? Hl Hls]; subst.
  cbn [app C18_Model.run blocks_from].
  assert (Es : step name (mkg sb true B) l = bind (add_block l B) (fun b => Ok (mkg sb true b, false))).
  { unfold C18_Model.step. destruct l as [|h [|t r]]; try reflexivity. exfalso. apply (Hl h). reflexivity. }
  rewrite Es. destruct (add_block l B) as [B1|k]; cbn [bind snd fst]; [|reflexivity].
  apply IH. exact Hls.
Qed.

Lemma good_sfx1 name : (ends_with sfx_1 (name ++ sfx_1) || ends_with sfx_2 (name ++ sfx_1)) = true.
Proof. rewrite ends_with_sfx. reflexivity. Qed.

Lemma good_sfx2 name : (ends_with sfx_1 (name ++ sfx_2) || ends_with sfx_2 (name ++ sfx_2)) = true.
Proof. rewrite (ends_with_sfx name sfx_2). apply orb_true_r. Qed.

Lemma name_sfx1 name : before_last c_us (name ++ sfx_1) = name.
Proof. apply before_last_sfx. unfold c_1, c_us. lia. Qed.

Lemma name_sfx2 name : before_last c_us (name ++ sfx_2) = name.
Proof. apply before_last_sfx. unfold c_2, c_us. lia. Qed.

(* The result is the two strands of the named sample - wherever its two sections sit in
   the file, whatever the name (underscores included) - one block per line of the section,
   in file order; lines of other samples (pre, post) never contribute. *)
Theorem blocks_are_samples_lines name pre l1 l2 post :
  Forall (foreign_header name) pre ->
  Forall not_header l1 -> Forall not_header l2 ->
  (post = [] \/ exists h r, post = [h] :: r /\ good_header h) ->
  parse_blocks name (pre ++ [name ++ sfx_1] :: l1 ++ [name ++ sfx_2] :: l2 ++ post) =
  bind (blocks_of l1) (fun b1 => bind (blocks_of l2) (fun b2 => Ok [b1; b2])).
Proof.
  intros Hpre H1 H2 Hpost. unfold C18_Model.parse_blocks.
  destruct (run_foreign name pre [] ([name ++ sfx_1] :: l1 ++ [name ++ sfx_2] :: l2 ++ post) Hpre) as [B0 E0].
  rewrite E0. clear E0.
  cbn [C18_Model.run]. unfold C18_Model.step at 1. rewrite good_sfx1. cbn [negb g_parsing g_sb g_blocks length Nat.eqb].
  rewrite name_sfx1, str_eqb_refl. cbn [bind snd fst].
  rewrite (run_lines name l1 [] [] _ H1). unfold blocks_of.
  destruct (blocks_from l1 []) as [b1|k]; cbn [bind]; [|reflexivity].
  cbn [C18_Model.run]. unfold C18_Model.step at 1. rewrite good_sfx2.
  cbn [negb g_parsing g_sb g_blocks app length Nat.eqb].
  rewrite name_sfx2, str_eqb_refl. cbn [bind snd fst].
  rewrite (run_lines name l2 [b1] [] _ H2).
  destruct (blocks_from l2 []) as [b2|k]; cbn [bind]; [|reflexivity].
  destruct Hpost as [->|[h [r [-> Hg]]]].
  - reflexivity.
  - cbn [C18_Model.run]. unfold C18_Model.step. unfold good_header in Hg. rewrite Hg.
    cbn [negb g_parsing g_sb g_blocks app length Nat.eqb bind snd fst]. reflexivity.
Qed.

(* the same for either order of the two headers (and whatever the two suffixes are, as long
   as each is _1 or _2): strand 0 is the section whose header comes first in the file *)
Definition strand_sfx (s : str) : Prop := s = sfx_1 \/ s = sfx_2.

Lemma good_sfx_any name s : strand_sfx s ->
  (ends_with sfx_1 (name ++ s) || ends_with sfx_2 (name ++ s)) = true /\ before_last c_us (name ++ s) = name.
Proof.
  intros [->| ->]; split; [apply good_sfx1|apply name_sfx1|apply good_sfx2|apply name_sfx2].
Qed.

Theorem blocks_are_samples_lines_any name sa sb pre l1 l2 post :
  strand_sfx sa -> strand_sfx sb ->
  Forall (foreign_header name) pre ->
  Forall not_header l1 -> Forall not_header l2 ->
  (post = [] \/ exists h r, post = [h] :: r /\ good_header h) ->
  parse_blocks name (pre ++ [name ++ sa] :: l1 ++ [name ++ sb] :: l2 ++ post) =
  bind (blocks_of l1) (fun b1 => bind (blocks_of l2) (fun b2 => Ok [b1; b2])).
Proof.
  intros Ha Hb Hpre H1 H2 Hpost. unfold C18_Model.parse_blocks.
  destruct (good_sfx_any name sa Ha) as [Ga Na]. destruct (good_sfx_any name sb Hb) as [Gb Nb].
  destruct (run_foreign name pre [] ([name ++ sa] :: l1 ++ [name ++ sb] :: l2 ++ post) Hpre) as [B0 E0].
  rewrite E0. clear E0.
  cbn [C18_Model.run]. unfold C18_Model.step at 1. rewrite Ga. cbn [negb g_parsing g_sb g_blocks length Nat.eqb].
  rewrite Na, str_eqb_refl. cbn [bind snd fst].
  rewrite (run_lines name l1 [] [] _ H1). unfold blocks_of.
  destruct (blocks_from l1 []) as [b1|k]; cbn [bind]; [|reflexivity].
  cbn [C18_Model.run]. unfold C18_Model.step at 1. rewrite Gb.
  cbn [negb g_parsing g_sb g_blocks app length Nat.eqb].
  rewrite Nb, str_eqb_refl. cbn [bind snd fst].
  rewrite (run_lines name l2 [b1] [] _ H2).
  destruct (blocks_from l2 []) as [b2|k]; cbn [bind]; [|reflexivity].
  destruct Hpost as [->|[h [r [-> Hg]]]].
  - reflexivity.
  - cbn [C18_Model.run]. unfold C18_Model.step. unfold good_header in Hg. rewrite Hg.
    cbn [negb g_parsing g_sb g_blocks app length Nat.eqb bind snd fst]. reflexivity.
Qed.

(* what one block per line means: label, chromosome and cM end of the line; start rule *)
Definition line_block (l : list str) (b : hblock) : Prop :=
  exists t0 t1 rest tl, l = t0 :: t1 :: rest /\ last_opt l = Some tl /\
    h_pop b = t0 /\ get_chrom t1 = Ok (h_chrom b) /\ parse_flt tl = Ok (h_end b).

Fixpoint start_rule (prev : option hblock) (bs : list hblock) : Prop :=
  match bs with
  | [] => True
  | b :: r =>
      h_start b = match prev with
                  | Some a => if h_chrom a =? h_chrom b then plus_eps (h_end a) else eps0
                  | None => eps0
                  end
      /\ start_rule (Some b) r
  end.

Lemma add_block_inv l B B' :
  add_block l B = Ok B' ->
  exists b, B' = B ++ [b] /\ line_block l b /\
    h_start b = match last_opt B with
                | Some a => if h_chrom a =? h_chrom b then plus_eps (h_end a) else eps0
                | None => eps0
                end.
Proof.
  unfold C18_Model.add_block. destruct l as [|t0 [|t1 rest]]; try discriminate.
  destruct (get_chrom t1) as [c|k] eqn:Ec; cbn [bind]; [|discriminate].
  destruct (last_opt (t0 :: t1 :: rest)) as [tl|] eqn:El; [|discriminate].
  destruct (parse_flt tl) as [e|k] eqn:Ee; cbn [bind]; [|discriminate].
  intros H; inversion H; subst. eexists. split; [reflexivity|]. split.
  - exists t0, t1, rest, tl. cbn [h_pop h_chrom h_end]. auto.
  - cbn [h_start h_chrom]. destruct (last_opt B); reflexivity.
Qed.

Lemma start_rule_snoc prev B b :
  start_rule prev B ->
  h_start b = match last_opt B with
              | Some a => if h_chrom a =? h_chrom b then plus_eps (h_end a) else eps0
              | None => match prev with
                        | Some a => if h_chrom a =? h_chrom b then plus_eps (h_end a) else eps0
                        | None => eps0
                        end
              end ->
  start_rule prev (B ++ [b]).
Proof.
  revert prev. induction B as [|x B IH]; intros prev HB Hb; cbn [app start_rule].
  - split; [exact Hb|exact I].
  - destruct HB as [Hx HB]. split; [exact Hx|]. apply IH; [exact HB|].
    destruct B as [|y B'].
    + cbn in Hb |- *. exact Hb.
    + assert (E : last_opt (x :: y :: B') = last_opt (y :: B')).
      { unfold last_opt. cbn [rev]. destruct (rev B' ++ [y]) eqn:Er; [destruct (rev B'); discriminate|reflexivity]. }
      rewrite E in Hb. destruct (last_opt (y :: B')) eqn:El; [exact Hb|].
      exfalso. unfold last_opt in El. cbn [rev] in El.
      destruct (rev B' ++ [y]) eqn:Er; [destruct (rev B'); discriminate|discriminate].
Qed.

Lemma blocks_from_spec ls : forall B B',
  blocks_from ls B = Ok B' -> start_rule None B ->
  exists bs, B' = B ++ bs /\ Forall2 line_block ls bs /\ start_rule None B'.
Proof.
  induction ls as [|l ls IH]; intros B B' H HB; cbn [blocks_from] in H.
  - inversion H; subst. exists []. rewrite app_nil_r. split; [reflexivity|]. split; [constructor|exact HB].
  - destruct (add_block l B) as [B1|k] eqn:Ea; cbn [bind] in H; [|discriminate].
    apply add_block_inv in Ea. destruct Ea as [b [-> [Hlb Hst]]].
    destruct (IH _ _ H) as [bs [-> [Hf Hs]]].
    { apply start_rule_snoc; [exact HB|]. destruct (last_opt B); exact Hst. }
    exists (b :: bs). rewrite <- app_assoc in Hs |- *. split; [reflexivity|]. split; [constructor; assumption|exact Hs].
Qed.

(* one block per line, in file order, with the file's label, chromosome and cM end; a
   chromosome's first block starts at 0.0001, every other where the previous *file* end
   was, plus 0.0001 *)
Theorem blocks_of_spec ls bs :
  blocks_of ls = Ok bs -> Forall2 line_block ls bs /\ start_rule None bs.
Proof.
  intros H. destruct (blocks_from_spec ls [] bs H I) as [bs' [-> [Hf Hs]]]. split; assumption.
Qed.

(* ---- an absent sample --------------------------------------------------------- *)

Lemma run_absent name lines : forall B,
  Forall (foreign_header name) lines ->
  exists B', run name lines (mkg [] false B) = Ok (mkg [] false B').
Proof.
  intros B Hf. destruct (run_foreign name lines B [] Hf) as [B' E]. rewrite app_nil_r in E.
  exists B'. rewrite E. reflexivity.
Qed.

Theorem absent_sample_empty name lines :
  Forall (foreign_header name) lines ->
  parse_blocks name lines = Ok [] /\
  get_blocks name lines None = Ok [] /\
  plot name lines None = Err E_Exit /\
  forall cen, exists k, plot name lines cen = Err k.
Proof.
  intros Hf. assert (P : parse_blocks name lines = Ok []).
  { unfold C18_Model.parse_blocks. destruct (run_absent name lines [] Hf) as [B' E]. rewrite E. reflexivity. }
  split; [exact P|].
  assert (G : get_blocks name lines None = Ok []).
  { unfold C18_Model.get_blocks, C18_Model.get_blocks_with. rewrite P. reflexivity. }
  split; [exact G|]. split.
  - unfold C18_Model.plot. rewrite G. reflexivity.
  - intros [cl|].
    + unfold C18_Model.plot, C18_Model.get_blocks, C18_Model.get_blocks_with. rewrite P. cbn [bind].
      destruct (chrom_ends F parse_flt parse_int cl []) as [ends|k]; cbn [bind C18_Model.mapM].
      * exists E_Exit. reflexivity.
      * exists k. reflexivity.
    + exists E_Exit. unfold C18_Model.plot. rewrite G. reflexivity.
Qed.

(* ---- the extension pass --------------------------------------------------------- *)

Definition same_but_end (b b' : hblock) : Prop :=
  h_pop b' = h_pop b /\ h_chrom b' = h_chrom b /\ h_start b' = h_start b.

(* block i is the last block of a maximal run of one chromosome *)
Definition run_end (l : list hblock) (i : nat) (b : hblock) : Prop :=
  match nth_error l (S i) with Some b2 => h_chrom b2 <> h_chrom b | None => True end.

Lemma ext_loop_spec ends l : forall l1,
  ext_loop ends l = Ok l1 ->
  length l1 = length l /\
  forall i b, nth_error l i = Some b ->
    exists b', nth_error l1 i = Some b' /\ same_but_end b b' /\
      match nth_error l (S i) with
      | Some b2 => if h_chrom b2 =? h_chrom b then h_end b' = h_end b
                   else end_of ends (h_chrom b) = Ok (h_end b')
      | None => h_end b' = h_end b
      end.
Proof.
  induction l as [|b r IH]; intros l1 H; cbn [C18_Model.ext_loop] in H.
  - inversion H; subst. split; [reflexivity|]. intros [|i] b Hb; discriminate.
  - destruct r as [|b2 r'].
    + inversion H; subst. split; [reflexivity|]. intros [|[|i]] x Hx; cbn in Hx; try discriminate.
      inversion Hx; subst. exists x. split; [reflexivity|]. split; [repeat split|reflexivity].
    + set (r := b2 :: r') in *.
      destruct (if h_chrom b2 =? h_chrom b then Ok b
                else bind (end_of ends (h_chrom b)) (fun e => Ok (set_end b e))) as [b1|k] eqn:E1;
        cbn [bind] in H; [|discriminate].
      destruct (ext_loop ends r) as [r1|k] eqn:E2; cbn [bind] in H; [|discriminate].
      inversion H; subst l1. clear H. destruct (IH r1 eq_refl) as [Hlen Hall].
      split; [cbn [length]; rewrite Hlen; reflexivity|].
      intros [|i] x Hx; cbn [nth_error] in Hx.
      * inversion Hx; subst x. exists b1. split; [reflexivity|]. cbn [nth_error r].
        destruct (h_chrom b2 =? h_chrom b) eqn:Ec.
        -- inversion E1; subst. split; [repeat split|reflexivity].
        -- destruct (end_of ends (h_chrom b)) as [e|k] eqn:Ee; cbn [bind] in E1; [|discriminate].
           inversion E1; subst. split; [repeat split|reflexivity].
      * destruct (Hall i x Hx) as [x' [H1 [H2 H3]]]. exists x'. split; [exact H1|]. split; [exact H2|exact H3].
Qed.

Lemma update_nth_length {A} n (f : A -> A) l : length (update_nth n f l) = length l.
Proof. revert n. induction l as [|x r IH]; intros [|n]; cbn; auto. Qed.

Lemma update_nth_same {A} n (f : A -> A) l x :
  nth_error l n = Some x -> nth_error (update_nth n f l) n = Some (f x).
Proof.
  revert n. induction l as [|y r IH]; intros [|n] H; cbn in *; try discriminate.
  - inversion H; reflexivity.
  - apply IH. exact H.
Qed.

Lemma update_nth_other {A} n (f : A -> A) l j :
  j <> n -> nth_error (update_nth n f l) j = nth_error l j.
Proof.
  revert n j. induction l as [|y r IH]; intros [|n] [|j] H; cbn; try reflexivity; try congruence.
  apply IH. congruence.
Qed.

Lemma last_opt_nth {A} (l : list A) x : last_opt l = Some x -> nth_error l (length l - 1) = Some x.
Proof.
  unfold last_opt. intros H. destruct (rev l) as [|y t] eqn:E; [discriminate|]. inversion H; subst y.
  assert (L : l = rev t ++ [x]).
  { rewrite <- (rev_involutive l). rewrite E. reflexivity. }
  rewrite L. rewrite app_length. cbn [length]. replace (length (rev t) + 1 - 1)%nat with (length (rev t)) by lia.
  rewrite nth_error_app2 by lia. rewrite Nat.sub_diag. reflexivity.
Qed.

(* With a chromosome-ends table the result differs from the plain result exactly at the
   last block of every maximal run of one chromosome, whose end becomes the table's value;
   label, chromosome and start of every block, and the end of every other block, are kept. *)
Theorem extension_only_last ends l l' :
  ext_strand false ends l = Ok l' ->
  length l' = length l /\
  forall i b, nth_error l i = Some b ->
    exists b', nth_error l' i = Some b' /\ same_but_end b b' /\
      ((run_end l i b /\ end_of ends (h_chrom b) = Ok (h_end b')) \/
       (~ run_end l i b /\ h_end b' = h_end b)).
Proof.
  unfold C18_Model.ext_strand. destruct (last_opt l) as [lb|] eqn:El; [|discriminate].
  destruct (ext_loop ends l) as [l1|k] eqn:E1; cbn [bind]; [|discriminate].
  destruct (end_of ends (h_chrom lb)) as [e|k] eqn:Ee; cbn [bind]; [|discriminate].
  intros H; inversion H; subst l'. clear H.
  destruct (ext_loop_spec ends l l1 E1) as [Hlen Hall]. apply last_opt_nth in El.
  split; [rewrite update_nth_length; exact Hlen|].
  intros i b Hb. destruct (Hall i b Hb) as [b1 [H1 [H2 H3]]].
  assert (Hi : (i < length l)%nat) by (apply nth_error_Some; congruence).
  destruct (Nat.eq_dec i (length l - 1)) as [->|Hne].
  - rewrite El in Hb. inversion Hb; subst lb.
    exists (set_end b1 e). split; [exact (update_nth_same _ (fun b => set_end b e) l1 b1 H1)|].
    destruct H2 as [A [B C]]. split; [repeat split; assumption|]. left. split; [|exact Ee].
    unfold run_end. replace (nth_error l (S (length l - 1))) with (@None hblock); [exact I|].
    symmetry. apply nth_error_None. lia.
  - exists b1. split; [rewrite update_nth_other by exact Hne; exact H1|]. split; [exact H2|].
    unfold run_end. destruct (nth_error l (S i)) as [b2|] eqn:En.
    + destruct (h_chrom b2 =? h_chrom b) eqn:Ec.
      * right. apply Z.eqb_eq in Ec. split; [intros Hc; apply Hc; exact Ec|exact H3].
      * left. apply Z.eqb_neq in Ec. split; [exact Ec|exact H3].
    + exfalso. apply nth_error_None in En. lia.
Qed.

(* the pass succeeds whenever the strand has a block and every chromosome is listed *)
Lemma ext_loop_total ends l :
  (forall b, In b l -> exists e, end_of ends (h_chrom b) = Ok e) -> exists l1, ext_loop ends l = Ok l1.
Proof.
  induction l as [|b r IH]; intros H; [exists []; reflexivity|]. cbn [C18_Model.ext_loop].
  destruct r as [|b2 r']; [exists [b]; reflexivity|].
  destruct IH as [r1 E]; [intros x Hx; apply H; right; exact Hx|]. rewrite E.
  destruct (h_chrom b2 =? h_chrom b); cbn [bind]; [eexists; reflexivity|].
  destruct (H b (or_introl eq_refl)) as [e Ee]. rewrite Ee. cbn [bind]. eexists. reflexivity.
Qed.

Theorem extension_total ends l :
  l <> [] -> (forall b, In b l -> exists e, end_of ends (h_chrom b) = Ok e) ->
  exists l', ext_strand false ends l = Ok l'.
Proof.
  intros Hne H. unfold C18_Model.ext_strand. destruct (last_opt l) as [lb|] eqn:El.
  - destruct (ext_loop_total ends l H) as [l1 E]. rewrite E. cbn [bind].
    assert (Hin : In lb l).
    { unfold last_opt in El. destruct (rev l) eqn:Er; [discriminate|]. inversion El; subst.
      apply in_rev. rewrite Er. left. reflexivity. }
    destruct (H lb Hin) as [e Ee]. rewrite Ee. cbn [bind]. eexists. reflexivity.
  - exfalso. unfold last_opt in El. destruct (rev l) eqn:Er; [|discriminate].
    apply Hne. rewrite <- (rev_involutive l), Er. reflexivity.
Qed.

(* the answer with a chromosome-ends file is the plain answer with the extension pass applied
   to each strand (so extension_only_last compares the two answers) *)
Theorem extension_of_plain name lines cl sb ends :
  get_blocks name lines None = Ok sb ->
  chrom_ends F parse_flt parse_int cl [] = Ok ends ->
  get_blocks name lines (Some cl) = C18_Model.mapM (ext_strand false ends) sb.
Proof.
  unfold C18_Model.get_blocks, C18_Model.get_blocks_with.
  destruct (parse_blocks name lines) as [sb0|k]; cbn [bind]; [|discriminate].
  intros H; inversion H; subst sb0. intros ->. reflexivity.
Qed.

(* ---- what is drawn ---------------------------------------------------------------- *)

Definition rect_of (b : hblock) (r : str * list (F * F)) : Prop :=
  fst r = h_pop b /\ exists y0 y1,
    snd r = [(h_start b, y0); (h_start b, y1); (h_end b, y1); (h_end b, y0); (fzero, fzero)].

Lemma Forall2_map_r {A B} (P : A -> B -> Prop) (f : A -> B) l :
  (forall a, In a l -> P a (f a)) -> Forall2 P l (map f l).
Proof.
  induction l as [|a r IH]; intros H; cbn [map]; constructor.
  - apply H. left. reflexivity.
  - apply IH. intros x Hx. apply H. right. exact Hx.
Qed.

Lemma Forall2_app_both {A B} (P : A -> B -> Prop) l1 l2 r1 r2 :
  Forall2 P l1 r1 -> Forall2 P l2 r2 -> Forall2 P (l1 ++ l2) (r1 ++ r2).
Proof. intros H1 H2. induction H1; cbn [app]; [exact H2|constructor; assumption]. Qed.

(* PlotKaryogram adds exactly one rectangle per block of the two strands GetHaplotypeBlocks
   returned, strand 1 then strand 2, in order, carrying the block's label and spanning the
   block's start..end *)
Theorem plot_draws_blocks name lines cen rs :
  plot name lines cen = Ok rs ->
  exists s0 s1 rest, get_blocks name lines cen = Ok (s0 :: s1 :: rest) /\ Forall2 rect_of (s0 ++ s1) rs.
Proof.
  unfold C18_Model.plot. destruct (get_blocks name lines cen) as [sb|k]; cbn [bind]; [|discriminate].
  destruct sb as [|s0 [|s1 rest]]; try discriminate. intros H; inversion H; subst rs. clear H.
  exists s0, s1, rest. split; [reflexivity|]. apply Forall2_app_both; apply Forall2_map_r; intros b _;
    (split; [reflexivity|]); unfold C18_Model.block_rectangle; cbn [snd]; eexists; eexists; reflexivity.
Qed.
End Proofs.

(* ---- the pinned tree ------------------------------------------------------------- *)

(* a strand with two blocks on chromosome 2 and the table {2: 99}: the pinned code moves
   the first block's end and leaves the last block alone; the fixed code does what
   extension_only_last states (floats instantiated by integers for the example) *)
Example legacy_extension_refuted :
  let l := [mkhb [89] 2 0 10; mkhb [67] 2 11 20] in
  ext_strand Z true [(2, 99)] l = Ok [mkhb [89] 2 0 99; mkhb [67] 2 11 20] /\
  ext_strand Z false [(2, 99)] l = Ok [mkhb [89] 2 0 10; mkhb [67] 2 11 99].
Proof. vm_compute. split; reflexivity. Qed.

(* a single block on the final chromosome: the previous chromosome's last block receives
   the final chromosome's end (its own extension is overwritten), the final block none *)
Example legacy_extension_single_refuted :
  let l := [mkhb [89] 1 0 10; mkhb [67] 2 0 20] in
  ext_strand Z true [(1, 77); (2, 99)] l = Ok [mkhb [89] 1 0 99; mkhb [67] 2 0 20] /\
  ext_strand Z false [(1, 77); (2, 99)] l = Ok [mkhb [89] 1 0 77; mkhb [67] 2 0 99].
Proof. vm_compute. split; reflexivity. Qed.

(* satisfiability of blocks_are_samples_lines' hypotheses: sample "a_b" in the middle of a
   file, toy codecs (a number is the one-character token holding it) *)
Definition toy_num (s : str) : res Z := match s with [z] => Ok z | _ => Err E_Value end.

Example blocks_example :
  let name := [97; 95; 98] in
  let pre := [[[111; 95; 49]]; [[80]; [1]; [5]; [9]]; [[111; 95; 50]]] in
  let l1 := [[[80]; [1]; [5]; [10]]; [[81]; [1]; [6]; [20]]; [[80]; [2]; [7]; [5]]] in
  let l2 := [[[81]; [2]; [7]; [30]]] in
  let post := [[[122; 95; 49]]; [[80]; [1]; [5]; [9]]] in
  Forall (foreign_header name) pre /\ Forall not_header l1 /\ Forall not_header l2 /\
  parse_blocks Z toy_num toy_num 1 (fun x => x + 1) name
    (pre ++ [name ++ sfx_1] :: l1 ++ [name ++ sfx_2] :: l2 ++ post)
  = Ok [[mkhb [80] 1 1 10; mkhb [81] 1 11 20; mkhb [80] 2 1 5]; [mkhb [81] 2 1 30]].
Proof.
  cbv zeta. split; [|split; [|split]].
  - constructor; [|constructor; [|constructor; [|constructor]]]; intros h Hh; inversion Hh; subst;
      vm_compute; (split; [reflexivity|discriminate]).
  - constructor; [|constructor; [|constructor; [|constructor]]]; intros h Hh; discriminate.
  - constructor; [|constructor]; intros h Hh; discriminate.
  - vm_compute. reflexivity.
Qed.
