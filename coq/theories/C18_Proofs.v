(* C18 - proofs about the model of GetHaplotypeBlocks (placeholder, filled below). *)
From HV Require Import Prelude BpText C18_Model.
