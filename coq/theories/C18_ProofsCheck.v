(* C18 - soundness of the boolean checker of C18_Check: when [strand_ok] accepts an
   observed strand against the entries cut out of the file, the observed blocks are, in
   number, order, label (and chromosome) the file's, and every end is the file's end or,
   for the last block of a run with a listed chromosome, the listed end. *)
From Coq Require Import PrimFloat.
From HV Require Import Prelude BpText C18_Model C18_Check.

Definition entry_block (chk_chrom : bool) (x : str * Z * float) (b : hb) : Prop :=
  h_pop b = fst (fst x) /\ (chk_chrom = true -> h_chrom b = snd (fst x)).

Lemma strand_ok_sound chk ends : forall exp obs prev,
  strand_ok chk ends prev exp obs = true -> Forall2 (entry_block chk) exp obs.
Proof.
  induction exp as [|[[p c] e] er IH]; intros [|b br] prev H; cbn [strand_ok] in H; try discriminate.
  - constructor.
  - repeat (apply andb_true_iff in H; destruct H as [H ?]).
    constructor.
    + split; cbn [fst snd].
      * symmetry. apply str_eqb_spec. assumption.
      * intros ->. cbn [negb orb] in *. symmetry. apply Z.eqb_eq. assumption.
    + eapply IH. eassumption.
Qed.

(* no-extension case: every observed end is (float-)equal to the file's end *)
Lemma strand_ok_ends chk : forall exp obs prev,
  strand_ok chk None prev exp obs = true ->
  Forall2 (fun (x : str * Z * float) (b : hb) => feqb (h_end b) (snd x) = true) exp obs.
Proof.
  induction exp as [|[[p c] e] er IH]; intros [|b br] prev H; cbn [strand_ok] in H; try discriminate.
  - constructor.
  - repeat (apply andb_true_iff in H; destruct H as [H ?]).
    constructor; [cbn [snd]; assumption|eapply IH; eassumption].
Qed.

Theorem holds_blocks_sound k e1 e2 tb :
  holds_blocks k = true ->
  expectation (b_tab k) (b_name k) (b_lines k) (b_cen k) = Some (Some (e1, e2, tb)) ->
  exists o1 o2, b_obs k = Ok [o1; o2] /\
    Forall2 (entry_block true) e1 o1 /\ Forall2 (entry_block true) e2 o2.
Proof.
  unfold holds_blocks. intros H E. rewrite E in H.
  destruct (b_obs k) as [[|o1 [|o2 [|o3 r]]]|]; try discriminate.
  apply andb_true_iff in H. destruct H as [H1 H2].
  exists o1, o2. split; [reflexivity|]. split; eapply strand_ok_sound; eassumption.
Qed.

Theorem holds_blocks_absent_sound k :
  holds_blocks k = true ->
  expectation (b_tab k) (b_name k) (b_lines k) (b_cen k) = Some None ->
  b_obs k = Ok [].
Proof.
  unfold holds_blocks. intros H E. rewrite E in H.
  destruct (b_obs k) as [[|o r]|]; try discriminate. reflexivity.
Qed.

(* ---- the checker's declarative cut agrees with the file shape of the theorem ------------

   For a file  pre ++ [name_1] :: l1 ++ [name_2] :: l2 ++ post  (the shape quantified over in
   C18_blocks_are_samples_lines) the sections the checker cuts out by header are l1 and l2. *)
From HV Require Import C18_Proofs.

Lemma take_section_stop l rest :
  Forall not_header l -> (rest = [] \/ exists h r, rest = [h] :: r) -> take_section (l ++ rest) = l.
Proof.
  intros Hl Hr. induction Hl as [|x l Hx Hl IH]; cbn [app take_section].
  - destruct Hr as [->|[h [r ->]]]; reflexivity.
  - assert (E : is_header x = false).
    { destruct x as [|a [|b t]]; try reflexivity. exfalso. apply (Hx a). reflexivity. }
    rewrite E. f_equal. exact IH.
Qed.

Lemma section_of_skip hdr pre rest :
  Forall (fun l => l <> [hdr]) pre -> section_of hdr (pre ++ rest) = section_of hdr rest.
Proof.
  induction 1 as [|x pre Hx Hpre IH]; cbn [app section_of]; [reflexivity|].
  destruct x as [|a [|b t]]; try exact IH.
  destruct (str_eqb a hdr) eqn:E; [apply str_eqb_spec in E; subst; congruence|exact IH].
Qed.

Lemma section_of_here hdr l rest :
  Forall not_header l -> (rest = [] \/ exists h r, rest = [h] :: r) ->
  section_of hdr ([hdr] :: l ++ rest) = Some l.
Proof.
  intros Hl Hr. cbn [section_of]. rewrite str_eqb_refl. f_equal. apply take_section_stop; assumption.
Qed.

Lemma sfx_differ name : name ++ sfx_1 <> name ++ sfx_2.
Proof. intros H. apply app_inv_head in H. discriminate. Qed.

Theorem sections_of_sample name pre l1 l2 post :
  Forall (foreign_header name) pre -> Forall not_header l1 -> Forall not_header l2 ->
  (post = [] \/ exists h r, post = [h] :: r) ->
  let file := pre ++ [name ++ sfx_1] :: l1 ++ [name ++ sfx_2] :: l2 ++ post in
  section_of (name ++ sfx_1) file = Some l1 /\ section_of (name ++ sfx_2) file = Some l2.
Proof.
  intros Hpre H1 H2 Hpost file. unfold file.
  assert (Fpre : forall sfx d, sfx = [c_us; d] -> d <> c_us -> Forall (fun l => l <> [name ++ sfx]) pre).
  { intros sfx d -> Hd. eapply Forall_impl; [|exact Hpre]. intros l Hf Heq.
    destruct (Hf _ Heq) as [_ Hn]. apply Hn. apply before_last_sfx. exact Hd. }
  split.
  - rewrite section_of_skip by (apply (Fpre sfx_1 c_1 eq_refl); unfold c_1, c_us; lia).
    apply section_of_here; [exact H1|]. right. eexists. eexists. reflexivity.
  - rewrite section_of_skip by (apply (Fpre sfx_2 c_2 eq_refl); unfold c_2, c_us; lia).
    change ([name ++ sfx_1] :: l1 ++ [name ++ sfx_2] :: l2 ++ post)
      with (([name ++ sfx_1] :: l1) ++ [name ++ sfx_2] :: l2 ++ post).
    rewrite section_of_skip.
    + apply section_of_here; assumption.
    + constructor.
      * intros H. inversion H as [H']. apply (sfx_differ name). exact H'.
      * eapply Forall_impl; [|exact H1]. intros l Hn. apply Hn.
Qed.
