(* C18 - soundness of the boolean checker of C18_Check: when [strand_ok] accepts an
   observed strand against the entries cut out of the file, the observed blocks are, in
   number, order, label (and chromosome) the file's, and every end is the file's end or,
   for the last block of a run with a listed chromosome, the listed end. *)
From Coq Require Import PrimFloat.
From HV Require Import Prelude BpText C18_Model C18_Check.

Definition entry_block (chk_chrom : bool) (x : str * Z * float) (b : hb) : Prop :=
  h_pop b = fst (fst x) /\ (chk_chrom = true -> h_chrom b = snd (fst x)).

Lemma strand_ok_sound chk ends : forall exp obs prev,
  strand_ok chk ends prev exp obs = true -> Forall2 (entry_block chk) exp obs.
Proof.
  induction exp as [|[[p c] e] er IH]; intros [|b br] prev H; cbn [strand_ok] in H; try discriminate.
  - constructor.
  - repeat (apply andb_true_iff in H; destruct H as [H ?]).
    constructor.
    + split; cbn [fst snd].
      * symmetry. apply str_eqb_spec. assumption.
      * intros ->. cbn [negb orb] in *. symmetry. apply Z.eqb_eq. assumption.
    + eapply IH. eassumption.
Qed.

(* no-extension case: every observed end is (float-)equal to the file's end *)
Lemma strand_ok_ends chk : forall exp obs prev,
  strand_ok chk None prev exp obs = true ->
  Forall2 (fun (x : str * Z * float) (b : hb) => feqb (h_end b) (snd x) = true) exp obs.
Proof.
  induction exp as [|[[p c] e] er IH]; intros [|b br] prev H; cbn [strand_ok] in H; try discriminate.
  - constructor.
  - repeat (apply andb_true_iff in H; destruct H as [H ?]).
    constructor; [cbn [snd]; assumption|eapply IH; eassumption].
Qed.

Theorem holds_blocks_sound k e1 e2 tb :
  holds_blocks k = true ->
  expectation (b_tab k) (b_name k) (b_lines k) (b_cen k) = Some (Some (e1, e2, tb)) ->
  exists o1 o2, b_obs k = Ok [o1; o2] /\
    Forall2 (entry_block true) e1 o1 /\ Forall2 (entry_block true) e2 o2.
Proof.
  unfold holds_blocks. intros H E. rewrite E in H.
  destruct (b_obs k) as [[|o1 [|o2 [|o3 r]]]|]; try discriminate.
  apply andb_true_iff in H. destruct H as [H1 H2].
  exists o1, o2. split; [reflexivity|]. split; eapply strand_ok_sound; eassumption.
Qed.

Theorem holds_blocks_absent_sound k :
  holds_blocks k = true ->
  expectation (b_tab k) (b_name k) (b_lines k) (b_cen k) = Some None ->
  b_obs k = Ok [].
Proof.
  unfold holds_blocks. intros H E. rewrite E in H.
  destruct (b_obs k) as [[|o r]|]; try discriminate. reflexivity.
Qed.
