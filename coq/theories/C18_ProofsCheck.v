(* C18 - soundness of the boolean checkers of C18_Check: when [strand_ok] accepts an
   observed strand against the entries cut out of the file, the observed blocks are, in
   number, order, label (and chromosome) the file's, and every end is the file's end or,
   for the last block of a run with a listed chromosome, the listed end. *)
From Coq Require Import PrimFloat.
From HV Require Import Prelude BpText C18_Model C18_Check.

Definition entry_block (chk_chrom : bool) (x : ent) (b : hb) : Prop :=
  h_pop b = fst (fst x) /\ (chk_chrom = true -> h_chrom b = snd (fst x)).

(* ---- what [strand_ok] demands, as a proposition ----------------------------------------

   the end of a block: the file's end - except, with a table of chromosome ends, for the
   last block of a run of one chromosome, which carries the listed end of its chromosome
   (if the chromosome comes back later in the strand, a shape outside the property's
   quantifier, the run end may carry the file's end or the listed one) *)
Definition end_spec (ends : option (list (Z * float))) (c : Z) (e : float) (er : list ent) (x : float) : Prop :=
  match ends with
  | None => feqb x e = true
  | Some tb =>
      if last_of_run c er
      then forall y, assoc Z.eqb c tb = Some y ->
             feqb x y = true \/ (recurs c er = true /\ feqb x e = true)
      else feqb x e = true
  end.

(* one strand: as many blocks as the file has lines, in order, each with the line's label
   (and chromosome); start rule: a block starts within [lo, lo + 0.001] where lo is the
   previous line's recorded end if that line is on the same chromosome, else 0; end rule:
   [end_spec] *)
Fixpoint strand_spec (chk : bool) (ends : option (list (Z * float))) (prev : option (Z * float))
    (exp : list ent) (obs : list hb) : Prop :=
  match exp, obs with
  | [], [] => True
  | (p, c, e) :: er, b :: br =>
      h_pop b = p /\ (chk = true -> h_chrom b = c) /\
      (fleb (start_lo prev c) (h_start b) = true /\
       fleb (h_start b) (PrimFloat.add (start_lo prev c) f_tol) = true) /\
      end_spec ends c e er (h_end b) /\
      strand_spec chk ends (Some (c, e)) er br
  | _, _ => False
  end.

Lemma end_ok_sound ends c e er x : end_ok ends c e er x = true -> end_spec ends c e er x.
Proof.
  unfold end_ok, end_spec. destruct ends as [tb|]; [|auto].
  destruct (last_of_run c er); [|auto].
  intros H y Hy. rewrite Hy in H. apply orb_true_iff in H. destruct H as [H|H]; [left; exact H|].
  apply andb_true_iff in H. right. exact H.
Qed.

Lemma strand_ok_spec chk ends : forall exp obs prev,
  strand_ok chk ends prev exp obs = true -> strand_spec chk ends prev exp obs.
Proof.
  induction exp as [|[[p c] e] er IH]; intros [|b br] prev H; cbn [strand_ok] in H; try discriminate.
  - exact I.
  - cbn [strand_spec].
    apply andb_true_iff in H. destruct H as [H H6].
    apply andb_true_iff in H. destruct H as [H H5].
    apply andb_true_iff in H. destruct H as [H H4].
    apply andb_true_iff in H. destruct H as [H H3].
    apply andb_true_iff in H. destruct H as [H1 H2].
    split; [symmetry; apply str_eqb_spec; exact H1|].
    split; [intros ->; cbn [negb orb] in H2; symmetry; apply Z.eqb_eq; exact H2|].
    split; [split; assumption|].
    split; [apply end_ok_sound; exact H5|].
    apply IH. exact H6.
Qed.

Lemma strand_spec_entries chk ends : forall exp obs prev,
  strand_spec chk ends prev exp obs -> Forall2 (entry_block chk) exp obs.
Proof.
  induction exp as [|[[p c] e] er IH]; intros [|b br] prev H; cbn [strand_spec] in H; try contradiction.
  - constructor.
  - destruct H as [H1 [H2 [_ [_ H5]]]]. constructor; [split; assumption|]. eapply IH. exact H5.
Qed.

Lemma strand_spec_length chk ends : forall exp obs prev,
  strand_spec chk ends prev exp obs -> length obs = length exp.
Proof.
  intros exp obs prev H. apply strand_spec_entries in H.
  induction H; cbn [length]; [reflexivity|f_equal; assumption].
Qed.

Lemma strand_ok_sound chk ends exp obs prev :
  strand_ok chk ends prev exp obs = true -> Forall2 (entry_block chk) exp obs.
Proof. intros H. eapply strand_spec_entries. apply strand_ok_spec. exact H. Qed.

(* no-extension case: every observed end is (float-)equal to the file's end *)
Lemma strand_ok_ends chk : forall exp obs prev,
  strand_ok chk None prev exp obs = true ->
  Forall2 (fun (x : ent) (b : hb) => feqb (h_end b) (snd x) = true) exp obs.
Proof.
  induction exp as [|[[p c] e] er IH]; intros [|b br] prev H; cbn [strand_ok] in H; try discriminate.
  - constructor.
  - apply andb_true_iff in H. destruct H as [H H6].
    apply andb_true_iff in H. destruct H as [H H5].
    constructor; [cbn [snd]; exact H5|eapply IH; exact H6].
Qed.

(* ---- non-overlapping: what [nonoverlap_ok] establishes ----------------------------------- *)

Lemma later_ok_sound c x : forall er br j bj,
  later_ok c x er br = true -> nth_error br j = Some bj -> (j < length er)%nat ->
  (forall k y, (k <= j)%nat -> nth_error er k = Some y -> e_chrom y = c) ->
  fleb x (h_start bj) = true.
Proof.
  induction er as [|y er IH]; intros br j bj H Hj Hlt Hc; cbn [length] in Hlt; [lia|].
  destruct br as [|b br]; [destruct j; discriminate|].
  cbn [later_ok] in H. rewrite (Hc 0%nat y (Nat.le_0_l _) eq_refl), Z.eqb_refl in H.
  apply andb_true_iff in H. destruct H as [H1 H2].
  destruct j as [|j]; cbn [nth_error] in Hj.
  - inversion Hj; subst. exact H1.
  - apply (IH br j bj H2 Hj); [lia|]. intros k z Hk Hz. apply (Hc (S k) z); [lia|exact Hz].
Qed.

(* the observed blocks are ordered, and a block ends where or before every later block of
   its run starts (runs read from the chromosomes of the file's entries) *)
Theorem nonoverlap_ok_sound : forall exp obs,
  nonoverlap_ok exp obs = true ->
  (forall i b, (i < length exp)%nat -> nth_error obs i = Some b -> fleb (h_start b) (h_end b) = true) /\
  (forall i j xi bi bj, (i < j)%nat -> (j < length exp)%nat ->
     nth_error exp i = Some xi -> nth_error obs i = Some bi -> nth_error obs j = Some bj ->
     (forall k x, (i < k <= j)%nat -> nth_error exp k = Some x -> e_chrom x = e_chrom xi) ->
     fleb (h_end bi) (h_start bj) = true).
Proof.
  induction exp as [|x er IH]; intros obs H.
  - split; [intros i b Hi; cbn in Hi; lia|intros i j xi bi bj _ Hj; cbn in Hj; lia].
  - destruct obs as [|b br].
    + split; [intros [|i] b0 _ Hb; discriminate|intros [|i] j xi bi bj _ _ _ Hb; discriminate].
    + cbn [nonoverlap_ok] in H.
      apply andb_true_iff in H. destruct H as [H H3].
      apply andb_true_iff in H. destruct H as [H1 H2].
      destruct (IH br H3) as [IH1 IH2]. split.
      * intros [|i] b0 Hi Hb; cbn [nth_error length] in *.
        -- inversion Hb; subst. exact H1.
        -- apply (IH1 i b0); [lia|exact Hb].
      * intros [|i] [|j] xi bi bj Hij Hj Hxi Hbi Hbj Hc; cbn [nth_error length] in *; try lia.
        -- inversion Hxi; subst xi. inversion Hbi; subst bi.
           apply (later_ok_sound (e_chrom x) (h_end b) er br j bj H2 Hbj); [lia|].
           intros k y Hk Hy. apply (Hc (S k) y); [lia|exact Hy].
        -- apply (IH2 i j xi bi bj); try assumption; try lia.
           intros k y Hk Hy. apply (Hc (S k) y); [lia|exact Hy].
Qed.

(* ---- the relations' checkers --------------------------------------------------------------- *)

(* what [strand_holds] gives for one strand *)
Definition strand_prop (chk : bool) (ends : option (list (Z * float))) (exp : list ent) (obs : list hb) : Prop :=
  strand_spec chk ends None exp obs /\
  (inc_pre ends None exp = true -> nonoverlap_ok exp obs = true).

Lemma strand_holds_sound chk ends exp obs : strand_holds chk ends exp obs = true -> strand_prop chk ends exp obs.
Proof.
  unfold strand_holds, strand_prop. intros H. apply andb_true_iff in H. destruct H as [H1 H2].
  split; [apply strand_ok_spec; exact H1|]. intros Hp. rewrite Hp in H2. exact H2.
Qed.

(* a present sample: the answer is Ok, has exactly two strands, and each is exactly the
   corresponding section of the file (number, order, labels, chromosomes, starts, ends) *)
Theorem holds_blocks_sound k e1 e2 tb :
  holds_blocks k = true ->
  expectation (b_tab k) (b_name k) (b_lines k) (b_cen k) = Some (Some (e1, e2, tb)) ->
  exists o1 o2, b_obs k = Ok [o1; o2] /\ strand_prop true tb e1 o1 /\ strand_prop true tb e2 o2.
Proof.
  unfold holds_blocks. intros H E. rewrite E in H.
  destruct (b_obs k) as [[|o1 [|o2 [|o3 r]]]|]; try discriminate.
  apply andb_true_iff in H. destruct H as [H1 H2].
  exists o1, o2. split; [reflexivity|]. split; apply strand_holds_sound; assumption.
Qed.

(* the weaker form kept from before: number, order, labels, chromosomes *)
Theorem holds_blocks_entries k e1 e2 tb :
  holds_blocks k = true ->
  expectation (b_tab k) (b_name k) (b_lines k) (b_cen k) = Some (Some (e1, e2, tb)) ->
  exists o1 o2, b_obs k = Ok [o1; o2] /\
    Forall2 (entry_block true) e1 o1 /\ Forall2 (entry_block true) e2 o2.
Proof.
  intros H E. destruct (holds_blocks_sound k e1 e2 tb H E) as [o1 [o2 [Ho [[S1 _] [S2 _]]]]].
  exists o1, o2. split; [exact Ho|]. split; eapply strand_spec_entries; eassumption.
Qed.

Theorem holds_blocks_absent_sound k :
  holds_blocks k = true ->
  expectation (b_tab k) (b_name k) (b_lines k) (b_cen k) = Some None ->
  b_obs k = Ok [].
Proof.
  unfold holds_blocks. intros H E. rewrite E in H.
  destruct (b_obs k) as [[|o r]|]; try discriminate. reflexivity.
Qed.

(* the horizontal extent read from a drawn rectangle *)
Lemma rect_block_spec r b :
  rect_block r = Some b ->
  h_pop b = fst r /\
  exists x0 y0 x1 y1 x2 y2 x3 y3 v,
    snd r = [(x0, y0); (x1, y1); (x2, y2); (x3, y3); v] /\
    feqb x0 x1 = true /\ feqb x2 x3 = true /\ h_start b = x0 /\ h_end b = x2.
Proof.
  unfold rect_block. destruct (snd r) as [|[x0 y0] [|[x1 y1] [|[x2 y2] [|[x3 y3] [|v [|w t]]]]]] eqn:E; try discriminate.
  destruct (feqb x0 x1 && feqb x2 x3) eqn:Eb; [|discriminate].
  apply andb_true_iff in Eb. destruct Eb as [E1 E2].
  intros H; inversion H; subst b. cbn [h_pop h_start h_end]. split; [reflexivity|].
  exists x0, y0, x1, y1, x2, y2, x3, y3, v. repeat split; assumption.
Qed.

(* a present sample with something to draw: PlotKaryogram succeeds and the collections on
   the axes are, in order, exactly one rectangle per block line of strand 0, then of strand 1,
   with the line's label and the x-extent [strand_spec] fixes *)
Theorem holds_plot_sound k e1 e2 tb :
  holds_plot k = true ->
  expectation (p_tab k) (p_name k) (p_lines k) (p_cen k) = Some (Some (e1, e2, tb)) ->
  (e1 <> [] \/ e2 <> []) ->
  exists rs bs, p_obs k = Ok rs /\ all_some (map rect_block rs) = Some bs /\
    length rs = (length e1 + length e2)%nat /\
    strand_prop false tb e1 (firstn (length e1) bs) /\
    strand_prop false tb e2 (skipn (length e1) bs).
Proof.
  unfold holds_plot. intros H E Hne. rewrite E in H.
  assert (G : match p_obs k with
              | Ok rs => match all_some (map rect_block rs) with
                         | Some bs => strand_holds false tb e1 (firstn (length e1) bs)
                                      && strand_holds false tb e2 (skipn (length e1) bs)
                         | None => false
                         end
              | Err _ => false
              end = true).
  { destruct e1 as [|x1 r1]; [destruct e2 as [|x2 r2]; [destruct Hne as [Hn|Hn]; contradiction|exact H]|exact H]. }
  clear H. destruct (p_obs k) as [rs|]; [|discriminate].
  destruct (all_some (map rect_block rs)) as [bs|] eqn:Ea; [|discriminate].
  apply andb_true_iff in G. destruct G as [G1 G2].
  apply strand_holds_sound in G1. apply strand_holds_sound in G2.
  exists rs, bs. split; [reflexivity|]. split; [exact Ea|]. split; [|split; assumption].
  assert (Lb : length bs = length rs).
  { clear - Ea. revert bs Ea. induction rs as [|r rs IH]; intros bs Ea; cbn [map all_some] in Ea.
    - inversion Ea; reflexivity.
    - destruct (rect_block r); [|discriminate]. destruct (all_some (map rect_block rs)) as [bs'|]; [|discriminate].
      inversion Ea; subst. cbn [length]. f_equal. apply IH. reflexivity. }
  destruct G1 as [S1 _]. destruct G2 as [S2 _].
  apply strand_spec_length in S1. apply strand_spec_length in S2.
  rewrite <- Lb, <- (firstn_skipn (length e1) bs), app_length. rewrite S1, S2. reflexivity.
Qed.

(* an absent sample: PlotKaryogram reports an error (nothing is drawn) *)
Theorem holds_plot_absent_sound k :
  holds_plot k = true ->
  expectation (p_tab k) (p_name k) (p_lines k) (p_cen k) = Some None ->
  exists kind, p_obs k = Err kind.
Proof.
  unfold holds_plot. intros H E. rewrite E in H.
  destruct (p_obs k) as [rs|kind]; [discriminate|]. exists kind. reflexivity.
Qed.

(* ---- the checker's declarative cut agrees with the file shape of the theorem ------------

   For a file  pre ++ [name_1] :: l1 ++ [name_2] :: l2 ++ post  (the shape quantified over in
   C18_blocks_are_samples_lines) the sections the checker cuts out by header are l1 and l2. *)
From HV Require Import C18_Proofs.

Lemma take_section_stop l rest :
  Forall not_header l -> (rest = [] \/ exists h r, rest = [h] :: r) -> take_section (l ++ rest) = l.
Proof.
  intros Hl Hr. induction Hl as [|x l Hx Hl IH]; cbn [app take_section].
  - destruct Hr as [->|[h [r ->]]]; reflexivity.
  - assert (E : is_header x = false).
    { destruct x as [|a [|b t]]; try reflexivity. exfalso. apply (Hx a). reflexivity. }
    rewrite E. f_equal. exact IH.
Qed.

Lemma section_of_skip hdr pre rest :
  Forall (fun l => l <> [hdr]) pre -> section_of hdr (pre ++ rest) = section_of hdr rest.
Proof.
  induction 1 as [|x pre Hx Hpre IH]; cbn [app section_of]; [reflexivity|].
  destruct x as [|a [|b t]]; try exact IH.
  destruct (str_eqb a hdr) eqn:E; [apply str_eqb_spec in E; subst; congruence|exact IH].
Qed.

Lemma section_of_here hdr l rest :
  Forall not_header l -> (rest = [] \/ exists h r, rest = [h] :: r) ->
  section_of hdr ([hdr] :: l ++ rest) = Some l.
Proof.
  intros Hl Hr. cbn [section_of]. rewrite str_eqb_refl. f_equal. apply take_section_stop; assumption.
Qed.

Lemma sfx_differ name : name ++ sfx_1 <> name ++ sfx_2.
Proof. intros H. apply app_inv_head in H. discriminate. Qed.

Lemma first_hdr_skip h1 h2 pre rest :
  Forall (fun l => l <> [h1] /\ l <> [h2]) pre -> first_hdr h1 h2 (pre ++ rest) = first_hdr h1 h2 rest.
Proof.
  induction 1 as [|x pre [Hx1 Hx2] Hpre IH]; cbn [app first_hdr]; [reflexivity|].
  destruct x as [|a [|b t]]; try exact IH.
  destruct (str_eqb a h1) eqn:E1; [apply str_eqb_spec in E1; subst; congruence|].
  destruct (str_eqb a h2) eqn:E2; [apply str_eqb_spec in E2; subst; congruence|exact IH].
Qed.

(* either order of the two headers: the sections cut out by header are l1, l2, and
   [first_hdr] tells which of the two headers comes first *)
Theorem sections_of_sample_any name sa sb pre l1 l2 post :
  strand_sfx sa -> strand_sfx sb -> sa <> sb ->
  Forall (foreign_header name) pre -> Forall not_header l1 -> Forall not_header l2 ->
  (post = [] \/ exists h r, post = [h] :: r) ->
  let file := pre ++ [name ++ sa] :: l1 ++ [name ++ sb] :: l2 ++ post in
  section_of (name ++ sa) file = Some l1 /\ section_of (name ++ sb) file = Some l2 /\
  first_hdr (name ++ sa) (name ++ sb) file = Some true /\
  first_hdr (name ++ sb) (name ++ sa) file = Some false.
Proof.
  intros Ha Hb Hab Hpre H1 H2 Hpost file. unfold file.
  assert (Fpre : forall s, strand_sfx s -> Forall (fun l => l <> [name ++ s]) pre).
  { intros s Hs. eapply Forall_impl; [|exact Hpre]. intros l Hf Heq.
    destruct (Hf _ Heq) as [_ Hn]. apply Hn. apply (good_sfx_any name s Hs). }
  assert (Hd : name ++ sa <> name ++ sb) by (intros H; apply app_inv_head in H; contradiction).
  assert (Fboth : forall x y, strand_sfx x -> strand_sfx y -> Forall (fun l => l <> [name ++ x] /\ l <> [name ++ y]) pre).
  { intros x y Hx Hy. pose proof (Fpre x Hx) as Px. pose proof (Fpre y Hy) as Py.
    clear - Px Py. induction pre as [|l pre IH]; constructor.
    - split; [inversion Px; assumption|inversion Py; assumption].
    - apply IH; [inversion Px; assumption|inversion Py; assumption]. }
  split; [|split; [|split]].
  - rewrite section_of_skip by (apply Fpre; exact Ha).
    apply section_of_here; [exact H1|]. right. eexists. eexists. reflexivity.
  - rewrite section_of_skip by (apply Fpre; exact Hb).
    change ([name ++ sa] :: l1 ++ [name ++ sb] :: l2 ++ post)
      with (([name ++ sa] :: l1) ++ [name ++ sb] :: l2 ++ post).
    rewrite section_of_skip.
    + apply section_of_here; assumption.
    + constructor.
      * intros H. inversion H as [H']. apply Hd. exact H'.
      * eapply Forall_impl; [|exact H1]. intros l Hn. apply Hn.
  - rewrite first_hdr_skip by (apply Fboth; assumption).
    cbn [first_hdr]. rewrite str_eqb_refl. reflexivity.
  - rewrite first_hdr_skip by (apply Fboth; assumption).
    cbn [first_hdr]. destruct (str_eqb (name ++ sa) (name ++ sb)) eqn:E; [apply str_eqb_spec in E; contradiction|].
    rewrite str_eqb_refl. reflexivity.
Qed.

Theorem sections_of_sample name pre l1 l2 post :
  Forall (foreign_header name) pre -> Forall not_header l1 -> Forall not_header l2 ->
  (post = [] \/ exists h r, post = [h] :: r) ->
  let file := pre ++ [name ++ sfx_1] :: l1 ++ [name ++ sfx_2] :: l2 ++ post in
  section_of (name ++ sfx_1) file = Some l1 /\ section_of (name ++ sfx_2) file = Some l2.
Proof.
  intros Hpre H1 H2 Hpost file. unfold file.
  assert (Fpre : forall sfx d, sfx = [c_us; d] -> d <> c_us -> Forall (fun l => l <> [name ++ sfx]) pre).
  { intros sfx d -> Hd. eapply Forall_impl; [|exact Hpre]. intros l Hf Heq.
    destruct (Hf _ Heq) as [_ Hn]. apply Hn. apply before_last_sfx. exact Hd. }
  split.
  - rewrite section_of_skip by (apply (Fpre sfx_1 c_1 eq_refl); unfold c_1, c_us; lia).
    apply section_of_here; [exact H1|]. right. eexists. eexists. reflexivity.
  - rewrite section_of_skip by (apply (Fpre sfx_2 c_2 eq_refl); unfold c_2, c_us; lia).
    change ([name ++ sfx_1] :: l1 ++ [name ++ sfx_2] :: l2 ++ post)
      with (([name ++ sfx_1] :: l1) ++ [name ++ sfx_2] :: l2 ++ post).
    rewrite section_of_skip.
    + apply section_of_here; assumption.
    + constructor.
      * intros H. inversion H as [H']. apply (sfx_differ name). exact H'.
      * eapply Forall_impl; [|exact H1]. intros l Hn. apply Hn.
Qed.
