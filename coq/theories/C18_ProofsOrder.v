(* C18 - "non-overlapping in centimorgans".

   The code never compares two cM values: it copies the recorded ends and adds 0.0001.  So
   that the blocks of a chromosome are ordered (start <= end) and pairwise disjoint is a
   consequence of a property of the file - within a run of one chromosome the recorded ends
   increase, by at least the 0.0001 that is added - and of nothing else.  Floats stay an
   abstract type F; the order on it is a Section variable with the three transitivity laws
   as contract, and the contract about plus_eps (x < plus_eps x <= next end) is part of the
   hypothesis [inc_ends] about the file.

   Theorems: [blocks_ordered_disjoint] (the blocks read from a section of such a file are
   ordered and, within a run, pairwise disjoint), [extension_preserves] (the chromosome-end
   extension keeps both, provided a listed end is not below the recorded end it replaces). *)
From HV Require Import Prelude BpText C18_Model C18_Proofs.

Section Order.
Variable F : Type.
Variable parse_flt : str -> res F.
Variable parse_int : str -> res Z.
Variable eps0 : F.
Variable plus_eps : F -> F.
Variable lt le : F -> F -> Prop.
Hypothesis lt_trans : forall a b c, lt a b -> lt b c -> lt a c.
Hypothesis lt_le_trans : forall a b c, lt a b -> le b c -> lt a c.
Hypothesis le_trans : forall a b c, le a b -> le b c -> le a c.

Notation hblock := (hblock F).
Notation start_rule := (start_rule F eps0 plus_eps).
Notation blocks_of := (blocks_of F parse_flt parse_int eps0 plus_eps).
Notation ext_strand := (ext_strand F).
Notation end_of := (end_of F).
Notation run_end := (run_end F).

(* the recorded ends increase within a run of one chromosome: x < plus_eps x <= next end;
   the first end of a run is >= eps0 *)
Fixpoint inc_ends (prev : option hblock) (bs : list hblock) : Prop :=
  match bs with
  | [] => True
  | b :: r =>
      match prev with
      | Some a => if h_chrom a =? h_chrom b
                  then lt (h_end a) (plus_eps (h_end a)) /\ le (plus_eps (h_end a)) (h_end b)
                  else le eps0 (h_end b)
      | None => le eps0 (h_end b)
      end /\ inc_ends (Some b) r
  end.

Definition ordered (l : list hblock) : Prop :=
  forall i b, nth_error l i = Some b -> le (h_start b) (h_end b).

(* blocks i < j with every block from i to j on one chromosome: i ends before j starts *)
Definition run_disjoint (l : list hblock) : Prop :=
  forall i j bi bj, (i < j)%nat -> nth_error l i = Some bi -> nth_error l j = Some bj ->
    (forall k bk, (i < k <= j)%nat -> nth_error l k = Some bk -> h_chrom bk = h_chrom bi) ->
    lt (h_end bi) (h_start bj).

Lemma chain : forall r a j bj,
  start_rule (Some a) r -> inc_ends (Some a) r ->
  nth_error r j = Some bj ->
  (forall k bk, (k <= j)%nat -> nth_error r k = Some bk -> h_chrom bk = h_chrom a) ->
  lt (h_end a) (h_start bj).
Proof.
  induction r as [|m r IH]; intros a j bj Hs Hi Hj Hc; [destruct j; discriminate|].
  cbn [C18_Proofs.start_rule inc_ends] in Hs, Hi.
  destruct Hs as [Hs0 Hs]. destruct Hi as [Hi0 Hi].
  assert (Em : h_chrom m = h_chrom a) by (apply (Hc 0%nat m); [lia|reflexivity]).
  rewrite Em, Z.eqb_refl in Hs0, Hi0. destruct Hi0 as [H1 H2].
  destruct j as [|j]; cbn [nth_error] in Hj.
  - inversion Hj; subst bj. rewrite Hs0. exact H1.
  - apply lt_trans with (b := h_end m).
    + apply lt_le_trans with (b := plus_eps (h_end a)); assumption.
    + apply (IH m j bj Hs Hi Hj). intros k bk Hk Hbk. rewrite Em. apply (Hc (S k) bk); [lia|exact Hbk].
Qed.

Lemma run_disjoint_of : forall l prev, start_rule prev l -> inc_ends prev l -> run_disjoint l.
Proof.
  induction l as [|b l IH]; intros prev Hs Hi.
  - intros i j bi bj _ Hbi. destruct i; discriminate.
  - cbn [C18_Proofs.start_rule inc_ends] in Hs, Hi. destruct Hs as [_ Hs]. destruct Hi as [_ Hi].
    intros [|i] [|j] bi bj Hij Hbi Hbj Hc; cbn [nth_error] in Hbi, Hbj; try lia.
    + inversion Hbi; subst bi. apply (chain l b j bj Hs Hi Hbj).
      intros k bk Hk Hbk. apply (Hc (S k) bk); [lia|exact Hbk].
    + apply (IH (Some b) Hs Hi i j bi bj); [lia|exact Hbi|exact Hbj|].
      intros k bk Hk Hbk. apply (Hc (S k) bk); [lia|exact Hbk].
Qed.

Lemma ordered_of : forall l prev, start_rule prev l -> inc_ends prev l -> ordered l.
Proof.
  induction l as [|b l IH]; intros prev Hs Hi.
  - intros i x Hx. destruct i; discriminate.
  - cbn [C18_Proofs.start_rule inc_ends] in Hs, Hi. destruct Hs as [Hs0 Hs]. destruct Hi as [Hi0 Hi].
    intros [|i] x Hx; cbn [nth_error] in Hx.
    + inversion Hx; subst x. rewrite Hs0. destruct prev as [a|]; [|exact Hi0].
      destruct (h_chrom a =? h_chrom b); [destruct Hi0 as [_ H]; exact H|exact Hi0].
    + apply (IH (Some b) Hs Hi i x Hx).
Qed.

(* the blocks read from a section whose recorded ends increase within each run are ordered
   and, within a run, pairwise disjoint *)
Theorem blocks_ordered_disjoint ls bs :
  blocks_of ls = Ok bs -> inc_ends None bs -> ordered bs /\ run_disjoint bs.
Proof.
  intros H Hi. destruct (blocks_of_spec F parse_flt parse_int eps0 plus_eps ls bs H) as [_ Hs].
  split; [eapply ordered_of; eassumption|eapply run_disjoint_of; eassumption].
Qed.

(* the extension pass keeps both, provided no listed end is below the recorded end of the
   block it replaces (the last block of a run) *)
Theorem extension_preserves ends l l' :
  ext_strand false ends l = Ok l' ->
  ordered l -> run_disjoint l ->
  (forall i b e, nth_error l i = Some b -> run_end l i b -> end_of ends (h_chrom b) = Ok e -> le (h_end b) e) ->
  ordered l' /\ run_disjoint l'.
Proof.
  intros He Ho Hd Hl. destruct (extension_only_last F ends l l' He) as [Hlen Hall].
  assert (back : forall i b', nth_error l' i = Some b' ->
            exists b, nth_error l i = Some b /\ same_but_end F b b' /\
              ((run_end l i b /\ end_of ends (h_chrom b) = Ok (h_end b')) \/
               (~ run_end l i b /\ h_end b' = h_end b))).
  { intros i b' Hb'. assert (Hi : (i < length l)%nat) by (rewrite <- Hlen; apply nth_error_Some; congruence).
    destruct (nth_error l i) as [b|] eqn:Eb; [|apply nth_error_None in Eb; lia].
    destruct (Hall i b Eb) as [b2 [H1 H2]]. rewrite Hb' in H1. inversion H1; subst b2.
    exists b. split; [reflexivity|exact H2]. }
  split.
  - intros i b' Hb'. destruct (back i b' Hb') as [b [Hb [[_ [_ Hst]] Hend]]]. rewrite Hst.
    destruct Hend as [[Hr He']|[_ He']].
    + apply le_trans with (b := h_end b); [apply (Ho i b Hb)|apply (Hl i b _ Hb Hr He')].
    + rewrite He'. apply (Ho i b Hb).
  - intros i j bi' bj' Hij Hbi' Hbj' Hc.
    destruct (back i bi' Hbi') as [bi [Hbi [[_ [Hci _]] Hendi]]].
    destruct (back j bj' Hbj') as [bj [Hbj [[_ [_ Hstj]] _]]].
    assert (Hc0 : forall k bk, (i < k <= j)%nat -> nth_error l k = Some bk -> h_chrom bk = h_chrom bi).
    { intros k bk Hk Hbk. destruct (Hall k bk Hbk) as [bk' [Hbk' [[_ [Hck _]] _]]].
      rewrite <- Hck, <- Hci. apply (Hc k bk' Hk Hbk'). }
    assert (Hnr : ~ run_end l i bi).
    { unfold C18_Proofs.run_end. assert (Hj : (j < length l)%nat) by (apply nth_error_Some; congruence).
      destruct (nth_error l (S i)) as [b2|] eqn:E2; [|apply nth_error_None in E2; lia].
      intros Hne. apply Hne. apply (Hc0 (S i) b2); [lia|exact E2]. }
    destruct Hendi as [[Hr _]|[_ He']]; [contradiction|].
    rewrite He', Hstj. apply (Hd i j bi bj Hij Hbi Hbj Hc0).
Qed.
End Order.

(* the hypotheses are satisfiable: strand 1 of blocks_example (F = Z, x + 1 for x + 0.0001),
   extended with listed ends 25 and 7 *)
Example nonoverlap_example :
  let bs := [mkhb [80] 1 1 10; mkhb [81] 1 11 20; mkhb [80] 2 1 5] in
  inc_ends Z 1 (fun x => x + 1) Z.lt Z.le None bs /\
  ext_strand Z false [(1, 25); (2, 7)] bs = Ok [mkhb [80] 1 1 10; mkhb [81] 1 11 25; mkhb [80] 2 1 7] /\
  (forall i b e, nth_error bs i = Some b -> run_end Z bs i b -> end_of Z [(1, 25); (2, 7)] (h_chrom b) = Ok e -> h_end b <= e).
Proof.
  cbv zeta. split; [|split].
  - cbn. lia.
  - vm_compute. reflexivity.
  - intros [|[|[|i]]] b e Hb Hr He; cbn in Hb; try discriminate; inversion Hb; subst; cbn in *.
    + exfalso. apply Hr. reflexivity.
    + inversion He; subst. lia.
    + inversion He; subst. lia.
    + destruct i; discriminate.
Qed.
