(* C18 - property theorems only (proofs: C18_Proofs, C18_ProofsOrder, C18_ProofsCheck). *)
From HV Require Import Prelude BpText C18_Model C18_Check C18_Proofs C18_ProofsOrder C18_ProofsCheck.

(* The result is exactly the two strands of the named sample, wherever its sections sit in
   the file and whatever the name (underscores included): lines of other samples (pre, post)
   never contribute. *)
Theorem C18_blocks_are_samples_lines :
  forall (F : Type) (parse_flt : str -> res F) (parse_int : str -> res Z) (eps0 : F) (plus_eps : F -> F)
         (name : str) (pre l1 l2 post : list (list str)),
  Forall (foreign_header name) pre ->
  Forall not_header l1 -> Forall not_header l2 ->
  (post = [] \/ exists h r, post = [h] :: r /\ good_header h) ->
  parse_blocks F parse_flt parse_int eps0 plus_eps name
    (pre ++ [name ++ sfx_1] :: l1 ++ [name ++ sfx_2] :: l2 ++ post) =
  bind (blocks_of F parse_flt parse_int eps0 plus_eps l1) (fun b1 =>
  bind (blocks_of F parse_flt parse_int eps0 plus_eps l2) (fun b2 => Ok [b1; b2])).
Proof. exact blocks_are_samples_lines. Qed.
Print Assumptions C18_blocks_are_samples_lines.

(* the same whichever of the two headers comes first (<name>_2 before <name>_1 included):
   strand 0 is the section whose header comes first in the file *)
Theorem C18_blocks_are_samples_lines_any :
  forall (F : Type) (parse_flt : str -> res F) (parse_int : str -> res Z) (eps0 : F) (plus_eps : F -> F)
         (name sa sb : str) (pre l1 l2 post : list (list str)),
  strand_sfx sa -> strand_sfx sb ->
  Forall (foreign_header name) pre ->
  Forall not_header l1 -> Forall not_header l2 ->
  (post = [] \/ exists h r, post = [h] :: r /\ good_header h) ->
  parse_blocks F parse_flt parse_int eps0 plus_eps name
    (pre ++ [name ++ sa] :: l1 ++ [name ++ sb] :: l2 ++ post) =
  bind (blocks_of F parse_flt parse_int eps0 plus_eps l1) (fun b1 =>
  bind (blocks_of F parse_flt parse_int eps0 plus_eps l2) (fun b2 => Ok [b1; b2])).
Proof. exact blocks_are_samples_lines_any. Qed.
Print Assumptions C18_blocks_are_samples_lines_any.

(* ... one block per line in file order with the file's label, chromosome and cM end; the
   first block of a chromosome starts at 0.0001, every other at the previous file end + 0.0001 *)
Theorem C18_blocks_of_spec :
  forall (F : Type) (parse_flt : str -> res F) (parse_int : str -> res Z) (eps0 : F) (plus_eps : F -> F)
         (ls : list (list str)) (bs : list (hblock F)),
  blocks_of F parse_flt parse_int eps0 plus_eps ls = Ok bs ->
  Forall2 (line_block F parse_flt parse_int) ls bs /\ start_rule F eps0 plus_eps None bs.
Proof. exact blocks_of_spec. Qed.
Print Assumptions C18_blocks_of_spec.

Theorem C18_blocks_example :
  let name := [97; 95; 98] in
  let pre := [[[111; 95; 49]]; [[80]; [1]; [5]; [9]]; [[111; 95; 50]]] in
  let l1 := [[[80]; [1]; [5]; [10]]; [[81]; [1]; [6]; [20]]; [[80]; [2]; [7]; [5]]] in
  let l2 := [[[81]; [2]; [7]; [30]]] in
  let post := [[[122; 95; 49]]; [[80]; [1]; [5]; [9]]] in
  Forall (foreign_header name) pre /\ Forall not_header l1 /\ Forall not_header l2 /\
  parse_blocks Z toy_num toy_num 1 (fun x => x + 1) name
    (pre ++ [name ++ sfx_1] :: l1 ++ [name ++ sfx_2] :: l2 ++ post)
  = Ok [[mkhb [80] 1 1 10; mkhb [81] 1 11 20; mkhb [80] 2 1 5]; [mkhb [81] 2 1 30]].
Proof. exact blocks_example. Qed.
Print Assumptions C18_blocks_example.

(* a sample no header names: no blocks, and PlotKaryogram exits with an error *)
Theorem C18_absent_sample_empty :
  forall (F : Type) (parse_flt : str -> res F) (parse_int : str -> res Z) (eps0 : F) (plus_eps : F -> F)
         (ylo yhi : Z -> Z -> F) (fzero : F) (name : str) (lines : list (list str)),
  Forall (foreign_header name) lines ->
  parse_blocks F parse_flt parse_int eps0 plus_eps name lines = Ok [] /\
  get_blocks F parse_flt parse_int eps0 plus_eps name lines None = Ok [] /\
  plot F parse_flt parse_int eps0 plus_eps ylo yhi fzero name lines None = Err E_Exit /\
  (forall cen, exists k, plot F parse_flt parse_int eps0 plus_eps ylo yhi fzero name lines cen = Err k).
Proof. exact absent_sample_empty. Qed.
Print Assumptions C18_absent_sample_empty.

(* with a chromosome-ends table the result differs from the plain one exactly at the last
   block of every maximal run of one chromosome, whose end becomes the table's value *)
Theorem C18_extension_only_last :
  forall (F : Type) (ends : list (Z * F)) (l l' : list (hblock F)),
  ext_strand F false ends l = Ok l' ->
  length l' = length l /\
  forall i b, nth_error l i = Some b ->
    exists b', nth_error l' i = Some b' /\ same_but_end F b b' /\
      ((run_end F l i b /\ end_of F ends (h_chrom b) = Ok (h_end b')) \/
       (~ run_end F l i b /\ h_end b' = h_end b)).
Proof. exact extension_only_last. Qed.
Print Assumptions C18_extension_only_last.

Theorem C18_extension_total :
  forall (F : Type) (ends : list (Z * F)) (l : list (hblock F)),
  l <> [] -> (forall b, In b l -> exists e, end_of F ends (h_chrom b) = Ok e) ->
  exists l', ext_strand F false ends l = Ok l'.
Proof. exact extension_total. Qed.
Print Assumptions C18_extension_total.

Theorem C18_extension_of_plain :
  forall (F : Type) (parse_flt : str -> res F) (parse_int : str -> res Z) (eps0 : F) (plus_eps : F -> F)
         (name : str) (lines cl : list (list str)) (sb : list (list (hblock F))) (ends : list (Z * F)),
  get_blocks F parse_flt parse_int eps0 plus_eps name lines None = Ok sb ->
  chrom_ends F parse_flt parse_int cl [] = Ok ends ->
  get_blocks F parse_flt parse_int eps0 plus_eps name lines (Some cl) = C18_Model.mapM (ext_strand F false ends) sb.
Proof. exact extension_of_plain. Qed.
Print Assumptions C18_extension_of_plain.

(* "non-overlapping": for every order (lt, le) on F with the three transitivity laws, if the
   recorded ends of a section increase within each run of one chromosome - x < plus_eps x <=
   next end, first end >= eps0 (inc_ends) - the blocks read from it are ordered (start <= end)
   and a block ends strictly before every later block of its run starts *)
Theorem C18_blocks_ordered_disjoint :
  forall (F : Type) (parse_flt : str -> res F) (parse_int : str -> res Z) (eps0 : F) (plus_eps : F -> F)
         (lt le : F -> F -> Prop),
  (forall a b c, lt a b -> lt b c -> lt a c) ->
  (forall a b c, lt a b -> le b c -> lt a c) ->
  forall (ls : list (list str)) (bs : list (hblock F)),
  blocks_of F parse_flt parse_int eps0 plus_eps ls = Ok bs ->
  inc_ends F eps0 plus_eps lt le None bs ->
  ordered F le bs /\ run_disjoint F lt bs.
Proof. exact blocks_ordered_disjoint. Qed.
Print Assumptions C18_blocks_ordered_disjoint.

(* ... and the chromosome-end extension keeps both when no listed end is below the recorded
   end of the run's last block, which it replaces *)
Theorem C18_extension_preserves :
  forall (F : Type) (lt le : F -> F -> Prop),
  (forall a b c, le a b -> le b c -> le a c) ->
  forall (ends : list (Z * F)) (l l' : list (hblock F)),
  ext_strand F false ends l = Ok l' ->
  ordered F le l -> run_disjoint F lt l ->
  (forall i b e, nth_error l i = Some b -> run_end F l i b -> end_of F ends (h_chrom b) = Ok e -> le (h_end b) e) ->
  ordered F le l' /\ run_disjoint F lt l'.
Proof. exact extension_preserves. Qed.
Print Assumptions C18_extension_preserves.

Theorem C18_nonoverlap_example :
  let bs := [mkhb [80] 1 1 10; mkhb [81] 1 11 20; mkhb [80] 2 1 5] in
  inc_ends Z 1 (fun x => x + 1) Z.lt Z.le None bs /\
  ext_strand Z false [(1, 25); (2, 7)] bs = Ok [mkhb [80] 1 1 10; mkhb [81] 1 11 25; mkhb [80] 2 1 7] /\
  (forall i b e, nth_error bs i = Some b -> run_end Z bs i b -> end_of Z [(1, 25); (2, 7)] (h_chrom b) = Ok e -> h_end b <= e).
Proof. exact nonoverlap_example. Qed.
Print Assumptions C18_nonoverlap_example.

(* the pinned tree wrote the final chromosome's end to index tind - 1 *)
Theorem C18_legacy_extension_refuted :
  let l := [mkhb [89] 2 0 10; mkhb [67] 2 11 20] in
  ext_strand Z true [(2, 99)] l = Ok [mkhb [89] 2 0 99; mkhb [67] 2 11 20] /\
  ext_strand Z false [(2, 99)] l = Ok [mkhb [89] 2 0 10; mkhb [67] 2 11 99].
Proof. exact legacy_extension_refuted. Qed.
Print Assumptions C18_legacy_extension_refuted.

Theorem C18_legacy_extension_single_refuted :
  let l := [mkhb [89] 1 0 10; mkhb [67] 2 0 20] in
  ext_strand Z true [(1, 77); (2, 99)] l = Ok [mkhb [89] 1 0 99; mkhb [67] 2 0 20] /\
  ext_strand Z false [(1, 77); (2, 99)] l = Ok [mkhb [89] 1 0 77; mkhb [67] 2 0 99].
Proof. exact legacy_extension_single_refuted. Qed.
Print Assumptions C18_legacy_extension_single_refuted.

(* one rectangle per returned block, strand 1 then strand 2, in order, with the block's
   label and spanning start..end *)
Theorem C18_plot_draws_blocks :
  forall (F : Type) (parse_flt : str -> res F) (parse_int : str -> res Z) (eps0 : F) (plus_eps : F -> F)
         (ylo yhi : Z -> Z -> F) (fzero : F) (name : str) (lines : list (list str))
         (cen : option (list (list str))) (rs : list (str * list (F * F))),
  plot F parse_flt parse_int eps0 plus_eps ylo yhi fzero name lines cen = Ok rs ->
  exists s0 s1 rest,
    get_blocks F parse_flt parse_int eps0 plus_eps name lines cen = Ok (s0 :: s1 :: rest) /\
    Forall2 (rect_of F fzero) (s0 ++ s1) rs.
Proof. exact plot_draws_blocks. Qed.
Print Assumptions C18_plot_draws_blocks.

(* soundness of the boolean checker evaluated on GetHaplotypeBlocks' return value: for a sample
   whose two headers are in the file the answer is Ok, has exactly two strands, and each strand
   is exactly the corresponding section of the file - as many blocks as lines, in order, with
   the line's label and chromosome; start rule; every end is the recorded end, except (with a
   chromosome-ends table) the listed end at the last block of a chromosome's run - and, when
   the recorded ends increase by >= 0.0001 within each run and no listed end is below the end
   it replaces, the blocks of a run are ordered and pairwise disjoint (nonoverlap_ok) *)
Theorem C18_holds_blocks_sound :
  forall k e1 e2 tb,
  holds_blocks k = true ->
  expectation (b_tab k) (b_name k) (b_lines k) (b_cen k) = Some (Some (e1, e2, tb)) ->
  exists o1 o2, b_obs k = Ok [o1; o2] /\ strand_prop true tb e1 o1 /\ strand_prop true tb e2 o2.
Proof. exact holds_blocks_sound. Qed.
Print Assumptions C18_holds_blocks_sound.

Theorem C18_holds_blocks_entries :
  forall k e1 e2 tb,
  holds_blocks k = true ->
  expectation (b_tab k) (b_name k) (b_lines k) (b_cen k) = Some (Some (e1, e2, tb)) ->
  exists o1 o2, b_obs k = Ok [o1; o2] /\
    Forall2 (entry_block true) e1 o1 /\ Forall2 (entry_block true) e2 o2.
Proof. exact holds_blocks_entries. Qed.
Print Assumptions C18_holds_blocks_entries.

(* strand_prop unfolded: [strand_spec] (a Fixpoint over the two lists, see C18_ProofsCheck) is
   what the boolean strand_ok decides *)
Theorem C18_strand_ok_spec :
  forall chk ends exp obs prev,
  strand_ok chk ends prev exp obs = true -> strand_spec chk ends prev exp obs.
Proof. exact strand_ok_spec. Qed.
Print Assumptions C18_strand_ok_spec.

(* what nonoverlap_ok decides: every observed block has start <= end, and a block ends where
   or before every later block of its run (chromosomes of the file's lines) starts *)
Theorem C18_nonoverlap_ok_sound :
  forall exp obs,
  nonoverlap_ok exp obs = true ->
  (forall i b, (i < length exp)%nat -> nth_error obs i = Some b -> fleb (h_start b) (h_end b) = true) /\
  (forall i j xi bi bj, (i < j)%nat -> (j < length exp)%nat ->
     nth_error exp i = Some xi -> nth_error obs i = Some bi -> nth_error obs j = Some bj ->
     (forall k x, (i < k <= j)%nat -> nth_error exp k = Some x -> e_chrom x = e_chrom xi) ->
     fleb (h_end bi) (h_start bj) = true).
Proof. exact nonoverlap_ok_sound. Qed.
Print Assumptions C18_nonoverlap_ok_sound.

(* the plot relation's checker: a present sample with something to draw is drawn (no error),
   with exactly one rectangle per block line, strand 0 then strand 1, in order, with the
   line's label and the x-extent fixed by the same strand_spec (chromosome not read back) *)
Theorem C18_holds_plot_sound :
  forall k e1 e2 tb,
  holds_plot k = true ->
  expectation (p_tab k) (p_name k) (p_lines k) (p_cen k) = Some (Some (e1, e2, tb)) ->
  (e1 <> [] \/ e2 <> []) ->
  exists rs bs, p_obs k = Ok rs /\ all_some (map rect_block rs) = Some bs /\
    length rs = (length e1 + length e2)%nat /\
    strand_prop false tb e1 (firstn (length e1) bs) /\
    strand_prop false tb e2 (skipn (length e1) bs).
Proof. exact holds_plot_sound. Qed.
Print Assumptions C18_holds_plot_sound.

Theorem C18_rect_block_spec :
  forall r b, rect_block r = Some b ->
  h_pop b = fst r /\
  exists x0 y0 x1 y1 x2 y2 x3 y3 v,
    snd r = [(x0, y0); (x1, y1); (x2, y2); (x3, y3); v] /\
    feqb x0 x1 = true /\ feqb x2 x3 = true /\ h_start b = x0 /\ h_end b = x2.
Proof. exact rect_block_spec. Qed.
Print Assumptions C18_rect_block_spec.

Theorem C18_holds_plot_absent_sound :
  forall k, holds_plot k = true ->
  expectation (p_tab k) (p_name k) (p_lines k) (p_cen k) = Some None -> exists kind, p_obs k = Err kind.
Proof. exact holds_plot_absent_sound. Qed.
Print Assumptions C18_holds_plot_absent_sound.

Theorem C18_holds_blocks_absent_sound :
  forall k, holds_blocks k = true ->
  expectation (b_tab k) (b_name k) (b_lines k) (b_cen k) = Some None -> b_obs k = Ok [].
Proof. exact holds_blocks_absent_sound. Qed.
Print Assumptions C18_holds_blocks_absent_sound.

(* either order of the two headers: the checker's cut yields the two sections, and first_hdr
   (by which [expectation] decides which section must be strand 0) names the first one *)
Theorem C18_sections_of_sample_any :
  forall (name sa sb : str) (pre l1 l2 post : list (list str)),
  strand_sfx sa -> strand_sfx sb -> sa <> sb ->
  Forall (foreign_header name) pre -> Forall not_header l1 -> Forall not_header l2 ->
  (post = [] \/ exists h r, post = [h] :: r) ->
  let file := pre ++ [name ++ sa] :: l1 ++ [name ++ sb] :: l2 ++ post in
  section_of (name ++ sa) file = Some l1 /\ section_of (name ++ sb) file = Some l2 /\
  first_hdr (name ++ sa) (name ++ sb) file = Some true /\
  first_hdr (name ++ sb) (name ++ sa) file = Some false.
Proof. exact sections_of_sample_any. Qed.
Print Assumptions C18_sections_of_sample_any.

(* the sections the checker cuts out of a file of the shape quantified over in
   C18_blocks_are_samples_lines are the sample's two sections *)
Theorem C18_sections_of_sample :
  forall (name : str) (pre l1 l2 post : list (list str)),
  Forall (foreign_header name) pre -> Forall not_header l1 -> Forall not_header l2 ->
  (post = [] \/ exists h r, post = [h] :: r) ->
  let file := pre ++ [name ++ sfx_1] :: l1 ++ [name ++ sfx_2] :: l2 ++ post in
  section_of (name ++ sfx_1) file = Some l1 /\ section_of (name ++ sfx_2) file = Some l2.
Proof. exact sections_of_sample. Qed.
Print Assumptions C18_sections_of_sample.
