(* C18 - property theorems only. *)
From HV Require Import Prelude BpText C18_Model C18_Proofs.
