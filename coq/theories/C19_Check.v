(* C19 - boolean checkers evaluated by the correspondence run. *)
From HV Require Import Prelude C19_Model.

Definition strs_eqb := list_eqb str_eqb.
Definition incl_b (a b : list str) : bool := forallb (fun x => mem x b) a.
Definition set_eqb (a b : list str) : bool := incl_b a b && incl_b b a.

(* -------- relation resolve: what the entry point receives ----------------- *)

(* one CLI invocation with the entry point replaced by a recorder *)
Record inv := mkinv {
  v_sopts : list str; v_sfile : option str;      (* -s/--sample ..., -S/--samples-file content *)
  v_iopts : list str; v_ifile : option str;      (* -i/--id ...,     -I/--ids-file content *)
  v_exit : Z;                                    (* exit code reported by click *)
  v_got : option (option (list str) * option (list str));
     (* (samples, ids) the entry point was called with; None: it was not called *)
  v_kinds : Z * Z;
     (* Python type of the two collections: 0 None, 1 set, 2 tuple, 3 anything else *)
  v_usage : bool
     (* the command printed click's usage-error text ("Usage: ..." and "Error: ...") *)
}.

Record rcase := mkr {
  r_cmd : Z;            (* 0 transform, 1 simphenotype, 2 ld *)
  r_a : inv;
  r_b : option inv      (* the same selection spelled the other way (files <-> repeated options) *)
}.

(* ids are a set for transform and simphenotype, a tuple for ld; samples always a set *)
Definition coll_eqb (ordered : bool) (a b : option (list str)) : bool :=
  opt_eqb (if ordered then strs_eqb else set_eqb) a b.

Definition got_eqb (cmd : Z) (a b : option (list str) * option (list str)) : bool :=
  coll_eqb false (fst a) (fst b) && coll_eqb (cmd =? 2) (snd a) (snd b).

Definition model_inv (v : inv) : res (option (list str) * option (list str)) :=
  front_end false (v_sopts v) (v_sfile v) (v_iopts v) (v_ifile v) (fun s i => Ok (s, i)).

(* samples are handed over as a set, ids as a set (transform, simphenotype) or a tuple (ld) *)
Definition kind_of (tuple : bool) (c : option (list str)) : Z :=
  match c with None => 0 | Some _ => if tuple then 2 else 1 end.

Definition agree_inv (cmd : Z) (v : inv) : bool :=
  match model_inv v, v_got v with
  | Ok m, Some g => got_eqb cmd m g && (v_exit v =? 0)
                    && (fst (v_kinds v) =? kind_of false (fst m))
                    && (snd (v_kinds v) =? kind_of (cmd =? 2) (snd m))
  | Err k, None => v_exit v =? exit_code (@Err unit k)
  | _, _ => false
  end.

Definition clean (s : str) : bool := forallb (fun c => negb (is_term c)) s.

(* the text [t] is the list [ids] written in shape [sh] *)
Definition text_eqb : str -> str -> bool := list_eqb Z.eqb.
Definition written_as (sh : shape) (t : str) (ids : list str) : bool :=
  match file_of sh ids with Some f => text_eqb t f | None => false end.

(* how the file [t] of one invocation relates to the repeated options [opts] of the other
   ([other] = the repeated options given next to the file): 1 the file shows exactly the
   list (LF, unterminated last line, CRLF, CRLF unterminated), 2 the list followed by one
   blank line, 0 anything else *)
Definition file_matches (opts : list str) (t : str) (other : list str) : Z :=
  if negb (strs_eqb opts []) && forallb clean opts && strs_eqb other [] then
    if existsb (fun sh => written_as sh t opts) strict_shapes then 1
    else if existsb (fun sh => written_as sh t opts) blank_shapes then 2
    else 0
  else 0.

(* [b] spells the selection [a] makes with repeated options as a file, or the
   other way round, or identically: 0 no, 1 the same list, 2 the same list plus a blank line *)
Definition same_selection (ao : list str) (af : option str) (bo : list str) (bf : option str) : Z :=
  match af, bf with
  | None, None => if strs_eqb ao bo then 1 else 0
  | None, Some t => file_matches ao t bo
  | Some t, None => file_matches bo t ao
  | Some t, Some t' => if text_eqb t t' && strs_eqb ao [] && strs_eqb bo [] then 1 else 0
  end.

(* an empty entry names nothing: collections are compared without it when the file ends in a
   blank line *)
Definition drop_empty (l : list str) : list str := filter (fun s => negb (str_eqb s [])) l.
Definition coll_equiv (blank ordered : bool) (a b : option (list str)) : bool :=
  if blank then coll_eqb ordered (option_map drop_empty a) (option_map drop_empty b)
  else coll_eqb ordered a b.
Definition got_equiv (cmd ms mi : Z) (a b : option (list str) * option (list str)) : bool :=
  coll_equiv (ms =? 2) false (fst a) (fst b) && coll_equiv (mi =? 2) (cmd =? 2) (snd a) (snd b).

Definition holds_inv (v : inv) : bool :=
  (* both forms of sample selection: usage error, entry point not reached *)
  (match v_sopts v, v_sfile v with
   | _ :: _, Some _ => (v_exit v =? 2) && v_usage v && match v_got v with None => true | Some _ => false end
   | _, _ => true
   end)
  (* a run that did not reach the entry point exits non-zero *)
  && (match v_got v with None => negb (v_exit v =? 0) | Some _ => true end).

Definition holds_resolve (k : rcase) : bool :=
  holds_inv (r_a k)
  && match r_b k with
     | None => true
     | Some b =>
       holds_inv b
       && (let ms := same_selection (v_sopts (r_a k)) (v_sfile (r_a k)) (v_sopts b) (v_sfile b) in
           let mi := same_selection (v_iopts (r_a k)) (v_ifile (r_a k)) (v_iopts b) (v_ifile b) in
           if negb (ms =? 0) && negb (mi =? 0)
           then (v_exit (r_a k) =? v_exit b)
                && opt_eqb (got_equiv (r_cmd k) ms mi) (v_got (r_a k)) (v_got b)
                && match v_got b with Some _ => true | None => false end
           else true)
     end.

Definition model_resolve (k : rcase) :=
  (model_inv (r_a k), match r_b k with Some b => Some (model_inv b) | None => None end).

Definition check_resolve (k : rcase) : bool * bool :=
  (agree_inv (r_cmd k) (r_a k) && match r_b k with Some b => agree_inv (r_cmd k) b | None => true end,
   holds_resolve k).

(* -------- relation cli: whole subcommands -------------------------------- *)

Definition zl_eqb := list_eqb Z.eqb.
Definition memz (x : Z) (l : list Z) : bool := existsb (Z.eqb x) l.

Record ccase := mkcc {
  c_cmd : Z;                         (* 0 transform 1 simphenotype 2 ld 3 index 4 clump 5 simgenotype 6 karyogram *)
  c_both : bool;                     (* both forms of sample selection on the command line *)
  c_ids_both : bool;                 (* --id next to --ids-file (the property does not say which wins) *)
  c_from_gts : bool;                 (* ld --from-gts: the IDs name variants of the genotypes file *)
  c_exit : Z;                        (* CLI exit code *)
  c_raised : bool;                   (* an exception (other than SystemExit 0) left the command *)
  c_out : list Z;                    (* everything the CLI run wrote: interned lines of every output file *)
  c_py : res (list Z);               (* the documented Python entry point on the same parameters *)
  c_alt : option (Z * list Z);       (* the command line respelled (files <-> repeated options, short <-> long) *)
  c_ref : option (Z * list Z * list Z);
     (* the same command line without the entries that name nothing: exit code, output, messages *)
  c_verbose : bool;                  (* the verbosity lets warnings through (default, INFO, WARNING, DEBUG) *)
  c_logs : list (Z * Z * list Z);
     (* what the run reported = what it printed: the log lines of level >= WARNING (30 40 50) and the library
        warnings (25) in the text click's CliRunner captured, as (level, interned text, interned words) *)
  c_req_s : option (list Z); c_known_s : list Z; c_out_s : option (list Z);   (* samples: requested, in the data, in the output *)
  c_sel_i : option (list Z);         (* ids as listed by the user *)
  c_req_i : option (list Z); c_known_i : list Z; c_out_i : option (list Z);   (* ids: requested (+ target), in the data, in the output *)
  c_missing : list Z;                (* output files the subcommand documents that do not exist after the CLI run *)
  c_py_missing : list Z;             (* ... after the call of the Python entry point *)
  c_index : option (list tline);
     (* index --no-sort writing into an existing directory: what tabix sees of the data lines of the input *)
  c_calls : list call;
     (* the getLogger calls made in this process before the CLI run: earlier runs of the case (history, the
        other runs of the case in their drawn order), oldest first *)
  c_call : call;                     (* the CLI run's own: (subcommand, -v level, its sys.stderr) *)
  c_recs : list (Z * Z);
     (* the records created on the subcommand's logger during the CLI run: (level, interned text) *)
  c_printed : list (Z * Z)
     (* the log lines the CLI run printed (what click's CliRunner captured of stderr), parsed back into
        (level, interned text) *)
}.

(* the entries of the output were asked for and exist; nothing else appears *)
Definition only_requested (req : option (list Z)) (known : list Z) (out : option (list Z)) : bool :=
  match out with
  | None => true
  | Some o =>
    forallb (fun x => memz x known) o
    && match req with
       | None | Some [] => true       (* no restriction / empty file: section 10 of DESIGN.md *)
       | Some r => forallb (fun x => memz x r) o
       end
  end.

(* ---- "unknown IDs or samples are reported and ignored" ------------------- *)

Definition unknown_of (sel : option (list Z)) (known : list Z) : list Z :=
  match sel with None => [] | Some l => filter (fun x => negb (memz x known)) l end.

Definition log_level (r : Z * Z * list Z) : Z := fst (fst r).
Definition log_text (r : Z * Z * list Z) : Z := snd (fst r).
Definition log_words (r : Z * Z * list Z) : list Z := snd r.

(* the run says something it does not say without the unknown entries *)
Definition new_message (logs : list (Z * Z * list Z)) (ref_msgs : list Z) : bool :=
  existsb (fun r => (25 <=? log_level r) && negb (memz (log_text r) ref_msgs)) logs.
(* a warning (or error) of the program names the entry *)
Definition named (logs : list (Z * Z * list Z)) (x : Z) : bool :=
  existsb (fun r => (30 <=? log_level r) && memz x (log_words r)) logs.

(* how unknown entries are reported: 1 = a message that is absent without them, 2 = moreover a warning
   names one of them (samples of transform / simphenotype / ld and the variant IDs of ld --from-gts: the
   commands list "the first few" of the sorted difference), 3 = moreover every one of them (when there are
   at most five: the messages list five) is named by a warning (the IDs of transform and simphenotype and
   the haplotype IDs of ld), 0 = not judged *)
Definition demand_samples (k : ccase) : Z :=
  if (0 <=? c_cmd k) && (c_cmd k <=? 2) then 2 else 0.
Definition demand_ids (k : ccase) : Z :=
  if (c_cmd k =? 0) || (c_cmd k =? 1) then 3
  else if c_cmd k =? 2 then (if c_from_gts k then 2 else 3)
  else 0.

Definition reported (demand : Z) (unk : list Z) (logs : list (Z * Z * list Z)) (ref_msgs : list Z) : bool :=
  match unk with
  | [] => true
  | _ => ((demand <? 1) || new_message logs ref_msgs)
         && ((demand <? 2) || existsb (named logs) unk)
         && ((demand <? 3) || (5 <? lenZ unk) || forallb (named logs) unk)
  end.

(* against the run without the unknown entries: same exit status, same output; and if it completes and
   warnings are not switched off, the unknown entries are reported *)
Definition holds_unknown (k : ccase) : bool :=
  match c_ref k with
  | None => true
  | Some (e, o, msgs) =>
    (c_exit k =? e) && (negb (e =? 0) || zl_eqb (c_out k) o)
    && (negb (c_exit k =? 0) || negb (c_verbose k)
        || (reported (demand_samples k) (unknown_of (c_req_s k) (c_known_s k)) (c_logs k) msgs
            && reported (demand_ids k) (unknown_of (c_sel_i k) (c_known_i k)) (c_logs k) msgs))
  end.

(* ---- "a failing run exits non-zero" -------------------------------------- *)

Definition is_nil {A} (l : list A) : bool := match l with [] => true | _ => false end.
Definition is_err {A} (r : res A) : bool := match r with Ok _ => false | Err _ => true end.

(* the Python entry point is comparable with the command line (one form of sample selection, --id not
   next to --ids-file: the property does not say which of the two wins) *)
Definition py_judged (k : ccase) : bool := negb (c_both k) && negb (c_ids_both k).

(* a run is failing when an output file the subcommand documents is absent afterwards, or the
   documented Python entry point, given the same parameters, raises or leaves a documented output out *)
Definition failing (k : ccase) : bool :=
  negb (is_nil (c_missing k))
  || (py_judged k && (is_err (c_py k) || negb (is_nil (c_py_missing k)))).

Definition holds_exit (k : ccase) : bool := negb (failing k) || negb (c_exit k =? 0).

Definition holds_cli (k : ccase) : bool :=
  holds_exit k &&
  (if c_both k then (c_exit k =? 2)
   else if c_ids_both k then true
   else match c_py k with
        | Ok o => (c_exit k =? 0) && zl_eqb (c_out k) o
        | Err _ => negb (c_exit k =? 0)
        end)
  && (negb (c_raised k) || negb (c_exit k =? 0))
  && (match c_alt k with
      | Some (e, o) => (e =? c_exit k) && (negb (e =? 0) || zl_eqb o (c_out k))
      | None => true end)
  && holds_unknown k
  && (negb (c_exit k =? 0)
      || (only_requested (c_req_s k) (c_known_s k) (c_out_s k)
          && only_requested (c_req_i k) (c_known_i k) (c_out_i k))).

(* model: the command line is the front end composed with the entry point (for --id next to --ids-file
   the entry point is run with the entries of the file: the file wins, as in resolve_ids) *)
Definition model_cli (k : ccase) : Z * option (list Z) :=
  let r := if c_both k then Err E_Usage else c_py k in
  (exit_code r, match r with Ok o => Some o | Err _ => None end).

(* printed in replay files: the above and, for index --no-sort, what the model of index_haps' tail predicts *)
Definition model_cli_shown (k : ccase) : Z * option (list Z) * option (res files) :=
  (model_cli k, option_map (index_nosort false) (c_index k)).

(* index --no-sort: the model of index_haps' tail decides, from the order of the data lines alone, whether
   the run completes (both documented files written) or fails (exit status 1, the .tbi is absent) *)
Definition agree_index (k : ccase) : bool :=
  match c_index k with
  | None => true
  | Some ls =>
    match index_nosort false ls with
    | Ok f => (c_exit k =? 0) && is_nil (missing_of f) && is_nil (c_missing k)
    | Err e => (c_exit k =? exit_code (@Err unit e)) && negb (is_nil (c_missing k))
    end
  end.

(* what the run printed: every record created on the subcommand's logger appears among the printed
   lines exactly when the model of haptools/logging.py says it is shown, given the getLogger calls made
   earlier in the process (root logger at WARNING) *)
Definition ROOT_LEVEL : Z := 30.
Definition rec_eqb : Z * Z -> Z * Z -> bool := pair_eqb Z.eqb Z.eqb.
Definition mem_rec (r : Z * Z) (l : list (Z * Z)) : bool := existsb (rec_eqb r) l.
Definition agree_log (k : ccase) : bool :=
  forallb (fun r => Bool.eqb (run_shows false ROOT_LEVEL (c_calls k) (c_call k) (fst r)) (mem_rec r (c_printed k)))
          (c_recs k).

Definition check_cli (k : ccase) : bool * bool :=
  (let '(e, o) := model_cli k in
   (e =? c_exit k) && match o with Some o => zl_eqb o (c_out k) | None => true end && agree_index k
   && agree_log k,
   holds_cli k).
