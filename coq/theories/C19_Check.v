(* C19 - boolean checkers evaluated by the correspondence run. *)
From HV Require Import Prelude C19_Model.

Definition strs_eqb := list_eqb str_eqb.
Definition incl_b (a b : list str) : bool := forallb (fun x => mem x b) a.
Definition set_eqb (a b : list str) : bool := incl_b a b && incl_b b a.

(* -------- relation resolve: what the entry point receives ----------------- *)

(* one CLI invocation with the entry point replaced by a recorder *)
Record inv := mkinv {
  v_sopts : list str; v_sfile : option str;      (* -s/--sample ..., -S/--samples-file content *)
  v_iopts : list str; v_ifile : option str;      (* -i/--id ...,     -I/--ids-file content *)
  v_exit : Z;                                    (* exit code reported by click *)
  v_got : option (option (list str) * option (list str));
     (* (samples, ids) the entry point was called with; None: it was not called *)
  v_kinds : Z * Z
     (* Python type of the two collections: 0 None, 1 set, 2 tuple, 3 anything else *)
}.

Record rcase := mkr {
  r_cmd : Z;            (* 0 transform, 1 simphenotype, 2 ld *)
  r_a : inv;
  r_b : option inv      (* the same selection spelled the other way (files <-> repeated options) *)
}.

(* ids are a set for transform and simphenotype, a tuple for ld; samples always a set *)
Definition coll_eqb (ordered : bool) (a b : option (list str)) : bool :=
  opt_eqb (if ordered then strs_eqb else set_eqb) a b.

Definition got_eqb (cmd : Z) (a b : option (list str) * option (list str)) : bool :=
  coll_eqb false (fst a) (fst b) && coll_eqb (cmd =? 2) (snd a) (snd b).

Definition model_inv (v : inv) : res (option (list str) * option (list str)) :=
  front_end false (v_sopts v) (v_sfile v) (v_iopts v) (v_ifile v) (fun s i => Ok (s, i)).

(* samples are handed over as a set, ids as a set (transform, simphenotype) or a tuple (ld) *)
Definition kind_of (tuple : bool) (c : option (list str)) : Z :=
  match c with None => 0 | Some _ => if tuple then 2 else 1 end.

Definition agree_inv (cmd : Z) (v : inv) : bool :=
  match model_inv v, v_got v with
  | Ok m, Some g => got_eqb cmd m g && (v_exit v =? 0)
                    && (fst (v_kinds v) =? kind_of false (fst m))
                    && (snd (v_kinds v) =? kind_of (cmd =? 2) (snd m))
  | Err k, None => v_exit v =? exit_code (@Err unit k)
  | _, _ => false
  end.

Definition clean (s : str) : bool := forallb (fun c => negb (is_term c)) s.

(* [b] spells the selection [a] makes with repeated options as a file, or the
   other way round, or identically *)
Definition same_selection (ao : list str) (af : option str) (bo : list str) (bf : option str) : bool :=
  match af, bf with
  | None, None => strs_eqb ao bo
  | None, Some t => negb (strs_eqb ao []) && forallb clean ao && list_eqb Z.eqb t (join_lines ao)
                    && strs_eqb bo []
  | Some t, None => negb (strs_eqb bo []) && forallb clean bo && list_eqb Z.eqb t (join_lines bo)
                    && strs_eqb ao []
  | Some t, Some t' => list_eqb Z.eqb t t' && strs_eqb ao [] && strs_eqb bo []
  end.

Definition holds_inv (v : inv) : bool :=
  (* both forms of sample selection: usage error, entry point not reached *)
  (match v_sopts v, v_sfile v with
   | _ :: _, Some _ => (v_exit v =? 2) && match v_got v with None => true | Some _ => false end
   | _, _ => true
   end)
  (* a run that did not reach the entry point exits non-zero *)
  && (match v_got v with None => negb (v_exit v =? 0) | Some _ => true end).

Definition holds_resolve (k : rcase) : bool :=
  holds_inv (r_a k)
  && match r_b k with
     | None => true
     | Some b =>
       holds_inv b
       && (if same_selection (v_sopts (r_a k)) (v_sfile (r_a k)) (v_sopts b) (v_sfile b)
              && same_selection (v_iopts (r_a k)) (v_ifile (r_a k)) (v_iopts b) (v_ifile b)
           then (v_exit (r_a k) =? v_exit b)
                && opt_eqb (got_eqb (r_cmd k)) (v_got (r_a k)) (v_got b)
                && match v_got b with Some _ => true | None => false end
           else true)
     end.

Definition model_resolve (k : rcase) :=
  (model_inv (r_a k), match r_b k with Some b => Some (model_inv b) | None => None end).

Definition check_resolve (k : rcase) : bool * bool :=
  (agree_inv (r_cmd k) (r_a k) && match r_b k with Some b => agree_inv (r_cmd k) b | None => true end,
   holds_resolve k).

(* -------- relation cli: whole subcommands -------------------------------- *)

Definition zl_eqb := list_eqb Z.eqb.
Definition memz (x : Z) (l : list Z) : bool := existsb (Z.eqb x) l.

Record ccase := mkcc {
  c_cmd : Z;                         (* 0 transform 1 simphenotype 2 ld 3 index 4 clump 5 simgenotype 6 karyogram *)
  c_both : bool;                     (* both forms of sample selection on the command line *)
  c_exit : Z;                        (* CLI exit code *)
  c_raised : bool;                   (* an exception (other than SystemExit 0) left the command *)
  c_out : list Z;                    (* everything the CLI run wrote: interned lines of every output file + stdout *)
  c_py : res (list Z);               (* the documented Python entry point on the same parameters *)
  c_alt : option (Z * list Z);       (* the command line respelled (files <-> repeated options, short <-> long) *)
  c_req_s : option (list Z); c_known_s : list Z; c_out_s : option (list Z);   (* samples: requested, in the data, in the output *)
  c_req_i : option (list Z); c_known_i : list Z; c_out_i : option (list Z)    (* ids: same *)
}.

(* the entries of the output were asked for and exist; nothing else appears *)
Definition only_requested (req : option (list Z)) (known : list Z) (out : option (list Z)) : bool :=
  match out with
  | None => true
  | Some o =>
    forallb (fun x => memz x known) o
    && match req with
       | None | Some [] => true       (* no restriction / empty file: section 10 of DESIGN.md *)
       | Some r => forallb (fun x => memz x r) o
       end
  end.

Definition holds_cli (k : ccase) : bool :=
  (if c_both k then (c_exit k =? 2)
   else match c_py k with
        | Ok o => (c_exit k =? 0) && zl_eqb (c_out k) o
        | Err _ => negb (c_exit k =? 0)
        end)
  && (negb (c_raised k) || negb (c_exit k =? 0))
  && (match c_alt k with
      | Some (e, o) => (e =? c_exit k) && (negb (e =? 0) || zl_eqb o (c_out k))
      | None => true end)
  && (negb (c_exit k =? 0)
      || (only_requested (c_req_s k) (c_known_s k) (c_out_s k)
          && only_requested (c_req_i k) (c_known_i k) (c_out_i k))).

(* model: the command line is the front end composed with the entry point *)
Definition model_cli (k : ccase) : Z * option (list Z) :=
  let r := if c_both k then Err E_Usage else c_py k in
  (exit_code r, match r with Ok o => Some o | Err _ => None end).

Definition check_cli (k : ccase) : bool * bool :=
  (let '(e, o) := model_cli k in
   (e =? c_exit k) && match o with Some o => zl_eqb o (c_out k) | None => true end,
   holds_cli k).
