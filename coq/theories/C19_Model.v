(* C19 - model of the option post-processing that haptools/__main__.py performs
   for transform, simphenotype and ld before calling the Python entry point:
   -s/--sample (repeated) vs -S/--samples-file, -i/--id (repeated) vs
   -I/--ids-file (after the fix: a single click.File("r")), str.splitlines,
   the usage error for both sample forms, the exit status click derives from
   the outcome, and the by-membership selection the entry points perform with
   the resolved collections; and, for "a failing run exits non-zero", the tail of
   index_haps (haptools/index.py) at the level of the files it creates, with the
   order of lines tabix accepts.  Strings are lists of code points. No proofs. *)
From HV Require Import Prelude.

Definition str := list Z.
Definition str_eqb : str -> str -> bool := list_eqb Z.eqb.

Definition E_Usage : Z := 16.
Definition E_Type : Z := 4.

(* the line boundaries of str.splitlines *)
Definition is_term (c : Z) : bool :=
  (c =? 10) || (c =? 13) || (c =? 11) || (c =? 12) || (c =? 28) || (c =? 29) || (c =? 30)
  || (c =? 133) || (c =? 8232) || (c =? 8233).

(* [cur]: the characters of the current line, reversed; [after_cr]: the
   previous character was \r, so a \n now belongs to the same boundary *)
Fixpoint split_from (cur : str) (after_cr : bool) (s : str) : list str :=
  match s with
  | [] => match cur with [] => [] | _ => [rev cur] end
  | c :: r =>
      if after_cr && (c =? 10) then split_from cur false r
      else if is_term c then rev cur :: split_from [] (c =? 13) r
      else split_from (c :: cur) false r
  end.

Definition splitlines (s : str) : list str := split_from [] false s.

(* a one-entry-per-line file as a user (or printf '%s\n') writes it *)
Definition join_lines (ids : list str) : str := flat_map (fun s => s ++ [10]) ids.

(* Windows line ends: \r\n is one boundary *)
Definition join_crlf (ids : list str) : str := flat_map (fun s => s ++ [13; 10]) ids.

(* every line but the last is terminated; a last line that is empty would not
   be visible in such a file, so that list has no unterminated writing *)
Definition join_sep_with (term : str) (ids : list str) : option str :=
  match rev ids with
  | [] => None
  | [] :: _ => None
  | last :: front => Some (flat_map (fun s => s ++ term) (rev front) ++ last)
  end.

(* the ways a user (editor, printf, "\n".join, a spreadsheet export on Windows)
   writes the list [ids] into a one-entry-per-line file *)
Inductive shape := LF | NoFinal | CRLF | CRLFNoFinal | LFBlank | CRLFBlank.

Definition file_of (sh : shape) (ids : list str) : option str :=
  match sh with
  | LF => Some (join_lines ids)
  | NoFinal => join_sep_with [10] ids
  | CRLF => Some (join_crlf ids)
  | CRLFNoFinal => join_sep_with [13; 10] ids
  | LFBlank => Some (join_lines ids ++ [10])            (* one blank line at the end *)
  | CRLFBlank => Some (join_crlf ids ++ [13; 10])
  end.

(* the file shows exactly the list *)
Definition strict_shapes : list shape := [LF; NoFinal; CRLF; CRLFNoFinal].
(* the file shows the list followed by one empty entry *)
Definition blank_shapes : list shape := [LFBlank; CRLFBlank].

(* what the entry point receives: None = no restriction *)
Definition from_opts (opts : list str) : option (list str) :=
  match opts with [] => None | _ => Some opts end.

(* samples: transform / simphenotype / ld are identical *)
Definition resolve_samples (opts : list str) (file : option str) : res (option (list str)) :=
  match opts, file with
  | _ :: _, Some _ => Err E_Usage
  | _, Some txt => Ok (Some (splitlines txt))
  | _, None => Ok (from_opts opts)
  end.

(* ids: the file wins when both are given (no usage error is raised).
   [legacy = true]: the pinned declaration type=str, multiple=True hands the
   function a tuple of path strings, and `with ids_file` raises TypeError
   as soon as one -I is given *)
Definition resolve_ids (legacy : bool) (opts : list str) (file : option str) : res (option (list str)) :=
  match file with
  | Some txt => if legacy then Err E_Type else Ok (Some (splitlines txt))
  | None => Ok (from_opts opts)
  end.

(* the collection handed over is a set (a tuple for ld's ids): membership *)
Definition mem (x : str) (l : list str) : bool := existsb (str_eqb x) l.

(* selection by membership, in the data's own order: Genotypes.read(samples=),
   Haplotypes.read(haplotypes=), the .snplist filter *)
Definition select {X} (key : X -> str) (wanted : option (list str)) (rows : list X) : list X :=
  match wanted with
  | None => rows
  | Some w => filter (fun r => mem (key r) w) rows
  end.

(* exit status: 0 iff nothing escapes; click turns UsageError into 2 *)
Definition exit_code {A} (r : res A) : Z :=
  match r with
  | Ok _ => 0
  | Err k => if k =? E_Usage then 2 else 1
  end.

(* the whole front end: resolve both, then call the entry point [run] *)
Definition front_end {A} (legacy : bool) (sopts : list str) (sfile : option str)
  (iopts : list str) (ifile : option str)
  (run : option (list str) -> option (list str) -> res A) : res A :=
  bind (resolve_samples sopts sfile) (fun s =>
  bind (resolve_ids legacy iopts ifile) (fun i => run s i)).

(* ---- "a failing run exits non-zero": haptools index ----------------------- *)

(* The tail of index_haps (haptools/index.py) at the level of the files it creates.
   index copies its input to a temporary file, lets pysam.tabix_index compress and index
   that file, and moves <tmp>.gz and <tmp>.gz.tbi to the documented output locations
   <out>.gz and <out>.gz.tbi.  When tabix refuses the file (lines not in an order it
   accepts) the `except OSError` handler only logs "Indexing failed. Is your file
   properly sorted?" and carries on; the run nevertheless fails, because the copy of the
   .tbi that was never written raises FileNotFoundError. *)
Definition E_OS : Z := 15.

Inductive ipath := TmpPlain | TmpGz | TmpTbi | OutGz | OutTbi.

Definition ipath_eqb (a b : ipath) : bool :=
  match a, b with
  | TmpPlain, TmpPlain | TmpGz, TmpGz | TmpTbi, TmpTbi | OutGz, OutGz | OutTbi, OutTbi => true
  | _, _ => false
  end.

(* the files that exist *)
Definition files := list ipath.
Definition present (p : ipath) (f : files) : bool := existsb (ipath_eqb p) f.
Definition without (p : ipath) (f : files) : files := filter (fun q => negb (ipath_eqb p q)) f.

(* shutil.copy / Path.unlink *)
Definition copy_file (src dst : ipath) (f : files) : res files :=
  if present src f then Ok (dst :: without dst f) else Err E_OS.
Definition unlink_file (p : ipath) (f : files) : res files :=
  if present p f then Ok (without p f) else Err E_OS.

(* pysam.tabix_index: bgzip replaces the plain file by <tmp>.gz, then the index is built;
   a refused file leaves no .tbi behind (OSError "building of index for ... failed": logged) *)
Definition tabix_step (accepted : bool) (f : files) : files :=
  let f' := TmpGz :: without TmpPlain f in
  if accepted then TmpTbi :: f' else f'.

(* [guarded = false]: the code as it is - copy, then unlink, unconditionally.
   [guarded = true]: a variant that moves a temporary file only `if tmp_file.exists()` *)
Definition move_file (guarded : bool) (src dst : ipath) (f : files) : res files :=
  if guarded && negb (present src f) then Ok f
  else bind (copy_file src dst f) (unlink_file src).

Definition index_tail (guarded accepted : bool) : res files :=
  let f := tabix_step accepted [TmpPlain] in
  bind (move_file guarded TmpGz OutGz f) (move_file guarded TmpTbi OutTbi).

(* the output files `haptools index` documents *)
Definition index_documented : list ipath := [OutGz; OutTbi].
Definition missing_of (f : files) : list ipath := filter (fun p => negb (present p f)) index_documented.

(* what tabix sees of a data line with seq_col=1, start_col=2, end_col=3: (sequence name,
   start, end).  Accepted: every sequence name occupies one contiguous block of lines,
   starts never decrease inside a block, no record ends before it begins *)
Definition tline := (Z * Z * Z)%type.
Definition memZ (x : Z) (l : list Z) : bool := existsb (Z.eqb x) l.

Fixpoint tabix_walk (seen : list Z) (cur : option (Z * Z)) (ls : list tline) : bool :=
  match ls with
  | [] => true
  | (q, s, e) :: r =>
    (s - 1 <=? e) &&
    match cur with
    | None => tabix_walk seen (Some (q, s)) r
    | Some (c, last) =>
      if q =? c then (last <=? s) && tabix_walk seen (Some (q, s)) r
      else negb (memZ q (c :: seen)) && tabix_walk (c :: seen) (Some (q, s)) r
    end
  end.

Definition tabix_accepts (ls : list tline) : bool := tabix_walk [] None ls.

(* haptools index --no-sort on a file whose data lines are [ls] *)
Definition index_nosort (guarded : bool) (ls : list tline) : res files :=
  index_tail guarded (tabix_accepts ls).
