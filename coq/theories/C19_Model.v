(* C19 - model of the option post-processing that haptools/__main__.py performs
   for transform, simphenotype and ld before calling the Python entry point:
   -s/--sample (repeated) vs -S/--samples-file, -i/--id (repeated) vs
   -I/--ids-file (after the fix: a single click.File("r")), str.splitlines,
   the usage error for both sample forms, the exit status click derives from
   the outcome, and the by-membership selection the entry points perform with
   the resolved collections.  Strings are lists of code points. No proofs. *)
From HV Require Import Prelude.

Definition str := list Z.
Definition str_eqb : str -> str -> bool := list_eqb Z.eqb.

Definition E_Usage : Z := 16.
Definition E_Type : Z := 4.

(* the line boundaries of str.splitlines *)
Definition is_term (c : Z) : bool :=
  (c =? 10) || (c =? 13) || (c =? 11) || (c =? 12) || (c =? 28) || (c =? 29) || (c =? 30)
  || (c =? 133) || (c =? 8232) || (c =? 8233).

(* [cur]: the characters of the current line, reversed; [after_cr]: the
   previous character was \r, so a \n now belongs to the same boundary *)
Fixpoint split_from (cur : str) (after_cr : bool) (s : str) : list str :=
  match s with
  | [] => match cur with [] => [] | _ => [rev cur] end
  | c :: r =>
      if after_cr && (c =? 10) then split_from cur false r
      else if is_term c then rev cur :: split_from [] (c =? 13) r
      else split_from (c :: cur) false r
  end.

Definition splitlines (s : str) : list str := split_from [] false s.

(* a one-entry-per-line file as a user (or printf '%s\n') writes it *)
Definition join_lines (ids : list str) : str := flat_map (fun s => s ++ [10]) ids.

(* Windows line ends: \r\n is one boundary *)
Definition join_crlf (ids : list str) : str := flat_map (fun s => s ++ [13; 10]) ids.

(* every line but the last is terminated; a last line that is empty would not
   be visible in such a file, so that list has no unterminated writing *)
Definition join_sep_with (term : str) (ids : list str) : option str :=
  match rev ids with
  | [] => None
  | [] :: _ => None
  | last :: front => Some (flat_map (fun s => s ++ term) (rev front) ++ last)
  end.

(* the ways a user (editor, printf, "\n".join, a spreadsheet export on Windows)
   writes the list [ids] into a one-entry-per-line file *)
Inductive shape := LF | NoFinal | CRLF | CRLFNoFinal | LFBlank | CRLFBlank.

Definition file_of (sh : shape) (ids : list str) : option str :=
  match sh with
  | LF => Some (join_lines ids)
  | NoFinal => join_sep_with [10] ids
  | CRLF => Some (join_crlf ids)
  | CRLFNoFinal => join_sep_with [13; 10] ids
  | LFBlank => Some (join_lines ids ++ [10])            (* one blank line at the end *)
  | CRLFBlank => Some (join_crlf ids ++ [13; 10])
  end.

(* the file shows exactly the list *)
Definition strict_shapes : list shape := [LF; NoFinal; CRLF; CRLFNoFinal].
(* the file shows the list followed by one empty entry *)
Definition blank_shapes : list shape := [LFBlank; CRLFBlank].

(* what the entry point receives: None = no restriction *)
Definition from_opts (opts : list str) : option (list str) :=
  match opts with [] => None | _ => Some opts end.

(* samples: transform / simphenotype / ld are identical *)
Definition resolve_samples (opts : list str) (file : option str) : res (option (list str)) :=
  match opts, file with
  | _ :: _, Some _ => Err E_Usage
  | _, Some txt => Ok (Some (splitlines txt))
  | _, None => Ok (from_opts opts)
  end.

(* ids: the file wins when both are given (no usage error is raised).
   [legacy = true]: the pinned declaration type=str, multiple=True hands the
   function a tuple of path strings, and `with ids_file` raises TypeError
   as soon as one -I is given *)
Definition resolve_ids (legacy : bool) (opts : list str) (file : option str) : res (option (list str)) :=
  match file with
  | Some txt => if legacy then Err E_Type else Ok (Some (splitlines txt))
  | None => Ok (from_opts opts)
  end.

(* the collection handed over is a set (a tuple for ld's ids): membership *)
Definition mem (x : str) (l : list str) : bool := existsb (str_eqb x) l.

(* selection by membership, in the data's own order: Genotypes.read(samples=),
   Haplotypes.read(haplotypes=), the .snplist filter *)
Definition select {X} (key : X -> str) (wanted : option (list str)) (rows : list X) : list X :=
  match wanted with
  | None => rows
  | Some w => filter (fun r => mem (key r) w) rows
  end.

(* exit status: 0 iff nothing escapes; click turns UsageError into 2 *)
Definition exit_code {A} (r : res A) : Z :=
  match r with
  | Ok _ => 0
  | Err k => if k =? E_Usage then 2 else 1
  end.

(* the whole front end: resolve both, then call the entry point [run] *)
Definition front_end {A} (legacy : bool) (sopts : list str) (sfile : option str)
  (iopts : list str) (ifile : option str)
  (run : option (list str) -> option (list str) -> res A) : res A :=
  bind (resolve_samples sopts sfile) (fun s =>
  bind (resolve_ids legacy iopts ifile) (fun i => run s i)).
