(* C19 - model of the option post-processing that haptools/__main__.py performs
   for transform, simphenotype and ld before calling the Python entry point:
   -s/--sample (repeated) vs -S/--samples-file, -i/--id (repeated) vs
   -I/--ids-file (after the fix: a single click.File("r")), str.splitlines,
   the usage error for both sample forms, the exit status click derives from
   the outcome, and the by-membership selection the entry points perform with
   the resolved collections; and, for "a failing run exits non-zero", the tail of
   index_haps (haptools/index.py) at the level of the files it creates, with the
   order of lines tabix accepts.  Strings are lists of code points. No proofs. *)
From HV Require Import Prelude.

Definition str := list Z.
Definition str_eqb : str -> str -> bool := list_eqb Z.eqb.

Definition E_Usage : Z := 16.
Definition E_Type : Z := 4.

(* the line boundaries of str.splitlines *)
Definition is_term (c : Z) : bool :=
  (c =? 10) || (c =? 13) || (c =? 11) || (c =? 12) || (c =? 28) || (c =? 29) || (c =? 30)
  || (c =? 133) || (c =? 8232) || (c =? 8233).

(* [cur]: the characters of the current line, reversed; [after_cr]: the
   previous character was \r, so a \n now belongs to the same boundary *)
Fixpoint split_from (cur : str) (after_cr : bool) (s : str) : list str :=
  match s with
  | [] => match cur with [] => [] | _ => [rev cur] end
  | c :: r =>
      if after_cr && (c =? 10) then split_from cur false r
      else if is_term c then rev cur :: split_from [] (c =? 13) r
      else split_from (c :: cur) false r
  end.

Definition splitlines (s : str) : list str := split_from [] false s.

(* a one-entry-per-line file as a user (or printf '%s\n') writes it *)
Definition join_lines (ids : list str) : str := flat_map (fun s => s ++ [10]) ids.

(* Windows line ends: \r\n is one boundary *)
Definition join_crlf (ids : list str) : str := flat_map (fun s => s ++ [13; 10]) ids.

(* every line but the last is terminated; a last line that is empty would not
   be visible in such a file, so that list has no unterminated writing *)
Definition join_sep_with (term : str) (ids : list str) : option str :=
  match rev ids with
  | [] => None
  | [] :: _ => None
  | last :: front => Some (flat_map (fun s => s ++ term) (rev front) ++ last)
  end.

(* the ways a user (editor, printf, "\n".join, a spreadsheet export on Windows)
   writes the list [ids] into a one-entry-per-line file *)
Inductive shape := LF | NoFinal | CRLF | CRLFNoFinal | LFBlank | CRLFBlank.

Definition file_of (sh : shape) (ids : list str) : option str :=
  match sh with
  | LF => Some (join_lines ids)
  | NoFinal => join_sep_with [10] ids
  | CRLF => Some (join_crlf ids)
  | CRLFNoFinal => join_sep_with [13; 10] ids
  | LFBlank => Some (join_lines ids ++ [10])            (* one blank line at the end *)
  | CRLFBlank => Some (join_crlf ids ++ [13; 10])
  end.

(* the file shows exactly the list *)
Definition strict_shapes : list shape := [LF; NoFinal; CRLF; CRLFNoFinal].
(* the file shows the list followed by one empty entry *)
Definition blank_shapes : list shape := [LFBlank; CRLFBlank].

(* what the entry point receives: None = no restriction *)
Definition from_opts (opts : list str) : option (list str) :=
  match opts with [] => None | _ => Some opts end.

(* samples: transform / simphenotype / ld are identical *)
Definition resolve_samples (opts : list str) (file : option str) : res (option (list str)) :=
  match opts, file with
  | _ :: _, Some _ => Err E_Usage
  | _, Some txt => Ok (Some (splitlines txt))
  | _, None => Ok (from_opts opts)
  end.

(* ids: the file wins when both are given (no usage error is raised).
   [legacy = true]: the pinned declaration type=str, multiple=True hands the
   function a tuple of path strings, and `with ids_file` raises TypeError
   as soon as one -I is given *)
Definition resolve_ids (legacy : bool) (opts : list str) (file : option str) : res (option (list str)) :=
  match file with
  | Some txt => if legacy then Err E_Type else Ok (Some (splitlines txt))
  | None => Ok (from_opts opts)
  end.

(* the collection handed over is a set (a tuple for ld's ids): membership *)
Definition mem (x : str) (l : list str) : bool := existsb (str_eqb x) l.

(* selection by membership, in the data's own order: Genotypes.read(samples=),
   Haplotypes.read(haplotypes=), the .snplist filter *)
Definition select {X} (key : X -> str) (wanted : option (list str)) (rows : list X) : list X :=
  match wanted with
  | None => rows
  | Some w => filter (fun r => mem (key r) w) rows
  end.

(* exit status: 0 iff nothing escapes; click turns UsageError into 2 *)
Definition exit_code {A} (r : res A) : Z :=
  match r with
  | Ok _ => 0
  | Err k => if k =? E_Usage then 2 else 1
  end.

(* the whole front end: resolve both, then call the entry point [run] *)
Definition front_end {A} (legacy : bool) (sopts : list str) (sfile : option str)
  (iopts : list str) (ifile : option str)
  (run : option (list str) -> option (list str) -> res A) : res A :=
  bind (resolve_samples sopts sfile) (fun s =>
  bind (resolve_ids legacy iopts ifile) (fun i => run s i)).

(* ---- "a failing run exits non-zero": haptools index ----------------------- *)

(* The tail of index_haps (haptools/index.py) at the level of the files it creates.
   index copies its input to a temporary file, lets pysam.tabix_index compress and index
   that file, and moves <tmp>.gz and <tmp>.gz.tbi to the documented output locations
   <out>.gz and <out>.gz.tbi.  When tabix refuses the file (lines not in an order it
   accepts) the `except OSError` handler only logs "Indexing failed. Is your file
   properly sorted?" and carries on; the run nevertheless fails, because the copy of the
   .tbi that was never written raises FileNotFoundError. *)
Definition E_OS : Z := 15.

Inductive ipath := TmpPlain | TmpGz | TmpTbi | OutGz | OutTbi.

Definition ipath_eqb (a b : ipath) : bool :=
  match a, b with
  | TmpPlain, TmpPlain | TmpGz, TmpGz | TmpTbi, TmpTbi | OutGz, OutGz | OutTbi, OutTbi => true
  | _, _ => false
  end.

(* the files that exist *)
Definition files := list ipath.
Definition present (p : ipath) (f : files) : bool := existsb (ipath_eqb p) f.
Definition without (p : ipath) (f : files) : files := filter (fun q => negb (ipath_eqb p q)) f.

(* shutil.copy / Path.unlink *)
Definition copy_file (src dst : ipath) (f : files) : res files :=
  if present src f then Ok (dst :: without dst f) else Err E_OS.
Definition unlink_file (p : ipath) (f : files) : res files :=
  if present p f then Ok (without p f) else Err E_OS.

(* pysam.tabix_index: bgzip replaces the plain file by <tmp>.gz, then the index is built;
   a refused file leaves no .tbi behind (OSError "building of index for ... failed": logged) *)
Definition tabix_step (accepted : bool) (f : files) : files :=
  let f' := TmpGz :: without TmpPlain f in
  if accepted then TmpTbi :: f' else f'.

(* [guarded = false]: the code as it is - copy, then unlink, unconditionally.
   [guarded = true]: a variant that moves a temporary file only `if tmp_file.exists()` *)
Definition move_file (guarded : bool) (src dst : ipath) (f : files) : res files :=
  if guarded && negb (present src f) then Ok f
  else bind (copy_file src dst f) (unlink_file src).

Definition index_tail (guarded accepted : bool) : res files :=
  let f := tabix_step accepted [TmpPlain] in
  bind (move_file guarded TmpGz OutGz f) (move_file guarded TmpTbi OutTbi).

(* the output files `haptools index` documents *)
Definition index_documented : list ipath := [OutGz; OutTbi].
Definition missing_of (f : files) : list ipath := filter (fun p => negb (present p f)) index_documented.

(* what tabix sees of a data line with seq_col=1, start_col=2, end_col=3: (sequence name,
   start, end).  Accepted: every sequence name occupies one contiguous block of lines,
   starts never decrease inside a block, no record ends before it begins *)
Definition tline := (Z * Z * Z)%type.
Definition memZ (x : Z) (l : list Z) : bool := existsb (Z.eqb x) l.

Fixpoint tabix_walk (seen : list Z) (cur : option (Z * Z)) (ls : list tline) : bool :=
  match ls with
  | [] => true
  | (q, s, e) :: r =>
    (s - 1 <=? e) &&
    match cur with
    | None => tabix_walk seen (Some (q, s)) r
    | Some (c, last) =>
      if q =? c then (last <=? s) && tabix_walk seen (Some (q, s)) r
      else negb (memZ q (c :: seen)) && tabix_walk (c :: seen) (Some (q, s)) r
    end
  end.

Definition tabix_accepts (ls : list tline) : bool := tabix_walk [] None ls.

(* haptools index --no-sort on a file whose data lines are [ls] *)
Definition index_nosort (guarded : bool) (ls : list tline) : res files :=
  index_tail guarded (tabix_accepts ls).

(* ---- "reported": what a run prints depends on its own verbosity only ------- *)

(* haptools/logging.py, getLogger(name, level): logging.getLogger("haptools." + name) - ONE logger
   object per name for the life of the process -, logger.setLevel(level), then a NEW console
   handler (logging.StreamHandler() = whatever sys.stderr is at that moment) with the same
   level is added to the logger's handlers.  The command line calls it with the -v level
   (default INFO); an entry point that is handed no logger calls it with ERROR.
   Levels: NOTSET 0, DEBUG 10, INFO 20, WARNING 30, ERROR 40, CRITICAL 50. *)
Record handler := mkh { h_level : Z; h_stream : Z }.
Record logger := mklg { lg_level : Z; lg_handlers : list handler }.
(* the logger objects of the process, by (interned) name; the first binding of a name counts *)
Definition loggers := list (Z * logger).
(* one getLogger call: the name, the level, and which stream sys.stderr is at that moment *)
Record call := mkcall { cl_name : Z; cl_level : Z; cl_stream : Z }.

Definition fresh_logger : logger := mklg 0 [].
Fixpoint lookup (n : Z) (st : loggers) : logger :=
  match st with
  | [] => fresh_logger
  | (m, l) :: r => if m =? n then l else lookup n r
  end.

Definition handler_of (c : call) : handler := mkh (cl_level c) (cl_stream c).

(* [reuse = false]: the code as it is.  [reuse = true]: the variant "a logger that already has
   a handler is returned as it is (after setLevel)", meant to avoid duplicated lines *)
Definition get_logger (reuse : bool) (st : loggers) (c : call) : loggers :=
  let l := lookup (cl_name c) st in
  let hs := match lg_handlers l with
            | [] => [handler_of c]
            | h :: t => if reuse then h :: t else (h :: t) ++ [handler_of c]
            end in
  (cl_name c, mklg (cl_level c) hs) :: st.

(* the state a process is in after the getLogger calls [hist], oldest first *)
Definition process (reuse : bool) (hist : list call) : loggers := fold_left (get_logger reuse) hist [].

(* Logger.getEffectiveLevel: NOTSET defers to the parents; no level is ever set on "haptools",
   [root] is the level of the root logger (WARNING unless the embedding program changed it) *)
Definition effective (root l : Z) : Z := if l =? 0 then root else l.

(* a message of level [r] logged on [l]: a record is created when r reaches the effective level, and
   every handler whose own level r reaches writes it to its own stream; how often does it appear on
   the stream [s]? *)
Definition written (root : Z) (l : logger) (s r : Z) : Z :=
  if effective root (lg_level l) <=? r
  then lenZ (filter (fun h => (h_level h <=? r) && (h_stream h =? s)) (lg_handlers l))
  else 0.

(* a run: the getLogger call [c] made after the calls [hist] of the same process, then a message of
   level [r] on that logger; it is shown when it appears on the stream the run's user watches *)
Definition run_written (reuse : bool) (root : Z) (hist : list call) (c : call) (r : Z) : Z :=
  written root (lookup (cl_name c) (get_logger reuse (process reuse hist) c)) (cl_stream c) r.
Definition run_shows (reuse : bool) (root : Z) (hist : list call) (c : call) (r : Z) : bool :=
  0 <? run_written reuse root hist c r.

(* what a run with verbosity [v] shows, as a function of that verbosity alone *)
Definition shows (root v r : Z) : bool := effective root v <=? r.
