(* C19 - lemmas: splitlines inverts join_lines, option resolution, selection. *)
From HV Require Import Prelude C19_Model C19_Check.

Definition cleanP (s : str) : Prop := forall c, In c s -> is_term c = false.

Lemma clean_cleanP s : clean s = true <-> cleanP s.
Proof.
  unfold clean, cleanP. rewrite forallb_forall. split; intros H c Hc; specialize (H c Hc).
  - now apply negb_true_iff.
  - now apply negb_true_iff.
Qed.

Lemma split_from_line s : forall cur rest, cleanP s ->
  split_from cur false (s ++ 10 :: rest) = rev (rev s ++ cur) :: split_from [] false rest.
Proof.
  induction s as [|c s' IH]; intros cur rest Hc.
  - reflexivity.
  - cbn [app split_from andb]. rewrite (Hc c (or_introl eq_refl)).
    rewrite IH by (intros x Hx; apply Hc; now right).
    cbn [rev]. now rewrite <- app_assoc.
Qed.

Lemma splitlines_join ids : Forall cleanP ids -> splitlines (join_lines ids) = ids.
Proof.
  unfold splitlines. induction 1 as [|s r Hs Hr IH]; [reflexivity|].
  cbn [join_lines flat_map]. rewrite <- app_assoc. cbn [app].
  rewrite split_from_line by exact Hs. rewrite app_nil_r, rev_involutive. f_equal. exact IH.
Qed.

(* the last line may lack its terminator when it is not empty *)
Lemma split_from_last s : forall cur, cleanP s -> s <> [] \/ cur <> [] ->
  split_from cur false s = [rev (rev s ++ cur)].
Proof.
  induction s as [|c s' IH]; intros cur Hc Hne.
  - cbn. destruct cur; [destruct Hne; congruence|reflexivity].
  - cbn [split_from andb]. rewrite (Hc c (or_introl eq_refl)).
    rewrite IH; [cbn [rev]; now rewrite <- app_assoc|intros x Hx; apply Hc; now right|right; discriminate].
Qed.

Definition join_sep (ids : list str) : str :=
  match rev ids with
  | [] => []
  | last :: front => join_lines (rev front) ++ last
  end.

Lemma splitlines_join_sep ids last : Forall cleanP ids -> cleanP last -> last <> [] ->
  splitlines (join_sep (ids ++ [last])) = ids ++ [last].
Proof.
  intros Hi Hl Hne. unfold join_sep. rewrite rev_app_distr. cbn [rev app]. rewrite rev_involutive.
  unfold splitlines. induction Hi as [|s r Hs Hr IH].
  - cbn [join_lines flat_map app]. rewrite split_from_last by auto. now rewrite app_nil_r, rev_involutive.
  - cbn [join_lines flat_map]. rewrite <- !app_assoc. cbn [app].
    rewrite split_from_line by exact Hs. rewrite app_nil_r, rev_involutive. cbn [app]. f_equal. exact IH.
Qed.

(* ---- file == repeated options ------------------------------------------- *)

Lemma resolve_samples_file_eq ids : ids <> [] -> Forall cleanP ids ->
  resolve_samples [] (Some (join_lines ids)) = resolve_samples ids None.
Proof.
  intros Hne Hc. unfold resolve_samples. rewrite splitlines_join by exact Hc.
  destruct ids; [congruence|reflexivity].
Qed.

Lemma resolve_ids_file_eq ids : ids <> [] -> Forall cleanP ids ->
  resolve_ids false [] (Some (join_lines ids)) = resolve_ids false ids None.
Proof.
  intros Hne Hc. unfold resolve_ids. rewrite splitlines_join by exact Hc.
  destruct ids; [congruence|reflexivity].
Qed.

Lemma front_end_file_eq {A} samples ids (run : option (list str) -> option (list str) -> res A) :
  samples <> [] -> ids <> [] -> Forall cleanP samples -> Forall cleanP ids ->
  front_end false [] (Some (join_lines samples)) [] (Some (join_lines ids)) run
  = front_end false samples None ids None run.
Proof.
  intros. unfold front_end. now rewrite resolve_samples_file_eq, resolve_ids_file_eq.
Qed.

(* ---- both forms --------------------------------------------------------- *)

Lemma both_forms_usage {A} legacy sopts stxt iopts ifile (run : _ -> _ -> res A) :
  sopts <> [] ->
  front_end legacy sopts (Some stxt) iopts ifile run = Err E_Usage
  /\ exit_code (front_end legacy sopts (Some stxt) iopts ifile run) = 2.
Proof.
  intros Hne. unfold front_end, resolve_samples. destruct sopts; [congruence|]. split; reflexivity.
Qed.

(* a failing run exits non-zero, a completed one with zero *)
Lemma exit_code_zero_iff {A} (r : res A) : exit_code r = 0 <-> exists a, r = Ok a.
Proof.
  destruct r as [a|k]; cbn; split.
  - eauto.
  - reflexivity.
  - destruct (k =? E_Usage); discriminate.
  - intros [a Ha]. discriminate.
Qed.

(* ---- unknown entries ---------------------------------------------------- *)

Lemma str_eqb_eq a b : str_eqb a b = true <-> a = b.
Proof. apply list_eqb_spec. intros x y. apply Z.eqb_eq. Qed.

Lemma mem_In x l : mem x l = true <-> In x l.
Proof.
  unfold mem. rewrite existsb_exists. split.
  - intros [y [Hy E]]. apply str_eqb_eq in E. now subst.
  - intros H. exists x. split; [exact H|]. now apply str_eqb_eq.
Qed.

Section Select.
  Context {X : Type} (key : X -> str).

  (* an entry that names nothing in the data changes nothing *)
  Lemma select_unknown u w rows : ~ In u (map key rows) ->
    select key (Some (u :: w)) rows = select key (Some w) rows.
  Proof.
    intros Hu. cbn [select]. apply filter_ext_in. intros r Hr. cbn [mem existsb].
    destruct (str_eqb (key r) u) eqn:E; [|reflexivity].
    apply str_eqb_eq in E. exfalso. apply Hu. rewrite <- E. now apply in_map.
  Qed.

  Lemma select_unknown_anywhere u w1 w2 rows : ~ In u (map key rows) ->
    select key (Some (w1 ++ u :: w2)) rows = select key (Some (w1 ++ w2)) rows.
  Proof.
    intros Hu. cbn [select]. apply filter_ext_in. intros r Hr.
    destruct (mem (key r) (w1 ++ u :: w2)) eqn:E1, (mem (key r) (w1 ++ w2)) eqn:E2; try reflexivity.
    - apply mem_In in E1. apply in_app_or in E1. destruct E1 as [E1|[E1|E1]].
      + assert (mem (key r) (w1 ++ w2) = true) by (apply mem_In, in_or_app; now left). congruence.
      + exfalso. apply Hu. rewrite E1. now apply in_map.
      + assert (mem (key r) (w1 ++ w2) = true) by (apply mem_In, in_or_app; now right). congruence.
    - apply mem_In in E2. apply in_app_or in E2.
      assert (mem (key r) (w1 ++ u :: w2) = true)
        by (apply mem_In, in_or_app; destruct E2; [now left|right; now right]). congruence.
  Qed.

  (* only rows that were asked for, each of them, in the data's order *)
  Lemma select_spec w rows r :
    In r (select key (Some w) rows) <-> In r rows /\ In (key r) w.
  Proof. cbn [select]. rewrite filter_In, mem_In. tauto. Qed.

  (* duplicates and order of the request are irrelevant *)
  Lemma select_set w w' rows : (forall x, In x w <-> In x w') ->
    select key (Some w) rows = select key (Some w') rows.
  Proof.
    intros H. cbn [select]. apply filter_ext. intros r.
    destruct (mem (key r) w) eqn:E1, (mem (key r) w') eqn:E2; try reflexivity.
    - apply mem_In, H, mem_In in E1. congruence.
    - apply mem_In, H, mem_In in E2. congruence.
  Qed.
End Select.

(* ---- the pinned declaration --------------------------------------------- *)

Example legacy_ids_file_refuted :
  let ids := [[72; 49]] in            (* "H1" *)
  front_end true [] None [] (Some (join_lines ids)) (fun s i => Ok (s, i)) = Err E_Type
  /\ front_end true [] None ids None (fun s i => Ok (s, i)) = Ok (None, Some ids)
  /\ front_end false [] None [] (Some (join_lines ids)) (fun s i => Ok (s, i)) = Ok (None, Some ids).
Proof. vm_compute. repeat split. Qed.

(* ---- soundness of the checkers' building blocks ------------------------- *)

Lemma incl_b_sound a b : incl_b a b = true -> incl a b.
Proof. unfold incl_b. rewrite forallb_forall. intros H x Hx. apply mem_In. now apply H. Qed.

Lemma set_eqb_sound a b : set_eqb a b = true -> forall x, In x a <-> In x b.
Proof.
  unfold set_eqb. rewrite andb_true_iff. intros [H1 H2] x. split; [now apply incl_b_sound|now apply incl_b_sound].
Qed.

(* (the soundness of same_selection follows the shape lemmas below) *)

(* ---- more about splitlines ---------------------------------------------- *)

Lemma split_from_line_crlf s : forall cur rest, cleanP s ->
  split_from cur false (s ++ 13 :: 10 :: rest) = rev (rev s ++ cur) :: split_from [] false rest.
Proof.
  induction s as [|c s' IH]; intros cur rest Hc.
  - reflexivity.
  - cbn [app split_from andb]. rewrite (Hc c (or_introl eq_refl)).
    rewrite IH by (intros x Hx; apply Hc; now right).
    cbn [rev]. now rewrite <- app_assoc.
Qed.

Lemma splitlines_join_crlf ids : Forall cleanP ids -> splitlines (join_crlf ids) = ids.
Proof.
  unfold splitlines. induction 1 as [|s r Hs Hr IH]; [reflexivity|].
  cbn [join_crlf flat_map]. rewrite <- app_assoc. cbn [app].
  rewrite split_from_line_crlf by exact Hs. rewrite app_nil_r, rev_involutive. f_equal. exact IH.
Qed.

(* no entry read from a file ever contains a line boundary *)
Lemma split_from_clean s : forall cur b, cleanP cur -> Forall cleanP (split_from cur b s).
Proof.
  induction s as [|c r IH]; intros cur b Hc.
  - cbn [split_from]. destruct cur; constructor; [|constructor].
    intros x Hx. apply Hc. now apply in_rev.
  - cbn [split_from]. destruct (b && (c =? 10)); [now apply IH|].
    destruct (is_term c) eqn:E.
    + constructor; [intros x Hx; apply Hc; now apply in_rev|]. apply IH. intros x [].
    + apply IH. intros x [<-|Hx]; [exact E|now apply Hc].
Qed.

Lemma splitlines_clean s : Forall cleanP (splitlines s).
Proof. apply split_from_clean. intros x []. Qed.

(* ---- every shape a user writes ------------------------------------------ *)

Lemma split_lf_app ids : forall tail, Forall cleanP ids ->
  split_from [] false (join_lines ids ++ tail) = ids ++ split_from [] false tail.
Proof.
  induction ids as [|s r IH]; intros tail Hc; [reflexivity|].
  inversion Hc as [|s' r' Hs Hr]; subst.
  cbn [join_lines flat_map]. rewrite <- !app_assoc. cbn [app].
  rewrite split_from_line by exact Hs. rewrite app_nil_r, rev_involutive.
  change (flat_map (fun s0 : list Z => s0 ++ [10]) r) with (join_lines r).
  rewrite IH by exact Hr. reflexivity.
Qed.

Lemma split_crlf_app ids : forall tail, Forall cleanP ids ->
  split_from [] false (join_crlf ids ++ tail) = ids ++ split_from [] false tail.
Proof.
  induction ids as [|s r IH]; intros tail Hc; [reflexivity|].
  inversion Hc as [|s' r' Hs Hr]; subst.
  cbn [join_crlf flat_map]. rewrite <- !app_assoc. cbn [app].
  rewrite split_from_line_crlf by exact Hs. rewrite app_nil_r, rev_involutive.
  change (flat_map (fun s0 : list Z => s0 ++ [13; 10]) r) with (join_crlf r).
  rewrite IH by exact Hr. reflexivity.
Qed.

Lemma join_sep_with_inv term ids t : join_sep_with term ids = Some t ->
  exists front last, ids = front ++ [last] /\ last <> [] /\ t = flat_map (fun s => s ++ term) front ++ last.
Proof.
  unfold join_sep_with. destruct (rev ids) as [|last front] eqn:E; [discriminate|].
  destruct last as [|c l]; [discriminate|]. intros H. injection H as <-.
  exists (rev front), (c :: l). repeat split; [|discriminate].
  rewrite <- (rev_involutive ids), E. reflexivity.
Qed.

Lemma Forall_app_last {A} (P : A -> Prop) front last : Forall P (front ++ [last]) -> Forall P front /\ P last.
Proof.
  intros H. apply Forall_app in H. destruct H as [Hf Hl]. split; [exact Hf|]. now inversion Hl.
Qed.

(* a strict shape reads back as exactly the list *)
Lemma file_of_strict sh ids t : In sh strict_shapes -> Forall cleanP ids -> file_of sh ids = Some t ->
  splitlines t = ids.
Proof.
  intros Hsh Hc Hf. unfold splitlines.
  destruct sh; cbn [file_of] in Hf; try (exfalso; cbn in Hsh; intuition discriminate).
  - injection Hf as <-. rewrite <- (app_nil_r (join_lines ids)), split_lf_app by exact Hc.
    cbn [split_from]. apply app_nil_r.
  - apply join_sep_with_inv in Hf. destruct Hf as (front & last & -> & Hne & ->).
    apply Forall_app_last in Hc. destruct Hc as [Hfr Hl].
    change (flat_map (fun s : list Z => s ++ [10]) front) with (join_lines front).
    rewrite split_lf_app by exact Hfr. rewrite split_from_last by auto.
    now rewrite app_nil_r, rev_involutive.
  - injection Hf as <-. rewrite <- (app_nil_r (join_crlf ids)), split_crlf_app by exact Hc.
    cbn [split_from]. apply app_nil_r.
  - apply join_sep_with_inv in Hf. destruct Hf as (front & last & -> & Hne & ->).
    apply Forall_app_last in Hc. destruct Hc as [Hfr Hl].
    change (flat_map (fun s : list Z => s ++ [13; 10]) front) with (join_crlf front).
    rewrite split_crlf_app by exact Hfr. rewrite split_from_last by auto.
    now rewrite app_nil_r, rev_involutive.
Qed.

(* a trailing blank line reads back as the list followed by one empty entry *)
Lemma file_of_blank sh ids t : In sh blank_shapes -> Forall cleanP ids -> file_of sh ids = Some t ->
  splitlines t = ids ++ [[]].
Proof.
  intros Hsh Hc Hf. unfold splitlines.
  destruct sh; cbn [file_of] in Hf; try (exfalso; cbn in Hsh; intuition discriminate).
  - injection Hf as <-. now rewrite split_lf_app by exact Hc.
  - injection Hf as <-. now rewrite split_crlf_app by exact Hc.
Qed.

Lemma resolve_samples_shape_eq sh ids t : In sh strict_shapes -> ids <> [] -> Forall cleanP ids ->
  file_of sh ids = Some t -> resolve_samples [] (Some t) = resolve_samples ids None.
Proof.
  intros Hsh Hne Hc Hf. unfold resolve_samples. rewrite (file_of_strict sh ids t Hsh Hc Hf).
  destruct ids; [congruence|reflexivity].
Qed.

Lemma resolve_ids_shape_eq sh ids t : In sh strict_shapes -> ids <> [] -> Forall cleanP ids ->
  file_of sh ids = Some t -> resolve_ids false [] (Some t) = resolve_ids false ids None.
Proof.
  intros Hsh Hne Hc Hf. unfold resolve_ids. rewrite (file_of_strict sh ids t Hsh Hc Hf).
  destruct ids; [congruence|reflexivity].
Qed.

Lemma front_end_shape_eq {A} shs shi samples ids ts ti (run : option (list str) -> option (list str) -> res A) :
  In shs strict_shapes -> In shi strict_shapes -> samples <> [] -> ids <> [] ->
  Forall cleanP samples -> Forall cleanP ids -> file_of shs samples = Some ts -> file_of shi ids = Some ti ->
  front_end false [] (Some ts) [] (Some ti) run = front_end false samples None ids None run.
Proof.
  intros. unfold front_end.
  now rewrite (resolve_samples_shape_eq shs samples ts), (resolve_ids_shape_eq shi ids ti).
Qed.

(* a file ending in a blank line: the entry point receives one more, empty, entry - which
   selects nothing unless a row of the data has the empty name *)
Lemma resolve_blank sh ids t : In sh blank_shapes -> Forall cleanP ids -> file_of sh ids = Some t ->
  resolve_samples [] (Some t) = Ok (Some (ids ++ [[]]))
  /\ resolve_ids false [] (Some t) = Ok (Some (ids ++ [[]])).
Proof.
  intros Hsh Hc Hf. unfold resolve_samples, resolve_ids. now rewrite (file_of_blank sh ids t Hsh Hc Hf).
Qed.

Lemma select_blank {X} (key : X -> str) ids rows : ~ In [] (map key rows) ->
  select key (Some (ids ++ [[]])) rows = select key (Some ids) rows.
Proof.
  intros Hn. pose proof (select_unknown_anywhere key [] ids [] rows Hn) as H.
  rewrite app_nil_r in H. exact H.
Qed.

(* ---- soundness of same_selection ----------------------------------------- *)

Lemma text_eqb_eq a b : text_eqb a b = true -> a = b.
Proof. apply (proj1 (list_eqb_spec Z.eqb Z.eqb_eq a b)). Qed.

Lemma written_as_sound sh t ids : written_as sh t ids = true -> file_of sh ids = Some t.
Proof.
  unfold written_as. destruct (file_of sh ids) as [f|]; [|discriminate].
  intros H. apply text_eqb_eq in H. now subst.
Qed.

Lemma existsb_written shs t ids : existsb (fun sh => written_as sh t ids) shs = true ->
  exists sh, In sh shs /\ file_of sh ids = Some t.
Proof.
  rewrite existsb_exists. intros [sh [Hin H]]. exists sh. split; [exact Hin|now apply written_as_sound].
Qed.

Lemma file_matches_sound opts t other m : file_matches opts t other = m -> m <> 0 ->
  opts <> [] /\ Forall cleanP opts /\ other = []
  /\ exists sh, In sh (if m =? 1 then strict_shapes else blank_shapes) /\ file_of sh opts = Some t.
Proof.
  unfold file_matches. intros H Hm.
  destruct (negb (strs_eqb opts []) && forallb clean opts && strs_eqb other []) eqn:G; [|congruence].
  rewrite !andb_true_iff in G. destruct G as [[G1 G2] G3].
  split; [intros ->; discriminate|].
  split; [apply Forall_forall; intros x Hx; apply clean_cleanP; rewrite forallb_forall in G2; now apply G2|].
  split; [apply (proj1 (list_eqb_spec str_eqb str_eqb_eq _ _)); exact G3|].
  destruct (existsb (fun sh => written_as sh t opts) strict_shapes) eqn:E1.
  - subst m. cbn [Z.eqb Pos.eqb]. now apply existsb_written.
  - destruct (existsb (fun sh => written_as sh t opts) blank_shapes) eqn:E2; [|congruence].
    subst m. cbn [Z.eqb]. now apply existsb_written.
Qed.

Lemma same_selection_sound ao bo t m : same_selection ao None bo (Some t) = m -> m <> 0 ->
  ao <> [] /\ Forall cleanP ao /\ bo = []
  /\ exists sh, In sh (if m =? 1 then strict_shapes else blank_shapes) /\ file_of sh ao = Some t.
Proof. cbn [same_selection]. apply file_matches_sound. Qed.

(* ---- what the checkers' verdicts mean ----------------------------------- *)

Lemma holds_inv_sound v : holds_inv v = true ->
  (v_sopts v <> [] -> (exists t, v_sfile v = Some t) -> v_exit v = 2 /\ v_usage v = true /\ v_got v = None)
  /\ (v_got v = None -> v_exit v <> 0).
Proof.
  unfold holds_inv. rewrite andb_true_iff. intros [H1 H2]. split.
  - intros Hne [t Ht]. rewrite Ht in H1. destruct (v_sopts v); [congruence|].
    rewrite !andb_true_iff in H1. destruct H1 as [[E U] G]. apply Z.eqb_eq in E. split; [exact E|].
    split; [exact U|]. destruct (v_got v); [discriminate|reflexivity].
  - intros G. rewrite G in H2. apply negb_true_iff, Z.eqb_neq in H2. exact H2.
Qed.

Lemma zl_eqb_eq a b : zl_eqb a b = true -> a = b.
Proof. apply (proj1 (list_eqb_spec Z.eqb Z.eqb_eq a b)). Qed.

Lemma reported_sound demand unk logs msgs : reported demand unk logs msgs = true -> unk <> [] ->
  (1 <= demand -> new_message logs msgs = true)
  /\ (2 <= demand -> exists x, In x unk /\ named logs x = true)
  /\ (3 <= demand -> lenZ unk <= 5 -> forall x, In x unk -> named logs x = true).
Proof.
  unfold reported. destruct unk as [|u r]; [congruence|]. intros H _.
  rewrite !andb_true_iff in H. destruct H as [[H1 H2] H3]. split; [|split].
  - intros D. apply orb_true_iff in H1. destruct H1 as [H1|H1]; [apply Z.ltb_lt in H1; lia|exact H1].
  - intros D. apply orb_true_iff in H2. destruct H2 as [H2|H2]; [apply Z.ltb_lt in H2; lia|].
    apply existsb_exists in H2. exact H2.
  - intros D L x Hx. rewrite !orb_true_iff in H3. destruct H3 as [[H3|H3]|H3].
    + apply Z.ltb_lt in H3. lia.
    + apply Z.ltb_lt in H3. lia.
    + rewrite forallb_forall in H3. now apply H3.
Qed.

Lemma holds_unknown_sound k e o msgs : holds_unknown k = true -> c_ref k = Some (e, o, msgs) ->
  (* ignored: the run behaves as without the unknown entries *)
  c_exit k = e /\ (e = 0 -> c_out k = o)
  (* reported *)
  /\ (c_exit k = 0 -> c_verbose k = true ->
      reported (demand_samples k) (unknown_of (c_req_s k) (c_known_s k)) (c_logs k) msgs = true
      /\ reported (demand_ids k) (unknown_of (c_sel_i k) (c_known_i k)) (c_logs k) msgs = true).
Proof.
  unfold holds_unknown. intros H R. rewrite R in H. rewrite !andb_true_iff in H.
  destruct H as [[H1 H2] H3]. apply Z.eqb_eq in H1. split; [exact H1|]. split.
  - intros E0. apply orb_true_iff in H2. destruct H2 as [H2|H2].
    + apply negb_true_iff, Z.eqb_neq in H2. congruence.
    + now apply zl_eqb_eq.
  - intros E0 V. rewrite !orb_true_iff in H3. destruct H3 as [[H3|H3]|H3].
    + apply negb_true_iff, Z.eqb_neq in H3. congruence.
    + rewrite V in H3. discriminate.
    + now apply andb_true_iff in H3.
Qed.

Lemma holds_cli_sound k : holds_cli k = true ->
  (* both forms: usage error *)
  (c_both k = true -> c_exit k = 2)
  (* same output as the Python entry point; it fails iff the command line fails *)
  /\ (c_both k = false -> c_ids_both k = false -> forall o, c_py k = Ok o -> c_exit k = 0 /\ c_out k = o)
  /\ (c_both k = false -> c_ids_both k = false -> forall e, c_py k = Err e -> c_exit k <> 0)
  (* an escaping exception means a non-zero exit status *)
  /\ (c_raised k = true -> c_exit k <> 0)
  (* the respelled command line behaves identically *)
  /\ (forall e o, c_alt k = Some (e, o) -> e = c_exit k /\ (e = 0 -> o = c_out k))
  (* unknown entries are ignored and reported *)
  /\ holds_unknown k = true.
Proof.
  unfold holds_cli. rewrite !andb_true_iff. intros [[[[[_ H1] H2] H3] H4] _].
  repeat split.
  - intros B. rewrite B in H1. now apply Z.eqb_eq.
  - rewrite H, H0 in H1. rewrite H5 in H1. apply andb_true_iff in H1. now apply Z.eqb_eq.
  - rewrite H, H0 in H1. rewrite H5 in H1. apply andb_true_iff in H1. destruct H1 as [_ E]. now apply zl_eqb_eq.
  - intros B IB e E. rewrite B, IB, E in H1. now apply negb_true_iff, Z.eqb_neq in H1.
  - intros R. rewrite R in H2. cbn [negb orb] in H2. now apply negb_true_iff, Z.eqb_neq in H2.
  - rewrite H in H3. apply andb_true_iff in H3. now apply Z.eqb_eq.
  - intros E0. rewrite H in H3. apply andb_true_iff in H3. destruct H3 as [_ H3].
    apply orb_true_iff in H3. destruct H3 as [H3|H3].
    + apply negb_true_iff, Z.eqb_neq in H3. congruence.
    + now apply zl_eqb_eq.
  - exact H4.
Qed.
