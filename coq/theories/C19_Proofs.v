(* C19 - lemmas: splitlines inverts join_lines, option resolution, selection. *)
From HV Require Import Prelude C19_Model C19_Check.

Definition cleanP (s : str) : Prop := forall c, In c s -> is_term c = false.

Lemma clean_cleanP s : clean s = true <-> cleanP s.
Proof.
  unfold clean, cleanP. rewrite forallb_forall. split; intros H c Hc; specialize (H c Hc).
  - now apply negb_true_iff.
  - now apply negb_true_iff.
Qed.

Lemma split_from_line s : forall cur rest, cleanP s ->
  split_from cur false (s ++ 10 :: rest) = rev (rev s ++ cur) :: split_from [] false rest.
Proof.
  induction s as [|c s' IH]; intros cur rest Hc.
  - reflexivity.
  - cbn [app split_from andb]. rewrite (Hc c (or_introl eq_refl)).
    rewrite IH by (intros x Hx; apply Hc; now right).
    cbn [rev]. now rewrite <- app_assoc.
Qed.

Lemma splitlines_join ids : Forall cleanP ids -> splitlines (join_lines ids) = ids.
Proof.
  unfold splitlines. induction 1 as [|s r Hs Hr IH]; [reflexivity|].
  cbn [join_lines flat_map]. rewrite <- app_assoc. cbn [app].
  rewrite split_from_line by exact Hs. rewrite app_nil_r, rev_involutive. f_equal. exact IH.
Qed.

(* the last line may lack its terminator when it is not empty *)
Lemma split_from_last s : forall cur, cleanP s -> s <> [] \/ cur <> [] ->
  split_from cur false s = [rev (rev s ++ cur)].
Proof.
  induction s as [|c s' IH]; intros cur Hc Hne.
  - cbn. destruct cur; [destruct Hne; congruence|reflexivity].
  - cbn [split_from andb]. rewrite (Hc c (or_introl eq_refl)).
    rewrite IH; [cbn [rev]; now rewrite <- app_assoc|intros x Hx; apply Hc; now right|right; discriminate].
Qed.

Definition join_sep (ids : list str) : str :=
  match rev ids with
  | [] => []
  | last :: front => join_lines (rev front) ++ last
  end.

Lemma splitlines_join_sep ids last : Forall cleanP ids -> cleanP last -> last <> [] ->
  splitlines (join_sep (ids ++ [last])) = ids ++ [last].
Proof.
  intros Hi Hl Hne. unfold join_sep. rewrite rev_app_distr. cbn [rev app]. rewrite rev_involutive.
  unfold splitlines. induction Hi as [|s r Hs Hr IH].
  - cbn [join_lines flat_map app]. rewrite split_from_last by auto. now rewrite app_nil_r, rev_involutive.
  - cbn [join_lines flat_map]. rewrite <- !app_assoc. cbn [app].
    rewrite split_from_line by exact Hs. rewrite app_nil_r, rev_involutive. cbn [app]. f_equal. exact IH.
Qed.

(* ---- file == repeated options ------------------------------------------- *)

Lemma resolve_samples_file_eq ids : ids <> [] -> Forall cleanP ids ->
  resolve_samples [] (Some (join_lines ids)) = resolve_samples ids None.
Proof.
  intros Hne Hc. unfold resolve_samples. rewrite splitlines_join by exact Hc.
  destruct ids; [congruence|reflexivity].
Qed.

Lemma resolve_ids_file_eq ids : ids <> [] -> Forall cleanP ids ->
  resolve_ids false [] (Some (join_lines ids)) = resolve_ids false ids None.
Proof.
  intros Hne Hc. unfold resolve_ids. rewrite splitlines_join by exact Hc.
  destruct ids; [congruence|reflexivity].
Qed.

Lemma front_end_file_eq {A} samples ids (run : option (list str) -> option (list str) -> res A) :
  samples <> [] -> ids <> [] -> Forall cleanP samples -> Forall cleanP ids ->
  front_end false [] (Some (join_lines samples)) [] (Some (join_lines ids)) run
  = front_end false samples None ids None run.
Proof.
  intros. unfold front_end. now rewrite resolve_samples_file_eq, resolve_ids_file_eq.
Qed.

(* ---- both forms --------------------------------------------------------- *)

Lemma both_forms_usage {A} legacy sopts stxt iopts ifile (run : _ -> _ -> res A) :
  sopts <> [] ->
  front_end legacy sopts (Some stxt) iopts ifile run = Err E_Usage
  /\ exit_code (front_end legacy sopts (Some stxt) iopts ifile run) = 2.
Proof.
  intros Hne. unfold front_end, resolve_samples. destruct sopts; [congruence|]. split; reflexivity.
Qed.

(* a failing run exits non-zero, a completed one with zero *)
Lemma exit_code_zero_iff {A} (r : res A) : exit_code r = 0 <-> exists a, r = Ok a.
Proof.
  destruct r as [a|k]; cbn; split.
  - eauto.
  - reflexivity.
  - destruct (k =? E_Usage); discriminate.
  - intros [a Ha]. discriminate.
Qed.

(* ---- unknown entries ---------------------------------------------------- *)

Lemma str_eqb_eq a b : str_eqb a b = true <-> a = b.
Proof. apply list_eqb_spec. intros x y. apply Z.eqb_eq. Qed.

Lemma mem_In x l : mem x l = true <-> In x l.
Proof.
  unfold mem. rewrite existsb_exists. split.
  - intros [y [Hy E]]. apply str_eqb_eq in E. now subst.
  - intros H. exists x. split; [exact H|]. now apply str_eqb_eq.
Qed.

Section Select.
  Context {X : Type} (key : X -> str).

  (* an entry that names nothing in the data changes nothing *)
  Lemma select_unknown u w rows : ~ In u (map key rows) ->
    select key (Some (u :: w)) rows = select key (Some w) rows.
  Proof.
    intros Hu. cbn [select]. apply filter_ext_in. intros r Hr. cbn [mem existsb].
    destruct (str_eqb (key r) u) eqn:E; [|reflexivity].
    apply str_eqb_eq in E. exfalso. apply Hu. rewrite <- E. now apply in_map.
  Qed.

  Lemma select_unknown_anywhere u w1 w2 rows : ~ In u (map key rows) ->
    select key (Some (w1 ++ u :: w2)) rows = select key (Some (w1 ++ w2)) rows.
  Proof.
    intros Hu. cbn [select]. apply filter_ext_in. intros r Hr.
    destruct (mem (key r) (w1 ++ u :: w2)) eqn:E1, (mem (key r) (w1 ++ w2)) eqn:E2; try reflexivity.
    - apply mem_In in E1. apply in_app_or in E1. destruct E1 as [E1|[E1|E1]].
      + assert (mem (key r) (w1 ++ w2) = true) by (apply mem_In, in_or_app; now left). congruence.
      + exfalso. apply Hu. rewrite E1. now apply in_map.
      + assert (mem (key r) (w1 ++ w2) = true) by (apply mem_In, in_or_app; now right). congruence.
    - apply mem_In in E2. apply in_app_or in E2.
      assert (mem (key r) (w1 ++ u :: w2) = true)
        by (apply mem_In, in_or_app; destruct E2; [now left|right; now right]). congruence.
  Qed.

  (* only rows that were asked for, each of them, in the data's order *)
  Lemma select_spec w rows r :
    In r (select key (Some w) rows) <-> In r rows /\ In (key r) w.
  Proof. cbn [select]. rewrite filter_In, mem_In. tauto. Qed.

  (* duplicates and order of the request are irrelevant *)
  Lemma select_set w w' rows : (forall x, In x w <-> In x w') ->
    select key (Some w) rows = select key (Some w') rows.
  Proof.
    intros H. cbn [select]. apply filter_ext. intros r.
    destruct (mem (key r) w) eqn:E1, (mem (key r) w') eqn:E2; try reflexivity.
    - apply mem_In, H, mem_In in E1. congruence.
    - apply mem_In, H, mem_In in E2. congruence.
  Qed.
End Select.

(* ---- the pinned declaration --------------------------------------------- *)

Example legacy_ids_file_refuted :
  let ids := [[72; 49]] in            (* "H1" *)
  front_end true [] None [] (Some (join_lines ids)) (fun s i => Ok (s, i)) = Err E_Type
  /\ front_end true [] None ids None (fun s i => Ok (s, i)) = Ok (None, Some ids)
  /\ front_end false [] None [] (Some (join_lines ids)) (fun s i => Ok (s, i)) = Ok (None, Some ids).
Proof. vm_compute. repeat split. Qed.

(* ---- soundness of the checkers' building blocks ------------------------- *)

Lemma incl_b_sound a b : incl_b a b = true -> incl a b.
Proof. unfold incl_b. rewrite forallb_forall. intros H x Hx. apply mem_In. now apply H. Qed.

Lemma set_eqb_sound a b : set_eqb a b = true -> forall x, In x a <-> In x b.
Proof.
  unfold set_eqb. rewrite andb_true_iff. intros [H1 H2] x. split; [now apply incl_b_sound|now apply incl_b_sound].
Qed.

Lemma same_selection_sound ao bo t :
  same_selection ao None bo (Some t) = true -> ao <> [] /\ Forall cleanP ao /\ t = join_lines ao /\ bo = [].
Proof.
  unfold same_selection. rewrite !andb_true_iff. intros [[[H1 H2] H3] H4].
  repeat split.
  - intros ->. discriminate.
  - apply Forall_forall. intros s Hs. apply clean_cleanP. rewrite forallb_forall in H2. now apply H2.
  - apply (proj1 (list_eqb_spec Z.eqb Z.eqb_eq _ _)). exact H3.
  - apply (proj1 (list_eqb_spec str_eqb str_eqb_eq _ _)). exact H4.
Qed.

(* ---- more about splitlines ---------------------------------------------- *)

(* Windows line ends: \r\n is one boundary *)
Definition join_crlf (ids : list str) : str := flat_map (fun s => s ++ [13; 10]) ids.

Lemma split_from_line_crlf s : forall cur rest, cleanP s ->
  split_from cur false (s ++ 13 :: 10 :: rest) = rev (rev s ++ cur) :: split_from [] false rest.
Proof.
  induction s as [|c s' IH]; intros cur rest Hc.
  - reflexivity.
  - cbn [app split_from andb]. rewrite (Hc c (or_introl eq_refl)).
    rewrite IH by (intros x Hx; apply Hc; now right).
    cbn [rev]. now rewrite <- app_assoc.
Qed.

Lemma splitlines_join_crlf ids : Forall cleanP ids -> splitlines (join_crlf ids) = ids.
Proof.
  unfold splitlines. induction 1 as [|s r Hs Hr IH]; [reflexivity|].
  cbn [join_crlf flat_map]. rewrite <- app_assoc. cbn [app].
  rewrite split_from_line_crlf by exact Hs. rewrite app_nil_r, rev_involutive. f_equal. exact IH.
Qed.

(* no entry read from a file ever contains a line boundary *)
Lemma split_from_clean s : forall cur b, cleanP cur -> Forall cleanP (split_from cur b s).
Proof.
  induction s as [|c r IH]; intros cur b Hc.
  - cbn [split_from]. destruct cur; constructor; [|constructor].
    intros x Hx. apply Hc. now apply in_rev.
  - cbn [split_from]. destruct (b && (c =? 10)); [now apply IH|].
    destruct (is_term c) eqn:E.
    + constructor; [intros x Hx; apply Hc; now apply in_rev|]. apply IH. intros x [].
    + apply IH. intros x [<-|Hx]; [exact E|now apply Hc].
Qed.

Lemma splitlines_clean s : Forall cleanP (splitlines s).
Proof. apply split_from_clean. intros x []. Qed.

(* ---- what the checkers' verdicts mean ----------------------------------- *)

Lemma holds_inv_sound v : holds_inv v = true ->
  (v_sopts v <> [] -> (exists t, v_sfile v = Some t) -> v_exit v = 2 /\ v_got v = None)
  /\ (v_got v = None -> v_exit v <> 0).
Proof.
  unfold holds_inv. rewrite andb_true_iff. intros [H1 H2]. split.
  - intros Hne [t Ht]. rewrite Ht in H1. destruct (v_sopts v); [congruence|].
    apply andb_true_iff in H1. destruct H1 as [E G]. apply Z.eqb_eq in E. split; [exact E|].
    destruct (v_got v); [discriminate|reflexivity].
  - intros G. rewrite G in H2. apply negb_true_iff, Z.eqb_neq in H2. exact H2.
Qed.

Lemma zl_eqb_eq a b : zl_eqb a b = true -> a = b.
Proof. apply (proj1 (list_eqb_spec Z.eqb Z.eqb_eq a b)). Qed.

Lemma holds_cli_sound k : holds_cli k = true ->
  (* both forms: usage error *)
  (c_both k = true -> c_exit k = 2)
  (* same output as the Python entry point; it fails iff the command line fails *)
  /\ (c_both k = false -> forall o, c_py k = Ok o -> c_exit k = 0 /\ c_out k = o)
  /\ (c_both k = false -> forall e, c_py k = Err e -> c_exit k <> 0)
  (* an escaping exception means a non-zero exit status *)
  /\ (c_raised k = true -> c_exit k <> 0)
  (* the respelled command line behaves identically *)
  /\ (forall e o, c_alt k = Some (e, o) -> e = c_exit k /\ (e = 0 -> o = c_out k)).
Proof.
  unfold holds_cli. rewrite !andb_true_iff. intros [[[H1 H2] H3] _].
  repeat split.
  - intros B. rewrite B in H1. now apply Z.eqb_eq.
  - rewrite H in H1. rewrite H0 in H1. apply andb_true_iff in H1. now apply Z.eqb_eq.
  - rewrite H in H1. rewrite H0 in H1. apply andb_true_iff in H1. destruct H1 as [_ E]. now apply zl_eqb_eq.
  - intros B e E. rewrite B, E in H1. now apply negb_true_iff, Z.eqb_neq in H1.
  - intros R. rewrite R in H2. cbn [negb orb] in H2. now apply negb_true_iff, Z.eqb_neq in H2.
  - rewrite H in H3. apply andb_true_iff in H3. now apply Z.eqb_eq.
  - intros E0. rewrite H in H3. apply andb_true_iff in H3. destruct H3 as [_ H3].
    apply orb_true_iff in H3. destruct H3 as [H3|H3].
    + apply negb_true_iff, Z.eqb_neq in H3. congruence.
    + now apply zl_eqb_eq.
Qed.
