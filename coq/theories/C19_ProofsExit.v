(* C19 - "a failing run exits non-zero": the file-level model of index_haps' tail, the order tabix
   accepts, and what the verdicts of holds_exit / agree_index mean. *)
From HV Require Import Prelude C19_Model C19_Check C19_Proofs.

(* ---- the tail of index_haps ---------------------------------------------- *)

Lemma index_tail_accepted : index_tail false true = Ok [OutTbi; OutGz].
Proof. reflexivity. Qed.

Lemma index_tail_refused : index_tail false false = Err E_OS.
Proof. reflexivity. Qed.

(* a run of the code as it is that completes has written both documented files and left no
   temporary file behind; it completes only on a file tabix accepted *)
Lemma index_success_writes_both acc f : index_tail false acc = Ok f ->
  acc = true /\ present OutGz f = true /\ present OutTbi f = true
  /\ present TmpPlain f = false /\ present TmpGz f = false /\ present TmpTbi f = false
  /\ missing_of f = [].
Proof.
  destruct acc.
  - rewrite index_tail_accepted. intros E. injection E as <-. repeat split; reflexivity.
  - rewrite index_tail_refused. discriminate.
Qed.

Lemma index_exit_zero_iff acc : exit_code (index_tail false acc) = 0 <-> acc = true.
Proof. destruct acc; cbn; split; intros; try reflexivity; discriminate. Qed.

Lemma index_refused_exit : exit_code (index_tail false false) = 1.
Proof. reflexivity. Qed.

(* exit status 0 <=> both documented outputs exist afterwards *)
Lemma index_exit_zero_iff_outputs acc :
  exit_code (index_tail false acc) = 0 <-> exists f, index_tail false acc = Ok f /\ missing_of f = [].
Proof.
  split.
  - intros E. apply index_exit_zero_iff in E. subst acc. exists [OutTbi; OutGz]. split; reflexivity.
  - intros [f [E _]]. rewrite E. reflexivity.
Qed.

(* the variant that moves a temporary file only if it exists completes - exit status 0 - on a refused
   file, having written no index *)
Example index_guarded_refuted :
  index_tail true false = Ok [OutGz]
  /\ exit_code (index_tail true false) = 0
  /\ missing_of [OutGz] = [OutTbi]
  /\ index_tail true true = index_tail false true.
Proof. repeat split. Qed.

Lemma index_nosort_exit_zero_iff ls : exit_code (index_nosort false ls) = 0 <-> tabix_accepts ls = true.
Proof. unfold index_nosort. apply index_exit_zero_iff. Qed.

Lemma index_nosort_success ls f : index_nosort false ls = Ok f ->
  tabix_accepts ls = true /\ missing_of f = [].
Proof. unfold index_nosort. intros E. apply index_success_writes_both in E. tauto. Qed.

(* ---- the order tabix accepts ---------------------------------------------- *)

Definition seq_of (t : tline) : Z := fst (fst t).
Definition start_of (t : tline) : Z := snd (fst t).
Definition end_of (t : tline) : Z := snd t.

Lemma memZ_In x l : memZ x l = true <-> In x l.
Proof.
  unfold memZ. rewrite existsb_exists. split.
  - intros [y [Hy E]]. apply Z.eqb_eq in E. now subst.
  - intros H. exists x. split; [exact H|apply Z.eqb_refl].
Qed.

(* one step of the walk: the line's coordinates are in order and the walk goes on from that line *)
Lemma walk_step seen cur q s e r : tabix_walk seen cur ((q, s, e) :: r) = true ->
  s - 1 <= e /\ exists seen', tabix_walk seen' (Some (q, s)) r = true.
Proof.
  cbn [tabix_walk]. intros H. apply andb_true_iff in H. destruct H as [C H]. apply Z.leb_le in C.
  split; [exact C|]. destruct cur as [[c last]|].
  - destruct (q =? c).
    + apply andb_true_iff in H. destruct H as [_ H]. now exists seen.
    + apply andb_true_iff in H. destruct H as [_ H]. now exists (c :: seen).
  - now exists seen.
Qed.

(* names already left behind never come back *)
Lemma walk_not_seen ls : forall seen c last, tabix_walk seen (Some (c, last)) ls = true ->
  forall y, In y ls -> seq_of y <> c -> ~ In (seq_of y) seen.
Proof.
  induction ls as [|[[q s] e] r IH]; intros seen c last H y Hy Ny; [destruct Hy|].
  cbn [tabix_walk] in H. apply andb_true_iff in H. destruct H as [_ H].
  destruct (q =? c) eqn:Q.
  - apply Z.eqb_eq in Q. subst q. apply andb_true_iff in H. destruct H as [_ H].
    destruct Hy as [<-|Hy]; [cbn in Ny; congruence|]. eapply IH; eauto.
  - apply andb_true_iff in H. destruct H as [N H]. apply negb_true_iff in N.
    assert (Nq : ~ In q (c :: seen)).
    { intros Hin. apply memZ_In in Hin. congruence. }
    destruct Hy as [<-|Hy].
    + cbn. intros Hin. apply Nq. now right.
    + destruct (Z.eq_dec (seq_of y) q) as [E|E].
      * rewrite E. intros Hin. apply Nq. now right.
      * intros Hin. eapply (IH (c :: seen)); eauto. now right.
Qed.

(* while the current name lasts, starts do not decrease; once it is left it does not return *)
Lemma walk_cur ls : forall seen c last, tabix_walk seen (Some (c, last)) ls = true ->
  forall a y b, ls = a ++ y :: b -> seq_of y = c ->
  last <= start_of y /\ forall z, In z a -> seq_of z = c.
Proof.
  induction ls as [|[[q s] e] r IH]; intros seen c last H a y b E Sy.
  - destruct a; discriminate.
  - pose proof H as H0. cbn [tabix_walk] in H. apply andb_true_iff in H. destruct H as [_ H].
    destruct (q =? c) eqn:Q.
    + apply Z.eqb_eq in Q. subst q. apply andb_true_iff in H. destruct H as [L H]. apply Z.leb_le in L.
      destruct a as [|a0 a'].
      * cbn in E. injection E as <- _. cbn. split; [exact L|]. intros z [].
      * cbn in E. injection E as <- E. destruct (IH _ _ _ H _ _ _ E Sy) as [L2 A]. split; [lia|].
        intros z [<-|Hz]; [reflexivity|now apply A].
    + apply Z.eqb_neq in Q. apply andb_true_iff in H. destruct H as [_ H]. exfalso.
      destruct a as [|a0 a'].
      * cbn in E. injection E as <- _. cbn in Sy. congruence.
      * cbn in E. injection E as _ E.
        assert (Hy : In y r) by (rewrite E; apply in_or_app; right; now left).
        assert (Ny : seq_of y <> q) by congruence.
        apply (walk_not_seen _ _ _ _ H y Hy Ny). left. now rewrite Sy.
Qed.

(* the order of lines tabix accepts, declaratively: two lines of the same sequence name are in
   ascending order of start, and every line between them carries that name too *)
Definition block_sorted (ls : list tline) : Prop :=
  forall a x b y c, ls = a ++ x :: b ++ y :: c -> seq_of x = seq_of y ->
  start_of x <= start_of y /\ forall z, In z b -> seq_of z = seq_of x.

Definition coords_ok (ls : list tline) : Prop := forall x, In x ls -> start_of x - 1 <= end_of x.

Lemma walk_block_sorted ls : forall seen cur, tabix_walk seen cur ls = true -> block_sorted ls.
Proof.
  induction ls as [|[[q s] e] r IH]; intros seen cur H a x b y c E Sxy.
  - destruct a; discriminate.
  - destruct (walk_step _ _ _ _ _ _ H) as [_ [seen' H']]. destruct a as [|a0 a'].
    + cbn in E. injection E as <- E. cbn [seq_of start_of fst snd] in *.
      destruct (walk_cur _ _ _ _ H' _ _ _ E (eq_sym Sxy)) as [L A]. split; [exact L|exact A].
    + cbn in E. injection E as _ E. exact (IH _ _ H' _ _ _ _ _ E Sxy).
Qed.

Lemma walk_coords ls : forall seen cur, tabix_walk seen cur ls = true -> coords_ok ls.
Proof.
  induction ls as [|[[q s] e] r IH]; intros seen cur H x Hx; [destruct Hx|].
  destruct (walk_step _ _ _ _ _ _ H) as [C [seen' H']]. destruct Hx as [<-|Hx]; [exact C|].
  exact (IH _ _ H' x Hx).
Qed.

Lemma tabix_accepts_order ls : tabix_accepts ls = true -> block_sorted ls /\ coords_ok ls.
Proof. intros H. split; [eapply walk_block_sorted|eapply walk_coords]; exact H. Qed.

(* ... and conversely: lines in that order are accepted *)
Lemma block_sorted_tail x r : block_sorted (x :: r) -> block_sorted r.
Proof. intros B a x' b y c E. apply (B (x :: a) x' b y c). now rewrite E. Qed.

Lemma coords_ok_tail x r : coords_ok (x :: r) -> coords_ok r.
Proof. intros C z Hz. apply C. now right. Qed.

Lemma order_walk ls : forall seen c last,
  block_sorted ls -> coords_ok ls ->
  (forall y, In y ls -> ~ In (seq_of y) seen) ->
  (forall a y b, ls = a ++ y :: b -> seq_of y = c -> last <= start_of y /\ forall z, In z a -> seq_of z = c) ->
  tabix_walk seen (Some (c, last)) ls = true.
Proof.
  induction ls as [|[[q s] e] r IH]; intros seen c last B C P1 P2; [reflexivity|].
  cbn [tabix_walk]. apply andb_true_iff. split; [apply Z.leb_le; apply (C (q, s, e)); now left|].
  assert (P2' : forall a y b, r = a ++ y :: b -> seq_of y = q -> s <= start_of y /\ forall z, In z a -> seq_of z = q).
  { intros a y b E Sy. apply (B [] (q, s, e) a y b); [now rewrite E|now rewrite Sy]. }
  destruct (q =? c) eqn:Q.
  - apply Z.eqb_eq in Q. subst q. apply andb_true_iff. split.
    + apply Z.leb_le. apply (P2 [] (c, s, e) r); reflexivity.
    + apply IH; [eapply block_sorted_tail; eauto|eapply coords_ok_tail; eauto| |exact P2'].
      intros y Hy. apply P1. now right.
  - apply Z.eqb_neq in Q. apply andb_true_iff. split.
    + apply negb_true_iff. destruct (memZ q (c :: seen)) eqn:M; [|reflexivity]. exfalso.
      apply memZ_In in M. destruct M as [M|M]; [congruence|]. apply (P1 (q, s, e)); [now left|exact M].
    + apply IH; [eapply block_sorted_tail; eauto|eapply coords_ok_tail; eauto| |exact P2'].
      intros y Hy [Hc|Hs].
      * apply in_split in Hy. destruct Hy as [a [b E]].
        destruct (P2 ((q, s, e) :: a) y b) as [_ A]; [now rewrite E|now rewrite Hc|].
        apply Q. apply (A (q, s, e)). now left.
      * apply (P1 y); [now right|exact Hs].
Qed.

Lemma order_tabix_accepts ls : block_sorted ls -> coords_ok ls -> tabix_accepts ls = true.
Proof.
  unfold tabix_accepts. destruct ls as [|[[q s] e] r]; [reflexivity|]. intros B C.
  cbn [tabix_walk]. apply andb_true_iff. split; [apply Z.leb_le; apply (C (q, s, e)); now left|].
  apply order_walk; [eapply block_sorted_tail; eauto|eapply coords_ok_tail; eauto|intros y _ []|].
  intros a y b E Sy. apply (B [] (q, s, e) a y b); [now rewrite E|now rewrite Sy].
Qed.

Lemma tabix_accepts_iff ls : tabix_accepts ls = true <-> block_sorted ls /\ coords_ok ls.
Proof. split; [apply tabix_accepts_order|intros [B C]; now apply order_tabix_accepts]. Qed.

(* index --no-sort exits 0 exactly on lines in the order tabix accepts *)
Lemma index_nosort_zero_iff_order ls :
  exit_code (index_nosort false ls) = 0 <-> block_sorted ls /\ coords_ok ls.
Proof. rewrite index_nosort_exit_zero_iff. apply tabix_accepts_iff. Qed.

(* hence a run of index --no-sort that exits 0 was given lines in that order *)
Lemma index_nosort_zero_order ls : exit_code (index_nosort false ls) = 0 -> block_sorted ls /\ coords_ok ls.
Proof. intros H. apply tabix_accepts_order. now apply index_nosort_exit_zero_iff. Qed.

Example tabix_accepts_examples :
  tabix_accepts [(1, 10, 15); (1, 20, 30); (2, 5, 6)] = true         (* two blocks, ascending starts *)
  /\ tabix_accepts [(1, 20, 30); (1, 10, 15)] = false                (* starts decrease *)
  /\ tabix_accepts [(1, 10, 11); (2, 3, 3); (1, 10, 21)] = false     (* the block of 1 is split *)
  /\ index_nosort false [(1, 20, 30); (1, 10, 15)] = Err E_OS
  /\ index_nosort true [(1, 20, 30); (1, 10, 15)] = Ok [OutGz].
Proof. repeat split. Qed.

(* ---- what the verdicts of holds_exit / agree_index mean --------------------- *)

Lemma is_nil_true {A} (l : list A) : is_nil l = true <-> l = [].
Proof. destruct l; cbn; split; intros; try reflexivity; discriminate. Qed.

Lemma is_nil_false {A} (l : list A) : negb (is_nil l) = true <-> l <> [].
Proof. destruct l; cbn; split; intros; try discriminate; congruence. Qed.

Lemma is_err_true {A} (r : res A) : is_err r = true <-> exists e, r = Err e.
Proof.
  destruct r; cbn; split; intros H; try discriminate.
  - destruct H; discriminate.
  - eexists; reflexivity.
  - reflexivity.
Qed.

Lemma failing_spec k : failing k = true <->
  c_missing k <> []
  \/ (c_both k = false /\ c_ids_both k = false /\ ((exists e, c_py k = Err e) \/ c_py_missing k <> [])).
Proof.
  unfold failing, py_judged. rewrite orb_true_iff, !andb_true_iff, orb_true_iff, !negb_true_iff.
  rewrite is_err_true. rewrite <- (negb_true_iff (is_nil (c_missing k))), <- (negb_true_iff (is_nil (c_py_missing k))).
  rewrite !is_nil_false. tauto.
Qed.

Lemma holds_cli_exit k : holds_cli k = true -> holds_exit k = true.
Proof. unfold holds_cli. rewrite !andb_true_iff. tauto. Qed.

(* a failing run exits non-zero *)
Lemma failing_exits_nonzero k : holds_cli k = true -> failing k = true -> c_exit k <> 0.
Proof.
  intros H F. apply holds_cli_exit in H. unfold holds_exit in H. rewrite F in H. cbn in H.
  now apply negb_true_iff, Z.eqb_neq in H.
Qed.

Lemma missing_output_exits_nonzero k : holds_cli k = true -> c_missing k <> [] -> c_exit k <> 0.
Proof. intros H M. apply (failing_exits_nonzero k H). apply failing_spec. now left. Qed.

(* the command line and the Python entry point agree on success and failure: the run exits 0 exactly
   when the entry point returns having written every documented output; then the command line wrote
   every documented output too, and the same content *)
Lemma cli_python_agree k : holds_cli k = true -> c_both k = false -> c_ids_both k = false ->
  (c_exit k = 0 <-> exists o, c_py k = Ok o /\ c_py_missing k = [])
  /\ (c_exit k = 0 -> c_missing k = [] /\ forall o, c_py k = Ok o -> c_out k = o).
Proof.
  intros H B IB. pose proof (holds_cli_sound k H) as [_ [S1 [S2 _]]].
  assert (NF : c_exit k = 0 -> failing k = false).
  { intros E. destruct (failing k) eqn:F; [|reflexivity]. exfalso. now apply (failing_exits_nonzero k H F). }
  split; [split|].
  - intros E. specialize (NF E). destruct (c_py k) as [o|e] eqn:P.
    + exists o. split; [reflexivity|]. destruct (c_py_missing k) eqn:M; [reflexivity|]. exfalso.
      assert (F : failing k = true); [|congruence].
      apply failing_spec. right. repeat split; try assumption. right. rewrite M. discriminate.
    + exfalso. assert (F : failing k = true); [|congruence].
      apply failing_spec. right. repeat split; try assumption. left. now exists e.
  - intros [o [P _]]. now apply (S1 B IB o).
  - intros E. specialize (NF E). split.
    + destruct (c_missing k) eqn:M; [reflexivity|]. exfalso.
      assert (F : failing k = true); [|congruence]. apply failing_spec. left. rewrite M. discriminate.
    + intros o P. now apply (S1 B IB o).
Qed.

(* agree_index: the observed run of index --no-sort exits 0 exactly on lines in the order tabix accepts, with both
   documented files written; otherwise it exits 1 and a documented file is absent *)
Lemma agree_index_sound k ls : agree_index k = true -> c_index k = Some ls ->
  (c_exit k = 0 <-> tabix_accepts ls = true)
  /\ (c_exit k = 0 -> c_missing k = [])
  /\ (c_exit k <> 0 -> c_exit k = 1 /\ c_missing k <> []).
Proof.
  unfold agree_index. intros H I. rewrite I in H. unfold index_nosort in *. destruct (tabix_accepts ls).
  - rewrite index_tail_accepted in H. rewrite !andb_true_iff in H. destruct H as [[E _] M].
    apply Z.eqb_eq in E. apply is_nil_true in M. repeat split; auto; intros; congruence.
  - rewrite index_tail_refused in H. apply andb_true_iff in H. destruct H as [E M].
    apply Z.eqb_eq in E. cbn in E. apply is_nil_false in M. repeat split; try congruence; intros; try lia; auto.
Qed.
