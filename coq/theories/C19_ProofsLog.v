(* C19 - proofs about the model of haptools/logging.py (C19_Model: get_logger, written, run_shows):
   what a run prints is a function of its own verbosity, whatever ran earlier in the process. *)
From HV Require Import Prelude C19_Model C19_Check.

Definition same_name (n : Z) (c : call) : bool := cl_name c =? n.

(* the earlier calls that left a handler which also writes a record of level [r] to the stream of [c] *)
Definition echoes (c : call) (r : Z) (c' : call) : bool :=
  same_name (cl_name c) c' && ((cl_level c' <=? r) && (cl_stream c' =? cl_stream c)).

Lemma lenZ_app {A} (a b : list A) : lenZ (a ++ b) = lenZ a + lenZ b.
Proof. unfold lenZ. rewrite app_length. lia. Qed.

Lemma lenZ_nonneg {A} (l : list A) : 0 <= lenZ l.
Proof. unfold lenZ. lia. Qed.

Lemma filter_map_filter {A B} (f : A -> B) (P : B -> bool) (Q : A -> bool) (l : list A) :
  filter P (map f (filter Q l)) = map f (filter (fun x => Q x && P (f x)) l).
Proof.
  induction l as [|x l IH]; [reflexivity|]. cbn [filter].
  destruct (Q x) eqn:EQ; cbn [andb].
  - cbn [map filter]. destruct (P (f x)); cbn [map]; rewrite IH; reflexivity.
  - exact IH.
Qed.

Lemma filter_filter {A} (P Q : A -> bool) (l : list A) :
  filter P (filter Q l) = filter (fun x => Q x && P x) l.
Proof.
  induction l as [|x l IH]; [reflexivity|]. cbn [filter].
  destruct (Q x); cbn [andb filter]; [destruct (P x); rewrite IH; reflexivity | exact IH].
Qed.

Lemma lenZ_map {A B} (f : A -> B) (l : list A) : lenZ (map f l) = lenZ l.
Proof. unfold lenZ. rewrite map_length. reflexivity. Qed.

(* ---- the code as it is: every call adds a handler --------------------------- *)

Lemma lookup_get reuse st c n :
  lookup n (get_logger reuse st c) =
  if cl_name c =? n
  then mklg (cl_level c)
            (match lg_handlers (lookup (cl_name c) st) with
             | [] => [handler_of c]
             | h :: t => if reuse then h :: t else (h :: t) ++ [handler_of c]
             end)
  else lookup n st.
Proof. unfold get_logger. cbn [lookup]. destruct (cl_name c =? n); reflexivity. Qed.

Lemma handlers_process_false : forall hist st n,
  lg_handlers (lookup n (fold_left (get_logger false) hist st))
  = lg_handlers (lookup n st) ++ map handler_of (filter (same_name n) hist).
Proof.
  induction hist as [|a hist IH]; intros st n.
  - cbn. rewrite app_nil_r. reflexivity.
  - cbn [fold_left]. rewrite IH. rewrite lookup_get. cbn [filter]. unfold same_name at 2.
    destruct (cl_name a =? n) eqn:E.
    + apply Z.eqb_eq in E. subst n. cbn [lg_handlers map].
      destruct (lg_handlers (lookup (cl_name a) st)) as [|h t]; cbn [app].
      * reflexivity.
      * rewrite <- app_assoc. reflexivity.
    + reflexivity.
Qed.

(* the level the run asked for is reached by every record that reaches the effective level *)
Lemma level_reached root v r : 0 <= root -> effective root v <=? r = true -> v <=? r = true.
Proof.
  unfold effective. intros R H. destruct (v =? 0) eqn:E.
  - apply Z.eqb_eq in E. subst v. apply Z.leb_le in H. apply Z.leb_le. lia.
  - exact H.
Qed.

(* how often a record of level r appears on the run's stream: once for the run's own handler, once more
   for every earlier call of the same name made with the same stream and a level that r reaches *)
Lemma run_written_count root hist c r : 0 <= root ->
  run_written false root hist c r =
  if shows root (cl_level c) r then 1 + lenZ (filter (echoes c r) hist) else 0.
Proof.
  intros R. unfold run_written. rewrite lookup_get, Z.eqb_refl. unfold written, shows.
  cbn [lg_level lg_handlers].
  destruct (effective root (cl_level c) <=? r) eqn:E; [|reflexivity].
  assert (HN : match lg_handlers (lookup (cl_name c) (process false hist)) with
               | [] => [handler_of c]
               | h :: t => (h :: t) ++ [handler_of c]
               end = lg_handlers (lookup (cl_name c) (process false hist)) ++ [handler_of c]).
  { destruct (lg_handlers (lookup (cl_name c) (process false hist))); reflexivity. }
  rewrite HN. unfold process. rewrite handlers_process_false. cbn [lookup fresh_logger lg_handlers app].
  rewrite filter_app. rewrite lenZ_app. rewrite filter_map_filter, lenZ_map.
  cbn [filter handler_of h_level h_stream].
  rewrite (level_reached _ _ _ R E), Z.eqb_refl. cbn [andb]. unfold lenZ at 2. cbn [length].
  unfold echoes. cbn [h_level h_stream]. lia.
Qed.

Lemma run_shows_history_independent root hist c r : 0 <= root ->
  run_shows false root hist c r = shows root (cl_level c) r.
Proof.
  intros R. unfold run_shows. rewrite run_written_count by exact R.
  destruct (shows root (cl_level c) r).
  - pose proof (lenZ_nonneg (filter (echoes c r) hist)). apply Z.ltb_lt. lia.
  - reflexivity.
Qed.

(* in a fresh process, and whenever no earlier call of that name used the same stream, exactly once *)
Lemma run_written_once root hist c r : 0 <= root ->
  (forall c', In c' hist -> cl_name c' = cl_name c -> cl_stream c' <> cl_stream c) ->
  run_written false root hist c r = if shows root (cl_level c) r then 1 else 0.
Proof.
  intros R H. rewrite run_written_count by exact R. destruct (shows root (cl_level c) r); [|reflexivity].
  assert (E : filter (echoes c r) hist = []).
  { induction hist as [|a hist IH]; [reflexivity|]. cbn [filter].
    assert (EA : echoes c r a = false).
    { unfold echoes, same_name. destruct (cl_name a =? cl_name c) eqn:EN; [|reflexivity].
      apply Z.eqb_eq in EN. specialize (H a (or_introl eq_refl) EN).
      destruct (cl_stream a =? cl_stream c) eqn:ES; [apply Z.eqb_eq in ES; contradiction|].
      rewrite andb_false_r. reflexivity. }
    rewrite EA. apply IH. intros c' I. apply H. right. exact I. }
  rewrite E. reflexivity.
Qed.

(* calls for other names (other subcommands) do not matter *)
Lemma run_written_other_names root hist c r : 0 <= root ->
  run_written false root hist c r = run_written false root (filter (same_name (cl_name c)) hist) c r.
Proof.
  intros R. rewrite !run_written_count by exact R. rewrite filter_filter.
  destruct (shows root (cl_level c) r); [|reflexivity]. f_equal. f_equal. apply filter_ext.
  intros a. unfold echoes. destruct (same_name (cl_name c) a); reflexivity.
Qed.

(* ---- the variant that keeps the first handler ------------------------------ *)

Lemma handlers_process_true : forall hist st n,
  lg_handlers (lookup n (fold_left (get_logger true) hist st))
  = match lg_handlers (lookup n st) with
    | [] => match find (same_name n) hist with Some c0 => [handler_of c0] | None => [] end
    | hs => hs
    end.
Proof.
  induction hist as [|a hist IH]; intros st n.
  - cbn. destruct (lg_handlers (lookup n st)); reflexivity.
  - cbn [fold_left]. rewrite IH. rewrite lookup_get. cbn [find]. unfold same_name at 2.
    destruct (cl_name a =? n) eqn:E.
    + apply Z.eqb_eq in E. subst n. cbn [lg_handlers].
      destruct (lg_handlers (lookup (cl_name a) st)) as [|h t]; reflexivity.
    + reflexivity.
Qed.

(* under that variant the FIRST call of the name decides with its level and its stream *)
Lemma run_shows_reuse root hist c r : 0 <= root ->
  run_shows true root hist c r =
  shows root (cl_level c) r &&
  match find (same_name (cl_name c)) hist with
  | None => true
  | Some c0 => (cl_level c0 <=? r) && (cl_stream c0 =? cl_stream c)
  end.
Proof.
  intros R. unfold run_shows, run_written. rewrite lookup_get, Z.eqb_refl. unfold written, shows.
  cbn [lg_level lg_handlers].
  destruct (effective root (cl_level c) <=? r) eqn:E; [|reflexivity]. cbn [andb].
  unfold process. rewrite handlers_process_true. cbn [lookup fresh_logger lg_handlers].
  destruct (find (same_name (cl_name c)) hist) as [c0|].
  - cbn [filter handler_of h_level h_stream].
    destruct ((cl_level c0 <=? r) && (cl_stream c0 =? cl_stream c)); reflexivity.
  - cbn [filter handler_of h_level h_stream].
    rewrite (level_reached _ _ _ R E), Z.eqb_refl. reflexivity.
Qed.

(* witness: the Python entry point (ERROR, the process's own stderr) and then the command line with the
   default verbosity: the warning (30) is not shown, although a run with -v INFO shows warnings; also
   with one and the same stream, and with equal levels but another stream *)
Lemma reuse_refuted :
  let api := mkcall 0 40 0 in
  let cli := mkcall 0 20 1 in
  run_shows true 30 [api] cli 30 = false
  /\ shows 30 (cl_level cli) 30 = true
  /\ run_shows false 30 [api] cli 30 = true
  /\ run_shows true 30 [mkcall 0 40 7] (mkcall 0 20 7) 30 = false
  /\ run_shows true 30 [mkcall 0 20 1] (mkcall 0 20 2) 30 = false
  (* the same history on another name is harmless, and so is a more verbose first call on one stream *)
  /\ run_shows true 30 [mkcall 3 40 0] cli 30 = true
  /\ run_shows true 30 [mkcall 0 10 7] (mkcall 0 20 7) 30 = true.
Proof. vm_compute. repeat split; reflexivity. Qed.

(* the duplicated lines the variant was after: two calls on one stream *)
Lemma duplicated_lines_example :
  run_written false 30 [mkcall 0 40 0; mkcall 0 20 0] (mkcall 0 20 0) 40 = 3
  /\ run_written false 30 [mkcall 0 40 0; mkcall 0 20 0] (mkcall 0 20 0) 30 = 2
  /\ run_written false 30 [mkcall 0 40 0; mkcall 0 20 0] (mkcall 0 20 1) 30 = 1
  /\ run_written false 30 [] (mkcall 0 0 1) 20 = 0
  /\ run_written false 30 [] (mkcall 0 0 1) 30 = 1.
Proof. vm_compute. repeat split; reflexivity. Qed.

(* ---- what agree_log means -------------------------------------------------- *)

Lemma rec_eqb_eq a b : rec_eqb a b = true <-> a = b.
Proof.
  unfold rec_eqb, pair_eqb. destruct a as [a1 a2], b as [b1 b2]. cbn [fst snd].
  rewrite andb_true_iff, !Z.eqb_eq. split; [intros [-> ->]; reflexivity | intros E; inversion E; auto].
Qed.

Lemma mem_rec_In r l : mem_rec r l = true <-> In r l.
Proof.
  unfold mem_rec. rewrite existsb_exists. split.
  - intros [x [I E]]. apply rec_eqb_eq in E. subst x. exact I.
  - intros I. exists r. split; [exact I | apply rec_eqb_eq; reflexivity].
Qed.

(* under agree_log every record created on the subcommand's logger was printed exactly when the run's own
   verbosity lets its level through - whatever the earlier calls of the process (c_calls) were *)
Lemma agree_log_sound k : agree_log k = true ->
  forall r, In r (c_recs k) ->
  (In r (c_printed k) <-> shows ROOT_LEVEL (cl_level (c_call k)) (fst r) = true).
Proof.
  unfold agree_log. rewrite forallb_forall. intros H r I. specialize (H r I).
  rewrite run_shows_history_independent in H by (unfold ROOT_LEVEL; lia).
  apply Bool.eqb_prop in H. rewrite H. symmetry. apply mem_rec_In.
Qed.
