(* C19 - property theorems only. *)
From HV Require Import Prelude C19_Model C19_Check C19_Proofs C19_ProofsExit C19_ProofsLog.

(* str.splitlines inverts "one entry per line", duplicates and empty entries included *)
Theorem C19_splitlines_join : forall ids, Forall cleanP ids -> splitlines (join_lines ids) = ids.
Proof. exact splitlines_join. Qed.
Print Assumptions C19_splitlines_join.

(* ... also when the last line is not terminated (and not empty) *)
Theorem C19_splitlines_join_unterminated : forall ids last,
  Forall cleanP ids -> cleanP last -> last <> [] ->
  splitlines (join_sep (ids ++ [last])) = ids ++ [last].
Proof. exact splitlines_join_sep. Qed.
Print Assumptions C19_splitlines_join_unterminated.

(* giving samples / IDs in a file is the same as repeating the option *)
Theorem C19_file_eq_repeated_samples : forall ids, ids <> [] -> Forall cleanP ids ->
  resolve_samples [] (Some (join_lines ids)) = resolve_samples ids None.
Proof. exact resolve_samples_file_eq. Qed.
Print Assumptions C19_file_eq_repeated_samples.

Theorem C19_file_eq_repeated_ids : forall ids, ids <> [] -> Forall cleanP ids ->
  resolve_ids false [] (Some (join_lines ids)) = resolve_ids false ids None.
Proof. exact resolve_ids_file_eq. Qed.
Print Assumptions C19_file_eq_repeated_ids.

(* hence the entry point is called with the same arguments, whatever it computes *)
Theorem C19_file_eq_repeated : forall (A : Type) samples ids
  (run : option (list str) -> option (list str) -> res A),
  samples <> [] -> ids <> [] -> Forall cleanP samples -> Forall cleanP ids ->
  front_end false [] (Some (join_lines samples)) [] (Some (join_lines ids)) run
  = front_end false samples None ids None run.
Proof. exact @front_end_file_eq. Qed.
Print Assumptions C19_file_eq_repeated.

Example C19_file_eq_repeated_satisfiable :
  let ids := [[72; 49]; [72; 50]; [72; 49]] in      (* H1, H2, H1 *)
  ids <> [] /\ forallb clean ids = true /\
  resolve_ids false [] (Some (join_lines ids)) = Ok (Some ids).
Proof. vm_compute. repeat split. discriminate. Qed.
Print Assumptions C19_file_eq_repeated_satisfiable.

(* both forms of sample selection: usage error, exit status 2, entry point not reached *)
Theorem C19_both_forms_usage_error : forall (A : Type) legacy sopts stxt iopts ifile
  (run : option (list str) -> option (list str) -> res A),
  sopts <> [] ->
  front_end legacy sopts (Some stxt) iopts ifile run = Err E_Usage
  /\ exit_code (front_end legacy sopts (Some stxt) iopts ifile run) = 2.
Proof. exact @both_forms_usage. Qed.
Print Assumptions C19_both_forms_usage_error.

Theorem C19_exit_code_zero_iff : forall (A : Type) (r : res A), exit_code r = 0 <-> exists a, r = Ok a.
Proof. exact @exit_code_zero_iff. Qed.
Print Assumptions C19_exit_code_zero_iff.

(* unknown entries select nothing and never another row *)
Theorem C19_unknown_ids_ignored : forall (X : Type) (key : X -> str) u w1 w2 rows,
  ~ In u (map key rows) ->
  select key (Some (w1 ++ u :: w2)) rows = select key (Some (w1 ++ w2)) rows.
Proof. exact @select_unknown_anywhere. Qed.
Print Assumptions C19_unknown_ids_ignored.

Theorem C19_select_only_requested : forall (X : Type) (key : X -> str) w rows r,
  In r (select key (Some w) rows) <-> In r rows /\ In (key r) w.
Proof. exact @select_spec. Qed.
Print Assumptions C19_select_only_requested.

Theorem C19_select_set : forall (X : Type) (key : X -> str) w w' rows,
  (forall x, In x w <-> In x w') -> select key (Some w) rows = select key (Some w') rows.
Proof. exact @select_set. Qed.
Print Assumptions C19_select_set.

(* checker soundness *)
Theorem C19_set_eqb_sound : forall a b, set_eqb a b = true -> forall x, In x a <-> In x b.
Proof. exact set_eqb_sound. Qed.
Print Assumptions C19_set_eqb_sound.

(* a non-zero verdict of same_selection: the file is the option list written in one of the
   shapes - exactly the list (1) or the list followed by one blank line (2) *)
Theorem C19_same_selection_sound : forall ao bo t m,
  same_selection ao None bo (Some t) = m -> m <> 0 ->
  ao <> [] /\ Forall cleanP ao /\ bo = []
  /\ exists sh, In sh (if m =? 1 then strict_shapes else blank_shapes) /\ file_of sh ao = Some t.
Proof. exact same_selection_sound. Qed.
Print Assumptions C19_same_selection_sound.

(* the pinned declaration of -I/--ids-file *)
Theorem C19_legacy_ids_file_refuted :
  let ids := [[72; 49]] in
  front_end true [] None [] (Some (join_lines ids)) (fun s i => Ok (s, i)) = Err E_Type
  /\ front_end true [] None ids None (fun s i => Ok (s, i)) = Ok (None, Some ids)
  /\ front_end false [] None [] (Some (join_lines ids)) (fun s i => Ok (s, i)) = Ok (None, Some ids).
Proof. exact legacy_ids_file_refuted. Qed.
Print Assumptions C19_legacy_ids_file_refuted.

(* a file with Windows line ends gives the same list *)
Theorem C19_splitlines_join_crlf : forall ids, Forall cleanP ids -> splitlines (join_crlf ids) = ids.
Proof. exact splitlines_join_crlf. Qed.
Print Assumptions C19_splitlines_join_crlf.

(* every shape a user writes the list in - LF, unterminated last line, CRLF, CRLF with an
   unterminated last line - reads back as exactly the list ... *)
Theorem C19_file_of_strict : forall sh ids t, In sh strict_shapes -> Forall cleanP ids ->
  file_of sh ids = Some t -> splitlines t = ids.
Proof. exact file_of_strict. Qed.
Print Assumptions C19_file_of_strict.

(* ... so the entry point receives what repeating the option hands it, for every shape *)
Theorem C19_file_eq_repeated_samples_shapes : forall sh ids t, In sh strict_shapes -> ids <> [] ->
  Forall cleanP ids -> file_of sh ids = Some t -> resolve_samples [] (Some t) = resolve_samples ids None.
Proof. exact resolve_samples_shape_eq. Qed.
Print Assumptions C19_file_eq_repeated_samples_shapes.

Theorem C19_file_eq_repeated_ids_shapes : forall sh ids t, In sh strict_shapes -> ids <> [] ->
  Forall cleanP ids -> file_of sh ids = Some t -> resolve_ids false [] (Some t) = resolve_ids false ids None.
Proof. exact resolve_ids_shape_eq. Qed.
Print Assumptions C19_file_eq_repeated_ids_shapes.

Theorem C19_file_eq_repeated_shapes : forall (A : Type) shs shi samples ids ts ti
  (run : option (list str) -> option (list str) -> res A),
  In shs strict_shapes -> In shi strict_shapes -> samples <> [] -> ids <> [] ->
  Forall cleanP samples -> Forall cleanP ids -> file_of shs samples = Some ts -> file_of shi ids = Some ti ->
  front_end false [] (Some ts) [] (Some ti) run = front_end false samples None ids None run.
Proof. exact @front_end_shape_eq. Qed.
Print Assumptions C19_file_eq_repeated_shapes.

Example C19_file_shapes_satisfiable :
  let ids := [[78; 65; 49; 50]; [78; 65; 49]] in      (* NA12, NA1 *)
  map (fun sh => option_map splitlines (file_of sh ids)) strict_shapes = [Some ids; Some ids; Some ids; Some ids]
  /\ file_of NoFinal ids = Some [78; 65; 49; 50; 10; 78; 65; 49]
  /\ file_of CRLFNoFinal [[65]; []] = None.
Proof. vm_compute. repeat split. Qed.
Print Assumptions C19_file_shapes_satisfiable.

(* a file that ends in a blank line hands over one more, empty, entry; it selects the same
   rows as the repeated options whenever no row of the data has the empty name *)
Theorem C19_file_blank_line : forall sh ids t, In sh blank_shapes -> Forall cleanP ids ->
  file_of sh ids = Some t ->
  resolve_samples [] (Some t) = Ok (Some (ids ++ [[]]))
  /\ resolve_ids false [] (Some t) = Ok (Some (ids ++ [[]])).
Proof. exact resolve_blank. Qed.
Print Assumptions C19_file_blank_line.

Theorem C19_blank_entry_selects_nothing : forall (X : Type) (key : X -> str) ids rows,
  ~ In [] (map key rows) -> select key (Some (ids ++ [[]])) rows = select key (Some ids) rows.
Proof. exact @select_blank. Qed.
Print Assumptions C19_blank_entry_selects_nothing.

(* whatever the file holds, no entry read from it contains a line boundary *)
Theorem C19_splitlines_clean : forall s, Forall cleanP (splitlines s).
Proof. exact splitlines_clean. Qed.
Print Assumptions C19_splitlines_clean.

(* what the verdicts of the two checkers mean *)
Theorem C19_holds_inv_sound : forall v, holds_inv v = true ->
  (v_sopts v <> [] -> (exists t, v_sfile v = Some t) -> v_exit v = 2 /\ v_usage v = true /\ v_got v = None)
  /\ (v_got v = None -> v_exit v <> 0).
Proof. exact holds_inv_sound. Qed.
Print Assumptions C19_holds_inv_sound.

Theorem C19_holds_cli_sound : forall k, holds_cli k = true ->
  (c_both k = true -> c_exit k = 2)
  /\ (c_both k = false -> c_ids_both k = false -> forall o, c_py k = Ok o -> c_exit k = 0 /\ c_out k = o)
  /\ (c_both k = false -> c_ids_both k = false -> forall e, c_py k = Err e -> c_exit k <> 0)
  /\ (c_raised k = true -> c_exit k <> 0)
  /\ (forall e o, c_alt k = Some (e, o) -> e = c_exit k /\ (e = 0 -> o = c_out k))
  /\ holds_unknown k = true.
Proof. exact holds_cli_sound. Qed.
Print Assumptions C19_holds_cli_sound.

(* unknown entries: the run exits like, and writes what, the run without them writes ("ignored"), and when it
   completes with warnings enabled it says something the other run does not say ("reported"); where the
   demand is >= 2 one of the unknown entries, where it is 3 every unknown entry (up to five) is a word of a warning *)
Theorem C19_holds_unknown_sound : forall k e o msgs, holds_unknown k = true -> c_ref k = Some (e, o, msgs) ->
  c_exit k = e /\ (e = 0 -> c_out k = o)
  /\ (c_exit k = 0 -> c_verbose k = true ->
      reported (demand_samples k) (unknown_of (c_req_s k) (c_known_s k)) (c_logs k) msgs = true
      /\ reported (demand_ids k) (unknown_of (c_sel_i k) (c_known_i k)) (c_logs k) msgs = true).
Proof. exact holds_unknown_sound. Qed.
Print Assumptions C19_holds_unknown_sound.

Theorem C19_reported_sound : forall demand unk logs msgs, reported demand unk logs msgs = true -> unk <> [] ->
  (1 <= demand -> new_message logs msgs = true)
  /\ (2 <= demand -> exists x, In x unk /\ named logs x = true)
  /\ (3 <= demand -> lenZ unk <= 5 -> forall x, In x unk -> named logs x = true).
Proof. exact reported_sound. Qed.
Print Assumptions C19_reported_sound.

(* ---- "a failing run exits non-zero" ----------------------------------------- *)

(* what the checker calls a failing run: a documented output file is absent after the run, or the documented
   Python entry point, given the same parameters, raises or leaves a documented output out *)
Theorem C19_failing_spec : forall k, failing k = true <->
  c_missing k <> []
  \/ (c_both k = false /\ c_ids_both k = false /\ ((exists e, c_py k = Err e) \/ c_py_missing k <> [])).
Proof. exact failing_spec. Qed.
Print Assumptions C19_failing_spec.

Theorem C19_failing_exits_nonzero : forall k, holds_cli k = true -> failing k = true -> c_exit k <> 0.
Proof. exact failing_exits_nonzero. Qed.
Print Assumptions C19_failing_exits_nonzero.

Theorem C19_missing_output_exits_nonzero : forall k, holds_cli k = true -> c_missing k <> [] -> c_exit k <> 0.
Proof. exact missing_output_exits_nonzero. Qed.
Print Assumptions C19_missing_output_exits_nonzero.

(* the command line and the Python entry point agree on success and failure *)
Theorem C19_cli_python_agree : forall k, holds_cli k = true -> c_both k = false -> c_ids_both k = false ->
  (c_exit k = 0 <-> exists o, c_py k = Ok o /\ c_py_missing k = [])
  /\ (c_exit k = 0 -> c_missing k = [] /\ forall o, c_py k = Ok o -> c_out k = o).
Proof. exact cli_python_agree. Qed.
Print Assumptions C19_cli_python_agree.

(* the model of index_haps' tail: a run that completes has written <out>.gz and <out>.gz.tbi, left no temporary
   file behind, and was given a file tabix accepted *)
Theorem C19_index_success_writes_both : forall acc f, index_tail false acc = Ok f ->
  acc = true /\ present OutGz f = true /\ present OutTbi f = true
  /\ present TmpPlain f = false /\ present TmpGz f = false /\ present TmpTbi f = false
  /\ missing_of f = [].
Proof. exact index_success_writes_both. Qed.
Print Assumptions C19_index_success_writes_both.

Theorem C19_index_exit_zero_iff_outputs : forall acc,
  exit_code (index_tail false acc) = 0 <-> exists f, index_tail false acc = Ok f /\ missing_of f = [].
Proof. exact index_exit_zero_iff_outputs. Qed.
Print Assumptions C19_index_exit_zero_iff_outputs.

Theorem C19_index_refused_exits_one : index_tail false false = Err E_OS /\ exit_code (index_tail false false) = 1.
Proof. split; [exact index_tail_refused|exact index_refused_exit]. Qed.
Print Assumptions C19_index_refused_exits_one.

(* moving a temporary file only if it exists lets a refused file through with exit status 0 and no index *)
Theorem C19_index_guarded_refuted :
  index_tail true false = Ok [OutGz]
  /\ exit_code (index_tail true false) = 0
  /\ missing_of [OutGz] = [OutTbi]
  /\ index_tail true true = index_tail false true.
Proof. exact index_guarded_refuted. Qed.
Print Assumptions C19_index_guarded_refuted.

(* the order of lines tabix accepts: two lines of one sequence name are in ascending order of start with only
   lines of that name between them, and no line ends before it begins *)
Theorem C19_tabix_accepts_iff : forall ls, tabix_accepts ls = true <-> block_sorted ls /\ coords_ok ls.
Proof. exact tabix_accepts_iff. Qed.
Print Assumptions C19_tabix_accepts_iff.

(* index --no-sort exits 0 exactly on lines in that order, and then both documented files exist *)
Theorem C19_index_nosort_zero_iff_order : forall ls,
  exit_code (index_nosort false ls) = 0 <-> block_sorted ls /\ coords_ok ls.
Proof. exact index_nosort_zero_iff_order. Qed.
Print Assumptions C19_index_nosort_zero_iff_order.

Theorem C19_index_nosort_success : forall ls f, index_nosort false ls = Ok f ->
  tabix_accepts ls = true /\ missing_of f = [].
Proof. exact index_nosort_success. Qed.
Print Assumptions C19_index_nosort_success.

Example C19_tabix_accepts_examples :
  tabix_accepts [(1, 10, 15); (1, 20, 30); (2, 5, 6)] = true
  /\ tabix_accepts [(1, 20, 30); (1, 10, 15)] = false
  /\ tabix_accepts [(1, 10, 11); (2, 3, 3); (1, 10, 21)] = false
  /\ index_nosort false [(1, 20, 30); (1, 10, 15)] = Err E_OS
  /\ index_nosort true [(1, 20, 30); (1, 10, 15)] = Ok [OutGz].
Proof. exact tabix_accepts_examples. Qed.
Print Assumptions C19_tabix_accepts_examples.

(* what agreement of the observed index --no-sort run with the model means *)
Theorem C19_agree_index_sound : forall k ls, agree_index k = true -> c_index k = Some ls ->
  (c_exit k = 0 <-> tabix_accepts ls = true)
  /\ (c_exit k = 0 -> c_missing k = [])
  /\ (c_exit k <> 0 -> c_exit k = 1 /\ c_missing k <> []).
Proof. exact agree_index_sound. Qed.
Print Assumptions C19_agree_index_sound.

(* ---- "reported", whatever ran before in the same process (model of haptools/logging.py getLogger) ---- *)

(* on the code as it is, whether a run shows a message of level r on the stream its user watches is a function
   of the run's own verbosity: the earlier getLogger calls of the process (any names, levels, streams) do
   not matter *)
Theorem C19_log_history_independent : forall root hist c r, 0 <= root ->
  run_shows false root hist c r = shows root (cl_level c) r.
Proof. exact run_shows_history_independent. Qed.
Print Assumptions C19_log_history_independent.

(* how often: once for the run's own handler and once more for every earlier call of the same name that was
   made with the same stream and a level the record reaches (the duplicated lines of repeated API calls) *)
Theorem C19_log_written_count : forall root hist c r, 0 <= root ->
  run_written false root hist c r =
  if shows root (cl_level c) r then 1 + lenZ (filter (echoes c r) hist) else 0.
Proof. exact run_written_count. Qed.
Print Assumptions C19_log_written_count.

(* exactly once when no earlier call of that name used the run's stream (a fresh process; click's CliRunner) *)
Theorem C19_log_written_once : forall root hist c r, 0 <= root ->
  (forall c', In c' hist -> cl_name c' = cl_name c -> cl_stream c' <> cl_stream c) ->
  run_written false root hist c r = if shows root (cl_level c) r then 1 else 0.
Proof. exact run_written_once. Qed.
Print Assumptions C19_log_written_once.

Theorem C19_log_other_names_irrelevant : forall root hist c r, 0 <= root ->
  run_written false root hist c r = run_written false root (filter (same_name (cl_name c)) hist) c r.
Proof. exact run_written_other_names. Qed.
Print Assumptions C19_log_other_names_irrelevant.

(* the variant "return the logger as it is when it already has a handler": the FIRST call of the name
   decides, with its level and its stream, what every later run shows *)
Theorem C19_log_reuse_first_call_decides : forall root hist c r, 0 <= root ->
  run_shows true root hist c r =
  shows root (cl_level c) r &&
  match find (same_name (cl_name c)) hist with
  | None => true
  | Some c0 => (cl_level c0 <=? r) && (cl_stream c0 =? cl_stream c)
  end.
Proof. exact run_shows_reuse. Qed.
Print Assumptions C19_log_reuse_first_call_decides.

(* ... refuted: the Python entry point (ERROR) and then the command line at the default verbosity lose the
   warning about an unknown entry *)
Example C19_log_reuse_refuted :
  let api := mkcall 0 40 0 in
  let cli := mkcall 0 20 1 in
  run_shows true 30 [api] cli 30 = false
  /\ shows 30 (cl_level cli) 30 = true
  /\ run_shows false 30 [api] cli 30 = true
  /\ run_shows true 30 [mkcall 0 40 7] (mkcall 0 20 7) 30 = false
  /\ run_shows true 30 [mkcall 0 20 1] (mkcall 0 20 2) 30 = false
  /\ run_shows true 30 [mkcall 3 40 0] cli 30 = true
  /\ run_shows true 30 [mkcall 0 10 7] (mkcall 0 20 7) 30 = true.
Proof. exact reuse_refuted. Qed.
Print Assumptions C19_log_reuse_refuted.

Example C19_log_duplicated_lines_example :
  run_written false 30 [mkcall 0 40 0; mkcall 0 20 0] (mkcall 0 20 0) 40 = 3
  /\ run_written false 30 [mkcall 0 40 0; mkcall 0 20 0] (mkcall 0 20 0) 30 = 2
  /\ run_written false 30 [mkcall 0 40 0; mkcall 0 20 0] (mkcall 0 20 1) 30 = 1
  /\ run_written false 30 [] (mkcall 0 0 1) 20 = 0
  /\ run_written false 30 [] (mkcall 0 0 1) 30 = 1.
Proof. exact duplicated_lines_example. Qed.
Print Assumptions C19_log_duplicated_lines_example.

(* what agreement of the observed CLI run with that model means: a record created on the subcommand's logger is
   among the printed lines exactly when the run's own -v level lets it through *)
Theorem C19_agree_log_sound : forall k, agree_log k = true ->
  forall r, In r (c_recs k) ->
  (In r (c_printed k) <-> shows ROOT_LEVEL (cl_level (c_call k)) (fst r) = true).
Proof. exact agree_log_sound. Qed.
Print Assumptions C19_agree_log_sound.
