(* C19 - property theorems only. *)
From HV Require Import Prelude C19_Model C19_Check C19_Proofs.

(* str.splitlines inverts "one entry per line", duplicates and empty entries included *)
Theorem C19_splitlines_join : forall ids, Forall cleanP ids -> splitlines (join_lines ids) = ids.
Proof. exact splitlines_join. Qed.
Print Assumptions C19_splitlines_join.

(* ... also when the last line is not terminated (and not empty) *)
Theorem C19_splitlines_join_unterminated : forall ids last,
  Forall cleanP ids -> cleanP last -> last <> [] ->
  splitlines (join_sep (ids ++ [last])) = ids ++ [last].
Proof. exact splitlines_join_sep. Qed.
Print Assumptions C19_splitlines_join_unterminated.

(* giving samples / IDs in a file is the same as repeating the option *)
Theorem C19_file_eq_repeated_samples : forall ids, ids <> [] -> Forall cleanP ids ->
  resolve_samples [] (Some (join_lines ids)) = resolve_samples ids None.
Proof. exact resolve_samples_file_eq. Qed.
Print Assumptions C19_file_eq_repeated_samples.

Theorem C19_file_eq_repeated_ids : forall ids, ids <> [] -> Forall cleanP ids ->
  resolve_ids false [] (Some (join_lines ids)) = resolve_ids false ids None.
Proof. exact resolve_ids_file_eq. Qed.
Print Assumptions C19_file_eq_repeated_ids.

(* hence the entry point is called with the same arguments, whatever it computes *)
Theorem C19_file_eq_repeated : forall (A : Type) samples ids
  (run : option (list str) -> option (list str) -> res A),
  samples <> [] -> ids <> [] -> Forall cleanP samples -> Forall cleanP ids ->
  front_end false [] (Some (join_lines samples)) [] (Some (join_lines ids)) run
  = front_end false samples None ids None run.
Proof. exact @front_end_file_eq. Qed.
Print Assumptions C19_file_eq_repeated.

Example C19_file_eq_repeated_satisfiable :
  let ids := [[72; 49]; [72; 50]; [72; 49]] in      (* H1, H2, H1 *)
  ids <> [] /\ forallb clean ids = true /\
  resolve_ids false [] (Some (join_lines ids)) = Ok (Some ids).
Proof. vm_compute. repeat split. discriminate. Qed.
Print Assumptions C19_file_eq_repeated_satisfiable.

(* both forms of sample selection: usage error, exit status 2, entry point not reached *)
Theorem C19_both_forms_usage_error : forall (A : Type) legacy sopts stxt iopts ifile
  (run : option (list str) -> option (list str) -> res A),
  sopts <> [] ->
  front_end legacy sopts (Some stxt) iopts ifile run = Err E_Usage
  /\ exit_code (front_end legacy sopts (Some stxt) iopts ifile run) = 2.
Proof. exact @both_forms_usage. Qed.
Print Assumptions C19_both_forms_usage_error.

Theorem C19_exit_code_zero_iff : forall (A : Type) (r : res A), exit_code r = 0 <-> exists a, r = Ok a.
Proof. exact @exit_code_zero_iff. Qed.
Print Assumptions C19_exit_code_zero_iff.

(* unknown entries select nothing and never another row *)
Theorem C19_unknown_ids_ignored : forall (X : Type) (key : X -> str) u w1 w2 rows,
  ~ In u (map key rows) ->
  select key (Some (w1 ++ u :: w2)) rows = select key (Some (w1 ++ w2)) rows.
Proof. exact @select_unknown_anywhere. Qed.
Print Assumptions C19_unknown_ids_ignored.

Theorem C19_select_only_requested : forall (X : Type) (key : X -> str) w rows r,
  In r (select key (Some w) rows) <-> In r rows /\ In (key r) w.
Proof. exact @select_spec. Qed.
Print Assumptions C19_select_only_requested.

Theorem C19_select_set : forall (X : Type) (key : X -> str) w w' rows,
  (forall x, In x w <-> In x w') -> select key (Some w) rows = select key (Some w') rows.
Proof. exact @select_set. Qed.
Print Assumptions C19_select_set.

(* checker soundness *)
Theorem C19_set_eqb_sound : forall a b, set_eqb a b = true -> forall x, In x a <-> In x b.
Proof. exact set_eqb_sound. Qed.
Print Assumptions C19_set_eqb_sound.

Theorem C19_same_selection_sound : forall ao bo t,
  same_selection ao None bo (Some t) = true -> ao <> [] /\ Forall cleanP ao /\ t = join_lines ao /\ bo = [].
Proof. exact same_selection_sound. Qed.
Print Assumptions C19_same_selection_sound.

(* the pinned declaration of -I/--ids-file *)
Theorem C19_legacy_ids_file_refuted :
  let ids := [[72; 49]] in
  front_end true [] None [] (Some (join_lines ids)) (fun s i => Ok (s, i)) = Err E_Type
  /\ front_end true [] None ids None (fun s i => Ok (s, i)) = Ok (None, Some ids)
  /\ front_end false [] None [] (Some (join_lines ids)) (fun s i => Ok (s, i)) = Ok (None, Some ids).
Proof. exact legacy_ids_file_refuted. Qed.
Print Assumptions C19_legacy_ids_file_refuted.

(* a file with Windows line ends gives the same list *)
Theorem C19_splitlines_join_crlf : forall ids, Forall cleanP ids -> splitlines (join_crlf ids) = ids.
Proof. exact splitlines_join_crlf. Qed.
Print Assumptions C19_splitlines_join_crlf.

(* whatever the file holds, no entry read from it contains a line boundary *)
Theorem C19_splitlines_clean : forall s, Forall cleanP (splitlines s).
Proof. exact splitlines_clean. Qed.
Print Assumptions C19_splitlines_clean.

(* what the verdicts of the two checkers mean *)
Theorem C19_holds_inv_sound : forall v, holds_inv v = true ->
  (v_sopts v <> [] -> (exists t, v_sfile v = Some t) -> v_exit v = 2 /\ v_got v = None)
  /\ (v_got v = None -> v_exit v <> 0).
Proof. exact holds_inv_sound. Qed.
Print Assumptions C19_holds_inv_sound.

Theorem C19_holds_cli_sound : forall k, holds_cli k = true ->
  (c_both k = true -> c_exit k = 2)
  /\ (c_both k = false -> forall o, c_py k = Ok o -> c_exit k = 0 /\ c_out k = o)
  /\ (c_both k = false -> forall e, c_py k = Err e -> c_exit k <> 0)
  /\ (c_raised k = true -> c_exit k <> 0)
  /\ (forall e o, c_alt k = Some (e, o) -> e = c_exit k /\ (e = 0 -> o = c_out k)).
Proof. exact holds_cli_sound. Qed.
Print Assumptions C19_holds_cli_sound.
