(* C20 - the documented requirements as a Prop ([WellFormed], one conjunct per
   clause of the property, in the property's order), the boolean classifiers
   and the checkers evaluated on what the implementation did.
   [agree] compares with the model; [holds] is the property:
     - an input meeting all requirements with margin ([Valid]) is accepted, the
       effective population size (what validate_params returns AND what every
       call of _simulate receives) is >= 10 * samples, and the simulation ran to
       completion: the breakpoint file it wrote passes C02's file checker
       ([C02_Check.holds_bp]: 2n haplotype headers Sample_k_{1,2} in order, every
       haplotype tiles every requested chromosome, in the requested order, up to
       the chromosome-end sentinel, every label is a source population with a
       positive fraction in some generation line);
     - an input violating a documented requirement (and nothing else) is
       refused before anything is simulated by a deliberate error whose message
       names a requirement that the input really violates;
     - anything else (undocumented malformations): no demand. *)
From HV Require Import Prelude Tracts Tiling C02_Model C02_Check C20_Model.
From Coq Require Import QArith Qabs.
Open Scope Z_scope.

(* ------------------------------------------------------------ parsed views *)
Definition header_toks (i : vin) : list str := split_ws (v_header i).
Definition first_int (toks : list str) : option Z :=
  match toks with t :: _ => parse_int t | [] => None end.
Definition nsamples (i : vin) : option Z := first_int (header_toks i).
Definition pops (i : vin) : list str := tl (header_toks i).      (* "Admixed" + sources *)
Definition gen_toks (i : vin) : list (list str) := map split_ws (v_gens i).
Definition sinfo_row (l : str) : option (str * str) :=
  match split_ws l with s :: p :: _ => Some (s, p) | _ => None end.
Definition sinfo_rows (i : vin) : option (list (str * str)) := parse_all sinfo_row (v_sinfo i).
Definition coords_of (i : vin) : fail + list (list (Z * Z)) :=
  map_files (sort_by file_key (matching i)).

Fixpoint increasing (prev : Z) (gs : list Z) : Prop :=
  match gs with [] => True | g :: r => prev + 1 <= g /\ increasing g r end.

(* ------------------------------------------------------------ the requirements *)
(* 1 integer sample count >= 1 *)
Definition R_samples (i : vin) : Prop := exists n, nsamples i = Some n /\ 1 <= n.
(* 2 at least two source populations beside the admixed column *)
Definition R_pops (i : vin) : Prop := header_toks i <> [] /\ 3 <= lenZ (pops i).
(* 3 integer, strictly increasing generations (the first >= 1) *)
Definition R_gens (i : vin) : Prop :=
  exists gs, parse_all first_int (gen_toks i) = Some gs /\ increasing 0 gs.
(* 4 one fraction per population column on every line *)
Definition R_fcount (i : vin) : Prop :=
  Forall (fun toks => lenZ (tl toks) = lenZ (pops i)) (gen_toks i).
(* 5 the fractions of every line are numbers summing to 1 (|sum - 1| <= 1e-6) *)
Definition R_fsum (i : vin) : Prop :=
  Forall (fun toks => exists fr, parse_all parse_float (tl toks) = Some fr /\
                                 (Qabs (qsum fr - 1) <= tenm6)%Q) (gen_toks i).
(* 6 chromosome names among 1..22, X *)
Definition R_chroms (i : vin) : Prop := Forall (fun c => valid_chrom c = true) (v_chroms i).
(* 7 a map for every requested chromosome (and no surplus file) *)
Definition R_maps (i : vin) : Prop :=
  v_isdir i = true /\ v_chroms i <> [] /\
  (forall c, In c (v_chroms i) -> exists f, In f (matching i) /\ find_chr (fst f) = Some c) /\
  length (matching i) = length (v_chroms i).
(* 8 every map line is chr, id, cM, bp; at least one marker is left on what is simulated *)
Definition R_maplines (i : vin) : Prop :=
  exists coords, coords_of i = inr coords /\
    match v_region i with
    | Some (s, e) => exists c0 rest, coords = c0 :: rest /\ region_cut c0 s e <> []
    | None => Forall (fun c : list (Z * Z) => c <> []) coords
    end.
(* 9 positive population size *)
Definition R_popsize (i : vin) : Prop := 0 < v_popsize i.
(* 10 sample-info rows of model populations name reference samples; every source
      population occurs in the sample-info file (not needed for --only_breakpoint) *)
Definition R_reference (i : vin) : Prop :=
  v_only_bp i = true \/
  exists ref rows, v_ref i = Some ref /\ sinfo_rows i = Some rows /\
    (forall s p, In (s, p) rows -> In p (pops i) -> In s ref) /\
    (forall p, In p (tl (pops i)) -> exists s, In (s, p) rows).
(* 11 enough samples per population for sampling without replacement *)
Definition R_norepl (i : vin) : Prop :=
  v_only_bp i = true \/ v_norepl i = false \/
  forall n rows, nsamples i = Some n -> sinfo_rows i = Some rows ->
    forall p, In p (tl (pops i)) -> n <= count_pop p rows.
(* 12 region start <= end *)
Definition R_region (i : vin) : Prop := forall s e, v_region i = Some (s, e) -> s <= e.

Definition WellFormed (i : vin) : Prop :=
  R_samples i /\ R_pops i /\ R_gens i /\ R_fcount i /\ R_fsum i /\ R_chroms i /\ R_maps i /\
  R_maplines i /\ R_popsize i /\ R_reference i /\ R_norepl i /\ R_region i.

(* requirement violated by an input that the code refuses with message class k
   (0: the message names no requirement of the property's list) *)
Definition clause_of (k : Z) : Z :=
  if k =? K_samples_int then 1 else if k =? K_samples_lt1 then 1
  else if k =? K_num_pops then 2
  else if k =? K_gen_int then 3 else if k =? K_gen_order then 3
  else if k =? K_frac_count then 4
  else if k =? K_frac_sum then 5 else if k =? K_frac_float then 5
  else if k =? K_chrom then 6
  else if k =? K_no_maps then 7 else if k =? K_maps_missing then 7 else if k =? K_mapdir then 7
  else if k =? K_map_fields then 8
  else if k =? K_popsize then 9
  else if k =? K_sample_absent then 10 else if k =? K_pop_absent then 10 else if k =? K_ref then 10
  else if k =? K_norepl then 11
  else if k =? K_region then 12
  else 0.

Definition clause (c : Z) (i : vin) : Prop :=
  if c =? 1 then R_samples i else if c =? 2 then R_pops i else if c =? 3 then R_gens i
  else if c =? 4 then R_fcount i else if c =? 5 then R_fsum i else if c =? 6 then R_chroms i
  else if c =? 7 then R_maps i else if c =? 8 then R_maplines i else if c =? 9 then R_popsize i
  else if c =? 10 then R_reference i else if c =? 11 then R_norepl i
  else if c =? 12 then R_region i else True.

(* ------------------------------------------------------------ boolean classifiers *)
Definition accepts (o : outcome) : bool := match o with Accept _ => true | _ => false end.
(* = WellFormed, by C20_Proofs.validate_iff_wellformed *)
Definition wf_b (i : vin) : bool := accepts (front false false i).

Definition is_none {A} (o : option A) : bool := match o with None => true | Some _ => false end.
Definition is_some {A} (o : option A) : bool := negb (is_none o).

Fixpoint increasing_b (prev : Z) (gs : list Z) : bool :=
  match gs with [] => true | g :: r => (prev + 1 <=? g) && increasing_b g r end.

(* narrow, documented violations: clause numbers 1..12 of the property text *)
Definition v1 i := match header_toks i with
                   | [] => false
                   | t :: _ => match parse_int t with None => true | Some n => n <? 1 end
                   end.
Definition v2 i := match header_toks i with [] => false | _ :: p => lenZ p <? 3 end.
Definition v3 i :=
  existsb (fun toks => match toks with t :: _ => is_none (parse_int t) | [] => false end) (gen_toks i)
  || match parse_all first_int (gen_toks i) with Some gs => negb (increasing_b 0 gs) | None => false end.
Definition v4 i :=
  existsb (fun toks => match toks with _ :: f => negb (lenZ f =? lenZ (pops i)) | [] => false end) (gen_toks i).
Definition v5 i :=
  existsb (fun toks => match toks with
                       | _ :: f => match parse_all parse_float f with
                                   | Some fr => negb (sum_ok fr) | None => false end
                       | [] => false end) (gen_toks i).
Definition v6 i := existsb (fun c => negb (valid_chrom c)) (v_chroms i).
Definition v7 i := existsb (fun c => negb (has_map (v_files i) c)) (v_chroms i).
Definition v8 i :=
  existsb (fun f : str * list str => existsb (fun l => negb (lenZ (split_ws l) =? 4)) (snd f)) (matching i).
Definition v9 i := v_popsize i <=? 0.
Definition v10 i :=
  negb (v_only_bp i) &&
  match v_ref i, sinfo_rows i with
  | Some ref, Some rows =>
      existsb (fun r : str * str => mem_str (snd r) (pops i) && negb (mem_str (fst r) ref)) rows
      || existsb (fun p => negb (existsb (fun r : str * str => str_eqb (snd r) p) rows)) (tl (pops i))
  | _, _ => false
  end.
Definition v11 i :=
  negb (v_only_bp i) && v_norepl i &&
  match nsamples i, sinfo_rows i with
  | Some n, Some rows => existsb (fun p => count_pop p rows <? n) (tl (pops i))
  | _, _ => false
  end.
Definition v12 i := match v_region i with Some (s, e) => e <? s | None => false end.

Definition violated (i : vin) : list Z :=
  map fst (filter (fun cb : Z * bool => snd cb)
    [(1, v1 i); (2, v2 i); (3, v3 i); (4, v4 i); (5, v5 i); (6, v6 i); (7, v7 i); (8, v8 i);
     (9, v9 i); (10, v10 i); (11, v11 i); (12, v12 i)]).

Fixpoint nodup_str (l : list str) : bool :=
  match l with [] => true | a :: r => negb (mem_str a r) && nodup_str r end.
Fixpoint nondecr (l : list Z) : bool :=
  match l with
  | [] => true
  | a :: r => match r with [] => true | b :: _ => a <=? b end && nondecr r
  end.
Fixpoint strict_incr (l : list Z) : bool :=
  match l with
  | [] => true
  | a :: r => match r with [] => true | b :: _ => a <? b end && strict_incr r
  end.

Definition numeric_or_short (l : str) : bool :=
  match split_ws l with
  | [c; _; m; b] => (str_eqb c [88] || is_some (parse_int c)) && is_some (parse_float m) && is_some (parse_int b)
  | _ => true
  end.

Definition first_map_bps (i : vin) : list Z :=
  match sort_by file_key (matching i) with
  | f :: _ => match map_lines (snd f) with inr ms => map snd ms | inl _ => [] end
  | [] => []
  end.

(* nothing is wrong with the input beyond the documented list *)
Definition side_ok_b (i : vin) : bool :=
  negb (is_none (hd_error (header_toks i)))
  && forallb (fun toks => match toks with [] => false | _ :: f => is_some (parse_all parse_float f) end) (gen_toks i)
  && v_isdir i
  && negb (is_none (hd_error (v_chroms i))) && nodup_str (v_chroms i)
  && forallb (fun f : str * list str => negb (is_none (hd_error (snd f))) && forallb numeric_or_short (snd f)) (matching i)
  && (lenZ (matching i) <=? lenZ (v_chroms i))          (* no surplus map *)
  && (v_only_bp i || (is_some (v_ref i) && is_some (sinfo_rows i)))
  && (is_none (v_region i) || nondecr (first_map_bps i)).

(* margin: what the property's last sentence adds to the requirements, plus the
   documented shape of the inputs ("sorted list of chromosomes", maps sorted by
   position and belonging to the chromosome their file name says) *)
Definition q01 (x : Q) : bool := Qle_bool 0 x && Qle_bool x 1.
Definition line_fracs (toks : list str) : list Q :=
  match parse_all parse_float (tl toks) with Some fr => fr | None => [] end.
Definition MAXI : Z := 2147483647.

(* genetic positions never decrease along the file (the recombination events of a child are
   ordered by (chromosome, cM) and then read as base-pair intervals: a map whose cM goes down
   while bp goes up yields intervals that end before they start) *)
Fixpoint cm_nondecr (l : list Q) : bool :=
  match l with
  | [] => true
  | a :: r => match r with [] => true | b :: _ => Qle_bool a b end && cm_nondecr r
  end.

Definition file_consistent (f : str * list str) : bool :=
  match map_lines (snd f) with
  | inr ms => forallb (fun m : Z * Z => fst m =? file_key f) ms
              && strict_incr (map snd ms)
              && forallb (fun m : Z * Z => (0 <=? snd m) && (snd m <? MAXI)) ms
              && cm_nondecr (map k_cm (file_mks f))
  | inl _ => false
  end.

Definition strict_b (i : vin) : bool :=
  forallb (fun toks => forallb q01 (line_fracs toks)) (gen_toks i)
  && match gen_toks i with
     | l :: _ => match line_fracs l with a :: _ => Qeq_bool a 0 | [] => false end
     | [] => false
     end
  && strict_incr (map chr_key (v_chroms i))
  && forallb file_consistent (matching i)
  && match v_region i with Some (s, _) => 0 <=? s | None => true end
  (* a region is a stretch of ONE chromosome (the CLI passes chroms = [region's chromosome];
     _prepare_coords keeps coords[0] only, _simulate then has end coordinates for one chromosome) *)
  && match v_region i with Some _ => lenZ (v_chroms i) =? 1 | None => true end.

Definition valid_b (i : vin) : bool := wf_b i && strict_b i && side_ok_b i.

(* ------------------------------------------------------------ the written .bp file *)
(* What C02's checker needs, all read off the input itself: the requested
   chromosomes in order (X = 23), the number of samples, the fractions of the
   generation lines (column 0 = admixed).  The rows are the .bp file as parsed
   by the harness (population = index of the label among the header's
   population columns, -1 when it is none of them; the cM column is not
   encoded - every token 0 - so [cm_monotone] is vacuous: C20 makes no demand
   on it; haptools' own readers are not run here: [b_reader_ok] = true).
   With --region the file still ends every chromosome at the sentinel (C02). *)
Definition req_chroms (i : vin) : list Z := map chr_key (v_chroms i).
Definition model_fracs (i : vin) : list (list Q) := map line_fracs (gen_toks i).
Definition bp_case (i : vin) (n : Z) (rows : list bprow) : bcase :=
  mkb (req_chroms i) n (model_fracs i) [] [] (Ok rows) true.
Definition bp_ok (i : vin) (n : Z) (rows : list bprow) : bool := holds_bp (bp_case i n rows).

(* ------------------------------------------------------------ cases *)
(* [Completed eff rows]: simulate_gt and write_breakpoints returned; eff = the
   smallest population size any call of _simulate received; rows = the .bp file *)
Inductive simres := Completed (eff : Z) (rows : list bprow) | SimFailed (kind : Z) | NotRun.

Record vcase := mkvc {
  c_in : vin;
  c_front : outcome;      (* what happened before the first call of _simulate *)
  c_sim : simres          (* simulate_gt + write_breakpoints after acceptance *)
}.

Definition unobserved (o : outcome) : bool :=
  match o with Crash k => k =? 97 | _ => false end.   (* E_Unobserved *)

Definition holds_outcome (i : vin) (o : outcome) (s : simres) : bool :=
  if unobserved o then true else
    if valid_b i then
      match o, nsamples i with
      | Accept ps, Some n =>
          (10 * n <=? ps)
          && match s with
             | Completed eff rows => (10 * n <=? eff) && bp_ok i n rows
             | _ => false      (* SimFailed incl. kind 12 = no result within the time limit *)
             end
      | _, _ => false
      end
    else if side_ok_b i && negb (is_none (hd_error (violated i))) then
      match o with
      | Reject k => (k =? 0)            (* deliberate refusal whose wording the harness does not know *)
                    || existsb (Z.eqb (clause_of k)) (violated i)
      | _ => false
      end
    else true.

Definition holds_front (c : vcase) : bool := holds_outcome (c_in c) (c_front c) (c_sim c).
Definition model_front (c : vcase) : outcome := front false false (c_in c).
Definition check_front (c : vcase) : bool * bool :=
  (outcome_eqb (model_front c) (c_front c), holds_front c).

(* ------------------------------------------------------------ decision-only cases *)
(* Inputs whose simulation is infeasible (sample counts / population sizes around 2^31, 2^63, 10^30):
   only validate_params and _prepare_coords are run.  Demanded: a Valid input is accepted with
   10 * samples <= population size; documented violations are refused as in [holds_outcome]; nothing
   is said about completion (the relation does not run the simulation). *)
Record dcase := mkdc { d_in : vin; d_front : outcome }.
Definition holds_decision (i : vin) (o : outcome) : bool :=
  if unobserved o then true else
    if valid_b i then
      match o, nsamples i with
      | Accept ps, Some n => 10 * n <=? ps
      | _, _ => false
      end
    else holds_outcome i o NotRun.
Definition model_decision (c : dcase) : outcome := front false false (d_in c).
Definition check_decision (c : dcase) : bool * bool :=
  (outcome_eqb (model_decision c) (d_front c), holds_decision (d_in c) (d_front c)).

(* ------------------------------------------------------------ CLI cases *)
Definition args_eqb (a b : cli_args) : bool :=
  list_eqb str_eqb (a_chroms a) (a_chroms b)
  && opt_eqb (fun x y : str * Z * Z =>
                str_eqb (fst (fst x)) (fst (fst y)) && (snd (fst x) =? snd (fst y)) && (snd x =? snd y))
             (a_region a) (a_region b).

Definition with_args (base : vin) (a : cli_args) (only_bp : bool) : vin :=
  mkvin (v_header base) (v_gens base) (v_isdir base) (a_chroms a) (v_files base) (v_popsize base)
        only_bp (v_ref base) (v_sinfo base) (v_norepl base)
        (match a_region a with Some (_, s, e) => Some (s, e) | None => None end).

Definition with_popsize (i : vin) (p : Z) : vin :=
  mkvin (v_header i) (v_gens i) (v_isdir i) (v_chroms i) (v_files i) p
        (v_only_bp i) (v_ref i) (v_sinfo i) (v_norepl i) (v_region i).

Record clicase := mkcli {
  l_base : vin;
  l_chroms : option str;          (* --chroms value; None = option absent *)
  l_region : option str;          (* --region value *)
  l_only_bp : bool;
  l_popsize : Z;                  (* --popsize value (click's default 10000 when the option is absent) *)
  l_args : option cli_args;       (* what validate_params was called with; None = never called *)
  l_recv_ps : Z;                  (* the popsize validate_params received (= l_popsize when never called) *)
  l_front : outcome;
  l_sim : simres
}.

(* the input validate_params sees for parsed options a *)
Definition cli_vin (c : clicase) (a : cli_args) : vin :=
  with_popsize (with_args (l_base c) a (l_only_bp c)) (l_popsize c).

Definition model_cli (c : clicase) : option cli_args * outcome :=
  match cli_parse (l_chroms c) (l_region c) with
  | inl f => (None, out_of_fail f)
  | inr a => (Some a, front false false (cli_vin c a))
  end.

(* the requirements are judged on the arguments validate_params actually received
   (a more tolerant option parser is not the property's business); when it was
   never called although the run went on, on the model's parse of the options *)
Definition holds_cli (c : clicase) : bool :=
  match l_args c with
  | Some a => holds_outcome (cli_vin c a) (l_front c) (l_sim c)
  | None =>
      match l_front c, cli_parse (l_chroms c) (l_region c) with
      | Accept _, inr a => holds_outcome (cli_vin c a) (l_front c) (l_sim c)
      | _, _ => true
      end
  end.

Definition check_cli (c : clicase) : bool * bool :=
  let '(a, o) := model_cli c in
  (opt_eqb args_eqb a (l_args c) && (l_recv_ps c =? l_popsize c) && outcome_eqb o (l_front c), holds_cli c).
