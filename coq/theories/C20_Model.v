(* C20 - model of simgenotype's up-front validation:
     haptools/sim_genotype.py  validate_params  (all checks, in the code's order)
     haptools/sim_genotype.py  _prepare_coords  (map discovery, line validation, region cut)
     haptools/__main__.py      simgenotype      (region / chroms parsing)
   Inputs are what the functions read: the characters of the model file, of
   the map files and of the sample-info file (lists of code points, one list
   per line), the glob listing of the map directory, the reference's sample
   names, popsize, flags and region.  The result is [Accept popsize],
   [Reject k] (a deliberate `raise Exception(msg)`; k identifies msg) or
   [Crash kind] (any other Python exception; kind as in harness/core.py).
   [legacy_region = true] reproduces the pinned tree, where --only_breakpoint
   returned before the region start > end test; [legacy_maps = true] the
   pinned count-only test of map discovery.  No proofs here. *)
From HV Require Import Prelude.
From Coq Require Import QArith Qabs.
Open Scope Z_scope.

Definition str := list Z.
Definition str_eqb : str -> str -> bool := list_eqb Z.eqb.
Definition mem_str (s : str) (l : list str) : bool := existsb (str_eqb s) l.

Inductive outcome := Accept (popsize : Z) | Reject (k : Z) | Crash (kind : Z).
Inductive fail := Rej (k : Z) | Cr (kind : Z).
Definition out_of_fail (f : fail) : outcome :=
  match f with Rej k => Reject k | Cr k => Crash k end.

Definition outcome_eqb (a b : outcome) : bool :=
  match a, b with
  | Accept x, Accept y => x =? y
  | Reject x, Reject y => x =? y
  | Crash x, Crash y => x =? y
  | _, _ => false
  end.

(* message classes of the deliberate refusals (harness/c20.py MESSAGES) *)
Definition K_samples_int := 1.      (* Can't convert samples number to an integer *)
Definition K_num_pops := 2.         (* Invalid number of populations given *)
Definition K_samples_lt1 := 3.      (* Number of samples is less than 1 *)
Definition K_gen_int := 4.          (* Can't convert generation to integer *)
Definition K_frac_float := 5.       (* Can't convert population fractions to type float *)
Definition K_frac_count := 6.       (* Total fractions given ... do not match number of populations *)
Definition K_gen_order := 7.        (* Current generation g - previous generation ... is less than 1 *)
Definition K_frac_sum := 8.         (* Population fractions for generation g do not sum to 1 *)
Definition K_mapdir := 9.           (* Map directory given is not a valid path *)
Definition K_chrom := 10.           (* Chromosome c in the list given is not valid *)
Definition K_no_maps := 11.         (* No valid coordinate files found *)
Definition K_popsize := 13.         (* Popsize must be greater than 0 *)
Definition K_ref := 14.             (* Unable to collect vcf samples *)
Definition K_sample_absent := 15.   (* Sample s from population p ... is not present in the vcf file *)
Definition K_pop_absent := 16.      (* Population p in model file is not present in the sample info file *)
Definition K_norepl := 17.          (* Population p does not have enough samples to sample without replacement *)
Definition K_region := 18.          (* End coordinates in region e are less than the starting coordinates s *)
Definition K_maps_missing := 19.    (* Unable to find all chromosomes ... in map file directory *)
Definition K_map_fields := 20.      (* Map file contains an incorrect amount of fields *)
Definition K_region_parse := 21.    (* Unable to parse region (CLI) *)
Definition K_no_chroms := 22.       (* Either chroms or region must be specified (CLI) *)

Definition E_Value := 1.
Definition E_Index := 2.
Definition E_Unbound := 6.

(* ---------------------------------------------------------------- lexical layer *)

(* str.split() / str.strip() whitespace (ASCII and Latin-1) *)
Definition is_ws (c : Z) : bool :=
  ((9 <=? c) && (c <=? 13)) || ((28 <=? c) && (c <=? 32)) || (c =? 133) || (c =? 160).

Fixpoint split_aux (l : str) (cur : str) : list str :=
  match l with
  | [] => match cur with [] => [] | _ => [rev cur] end
  | c :: r =>
      if is_ws c then
        match cur with [] => split_aux r [] | _ => rev cur :: split_aux r [] end
      else split_aux r (c :: cur)
  end.
Definition split_ws (l : str) : list str := split_aux l [].

Fixpoint drop_ws (l : str) : str :=
  match l with
  | c :: r => if is_ws c then drop_ws r else l
  | [] => []
  end.
Definition strip (l : str) : str := rev (drop_ws (rev (drop_ws l))).

Definition is_digit (c : Z) : bool := (48 <=? c) && (c <=? 57).

(* digits with single underscores between digits (Python's int()/float() grammar);
   result: value and number of digits *)
Fixpoint digits_from (l : str) (acc n : Z) (after_us : bool) : option (Z * Z) :=
  match l with
  | [] => if after_us then None else Some (acc, n)
  | c :: r =>
      if is_digit c then digits_from r (acc * 10 + (c - 48)) (n + 1) false
      else if (c =? 95) && negb after_us && (0 <? n) then digits_from r acc n true
      else None
  end.
Definition digit_run (l : str) : option (Z * Z) :=
  match l with [] => None | _ => digits_from l 0 0 false end.

Definition split_sign (l : str) : Z * str :=
  match l with
  | c :: r => if c =? 43 then (1, r) else if c =? 45 then (-1, r) else (1, l)
  | [] => (1, [])
  end.

(* Python int(s) for ASCII s: None = ValueError *)
Definition parse_int (l : str) : option Z :=
  let '(sg, r) := split_sign (strip l) in
  match digit_run r with Some (v, _) => Some (sg * v) | None => None end.

(* before / after the first character satisfying p *)
Fixpoint split_at (p : Z -> bool) (l : str) : str * option str :=
  match l with
  | [] => ([], None)
  | c :: r => if p c then ([], Some r)
              else let '(a, b) := split_at p r in (c :: a, b)
  end.

Definition pow10 (n : Z) : Q :=
  if 0 <=? n then inject_Z (10 ^ n) else (1 / inject_Z (10 ^ (- n)))%Q.

(* Python float(s) / numpy str -> float32 for ASCII decimal literals, as an exact
   rational; None = ValueError.  (inf / nan spellings are outside the modelled
   domain: the generators never emit them.) *)
Definition parse_float (l : str) : option Q :=
  let '(sg, r) := split_sign (strip l) in
  let '(mant, ex) := split_at (fun c => (c =? 101) || (c =? 69)) r in
  let '(ip, fp) := split_at (fun c => c =? 46) mant in
  let ipv := match ip with [] => Some (0, 0) | _ => digit_run ip end in
  let fpv := match fp with
             | None => Some (0, 0)
             | Some [] => Some (0, 0)
             | Some f => digit_run f
             end in
  let exv := match ex with
             | None => Some 0
             | Some e => let '(es, er) := split_sign e in
                         match digit_run er with Some (v, _) => Some (es * v) | None => None end
             end in
  match ipv, fpv, exv with
  | Some (iv, ni), Some (fv, nf), Some e =>
      if ni + nf =? 0 then None
      else Some (inject_Z sg * inject_Z (iv * 10 ^ nf + fv) * pow10 (e - nf))%Q
  | _, _, _ => None
  end.

(* re.search(r'(?<=chr)(X|\d+)', name).group(): leftmost "chr" followed by X or digits *)
Fixpoint take_digits (l : str) : str :=
  match l with
  | c :: r => if is_digit c then c :: take_digits r else []
  | [] => []
  end.
Definition chr_group_here (l : str) : option str :=
  match l with
  | c :: h :: r :: rest =>
      if (c =? 99) && (h =? 104) && (r =? 114) then
        match rest with
        | x :: _ => if x =? 88 then Some [88]
                    else match take_digits rest with [] => None | d => Some d end
        | [] => None
        end
      else None
  | _ => None
  end.
Fixpoint find_chr (l : str) : option str :=
  match chr_group_here l with
  | Some g => Some g
  | None => match l with [] => None | _ :: t => find_chr t end
  end.

(* ---------------------------------------------------------------- inputs *)

Record vin := mkvin {
  v_header : str;                          (* first line of the model file *)
  v_gens : list str;                       (* its remaining lines *)
  v_isdir : bool;                          (* os.path.isdir(mapdir) *)
  v_chroms : list str;                     (* requested chromosomes *)
  v_files : list (str * list str);         (* glob('<mapdir>/*.map'): file NAME (os.path.basename), lines;
                                              glob order.  The pinned tree applied the chr pattern to the whole
                                              path: that behaviour is this model fed with paths instead of names *)
  v_popsize : Z;
  v_only_bp : bool;
  v_ref : option (list str);               (* sample names of the reference; None = unreadable *)
  v_sinfo : list str;                      (* lines of the sample-info file *)
  v_norepl : bool;
  v_region : option (Z * Z)                (* start, end *)
}.

(* ---------------------------------------------------------------- validate_params *)

Definition tenm6 : Q := (1 # 1000000)%Q.
Definition qsum (l : list Q) : Q := fold_right Qplus 0%Q l.
Definition sum_ok (fr : list Q) : bool := Qle_bool (Qabs (qsum fr - 1)) tenm6.

Fixpoint parse_all {X A} (f : X -> option A) (l : list X) : option (list A) :=
  match l with
  | [] => Some []
  | t :: r => match f t with
              | None => None
              | Some a => match parse_all f r with Some s => Some (a :: s) | None => None end
              end
  end.

(* header: Ok (num_samples, pops) with pops including the "Admixed" column *)
Definition check_header (h : str) : fail + (Z * list str) :=
  match split_ws h with
  | [] => inl (Cr E_Value)                       (* num_samples, *pops = [] *)
  | t :: pops =>
      match parse_int t with
      | None => inl (Rej K_samples_int)
      | Some n =>
          if lenZ pops <? 3 then inl (Rej K_num_pops)
          else if n <? 1 then inl (Rej K_samples_lt1)
          else inr (n, pops)
      end
  end.

(* one generation line; Ok = its generation number *)
Definition check_gen_line (npops prev : Z) (line : str) : fail + Z :=
  match split_ws line with
  | [] => inl (Cr E_Value)
  | t :: fts =>
      match parse_int t with
      | None => inl (Rej K_gen_int)
      | Some g =>
          match parse_all parse_float fts with
          | None => inl (Rej K_frac_float)
          | Some fr =>
              if negb (lenZ fr =? npops) then inl (Rej K_frac_count)
              else if g - prev <? 1 then inl (Rej K_gen_order)
              else if negb (sum_ok fr) then inl (Rej K_frac_sum)
              else inr g
          end
      end
  end.

Fixpoint check_gens (npops prev : Z) (lines : list str) : option fail :=
  match lines with
  | [] => None
  | l :: r => match check_gen_line npops prev l with
              | inl f => Some f
              | inr g => check_gens npops g r
              end
  end.

(* "1".."22", "X" *)
Definition valid_chrom (c : str) : bool :=
  str_eqb c [88] ||
  match c with
  | [d] => (49 <=? d) && (d <=? 57)
  | [a; d] => ((a =? 49) && is_digit d) || ((a =? 50) && (48 <=? d) && (d <=? 50))
  | _ => false
  end.

Definition file_chr_in (chroms : list str) (f : str * list str) : bool :=
  match find_chr (fst f) with Some g => mem_str g chroms | None => false end.
Definition matching (i : vin) : list (str * list str) :=
  filter (file_chr_in (v_chroms i)) (v_files i).

Definition check_region (i : vin) : option fail :=
  match v_region i with
  | Some (s, e) => if e <? s then Some (Rej K_region) else None
  | None => None
  end.

Definition count_pop (p : str) (rows : list (str * str)) : Z :=
  lenZ (filter (fun r => str_eqb (snd r) p) rows).

(* the sample-info loop: rows so far are kept for the second pass *)
Fixpoint check_sinfo (pops : list str) (ref : list str) (lines : list str) : fail + list (str * str) :=
  match lines with
  | [] => inr []
  | l :: r =>
      match split_ws l with
      | s :: p :: _ =>
          if negb (mem_str s ref) && mem_str p pops then inl (Rej K_sample_absent)
          else match check_sinfo pops ref r with
               | inl f => inl f
               | inr rows => inr ((s, p) :: rows)
               end
      | _ => inl (Cr E_Index)                    (* line.split()[0] / [1] *)
      end
  end.

Fixpoint check_model_pops (norepl : bool) (n : Z) (rows : list (str * str)) (src : list str) : option fail :=
  match src with
  | [] => None
  | p :: r =>
      if negb (existsb (fun row => str_eqb (snd row) p) rows) then Some (Rej K_pop_absent)
      else if norepl && (count_pop p rows <? n) then Some (Rej K_norepl)
      else check_model_pops norepl n rows r
  end.

Definition check_reference (i : vin) (n : Z) (pops : list str) : option fail :=
  match v_ref i with
  | None => Some (Rej K_ref)
  | Some ref =>
      match check_sinfo pops ref (v_sinfo i) with
      | inl f => Some f
      | inr rows => check_model_pops (v_norepl i) n rows (tl pops)
      end
  end.

Definition orelse (a : option fail) (b : option fail) : option fail :=
  match a with Some f => Some f | None => b end.

Definition validate_params (legacy : bool) (i : vin) : fail + Z :=
  match check_header (v_header i) with
  | inl f => inl f
  | inr (n, pops) =>
  match check_gens (lenZ pops) 0 (v_gens i) with
  | Some f => inl f
  | None =>
  if negb (v_isdir i) then inl (Rej K_mapdir) else
  match find (fun c => negb (valid_chrom c)) (v_chroms i) with
  | Some _ => inl (Rej K_chrom)
  | None =>
  match matching i with
  | [] => inl (Rej K_no_maps)
  | _ :: _ =>
  if v_popsize i <=? 0 then inl (Rej K_popsize) else
  let ps := Z.max (v_popsize i) (10 * n) in
  match (if legacy then None else check_region i) with
  | Some f => inl f
  | None =>
  if v_only_bp i then inr ps else
  match orelse (check_reference i n pops) (if legacy then check_region i else None) with
  | Some f => inl f
  | None => inr ps
  end end end end end end.

(* ---------------------------------------------------------------- _prepare_coords *)

Definition chr_key (g : str) : Z :=
  if str_eqb g [88] then 23
  else match digit_run g with Some (v, _) => v | None => 0 end.
Definition file_key (f : str * list str) : Z :=
  match find_chr (fst f) with Some g => chr_key g | None => 0 end.

(* list.sort(key=...) is stable *)
Fixpoint insert_by {A} (key : A -> Z) (x : A) (l : list A) : list A :=
  match l with
  | [] => [x]
  | y :: r => if key x <=? key y then x :: l else y :: insert_by key x r
  end.
Definition sort_by {A} (key : A -> Z) (l : list A) : list A :=
  fold_right (insert_by key) [] l.
(* fold_right inserts the last element first; inserting x before the first y
   with key x <= key y keeps equal keys in their original order *)

(* one map line: (chromosome, bp) *)
Definition map_line (l : str) : fail + (Z * Z) :=
  match split_ws l with
  | [c; _; m; b] =>
      match (if str_eqb c [88] then Some 23 else parse_int c) with
      | None => inl (Cr E_Value)
      | Some ch =>
          match parse_float m with
          | None => inl (Cr E_Value)
          | Some _ => match parse_int b with
                      | None => inl (Cr E_Value)
                      | Some bp => inr (ch, bp)
                      end
          end
      end
  | _ => inl (Rej K_map_fields)
  end.

(* the same line with its genetic position: GeneticMarker(chrom, float(data[2]), int(data[3]), prev) *)
Record mk := mkmk { k_chrom : Z; k_cm : Q; k_bp : Z }.
Definition map_line3 (l : str) : option mk :=
  match split_ws l with
  | [c; _; m; b] =>
      match (if str_eqb c [88] then Some 23 else parse_int c) with
      | None => None
      | Some ch =>
          match parse_float m with
          | None => None
          | Some q => match parse_int b with
                      | None => None
                      | Some bp => Some (mkmk ch q bp)
                      end
          end
      end
  | _ => None
  end.
(* the markers of one map file (empty when some line is not a marker: [map_lines] fails then) *)
Definition file_mks (f : str * list str) : list mk :=
  match parse_all map_line3 (snd f) with Some l => l | None => [] end.

Fixpoint map_lines (ls : list str) : fail + list (Z * Z) :=
  match ls with
  | [] => inr []
  | l :: r => match map_line l with
              | inl f => inl f
              | inr m => match map_lines r with inl f => inl f | inr ms => inr (m :: ms) end
              end
  end.

Fixpoint map_files (fs : list (str * list str)) : fail + list (list (Z * Z)) :=
  match fs with
  | [] => inr []
  | f :: r => match map_lines (snd f) with
              | inl e => inl e
              | inr ms => match map_files r with inl e => inl e | inr rest => inr (ms :: rest) end
              end
  end.

(* the region loop over coords[0]: (start_ind, end_ind) *)
Fixpoint cut_scan (ms : list (Z * Z)) (ind start_ind s e len : Z) : Z * Z :=
  match ms with
  | [] => (start_ind, len)
  | m :: r =>
      let si := if (s <=? snd m) && (start_ind <? 0) then ind else start_ind in
      if e <=? snd m then (si, ind + 1) else cut_scan r (ind + 1) si s e len
  end.

(* Python slice l[a:b] *)
Definition pyslice {A} (l : list A) (a b : Z) : list A :=
  let n := lenZ l in
  let lo := if a <? 0 then Z.max (n + a) 0 else Z.min a n in
  let hi := if b <? 0 then Z.max (n + b) 0 else Z.min b n in
  firstn (Z.to_nat (hi - lo)) (skipn (Z.to_nat lo) l).

Definition region_cut (ms : list (Z * Z)) (s e : Z) : list (Z * Z) :=
  let '(si, ei) := cut_scan ms 0 (-1) s e (lenZ ms) in pyslice ms si ei.

(* some requested chromosome has no map among the files *)
Definition has_map (files : list (str * list str)) (c : str) : bool :=
  existsb (fun f => match find_chr (fst f) with Some g => str_eqb g c | None => false end) files.
Definition chrom_unmapped (i : vin) : bool :=
  existsb (fun c => negb (has_map (matching i) c)) (v_chroms i).

(* [legacy_maps]: the pinned tree compared only the NUMBER of matching files
   with the number of chromosomes (two maps for one chromosome hid a missing one) *)
Definition prepare_coords (legacy_maps : bool) (i : vin) : option fail :=
  let files := sort_by file_key (matching i) in
  if negb (lenZ files =? lenZ (v_chroms i)) || (negb legacy_maps && chrom_unmapped i)
  then Some (Rej K_maps_missing)
  else
    match map_files files with
    | inl f => Some f
    | inr coords =>
        match v_region i with
        | Some (s, e) =>
            match coords with
            | [] => Some (Cr E_Index)                       (* coords[0] *)
            | c0 :: _ =>
                match c0 with
                | [] => Some (Cr E_Unbound)                 (* end_ind never assigned *)
                | _ => match region_cut c0 s e with
                       | [] => Some (Cr E_Index)            (* chrom_coord[-1] *)
                       | _ => None
                       end
                end
            end
        | None =>
            if existsb (fun c : list (Z * Z) => match c with [] => true | _ => false end) coords
            then Some (Cr E_Index)
            else match coords with [] => Some (Cr E_Value) (* max([]) *) | _ => None end
        end
    end.

(* everything that happens before the first generation is simulated *)
Definition front (legacy_region legacy_maps : bool) (i : vin) : outcome :=
  match validate_params legacy_region i with
  | inl f => out_of_fail f
  | inr ps => match prepare_coords legacy_maps i with
              | Some f => out_of_fail f
              | None => Accept ps
              end
  end.

(* ---------------------------------------------------------------- CLI: --region / --chroms *)

Fixpoint split_on (p : Z -> bool) (l : str) : list str :=
  match l with
  | [] => [[]]
  | c :: r =>
      match split_on p r with
      | cur :: rest => if p c then [] :: cur :: rest else (c :: cur) :: rest
      | [] => [[]]
      end
  end.

Record cli_args := mkargs { a_chroms : list str; a_region : option (str * Z * Z) }.

(* chroms = None: option not given (click default = all 23 chromosomes) *)
Definition all_chroms_default : str :=
  [49;44;50;44;51;44;52;44;53;44;54;44;55;44;56;44;57;44;49;48;44;49;49;44;49;50;44;49;51;44;
   49;52;44;49;53;44;49;54;44;49;55;44;49;56;44;49;57;44;50;48;44;50;49;44;50;50;44;88].

Definition cli_parse (chroms : option str) (region : option str) : fail + cli_args :=
  let cs := match chroms with Some c => c | None => all_chroms_default end in
  let region_given := match region with Some (_ :: _) => true | _ => false end in
  if negb (match cs with [] => false | _ => true end || region_given) then inl (Rej K_no_chroms)
  else
    match region with
    | Some ((_ :: _) as r) =>
        match split_on (fun c => (c =? 58) || (c =? 45)) r with
        | c :: a :: b :: _ =>
            match parse_int a, parse_int b with
            | Some s, Some e => inr (mkargs [c] (Some (c, s, e)))
            | _, _ => inl (Rej K_region_parse)
            end
        | _ => inl (Rej K_region_parse)
        end
    | _ => inr (mkargs (split_on (fun c => c =? 44) cs) None)
    end.
