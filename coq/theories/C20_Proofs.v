(* C20 - proofs: the decision procedure of the model accepts exactly the
   well-formed inputs; refusals name violated requirements; popsize bound;
   the region test is independent of --only_breakpoint. *)
From HV Require Import Prelude C20_Model C20_Check.
From Coq Require Import QArith Qabs.
Open Scope Z_scope.

(* ------------------------------------------------------------ small reflections *)
Lemma str_eqb_eq a b : str_eqb a b = true <-> a = b.
Proof. apply list_eqb_spec. intros; apply Z.eqb_eq. Qed.

Lemma mem_str_In s l : mem_str s l = true <-> In s l.
Proof.
  unfold mem_str. rewrite existsb_exists. split.
  - intros [x [Hin He]]. apply str_eqb_eq in He. subst; auto.
  - intros H. exists s. split; auto. apply str_eqb_eq; auto.
Qed.

Lemma sum_ok_spec fr : sum_ok fr = true <-> (Qabs (qsum fr - 1) <= tenm6)%Q.
Proof. unfold sum_ok. apply Qle_bool_iff. Qed.

Lemma parse_all_length {X A} (f : X -> option A) l r :
  parse_all f l = Some r -> length r = length l.
Proof.
  revert r. induction l as [|x l IH]; cbn; intros r H.
  - inversion H; reflexivity.
  - destruct (f x); [|discriminate]. destruct (parse_all f l); [|discriminate].
    inversion H; subst. cbn. f_equal. apply IH. reflexivity.
Qed.

Lemma lenZ_cons {A} (a : A) l : lenZ (a :: l) = 1 + lenZ l.
Proof. unfold lenZ. cbn [length]. lia. Qed.

(* ------------------------------------------------------------ header *)
Lemma check_header_ok h n ps :
  check_header h = inr (n, ps) <->
  exists t, split_ws h = t :: ps /\ parse_int t = Some n /\ 3 <= lenZ ps /\ 1 <= n.
Proof.
  unfold check_header. destruct (split_ws h) as [|t pops] eqn:E.
  - split; [discriminate|]. intros [t [H _]]. discriminate.
  - destruct (parse_int t) as [m|] eqn:P.
    + destruct (lenZ pops <? 3) eqn:L.
      * split; [discriminate|]. intros (t' & H & H1 & H2 & H3). inversion H; subst.
        apply Z.ltb_lt in L. lia.
      * destruct (m <? 1) eqn:M.
        -- split; [discriminate|]. intros (t' & H & H1 & H2 & H3). inversion H; subst.
           rewrite P in H1. inversion H1; subst. apply Z.ltb_lt in M. lia.
        -- split.
           ++ intros H. inversion H; subst. exists t. apply Z.ltb_ge in L. apply Z.ltb_ge in M. auto.
           ++ intros (t' & H & H1 & H2 & H3). inversion H; subst. rewrite P in H1.
              inversion H1; subst. reflexivity.
    + split; [discriminate|]. intros (t' & H & H1 & _). inversion H; subst. congruence.
Qed.

(* ------------------------------------------------------------ generation lines *)
Definition line_ok (np prev : Z) (toks : list str) (g : Z) : Prop :=
  first_int toks = Some g /\ prev + 1 <= g /\ lenZ (tl toks) = np /\
  exists fr, parse_all parse_float (tl toks) = Some fr /\ (Qabs (qsum fr - 1) <= tenm6)%Q.

Lemma check_gen_line_ok np prev l g :
  check_gen_line np prev l = inr g <-> line_ok np prev (split_ws l) g.
Proof.
  unfold check_gen_line, line_ok. destruct (split_ws l) as [|t fts] eqn:E; cbn [first_int tl].
  - split; [discriminate|]. intros [H _]. discriminate.
  - destruct (parse_int t) as [g'|] eqn:P.
    2:{ split; [discriminate|]. intros [H _]. discriminate. }
    destruct (parse_all parse_float fts) as [fr|] eqn:F.
    2:{ split; [discriminate|]. intros (_ & _ & _ & fr & H & _). discriminate. }
    assert (HL : lenZ fr = lenZ fts).
    { unfold lenZ. rewrite (parse_all_length _ _ _ F). reflexivity. }
    destruct (lenZ fr =? np) eqn:C; cbn [negb].
    2:{ split; [discriminate|]. intros (_ & _ & H & _). apply Z.eqb_neq in C. lia. }
    apply Z.eqb_eq in C.
    destruct (g' - prev <? 1) eqn:O.
    { split; [discriminate|]. intros (H & H1 & _). inversion H; subst. apply Z.ltb_lt in O. lia. }
    apply Z.ltb_ge in O.
    destruct (sum_ok fr) eqn:S; cbn [negb].
    + apply sum_ok_spec in S. split.
      * intros H. inversion H; subst. split; [reflexivity|]. split; [lia|]. split; [lia|].
        exists fr. auto.
      * intros (H & _). inversion H; subst. reflexivity.
    + split; [discriminate|]. intros (_ & _ & _ & fr' & H & H2). inversion H; subst.
      apply sum_ok_spec in H2. congruence.
Qed.

Definition gens_ok (np prev : Z) (tl_ : list (list str)) : Prop :=
  exists gs, parse_all first_int tl_ = Some gs /\ increasing prev gs /\
    Forall (fun toks => lenZ (tl toks) = np) tl_ /\
    Forall (fun toks => exists fr, parse_all parse_float (tl toks) = Some fr /\
                                   (Qabs (qsum fr - 1) <= tenm6)%Q) tl_.

Lemma gens_ok_cons np prev toks r :
  gens_ok np prev (toks :: r) <-> exists g, line_ok np prev toks g /\ gens_ok np g r.
Proof.
  unfold gens_ok, line_ok. split.
  - intros (gs & HP & HI & HC & HS). cbn [parse_all] in HP.
    destruct (first_int toks) as [g|] eqn:F; [|discriminate].
    destruct (parse_all first_int r) as [gs'|] eqn:PR; [|discriminate].
    inversion HP; subst. cbn [increasing] in HI. destruct HI as [HI1 HI2].
    inversion HC; subst. inversion HS; subst.
    exists g. split; [auto|]. exists gs'. auto.
  - intros (g & (F & HO & HC & HS) & gs & HP & HI & HC' & HS').
    exists (g :: gs). cbn [parse_all increasing]. rewrite F, HP. auto.
Qed.

Lemma check_gens_ok np lines : forall prev,
  check_gens np prev lines = None <-> gens_ok np prev (map split_ws lines).
Proof.
  induction lines as [|l r IH]; intros prev; cbn [check_gens map].
  - split; [|reflexivity]. intros _. exists []. cbn. auto.
  - rewrite gens_ok_cons. destruct (check_gen_line np prev l) as [f|g] eqn:E.
    + split; [discriminate|]. intros (g & H & _). apply check_gen_line_ok in H. congruence.
    + rewrite IH. split.
      * intros H. exists g. split; [apply check_gen_line_ok; exact E|exact H].
      * intros (g' & H & H2). apply check_gen_line_ok in H. rewrite E in H. inversion H; subst. exact H2.
Qed.

(* ------------------------------------------------------------ chromosomes, region *)
Lemma find_invalid_none l :
  find (fun c => negb (valid_chrom c)) l = None <-> Forall (fun c => valid_chrom c = true) l.
Proof.
  induction l as [|c l IH]; cbn [find].
  - split; auto.
  - destruct (valid_chrom c) eqn:V; cbn [negb].
    + rewrite IH. split; intros H; [constructor; auto|inversion H; auto].
    + split; [discriminate|]. intros H. inversion H; congruence.
Qed.

Lemma check_region_none i : check_region i = None <-> R_region i.
Proof.
  unfold check_region, R_region. destruct (v_region i) as [[s e]|].
  - destruct (e <? s) eqn:E.
    + split; [discriminate|]. intros H. specialize (H s e eq_refl). apply Z.ltb_lt in E. lia.
    + split; [|reflexivity]. intros _ s' e' H. inversion H; subst. apply Z.ltb_ge in E. exact E.
  - split; [|reflexivity]. intros _ s e H. discriminate.
Qed.

(* ------------------------------------------------------------ reference and sample info *)
Lemma check_sinfo_ok pops ref lines rows :
  check_sinfo pops ref lines = inr rows <->
  parse_all sinfo_row lines = Some rows /\
  Forall (fun r : str * str => In (snd r) pops -> In (fst r) ref) rows.
Proof.
  revert rows. induction lines as [|l r IH]; intros rows; cbn [check_sinfo parse_all].
  - split.
    + intros H. inversion H; subst. auto.
    + intros [H _]. inversion H; subst. reflexivity.
  - unfold sinfo_row at 1. destruct (split_ws l) as [|s [|p rest]].
    + split; [discriminate|]. intros [H _]. discriminate.
    + split; [discriminate|]. intros [H _]. discriminate.
    + destruct (negb (mem_str s ref) && mem_str p pops) eqn:B.
      * split; [discriminate|]. intros [H HF].
        destruct (parse_all sinfo_row r); [|discriminate]. inversion H; subst.
        inversion HF; subst. cbn [fst snd] in *.
        apply andb_true_iff in B. destruct B as [B1 B2]. apply mem_str_In in B2.
        apply H2 in B2. apply mem_str_In in B2. rewrite B2 in B1. discriminate.
      * destruct (check_sinfo pops ref r) as [f|rows'] eqn:C.
        -- split; [discriminate|]. intros [H HF].
           destruct (parse_all sinfo_row r) as [rr|]; [|discriminate]. inversion H; subst.
           inversion HF; subst. destruct (IH rr) as [_ X]. specialize (X (conj eq_refl H3)). discriminate.
        -- destruct (IH rows') as [IH1 _]. destruct (IH1 eq_refl) as [HP HF]. split.
           ++ intros H. inversion H; subst. rewrite HP. split; [reflexivity|].
              constructor; [|exact HF]. cbn [fst snd]. intros Hp.
              apply mem_str_In in Hp. rewrite Hp in B. rewrite andb_true_r in B.
              apply negb_false_iff in B. apply mem_str_In. exact B.
           ++ intros [H _]. rewrite HP in H. inversion H; subst. reflexivity.
Qed.

Lemma has_pop_spec p (rows : list (str * str)) :
  existsb (fun row : str * str => str_eqb (snd row) p) rows = true <-> exists s, In (s, p) rows.
Proof.
  rewrite existsb_exists. split.
  - intros [[s q] [Hin He]]. cbn in He. apply str_eqb_eq in He. subst. exists s; auto.
  - intros [s H]. exists (s, p). split; auto. cbn. apply str_eqb_eq. reflexivity.
Qed.

Lemma check_model_pops_none norepl n rows src :
  check_model_pops norepl n rows src = None <->
  Forall (fun p => (exists s, In (s, p) rows) /\ (norepl = true -> n <= count_pop p rows)) src.
Proof.
  induction src as [|p r IH]; cbn [check_model_pops].
  - split; auto.
  - destruct (existsb (fun row : str * str => str_eqb (snd row) p) rows) eqn:E; cbn [negb].
    + apply has_pop_spec in E. destruct (norepl && (count_pop p rows <? n)) eqn:B.
      * split; [discriminate|]. intros H. inversion H; subst. destruct H2 as [_ H2].
        apply andb_true_iff in B. destruct B as [B1 B2]. apply Z.ltb_lt in B2. specialize (H2 B1). lia.
      * rewrite IH. split.
        -- intros H. constructor; [|exact H]. split; [exact E|]. intros ->.
           cbn in B. apply Z.ltb_ge in B. exact B.
        -- intros H. inversion H; auto.
    + split; [discriminate|]. intros H. inversion H; subst. destruct H2 as [H2 _].
      apply has_pop_spec in H2. congruence.
Qed.

(* ------------------------------------------------------------ validate_params *)
Definition validated (i : vin) (ps : Z) : Prop :=
  exists t n, header_toks i = t :: pops i /\ parse_int t = Some n /\ 3 <= lenZ (pops i) /\ 1 <= n /\
    gens_ok (lenZ (pops i)) 0 (gen_toks i) /\
    v_isdir i = true /\ Forall (fun c => valid_chrom c = true) (v_chroms i) /\ matching i <> [] /\
    0 < v_popsize i /\ ps = Z.max (v_popsize i) (10 * n) /\ R_region i /\
    (v_only_bp i = true \/
     exists ref rows, v_ref i = Some ref /\ sinfo_rows i = Some rows /\
       Forall (fun r : str * str => In (snd r) (pops i) -> In (fst r) ref) rows /\
       Forall (fun p => (exists s, In (s, p) rows) /\ (v_norepl i = true -> n <= count_pop p rows))
              (tl (pops i))).

Lemma validate_params_ok i ps : validate_params false i = inr ps <-> validated i ps.
Proof.
  unfold validate_params, validated, header_toks, pops.
  destruct (check_header (v_header i)) as [f|[n pp]] eqn:H.
  { split; [discriminate|]. intros (t & n & E & P & L & N & _).
    assert (X : check_header (v_header i) = inr (n, tl (split_ws (v_header i)))).
    { apply check_header_ok. exists t. unfold header_toks, pops in *. auto. }
    congruence. }
  apply check_header_ok in H. destruct H as (t & E & P & L & N).
  unfold header_toks. rewrite E. cbn [tl].
  destruct (check_gens (lenZ pp) 0 (v_gens i)) as [f|] eqn:G.
  { split; [discriminate|]. intros (t' & n' & _ & _ & _ & _ & HG & _).
    apply check_gens_ok in HG. congruence. }
  apply check_gens_ok in G.
  destruct (v_isdir i) eqn:D; cbn [negb].
  2:{ split; [discriminate|]. intros (t' & n' & _ & _ & _ & _ & _ & HD & _). discriminate. }
  destruct (find (fun c => negb (valid_chrom c)) (v_chroms i)) eqn:F.
  { split; [discriminate|]. intros (t' & n' & _ & _ & _ & _ & _ & _ & HC & _).
    apply find_invalid_none in HC. congruence. }
  apply find_invalid_none in F.
  destruct (matching i) as [|m0 mr] eqn:M.
  { split; [discriminate|]. intros (t' & n' & _ & _ & _ & _ & _ & _ & _ & HM & _). congruence. }
  destruct (v_popsize i <=? 0) eqn:PS.
  { split; [discriminate|]. intros (t' & n' & _ & _ & _ & _ & _ & _ & _ & _ & HP & _).
    apply Z.leb_le in PS. lia. }
  apply Z.leb_gt in PS.
  destruct (check_region i) as [f|] eqn:R.
  { split; [discriminate|]. intros (t' & n' & _ & _ & _ & _ & _ & _ & _ & _ & _ & _ & HR & _).
    apply check_region_none in HR. congruence. }
  apply check_region_none in R.
  destruct (v_only_bp i) eqn:OB.
  { split.
    - intros H. inversion H; subst. exists t, n. repeat (split; [first [assumption|reflexivity|discriminate]|]).
      left; reflexivity.
    - intros (t' & n' & E' & P' & _ & _ & _ & _ & _ & _ & _ & HPS & _).
      inversion E'; subst. rewrite P in P'. inversion P'; subst. reflexivity. }
  unfold orelse. unfold check_reference.
  destruct (v_ref i) as [ref|] eqn:RF.
  2:{ split; [discriminate|]. intros (t' & n' & _ & _ & _ & _ & _ & _ & _ & _ & _ & _ & _ & [HO|(ref & rows & HR & _)]);
      discriminate. }
  destruct (check_sinfo pp ref (v_sinfo i)) as [f|rows] eqn:SI.
  { split; [discriminate|].
    intros (t' & n' & E' & _ & _ & _ & _ & _ & _ & _ & _ & _ & _ & [HO|(ref' & rows & HR & HS & HF & _)]); [discriminate|].
    inversion E'; subst. inversion HR; subst.
    assert (X : check_sinfo pp ref' (v_sinfo i) = inr rows) by (apply check_sinfo_ok; auto).
    congruence. }
  apply check_sinfo_ok in SI. destruct SI as [SI1 SI2].
  destruct (check_model_pops (v_norepl i) n rows (tl pp)) as [f|] eqn:MP.
  { split; [discriminate|].
    intros (t' & n' & E' & P' & _ & _ & _ & _ & _ & _ & _ & _ & _ & [HO|(ref' & rows' & HR & HS & HF & HM)]); [discriminate|].
    inversion E'; subst. rewrite P in P'. inversion P'; subst. unfold sinfo_rows in HS. rewrite SI1 in HS.
    inversion HS; subst. apply check_model_pops_none in HM. congruence. }
  apply check_model_pops_none in MP.
  split.
  - intros H. inversion H; subst. exists t, n. repeat (split; [first [assumption|reflexivity|discriminate]|]).
    right. exists ref, rows. auto.
  - intros (t' & n' & E' & P' & _ & _ & _ & _ & _ & _ & _ & HPS & _).
    inversion E'; subst. rewrite P in P'. inversion P'; subst. reflexivity.
Qed.

(* ------------------------------------------------------------ _prepare_coords *)
Lemma insert_by_length {A} (key : A -> Z) (x : A) l : length (insert_by key x l) = S (length l).
Proof.
  induction l as [|y r IH]; cbn [insert_by]; [reflexivity|].
  destruct (key x <=? key y); cbn [length]; [reflexivity|]. rewrite IH. reflexivity.
Qed.

Lemma sort_by_length {A} (key : A -> Z) (l : list A) : length (sort_by key l) = length l.
Proof.
  unfold sort_by. induction l as [|x r IH]; cbn [fold_right]; [reflexivity|].
  rewrite insert_by_length. cbn [length]. rewrite IH. reflexivity.
Qed.

Lemma map_files_length fs : forall cs, map_files fs = inr cs -> length cs = length fs.
Proof.
  induction fs as [|f r IH]; cbn [map_files]; intros cs H.
  - inversion H; reflexivity.
  - destruct (map_lines (snd f)); [discriminate|]. destruct (map_files r); [discriminate|].
    inversion H; subst. cbn [length]. f_equal. apply IH. reflexivity.
Qed.

Lemma existsb_false {A} (f : A -> bool) l :
  existsb f l = false <-> forall x, In x l -> f x = false.
Proof.
  induction l as [|a r IH]; cbn [existsb].
  - split; [intros _ x []|reflexivity].
  - rewrite orb_false_iff, IH. split.
    + intros [H1 H2] x [<-|Hx]; auto.
    + intros H. split; [apply H; left; reflexivity|]. intros x Hx. apply H. right. exact Hx.
Qed.

Lemma has_map_spec files c :
  has_map files c = true <-> exists f, In f files /\ find_chr (fst f) = Some c.
Proof.
  unfold has_map. rewrite existsb_exists. split.
  - intros [f [Hin H]]. exists f. split; [exact Hin|].
    destruct (find_chr (fst f)) as [g|]; [|discriminate]. apply str_eqb_eq in H. subst. reflexivity.
  - intros [f [Hin H]]. exists f. split; [exact Hin|]. rewrite H. apply str_eqb_eq. reflexivity.
Qed.

Lemma chrom_unmapped_false i :
  chrom_unmapped i = false <->
  forall c, In c (v_chroms i) -> exists f, In f (matching i) /\ find_chr (fst f) = Some c.
Proof.
  unfold chrom_unmapped. rewrite existsb_false. split.
  - intros H c Hc. apply has_map_spec. specialize (H c Hc). apply negb_false_iff in H. exact H.
  - intros H c Hc. apply negb_false_iff. apply has_map_spec. apply H. exact Hc.
Qed.

Lemma region_cut_nil s e : region_cut [] s e = [].
Proof. reflexivity. Qed.

Lemma no_empty_spec (coords : list (list (Z * Z))) :
  existsb (fun c : list (Z * Z) => match c with [] => true | _ => false end) coords = false <->
  Forall (fun c : list (Z * Z) => c <> []) coords.
Proof.
  rewrite existsb_false, Forall_forall. split.
  - intros H c Hc ->. specialize (H [] Hc). discriminate.
  - intros H c Hc. specialize (H c Hc). destruct c; [congruence|reflexivity].
Qed.

Lemma prepare_coords_none i : matching i <> [] ->
  (prepare_coords false i = None <->
   length (matching i) = length (v_chroms i) /\
   (forall c, In c (v_chroms i) -> exists f, In f (matching i) /\ find_chr (fst f) = Some c) /\
   R_maplines i).
Proof.
  intros HM. unfold prepare_coords, R_maplines, coords_of. cbn [negb andb].
  destruct (lenZ (sort_by file_key (matching i)) =? lenZ (v_chroms i)) eqn:LN; cbn [negb orb].
  2:{ split; [discriminate|]. intros [H _]. apply Z.eqb_neq in LN. unfold lenZ in LN.
      rewrite sort_by_length in LN. lia. }
  apply Z.eqb_eq in LN. unfold lenZ in LN. rewrite sort_by_length in LN.
  assert (LN' : length (matching i) = length (v_chroms i)) by lia.
  destruct (chrom_unmapped i) eqn:CU.
  { split; [discriminate|]. intros (_ & H & _). apply chrom_unmapped_false in H. congruence. }
  pose proof (proj1 (chrom_unmapped_false i) CU) as CU'. clear CU. rename CU' into CU.
  destruct (map_files (sort_by file_key (matching i))) as [f|coords] eqn:MF.
  { split; [discriminate|]. intros (_ & _ & cs & H & _). discriminate. }
  assert (LC : length coords = length (matching i)).
  { rewrite (map_files_length _ _ MF). apply sort_by_length. }
  destruct (v_region i) as [[s e]|].
  - destruct coords as [|c0 rest].
    { split; [discriminate|]. intros (_ & _ & cs & H & c0 & rest & -> & _). discriminate. }
    destruct c0 as [|m0 c0].
    { split; [discriminate|]. intros (_ & _ & cs & H & c0 & rest' & -> & H3). inversion H; subst.
      rewrite region_cut_nil in H3. congruence. }
    destruct (region_cut (m0 :: c0) s e) as [|x xs] eqn:RC.
    { split; [discriminate|]. intros (_ & _ & cs & H & c0' & rest' & -> & H3). inversion H; subst.
      congruence. }
    split; [|reflexivity]. intros _. split; [exact LN'|]. split; [exact CU|].
    exists ((m0 :: c0) :: rest). split; [reflexivity|]. exists (m0 :: c0), rest. split; [reflexivity|].
    rewrite RC. discriminate.
  - destruct (existsb (fun c : list (Z * Z) => match c with [] => true | _ => false end) coords) eqn:EX.
    { split; [discriminate|]. intros (_ & _ & cs & H & H2). inversion H; subst.
      apply no_empty_spec in H2. congruence. }
    apply no_empty_spec in EX.
    destruct coords as [|c0 rest].
    { exfalso. cbn in LC. destruct (matching i); [congruence|discriminate]. }
    split; [|reflexivity]. intros _. split; [exact LN'|]. split; [exact CU|].
    exists (c0 :: rest). split; [reflexivity|exact EX].
Qed.

(* ------------------------------------------------------------ main theorems *)
Lemma wellformed_validated i : WellFormed i <->
  (exists ps, validated i ps) /\
  length (matching i) = length (v_chroms i) /\
  (forall c, In c (v_chroms i) -> exists f, In f (matching i) /\ find_chr (fst f) = Some c) /\
  R_maplines i.
Proof.
  unfold WellFormed, validated, R_samples, R_pops, R_gens, R_fcount, R_fsum, R_chroms, R_maps,
    R_popsize, R_reference, R_norepl, nsamples, gens_ok. split.
  - intros ((n & HN & HN1) & (HT & HP) & (gs & HG & HI) & HC & HS & HCH & (HD & HNE & HMAP & HLEN)
            & HML & HPS & HREF & HNR & HRG).
    unfold pops in *. destruct (header_toks i) as [|t pp] eqn:E; [exfalso; apply HT; reflexivity|]. cbn [tl first_int] in *.
    split; [|auto].
    exists (Z.max (v_popsize i) (10 * n)), t, n.
    split; [reflexivity|]. split; [exact HN|]. split; [exact HP|]. split; [exact HN1|].
    split; [exists gs; auto|]. split; [exact HD|]. split; [exact HCH|].
    split.
    { intros HM. rewrite HM in HLEN. destruct (v_chroms i); [congruence|discriminate]. }
    split; [exact HPS|]. split; [reflexivity|]. split; [exact HRG|].
    destruct (v_only_bp i) eqn:OB; [left; reflexivity|].
    destruct HREF as [HO|(ref & rows & HR & HSI & HA & HB)]; [discriminate|].
    right. exists ref, rows. split; [exact HR|]. split; [exact HSI|]. split.
    + apply Forall_forall. intros [s p] Hin. cbn [fst snd]. apply HA. exact Hin.
    + apply Forall_forall. intros p Hp. split; [apply HB; exact Hp|].
      intros NR. destruct HNR as [HO|[HF|HNR]].
      * discriminate.
      * congruence.
      * eapply HNR; eauto.
  - intros ((ps & t & n & E & P & L & N & (gs & HG & HI & HC & HS) & HD & HCH & HM & HPS & HPSE & HRG & HREF)
            & HLEN & HMAP & HML).
    unfold pops in *. rewrite E in *. cbn [tl first_int] in *.
    split; [exists n; auto|]. split; [split; [discriminate|exact L]|].
    split; [exists gs; auto|]. split; [exact HC|]. split; [exact HS|]. split; [exact HCH|].
    split.
    { split; [exact HD|]. split; [|split; [exact HMAP|exact HLEN]].
      intros HE. rewrite HE in HLEN. destruct (matching i); [congruence|discriminate]. }
    split; [exact HML|]. split; [exact HPS|].
    destruct HREF as [HO|(ref & rows & HR & HSI & HA & HB)].
    + split; [left; exact HO|]. split; [left; exact HO|exact HRG].
    + split.
      * right. exists ref, rows. split; [exact HR|]. split; [exact HSI|]. split.
        -- intros s p Hin Hp. rewrite Forall_forall in HA. apply (HA (s, p) Hin Hp).
        -- intros p Hp. rewrite Forall_forall in HB. apply (HB p Hp).
      * split; [|exact HRG]. destruct (v_norepl i) eqn:NR; [|right; left; reflexivity].
        right. right. intros n' rows' Hn Hrows p Hp. rewrite P in Hn. inversion Hn; subst.
        rewrite HSI in Hrows. inversion Hrows; subst.
        rewrite Forall_forall in HB. apply (HB p Hp). reflexivity.
Qed.

Lemma out_of_fail_not_accept f ps : out_of_fail f <> Accept ps.
Proof. destruct f; discriminate. Qed.

Lemma validated_matching i ps : validated i ps -> matching i <> [].
Proof. intros (t & n & _ & _ & _ & _ & _ & _ & _ & H & _). exact H. Qed.

Lemma validated_fun i ps ps' : validated i ps -> validated i ps' -> ps = ps'.
Proof.
  intros H H'. apply validate_params_ok in H. apply validate_params_ok in H'. congruence.
Qed.

Lemma front_accept_iff i ps :
  front false false i = Accept ps <->
  validated i ps /\ length (matching i) = length (v_chroms i) /\
  (forall c, In c (v_chroms i) -> exists f, In f (matching i) /\ find_chr (fst f) = Some c) /\
  R_maplines i.
Proof.
  unfold front. destruct (validate_params false i) as [f|ps'] eqn:V.
  - split.
    + intros H. exfalso. eapply out_of_fail_not_accept; eauto.
    + intros [H _]. apply validate_params_ok in H. congruence.
  - apply validate_params_ok in V. pose proof (validated_matching _ _ V) as HM.
    destruct (prepare_coords false i) as [f|] eqn:P.
    + split.
      * intros H. exfalso. eapply out_of_fail_not_accept; eauto.
      * intros (_ & H). apply (prepare_coords_none i HM) in H. congruence.
    + apply (prepare_coords_none i HM) in P. split.
      * intros H. inversion H; subst. auto.
      * intros [H _]. f_equal. eapply validated_fun; eauto.
Qed.

Lemma validate_iff_wellformed_l i :
  (exists ps, front false false i = Accept ps) <-> WellFormed i.
Proof.
  rewrite wellformed_validated. split.
  - intros [ps H]. apply front_accept_iff in H. destruct H as [H1 H2]. split; [exists ps; exact H1|exact H2].
  - intros [[ps H1] H2]. exists ps. apply front_accept_iff. auto.
Qed.

Lemma accepted_popsize_l i ps :
  front false false i = Accept ps ->
  exists n, nsamples i = Some n /\ ps = Z.max (v_popsize i) (10 * n) /\ 10 * n <= ps /\ v_popsize i <= ps.
Proof.
  intros H. apply front_accept_iff in H. destruct H as [(t & n & E & P & _ & _ & _ & _ & _ & _ & _ & HPS & _) _].
  exists n. unfold nsamples. rewrite E. cbn [first_int]. split; [exact P|]. split; [exact HPS|]. lia.
Qed.

(* the region test does not depend on --only_breakpoint (nor on the map test's version) *)
Lemma region_checked_always_l lm i s e :
  v_region i = Some (s, e) -> e < s -> forall ps, front false lm i <> Accept ps.
Proof.
  intros HR Hlt ps. unfold front.
  destruct (validate_params false i) as [f|ps'] eqn:V; [apply out_of_fail_not_accept|].
  exfalso. apply validate_params_ok in V.
  destruct V as (t & n & _ & _ & _ & _ & _ & _ & _ & _ & _ & _ & HRG & _).
  specialize (HRG s e HR). lia.
Qed.

Definition with_only_bp (i : vin) (b : bool) : vin :=
  mkvin (v_header i) (v_gens i) (v_isdir i) (v_chroms i) (v_files i) (v_popsize i) b
        (v_ref i) (v_sinfo i) (v_norepl i) (v_region i).

Lemma region_refusal_flag_independent_l i s e b b' :
  v_region i = Some (s, e) -> e < s ->
  validate_params false (with_only_bp i b) = validate_params false (with_only_bp i b').
Proof.
  intros HR Hlt. unfold validate_params, matching, check_region.
  cbn [with_only_bp v_header v_gens v_isdir v_chroms v_files v_popsize v_region].
  destruct (check_header (v_header i)) as [f|[n pp]]; [reflexivity|].
  destruct (check_gens (lenZ pp) 0 (v_gens i)); [reflexivity|].
  destruct (v_isdir i); cbn [negb]; [|reflexivity].
  destruct (find (fun c => negb (valid_chrom c)) (v_chroms i)); [reflexivity|].
  destruct (filter (file_chr_in (v_chroms i)) (v_files i)); [reflexivity|].
  destruct (v_popsize i <=? 0); [reflexivity|].
  rewrite HR. apply Z.ltb_lt in Hlt. rewrite Hlt. reflexivity.
Qed.

(* ------------------------------------------------------------ the pinned tree *)
Definition S_ (l : list Z) : str := l.
(* "2\tAdmixed\tA\tB" / "1\t0\t0.5\t0.5" / "3\t1\t0\t0"; maps/g.chr1.map with markers 100, 200, 300 *)
Definition witness_base (chroms : list str) (files : list (str * list str)) (region : option (Z * Z)) : vin :=
  mkvin [50;9;65;100;109;105;120;101;100;9;65;9;66]
        [[49;9;48;9;48;46;53;9;48;46;53]; [51;9;49;9;48;9;48]]
        true chroms files 10 true None [] false region.
Definition map1_lines : list str :=
  [[49;9;46;9;48;46;48;9;49;48;48]; [49;9;46;9;53;48;46;48;9;50;48;48]; [49;9;46;9;49;50;48;46;48;9;51;48;48]].
Definition file_chr1 : str * list str :=
  ([109;97;112;115;47;103;46;99;104;114;49;46;109;97;112], map1_lines).          (* maps/g.chr1.map *)
Definition file_chr1_copy : str * list str :=
  ([109;97;112;115;47;99;111;112;121;46;99;104;114;49;46;109;97;112], map1_lines). (* maps/copy.chr1.map *)

Definition w_region_crash := witness_base [[49]] [file_chr1] (Some (250, 150)).
Definition w_region_runs := witness_base [[49]] [file_chr1] (Some (250, 220)).
Definition w_maps := witness_base [[49]; [50]] [file_chr1; file_chr1_copy] None.

Lemma legacy_region_onlybp_refuted_l :
  front true false w_region_crash = Crash E_Index /\       (* IndexError in _prepare_coords *)
  front true false w_region_runs = Accept 20 /\            (* accepted, and the run completes *)
  front false false w_region_crash = Reject K_region /\
  front false false w_region_runs = Reject K_region.
Proof. vm_compute. repeat split. Qed.

Lemma legacy_map_count_refuted_l :
  front false true w_maps = Accept 20 /\                   (* chromosome 2 has no map *)
  has_map (matching w_maps) [50] = false /\
  front false false w_maps = Reject K_maps_missing.
Proof. vm_compute. repeat split. Qed.

(* the pinned tree searched the chromosome in the whole path: in a directory called
   maps_chr22 the (complete) map set of chromosome 1 was not found *)
Definition file_chr1_in_chr22_dir : str * list str :=
  ([109;97;112;115;95;99;104;114;50;50;47;103;46;99;104;114;49;46;109;97;112], map1_lines). (* maps_chr22/g.chr1.map *)
Definition file_chr1_name_only : str * list str :=
  ([103;46;99;104;114;49;46;109;97;112], map1_lines).                                         (* g.chr1.map *)

Lemma legacy_dirname_refuted_l :
  front false false (witness_base [[49]] [file_chr1_in_chr22_dir] None) = Reject K_no_maps /\
  front false false (witness_base [[49]] [file_chr1_name_only] None) = Accept 20.
Proof. vm_compute. split; reflexivity. Qed.

Lemma wellformed_satisfiable_l : WellFormed (witness_base [[49]] [file_chr1] (Some (150, 250))).
Proof. apply validate_iff_wellformed_l. exists 20. vm_compute. reflexivity. Qed.
