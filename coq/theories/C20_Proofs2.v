(* C20 - every deliberate refusal of the model names a requirement the input
   really violates; soundness of the boolean checker [holds_outcome]; the CLI. *)
From HV Require Import Prelude C20_Model C20_Check C20_Proofs.
From Coq Require Import QArith Qabs.
Open Scope Z_scope.

Ltac names R := split; [vm_compute; discriminate | change (~ R)].

(* ------------------------------------------------------------ header *)
Lemma check_header_rej h k :
  check_header h = inl (Rej k) ->
  (k = K_samples_int /\ first_int (split_ws h) = None /\ split_ws h <> []) \/
  (k = K_num_pops /\ lenZ (tl (split_ws h)) < 3) \/
  (k = K_samples_lt1 /\ exists n, first_int (split_ws h) = Some n /\ n < 1).
Proof.
  unfold check_header. destruct (split_ws h) as [|t pp]; [discriminate|]. cbn [first_int tl].
  destruct (parse_int t) as [n|].
  - destruct (lenZ pp <? 3) eqn:L.
    + intros H. inversion H; subst. right; left. apply Z.ltb_lt in L. auto.
    + destruct (n <? 1) eqn:N; [|discriminate]. intros H. inversion H; subst.
      right; right. apply Z.ltb_lt in N. split; [reflexivity|]. exists n. auto.
  - intros H. inversion H; subst. left. split; [reflexivity|]. split; [reflexivity|discriminate].
Qed.

(* ------------------------------------------------------------ generation lines *)
Definition P_int (tl_ : list (list str)) : Prop := exists gs, parse_all first_int tl_ = Some gs.
Definition P_incr (prev : Z) (tl_ : list (list str)) : Prop :=
  exists gs, parse_all first_int tl_ = Some gs /\ increasing prev gs.
Definition P_count (np : Z) (tl_ : list (list str)) : Prop :=
  Forall (fun toks => lenZ (tl toks) = np) tl_.
Definition P_sum (tl_ : list (list str)) : Prop :=
  Forall (fun toks => exists fr, parse_all parse_float (tl toks) = Some fr /\
                                 (Qabs (qsum fr - 1) <= tenm6)%Q) tl_.

Lemma check_gen_line_rej np prev l k :
  check_gen_line np prev l = inl (Rej k) ->
  (k = K_gen_int /\ first_int (split_ws l) = None) \/
  (k = K_frac_float /\ parse_all parse_float (tl (split_ws l)) = None) \/
  (k = K_frac_count /\ lenZ (tl (split_ws l)) <> np) \/
  (k = K_gen_order /\ exists g, first_int (split_ws l) = Some g /\ g < prev + 1) \/
  (k = K_frac_sum /\ exists fr, parse_all parse_float (tl (split_ws l)) = Some fr /\
                                ~ (Qabs (qsum fr - 1) <= tenm6)%Q).
Proof.
  unfold check_gen_line. destruct (split_ws l) as [|t fts]; [discriminate|]. cbn [first_int tl].
  destruct (parse_int t) as [g|]; [|intros H; inversion H; subst; left; auto].
  destruct (parse_all parse_float fts) as [fr|] eqn:F; [|intros H; inversion H; subst; right; left; auto].
  assert (HL : lenZ fr = lenZ fts).
  { unfold lenZ. rewrite (parse_all_length _ _ _ F). reflexivity. }
  destruct (lenZ fr =? np) eqn:C; cbn [negb].
  2:{ intros H; inversion H; subst. right; right; left. apply Z.eqb_neq in C. split; [reflexivity|lia]. }
  destruct (g - prev <? 1) eqn:O.
  { intros H; inversion H; subst. right; right; right; left. apply Z.ltb_lt in O.
    split; [reflexivity|]. exists g. split; [reflexivity|lia]. }
  destruct (sum_ok fr) eqn:S; cbn [negb]; [discriminate|].
  intros H; inversion H; subst. right; right; right; right. split; [reflexivity|].
  exists fr. split; [reflexivity|]. intros HS. apply sum_ok_spec in HS. congruence.
Qed.

Lemma check_gen_line_inr np prev l g :
  check_gen_line np prev l = inr g -> first_int (split_ws l) = Some g.
Proof. intros H. apply check_gen_line_ok in H. destruct H as [H _]. exact H. Qed.

Lemma check_gens_rej np lines : forall prev k,
  check_gens np prev lines = Some (Rej k) ->
  (k = K_gen_int /\ ~ P_int (map split_ws lines)) \/
  (k = K_frac_float /\ ~ P_sum (map split_ws lines)) \/
  (k = K_frac_count /\ ~ P_count np (map split_ws lines)) \/
  (k = K_gen_order /\ ~ P_incr prev (map split_ws lines)) \/
  (k = K_frac_sum /\ ~ P_sum (map split_ws lines)).
Proof.
  induction lines as [|l r IH]; intros prev k; cbn [check_gens map]; [discriminate|].
  destruct (check_gen_line np prev l) as [f|g] eqn:E.
  - intros H. inversion H; subst. apply check_gen_line_rej in E.
    destruct E as [[-> E]|[[-> E]|[[-> E]|[[-> E]|[-> E]]]]].
    + left. split; [reflexivity|]. intros [gs H1]. cbn [parse_all] in H1. rewrite E in H1. discriminate.
    + right; left. split; [reflexivity|]. intros H1. apply Forall_inv in H1.
      destruct H1 as (fr & H3 & _). congruence.
    + right; right; left. split; [reflexivity|]. intros H1. apply Forall_inv in H1. congruence.
    + right; right; right; left. split; [reflexivity|]. destruct E as (g & E1 & E2).
      intros (gs & H1 & H2). cbn [parse_all] in H1. rewrite E1 in H1.
      destruct (parse_all first_int (map split_ws r)); [|discriminate]. inversion H1; subst.
      cbn [increasing] in H2. lia.
    + right; right; right; right. split; [reflexivity|]. destruct E as (fr & E1 & E2).
      intros H1. apply Forall_inv in H1. destruct H1 as (fr' & H3 & H4). rewrite E1 in H3.
      inversion H3; subst. contradiction.
  - intros H. pose proof (check_gen_line_inr _ _ _ _ E) as FI. apply check_gen_line_ok in E.
    destruct E as (_ & HO & HC & HS).
    apply IH in H. destruct H as [[-> H]|[[-> H]|[[-> H]|[[-> H]|[-> H]]]]].
    + left. split; [reflexivity|]. intros [gs H1]. apply H. cbn [parse_all] in H1. rewrite FI in H1.
      destruct (parse_all first_int (map split_ws r)) as [gs'|] eqn:PR; [|discriminate]. exists gs'. exact PR.
    + right; left. split; [reflexivity|]. intros H1. apply Forall_inv_tail in H1. auto.
    + right; right; left. split; [reflexivity|]. intros H1. apply Forall_inv_tail in H1. auto.
    + right; right; right; left. split; [reflexivity|]. intros (gs & H1 & H2). apply H.
      cbn [parse_all] in H1. rewrite FI in H1.
      destruct (parse_all first_int (map split_ws r)) as [gs'|] eqn:PR; [|discriminate]. inversion H1; subst.
      cbn [increasing] in H2. exists gs'. split; [exact PR|tauto].
    + right; right; right; right. split; [reflexivity|]. intros H1. apply Forall_inv_tail in H1. auto.
Qed.

(* ------------------------------------------------------------ reference *)
Lemma check_sinfo_rej pops ref lines k :
  check_sinfo pops ref lines = inl (Rej k) -> k = K_sample_absent.
Proof.
  induction lines as [|l r IH]; cbn [check_sinfo]; [discriminate|].
  destruct (split_ws l) as [|s [|p rest]]; try discriminate.
  destruct (negb (mem_str s ref) && mem_str p pops).
  - intros H; inversion H; reflexivity.
  - destruct (check_sinfo pops ref r); [|discriminate]. intros H; inversion H; subst. apply IH. reflexivity.
Qed.

Lemma check_model_pops_rej norepl n rows src k :
  check_model_pops norepl n rows src = Some (Rej k) ->
  (k = K_pop_absent /\ exists p, In p src /\ ~ exists s, In (s, p) rows) \/
  (k = K_norepl /\ norepl = true /\ exists p, In p src /\ count_pop p rows < n).
Proof.
  induction src as [|p r IH]; cbn [check_model_pops]; [discriminate|].
  destruct (existsb (fun row : str * str => str_eqb (snd row) p) rows) eqn:E; cbn [negb].
  - destruct (norepl && (count_pop p rows <? n)) eqn:B.
    + intros H; inversion H; subst. right. apply andb_true_iff in B. destruct B as [B1 B2].
      apply Z.ltb_lt in B2. split; [reflexivity|]. split; [exact B1|]. exists p. split; [left; reflexivity|exact B2].
    + intros H. apply IH in H. destruct H as [(-> & q & Hq & H)|(-> & HN & q & Hq & H)].
      * left. split; [reflexivity|]. exists q. split; [right; exact Hq|exact H].
      * right. split; [reflexivity|]. split; [exact HN|]. exists q. split; [right; exact Hq|exact H].
  - intros H; inversion H; subst. left. split; [reflexivity|]. exists p. split; [left; reflexivity|].
    intros HX. apply has_pop_spec in HX. congruence.
Qed.

(* ------------------------------------------------------------ maps *)
Lemma map_line_rej l k : map_line l = inl (Rej k) -> k = K_map_fields.
Proof.
  unfold map_line. destruct (split_ws l) as [|c [|x [|m [|b [|y r]]]]]; try (intros H; inversion H; reflexivity).
  destruct (if str_eqb c [88] then Some 23 else parse_int c); [|discriminate].
  destruct (parse_float m); [|discriminate]. destruct (parse_int b); discriminate.
Qed.

Lemma map_lines_rej ls k : map_lines ls = inl (Rej k) -> k = K_map_fields.
Proof.
  induction ls as [|l r IH]; cbn [map_lines]; [discriminate|].
  destruct (map_line l) as [f|m] eqn:E.
  - intros H; inversion H; subst. eapply map_line_rej; eauto.
  - destruct (map_lines r); [|discriminate]. intros H; inversion H; subst. apply IH. reflexivity.
Qed.

Lemma map_files_rej fs k : map_files fs = inl (Rej k) -> k = K_map_fields.
Proof.
  induction fs as [|f r IH]; cbn [map_files]; [discriminate|].
  destruct (map_lines (snd f)) as [e|ms] eqn:E.
  - intros H; inversion H; subst. eapply map_lines_rej; eauto.
  - destruct (map_files r); [|discriminate]. intros H; inversion H; subst. apply IH. reflexivity.
Qed.

Lemma prepare_coords_rej i k :
  prepare_coords false i = Some (Rej k) ->
  (k = K_maps_missing /\
   (length (matching i) <> length (v_chroms i) \/
    ~ forall c, In c (v_chroms i) -> exists f, In f (matching i) /\ find_chr (fst f) = Some c)) \/
  (k = K_map_fields /\ exists f, coords_of i = inl f).
Proof.
  unfold prepare_coords, coords_of. cbn [negb andb].
  destruct (lenZ (sort_by file_key (matching i)) =? lenZ (v_chroms i)) eqn:LN; cbn [negb orb].
  2:{ intros H; inversion H; subst. left. split; [reflexivity|]. left. apply Z.eqb_neq in LN.
      unfold lenZ in LN. rewrite sort_by_length in LN. lia. }
  destruct (chrom_unmapped i) eqn:CU.
  { intros H; inversion H; subst. left. split; [reflexivity|]. right. intros HX.
    apply chrom_unmapped_false in HX. congruence. }
  destruct (map_files (sort_by file_key (matching i))) as [f|coords] eqn:MF.
  { intros H; inversion H; subst. right. apply map_files_rej in MF. subst. split; [reflexivity|]. eauto. }
  destruct (v_region i) as [[s e]|].
  - destruct coords as [|c0 rest]; [discriminate|]. destruct c0; [discriminate|].
    destruct (region_cut _ s e); discriminate.
  - destruct (existsb _ coords); [discriminate|]. destruct coords; discriminate.
Qed.

(* ------------------------------------------------------------ the theorem *)
Lemma reject_names_violation_l i k :
  front false false i = Reject k -> clause_of k <> 0 /\ ~ clause (clause_of k) i.
Proof.
  unfold front. destruct (validate_params false i) as [f|ps] eqn:V.
  2:{ destruct (prepare_coords false i) as [f|] eqn:P; [|discriminate].
      destruct f as [k'|]; [|discriminate]. cbn [out_of_fail]. intros H; inversion H; subst.
      apply prepare_coords_rej in P. destruct P as [[-> P]|[-> [f P]]].
      - names (R_maps i). intros (_ & _ & HM & HL). destruct P as [P|P]; [congruence|auto].
      - names (R_maplines i). intros (cs & HC & _). congruence. }
  destruct f as [k'|]; [|discriminate]. cbn [out_of_fail]. intros H; inversion H; subst. clear H.
  revert V. unfold validate_params.
  destruct (check_header (v_header i)) as [f|[n pp]] eqn:H.
  { intros V; inversion V; subst. apply check_header_rej in H.
    destruct H as [(-> & H1 & H2)|[(-> & H1)|(-> & n & H1 & H2)]].
    - names (R_samples i). intros (n & HN & _). unfold nsamples, header_toks in HN. congruence.
    - names (R_pops i). intros (_ & HP). unfold pops, header_toks in HP. lia.
    - names (R_samples i). intros (n' & HN & HN1). unfold nsamples, header_toks in HN.
      rewrite H1 in HN. inversion HN; subst. lia. }
  apply check_header_ok in H. destruct H as (t & E & P & L & N).
  assert (HP : pp = pops i) by (unfold pops, header_toks; rewrite E; reflexivity). subst pp.
  assert (HNS : nsamples i = Some n) by (unfold nsamples, header_toks; rewrite E; exact P).
  destruct (check_gens (lenZ (pops i)) 0 (v_gens i)) as [f|] eqn:G.
  { intros V; inversion V; subst. apply check_gens_rej in G.
    destruct G as [[-> G]|[[-> G]|[[-> G]|[[-> G]|[-> G]]]]].
    - names (R_gens i). intros (gs & HG & _). apply G. exists gs. exact HG.
    - names (R_fsum i). exact G.
    - names (R_fcount i). exact G.
    - names (R_gens i). exact G.
    - names (R_fsum i). exact G. }
  destruct (v_isdir i) eqn:D; cbn [negb].
  2:{ intros V; inversion V; subst. names (R_maps i). intros (HD & _). congruence. }
  destruct (find (fun c => negb (valid_chrom c)) (v_chroms i)) eqn:F.
  { intros V; inversion V; subst. names (R_chroms i). intros HC. apply find_invalid_none in HC. congruence. }
  destruct (matching i) as [|m0 mr] eqn:M.
  { intros V; inversion V; subst. names (R_maps i). intros (_ & HNE & _ & HL).
    rewrite M in HL. cbn in HL. destruct (v_chroms i); [congruence|discriminate HL]. }
  destruct (v_popsize i <=? 0) eqn:PS.
  { intros V; inversion V; subst. names (R_popsize i). unfold R_popsize. apply Z.leb_le in PS. lia. }
  destruct (check_region i) as [f|] eqn:R.
  { intros V; inversion V; subst. unfold check_region in R. destruct (v_region i) as [[s e]|] eqn:RG; [|discriminate].
    destruct (e <? s) eqn:ES; [|discriminate]. inversion R; subst.
    names (R_region i). intros HR. specialize (HR s e RG). apply Z.ltb_lt in ES. lia. }
  destruct (v_only_bp i) eqn:OB; [discriminate|].
  unfold orelse, check_reference.
  destruct (v_ref i) as [ref|] eqn:RF.
  2:{ intros V; inversion V; subst. names (R_reference i).
      intros [HO|(ref & rows & HR & _)]; congruence. }
  destruct (check_sinfo (pops i) ref (v_sinfo i)) as [f|rows] eqn:SI.
  { intros V; inversion V; subst. pose proof (check_sinfo_rej _ _ _ _ SI) as ->.
    names (R_reference i). intros [HO|(ref' & rows & HR & HS & HA & _)]; [congruence|].
    rewrite RF in HR. inversion HR; subst.
    assert (X : check_sinfo (pops i) ref' (v_sinfo i) = inr rows).
    { apply check_sinfo_ok. split; [exact HS|]. apply Forall_forall. intros [s p] Hin. cbn [fst snd].
      apply HA. exact Hin. }
    congruence. }
  apply check_sinfo_ok in SI. destruct SI as [SI1 SI2].
  destruct (check_model_pops (v_norepl i) n rows (tl (pops i))) as [f|] eqn:MP; [|discriminate].
  intros V; inversion V; subst. apply check_model_pops_rej in MP.
  destruct MP as [(-> & p & Hp & HX)|(-> & HN & p & Hp & HX)].
  - names (R_reference i). intros [HO|(ref' & rows' & HR & HS & _ & HB)]; [congruence|].
    unfold sinfo_rows in HS. rewrite SI1 in HS. inversion HS; subst. apply HX. apply HB. exact Hp.
  - names (R_norepl i). intros [HO|[HF|HB]]; [congruence|congruence|].
    specialize (HB n rows HNS SI1 p Hp). lia.
Qed.

(* ------------------------------------------------------------ soundness of the boolean checker *)
Definition Valid (i : vin) : Prop := WellFormed i /\ strict_b i = true /\ side_ok_b i = true.

Lemma wf_b_spec i : wf_b i = true <-> WellFormed i.
Proof.
  unfold wf_b. rewrite <- validate_iff_wellformed_l. destruct (front false false i) as [ps| |]; cbn [accepts].
  - split; [intros _; exists ps; reflexivity|reflexivity].
  - split; [discriminate|]. intros [ps H]. discriminate.
  - split; [discriminate|]. intros [ps H]. discriminate.
Qed.

Lemma valid_b_spec i : valid_b i = true <-> Valid i.
Proof. unfold valid_b, Valid. rewrite !andb_true_iff, wf_b_spec. tauto. Qed.

Lemma holds_outcome_sound_l i o s :
  holds_outcome i o s = true -> o <> Crash 97 ->
  (Valid i -> exists ps n eff rows, o = Accept ps /\ nsamples i = Some n /\ 10 * n <= ps /\
                             s = Completed eff rows /\ 10 * n <= eff /\ bp_ok i n rows = true) /\
  (~ Valid i -> side_ok_b i = true -> violated i <> [] ->
   exists k, o = Reject k /\ (k = 0 \/ In (clause_of k) (violated i))).
Proof.
  intros H HU. unfold holds_outcome in H.
  assert (HUO : unobserved o = false).
  { destruct o as [ps|k|kd]; try reflexivity. cbn. apply Z.eqb_neq. intros ->. congruence. }
  rewrite HUO in H. pose proof H as H'.
  clear H. split.
  - intros HV. apply valid_b_spec in HV. rewrite HV in H'.
    destruct o as [ps| |]; try discriminate. destruct (nsamples i) as [n|]; [|discriminate].
    apply andb_true_iff in H'. destruct H' as [H1 H3].
    destruct s as [eff rows| |]; try discriminate.
    apply andb_true_iff in H3. destruct H3 as [H3 H4]. apply Z.leb_le in H3.
    exists ps, n, eff, rows. apply Z.leb_le in H1. auto 7.
  - intros HNV HS HVI. destruct (valid_b i) eqn:VB; [apply valid_b_spec in VB; contradiction|].
    rewrite HS in H'. destruct (violated i) as [|c r] eqn:EV; [congruence|]. cbn [hd_error is_none negb andb] in H'.
    destruct o as [|k|]; try discriminate. exists k. split; [reflexivity|].
    apply orb_true_iff in H'. destruct H' as [H'|H']; [left; apply Z.eqb_eq; exact H'|right].
    apply existsb_exists in H'. destruct H' as (x & Hx & Hx2). apply Z.eqb_eq in Hx2. subst. exact Hx.
Qed.

(* ------------------------------------------------------------ CLI *)
(* a --region string whose start exceeds its end is never accepted, whatever the flags *)
Lemma cli_region_checked_l base chroms r a c s e only_bp :
  cli_parse chroms (Some r) = inr a -> a_region a = Some (c, s, e) -> e < s ->
  forall ps, front false false (with_args base a only_bp) <> Accept ps.
Proof.
  intros _ HR Hlt. apply (region_checked_always_l false _ s e); [|exact Hlt].
  unfold with_args. cbn [v_region]. rewrite HR. reflexivity.
Qed.

(* a parsed --region always restricts the run to its own chromosome *)
Lemma cli_region_sets_chroms_l chroms r a :
  r <> [] -> cli_parse chroms (Some r) = inr a ->
  exists c s e, a_region a = Some (c, s, e) /\ a_chroms a = [c].
Proof.
  intros HN. unfold cli_parse. destruct r as [|x r']; [congruence|].
  destruct (negb _); [discriminate|].
  destruct (split_on _ (x :: r')) as [|c [|a0 [|b0 rest]]]; try discriminate.
  destruct (parse_int a0) as [s|]; [|discriminate]. destruct (parse_int b0) as [e|]; [|discriminate].
  intros H; inversion H; subst. cbn. eauto.
Qed.

(* ------------------------------------------------------------ the region cut *)
(* With start <= end the region loop of _prepare_coords always keeps at least one
   marker of a non-empty map (sorted or not): the "marker left" part of requirement 8
   follows from requirement 12. *)
Lemma cut_scan_inv s e len : s <= e -> forall ms ind si,
  0 <= ind -> ind + lenZ ms = len -> (si = -1 \/ 0 <= si < ind) ->
  let '(si', ei') := cut_scan ms ind si s e len in
  ei' <= len /\ ((si' = -1 /\ ei' = len) \/ 0 <= si' < ei').
Proof.
  intros Hse. induction ms as [|m r IH]; intros ind si Hind Hlen Hsi; cbn [cut_scan].
  - unfold lenZ in Hlen. cbn in Hlen. split; [lia|]. destruct Hsi as [->|Hsi]; [left; split; [reflexivity|lia]|right; lia].
  - rewrite lenZ_cons in Hlen. assert (0 <= lenZ r) by (unfold lenZ; lia).
    destruct (e <=? snd m) eqn:E.
    + apply Z.leb_le in E. split; [lia|]. right.
      destruct ((s <=? snd m) && (si <? 0)) eqn:C.
      * lia.
      * destruct Hsi as [->|Hsi]; [|lia]. exfalso. apply andb_false_iff in C. destruct C as [C|C].
        -- apply Z.leb_gt in C. lia.
        -- apply Z.ltb_ge in C. lia.
    + specialize (IH (ind + 1) (if (s <=? snd m) && (si <? 0) then ind else si)).
      apply IH; [lia|lia|].
      destruct ((s <=? snd m) && (si <? 0)); [right; lia|]. destruct Hsi as [->|Hsi]; [left; reflexivity|right; lia].
Qed.

Lemma skipn_nonempty {A} (l : list A) k : (k < length l)%nat -> skipn k l <> [].
Proof.
  revert l. induction k as [|k IH]; intros [|a l] H; cbn in *; try lia; [discriminate|]. apply IH. lia.
Qed.

Lemma firstn_nonempty {A} (l : list A) k : l <> [] -> (0 < k)%nat -> firstn k l <> [].
Proof. destruct l; [congruence|]. destruct k; [lia|]. cbn. discriminate. Qed.

Lemma region_cut_nonempty_l ms s e : ms <> [] -> s <= e -> region_cut ms s e <> [].
Proof.
  intros Hne Hse. unfold region_cut.
  pose proof (cut_scan_inv s e (lenZ ms) Hse ms 0 (-1)) as H.
  destruct (cut_scan ms 0 (-1) s e (lenZ ms)) as [si ei].
  assert (Hn : 0 < lenZ ms).
  { unfold lenZ. destruct ms; [congruence|]. cbn [length]. lia. }
  destruct H as [Hle H]; [lia|lia|left; reflexivity|].
  unfold pyslice. destruct H as [[-> ->]|H].
  - replace (-1 <? 0) with true by reflexivity.
    replace (lenZ ms <? 0) with false by (symmetry; apply Z.ltb_ge; lia).
    rewrite Z.max_l by lia. rewrite Z.min_id.
    apply firstn_nonempty; [|lia]. apply skipn_nonempty. unfold lenZ in *. lia.
  - replace (si <? 0) with false by (symmetry; apply Z.ltb_ge; lia).
    replace (ei <? 0) with false by (symmetry; apply Z.ltb_ge; lia).
    rewrite (Z.min_l si) by lia. rewrite (Z.min_l ei) by lia.
    apply firstn_nonempty; [|lia]. apply skipn_nonempty. unfold lenZ in *. lia.
Qed.
