(* C20 - the narrow "documented violation" classifiers of the checker really
   violate the corresponding conjunct of WellFormed. *)
From HV Require Import Prelude C20_Model C20_Check C20_Proofs C20_Proofs2.
From Coq Require Import QArith Qabs.
Open Scope Z_scope.

Lemma parse_all_all {X A} (f : X -> option A) l r :
  parse_all f l = Some r -> forall x, In x l -> exists a, f x = Some a.
Proof.
  revert r. induction l as [|y l IH]; cbn [parse_all]; intros r H x Hx; [destruct Hx|].
  destruct (f y) as [a|] eqn:E; [|discriminate]. destruct (parse_all f l) as [s|]; [|discriminate].
  destruct Hx as [<-|Hx]; [eauto|]. eapply IH; eauto.
Qed.

Lemma increasing_b_spec gs : forall prev, increasing_b prev gs = true <-> increasing prev gs.
Proof.
  induction gs as [|g r IH]; intros prev; cbn [increasing_b increasing]; [tauto|].
  rewrite andb_true_iff, Z.leb_le, IH. tauto.
Qed.

Lemma v1_violates i : v1 i = true -> ~ R_samples i.
Proof.
  unfold v1, R_samples, nsamples. destruct (header_toks i) as [|t r]; [discriminate|]. cbn [first_int].
  destruct (parse_int t) as [n|].
  - intros H (n' & H1 & H2). inversion H1; subst. apply Z.ltb_lt in H. lia.
  - intros _ (n' & H1 & _). discriminate.
Qed.

Lemma v2_violates i : v2 i = true -> ~ R_pops i.
Proof.
  unfold v2, R_pops, pops. destruct (header_toks i) as [|t r]; [discriminate|]. cbn [tl].
  intros H (_ & H2). apply Z.ltb_lt in H. lia.
Qed.

Lemma v3_violates i : v3 i = true -> ~ R_gens i.
Proof.
  unfold v3, R_gens. intros H (gs & HP & HI). apply orb_true_iff in H. destruct H as [H|H].
  - apply existsb_exists in H. destruct H as (toks & Hin & H).
    destruct (parse_all_all _ _ _ HP toks Hin) as (a & Ha).
    destruct toks as [|t r]; [discriminate|]. cbn [first_int] in Ha. rewrite Ha in H. discriminate.
  - rewrite HP in H. apply negb_true_iff in H. apply increasing_b_spec in HI. congruence.
Qed.

Lemma v4_violates i : v4 i = true -> ~ R_fcount i.
Proof.
  unfold v4, R_fcount. intros H HF. apply existsb_exists in H. destruct H as (toks & Hin & H).
  rewrite Forall_forall in HF. specialize (HF toks Hin). destruct toks as [|t f]; [discriminate|].
  cbn [tl] in HF. apply negb_true_iff in H. apply Z.eqb_neq in H. contradiction.
Qed.

Lemma v5_violates i : v5 i = true -> ~ R_fsum i.
Proof.
  unfold v5, R_fsum. intros H HF. apply existsb_exists in H. destruct H as (toks & Hin & H).
  rewrite Forall_forall in HF. destruct (HF toks Hin) as (fr & H1 & H2).
  destruct toks as [|t f]; [discriminate|]. cbn [tl] in H1. rewrite H1 in H.
  apply negb_true_iff in H. apply sum_ok_spec in H2. congruence.
Qed.

Lemma v6_violates i : v6 i = true -> ~ R_chroms i.
Proof.
  unfold v6, R_chroms. intros H HF. apply existsb_exists in H. destruct H as (c & Hin & H).
  rewrite Forall_forall in HF. rewrite (HF c Hin) in H. discriminate.
Qed.

Lemma v7_violates i : v7 i = true -> ~ R_maps i.
Proof.
  unfold v7, R_maps. intros H (_ & _ & HM & _). apply existsb_exists in H. destruct H as (c & Hin & H).
  destruct (HM c Hin) as (f & Hf & Hc). apply negb_true_iff in H.
  assert (X : has_map (v_files i) c = true).
  { apply has_map_spec. exists f. split; [|exact Hc]. unfold matching in Hf. apply filter_In in Hf. tauto. }
  congruence.
Qed.

Lemma In_insert_by {A} (key : A -> Z) (x y : A) l : In y (insert_by key x l) <-> y = x \/ In y l.
Proof.
  induction l as [|z r IH]; cbn [insert_by].
  - cbn. intuition.
  - destruct (key x <=? key z); cbn [In]; [intuition|]. rewrite IH. intuition.
Qed.

Lemma In_sort_by {A} (key : A -> Z) (y : A) l : In y (sort_by key l) <-> In y l.
Proof.
  unfold sort_by. induction l as [|x r IH]; cbn [fold_right]; [tauto|].
  rewrite In_insert_by, IH. cbn [In]. intuition.
Qed.

Lemma map_lines_inr_all ls : forall ms, map_lines ls = inr ms -> forall l, In l ls -> exists m, map_line l = inr m.
Proof.
  induction ls as [|x r IH]; cbn [map_lines]; intros ms H l Hl; [destruct Hl|].
  destruct (map_line x) as [f|m] eqn:E; [discriminate|]. destruct (map_lines r) as [f|ms']; [discriminate|].
  destruct Hl as [<-|Hl]; [eauto|]. eapply IH; eauto.
Qed.

Lemma map_files_inr_all fs : forall cs, map_files fs = inr cs ->
  forall f, In f fs -> exists ms, map_lines (snd f) = inr ms.
Proof.
  induction fs as [|x r IH]; cbn [map_files]; intros cs H f Hf; [destruct Hf|].
  destruct (map_lines (snd x)) as [e|ms] eqn:E; [discriminate|]. destruct (map_files r) as [e|cs']; [discriminate|].
  destruct Hf as [<-|Hf]; [eauto|]. eapply IH; eauto.
Qed.

Lemma map_line_fields l m : map_line l = inr m -> lenZ (split_ws l) = 4.
Proof.
  unfold map_line. destruct (split_ws l) as [|c [|x [|cm [|b [|y r]]]]]; try discriminate. reflexivity.
Qed.

Lemma v8_violates i : v8 i = true -> ~ R_maplines i.
Proof.
  unfold v8, R_maplines, coords_of. intros H (cs & HC & _).
  apply existsb_exists in H. destruct H as (f & Hf & H). apply existsb_exists in H. destruct H as (l & Hl & H).
  assert (Hf' : In f (sort_by file_key (matching i))) by (apply In_sort_by; exact Hf).
  destruct (map_files_inr_all _ _ HC f Hf') as (ms & Hms).
  destruct (map_lines_inr_all _ _ Hms l Hl) as (m & Hm). apply map_line_fields in Hm.
  apply negb_true_iff in H. apply Z.eqb_neq in H. contradiction.
Qed.

Lemma v9_violates i : v9 i = true -> ~ R_popsize i.
Proof. unfold v9, R_popsize. intros H. apply Z.leb_le in H. lia. Qed.

Lemma In_tl {A} (x : A) l : In x (tl l) -> In x l.
Proof. destruct l; cbn; auto. Qed.

Lemma v10_violates i : v10 i = true -> ~ R_reference i.
Proof.
  unfold v10, R_reference. intros H. apply andb_true_iff in H. destruct H as [HO H].
  apply negb_true_iff in HO. intros [HX|(ref & rows & HR & HS & HA & HB)]; [congruence|].
  rewrite HR, HS in H. apply orb_true_iff in H. destruct H as [H|H].
  - apply existsb_exists in H. destruct H as ([s p] & Hin & H). cbn [fst snd] in H.
    apply andb_true_iff in H. destruct H as [H1 H2]. apply mem_str_In in H1. apply negb_true_iff in H2.
    specialize (HA s p Hin H1). apply mem_str_In in HA. congruence.
  - apply existsb_exists in H. destruct H as (p & Hp & H). apply negb_true_iff in H.
    destruct (HB p Hp) as (s & Hs). assert (X : existsb (fun r : str * str => str_eqb (snd r) p) rows = true).
    { apply has_pop_spec. eauto. }
    congruence.
Qed.

Lemma v11_violates i : v11 i = true -> ~ R_norepl i.
Proof.
  unfold v11, R_norepl. intros H. apply andb_true_iff in H. destruct H as [H H3].
  apply andb_true_iff in H. destruct H as [HO HN]. apply negb_true_iff in HO.
  intros [HX|[HX|HB]]; [congruence|congruence|].
  destruct (nsamples i) as [n|]; [|discriminate]. destruct (sinfo_rows i) as [rows|]; [|discriminate].
  apply existsb_exists in H3. destruct H3 as (p & Hp & H3). apply Z.ltb_lt in H3.
  specialize (HB n rows eq_refl eq_refl p Hp). lia.
Qed.

Lemma v12_violates i : v12 i = true -> ~ R_region i.
Proof.
  unfold v12, R_region. destruct (v_region i) as [[s e]|]; [|discriminate].
  intros H HR. specialize (HR s e eq_refl). apply Z.ltb_lt in H. lia.
Qed.

Lemma violated_sound_l i c : In c (violated i) -> 1 <= c <= 12 /\ ~ clause c i.
Proof.
  unfold violated. intros H. apply in_map_iff in H. destruct H as ([c' b] & Hc & H). cbn [fst] in Hc. subst c'.
  apply filter_In in H. destruct H as [H Hb]. cbn [snd] in Hb. subst b.
  cbn [In] in H.
  destruct H as [H|[H|[H|[H|[H|[H|[H|[H|[H|[H|[H|[H|[]]]]]]]]]]]]];
    inversion H; subst; (split; [lia|]);
    match goal with Hv : _ = true |- _ =>
      first [ exact (v1_violates i Hv) | exact (v2_violates i Hv) | exact (v3_violates i Hv)
            | exact (v4_violates i Hv) | exact (v5_violates i Hv) | exact (v6_violates i Hv)
            | exact (v7_violates i Hv) | exact (v8_violates i Hv) | exact (v9_violates i Hv)
            | exact (v10_violates i Hv) | exact (v11_violates i Hv) | exact (v12_violates i Hv) ]
    end.
Qed.

(* a refusal accepted by the checker names a requirement the input violates *)
Lemma checked_refusal_names_violation_l i o s k :
  holds_outcome i o s = true -> o = Reject k -> k <> 0 ->
  ~ Valid i -> side_ok_b i = true -> violated i <> [] ->
  ~ clause (clause_of k) i.
Proof.
  intros H -> Hk HNV HS HV.
  destruct (holds_outcome_sound_l i (Reject k) s H) as [_ H2]; [discriminate|].
  destruct (H2 HNV HS HV) as (k' & Hk' & [->|Hin]); inversion Hk'; subst; [congruence|].
  apply violated_sound_l in Hin. tauto.
Qed.
