(* C20 - the effective population size on every option combination, and what the
   checker's demand on the written breakpoint file ([bp_ok] = C02's [holds_bp])
   means: 2n framed haplotypes, each tiling every requested chromosome up to
   the sentinel (so every position has a label), labels = source populations
   with a positive fraction in some generation line. *)
From HV Require Import Prelude Tracts Tiling C02_Model C02_Check C02_Tiling C02_Generations C02_Proofs.
From HV Require Import C20_Model C20_Check C20_Proofs C20_Proofs2.
From Coq Require Import QArith Qabs.
Open Scope Z_scope.

(* ------------------------------------------------------------ population size *)
Lemma nsamples_with_only_bp i b : nsamples (with_only_bp i b) = nsamples i.
Proof. reflexivity. Qed.

(* whatever --only_breakpoint says, the value validate_params returns (= what is
   handed to simulate_gt) is max(--popsize, 10 * samples) *)
Lemma effective_popsize_every_flag_l i b ps :
  validate_params false (with_only_bp i b) = inr ps ->
  exists n, nsamples i = Some n /\ ps = Z.max (v_popsize i) (10 * n) /\ 10 * n <= ps /\ v_popsize i <= ps.
Proof.
  intros H. apply validate_params_ok in H.
  destruct H as (t & n & E & P & _ & _ & _ & _ & _ & _ & _ & HPS & _).
  exists n. split.
  - rewrite <- (nsamples_with_only_bp i b). unfold nsamples. rewrite E. cbn [first_int]. exact P.
  - cbn [with_only_bp v_popsize] in HPS. split; [exact HPS|]. lia.
Qed.

(* ... hence the same value for both settings of the flag *)
Lemma effective_popsize_flag_independent_l i ps ps' :
  validate_params false (with_only_bp i true) = inr ps ->
  validate_params false (with_only_bp i false) = inr ps' -> ps = ps'.
Proof.
  intros H H'. apply effective_popsize_every_flag_l in H. apply effective_popsize_every_flag_l in H'.
  destruct H as (n & N & -> & _). destruct H' as (n' & N' & -> & _). congruence.
Qed.

(* a small --popsize with --only_breakpoint: 1, 2n-1 = 3, 2n = 4, 10n-1 = 19, 10n = 20, 21 for n = 2 *)
Definition w_ps (p : Z) (b : bool) : vin :=
  with_only_bp (with_popsize (witness_base [[49]] [file_chr1_name_only] None) p) b.
Lemma small_popsize_example_l :
  map (fun p => front false false (w_ps p true)) [1; 3; 4; 19; 20; 21; 10000]
  = [Accept 20; Accept 20; Accept 20; Accept 20; Accept 20; Accept 21; Accept 10000].
Proof. vm_compute. reflexivity. Qed.

(* ------------------------------------------------------------ the breakpoint file *)
Definition label_ok (i : vin) (s : seg) : Prop :=
  0 < pop s /\ exists line f, In line (model_fracs i) /\ nthZ line (pop s) = Some f /\ (0 < f)%Q.

Definition BpWellFormed (i : vin) (n : Z) (rows : list bprow) : Prop :=
  lenZ rows = 2 * n /\
  (forall k smp strand h, nth_error rows k = Some (smp, strand, h) ->
     smp = Z.of_nat k / 2 + 1 /\ strand = Z.of_nat k mod 2 + 1) /\
  Forall (fun r : bprow => tiles (req_chroms i) (snd r) /\ Forall (label_ok i) (snd r)) rows.

Lemma headers_ok_nth rows : forall ind, headers_ok rows ind = true ->
  forall k smp strand h, nth_error rows k = Some (smp, strand, h) ->
  smp = (ind + Z.of_nat k) / 2 + 1 /\ strand = (ind + Z.of_nat k) mod 2 + 1.
Proof.
  induction rows as [|[[s0 t0] h0] r IH]; intros ind H k smp strand h Hk.
  - destruct k; discriminate.
  - cbn [headers_ok] in H. apply andb_true_iff in H. destruct H as [H H3].
    apply andb_true_iff in H. destruct H as [H1 H2]. apply Z.eqb_eq in H1, H2.
    destruct k as [|k]; cbn [nth_error] in Hk.
    + inversion Hk; subst. rewrite Z.add_0_r. auto.
    + destruct (IH _ H3 _ _ _ _ Hk) as [A B].
      replace (ind + Z.of_nat (S k)) with (ind + 1 + Z.of_nat k) by lia. auto.
Qed.

Lemma allowed_label_ok i s : allowed_label (model_fracs i) (pop s) = true -> label_ok i s.
Proof.
  unfold allowed_label, positive_in, label_ok. intros H. apply andb_true_iff in H. destruct H as [H1 H2].
  apply Z.ltb_lt in H1. split; [exact H1|]. apply existsb_exists in H2. destruct H2 as (line & Hin & H2).
  destruct (nthZ line (pop s)) as [f|] eqn:E; [|discriminate]. apply Z.ltb_lt in H2.
  exists line, f. split; [exact Hin|]. split; [exact E|]. unfold Qlt. cbn. lia.
Qed.

Lemma bp_ok_sound_l i n rows : bp_ok i n rows = true -> BpWellFormed i n rows.
Proof.
  unfold bp_ok, holds_bp, bp_case. cbn [b_obs b_n b_chroms b_fracs b_reader_ok].
  intros H. apply andb_true_iff in H. destruct H as [H _].
  apply andb_true_iff in H. destruct H as [H HF].
  apply andb_true_iff in H. destruct H as [HL HH]. apply Z.eqb_eq in HL.
  split; [exact HL|]. split.
  - intros k smp strand h Hk. destruct (headers_ok_nth rows 0 HH k smp strand h Hk) as [A B].
    rewrite Z.add_0_l in A, B. auto.
  - apply Forall_forall. intros [[smp strand] h] Hin. rewrite forallb_forall in HF.
    specialize (HF _ Hin). cbn beta iota in HF.
    apply andb_true_iff in HF. destruct HF as [HF HLb].
    apply andb_true_iff in HF. destruct HF as [HT _]. cbn [snd]. split.
    + apply tilesb_sound. exact HT.
    + apply Forall_forall. intros s Hs. rewrite forallb_forall in HLb.
      apply allowed_label_ok. apply HLb. exact Hs.
Qed.

(* the requested chromosomes of a Valid input are strictly increasing, so a tiling
   gives every position 0 .. MAXC of every requested chromosome exactly one label *)
Lemma strict_incr_head a r : strict_incr (a :: r) = true -> forall b, In b r -> a < b.
Proof.
  revert a. induction r as [|c r IH]; intros a H b Hb; [destruct Hb|].
  cbn [strict_incr] in H. apply andb_true_iff in H. destruct H as [H1 H2]. apply Z.ltb_lt in H1.
  destruct Hb as [<-|Hb]; [exact H1|]. specialize (IH c H2 b Hb). lia.
Qed.

Lemma strict_incr_tail a r : strict_incr (a :: r) = true -> strict_incr r = true.
Proof. cbn [strict_incr]. intros H. apply andb_true_iff in H. tauto. Qed.

Lemma strict_incr_incr l : strict_incr l = true -> incr l.
Proof.
  induction l as [|a r IH]; intros H p q x y Hpq Hp Hq.
  - destruct p; discriminate.
  - destruct q as [|q]; [lia|]. cbn [nth_error] in Hq. destruct p as [|p]; cbn [nth_error] in Hp.
    + inversion Hp; subst. eapply strict_incr_head; [exact H|]. eapply nth_error_In; exact Hq.
    + eapply (IH (strict_incr_tail _ _ H) p q); [lia|exact Hp|exact Hq].
Qed.

Lemma valid_chroms_incr i : Valid i -> incr (req_chroms i).
Proof.
  intros (_ & HS & _). unfold strict_b in HS.
  apply andb_true_iff in HS. destruct HS as [HS _].
  apply andb_true_iff in HS. destruct HS as [HS _]. apply andb_true_iff in HS. destruct HS as [HS _].
  apply andb_true_iff in HS. destruct HS as [_ HS]. apply strict_incr_incr. exact HS.
Qed.

Lemma bp_ok_covers_l i n rows : Valid i -> bp_ok i n rows = true ->
  forall smp strand h, In (smp, strand, h) rows ->
  forall c p, In c (req_chroms i) -> 0 <= p <= MAXC -> exists v, label_at h c p = Some v.
Proof.
  intros HV H smp strand h Hin c p Hc Hp. apply bp_ok_sound_l in H. destruct H as (_ & _ & HF).
  rewrite Forall_forall in HF. destruct (HF _ Hin) as [HT _]. cbn [snd] in HT.
  exact (tiles_cover (req_chroms i) (valid_chroms_incr i HV) h HT c p Hc Hp).
Qed.

(* the checker on an accepted, completed run of a Valid input *)
Lemma holds_valid_complete_l i o s :
  holds_outcome i o s = true -> o <> Crash 97 -> Valid i ->
  exists ps n eff rows, o = Accept ps /\ nsamples i = Some n /\ 10 * n <= ps /\
    s = Completed eff rows /\ 10 * n <= eff /\ BpWellFormed i n rows.
Proof.
  intros H HU HV. destruct (holds_outcome_sound_l i o s H HU) as [H1 _].
  destruct (H1 HV) as (ps & n & eff & rows & A & B & C & D & E & F).
  exists ps, n, eff, rows. repeat (split; [assumption|]). apply bp_ok_sound_l. exact F.
Qed.

(* a no-result-within-the-time-limit / failed / missing run of a Valid input never passes *)
Lemma holds_valid_needs_completion_l i ps k :
  Valid i -> holds_outcome i (Accept ps) (SimFailed k) = false /\ holds_outcome i (Accept ps) NotRun = false.
Proof.
  intros HV. apply valid_b_spec in HV. unfold holds_outcome. cbn [unobserved]. rewrite HV.
  destruct (nsamples i); split; try reflexivity; apply andb_false_r.
Qed.

(* BpWellFormed is satisfiable: one sample on chromosome 1 of the witness, labels A (1) and B (2) *)
Definition w_rows : list bprow :=
  [(1, 1, [mkseg 1 1 200 0; mkseg 2 1 MAXC 0]); (1, 2, [mkseg 2 1 MAXC 0])].
Lemma bp_ok_example_l :
  bp_ok (witness_base [[49]] [file_chr1_name_only] None) 1 w_rows = true /\
  bp_ok (witness_base [[49]] [file_chr1_name_only] None) 1
        [(1, 1, [mkseg 1 1 200 0]); (1, 2, [mkseg 2 1 MAXC 0])] = false /\          (* chromosome end not reached *)
  bp_ok (witness_base [[49]] [file_chr1_name_only] None) 1
        [(1, 1, [mkseg 0 1 MAXC 0]); (1, 2, [mkseg 2 1 MAXC 0])] = false /\          (* admixed pseudo-population *)
  bp_ok (witness_base [[49]] [file_chr1_name_only] None) 1 [(1, 1, [mkseg 1 1 MAXC 0])] = false.  (* one strand *)
Proof. vm_compute. repeat split. Qed.
