(* C20 - the model satisfies what [holds] demands of the implementation for malformed inputs:
   on an input with nothing odd beyond the documented list ([side_ok_b]) the up-front decision
   never ends in a non-explanatory exception, and every refusal belongs to a requirement that
   one of the checker's NARROW classifiers ([v1] .. [v12]) flags - for any number of
   simultaneous violations.  Hence  agree  =>  the second clause of holds. *)
From HV Require Import Prelude C20_Model C20_Check C20_Proofs C20_Proofs2 C20_Proofs3.
From Coq Require Import QArith Qabs.
Open Scope Z_scope.

Lemma In_violated i c :
  In (c, true) [(1, v1 i); (2, v2 i); (3, v3 i); (4, v4 i); (5, v5 i); (6, v6 i); (7, v7 i); (8, v8 i);
                (9, v9 i); (10, v10 i); (11, v11 i); (12, v12 i)] -> In c (violated i).
Proof.
  intros H. unfold violated. apply in_map_iff. exists (c, true). split; [reflexivity|].
  apply filter_In. split; [exact H|reflexivity].
Qed.

Ltac viol Hv := apply In_violated; cbn [In]; rewrite Hv; repeat (first [left; reflexivity | right]).

(* ------------------------------------------------------------ generation lines *)
Definition nonint (toks : list str) : bool := match toks with t :: _ => is_none (parse_int t) | [] => false end.
Definition v3gen (prev : Z) (lt : list (list str)) : bool :=
  existsb nonint lt || match parse_all first_int lt with Some gs => negb (increasing_b prev gs) | None => false end.
Definition v4gen (np : Z) (lt : list (list str)) : bool :=
  existsb (fun toks => match toks with _ :: f => negb (lenZ f =? np) | [] => false end) lt.
Definition v5gen (lt : list (list str)) : bool :=
  existsb (fun toks => match toks with
                       | _ :: f => match parse_all parse_float f with Some fr => negb (sum_ok fr) | None => false end
                       | [] => false end) lt.
Definition gen_side (toks : list str) : bool :=
  match toks with [] => false | _ :: f => is_some (parse_all parse_float f) end.

Lemma parse_none_nonint lt : forallb gen_side lt = true -> parse_all first_int lt = None -> existsb nonint lt = true.
Proof.
  induction lt as [|toks r IH]; intros HS HP; [discriminate|]. cbn [forallb] in HS. apply andb_true_iff in HS.
  destruct HS as [HS1 HS2]. cbn [parse_all] in HP. cbn [existsb].
  destruct toks as [|t f]; [discriminate|]. cbn [first_int nonint] in *.
  destruct (parse_int t) as [g|]; [|reflexivity]. cbn [is_none orb].
  destruct (parse_all first_int r) as [gs|] eqn:E; [discriminate|]. exact (IH HS2 eq_refl).
Qed.

Lemma check_gens_side np : forall lines prev f,
  forallb gen_side (map split_ws lines) = true -> check_gens np prev lines = Some f ->
  exists k, f = Rej k /\
    (((k = K_gen_int \/ k = K_gen_order) /\ v3gen prev (map split_ws lines) = true) \/
     (k = K_frac_count /\ v4gen np (map split_ws lines) = true) \/
     (k = K_frac_sum /\ v5gen (map split_ws lines) = true)).
Proof.
  induction lines as [|l r IH]; intros prev f HS H; [discriminate|].
  cbn [map forallb] in HS. apply andb_true_iff in HS. destruct HS as [HS1 HS2].
  cbn [check_gens] in H. cbn [map]. unfold check_gen_line in H.
  destruct (split_ws l) as [|t fts] eqn:ET; [discriminate|]. cbn [gen_side] in HS1.
  destruct (parse_int t) as [g|] eqn:EG.
  2:{ inversion H; subst. exists K_gen_int. split; [reflexivity|]. left. split; [left; reflexivity|].
      unfold v3gen. cbn [existsb nonint]. rewrite EG. reflexivity. }
  destruct (parse_all parse_float fts) as [fr|] eqn:EF; [|discriminate].
  assert (HL : lenZ fr = lenZ fts) by (unfold lenZ; rewrite (parse_all_length _ _ _ EF); reflexivity).
  destruct (lenZ fr =? np) eqn:EC; cbn [negb] in H.
  2:{ inversion H; subst. exists K_frac_count. split; [reflexivity|]. right; left. split; [reflexivity|].
      unfold v4gen. cbn [existsb]. rewrite <- HL, EC. reflexivity. }
  destruct (g - prev <? 1) eqn:EO.
  { inversion H; subst. exists K_gen_order. split; [reflexivity|]. left. split; [right; reflexivity|].
    unfold v3gen. cbn [existsb nonint parse_all first_int]. rewrite EG. cbn [is_none orb].
    destruct (parse_all first_int (map split_ws r)) as [gs|] eqn:EP.
    - cbn [increasing_b]. apply Z.ltb_lt in EO. rewrite (proj2 (Z.leb_gt _ _)) by lia. cbn. apply orb_true_r.
    - rewrite (parse_none_nonint _ HS2 EP). reflexivity. }
  destruct (sum_ok fr) eqn:ES; cbn [negb] in H.
  2:{ inversion H; subst. exists K_frac_sum. split; [reflexivity|]. right; right. split; [reflexivity|].
      unfold v5gen. cbn [existsb]. rewrite EF, ES. reflexivity. }
  destruct (IH g f HS2 H) as (k & -> & HK). exists k. split; [reflexivity|].
  destruct HK as [[HK Hv]|[[HK Hv]|[HK Hv]]].
  - left. split; [exact HK|]. unfold v3gen in *. cbn [existsb nonint parse_all first_int]. rewrite EG. cbn [is_none orb].
    apply orb_true_iff in Hv. destruct Hv as [Hv|Hv]; [rewrite Hv; reflexivity|].
    destruct (parse_all first_int (map split_ws r)) as [gs|]; [|discriminate].
    cbn [increasing_b]. apply negb_true_iff in Hv. rewrite Hv, andb_false_r. apply orb_true_r.
  - right; left. split; [exact HK|]. unfold v4gen in *. cbn [existsb]. rewrite Hv. apply orb_true_r.
  - right; right. split; [exact HK|]. unfold v5gen in *. cbn [existsb]. rewrite Hv. apply orb_true_r.
Qed.

(* ------------------------------------------------------------ sample info *)
Lemma check_sinfo_side pops ref : forall lines rows, parse_all sinfo_row lines = Some rows ->
  check_sinfo pops ref lines = inr rows \/
  (check_sinfo pops ref lines = inl (Rej K_sample_absent) /\
   existsb (fun r : str * str => mem_str (snd r) pops && negb (mem_str (fst r) ref)) rows = true).
Proof.
  induction lines as [|l r IH]; intros rows H; cbn [parse_all] in H.
  - inversion H; subst. left. reflexivity.
  - unfold sinfo_row in H at 1. cbn [check_sinfo].
    destruct (split_ws l) as [|s [|p rest]]; try discriminate.
    destruct (parse_all sinfo_row r) as [rows'|] eqn:E; [|discriminate]. inversion H; subst. cbn [existsb fst snd].
    destruct (negb (mem_str s ref) && mem_str p pops) eqn:EB.
    + right. split; [reflexivity|]. apply andb_true_iff in EB. destruct EB as [A B]. rewrite A, B. reflexivity.
    + destruct (IH rows' eq_refl) as [IH1|[IH1 IH2]].
      * rewrite IH1. left. reflexivity.
      * rewrite IH1. right. split; [reflexivity|]. rewrite IH2. apply orb_true_r.
Qed.

(* ------------------------------------------------------------ maps *)
Lemma map_line_side l : numeric_or_short l = true ->
  (exists m, map_line l = inr m) \/ (map_line l = inl (Rej K_map_fields) /\ lenZ (split_ws l) <> 4).
Proof.
  unfold numeric_or_short, map_line.
  destruct (split_ws l) as [|c [|x [|m [|b [|y r]]]]];
    try (intros _; right; split; [reflexivity|unfold lenZ; cbn [length]; lia]).
  intros H. apply andb_true_iff in H. destruct H as [H H3]. apply andb_true_iff in H. destruct H as [H1 H2].
  left. destruct (str_eqb c [88]).
  - destruct (parse_float m); [|discriminate]. destruct (parse_int b); [|discriminate]. eauto.
  - cbn [orb] in H1. destruct (parse_int c); [|discriminate].
    destruct (parse_float m); [|discriminate]. destruct (parse_int b); [|discriminate]. eauto.
Qed.

Lemma map_lines_side ls : forallb numeric_or_short ls = true ->
  (exists ms, map_lines ls = inr ms /\ length ms = length ls) \/
  (map_lines ls = inl (Rej K_map_fields) /\ existsb (fun l => negb (lenZ (split_ws l) =? 4)) ls = true).
Proof.
  induction ls as [|l r IH]; intros H; [left; exists []; split; reflexivity|].
  cbn [forallb] in H. apply andb_true_iff in H. destruct H as [H1 H2]. cbn [map_lines existsb].
  destruct (map_line_side l H1) as [[m Hm]|[Hm Hl]].
  - rewrite Hm. destruct (IH H2) as [(ms & Hms & Hlen)|[Hms Hex]].
    + rewrite Hms. left. exists (m :: ms). split; [reflexivity|cbn; lia].
    + rewrite Hms. right. split; [reflexivity|]. rewrite Hex. apply orb_true_r.
  - rewrite Hm. right. split; [reflexivity|]. apply Z.eqb_neq in Hl. rewrite Hl. reflexivity.
Qed.

Lemma map_files_side fs :
  (forall f, In f fs -> forallb numeric_or_short (snd f) = true) ->
  (exists cs, map_files fs = inr cs /\ Forall2 (fun (f : str * list str) (c : list (Z * Z)) => length c = length (snd f)) fs cs) \/
  (map_files fs = inl (Rej K_map_fields) /\
   existsb (fun f : str * list str => existsb (fun l => negb (lenZ (split_ws l) =? 4)) (snd f)) fs = true).
Proof.
  induction fs as [|f r IH]; intros H; [left; exists []; split; [reflexivity|constructor]|].
  cbn [map_files existsb].
  destruct (map_lines_side (snd f) (H f (or_introl eq_refl))) as [(ms & Hms & Hlen)|[Hms Hex]].
  - rewrite Hms. destruct (IH (fun f' Hf' => H f' (or_intror Hf'))) as [(cs & Hcs & HF)|[Hcs Hex]].
    + rewrite Hcs. left. exists (ms :: cs). split; [reflexivity|]. constructor; assumption.
    + rewrite Hcs. right. split; [reflexivity|]. rewrite Hex. apply orb_true_r.
  - rewrite Hms. right. split; [reflexivity|]. rewrite Hex. reflexivity.
Qed.

Lemma existsb_perm_sort {A} (key : A -> Z) (p : A -> bool) l : existsb p (sort_by key l) = true -> existsb p l = true.
Proof.
  intros H. apply existsb_exists in H. destruct H as (x & Hx & Hp). apply In_sort_by in Hx.
  apply existsb_exists. eauto.
Qed.

Lemma nodup_str_NoDup l : nodup_str l = true -> NoDup l.
Proof.
  induction l as [|a r IH]; intros H; [constructor|]. cbn [nodup_str] in H. apply andb_true_iff in H.
  destruct H as [H1 H2]. constructor; [|exact (IH H2)]. intros Ha. apply mem_str_In in Ha.
  apply negb_true_iff in H1. congruence.
Qed.

(* a requested chromosome without a matching file has no file at all *)
Lemma unmapped_v7 i c : In c (v_chroms i) -> has_map (matching i) c = false -> has_map (v_files i) c = false.
Proof.
  intros Hc H. destruct (has_map (v_files i) c) eqn:E; [|reflexivity]. exfalso.
  apply has_map_spec in E. destruct E as (f & Hf & Hfc).
  assert (X : has_map (matching i) c = true).
  { apply has_map_spec. exists f. split; [|exact Hfc]. unfold matching. apply filter_In. split; [exact Hf|].
    unfold file_chr_in. rewrite Hfc. apply mem_str_In. exact Hc. }
  congruence.
Qed.

(* fewer matching files than (distinct) chromosomes: some chromosome has none *)
Lemma pigeon i : nodup_str (v_chroms i) = true -> (length (matching i) < length (v_chroms i))%nat ->
  chrom_unmapped i = true.
Proof.
  intros HN HL. destruct (chrom_unmapped i) eqn:E; [reflexivity|]. exfalso.
  pose proof (proj1 (chrom_unmapped_false i) E) as HM.
  set (g := fun f : str * list str => match find_chr (fst f) with Some x => x | None => [] end).
  assert (Hincl : incl (v_chroms i) (map g (matching i))).
  { intros c Hc. destruct (HM c Hc) as (f & Hf & Hfc). apply in_map_iff. exists f. split; [|exact Hf].
    unfold g. rewrite Hfc. reflexivity. }
  pose proof (NoDup_incl_length (nodup_str_NoDup _ HN) Hincl) as X. rewrite map_length in X. lia.
Qed.

(* ------------------------------------------------------------ the theorem *)
Theorem model_refuses_documented_l i : side_ok_b i = true ->
  (exists ps, front false false i = Accept ps) \/
  (exists k, front false false i = Reject k /\ In (clause_of k) (violated i)).
Proof.
  intros HS. unfold side_ok_b in HS.
  apply andb_true_iff in HS. destruct HS as [HS S8]. apply andb_true_iff in HS. destruct HS as [HS S7].
  apply andb_true_iff in HS. destruct HS as [HS S6]. apply andb_true_iff in HS. destruct HS as [HS S5].
  apply andb_true_iff in HS. destruct HS as [HS S4b]. apply andb_true_iff in HS. destruct HS as [HS S4a].
  apply andb_true_iff in HS. destruct HS as [HS S3]. apply andb_true_iff in HS. destruct HS as [S1 S2].
  unfold front, validate_params.
  (* header *)
  unfold check_header. pose proof S1 as S1'. unfold header_toks in S1'.
  destruct (split_ws (v_header i)) as [|t pp] eqn:EH; [discriminate|].
  assert (EHT : header_toks i = t :: pp) by exact EH.
  assert (EP : pops i = pp) by (unfold pops; rewrite EHT; reflexivity).
  destruct (parse_int t) as [n|] eqn:EN.
  2:{ right. exists K_samples_int. split; [reflexivity|].
      assert (Hv : v1 i = true) by (unfold v1; rewrite EHT, EN; reflexivity). change (clause_of K_samples_int) with 1. viol Hv. }
  destruct (lenZ pp <? 3) eqn:EL.
  { right. exists K_num_pops. split; [reflexivity|].
    assert (Hv : v2 i = true) by (unfold v2; rewrite EHT; exact EL). change (clause_of K_num_pops) with 2. viol Hv. }
  destruct (n <? 1) eqn:EN1.
  { right. exists K_samples_lt1. split; [reflexivity|].
    assert (Hv : v1 i = true) by (unfold v1; rewrite EHT, EN; exact EN1). change (clause_of K_samples_lt1) with 1. viol Hv. }
  assert (ENS : nsamples i = Some n) by (unfold nsamples; rewrite EHT; exact EN).
  (* generation lines *)
  destruct (check_gens (lenZ pp) 0 (v_gens i)) as [f|] eqn:EG.
  { right. destruct (check_gens_side (lenZ pp) (v_gens i) 0 f S2 EG) as (k & -> & HK). exists k. split; [reflexivity|].
    destruct HK as [[HK Hv]|[[-> Hv]|[-> Hv]]].
    - assert (Hv3 : v3 i = true) by exact Hv.
      destruct HK as [->| ->]; [change (clause_of K_gen_int) with 3|change (clause_of K_gen_order) with 3]; viol Hv3.
    - assert (Hv4 : v4 i = true) by (unfold v4; rewrite EP; exact Hv). change (clause_of K_frac_count) with 4. viol Hv4.
    - assert (Hv5 : v5 i = true) by exact Hv. change (clause_of K_frac_sum) with 5. viol Hv5. }
  rewrite S3. cbn [negb].
  (* chromosome names *)
  destruct (find (fun c => negb (valid_chrom c)) (v_chroms i)) as [c|] eqn:EF.
  { right. exists K_chrom. split; [reflexivity|]. apply find_some in EF. destruct EF as [Hc Hn].
    assert (Hv : v6 i = true) by (unfold v6; apply existsb_exists; eauto). change (clause_of K_chrom) with 6. viol Hv. }
  (* at least one map *)
  destruct (v_chroms i) as [|c0 cr] eqn:ECH; [discriminate|]. rewrite <- ECH in *.
  assert (Hc0 : In c0 (v_chroms i)) by (rewrite ECH; left; reflexivity).
  destruct (matching i) as [|m0 mr] eqn:EM.
  { right. exists K_no_maps. split; [reflexivity|].
    assert (Hv : v7 i = true).
    { unfold v7. apply existsb_exists. exists c0. split; [exact Hc0|]. apply negb_true_iff.
      apply unmapped_v7; [exact Hc0|]. rewrite EM. reflexivity. }
    change (clause_of K_no_maps) with 7. viol Hv. }
  rewrite <- EM in *.
  (* population size, region *)
  destruct (v_popsize i <=? 0) eqn:EPS.
  { right. exists K_popsize. split; [reflexivity|]. assert (Hv : v9 i = true) by exact EPS.
    change (clause_of K_popsize) with 9. viol Hv. }
  destruct (check_region i) as [f|] eqn:ER.
  { right. unfold check_region in ER. destruct (v_region i) as [[s e]|] eqn:ERG; [|discriminate].
    destruct (e <? s) eqn:ES; [|discriminate]. inversion ER; subst. exists K_region. split; [reflexivity|].
    assert (Hv : v12 i = true) by (unfold v12; rewrite ERG; exact ES). change (clause_of K_region) with 12. viol Hv. }
  assert (HRG : forall s e, v_region i = Some (s, e) -> s <= e).
  { apply check_region_none. exact ER. }
  (* reference and sample info *)
  assert (HREF : (if v_only_bp i then @inr fail Z (Z.max (v_popsize i) (10 * n))
                  else match orelse (check_reference i n pp) None with
                       | Some f => inl f | None => inr (Z.max (v_popsize i) (10 * n)) end)
                 = inr (Z.max (v_popsize i) (10 * n)) \/
                 exists k, (if v_only_bp i then @inr fail Z (Z.max (v_popsize i) (10 * n))
                  else match orelse (check_reference i n pp) None with
                       | Some f => inl f | None => inr (Z.max (v_popsize i) (10 * n)) end) = inl (Rej k)
                           /\ In (clause_of k) (violated i)).
  { destruct (v_only_bp i) eqn:EOB; [left; reflexivity|]. cbn [orb] in S7. apply andb_true_iff in S7.
    destruct S7 as [S7a S7b]. unfold check_reference, orelse.
    destruct (v_ref i) as [ref|] eqn:ERF; [|discriminate]. destruct (sinfo_rows i) as [rows|] eqn:ESR; [|discriminate].
    destruct (check_sinfo_side pp ref (v_sinfo i) rows ESR) as [E1|[E1 E2]].
    - rewrite E1. destruct (check_model_pops (v_norepl i) n rows (tl pp)) as [f|] eqn:EMP; [|left; reflexivity].
      right. destruct f as [k|k].
      2:{ exfalso. clear - EMP. induction (tl pp) as [|p r IH]; cbn [check_model_pops] in EMP; [discriminate|].
          destruct (negb (existsb _ rows)); [discriminate|]. destruct (v_norepl i && _); [discriminate|]. exact (IH EMP). }
      exists k. split; [reflexivity|]. apply check_model_pops_rej in EMP.
      destruct EMP as [(-> & p & Hp & HX)|(-> & HN & p & Hp & HX)].
      + assert (Hv : v10 i = true).
        { unfold v10. rewrite EOB, ERF, ESR, EP. cbn [negb andb]. apply orb_true_iff. right.
          apply existsb_exists. exists p. split; [exact Hp|]. apply negb_true_iff.
          destruct (existsb (fun r : str * str => str_eqb (snd r) p) rows) eqn:EX; [|reflexivity].
          exfalso. apply HX. apply has_pop_spec. exact EX. }
        change (clause_of K_pop_absent) with 10. viol Hv.
      + assert (Hv : v11 i = true).
        { unfold v11. rewrite EOB, HN, ENS, ESR, EP. cbn [negb andb]. apply existsb_exists. exists p.
          split; [exact Hp|]. apply Z.ltb_lt. exact HX. }
        change (clause_of K_norepl) with 11. viol Hv.
    - rewrite E1. right. exists K_sample_absent. split; [reflexivity|].
      assert (Hv : v10 i = true).
      { unfold v10. rewrite EOB, ERF, ESR, EP. cbn [negb andb]. rewrite E2. reflexivity. }
      change (clause_of K_sample_absent) with 10. viol Hv. }
  cbn [negb].
  destruct HREF as [HREF|(k & HREF & Hk)]; rewrite HREF; [|right; exists k; split; [reflexivity|exact Hk]].
  (* _prepare_coords *)
  unfold prepare_coords. cbn [negb andb].
  assert (HLE : (length (matching i) <= length (v_chroms i))%nat) by (apply Z.leb_le in S6; unfold lenZ in S6; lia).
  assert (Hv7 : chrom_unmapped i = true -> In 7 (violated i)).
  { intros HU. unfold chrom_unmapped in HU. apply existsb_exists in HU. destruct HU as (c & Hc & HU).
    apply negb_true_iff in HU. assert (Hv : v7 i = true).
    { unfold v7. apply existsb_exists. exists c. split; [exact Hc|]. apply negb_true_iff. apply unmapped_v7; assumption. }
    viol Hv. }
  destruct (lenZ (sort_by file_key (matching i)) =? lenZ (v_chroms i)) eqn:ELN; cbn [negb orb].
  2:{ right. exists K_maps_missing. split; [reflexivity|]. change (clause_of K_maps_missing) with 7. apply Hv7.
      apply pigeon; [exact S4b|]. apply Z.eqb_neq in ELN. unfold lenZ in ELN. rewrite sort_by_length in ELN. lia. }
  destruct (chrom_unmapped i) eqn:ECU.
  { right. exists K_maps_missing. split; [reflexivity|]. change (clause_of K_maps_missing) with 7. exact (Hv7 eq_refl). }
  rewrite forallb_forall in S5.
  assert (HNum : forall f, In f (sort_by file_key (matching i)) -> forallb numeric_or_short (snd f) = true).
  { intros f Hf. apply In_sort_by in Hf. specialize (S5 f Hf). apply andb_true_iff in S5. tauto. }
  destruct (map_files_side _ HNum) as [(cs & Hcs & HF)|[Hcs Hex]].
  2:{ rewrite Hcs. right. exists K_map_fields. split; [reflexivity|].
      assert (Hv : v8 i = true) by (unfold v8; eapply existsb_perm_sort; exact Hex).
      change (clause_of K_map_fields) with 8. viol Hv. }
  rewrite Hcs. left.
  assert (Hne : Forall (fun c : list (Z * Z) => c <> []) cs).
  { clear - HF S5. assert (G : forall f, In f (sort_by file_key (matching i)) -> snd f <> []).
    { intros f Hf. apply In_sort_by in Hf. specialize (S5 f Hf). apply andb_true_iff in S5. destruct S5 as [A _].
      destruct (snd f); [discriminate|discriminate]. }
    induction HF as [|f c fs cs' Hlen _ IH]; constructor.
    - intros ->. apply (G f (or_introl eq_refl)). destruct (snd f); [reflexivity|discriminate].
    - apply IH. intros f' Hf'. apply G. right. exact Hf'. }
  assert (Hcne : cs <> []).
  { intros ->. inversion HF as [E|]. pose proof (sort_by_length file_key (matching i)) as X. rewrite <- E in X.
    rewrite EM in X. discriminate. }
  destruct (v_region i) as [[s e]|] eqn:ERG.
  - destruct cs as [|c0' rest]; [congruence|]. inversion Hne as [|? ? Hc0' _]; subst.
    destruct c0' as [|m c0'']; [congruence|].
    pose proof (region_cut_nonempty_l (m :: c0'') s e ltac:(discriminate) (HRG s e eq_refl)) as HC.
    destruct (region_cut (m :: c0'') s e); [congruence|]. eexists; reflexivity.
  - apply no_empty_spec in Hne. rewrite Hne. destruct cs; [congruence|]. eexists; reflexivity.
Qed.

(* an input flagged by a narrow classifier is never accepted; with nothing else odd it is refused
   deliberately, by a message whose requirement is among the flagged ones *)
Corollary documented_violation_refused_l i : side_ok_b i = true -> violated i <> [] ->
  exists k, front false false i = Reject k /\ In (clause_of k) (violated i).
Proof.
  intros HS HV. destruct (model_refuses_documented_l i HS) as [[ps HA]|H]; [|exact H]. exfalso.
  destruct (violated i) as [|c r] eqn:E; [congruence|].
  assert (Hc : In c (violated i)) by (rewrite E; left; reflexivity).
  destruct (violated_sound_l i c Hc) as [Hr Hn]. apply Hn.
  assert (HW : WellFormed i) by (apply validate_iff_wellformed_l; eauto).
  destruct HW as (H1 & H2 & H3 & H4 & H5 & H6 & H7 & H8 & H9 & H10 & H11 & H12).
  unfold clause.
  repeat match goal with |- context [?a =? ?b] => destruct (a =? b) eqn:?; [assumption|] end. exact I.
Qed.

(* the model passes the malformed-input half of the checker: whenever the implementation agrees with the
   model on a non-Valid input, [holds_outcome] is true *)
Theorem model_passes_refusal_check_l i s : ~ Valid i -> holds_outcome i (front false false i) s = true.
Proof.
  intros HNV. unfold holds_outcome. destruct (unobserved (front false false i)); [reflexivity|].
  destruct (valid_b i) eqn:EV; [exfalso; apply HNV; apply valid_b_spec; exact EV|].
  destruct (side_ok_b i) eqn:ES; [|reflexivity]. cbn [andb].
  destruct (violated i) as [|c r] eqn:E; [reflexivity|]. cbn [hd_error is_none negb].
  destruct (documented_violation_refused_l i ES) as (k & Hk & Hin); [rewrite E; discriminate|].
  rewrite Hk. apply orb_true_iff. right. apply existsb_exists. exists (clause_of k).
  split; [rewrite <- E; exact Hin|apply Z.eqb_refl].
Qed.
