(* C20 - "accepted => simulated to completion" as a theorem about the composed model
   [C20_Sim.simgenotype]: for a Valid input and EVERY stream of draws that numpy may
   return, the model accepts, the simulation returns (never an exception) and the
   rows written tile the requested chromosomes with allowed labels.
   Part 1 (this file): the parsed maps - lines with cM vs lines without, the sorted
   files line up with the requested chromosomes, C20's and C02's models of
   _prepare_coords agree on Valid inputs. *)
From HV Require Import Prelude Tracts Tiling C01_Model C02_Model C02_Check C02_Tiling C02_Generations C02_Coords.
From HV Require Import C20_Model C20_Check C20_Proofs C20_Proofs2 C20_Proofs3 C20_Proofs4 C20_Sim.
From Coq Require Import QArith Qabs Permutation.
Open Scope Z_scope.

(* ------------------------------------------------------------ map lines with and without cM *)
Lemma map_line3_some l m : map_line3 l = Some m -> map_line l = inr (mk_pair m).
Proof.
  unfold map_line3, map_line.
  destruct (split_ws l) as [|c [|x [|mm [|b [|y r]]]]]; try discriminate.
  destruct (if str_eqb c [88] then Some 23 else parse_int c) as [ch|]; [|discriminate].
  destruct (parse_float mm) as [q|]; [|discriminate].
  destruct (parse_int b) as [bp|]; [|discriminate].
  intros H. inversion H; subst. reflexivity.
Qed.

Lemma map_line_some3 l p : map_line l = inr p -> exists m, map_line3 l = Some m /\ mk_pair m = p.
Proof.
  unfold map_line3, map_line.
  destruct (split_ws l) as [|c [|x [|mm [|b [|y r]]]]]; try discriminate.
  destruct (if str_eqb c [88] then Some 23 else parse_int c) as [ch|]; [|discriminate].
  destruct (parse_float mm) as [q|]; [|discriminate].
  destruct (parse_int b) as [bp|]; [|discriminate].
  intros H. inversion H; subst. eexists; split; reflexivity.
Qed.

Lemma map_lines_mks ls : forall ms, map_lines ls = inr ms ->
  exists l3, parse_all map_line3 ls = Some l3 /\ map mk_pair l3 = ms.
Proof.
  induction ls as [|l r IH]; intros ms H; cbn [map_lines] in H.
  - inversion H; subst. exists []. split; reflexivity.
  - destruct (map_line l) as [f|p] eqn:E; [discriminate|].
    destruct (map_lines r) as [f|ms'] eqn:E'; [discriminate|]. inversion H; subst.
    destruct (map_line_some3 _ _ E) as [m [Em Ep]]. destruct (IH _ eq_refl) as [l3 [El3 Emap]].
    exists (m :: l3). cbn [parse_all map]. rewrite Em, El3, Ep, Emap. split; reflexivity.
Qed.

Lemma file_mks_pairs f ms : map_lines (snd f) = inr ms -> map mk_pair (file_mks f) = ms.
Proof.
  intros H. destruct (map_lines_mks _ _ H) as [l3 [E1 E2]]. unfold file_mks. rewrite E1. exact E2.
Qed.

Lemma map_files_mks fs : forall cs, map_files fs = inr cs -> map (map mk_pair) (map file_mks fs) = cs.
Proof.
  induction fs as [|f r IH]; intros cs H; cbn [map_files] in H.
  - inversion H; reflexivity.
  - destruct (map_lines (snd f)) as [e|ms] eqn:E; [discriminate|].
    destruct (map_files r) as [e|rest] eqn:E'; [discriminate|]. inversion H; subst.
    cbn [map]. rewrite (file_mks_pairs _ _ E), (IH _ eq_refl). reflexivity.
Qed.

(* ------------------------------------------------------------ the sorted files line up with the chromosomes *)
Fixpoint ndec (l : list Z) : Prop :=
  match l with [] => True | a :: r => (forall b, In b r -> a <= b) /\ ndec r end.
Fixpoint sinc (l : list Z) : Prop :=
  match l with [] => True | a :: r => (forall b, In b r -> a < b) /\ sinc r end.

Lemma insert_by_perm {A} (key : A -> Z) x l : Permutation (insert_by key x l) (x :: l).
Proof.
  induction l as [|y r IH]; cbn [insert_by]; [apply Permutation_refl|].
  destruct (key x <=? key y); [apply Permutation_refl|].
  eapply perm_trans; [apply perm_skip; exact IH|apply perm_swap].
Qed.

Lemma sort_by_perm {A} (key : A -> Z) (l : list A) : Permutation (sort_by key l) l.
Proof.
  unfold sort_by. induction l as [|x r IH]; cbn [fold_right]; [apply perm_nil|].
  eapply perm_trans; [apply insert_by_perm|apply perm_skip; exact IH].
Qed.

Lemma insert_by_ndec {A} (key : A -> Z) x l : ndec (map key l) -> ndec (map key (insert_by key x l)).
Proof.
  induction l as [|y r IH]; intros H; cbn [insert_by map ndec].
  - split; [intros b []|exact I].
  - destruct (key x <=? key y) eqn:E.
    + apply Z.leb_le in E. cbn [map ndec]. split; [|exact H].
      intros b [<-|Hb]; [exact E|]. destruct H as [H _]. specialize (H b Hb). lia.
    + apply Z.leb_gt in E. cbn [map ndec]. destruct H as [H1 H2]. split; [|exact (IH H2)].
      intros b Hb. apply in_map_iff in Hb. destruct Hb as [z [<- Hz]].
      apply In_insert_by in Hz. destruct Hz as [->|Hz]; [lia|].
      apply H1. apply in_map. exact Hz.
Qed.

Lemma sort_by_ndec {A} (key : A -> Z) (l : list A) : ndec (map key (sort_by key l)).
Proof.
  unfold sort_by. induction l as [|x r IH]; cbn [fold_right]; [exact I|].
  apply insert_by_ndec. exact IH.
Qed.

Lemma ndec_nodup_sinc l : ndec l -> NoDup l -> sinc l.
Proof.
  induction l as [|a r IH]; intros H N; [exact I|]. destruct H as [H1 H2].
  inversion N as [|? ? Na Nr]; subst. split; [|exact (IH H2 Nr)].
  intros b Hb. specialize (H1 b Hb). assert (a <> b) by (intros ->; exact (Na Hb)). lia.
Qed.

Lemma sinc_nodup l : sinc l -> NoDup l.
Proof.
  induction l as [|a r IH]; intros H; [constructor|]. destruct H as [H1 H2].
  constructor; [|exact (IH H2)]. intros Ha. specialize (H1 a Ha). lia.
Qed.

Lemma sinc_unique l1 : forall l2, sinc l1 -> sinc l2 -> (forall x, In x l1 <-> In x l2) -> l1 = l2.
Proof.
  induction l1 as [|a r1 IH]; intros [|b r2] H1 H2 HE.
  - reflexivity.
  - exfalso. apply (proj2 (HE b)). left; reflexivity.
  - exfalso. apply (proj1 (HE a)). left; reflexivity.
  - destruct H1 as [A1 S1]. destruct H2 as [A2 S2].
    assert (a = b).
    { destruct (proj1 (HE a) (or_introl eq_refl)) as [E|Ha]; [auto|].
      destruct (proj2 (HE b) (or_introl eq_refl)) as [E|Hb]; [auto|].
      specialize (A1 b Hb). specialize (A2 a Ha). lia. }
    subst b. f_equal. apply IH; [exact S1|exact S2|].
    intros x. split; intros Hx.
    + destruct (proj1 (HE x) (or_intror Hx)) as [E|Hx2]; [|exact Hx2].
      subst x. specialize (A1 a Hx). lia.
    + destruct (proj2 (HE x) (or_intror Hx)) as [E|Hx1]; [|exact Hx1].
      subst x. specialize (A2 a Hx). lia.
Qed.

Lemma strict_incr_sinc l : strict_incr l = true -> sinc l.
Proof.
  induction l as [|a r IH]; intros H; [exact I|].
  split; [exact (strict_incr_head a r H)|exact (IH (strict_incr_tail a r H))].
Qed.

(* what Valid adds to WellFormed, piece by piece *)
Lemma valid_strict i : Valid i ->
  forallb (fun toks => forallb q01 (line_fracs toks)) (gen_toks i) = true /\
  (exists l r a fr, gen_toks i = l :: r /\ line_fracs l = a :: fr /\ (a == 0)%Q) /\
  strict_incr (req_chroms i) = true /\
  forallb file_consistent (matching i) = true /\
  (forall s e, v_region i = Some (s, e) -> 0 <= s /\ length (v_chroms i) = 1%nat).
Proof.
  intros (_ & HS & _). unfold strict_b in HS.
  apply andb_true_iff in HS. destruct HS as [HS H6].
  apply andb_true_iff in HS. destruct HS as [HS H5].
  apply andb_true_iff in HS. destruct HS as [HS H4].
  apply andb_true_iff in HS. destruct HS as [HS H3].
  apply andb_true_iff in HS. destruct HS as [H1 H2].
  split; [exact H1|]. split.
  { destruct (gen_toks i) as [|l r]; [discriminate|]. destruct (line_fracs l) as [|a fr] eqn:E; [discriminate|].
    exists l, r, a, fr. split; [reflexivity|]. split; [exact E|]. apply Qeq_bool_iff. exact H2. }
  split; [exact H3|]. split; [exact H4|].
  intros s e E. rewrite E in H5, H6. apply Z.leb_le in H5. apply Z.eqb_eq in H6.
  split; [exact H5|]. unfold lenZ in H6. lia.
Qed.

Lemma matching_key i f : In f (matching i) -> In (file_key f) (req_chroms i).
Proof.
  unfold matching. intros H. apply filter_In in H. destruct H as [_ H]. unfold file_chr_in in H.
  unfold file_key, req_chroms. destruct (find_chr (fst f)) as [g|]; [|discriminate].
  apply mem_str_In in H. apply in_map. exact H.
Qed.

Theorem sorted_keys i : Valid i -> map file_key (sort_by file_key (matching i)) = req_chroms i.
Proof.
  intros HV. pose proof (valid_strict i HV) as (_ & _ & HS & _). destruct HV as (HW & _ & _).
  destruct HW as (_ & _ & _ & _ & _ & _ & (_ & _ & HMAP & HLEN) & _).
  pose proof (strict_incr_sinc _ HS) as Hreq.
  set (ks := map file_key (matching i)).
  assert (Hincl : incl (req_chroms i) ks).
  { intros c Hc. unfold req_chroms in Hc. apply in_map_iff in Hc. destruct Hc as [g [<- Hg]].
    destruct (HMAP g Hg) as [f [Hf Hc]]. unfold ks. apply in_map_iff. exists f. split; [|exact Hf].
    unfold file_key. rewrite Hc. reflexivity. }
  assert (Hperm : Permutation (req_chroms i) ks).
  { apply NoDup_Permutation_bis; [apply sinc_nodup; exact Hreq| |exact Hincl].
    unfold ks, req_chroms. rewrite !map_length. lia. }
  assert (Hperm2 : Permutation (map file_key (sort_by file_key (matching i))) (req_chroms i)).
  { eapply perm_trans; [apply Permutation_map; apply sort_by_perm|]. apply Permutation_sym. exact Hperm. }
  apply sinc_unique.
  - apply ndec_nodup_sinc; [apply sort_by_ndec|].
    eapply Permutation_NoDup; [apply Permutation_sym; exact Hperm2|apply sinc_nodup; exact Hreq].
  - exact Hreq.
  - intros x. split; intros Hx.
    + eapply Permutation_in; [exact Hperm2|exact Hx].
    + eapply Permutation_in; [apply Permutation_sym; exact Hperm2|exact Hx].
Qed.

(* ------------------------------------------------------------ a consistent map file *)
Definition mks_ok (c : Z) (ms : list mk) : Prop :=
  Forall (fun m => k_chrom m = c /\ 0 <= k_bp m < MAXC) ms /\ sinc (map k_bp ms) /\ cm_nondecr (map k_cm ms) = true.

Lemma file_consistent_ok f : file_consistent f = true ->
  mks_ok (file_key f) (file_mks f) /\ exists ms, map_lines (snd f) = inr ms.
Proof.
  unfold file_consistent. destruct (map_lines (snd f)) as [e|ms] eqn:E; [discriminate|].
  intros H. apply andb_true_iff in H. destruct H as [H H4].
  apply andb_true_iff in H. destruct H as [H H3]. apply andb_true_iff in H. destruct H as [H1 H2].
  pose proof (file_mks_pairs f ms E) as EP. split; [|exists ms; reflexivity].
  split; [|split; [|exact H4]].
  - apply Forall_forall. intros m Hm. rewrite forallb_forall in H1, H3.
    assert (Hin : In (mk_pair m) ms) by (rewrite <- EP; apply in_map; exact Hm).
    specialize (H1 _ Hin). specialize (H3 _ Hin). cbn [mk_pair fst snd] in H1, H3.
    apply Z.eqb_eq in H1. apply andb_true_iff in H3. destruct H3 as [A B].
    apply Z.leb_le in A. apply Z.ltb_lt in B. unfold MAXI in B. unfold MAXC. auto.
  - apply strict_incr_sinc. rewrite <- EP in H2. rewrite map_map in H2. exact H2.
Qed.

(* ------------------------------------------------------------ the region loop: C20's scan = C02's slice *)
Lemma first_ge_idx_lt x : forall l k, first_ge_idx x l = Some k -> (k < length l)%nat.
Proof.
  induction l as [|m r IH]; intros k H; cbn [first_ge_idx] in H; [discriminate|].
  destruct (x <=? fst m); [inversion H; cbn; lia|].
  destruct (first_ge_idx x r) as [k'|]; [|discriminate]. inversion H; subst. specialize (IH k' eq_refl). cbn. lia.
Qed.

Lemma cut_scan_first s e len : forall ms ind si, 0 <= ind ->
  cut_scan (map mk_pair ms) ind si s e len =
  let l := map c02_marker ms in
  match first_ge_idx e l with
  | Some ie =>
      ((if si <? 0 then match first_ge_idx s (firstn (S ie) l) with Some k => ind + Z.of_nat k | None => si end else si),
       ind + Z.of_nat ie + 1)
  | None =>
      ((if si <? 0 then match first_ge_idx s l with Some k => ind + Z.of_nat k | None => si end else si), len)
  end.
Proof.
  induction ms as [|m r IH]; intros ind si Hind; cbn zeta.
  - cbn. destruct (si <? 0); reflexivity.
  - cbn [map cut_scan first_ge_idx]. cbn [mk_pair c02_marker fst snd].
    destruct (e <=? k_bp m) eqn:Ee.
    + cbn [firstn first_ge_idx fst c02_marker option_map].
      destruct (s <=? k_bp m) eqn:Es; destruct (si <? 0) eqn:Esi; cbn [andb]; f_equal; lia.
    + rewrite (IH (ind + 1) _ ltac:(lia)). cbn zeta.
      destruct (first_ge_idx e (map c02_marker r)) as [ie|] eqn:Eie; cbn [option_map].
      * rewrite firstn_cons. cbn [first_ge_idx fst c02_marker].
        destruct (s <=? k_bp m) eqn:Es; destruct (si <? 0) eqn:Esi; cbn [andb].
        -- assert (X : ind <? 0 = false) by (apply Z.ltb_ge; lia). rewrite X. f_equal; lia.
        -- rewrite Esi. f_equal; lia.
        -- rewrite Esi. destruct (first_ge_idx s (firstn (S ie) (map c02_marker r))) as [k|]; cbn [option_map];
             f_equal; lia.
        -- rewrite Esi. f_equal; lia.
      * cbn [first_ge_idx fst c02_marker].
        destruct (s <=? k_bp m) eqn:Es; destruct (si <? 0) eqn:Esi; cbn [andb].
        -- assert (X : ind <? 0 = false) by (apply Z.ltb_ge; lia). rewrite X. f_equal; lia.
        -- rewrite Esi. reflexivity.
        -- rewrite Esi. destruct (first_ge_idx s (map c02_marker r)) as [k|]; cbn [option_map]; f_equal; lia.
        -- rewrite Esi. reflexivity.
Qed.

Lemma pyslice_map {A B} (f : A -> B) l a b : pyslice (map f l) a b = map f (pyslice l a b).
Proof. unfold pyslice, lenZ. rewrite map_length, skipn_map, firstn_map. reflexivity. Qed.

Lemma cut3_pairs ms s e : map mk_pair (cut3 ms s e) = region_cut (map mk_pair ms) s e.
Proof.
  unfold cut3, region_cut. unfold lenZ at 2. rewrite map_length. fold (lenZ ms).
  destruct (cut_scan (map mk_pair ms) 0 (-1) s e (lenZ ms)) as [si ei]. symmetry. apply pyslice_map.
Qed.

Lemma region_agree ms s e : ms <> [] ->
  region_slice s e (map c02_marker ms) = Ok (map c02_marker (cut3 ms s e)).
Proof.
  intros Hne. unfold region_slice, cut3.
  destruct (map c02_marker ms) as [|m0 l0] eqn:El; [destruct ms; [congruence|discriminate]|].
  rewrite <- El. clear m0 l0 El.
  rewrite (cut_scan_first s e (lenZ ms) ms 0 (-1) ltac:(lia)). cbn zeta.
  set (l := map c02_marker ms).
  assert (Hlen : length l = length ms) by (unfold l; apply map_length).
  assert (Hpos : (0 < length ms)%nat) by (destruct ms; [congruence|cbn; lia]).
  change (-1 <? 0) with true. cbn iota.
  f_equal.
  assert (Hmap : forall a b, map c02_marker (firstn a (skipn b ms)) = firstn a (skipn b l)).
  { intros a b. unfold l. rewrite skipn_map, firstn_map. reflexivity. }
  destruct (first_ge_idx e l) as [ie|] eqn:Eie.
  - pose proof (first_ge_idx_lt _ _ _ Eie) as Hie.
    destruct (first_ge_idx s (firstn (S ie) l)) as [k|] eqn:Ek; cbn beta iota; unfold pyslice; rewrite Hmap.
    + pose proof (first_ge_idx_lt _ _ _ Ek) as Hk. rewrite firstn_length in Hk.
      assert (X : 0 + Z.of_nat k <? 0 = false) by (apply Z.ltb_ge; lia). rewrite X.
      assert (Y : 0 + Z.of_nat ie + 1 <? 0 = false) by (apply Z.ltb_ge; lia). rewrite Y.
      unfold lenZ. f_equal; [lia|f_equal; lia].
    + change (-1 <? 0) with true.
      assert (Y : 0 + Z.of_nat ie + 1 <? 0 = false) by (apply Z.ltb_ge; lia). rewrite Y.
      unfold lenZ. f_equal; [lia|f_equal; lia].
  - rewrite firstn_all.
    destruct (first_ge_idx s l) as [k|] eqn:Ek; cbn beta iota; unfold pyslice; rewrite Hmap.
    + pose proof (first_ge_idx_lt _ _ _ Ek) as Hk.
      assert (X : 0 + Z.of_nat k <? 0 = false) by (apply Z.ltb_ge; lia). rewrite X.
      assert (Y : lenZ ms <? 0 = false) by (apply Z.ltb_ge; unfold lenZ; lia). rewrite Y.
      unfold lenZ. f_equal; [lia|f_equal; lia].
    + change (-1 <? 0) with true.
      assert (Y : lenZ ms <? 0 = false) by (apply Z.ltb_ge; unfold lenZ; lia). rewrite Y.
      unfold lenZ. f_equal; [lia|f_equal; lia].
Qed.

(* ------------------------------------------------------------ C20's and C02's _prepare_coords agree on Valid inputs *)
Lemma filter_all {A} (p : A -> bool) l : (forall x, In x l -> p x = true) -> filter p l = l.
Proof.
  induction l as [|a r IH]; intros H; [reflexivity|]. cbn [filter].
  rewrite (H a (or_introl eq_refl)). f_equal. apply IH. intros x Hx. apply H. right. exact Hx.
Qed.

Lemma mapM_seal_ok cs : Forall (fun ms : list marker => ms <> []) cs -> mapM seal_res cs = Ok (map seal cs).
Proof.
  induction 1 as [|x r Hx Hr IH]; [reflexivity|]. cbn [mapM map].
  destruct x as [|m x']; [congruence|]. cbn [seal_res bind]. rewrite IH. reflexivity.
Qed.

(* C20's view of what _prepare_coords keeps: all files, or the region's cut of the first *)
Definition cut_coords (i : vin) (coords : list (list (Z * Z))) : list (list (Z * Z)) :=
  match v_region i with
  | None => coords
  | Some (s, e) => match coords with c0 :: _ => [region_cut c0 s e] | [] => [] end
  end.

Lemma c02_maps_keys i : map fst (c02_maps i) = map file_key (sort_by file_key (matching i)).
Proof. unfold c02_maps. rewrite map_map. reflexivity. Qed.

Theorem prepare_coords_agree i : Valid i ->
  exists coords,
    coords_of i = inr coords /\
    C20_Model.prepare_coords false i = None /\
    map (map mk_pair) (sim_markers i) = cut_coords i coords /\
    Forall (fun c => c <> []) (sim_markers i) /\
    length (sim_markers i) = length (req_chroms i) /\
    C02_Coords.prepare_coords (c02_maps i) (req_chroms i) (v_region i)
      = Ok (map (fun c => seal (map c02_marker c)) (sim_markers i)).
Proof.
  intros HV. pose proof (sorted_keys i HV) as HK. pose proof (valid_strict i HV) as (_ & _ & _ & _ & HR).
  destruct HV as (HW & _ & _).
  apply validate_iff_wellformed_l in HW. destruct HW as [ps HA]. apply front_accept_iff in HA.
  destruct HA as (HVal & HLEN & HMAP & HML).
  pose proof (validated_matching _ _ HVal) as HM.
  assert (HP : C20_Model.prepare_coords false i = None) by (apply (prepare_coords_none i HM); auto).
  destruct HML as (coords & HC & HRG). exists coords. split; [exact HC|]. split; [exact HP|].
  unfold coords_of in HC. pose proof (map_files_mks _ _ HC) as HMK.
  assert (HKeys : map fst (c02_maps i) = req_chroms i) by (rewrite c02_maps_keys; exact HK).
  assert (HLs : length (sort_by file_key (matching i)) = length (req_chroms i)).
  { rewrite sort_by_length, HLEN. unfold req_chroms. rewrite map_length. reflexivity. }
  assert (HFilt : filter (wanted (req_chroms i)) (c02_maps i) = c02_maps i).
  { apply filter_all. intros f Hf. unfold wanted. apply existsb_exists. exists (fst f).
    split; [rewrite <- HKeys; apply in_map; exact Hf|apply Z.eqb_refl]. }
  assert (HChk : ((length (c02_maps i) =? length (req_chroms i))%nat
                  && forallb (fun c => existsb (fun f : mapfile => fst f =? c) (c02_maps i)) (req_chroms i)) = true).
  { apply andb_true_iff. split.
    - apply Nat.eqb_eq. unfold c02_maps. rewrite map_length. exact HLs.
    - apply forallb_forall. intros c Hc. rewrite <- HKeys in Hc. apply in_map_iff in Hc.
      destruct Hc as [f [<- Hf]]. apply existsb_exists. exists f. split; [exact Hf|apply Z.eqb_refl]. }
  unfold C02_Coords.prepare_coords. rewrite HFilt, HChk. cbn [negb].
  unfold sim_markers, cut_coords. cbn zeta.
  set (srt := sort_by file_key (matching i)) in *.
  destruct (v_region i) as [[s e]|] eqn:ERG.
  - destruct HRG as (c0 & rest & -> & HCut).
    destruct srt as [|f0 fr] eqn:Esrt; [discriminate|]. cbn [map] in HMK. inversion HMK as [[HC0 Hrest]]. clear HMK. subst c0 rest.
    assert (Hc0 : file_mks f0 <> []).
    { intros E. rewrite E in HCut. cbn [map] in HCut. apply HCut. reflexivity. }
    change (map file_mks (f0 :: fr)) with (file_mks f0 :: map file_mks fr). cbn iota. cbn [map].
    split; [rewrite cut3_pairs; reflexivity|].
    split.
    { constructor; [|constructor]. intros E. apply HCut. rewrite <- cut3_pairs, E. reflexivity. }
    split; [destruct (HR s e eq_refl) as [_ H1]; unfold req_chroms; rewrite map_length; cbn; lia|].
    unfold c02_maps. fold srt. rewrite Esrt. cbn [map]. unfold c02_file at 1. cbn [snd].
    rewrite (region_agree _ s e Hc0). cbn [bind mapM].
    assert (Hx : map c02_marker (cut3 (file_mks f0) s e) <> []).
    { intros E. apply map_eq_nil in E. apply HCut. rewrite <- cut3_pairs, E. reflexivity. }
    destruct (map c02_marker (cut3 (file_mks f0) s e)) as [|m x'] eqn:Ex; [congruence|].
    cbn [seal_res bind]. reflexivity.
  - split; [exact HMK|]. split.
    { apply Forall_forall. intros x Hx E. rewrite Forall_forall in HRG. apply (HRG (map mk_pair x)).
      - rewrite <- HMK. apply in_map. exact Hx.
      - rewrite E. reflexivity. }
    split; [rewrite map_length; exact HLs|].
    cbn [bind]. unfold c02_maps. fold srt. rewrite !map_map. cbn [c02_file snd].
    rewrite <- (map_map file_mks (map c02_marker)).
    rewrite mapM_seal_ok.
    + cbn [bind]. rewrite !map_map.
      assert (Hsne : srt <> []).
      { intros E. pose proof (sort_by_length file_key (matching i)) as HL. fold srt in HL. rewrite E in HL.
        destruct (matching i); [congruence|discriminate]. }
      destruct srt as [|f0 fr]; [congruence|reflexivity].
    + apply Forall_forall. intros x Hx. apply in_map_iff in Hx. destruct Hx as [y [<- Hy]].
      apply in_map_iff in Hy. destruct Hy as [f [<- Hf]]. intros E. apply map_eq_nil in E.
      rewrite Forall_forall in HRG. apply (HRG (map mk_pair (file_mks f))).
      * rewrite <- HMK. apply in_map. apply in_map. exact Hf.
      * rewrite E. reflexivity.
Qed.
