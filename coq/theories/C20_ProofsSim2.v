(* C20 - "accepted => simulated to completion", part 2: the recombination events that any
   mask selects on the markers of a Valid input are what C02's tiling theorem needs
   ([evs_ok]): on requested chromosomes, in chromosome order, base-pair positions strictly
   increasing within a chromosome, non-negative and below the sentinel - and sorting them
   by (chromosome, cM), as the code does, leaves them in that order. *)
From HV Require Import Prelude Tracts Tiling C01_Model C02_Model C02_Check C02_Tiling C02_Generations C02_Coords.
From HV Require Import C20_Model C20_Check C20_Proofs C20_Proofs2 C20_Proofs3 C20_Proofs4 C20_Sim C20_ProofsSim.
From Coq Require Import QArith Qabs.
Open Scope Z_scope.

(* ------------------------------------------------------------ consistency survives the region cut *)
Lemma sinc_skipn l : forall k, sinc l -> sinc (skipn k l).
Proof.
  induction l as [|a r IH]; intros [|k] H; cbn [skipn]; try exact H. destruct H as [_ H]. exact (IH k H).
Qed.
Lemma sinc_firstn l : forall k, sinc l -> sinc (firstn k l).
Proof.
  induction l as [|a r IH]; intros [|k] H; cbn [firstn]; try exact I. destruct H as [H1 H2].
  split; [|exact (IH k H2)]. intros b Hb. apply H1. rewrite <- (firstn_skipn k r). apply in_or_app. left. exact Hb.
Qed.
Lemma cm_nondecr_tail a l : cm_nondecr (a :: l) = true -> cm_nondecr l = true.
Proof. cbn [cm_nondecr]. intros H. apply andb_true_iff in H. tauto. Qed.
Lemma cm_nondecr_skipn l : forall k, cm_nondecr l = true -> cm_nondecr (skipn k l) = true.
Proof.
  induction l as [|a r IH]; intros [|k] H; cbn [skipn]; try exact H. exact (IH k (cm_nondecr_tail _ _ H)).
Qed.
Lemma cm_nondecr_firstn l : forall k, cm_nondecr l = true -> cm_nondecr (firstn k l) = true.
Proof.
  induction l as [|a r IH]; intros [|k] H; cbn [firstn]; try reflexivity.
  cbn [cm_nondecr]. rewrite (IH k (cm_nondecr_tail _ _ H)), andb_true_r.
  destruct r as [|b r']; [destruct k; reflexivity|]. destruct k as [|k]; [reflexivity|]. cbn [firstn].
  cbn [cm_nondecr] in H. apply andb_true_iff in H. tauto.
Qed.

Lemma Forall_firstn {A} (P : A -> Prop) l k : Forall P l -> Forall P (firstn k l).
Proof.
  intros H. apply Forall_forall. intros x Hx. rewrite Forall_forall in H. apply H.
  rewrite <- (firstn_skipn k l). apply in_or_app. left. exact Hx.
Qed.
Lemma Forall_skipn {A} (P : A -> Prop) l k : Forall P l -> Forall P (skipn k l).
Proof.
  intros H. apply Forall_forall. intros x Hx. rewrite Forall_forall in H. apply H.
  rewrite <- (firstn_skipn k l). apply in_or_app. right. exact Hx.
Qed.

Lemma mks_ok_sub c ms a b : mks_ok c ms -> mks_ok c (firstn a (skipn b ms)).
Proof.
  intros (H1 & H2 & H3). split; [|split].
  - apply Forall_firstn, Forall_skipn. exact H1.
  - rewrite <- firstn_map, <- skipn_map. apply sinc_firstn, sinc_skipn. exact H2.
  - rewrite <- firstn_map, <- skipn_map. apply cm_nondecr_firstn, cm_nondecr_skipn. exact H3.
Qed.

Lemma mks_ok_cut3 c ms s e : mks_ok c ms -> mks_ok c (cut3 ms s e).
Proof.
  intros H. unfold cut3. destruct (cut_scan (map mk_pair ms) 0 (-1) s e (lenZ ms)) as [si ei].
  unfold pyslice. apply mks_ok_sub. exact H.
Qed.

Lemma Forall2_maps {A B C} (R : B -> C -> Prop) (f : A -> B) (g : A -> C) l :
  (forall x, In x l -> R (f x) (g x)) -> Forall2 R (map f l) (map g l).
Proof.
  induction l as [|a r IH]; intros H; cbn [map]; constructor.
  - apply H. left; reflexivity.
  - apply IH. intros x Hx. apply H. right. exact Hx.
Qed.

(* the markers handed to _simulate, chromosome by chromosome, belong to the requested chromosomes in order *)
Theorem sim_markers_aligned i : Valid i -> Forall2 mks_ok (req_chroms i) (sim_markers i).
Proof.
  intros HV. pose proof (sorted_keys i HV) as HK. pose proof (valid_strict i HV) as (_ & _ & _ & HFC & HR).
  assert (Hfile : forall f, In f (sort_by file_key (matching i)) -> mks_ok (file_key f) (file_mks f)).
  { intros f Hf. apply In_sort_by in Hf. rewrite forallb_forall in HFC.
    exact (proj1 (file_consistent_ok f (HFC f Hf))). }
  unfold sim_markers. cbn zeta. rewrite <- HK.
  set (srt := sort_by file_key (matching i)) in *.
  destruct (v_region i) as [[s e]|] eqn:ERG.
  - destruct (HR s e eq_refl) as [_ H1].
    assert (HL : length srt = 1%nat).
    { pose proof (f_equal (@length Z) HK) as X. unfold req_chroms in X. rewrite !map_length in X. lia. }
    destruct srt as [|f0 [|f1 fr]]; try discriminate. cbn [map].
    constructor; [|constructor]. apply mks_ok_cut3. apply Hfile. left; reflexivity.
  - apply Forall2_maps. exact Hfile.
Qed.

(* ------------------------------------------------------------ the events of one chromosome *)
Definition t_chrom (t : tagged) : Z := fst (fst t).
Definition t_cm (t : tagged) : Q := snd (fst t).

(* tagged events on chromosome c: bp positions >= lo and strictly increasing, below the sentinel;
   cM keys >= qlo and non-decreasing *)
Fixpoint blk (c lo : Z) (qlo : Q) (l : list tagged) : Prop :=
  match l with
  | [] => True
  | t :: r => t_chrom t = c /\ ev_chrom (snd t) = c /\ lo <= ev_bp (snd t) < MAXC /\ (qlo <= t_cm t)%Q /\
              blk c (ev_bp (snd t) + 1) (t_cm t) r
  end.

Lemma blk_weaken c : forall l lo lo' q q', lo' <= lo -> (q' <= q)%Q -> blk c lo q l -> blk c lo' q' l.
Proof.
  destruct l as [|t r]; intros lo lo' q q' Hlo Hq H; [exact I|].
  destruct H as (A & B & C & D & E). cbn [blk]. repeat split; try assumption; try lia.
  eapply Qle_trans; eauto.
Qed.

Lemma pair_events_blk c : forall ms p mask, mks_ok c (p :: ms) ->
  blk c (k_bp p) (k_cm p) (pair_events p ms mask).
Proof.
  induction ms as [|m r IH]; intros p mask H; [exact I|].
  destruct mask as [|b mr]; [exact I|]. cbn [pair_events].
  destruct H as (H1 & H2 & H3).
  assert (Hm : mks_ok c (m :: r)).
  { split; [inversion H1; assumption|]. split; [exact (proj2 H2)|exact (cm_nondecr_tail _ _ H3)]. }
  specialize (IH m mr Hm).
  assert (Hbp : k_bp p < k_bp m) by (apply (proj1 H2); left; reflexivity).
  assert (Hcm : (k_cm p <= k_cm m)%Q).
  { cbn [map cm_nondecr] in H3. apply andb_true_iff in H3. apply Qle_bool_iff. tauto. }
  inversion H1 as [|? ? Hp Hr]; subst. inversion Hr as [|? ? Hmm _]; subst.
  destruct (b && negb (Qle_bool (k_cm m) (k_cm p))); cbn [app].
  - cbn [blk t_chrom t_cm fst snd ev_chrom ev_bp]. destruct Hmm as [Hc _]. destruct Hp as [_ Hpb].
    repeat split; try assumption; try lia.
    eapply blk_weaken; [| |exact IH]; [lia|apply Qle_refl].
  - eapply blk_weaken; [| |exact IH]; [lia|exact Hcm].
Qed.

Lemma chrom_events_blk c ms mask : mks_ok c ms -> exists q, blk c 0 q (chrom_events ms mask).
Proof.
  intros H. unfold chrom_events. destruct ms as [|m0 r]; [exists 0%Q; exact I|].
  destruct mask as [|b mr]; [exists 0%Q; exact I|].
  exists (k_cm m0). eapply blk_weaken; [| |exact (pair_events_blk c r m0 mr H)]; [|apply Qle_refl].
  destruct H as (H1 & _). inversion H1 as [|? ? Hp _]; subst. lia.
Qed.

Lemma blk_chrom c : forall l lo q, blk c lo q l -> Forall (fun t => t_chrom t = c /\ (q <= t_cm t)%Q) l.
Proof.
  induction l as [|t r IH]; intros lo q H; [constructor|]. destruct H as (A & B & C & D & E).
  constructor; [split; assumption|]. eapply Forall_impl; [|exact (IH _ _ E)].
  intros x [X1 X2]. split; [exact X1|]. eapply Qle_trans; eauto.
Qed.

(* ------------------------------------------------------------ sorted(key = (chrom, cM)) changes nothing *)
Fixpoint pw (l : list tagged) : Prop :=
  match l with [] => True | a :: r => Forall (fun b => ev_le a b = true) r /\ pw r end.

Lemma sort_le_id l : pw l -> sort_le ev_le l = l.
Proof.
  induction l as [|a r IH]; intros H; [reflexivity|]. destruct H as [H1 H2].
  unfold sort_le in *. cbn [fold_right]. rewrite (IH H2).
  destruct r as [|b r']; [reflexivity|]. cbn [insert_le]. inversion H1 as [|? ? Hab _]; subst.
  rewrite Hab. reflexivity.
Qed.

Lemma pw_app l1 l2 : pw l1 -> pw l2 -> (forall a b, In a l1 -> In b l2 -> ev_le a b = true) -> pw (l1 ++ l2).
Proof.
  induction l1 as [|a r IH]; intros H1 H2 H12; [exact H2|]. destruct H1 as [A B]. cbn [app pw]. split.
  - apply Forall_app. split; [exact A|]. apply Forall_forall. intros b Hb. apply H12; [left; reflexivity|exact Hb].
  - apply IH; [exact B|exact H2|]. intros x y Hx Hy. apply H12; [right; exact Hx|exact Hy].
Qed.

Lemma ev_le_same (a b : tagged) : t_chrom a = t_chrom b -> (t_cm a <= t_cm b)%Q -> ev_le a b = true.
Proof.
  destruct a as [[c1 q1] e1], b as [[c2 q2] e2]. cbn [t_chrom t_cm fst snd ev_le]. intros -> H.
  rewrite Z.eqb_refl. apply Qle_bool_iff in H. rewrite H. apply orb_true_r.
Qed.
Lemma ev_le_lt (a b : tagged) : t_chrom a < t_chrom b -> ev_le a b = true.
Proof.
  destruct a as [[c1 q1] e1], b as [[c2 q2] e2]. cbn [t_chrom t_cm fst snd ev_le]. intros H.
  apply Z.ltb_lt in H. rewrite H. reflexivity.
Qed.

Lemma blk_pw c : forall l lo q, blk c lo q l -> pw l.
Proof.
  induction l as [|t r IH]; intros lo q H; [exact I|]. destruct H as (A & B & C & D & E). split; [|exact (IH _ _ E)].
  eapply Forall_impl; [|exact (blk_chrom _ _ _ _ E)]. intros x [X1 X2]. apply ev_le_same; [congruence|exact X2].
Qed.

Lemma all_events_chroms chs cs : Forall2 mks_ok chs cs -> forall masks t,
  In t (all_events cs masks) -> In (t_chrom t) chs.
Proof.
  induction 1 as [|c ms chs' cs' Hc Hr IH]; intros masks t Ht; [destruct Ht|].
  destruct masks as [|m mr]; [destruct Ht|]. cbn [all_events] in Ht. apply in_app_or in Ht. destruct Ht as [Ht|Ht].
  - left. destruct (chrom_events_blk c ms m Hc) as [q Hb]. pose proof (blk_chrom _ _ _ _ Hb) as HF.
    rewrite Forall_forall in HF. symmetry. exact (proj1 (HF t Ht)).
  - right. exact (IH mr t Ht).
Qed.

Lemma all_events_pw chs cs : sinc chs -> Forall2 mks_ok chs cs -> forall masks, pw (all_events cs masks).
Proof.
  intros Hs H. induction H as [|c ms chs' cs' Hc Hr IH]; intros masks; [exact I|].
  destruct masks as [|m mr]; [exact I|]. cbn [all_events]. destruct Hs as [Hs1 Hs2].
  destruct (chrom_events_blk c ms m Hc) as [q Hb].
  apply pw_app; [exact (blk_pw _ _ _ _ Hb)|exact (IH Hs2 mr)|].
  intros a b Ha Hb'. apply ev_le_lt. pose proof (blk_chrom _ _ _ _ Hb) as HF. rewrite Forall_forall in HF.
  rewrite (proj1 (HF a Ha)). apply Hs1. exact (all_events_chroms _ _ Hr mr b Hb').
Qed.

(* ------------------------------------------------------------ ... and they are what C02's theorem needs *)
Section Ordered.
Variable chroms : list Z.

Definition later (j : nat) (evs : list event) : Prop :=
  forall j' x', (j' < j)%nat -> evs_ok chroms j' x' evs.

Lemma blk_evs_ok j c rest : nth_error chroms j = Some c -> (forall x', evs_ok chroms j x' rest) ->
  forall l x lo q, x < lo -> blk c lo q l -> evs_ok chroms j x (map snd l ++ rest).
Proof.
  intros Hj Hrest. induction l as [|t r IH]; intros x lo q Hx H; [apply Hrest|].
  destruct H as (A & B & C & D & E). cbn [map app evs_ok]. exists j. split; [rewrite B; exact Hj|].
  split; [left; split; [reflexivity|lia]|]. split; [lia|].
  apply (IH (ev_bp (snd t)) (ev_bp (snd t) + 1) (t_cm t)); [lia|exact E].
Qed.

Lemma later_block j c q l rest : nth_error chroms j = Some c -> blk c 0 q l -> later (S j) rest ->
  later j (map snd l ++ rest).
Proof.
  intros Hj Hb Hrest j' x' Hj'. destruct l as [|t r]; [apply Hrest; lia|].
  destruct Hb as (A & B & C & D & E). cbn [map app evs_ok]. exists j. split; [rewrite B; exact Hj|].
  split; [right; split; [exact Hj'|lia]|]. split; [lia|].
  apply (blk_evs_ok j c rest Hj (fun x => Hrest j x (Nat.lt_succ_diag_r j)) r _ (ev_bp (snd t) + 1) (t_cm t)); [lia|exact E].
Qed.

Lemma all_events_later : forall chs cs, Forall2 mks_ok chs cs -> forall pre masks, chroms = pre ++ chs ->
  later (length pre) (map snd (all_events cs masks)).
Proof.
  induction 1 as [|c ms chs' cs' Hc Hr IH]; intros pre masks E.
  - intros j' x' _. exact I.
  - destruct masks as [|m mr]; [intros j' x' _; exact I|]. cbn [all_events]. rewrite map_app.
    destruct (chrom_events_blk c ms m Hc) as [q Hb].
    apply (later_block (length pre) c q); [|exact Hb|].
    + rewrite E, nth_error_app2, Nat.sub_diag; [reflexivity|lia].
    + replace (S (length pre)) with (length (pre ++ [c])) by (rewrite app_length; cbn; lia).
      apply IH. rewrite E, <- app_assoc. reflexivity.
Qed.

End Ordered.

Theorem all_events_ok chroms cs masks : Forall2 mks_ok chroms cs -> evs_ok chroms 0 (-1) (map snd (all_events cs masks)).
Proof.
  intros H. destruct H as [|c ms chs' cs' Hc Hr]; [exact I|].
  destruct masks as [|m mr]; [exact I|]. cbn [all_events]. rewrite map_app.
  destruct (chrom_events_blk c ms m Hc) as [q Hb].
  apply (blk_evs_ok (c :: chs') 0 c _ eq_refl) with (lo := 0) (q := q); [|lia|exact Hb].
  intros x'. apply (all_events_later (c :: chs') chs' cs' Hr [c] mr eq_refl 0%nat x'). cbn. lia.
Qed.

(* every mask on the markers of a Valid input yields events C02's tiling theorem accepts *)
Theorem valid_events_ok i : Valid i -> forall masks,
  evs_ok (req_chroms i) 0 (-1) (events_of (sim_markers i) masks).
Proof.
  intros HV masks. pose proof (sim_markers_aligned i HV) as HA.
  pose proof (valid_strict i HV) as (_ & _ & HS & _).
  unfold events_of. rewrite (sort_le_id _ (all_events_pw _ _ (strict_incr_sinc _ HS) HA masks)).
  apply all_events_ok. exact HA.
Qed.
