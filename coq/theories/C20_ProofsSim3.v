(* C20 - "accepted => simulated to completion", part 3: what numpy guarantees about the draws
   ([stream_ok], [idx_ok]); every generation of the schedule of a Valid model file passes
   numpy's own argument checks; by C02's theorems every generation tiles; the rows written
   are well formed.  The final theorem is [accepted_completes_l]. *)
From HV Require Import Prelude Tracts Tiling C01_Model C02_Model C02_Check C02_Tiling C02_Generations C02_Coords C02_Proofs.
From HV Require Import C20_Model C20_Check C20_Proofs C20_Proofs2 C20_Proofs3 C20_Proofs4 C20_Sim C20_ProofsSim C20_ProofsSim2.
From Coq Require Import QArith Qabs.
Open Scope Z_scope.

(* ------------------------------------------------------------ numpy's contracts on the draws *)
(* one child of a generation simulated with fractions fr in a population of ps:
   - np.random.choice(np.arange(K), p = fr) returns an index whose probability is positive;
   - np.random.randint(ps) returns a value in [0, ps);
   - np.random.randint(2) is available once per chromosome (the model consumes a list);
   - np.random.rand(...) < recomb_probs: any mask (what it can select is part of the model). *)
Definition child_ok (ps : Z) (nch : nat) (fr : list Q) (c : child_stream) : Prop :=
  (exists f, nthZ fr (s_pop c) = Some f /\ (0 < f)%Q) /\
  0 <= s_ha c < ps /\ 0 <= s_hb c < ps /\ (nch <= length (s_hd c))%nat.

(* one list of ps children per simulated generation *)
Fixpoint stream_ok (ps : Z) (nch : nat) (sched : list (list Q)) (stream : list (list child_stream)) : Prop :=
  match sched with
  | [] => True
  | fr :: r =>
      match stream with
      | [] => False
      | ds :: sr => length ds = Z.to_nat ps /\ Forall (child_ok ps nch fr) ds /\ stream_ok ps nch r sr
      end
  end.

(* np.random.choice(range(ps), size = 2n, replace = False): 2n indices below ps *)
Definition idx_ok (n ps : Z) (idx : list Z) : Prop := lenZ idx = 2 * n /\ Forall (fun j => 0 <= j < ps) idx.

(* ------------------------------------------------------------ the generations *)
Section Sched.
Variables (chroms : list Z) (ends : list (Z * Z)) (cs : list (list mk)) (K ps : Z) (allowed : Z -> Prop).
Hypothesis ends_len : length ends = length chroms.
Hypothesis ends_max : forall i e, nth_error ends i = Some e -> fst e = MAXC.
Hypothesis chroms_incr : incr chroms.
Hypothesis chroms_pos : forall c, In c chroms -> 0 <= c.
Hypothesis chroms_ne : chroms <> [].
Hypothesis EV : forall masks, evs_ok chroms 0 (-1) (events_of cs masks).
Hypothesis ps_pos : 0 <= ps.

Definition sched_ok (fr : list Q) : Prop :=
  choice_pre K fr = true /\ forall v f, nthZ fr v = Some f -> (0 < f)%Q -> v <> 0 -> allowed v.

Lemma gen_step prev fr ds :
  gen_tiles chroms prev -> labels_in allowed prev -> sched_ok fr ->
  Forall (child_ok ps (length chroms) fr) ds ->
  (lenZ prev = ps \/ exists a rest, fr = a :: rest /\ (a == 0)%Q) ->
  exists g, sim_generation chroms ends prev (map (to_draws cs) ds) = Ok g /\
            gen_tiles chroms g /\ labels_in allowed g /\ length g = length ds.
Proof.
  intros Ht Hl [_ Hlab] Hds Hinv.
  assert (Hdraws : Forall (draws_ok chroms prev) (map (to_draws cs) ds)).
  { apply Forall_forall. intros d Hd. apply in_map_iff in Hd. destruct Hd as [c [<- Hc]].
    rewrite Forall_forall in Hds. destruct (Hds c Hc) as ((f & Hf & Hf0) & Ha & Hb & Hhd).
    unfold draws_ok, to_draws. cbn [d_hd d_evs d_pop d_ha d_hb].
    split; [exact Hhd|]. split; [apply EV|]. intros Hp.
    destruct Hinv as [Hinv|(a & rest & -> & Ha0)]; [rewrite Hinv; split; assumption|].
    exfalso. rewrite Hp in Hf. cbn in Hf. inversion Hf; subst f. rewrite Ha0 in Hf0. discriminate. }
  destruct (generation_tiles chroms ends ends_len ends_max chroms_incr chroms_pos chroms_ne prev _ Ht Hdraws)
    as (g & Eg & Hg & Hlen).
  exists g. split; [exact Eg|]. split; [exact Hg|]. split; [|rewrite Hlen; apply map_length].
  apply (generations_labels allowed chroms ends [map (to_draws cs) ds] prev g Hl).
  - constructor; [|constructor]. apply Forall_forall. intros d Hd. apply in_map_iff in Hd.
    destruct Hd as [c [<- Hc]]. cbn [to_draws d_pop]. intros Hp.
    rewrite Forall_forall in Hds. destruct (Hds c Hc) as ((f & Hf & Hf0) & _). exact (Hlab _ _ Hf Hf0 Hp).
  - cbn [sim_generations]. rewrite Eg. reflexivity.
Qed.

Theorem sim_sched_ok : forall sched stream prev,
  Forall sched_ok sched -> stream_ok ps (length chroms) sched stream ->
  gen_tiles chroms prev -> labels_in allowed prev ->
  (sched <> [] -> lenZ prev = ps \/ exists a rest r, sched = (a :: rest) :: r /\ (a == 0)%Q) ->
  exists g, sim_sched chroms ends cs K prev sched stream = Ok g /\ gen_tiles chroms g /\ labels_in allowed g /\
            (sched <> [] -> lenZ g = ps).
Proof.
  induction sched as [|fr r IH]; intros stream prev Hs Hst Ht Hl Hinv.
  - exists prev. cbn [sim_sched]. split; [reflexivity|]. split; [exact Ht|]. split; [exact Hl|congruence].
  - inversion Hs as [|? ? Hfr Hr]; subst. cbn [sim_sched]. rewrite (proj1 Hfr). cbn [negb].
    destruct stream as [|ds sr]; [destruct Hst|]. destruct Hst as (Hlen & Hds & Hsr).
    assert (Hinv' : lenZ prev = ps \/ exists a rest, fr = a :: rest /\ (a == 0)%Q).
    { destruct (Hinv ltac:(discriminate)) as [H|(a & rest & r' & E & H)]; [left; exact H|].
      inversion E; subst. right. exists a, rest. split; [reflexivity|exact H]. }
    destruct (gen_step prev fr ds Ht Hl Hfr Hds Hinv') as (g & Eg & Hg & Hlg & Hleng).
    rewrite Eg. cbn [bind].
    assert (Hg_ps : lenZ g = ps) by (unfold lenZ; rewrite Hleng, Hlen; apply Z2Nat.id; exact ps_pos).
    destruct (IH sr g Hr Hsr Hg Hlg (fun _ => or_introl Hg_ps)) as (g' & Eg' & Hg' & Hlg' & Hlen').
    exists g'. split; [exact Eg'|]. split; [exact Hg'|]. split; [exact Hlg'|]. intros _.
    destruct r as [|fr' r']; [|apply Hlen'; discriminate].
    cbn [sim_sched] in Eg'. inversion Eg' as [E']. rewrite <- E'. exact Hg_ps.
Qed.
End Sched.

(* ------------------------------------------------------------ the schedule of a Valid model file *)
Definition label_allowed (i : vin) (v : Z) : Prop :=
  0 < v /\ exists line f, In line (model_fracs i) /\ nthZ line v = Some f /\ (0 < f)%Q.

Lemma Forall_repeat {A} (P : A -> Prop) x n : P x -> Forall P (repeat x n).
Proof. intros H. induction n; cbn [repeat]; constructor; auto. Qed.

Lemma schedule_forall (P : list Q -> Prop) k : P (admixed_only k) ->
  forall lines prev, Forall (fun l : Z * list Q => P (snd l)) lines -> Forall P (schedule k prev lines).
Proof.
  intros Ha. induction lines as [|[g fr] r IH]; intros prev H; cbn [schedule]; [constructor|].
  inversion H as [|? ? H1 H2]; subst. constructor; [exact H1|]. apply Forall_app. split.
  - apply Forall_repeat. exact Ha.
  - apply IH. exact H2.
Qed.

Lemma qsum_repeat0 n : (qsum (repeat 0%Q n) == 0)%Q.
Proof. induction n; cbn [repeat qsum fold_right]; [reflexivity|]. unfold qsum in IHn. rewrite IHn. reflexivity. Qed.

Lemma nth_error_repeat {A} (x y : A) n k : nth_error (repeat x n) k = Some y -> y = x.
Proof. intros H. apply nth_error_In in H. apply repeat_spec in H. exact H. Qed.

Lemma admixed_only_ok i k : (1 <= k)%nat -> sched_ok (Z.of_nat k) (label_allowed i) (admixed_only k).
Proof.
  intros Hk. destruct k as [|k']; [lia|]. unfold admixed_only. split.
  - unfold choice_pre. apply andb_true_iff. split; [apply andb_true_iff; split|].
    + apply Z.eqb_eq. unfold lenZ. cbn [length]. rewrite repeat_length. reflexivity.
    + cbn [forallb]. apply andb_true_iff. split; [reflexivity|].
      apply forallb_forall. intros x Hx. apply repeat_spec in Hx. subst. reflexivity.
    + apply Qle_bool_iff. unfold qsum. cbn [fold_right]. fold (qsum (repeat 0%Q k')).
      rewrite qsum_repeat0. assert (E : (1 + 0 - 1 == 0)%Q) by reflexivity. rewrite E. cbn. unfold choice_tol. discriminate.
  - intros v f Hf Hf0 Hv. exfalso. unfold nthZ in Hf. destruct (v <? 0) eqn:E; [discriminate|].
    apply Z.ltb_ge in E. destruct (Z.to_nat v) as [|m] eqn:Em; [lia|]. cbn [nth_error] in Hf.
    apply nth_error_repeat in Hf. subst f. discriminate.
Qed.

Lemma tenm6_le_tol : (tenm6 <= choice_tol)%Q.
Proof. unfold tenm6, choice_tol, Qle. cbn. lia. Qed.

Lemma valid_line_ok i toks : Valid i -> In toks (gen_toks i) ->
  sched_ok (lenZ (pops i)) (label_allowed i) (line_fracs toks).
Proof.
  intros HV Hin. pose proof (valid_strict i HV) as (HQ & _).
  destruct HV as (HW & _ & _). destruct HW as (_ & _ & _ & HC & HS & _).
  unfold R_fcount in HC. unfold R_fsum in HS. rewrite Forall_forall in HC, HS.
  specialize (HC toks Hin). destruct (HS toks Hin) as (fr & Hfr & Hsum).
  rewrite forallb_forall in HQ. specialize (HQ toks Hin).
  assert (E : line_fracs toks = fr) by (unfold line_fracs; rewrite Hfr; reflexivity).
  rewrite E in *. split.
  - unfold choice_pre. apply andb_true_iff. split; [apply andb_true_iff; split|].
    + apply Z.eqb_eq. rewrite <- HC. unfold lenZ. f_equal. exact (parse_all_length _ _ _ Hfr).
    + apply forallb_forall. intros x Hx. rewrite forallb_forall in HQ. specialize (HQ x Hx).
      unfold q01 in HQ. apply andb_true_iff in HQ. tauto.
    + apply Qle_bool_iff. eapply Qle_trans; [exact Hsum|exact tenm6_le_tol].
  - intros v f Hf Hf0 Hv. split.
    + unfold nthZ in Hf. destruct (v <? 0) eqn:Ev; [discriminate|]. apply Z.ltb_ge in Ev. lia.
    + exists fr, f. split; [|split; assumption]. unfold model_fracs. rewrite <- E. apply in_map. exact Hin.
Qed.

Lemma valid_schedule i : Valid i ->
  Forall (sched_ok (lenZ (pops i)) (label_allowed i)) (sim_schedule i) /\
  exists a rest r, sim_schedule i = (a :: rest) :: r /\ (a == 0)%Q.
Proof.
  intros HV. split.
  - unfold sim_schedule. apply schedule_forall.
    + unfold lenZ. apply admixed_only_ok. destruct HV as (HW & _ & _). destruct HW as (_ & (_ & HP) & _).
      unfold lenZ in HP. lia.
    + unfold sim_lines. apply Forall_forall. intros l Hl. apply in_map_iff in Hl. destruct Hl as [toks [<- Ht]].
      cbn [snd]. apply valid_line_ok; assumption.
  - pose proof (valid_strict i HV) as (_ & (l & r & a & fr & E1 & E2 & E3) & _).
    unfold sim_schedule, sim_lines. rewrite E1. cbn [map schedule]. rewrite E2.
    eexists a, fr, _. split; [reflexivity|exact E3].
Qed.

(* ------------------------------------------------------------ write_breakpoints *)
Lemma nthZ_some {A} (l : list A) j : 0 <= j < lenZ l -> exists x, nthZ l j = Some x.
Proof.
  intros [H1 H2]. unfold nthZ. destruct (j <? 0) eqn:E; [apply Z.ltb_lt in E; lia|].
  destruct (nth_error l (Z.to_nat j)) as [x|] eqn:En; [exists x; reflexivity|].
  apply nth_error_None in En. unfold lenZ in H2. lia.
Qed.

Lemma write_rows_ok g : forall idx ind, Forall (fun j => 0 <= j < lenZ g) idx ->
  exists rows, write_rows g idx ind = Ok rows.
Proof.
  induction idx as [|j r IH]; intros ind H; [exists []; reflexivity|].
  inversion H as [|? ? Hj Hr]; subst. cbn [write_rows].
  destruct (nthZ_some g j Hj) as [h Eh]. rewrite Eh.
  destruct (IH (ind + 1) Hr) as [rows Er]. rewrite Er. cbn [bind]. eexists; reflexivity.
Qed.

Lemma nthZ_In {A} (l : list A) j x : nthZ l j = Some x -> In x l.
Proof. unfold nthZ. destruct (j <? 0); [discriminate|]. apply nth_error_In. Qed.

Lemma chr_key_nonneg g : 0 <= chr_key g.
Proof.
  unfold chr_key. destruct (str_eqb g [88]); [lia|].
  assert (H : forall l acc n b v m, 0 <= acc -> digits_from l acc n b = Some (v, m) -> 0 <= v).
  { induction l as [|c r IH]; intros acc n b v m Ha H; cbn [digits_from] in H.
    - destruct b; [discriminate|]. inversion H; subst. exact Ha.
    - destruct (is_digit c) eqn:Ed.
      + unfold is_digit in Ed. apply andb_true_iff in Ed. destruct Ed as [Ed _]. apply Z.leb_le in Ed.
        eapply IH; [|exact H]. lia.
      + destruct ((c =? 95) && negb b && (0 <? n)); [|discriminate]. eapply IH; [exact Ha|exact H]. }
  unfold digit_run. destruct g as [|c r]; [lia|].
  destruct (digits_from (c :: r) 0 0 false) as [[v m]|] eqn:E; [|lia]. eapply H; [|exact E]. lia.
Qed.

(* ------------------------------------------------------------ accepted => simulated to completion *)
Theorem accepted_completes_l i : Valid i ->
  exists ps n, front false false i = Accept ps /\ nsamples i = Some n /\ 1 <= n /\ 10 * n <= ps /\
  forall stream idx,
    stream_ok ps (length (v_chroms i)) (sim_schedule i) stream -> idx_ok n ps idx ->
    exists rows, simgenotype i stream idx = Ran ps (Ok rows) /\ BpWellFormed i n rows.
Proof.
  intros HV. pose proof HV as (HW & _ & _).
  pose proof (proj2 (validate_iff_wellformed_l i) HW) as [ps HA].
  destruct (accepted_popsize_l i ps HA) as (n & Hn & _ & Hps & _).
  assert (Hn1 : 1 <= n).
  { destruct HW as ((n' & Hn' & H1) & _). rewrite Hn in Hn'. inversion Hn'; subst. exact H1. }
  exists ps, n. split; [exact HA|]. split; [exact Hn|]. split; [exact Hn1|]. split; [exact Hps|].
  intros stream idx Hst (Hil & Hir).
  destruct (prepare_coords_agree i HV) as (coords & _ & _ & _ & _ & HLen & HC02).
  set (cs := map (fun c : list mk => seal (map c02_marker c)) (sim_markers i)) in *.
  assert (Hends_len : length (ends_of cs) = length (req_chroms i)).
  { unfold ends_of, cs. rewrite !map_length. exact HLen. }
  assert (Hends_max : forall k e, nth_error (ends_of cs) k = Some e -> fst e = MAXC).
  { exact (prepare_coords_ends _ _ _ _ HC02). }
  assert (Hpos : forall c, In c (req_chroms i) -> 0 <= c).
  { intros c Hc. unfold req_chroms in Hc. apply in_map_iff in Hc. destruct Hc as [g [<- _]]. apply chr_key_nonneg. }
  assert (Hne : req_chroms i <> []).
  { destruct HW as (_ & _ & _ & _ & _ & _ & (_ & Hc & _) & _). unfold req_chroms.
    destruct (v_chroms i); [congruence|discriminate]. }
  destruct (valid_schedule i HV) as (Hsched & a & rest & r & Es & Ha0).
  assert (Hnch : length (req_chroms i) = length (v_chroms i)) by (unfold req_chroms; apply map_length).
  rewrite <- Hnch in Hst.
  destruct (sim_sched_ok (req_chroms i) (ends_of cs) (sim_markers i) (lenZ (pops i)) ps (label_allowed i)
              Hends_len Hends_max (valid_chroms_incr i HV) Hpos Hne (valid_events_ok i HV) ltac:(lia)
              (sim_schedule i) stream [] Hsched Hst)
    as (g & Eg & Hg & Hlg & Hlen).
  { intros h []. }
  { intros h s []. }
  { intros _. right. exists a, rest, r. split; [exact Es|exact Ha0]. }
  assert (Hgl : lenZ g = ps) by (apply Hlen; rewrite Es; discriminate).
  assert (Hidx : Forall (fun j => 0 <= j < lenZ g) idx) by (rewrite Hgl; exact Hir).
  destruct (write_rows_ok g idx 0 Hidx) as [rows Erows].
  exists rows. split.
  - unfold simgenotype. rewrite HA, Hn, HC02. cbn [bind]. fold cs. rewrite Eg. cbn [bind].
    assert (X : lenZ g <? 2 * n = false) by (apply Z.ltb_ge; lia). rewrite X. unfold write_breakpoints. rewrite Erows. reflexivity.
  - destruct (write_breakpoints_spec g idx rows Erows) as (Hl & Hh & HF).
    split; [unfold lenZ in *; rewrite Hl; exact Hil|]. split.
    + intros k smp strand h Hk. destruct (headers_ok_nth rows 0 Hh k smp strand h Hk) as [A B].
      rewrite Z.add_0_l in A, B. auto.
    + clear - HF Hg Hlg. induction HF as [|row j rows' idx' Hrow _ IH]; constructor; [|exact IH].
      apply nthZ_In in Hrow. split; [exact (Hg _ Hrow)|].
      apply Forall_forall. intros s Hs. exact (Hlg _ s Hrow Hs).
Qed.
