(* C20 - "accepted => simulated to completion", part 4: the rows the composed model writes for a
   Valid input pass the very boolean that [holds] applies to the implementation's file
   ([bp_ok] = C02's [holds_bp]); satisfiability of the hypotheses (a complete run computed on a
   Valid witness); and what the model says about inputs that the code accepts although they miss a
   requirement of the property's last sentence (they fail AFTER acceptance). *)
From HV Require Import Prelude Tracts Tiling C01_Model C01_Check C02_Model C02_Check C02_Tiling C02_Generations C02_Coords C02_Proofs C02_Cm.
From HV Require Import C20_Model C20_Check C20_Proofs C20_Proofs2 C20_Proofs3 C20_Proofs4 C20_Sim C20_ProofsSim C20_ProofsSim2 C20_ProofsSim3.
From Coq Require Import QArith Qabs.
Open Scope Z_scope.

(* ------------------------------------------------------------ tilesb is complete *)
Lemma take_run_complete c rest : forall t lo, run_ok c lo t MAXC -> take_run c lo (t ++ rest) = Some rest.
Proof.
  induction t as [|s r IH]; intros lo H; [destruct H|]. destruct H as (Hc & Hlo & Hr).
  cbn [app take_run]. rewrite (proj2 (Z.eqb_eq _ _) Hc), (proj2 (Z.ltb_lt _ _) Hlo). cbn [andb].
  destruct r as [|s' r'].
  - rewrite (proj2 (Z.eqb_eq _ _) Hr). reflexivity.
  - pose proof (run_ok_lt _ _ _ _ Hr) as Hlt. rewrite (proj2 (Z.eqb_neq _ _)) by lia. exact (IH _ Hr).
Qed.

Lemma tilesb_complete chs : forall l, tiles chs l -> tilesb chs l = true.
Proof.
  induction chs as [|c r IH]; intros l H; cbn [tiles tilesb] in *.
  - subst. reflexivity.
  - destruct H as (t & rest & -> & Ht & Hr). rewrite (take_run_complete c rest t (-1) Ht). exact (IH rest Hr).
Qed.

(* ------------------------------------------------------------ the cM tokens of the model are 0 *)
Definition zero_mk (c b m : Z) : Prop := m = 0.

Lemma In_insert_le {A} (le : A -> A -> bool) x y l : In y (insert_le le x l) -> y = x \/ In y l.
Proof.
  induction l as [|z r IH]; cbn [insert_le]; [intros [<-|[]]; auto|].
  destruct (le x z); [intros [<-|H]; auto|]. intros [<-|H]; [right; left; reflexivity|].
  destruct (IH H); [auto|right; right; assumption].
Qed.
Lemma In_sort_le {A} (le : A -> A -> bool) y l : In y (sort_le le l) -> In y l.
Proof.
  unfold sort_le. induction l as [|x r IH]; cbn [fold_right]; [auto|]. intros H.
  apply In_insert_le in H. destruct H as [->|H]; [left; reflexivity|right; exact (IH H)].
Qed.

Lemma pair_events_cm0 : forall ms p mask t, In t (pair_events p ms mask) -> ev_cm (snd t) = 0.
Proof.
  induction ms as [|m r IH]; intros p mask t H; [destruct H|]. destruct mask as [|b mr]; [destruct H|].
  cbn [pair_events] in H. apply in_app_or in H. destruct H as [H|H]; [|exact (IH _ _ _ H)].
  destruct (b && negb (Qle_bool (k_cm m) (k_cm p))); [|destruct H]. destruct H as [<-|[]]. reflexivity.
Qed.
Lemma all_events_cm0 : forall cs masks t, In t (all_events cs masks) -> ev_cm (snd t) = 0.
Proof.
  induction cs as [|c cr IH]; intros masks t H; [destruct H|]. destruct masks as [|m mr]; [destruct H|].
  cbn [all_events] in H. apply in_app_or in H. destruct H as [H|H]; [|exact (IH _ _ H)].
  unfold chrom_events in H. destruct c as [|m0 r]; [destruct H|]. destruct m as [|b0 mr0]; [destruct H|].
  exact (pair_events_cm0 _ _ _ _ H).
Qed.
Lemma events_of_cm0 cs masks : evs_on_map zero_mk (events_of cs masks).
Proof.
  unfold evs_on_map, events_of. apply Forall_forall. intros e He. apply in_map_iff in He.
  destruct He as [t [<- Ht]]. apply In_sort_le in Ht. exact (all_events_cm0 _ _ _ Ht).
Qed.

Lemma seal_snd0 (l : list marker) : Forall (fun m => snd m = 0) l -> Forall (fun m => snd m = 0) (seal l).
Proof.
  induction l as [|m r IH]; intros H; [constructor|]. inversion H as [|? ? Hm Hr]; subst. cbn [seal].
  destruct r as [|m' r']; [constructor; [exact Hm|constructor]|]. constructor; [exact Hm|exact (IH Hr)].
Qed.
Lemma last_snd0 (l : list marker) d : snd d = 0 -> Forall (fun m => snd m = 0) l -> snd (last l d) = 0.
Proof.
  intros Hd. induction l as [|m r IH]; intros H; [exact Hd|]. inversion H as [|? ? Hm Hr]; subst.
  cbn [last]. destruct r; [exact Hm|exact (IH Hr)].
Qed.
Lemma sim_sched_zero chroms ends cs K :
  (forall k c ebp ecm, nth_error chroms k = Some c -> nth_error ends k = Some (ebp, ecm) -> zero_mk c ebp ecm) ->
  forall sched stream prev g,
  gen_on_map zero_mk prev -> sim_sched chroms ends cs K prev sched stream = Ok g -> gen_on_map zero_mk g.
Proof.
  intros Hends. induction sched as [|fr r IH]; intros stream prev g Hp H; cbn [sim_sched] in H.
  - inversion H; subst. exact Hp.
  - destruct (negb (choice_pre K fr)); [discriminate|]. destruct stream as [|ds sr]; [discriminate|].
    match type of H with bind ?X _ = _ => destruct X as [g1|] eqn:E1; [|discriminate] end. cbn [bind] in H.
    apply (IH sr g1 g); [|exact H].
    apply (generations_on_map zero_mk chroms ends Hends [map (to_draws cs) ds] prev g1 Hp).
    + constructor; [|constructor]. apply Forall_forall. intros d Hd. apply in_map_iff in Hd.
      destruct Hd as [c [<- _]]. cbn [to_draws d_evs]. apply events_of_cm0.
    + cbn [sim_generations]. rewrite E1. reflexivity.
Qed.

(* every tract of every row the model writes has cM token 0 *)
Lemma model_rows_cm0 i stream idx ps rows : simgenotype i stream idx = Ran ps (Ok rows) ->
  Forall (fun r : bprow => Forall (fun s => cm s = 0) (snd r)) rows.
Proof.
  intros H. unfold simgenotype in H. destruct (front false false i) as [ps'| |]; try discriminate H.
  destruct (nsamples i) as [n|]; [|discriminate H]. injection H as _ H1.
  destruct (C02_Coords.prepare_coords (c02_maps i) (req_chroms i) (v_region i)) as [cs|] eqn:EC; [|discriminate].
  cbn [bind] in H1.
  match type of H1 with bind ?X _ = _ => destruct X as [g|] eqn:Eg; [|discriminate] end. cbn [bind] in H1.
  match type of H1 with (if ?c then _ else _) = _ => destruct c; [discriminate|] end.
  assert (Hends : forall k c ebp ecm, nth_error (req_chroms i) k = Some c ->
                    nth_error (ends_of cs) k = Some (ebp, ecm) -> zero_mk c ebp ecm).
  { intros k c ebp ecm _ Hk. destruct (prepare_coords_spec _ _ _ _ EC) as (_ & HF & _).
    apply nth_error_In in Hk. unfold ends_of in Hk. apply in_map_iff in Hk. destruct Hk as [x [E Hx]].
    rewrite Forall_forall in HF. destruct (HF x Hx) as (f & pre & y & post & Hf & _ & Hsnd & Hy & ->).
    unfold zero_mk. change ecm with (snd (ebp, ecm)). rewrite <- E.
    apply last_snd0; [reflexivity|]. apply seal_snd0.
    unfold c02_maps in Hf. apply in_map_iff in Hf. destruct Hf as [f0 [<- _]]. cbn [c02_file snd] in Hsnd.
    assert (Hall : Forall (fun m : marker => snd m = 0) (map c02_marker (file_mks f0))).
    { apply Forall_forall. intros m Hm. apply in_map_iff in Hm. destruct Hm as [z [<- _]]. reflexivity. }
    rewrite Hsnd in Hall. apply Forall_app in Hall. destruct Hall as [_ Hall].
    apply Forall_app in Hall. tauto. }
  assert (Hz : gen_on_map zero_mk g).
  { eapply (sim_sched_zero _ _ _ _ Hends); [|exact Eg]. intros h s []. }
  destruct (write_breakpoints_spec g idx rows H1) as (_ & _ & HF).
  clear - HF Hz. induction HF as [|row j rows' idx' Hrow _ IH]; constructor; [|exact IH].
  apply nthZ_In in Hrow. apply Forall_forall. intros s Hs. exact (Hz _ s Hrow Hs).
Qed.

Lemma zero_cm_monotone l : sorted l -> Forall (fun s => cm s = 0) l -> cm_monotone l = true.
Proof.
  intros Hs H. apply (on_map_cm_monotone zero_mk); [|exact Hs|exact H].
  intros c b1 m1 b2 m2 H1 H2 _. unfold zero_mk in *. lia.
Qed.

Lemma label_allowed_b i v : label_allowed i v -> allowed_label (model_fracs i) v = true.
Proof.
  intros (Hv & line & f & Hin & Hf & Hf0). unfold allowed_label, positive_in.
  apply andb_true_iff. split; [apply Z.ltb_lt; exact Hv|]. apply existsb_exists. exists line.
  split; [exact Hin|]. rewrite Hf. apply Z.ltb_lt. unfold Qlt in Hf0. cbn in Hf0. lia.
Qed.

(* the rows the model writes for a Valid input pass C02's file checker - the boolean that [holds]
   evaluates on the implementation's file *)
Theorem model_rows_bp_ok i stream idx ps n rows : Valid i ->
  simgenotype i stream idx = Ran ps (Ok rows) -> BpWellFormed i n rows -> bp_ok i n rows = true.
Proof.
  intros HV Hrun (HL & HH & HF). pose proof (model_rows_cm0 _ _ _ _ _ Hrun) as Hz.
  unfold bp_ok, holds_bp, bp_case. cbn [b_obs b_n b_chroms b_fracs b_reader_ok]. rewrite andb_true_r.
  apply andb_true_iff. split; [apply andb_true_iff; split|].
  - apply Z.eqb_eq. exact HL.
  - clear - HH. assert (G : forall rows ind, (forall k smp strand h, nth_error rows k = Some (smp, strand, h) ->
        smp = (ind + Z.of_nat k) / 2 + 1 /\ strand = (ind + Z.of_nat k) mod 2 + 1) -> headers_ok rows ind = true).
    { induction rows0 as [|[[s0 t0] h0] r IH]; intros ind H; [reflexivity|]. cbn [headers_ok].
      destruct (H 0%nat s0 t0 h0 eq_refl) as [A B]. rewrite Z.add_0_r in A, B. subst.
      rewrite !Z.eqb_refl. cbn [andb]. apply IH. intros k smp strand h Hk.
      destruct (H (S k) smp strand h Hk) as [A B]. replace (ind + 1 + Z.of_nat k) with (ind + Z.of_nat (S k)) by lia. auto. }
    apply G. intros k smp strand h Hk. rewrite Z.add_0_l. exact (HH k smp strand h Hk).
  - apply forallb_forall. intros [[smp strand] h] Hin. rewrite Forall_forall in HF, Hz.
    destruct (HF _ Hin) as [Ht Hlab]. specialize (Hz _ Hin). cbn [snd] in *.
    apply andb_true_iff. split; [apply andb_true_iff; split|].
    + apply tilesb_complete. exact Ht.
    + apply zero_cm_monotone; [|exact Hz]. exact (tiles_sorted _ (valid_chroms_incr i HV) _ Ht).
    + apply forallb_forall. intros s Hs. rewrite Forall_forall in Hlab. apply label_allowed_b. exact (Hlab s Hs).
Qed.

(* ------------------------------------------------------------ a decidable form of numpy's contracts *)
Definition child_okb (ps : Z) (nch : nat) (fr : list Q) (c : child_stream) : bool :=
  match nthZ fr (s_pop c) with Some f => negb (Qle_bool f 0) | None => false end
  && (0 <=? s_ha c) && (s_ha c <? ps) && (0 <=? s_hb c) && (s_hb c <? ps) && (nch <=? length (s_hd c))%nat.
Fixpoint stream_okb (ps : Z) (nch : nat) (sched : list (list Q)) (stream : list (list child_stream)) : bool :=
  match sched with
  | [] => true
  | fr :: r =>
      match stream with
      | [] => false
      | ds :: sr => (Z.of_nat (length ds) =? ps) && forallb (child_okb ps nch fr) ds && stream_okb ps nch r sr
      end
  end.

Lemma child_okb_spec ps nch fr c : child_okb ps nch fr c = true -> child_ok ps nch fr c.
Proof.
  unfold child_okb, child_ok. intros H.
  apply andb_true_iff in H. destruct H as [H H6]. apply andb_true_iff in H. destruct H as [H H5].
  apply andb_true_iff in H. destruct H as [H H4]. apply andb_true_iff in H. destruct H as [H H3].
  apply andb_true_iff in H. destruct H as [H1 H2].
  apply Z.leb_le in H2, H4. apply Z.ltb_lt in H3, H5. apply Nat.leb_le in H6.
  split; [|lia]. destruct (nthZ fr (s_pop c)) as [f|]; [|discriminate]. exists f. split; [reflexivity|].
  apply negb_true_iff in H1. apply Qnot_le_lt. intros Hle. apply Qle_bool_iff in Hle. congruence.
Qed.

Lemma stream_okb_spec ps nch : forall sched stream, stream_okb ps nch sched stream = true -> stream_ok ps nch sched stream.
Proof.
  induction sched as [|fr r IH]; intros stream H; [exact I|]. destruct stream as [|ds sr]; [discriminate|].
  cbn [stream_okb] in H. apply andb_true_iff in H. destruct H as [H H3]. apply andb_true_iff in H. destruct H as [H1 H2].
  cbn [stream_ok]. apply Z.eqb_eq in H1. split; [lia|]. split; [|exact (IH _ H3)].
  apply Forall_forall. intros c Hc. rewrite forallb_forall in H2. apply child_okb_spec. exact (H2 c Hc).
Qed.

(* ------------------------------------------------------------ the hypotheses are satisfiable: a complete run *)
(* "2 Admixed A B" / "1 0 0.5 0.5" / "3 1 0 0", chromosome 1 with markers 100, 200, 300 at 0, 50, 120 cM,
   --popsize 10 (effective 20): three generations of 20 children each *)
Definition w_valid : vin := witness_base [[49]] [file_chr1_name_only] None.
Definition w_kid1 (k : nat) : child_stream :=
  mkcs (Z.of_nat (k mod 2) + 1) 0 0 false [true] [[false; true; (k mod 3 =? 0)%nat]].
Definition w_kid2 (k : nat) : child_stream :=
  mkcs 0 (Z.of_nat k) (Z.of_nat ((k + 7) mod 20)) (k mod 2 =? 0)%nat [false] [[true; (k mod 4 =? 1)%nat; true]].
Definition w_stream : list (list child_stream) :=
  [map w_kid1 (seq 0 20); map w_kid2 (seq 0 20); map w_kid2 (seq 0 20)].
Definition w_idx : list Z := [3; 17; 0; 9].

Lemma accepted_completes_example_l :
  Valid w_valid /\ stream_ok 20 1 (sim_schedule w_valid) w_stream /\ idx_ok 2 20 w_idx /\
  exists rows, simgenotype w_valid w_stream w_idx = Ran 20 (Ok rows) /\ bp_ok w_valid 2 rows = true /\
               lenZ rows = 4.
Proof.
  split; [apply valid_b_spec; vm_compute; reflexivity|].
  split; [apply stream_okb_spec; vm_compute; reflexivity|].
  split; [split; [reflexivity|repeat constructor; lia]|].
  eexists. split; [vm_compute; reflexivity|]. split; vm_compute; reflexivity.
Qed.

(* ------------------------------------------------------------ accepted, then failing: the two requirements of
   the property's last sentence (and the documented input shape) are what completion needs *)
Definition w_with (gens : list str) (chroms : list str) (files : list (str * list str)) (region : option (Z * Z)) : vin :=
  mkvin [50;9;65;100;109;105;120;101;100;9;65;9;66] gens true chroms files 10 true None [] false region.
Definition line_g3 : str := [51;9;49;9;48;9;48].                                  (* "3 1 0 0" *)
(* first generation with an admixed share: "1 0.5 0.25 0.25" *)
Definition w_first_admixed := w_with [[49;9;48;46;53;9;48;46;50;53;9;48;46;50;53]; line_g3] [[49]] [file_chr1_name_only] None.
(* a fraction outside [0,1], the line still sums to 1: "1 0 1.5 -0.5" *)
Definition w_negative := w_with [[49;9;48;9;49;46;53;9;45;48;46;53]; line_g3] [[49]] [file_chr1_name_only] None.
(* a region together with two chromosomes *)
Definition file_chr2 : str * list str :=
  ([103;46;99;104;114;50;46;109;97;112], [[50;9;46;9;48;46;48;9;49;48]; [50;9;46;9;57;46;48;9;57;48]]).
Definition w_region_two := w_with [[49;9;48;9;48;46;53;9;48;46;53]; line_g3] [[49]; [50]] [file_chr1_name_only; file_chr2] (Some (150, 250)).
(* cM going down while bp goes up: markers 100, 200, 300, 400 at 0, 120, 50, 110 cM *)
Definition file_chr1_cm_down : str * list str :=
  ([103;46;99;104;114;49;46;109;97;112],
   [[49;9;46;9;48;46;48;9;49;48;48]; [49;9;46;9;49;50;48;46;48;9;50;48;48];
    [49;9;46;9;53;48;46;48;9;51;48;48]; [49;9;46;9;49;49;48;46;48;9;52;48;48]]).
Definition w_cm_down := w_with [[49;9;48;9;48;46;53;9;48;46;53]; line_g3] [[49]] [file_chr1_cm_down] None.
Definition w_kid0 (k : nat) : child_stream := mkcs 0 (Z.of_nat k) (Z.of_nat ((k + 7) mod 20)) false [false; true] [[true; true; true; true]].
Definition w_kid1b (k : nat) : child_stream := mkcs (Z.of_nat (k mod 2) + 1) 0 0 false [true; true] [[true; true; true; true]].
Definition w_stream0 := [map w_kid0 (seq 0 20); map w_kid2 (seq 0 20); map w_kid2 (seq 0 20)].
Definition w_stream1 := [map w_kid1b (seq 0 20); map w_kid0 (seq 0 20); map w_kid0 (seq 0 20)].

Lemma accepted_then_failing_l :
  (* all four are accepted (WellFormed), none is Valid *)
  map (fun i => (front false false i, valid_b i)) [w_first_admixed; w_negative; w_region_two; w_cm_down]
    = [(Accept 20, false); (Accept 20, false); (Accept 20, false); (Accept 20, false)] /\
  (* an admixed child of the first generation has no parents: IndexError *)
  stream_ok 20 1 (sim_schedule w_first_admixed) w_stream0 /\
  simgenotype w_first_admixed w_stream0 w_idx = Ran 20 (Err E_Index) /\
  (* np.random.choice refuses a negative probability: ValueError *)
  simgenotype w_negative w_stream w_idx = Ran 20 (Err C01_Model.E_Value) /\
  (* a region keeps one chromosome's end coordinate; the second chromosome has none: IndexError *)
  stream_ok 20 2 (sim_schedule w_region_two) w_stream1 /\
  simgenotype w_region_two w_stream1 w_idx = Ran 20 (Err E_Index) /\
  (* events sorted by cM are not sorted by bp: the run returns, the file does not tile *)
  stream_ok 20 1 (sim_schedule w_cm_down) w_stream1 /\
  exists rows, simgenotype w_cm_down w_stream1 w_idx = Ran 20 (Ok rows) /\ bp_ok w_cm_down 2 rows = false.
Proof.
  split; [vm_compute; reflexivity|].
  split; [apply stream_okb_spec; vm_compute; reflexivity|].
  split; [vm_compute; reflexivity|].
  split; [vm_compute; reflexivity|].
  split; [apply stream_okb_spec; vm_compute; reflexivity|].
  split; [vm_compute; reflexivity|].
  split; [apply stream_okb_spec; vm_compute; reflexivity|].
  eexists. split; vm_compute; reflexivity.
Qed.

(* ------------------------------------------------------------ the statement used in C20_Property *)
Theorem accepted_completes_full_l i : Valid i ->
  exists ps n, front false false i = Accept ps /\ nsamples i = Some n /\ 1 <= n /\ 10 * n <= ps /\
  forall stream idx,
    stream_ok ps (length (v_chroms i)) (sim_schedule i) stream -> idx_ok n ps idx ->
    exists rows, simgenotype i stream idx = Ran ps (Ok rows) /\ BpWellFormed i n rows /\ bp_ok i n rows = true.
Proof.
  intros HV. destruct (accepted_completes_l i HV) as (ps & n & HA & Hn & Hn1 & Hps & H).
  exists ps, n. repeat (split; [assumption|]). intros stream idx Hs Hi.
  destruct (H stream idx Hs Hi) as (rows & Hr & Hw). exists rows. split; [exact Hr|]. split; [exact Hw|].
  exact (model_rows_bp_ok i stream idx ps n rows HV Hr Hw).
Qed.

Lemma region_scan_is_slice_l ms s e : ms <> [] ->
  region_slice s e (map c02_marker ms) = Ok (map c02_marker (cut3 ms s e)) /\
  map mk_pair (cut3 ms s e) = region_cut (map mk_pair ms) s e.
Proof. intros H. split; [exact (region_agree ms s e H)|exact (cut3_pairs ms s e)]. Qed.

Lemma sorted_files_align_l i : Valid i ->
  map file_key (sort_by file_key (matching i)) = req_chroms i /\
  Forall2 mks_ok (req_chroms i) (sim_markers i).
Proof. intros H. split; [exact (sorted_keys i H)|exact (sim_markers_aligned i H)]. Qed.

(* ------------------------------------------------------------ the decision-only checker *)
Lemma holds_decision_sound_l i o : holds_decision i o = true -> o <> Crash 97 ->
  (Valid i -> exists ps n, o = Accept ps /\ nsamples i = Some n /\ 10 * n <= ps) /\
  (~ Valid i -> side_ok_b i = true -> violated i <> [] ->
   exists k, o = Reject k /\ (k = 0 \/ In (clause_of k) (violated i))).
Proof.
  intros H HU. unfold holds_decision in H.
  assert (HU' : unobserved o = false).
  { destruct o as [ps|k|k]; try reflexivity. cbn [unobserved]. apply Z.eqb_neq. intros ->. apply HU. reflexivity. }
  rewrite HU' in H. destruct (valid_b i) eqn:EV.
  - split.
    + intros _. destruct o as [ps|k|k]; try discriminate. destruct (nsamples i) as [n|]; [|discriminate].
      exists ps, n. split; [reflexivity|]. split; [reflexivity|]. apply Z.leb_le. exact H.
    + intros HN. exfalso. apply HN. apply valid_b_spec. exact EV.
  - split.
    + intros HV. apply valid_b_spec in HV. congruence.
    + exact (proj2 (holds_outcome_sound_l i o NotRun H HU)).
Qed.

(* ------------------------------------------------------------ the model passes the checker's Valid half *)
Theorem model_passes_valid_check_l i : Valid i ->
  exists ps n, front false false i = Accept ps /\ nsamples i = Some n /\
  forall stream idx,
    stream_ok ps (length (v_chroms i)) (sim_schedule i) stream -> idx_ok n ps idx ->
    exists rows, simgenotype i stream idx = Ran ps (Ok rows) /\
                 holds_outcome i (Accept ps) (Completed ps rows) = true.
Proof.
  intros HV. destruct (accepted_completes_full_l i HV) as (ps & n & HA & Hn & Hn1 & Hps & H).
  exists ps, n. split; [exact HA|]. split; [exact Hn|]. intros stream idx Hs Hi.
  destruct (H stream idx Hs Hi) as (rows & Hr & _ & Hb). exists rows. split; [exact Hr|].
  unfold holds_outcome. cbn [unobserved]. rewrite (proj2 (valid_b_spec i) HV), Hn, Hb.
  rewrite (proj2 (Z.leb_le _ _) Hps). reflexivity.
Qed.

(* ... and the decision-only checker *)
From HV Require Import C20_ProofsRefuse.
Theorem model_passes_decision_check_l i : holds_decision i (front false false i) = true.
Proof.
  unfold holds_decision. destruct (unobserved (front false false i)); [reflexivity|].
  destruct (valid_b i) eqn:EV.
  - apply valid_b_spec in EV. destruct (accepted_completes_l i EV) as (ps & n & HA & Hn & _ & Hps & _).
    rewrite HA, Hn. apply Z.leb_le. exact Hps.
  - apply model_passes_refusal_check_l. intros HV. apply valid_b_spec in HV. congruence.
Qed.
