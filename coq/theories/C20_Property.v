(* C20 - property theorems only. *)
From HV Require Import Prelude Tracts Tiling C01_Model C02_Model C02_Check C02_Tiling C02_Generations C02_Coords.
From HV Require Import C20_Model C20_Check C20_Proofs C20_Proofs2 C20_Proofs3 C20_Proofs4.
From HV Require Import C20_Sim C20_ProofsSim C20_ProofsSim2 C20_ProofsSim3 C20_ProofsSim4 C20_ProofsRefuse.
From Coq Require Import QArith.
Open Scope Z_scope.

(* The up-front decision (validate_params, then _prepare_coords) accepts exactly
   the inputs meeting every documented requirement. *)
Theorem C20_validate_iff_wellformed :
  forall i, (exists ps, front false false i = Accept ps) <-> WellFormed i.
Proof. exact validate_iff_wellformed_l. Qed.
Print Assumptions C20_validate_iff_wellformed.

(* The effective population size is max(requested, 10 * samples). *)
Theorem C20_accepted_popsize :
  forall i ps, front false false i = Accept ps ->
  exists n, nsamples i = Some n /\ ps = Z.max (v_popsize i) (10 * n) /\ 10 * n <= ps /\ v_popsize i <= ps.
Proof. exact accepted_popsize_l. Qed.
Print Assumptions C20_accepted_popsize.

(* A region whose start exceeds its end is never accepted, with or without
   --only_breakpoint ... *)
Theorem C20_region_checked_always :
  forall lm i s e, v_region i = Some (s, e) -> e < s -> forall ps, front false lm i <> Accept ps.
Proof. exact region_checked_always_l. Qed.
Print Assumptions C20_region_checked_always.

(* ... and validate_params' answer for such an input is the same for both flag values. *)
Theorem C20_region_refusal_flag_independent :
  forall i s e b b', v_region i = Some (s, e) -> e < s ->
  validate_params false (with_only_bp i b) = validate_params false (with_only_bp i b').
Proof. exact region_refusal_flag_independent_l. Qed.
Print Assumptions C20_region_refusal_flag_independent.

(* The pinned tree: with --only_breakpoint a region 250-150 died with IndexError,
   a region 250-220 was accepted; the repaired test refuses both. *)
Example C20_legacy_region_onlybp_refuted :
  front true false w_region_crash = Crash E_Index /\
  front true false w_region_runs = Accept 20 /\
  front false false w_region_crash = Reject K_region /\
  front false false w_region_runs = Reject K_region.
Proof. exact legacy_region_onlybp_refuted_l. Qed.
Print Assumptions C20_legacy_region_onlybp_refuted.

(* The pinned tree: two maps for chromosome 1 hid the missing map of chromosome 2. *)
Example C20_legacy_map_count_refuted :
  front false true w_maps = Accept 20 /\
  has_map (matching w_maps) [50] = false /\
  front false false w_maps = Reject K_maps_missing.
Proof. exact legacy_map_count_refuted_l. Qed.
Print Assumptions C20_legacy_map_count_refuted.

(* The pinned tree applied the chromosome pattern to the whole path (= this model fed
   with paths instead of file names): a complete map set in maps_chr22/ was refused. *)
Example C20_legacy_dirname_refuted :
  front false false (witness_base [[49]] [file_chr1_in_chr22_dir] None) = Reject K_no_maps /\
  front false false (witness_base [[49]] [file_chr1_name_only] None) = Accept 20.
Proof. exact legacy_dirname_refuted_l. Qed.
Print Assumptions C20_legacy_dirname_refuted.

(* WellFormed is satisfiable. *)
Example C20_wellformed_satisfiable : WellFormed (witness_base [[49]] [file_chr1] (Some (150, 250))).
Proof. exact wellformed_satisfiable_l. Qed.
Print Assumptions C20_wellformed_satisfiable.

(* Every deliberate refusal names (through its message class k) a requirement of
   the property's list that the input really violates. *)
Theorem C20_reject_names_violation :
  forall i k, front false false i = Reject k -> clause_of k <> 0 /\ ~ clause (clause_of k) i.
Proof. exact reject_names_violation_l. Qed.
Print Assumptions C20_reject_names_violation.

(* Whatever --only_breakpoint says, the value validate_params returns (= the population
   size handed to simulate_gt) is max(--popsize, 10 * samples): at least ten times the
   requested samples and at least the requested size, for every --popsize (1, 2n-1, 10n-1, ...). *)
Theorem C20_effective_popsize_every_flag :
  forall i b ps, validate_params false (with_only_bp i b) = inr ps ->
  exists n, nsamples i = Some n /\ ps = Z.max (v_popsize i) (10 * n) /\ 10 * n <= ps /\ v_popsize i <= ps.
Proof. exact effective_popsize_every_flag_l. Qed.
Print Assumptions C20_effective_popsize_every_flag.

Theorem C20_effective_popsize_flag_independent :
  forall i ps ps', validate_params false (with_only_bp i true) = inr ps ->
  validate_params false (with_only_bp i false) = inr ps' -> ps = ps'.
Proof. exact effective_popsize_flag_independent_l. Qed.
Print Assumptions C20_effective_popsize_flag_independent.

(* n = 2 samples, --only_breakpoint, --popsize 1, 2n-1, 2n, 10n-1, 10n, 10n+1, default *)
Example C20_small_popsize_only_bp :
  map (fun p => front false false (w_ps p true)) [1; 3; 4; 19; 20; 21; 10000]
  = [Accept 20; Accept 20; Accept 20; Accept 20; Accept 20; Accept 21; Accept 10000].
Proof. exact small_popsize_example_l. Qed.
Print Assumptions C20_small_popsize_only_bp.

(* Soundness of the boolean checker evaluated on the implementation's behaviour:
   holds = true means what the property says about this input.  For a Valid input:
   accepted; both the value validate_params returned and the smallest population size
   any call of _simulate received are >= 10 * samples; simulate_gt and write_breakpoints
   returned and the file they wrote is well formed in C02's sense. *)
Theorem C20_holds_outcome_sound :
  forall i o s, holds_outcome i o s = true -> o <> Crash 97 ->
  (Valid i -> exists ps n eff rows, o = Accept ps /\ nsamples i = Some n /\ 10 * n <= ps /\
                             s = Completed eff rows /\ 10 * n <= eff /\ bp_ok i n rows = true) /\
  (~ Valid i -> side_ok_b i = true -> violated i <> [] ->
   exists k, o = Reject k /\ (k = 0 \/ In (clause_of k) (violated i))).
Proof. exact holds_outcome_sound_l. Qed.
Print Assumptions C20_holds_outcome_sound.

(* What the demand on the written file means (bp_ok is C02's holds_bp): 2n rows framed
   Sample_{k/2+1}_{k mod 2+1} in order; every haplotype tiles the requested chromosomes,
   in the requested order, each up to the chromosome-end sentinel; every label is a
   source population (never column 0) with a positive fraction in some generation line. *)
Theorem C20_bp_ok_sound :
  forall i n rows, bp_ok i n rows = true ->
  lenZ rows = 2 * n /\
  (forall k smp strand h, nth_error rows k = Some (smp, strand, h) ->
     smp = Z.of_nat k / 2 + 1 /\ strand = Z.of_nat k mod 2 + 1) /\
  Forall (fun r : bprow => tiles (req_chroms i) (snd r) /\
     Forall (fun s => 0 < pop s /\ exists line f, In line (model_fracs i) /\
                        nthZ line (pop s) = Some f /\ (0 < f)%Q) (snd r)) rows.
Proof. exact bp_ok_sound_l. Qed.
Print Assumptions C20_bp_ok_sound.

(* ... so on a Valid input every position 0 .. 2^31-1 of every requested chromosome has a label
   in every written haplotype *)
Theorem C20_bp_ok_covers :
  forall i n rows, Valid i -> bp_ok i n rows = true ->
  forall smp strand h, In (smp, strand, h) rows ->
  forall c p, In c (req_chroms i) -> 0 <= p <= MAXC -> exists v, label_at h c p = Some v.
Proof. exact bp_ok_covers_l. Qed.
Print Assumptions C20_bp_ok_covers.

(* "simulated to completion": an accepted Valid input whose run failed, produced no result
   within the time limit (kind 12) or was not run never passes the checker *)
Theorem C20_valid_needs_completion :
  forall i ps k, Valid i ->
  holds_outcome i (Accept ps) (SimFailed k) = false /\ holds_outcome i (Accept ps) NotRun = false.
Proof. exact holds_valid_needs_completion_l. Qed.
Print Assumptions C20_valid_needs_completion.

Example C20_bp_ok_example :
  bp_ok (witness_base [[49]] [file_chr1_name_only] None) 1 w_rows = true /\
  bp_ok (witness_base [[49]] [file_chr1_name_only] None) 1
        [(1, 1, [mkseg 1 1 200 0]); (1, 2, [mkseg 2 1 MAXC 0])] = false /\
  bp_ok (witness_base [[49]] [file_chr1_name_only] None) 1
        [(1, 1, [mkseg 0 1 MAXC 0]); (1, 2, [mkseg 2 1 MAXC 0])] = false /\
  bp_ok (witness_base [[49]] [file_chr1_name_only] None) 1 [(1, 1, [mkseg 1 1 MAXC 0])] = false.
Proof. exact bp_ok_example_l. Qed.
Print Assumptions C20_bp_ok_example.

Theorem C20_valid_b_spec : forall i, valid_b i = true <-> Valid i.
Proof. exact valid_b_spec. Qed.
Print Assumptions C20_valid_b_spec.

(* The command line: a --region whose start exceeds its end is never accepted, with
   or without --only_breakpoint; a parsed --region restricts the run to its chromosome. *)
Theorem C20_cli_region_checked :
  forall base chroms r a c s e only_bp,
  cli_parse chroms (Some r) = inr a -> a_region a = Some (c, s, e) -> e < s ->
  forall ps, front false false (with_args base a only_bp) <> Accept ps.
Proof. exact cli_region_checked_l. Qed.
Print Assumptions C20_cli_region_checked.

Theorem C20_cli_region_sets_chroms :
  forall chroms r a, r <> [] -> cli_parse chroms (Some r) = inr a ->
  exists c s e, a_region a = Some (c, s, e) /\ a_chroms a = [c].
Proof. exact cli_region_sets_chroms_l. Qed.
Print Assumptions C20_cli_region_sets_chroms.

(* With start <= end the region loop keeps at least one marker of every non-empty map
   (sorted or not): on the repaired tree the IndexError of the pinned tree is unreachable. *)
Theorem C20_region_cut_nonempty :
  forall ms s e, ms <> [] -> s <= e -> region_cut ms s e <> [].
Proof. exact region_cut_nonempty_l. Qed.
Print Assumptions C20_region_cut_nonempty.

(* The checker's narrow "documented violation" classifiers really violate the
   corresponding conjunct of WellFormed ... *)
Theorem C20_violated_sound :
  forall i c, In c (violated i) -> 1 <= c <= 12 /\ ~ clause c i.
Proof. exact violated_sound_l. Qed.
Print Assumptions C20_violated_sound.

(* ... so a refusal the checker accepts names a requirement that the input violates. *)
Theorem C20_checked_refusal_names_violation :
  forall i o s k, holds_outcome i o s = true -> o = Reject k -> k <> 0 ->
  ~ Valid i -> side_ok_b i = true -> violated i <> [] -> ~ clause (clause_of k) i.
Proof. exact checked_refusal_names_violation_l. Qed.
Print Assumptions C20_checked_refusal_names_violation.

(* ---- "Every input meeting all requirements is accepted and then simulated to completion" -------------
   as a theorem about ONE function of the input, [C20_Sim.simgenotype] = front (validate_params,
   _prepare_coords) o simulate_gt's generation loop (C01/C02 models) o write_breakpoints, for EVERY
   stream of draws that numpy may return:
     [stream_ok]: per simulated generation exactly popsize children; for each child
        np.random.choice(arange(K), p = fractions) returned an index of positive probability,
        both np.random.randint(popsize) values lie in [0, popsize), one np.random.randint(2) per
        chromosome is available; the np.random.rand mask is arbitrary (that an event needs a cM
        increase and that events are sorted by (chromosome, cM) is part of the model);
     [idx_ok]: np.random.choice(range(popsize), 2n, replace = False) returned 2n indices below popsize.
   numpy's own argument checks are in the model (choice(p): length, no negative entry, sum 1 +- 3.45e-4,
   else ValueError; choice(replace=False): 2n <= population, else ValueError), so "never an exception"
   includes them.  The rows written are 2n framed haplotypes, each tiling every requested chromosome up to
   the sentinel with positive-fraction source labels ([BpWellFormed]) - and they pass the very boolean
   ([bp_ok] = C02's holds_bp) that the check evaluates on the implementation's file. *)
Theorem C20_accepted_completes :
  forall i, Valid i ->
  exists ps n, front false false i = Accept ps /\ nsamples i = Some n /\ 1 <= n /\ 10 * n <= ps /\
  forall stream idx,
    stream_ok ps (length (v_chroms i)) (sim_schedule i) stream -> idx_ok n ps idx ->
    exists rows, simgenotype i stream idx = Ran ps (Ok rows) /\ BpWellFormed i n rows /\ bp_ok i n rows = true.
Proof. exact accepted_completes_full_l. Qed.
Print Assumptions C20_accepted_completes.

(* the hypotheses are satisfiable: a Valid input, a stream and an index draw meeting the contracts, the
   complete run computed (three generations of 20 children, 4 rows written, accepted by the checker) *)
Example C20_accepted_completes_example :
  Valid w_valid /\ stream_ok 20 1 (sim_schedule w_valid) w_stream /\ idx_ok 2 20 w_idx /\
  exists rows, simgenotype w_valid w_stream w_idx = Ran 20 (Ok rows) /\ bp_ok w_valid 2 rows = true /\
               lenZ rows = 4.
Proof. exact accepted_completes_example_l. Qed.
Print Assumptions C20_accepted_completes_example.

(* The requirements that Valid adds to the twelve refusals are what completion needs: each of these four
   inputs is accepted by the model (as by the code) and is not Valid; with draws that meet numpy's contracts
   the run then dies (first generation with an admixed share: IndexError; a negative fraction: ValueError
   from np.random.choice; a region with two chromosomes: IndexError) or returns a file that does not tile
   (cM going down while bp goes up). *)
Example C20_accepted_then_failing :
  map (fun i => (front false false i, valid_b i)) [w_first_admixed; w_negative; w_region_two; w_cm_down]
    = [(Accept 20, false); (Accept 20, false); (Accept 20, false); (Accept 20, false)] /\
  stream_ok 20 1 (sim_schedule w_first_admixed) w_stream0 /\
  simgenotype w_first_admixed w_stream0 w_idx = Ran 20 (Err E_Index) /\
  simgenotype w_negative w_stream w_idx = Ran 20 (Err C01_Model.E_Value) /\
  stream_ok 20 2 (sim_schedule w_region_two) w_stream1 /\
  simgenotype w_region_two w_stream1 w_idx = Ran 20 (Err E_Index) /\
  stream_ok 20 1 (sim_schedule w_cm_down) w_stream1 /\
  exists rows, simgenotype w_cm_down w_stream1 w_idx = Ran 20 (Ok rows) /\ bp_ok w_cm_down 2 rows = false.
Proof. exact accepted_then_failing_l. Qed.
Print Assumptions C20_accepted_then_failing.

(* C20's model of _prepare_coords (the one compared with the code's refusals) and C02's (the one whose end
   coordinates the tiling theorems use) are two definitions; on Valid inputs both succeed and agree: C02's
   result is, chromosome by chromosome, C20's markers ([sim_markers]: all files, or the region's cut of the
   first) with the last base-pair position replaced by the sentinel *)
Theorem C20_prepare_coords_agree :
  forall i, Valid i ->
  exists coords,
    coords_of i = inr coords /\
    C20_Model.prepare_coords false i = None /\
    map (map mk_pair) (sim_markers i) = cut_coords i coords /\
    Forall (fun c => c <> []) (sim_markers i) /\
    length (sim_markers i) = length (req_chroms i) /\
    C02_Coords.prepare_coords (c02_maps i) (req_chroms i) (v_region i)
      = Ok (map (fun c => seal (map c02_marker c)) (sim_markers i)).
Proof. exact prepare_coords_agree. Qed.
Print Assumptions C20_prepare_coords_agree.

(* the two formulations of the region loop (C20: the code's scan with start_ind / end_ind and a Python
   slice; C02: first marker >= end, first marker >= start before it) agree on every non-empty map,
   sorted or not, for every start and end *)
Theorem C20_region_scan_is_slice :
  forall ms s e, ms <> [] ->
  region_slice s e (map c02_marker ms) = Ok (map c02_marker (cut3 ms s e)) /\
  map mk_pair (cut3 ms s e) = region_cut (map mk_pair ms) s e.
Proof. exact region_scan_is_slice_l. Qed.
Print Assumptions C20_region_scan_is_slice.

(* why the chromosome list has to be sorted and every chromosome needs exactly one map: the files sorted by
   chromosome number then line up with the requested chromosomes, position by position, and the k-th marker
   list handed to _simulate belongs to the k-th requested chromosome *)
Theorem C20_sorted_files_align :
  forall i, Valid i ->
  map file_key (sort_by file_key (matching i)) = req_chroms i /\
  Forall2 mks_ok (req_chroms i) (sim_markers i).
Proof. exact sorted_files_align_l. Qed.
Print Assumptions C20_sorted_files_align.

(* whatever markers the random mask selects on a Valid input, the events handed to the per-child loop are on
   requested chromosomes in chromosome order, strictly increasing in bp within a chromosome, non-negative
   and below the sentinel (C02's evs_ok) - C02 takes this as a hypothesis about the draws, here it follows
   from the maps *)
Theorem C20_valid_events_ordered :
  forall i, Valid i -> forall masks, evs_ok (req_chroms i) 0 (-1) (events_of (sim_markers i) masks).
Proof. exact valid_events_ok. Qed.
Print Assumptions C20_valid_events_ordered.

(* the decision-only relation (sample counts / population sizes around 2^31, 2^63, 10^30: simulating is
   infeasible, validate_params and _prepare_coords alone are run): what its boolean means *)
Theorem C20_holds_decision_sound :
  forall i o, holds_decision i o = true -> o <> Crash 97 ->
  (Valid i -> exists ps n, o = Accept ps /\ nsamples i = Some n /\ 10 * n <= ps) /\
  (~ Valid i -> side_ok_b i = true -> violated i <> [] ->
   exists k, o = Reject k /\ (k = 0 \/ In (clause_of k) (violated i))).
Proof. exact holds_decision_sound_l. Qed.
Print Assumptions C20_holds_decision_sound.

(* ---- the model satisfies what the checker demands of the implementation ---------------------------------
   With nothing odd beyond the documented list (side_ok_b) the up-front decision of the model never ends in a
   non-explanatory exception: it accepts, or refuses with a message whose requirement one of the checker's
   NARROW classifiers v1 .. v12 flags - for any number of simultaneous violations. *)
Theorem C20_model_refuses_documented :
  forall i, side_ok_b i = true ->
  (exists ps, front false false i = Accept ps) \/
  (exists k, front false false i = Reject k /\ In (clause_of k) (violated i)).
Proof. exact model_refuses_documented_l. Qed.
Print Assumptions C20_model_refuses_documented.

(* an input flagged by a narrow classifier (one requirement or several at once) and otherwise in order is
   refused, naming one of the flagged requirements *)
Theorem C20_documented_violation_refused :
  forall i, side_ok_b i = true -> violated i <> [] ->
  exists k, front false false i = Reject k /\ In (clause_of k) (violated i).
Proof. exact documented_violation_refused_l. Qed.
Print Assumptions C20_documented_violation_refused.

(* hence agree => holds on every input that is not Valid: the model's outcome passes the checker *)
Theorem C20_model_passes_refusal_check :
  forall i s, ~ Valid i -> holds_outcome i (front false false i) s = true.
Proof. exact model_passes_refusal_check_l. Qed.
Print Assumptions C20_model_passes_refusal_check.

(* and on every Valid input the composed model's run passes the checker's Valid half (acceptance, population
   sizes, completion, the file), for every stream of draws meeting numpy's contracts *)
Theorem C20_model_passes_valid_check :
  forall i, Valid i ->
  exists ps n, front false false i = Accept ps /\ nsamples i = Some n /\
  forall stream idx,
    stream_ok ps (length (v_chroms i)) (sim_schedule i) stream -> idx_ok n ps idx ->
    exists rows, simgenotype i stream idx = Ran ps (Ok rows) /\
                 holds_outcome i (Accept ps) (Completed ps rows) = true.
Proof. exact model_passes_valid_check_l. Qed.
Print Assumptions C20_model_passes_valid_check.

Theorem C20_model_passes_decision_check : forall i, holds_decision i (front false false i) = true.
Proof. exact model_passes_decision_check_l. Qed.
Print Assumptions C20_model_passes_decision_check.
