(* C20 - property theorems only. *)
From HV Require Import Prelude C20_Model C20_Check C20_Proofs C20_Proofs2 C20_Proofs3.

(* The up-front decision (validate_params, then _prepare_coords) accepts exactly
   the inputs meeting every documented requirement. *)
Theorem C20_validate_iff_wellformed :
  forall i, (exists ps, front false false i = Accept ps) <-> WellFormed i.
Proof. exact validate_iff_wellformed_l. Qed.
Print Assumptions C20_validate_iff_wellformed.

(* The effective population size is max(requested, 10 * samples). *)
Theorem C20_accepted_popsize :
  forall i ps, front false false i = Accept ps ->
  exists n, nsamples i = Some n /\ ps = Z.max (v_popsize i) (10 * n) /\ 10 * n <= ps /\ v_popsize i <= ps.
Proof. exact accepted_popsize_l. Qed.
Print Assumptions C20_accepted_popsize.

(* A region whose start exceeds its end is never accepted, with or without
   --only_breakpoint ... *)
Theorem C20_region_checked_always :
  forall lm i s e, v_region i = Some (s, e) -> e < s -> forall ps, front false lm i <> Accept ps.
Proof. exact region_checked_always_l. Qed.
Print Assumptions C20_region_checked_always.

(* ... and validate_params' answer for such an input is the same for both flag values. *)
Theorem C20_region_refusal_flag_independent :
  forall i s e b b', v_region i = Some (s, e) -> e < s ->
  validate_params false (with_only_bp i b) = validate_params false (with_only_bp i b').
Proof. exact region_refusal_flag_independent_l. Qed.
Print Assumptions C20_region_refusal_flag_independent.

(* The pinned tree: with --only_breakpoint a region 250-150 died with IndexError,
   a region 250-220 was accepted; the repaired test refuses both. *)
Example C20_legacy_region_onlybp_refuted :
  front true false w_region_crash = Crash E_Index /\
  front true false w_region_runs = Accept 20 /\
  front false false w_region_crash = Reject K_region /\
  front false false w_region_runs = Reject K_region.
Proof. exact legacy_region_onlybp_refuted_l. Qed.
Print Assumptions C20_legacy_region_onlybp_refuted.

(* The pinned tree: two maps for chromosome 1 hid the missing map of chromosome 2. *)
Example C20_legacy_map_count_refuted :
  front false true w_maps = Accept 20 /\
  has_map (matching w_maps) [50] = false /\
  front false false w_maps = Reject K_maps_missing.
Proof. exact legacy_map_count_refuted_l. Qed.
Print Assumptions C20_legacy_map_count_refuted.

(* The pinned tree applied the chromosome pattern to the whole path (= this model fed
   with paths instead of file names): a complete map set in maps_chr22/ was refused. *)
Example C20_legacy_dirname_refuted :
  front false false (witness_base [[49]] [file_chr1_in_chr22_dir] None) = Reject K_no_maps /\
  front false false (witness_base [[49]] [file_chr1_name_only] None) = Accept 20.
Proof. exact legacy_dirname_refuted_l. Qed.
Print Assumptions C20_legacy_dirname_refuted.

(* WellFormed is satisfiable. *)
Example C20_wellformed_satisfiable : WellFormed (witness_base [[49]] [file_chr1] (Some (150, 250))).
Proof. exact wellformed_satisfiable_l. Qed.
Print Assumptions C20_wellformed_satisfiable.

(* Every deliberate refusal names (through its message class k) a requirement of
   the property's list that the input really violates. *)
Theorem C20_reject_names_violation :
  forall i k, front false false i = Reject k -> clause_of k <> 0 /\ ~ clause (clause_of k) i.
Proof. exact reject_names_violation_l. Qed.
Print Assumptions C20_reject_names_violation.

(* Soundness of the boolean checker evaluated on the implementation's behaviour:
   holds = true means what the property says about this input. *)
Theorem C20_holds_outcome_sound :
  forall i o s, holds_outcome i o s = true -> o <> Crash 97 ->
  (Valid i -> exists ps n h, o = Accept ps /\ nsamples i = Some n /\ 10 * n <= ps /\
                             s = Completed h /\ 0 < h) /\
  (~ Valid i -> side_ok_b i = true -> violated i <> [] ->
   exists k, o = Reject k /\ (k = 0 \/ In (clause_of k) (violated i))).
Proof. exact holds_outcome_sound_l. Qed.
Print Assumptions C20_holds_outcome_sound.

Theorem C20_valid_b_spec : forall i, valid_b i = true <-> Valid i.
Proof. exact valid_b_spec. Qed.
Print Assumptions C20_valid_b_spec.

(* The command line: a --region whose start exceeds its end is never accepted, with
   or without --only_breakpoint; a parsed --region restricts the run to its chromosome. *)
Theorem C20_cli_region_checked :
  forall base chroms r a c s e only_bp,
  cli_parse chroms (Some r) = inr a -> a_region a = Some (c, s, e) -> e < s ->
  forall ps, front false false (with_args base a only_bp) <> Accept ps.
Proof. exact cli_region_checked_l. Qed.
Print Assumptions C20_cli_region_checked.

Theorem C20_cli_region_sets_chroms :
  forall chroms r a, r <> [] -> cli_parse chroms (Some r) = inr a ->
  exists c s e, a_region a = Some (c, s, e) /\ a_chroms a = [c].
Proof. exact cli_region_sets_chroms_l. Qed.
Print Assumptions C20_cli_region_sets_chroms.

(* With start <= end the region loop keeps at least one marker of every non-empty map
   (sorted or not): on the repaired tree the IndexError of the pinned tree is unreachable. *)
Theorem C20_region_cut_nonempty :
  forall ms s e, ms <> [] -> s <= e -> region_cut ms s e <> [].
Proof. exact region_cut_nonempty_l. Qed.
Print Assumptions C20_region_cut_nonempty.

(* The checker's narrow "documented violation" classifiers really violate the
   corresponding conjunct of WellFormed ... *)
Theorem C20_violated_sound :
  forall i c, In c (violated i) -> 1 <= c <= 12 /\ ~ clause c i.
Proof. exact violated_sound_l. Qed.
Print Assumptions C20_violated_sound.

(* ... so a refusal the checker accepts names a requirement that the input violates. *)
Theorem C20_checked_refusal_names_violation :
  forall i o s k, holds_outcome i o s = true -> o = Reject k -> k <> 0 ->
  ~ Valid i -> side_ok_b i = true -> violated i <> [] -> ~ clause (clause_of k) i.
Proof. exact checked_refusal_names_violation_l. Qed.
Print Assumptions C20_checked_refusal_names_violation.
