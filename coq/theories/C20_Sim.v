(* C20 - "accepted and then simulated to completion": the composed model
     front (validate_params, _prepare_coords; C20_Model)
       o  simulate_gt's generation loop  o  write_breakpoints   (C01/C02 models)
   built from the SAME input record [vin] that the validation reads, so that the
   second sentence of the property is a statement about one function of the input.

   What is taken from where
   * chromosomes handed to _simulate: [req_chroms i] (int(c), 'X' -> 23);
   * end coordinates: C02's model of _prepare_coords ([C02_Coords.prepare_coords])
     run on the map files as C20 parses them ([c02_maps]); C20's own model of the
     same function ([C20_Model.prepare_coords], the one compared with the code's
     refusals) is proved to agree with it on Valid inputs in C20_ProofsSim.v;
   * the markers over which a child's recombination mask ranges: [sim_markers]
     (the parsed map lines with their cM, cut to the region);
   * the generations: one _simulate call per model line with the line's
     fractions, then (g - previous g - 1) calls with fractions [1, 0, .., 0]
     ([schedule]);
   * per child the code draws  np.random.choice(arange(K), p = fractions),
     randint(popsize) twice (parents), randint(2) (homologs), rand(...) < recomb_probs
     (the mask).  The stream of these draws is an argument ([child_stream]); what
     numpy guarantees about it is the predicate [stream_ok] of C20_ProofsSim.v.
     numpy's own argument checks are part of the model: choice(p=...) raises
     ValueError for a negative entry, a wrong length or a sum away from 1
     ([choice_pre]); choice(replace=False) raises ValueError when 2n exceeds the
     population ([simgenotype]).
   cM values: the simulation only copies them; they are the token 0 here (C02
   treats them; C20's file checker does not encode them either).  The cM values
   of the MAP decide which markers can carry an event (recomb_prob > 0 iff the cM
   increased) and the order of the events (sorted by (chromosome, cM)): both are
   modelled ([pair_events], [sort_le]).  No proofs here. *)
From HV Require Import Prelude Tracts Tiling C01_Model C02_Model C02_Check C02_Tiling C02_Generations C02_Coords.
From HV Require Import C20_Model C20_Check.
From Coq Require Import QArith Qabs.
Open Scope Z_scope.

(* ------------------------------------------------------------ the maps, for C02's _prepare_coords *)
Definition c02_marker (m : mk) : marker := (k_bp m, 0).
Definition c02_file (f : str * list str) : mapfile := (file_key f, map c02_marker (file_mks f)).
(* the *.map files whose name carries a requested chromosome, sorted by chromosome number *)
Definition c02_maps (i : vin) : list mapfile := map c02_file (sort_by file_key (matching i)).

(* ------------------------------------------------------------ the markers _simulate draws events on *)
Definition mk_pair (m : mk) : Z * Z := (k_chrom m, k_bp m).
(* the region loop of _prepare_coords on the markers with their cM (same indices as [region_cut]) *)
Definition cut3 (ms : list mk) (s e : Z) : list mk :=
  let '(si, ei) := cut_scan (map mk_pair ms) 0 (-1) s e (lenZ ms) in pyslice ms si ei.
Definition sim_markers (i : vin) : list (list mk) :=
  let files := map file_mks (sort_by file_key (matching i)) in
  match v_region i with
  | None => files
  | Some (s, e) => match files with c0 :: _ => [cut3 c0 s e] | [] => [] end
  end.

(* ------------------------------------------------------------ recombination events of one child *)
(* recomb_probs[c][0] = 0 and recomb_probs[c][k] = 1 - exp(-(cM_k - cM_{k-1})/100): a draw of rand() in
   [0,1) can be below it only when the cM increased.  The event carries the chromosome of the marker
   and the bp position of the marker BEFORE it (coord.get_prev_coord()); its sort key is
   (chromosome, cM of the marker itself). *)
Definition tagged : Type := (Z * Q * event)%type.
Fixpoint pair_events (p : mk) (ms : list mk) (mask : list bool) : list tagged :=
  match ms, mask with
  | m :: r, b :: mr =>
      (if b && negb (Qle_bool (k_cm m) (k_cm p))
       then [(k_chrom m, k_cm m, mkev (k_chrom m) (k_bp p) 0)] else [])
      ++ pair_events m r mr
  | _, _ => []
  end.
Definition chrom_events (ms : list mk) (mask : list bool) : list tagged :=
  match ms, mask with m0 :: r, _ :: mr => pair_events m0 r mr | _, _ => [] end.
(* coords[recomb_events]: row-major, i.e. chromosome by chromosome *)
Fixpoint all_events (cs : list (list mk)) (masks : list (list bool)) : list tagged :=
  match cs, masks with
  | c :: cr, m :: mr => chrom_events c m ++ all_events cr mr
  | _, _ => []
  end.

(* sorted(true_coords, key = (chrom, cM)): stable *)
Definition ev_le (a b : tagged) : bool :=
  let '(c1, q1, _) := a in let '(c2, q2, _) := b in (c1 <? c2) || ((c1 =? c2) && Qle_bool q1 q2).
Fixpoint insert_le {A} (le : A -> A -> bool) (x : A) (l : list A) : list A :=
  match l with
  | [] => [x]
  | y :: r => if le x y then x :: l else y :: insert_le le x r
  end.
Definition sort_le {A} (le : A -> A -> bool) (l : list A) : list A := fold_right (insert_le le) [] l.

Definition events_of (cs : list (list mk)) (masks : list (list bool)) : list event :=
  map snd (sort_le ev_le (all_events cs masks)).

(* ------------------------------------------------------------ the draws of one child, of one run *)
Record child_stream := mkcs {
  s_pop : Z;                    (* parent_pop[child]: np.random.choice(np.arange(K), p = pop_fracs) *)
  s_ha : Z; s_hb : Z;           (* haplotypes[2 child], [2 child + 1]: np.random.randint(popsize) *)
  s_h0 : bool; s_hd : list bool;    (* np.random.randint(2): first homolog, then one per emitted chromosome *)
  s_mask : list (list bool)     (* prob_vals < recomb_probs, per chromosome and marker *)
}.
Definition to_draws (cs : list (list mk)) (c : child_stream) : child_draws :=
  mkcd (s_pop c) (s_ha c) (s_hb c) (s_h0 c) (s_hd c) (events_of cs (s_mask c)).

(* ------------------------------------------------------------ the model file as a schedule of generations *)
Definition sim_lines (i : vin) : list (Z * list Q) :=
  map (fun toks => (match first_int toks with Some g => g | None => 0 end, line_fracs toks)) (gen_toks i).
(* pop_fracs = [0]*len(pops); pop_fracs[0] = 1 *)
Definition admixed_only (k : nat) : list Q :=
  match k with O => [] | S k' => 1%Q :: repeat 0%Q k' end.
Fixpoint schedule (k : nat) (prev : Z) (lines : list (Z * list Q)) : list (list Q) :=
  match lines with
  | [] => []
  | (g, fr) :: r => fr :: repeat (admixed_only k) (Z.to_nat (g - prev - 1)) ++ schedule k g r
  end.
Definition sim_schedule (i : vin) : list (list Q) := schedule (length (pops i)) 0 (sim_lines i).

(* np.random.choice(a, size, p): ValueError unless len(p) = len(a), no entry is negative and the sum is
   1 within sqrt(eps) of the dtype (float32 here: 3.45e-4) *)
Definition choice_tol : Q := (345 # 1000000)%Q.
Definition choice_pre (k : Z) (fr : list Q) : bool :=
  (lenZ fr =? k) && forallb (Qle_bool 0) fr && Qle_bool (Qabs (qsum fr - 1)) choice_tol.

Fixpoint sim_sched (chroms : list Z) (ends : list (Z * Z)) (cs : list (list mk)) (k : Z)
    (prev : list (list seg)) (sched : list (list Q)) (stream : list (list child_stream))
  : res (list (list seg)) :=
  match sched with
  | [] => Ok prev
  | fr :: r =>
      if negb (choice_pre k fr) then Err C01_Model.E_Value
      else match stream with
           | [] => Err E_Draws
           | ds :: sr =>
               bind (sim_generation chroms ends prev (map (to_draws cs) ds))
                    (fun g => sim_sched chroms ends cs k g r sr)
           end
  end.

(* ------------------------------------------------------------ the whole command *)
Inductive run_result :=
| Refused (o : outcome)                          (* nothing was simulated *)
| Ran (popsize : Z) (r : res (list bprow)).      (* accepted with this population size; the .bp rows or the exception *)

Definition simgenotype (i : vin) (stream : list (list child_stream)) (idx : list Z) : run_result :=
  match front false false i with
  | Accept ps =>
      Ran ps
        match nsamples i with
        | None => Err C01_Model.E_Value
        | Some n =>
            bind (C02_Coords.prepare_coords (c02_maps i) (req_chroms i) (v_region i)) (fun cs =>
            bind (sim_sched (req_chroms i) (ends_of cs) (sim_markers i) (lenZ (pops i)) []
                            (sim_schedule i) stream) (fun g =>
            (* np.random.choice(range(len(g)), size = 2n, replace = False) *)
            if lenZ g <? 2 * n then Err C01_Model.E_Value else write_breakpoints g idx))
        end
  | o => Refused o
  end.
