(* Shared by C12 and C13: genotype tables (samples x variants x strands [+ phase]),
   numpy's nonzero / delete / boolean-mask selection on lists, with the lemmas
   relating "delete by the index arrays np.nonzero returned" to "filter by the
   predicate".  Positions are [nat] (never written as literals by the harness);
   identifiers and allele values are [Z]. *)
From HV Require Import Prelude.
Open Scope Z_scope.

(* one call: allele index on strand 1, on strand 2, phase flag (0 when the array has 2 planes) *)
Record cell := gc { ca : Z; cb : Z; cp : Z }.
(* one row of Genotypes.variants: ID (interned), CHROM (interned), POS *)
Record variant := gv { vid : Z; vchrom : Z; vpos : Z }.
Definition dv : variant := gv 0 0 0.

Record gtab := mkg {
  g_samples : list Z;                       (* self.samples (interned) *)
  g_variants : list variant;                (* self.variants *)
  g_rows : list (list cell);                (* self.data: one row per sample, one cell per variant *)
  g_planes : Z;                             (* self.data.shape[2]: 3 with phase plane, 2 without *)
  g_anc : option (list (list (Z * Z)))      (* GenotypesAncestry.ancestry (None for the other classes) *)
}.

Definition cell_eqb (x y : cell) : bool := (ca x =? ca y) && (cb x =? cb y) && (cp x =? cp y).
Definition variant_eqb (x y : variant) : bool :=
  (vid x =? vid y) && (vchrom x =? vchrom y) && (vpos x =? vpos y).
Definition zz_eqb (x y : Z * Z) : bool := (fst x =? fst y) && (snd x =? snd y).
Definition gtab_eqb (s t : gtab) : bool :=
  list_eqb Z.eqb (g_samples s) (g_samples t)
  && list_eqb variant_eqb (g_variants s) (g_variants t)
  && list_eqb (list_eqb cell_eqb) (g_rows s) (g_rows t)
  && (g_planes s =? g_planes t)
  && opt_eqb (list_eqb (list_eqb zz_eqb)) (g_anc s) (g_anc t).

Fixpoint memZ (x : Z) (l : list Z) : bool :=
  match l with [] => false | y :: r => (x =? y) || memZ x r end.
Fixpoint nodupZ (l : list Z) : bool :=
  match l with [] => true | x :: r => negb (memZ x r) && nodupZ r end.

Lemma memZ_In x l : memZ x l = true <-> In x l.
Proof.
  induction l as [|y r IH]; cbn; [split; [discriminate|tauto]|].
  rewrite orb_true_iff, IH, Z.eqb_eq. split; intros [H|H]; auto.
Qed.

Lemma nodupZ_NoDup l : nodupZ l = true <-> NoDup l.
Proof.
  induction l as [|x r IH]; cbn; [split; [constructor|reflexivity]|].
  rewrite andb_true_iff, negb_true_iff, IH. split.
  - intros [H1 H2]. constructor; [|exact H2]. rewrite <- memZ_In, H1. discriminate.
  - intro H. inversion H as [|? ? H1 H2]; subst. split; [|exact H2].
    destruct (memZ x r) eqn:E; [apply memZ_In in E; contradiction|reflexivity].
Qed.

(* ---- numpy on lists ------------------------------------------------------ *)

Fixpoint memn (n : nat) (l : list nat) : bool :=
  match l with [] => false | x :: r => Nat.eqb n x || memn n r end.

(* np.delete(l, idx): drop the positions listed in idx (duplicates harmless) *)
Fixpoint delete_from {A} (k : nat) (idx : list nat) (l : list A) : list A :=
  match l with
  | [] => []
  | x :: r => if memn k idx then delete_from (S k) idx r else x :: delete_from (S k) idx r
  end.
Definition np_delete {A} (idx : list nat) (l : list A) : list A := delete_from 0 idx l.

(* np.nonzero of a 1-d / 2-d boolean array (row-major order) *)
Fixpoint nonzero1 (k : nat) (r : list bool) : list nat :=
  match r with
  | [] => []
  | b :: t => if b then k :: nonzero1 (S k) t else nonzero1 (S k) t
  end.
Fixpoint nonzero2 (i : nat) (m : list (list bool)) : list (nat * nat) :=
  match m with
  | [] => []
  | r :: t => map (pair i) (nonzero1 0 r) ++ nonzero2 (S i) t
  end.

(* l[mask] *)
Fixpoint filter_mask {A} (m : list bool) (l : list A) : list A :=
  match m, l with
  | b :: m', x :: l' => if b then x :: filter_mask m' l' else filter_mask m' l'
  | _, _ => []
  end.

(* column j of a boolean matrix holds a true somewhere *)
Definition col_any (m : list (list bool)) (j : nat) : bool :=
  existsb (fun r => nth j r false) m.
Definition row_any (r : list bool) : bool := existsb (fun b => b) r.

(* ---- lemmas: memn over what nonzero returns ------------------------------ *)

Lemma memn_app n a b : memn n (a ++ b) = memn n a || memn n b.
Proof. induction a as [|x a IH]; cbn; [reflexivity|]. rewrite IH, orb_assoc. reflexivity. Qed.

Lemma memn_nonzero1 r : forall k n,
  memn n (nonzero1 k r) = (k <=? n)%nat && nth (n - k) r false.
Proof.
  induction r as [|b t IH]; intros k n; cbn [nonzero1].
  - cbn. destruct (n - k)%nat; rewrite andb_false_r; reflexivity.
  - destruct (Nat.eq_dec n k) as [->|Hne].
    + rewrite Nat.leb_refl, Nat.sub_diag. cbn [nth andb].
      destruct b; cbn [memn].
      * rewrite Nat.eqb_refl. reflexivity.
      * rewrite IH. replace (S k <=? k)%nat with false; [reflexivity|].
        symmetry. apply Nat.leb_gt. lia.
    + assert (Hm : memn n (if b then k :: nonzero1 (S k) t else nonzero1 (S k) t)
                   = memn n (nonzero1 (S k) t)).
      { destruct b; cbn [memn]; [|reflexivity].
        apply Nat.eqb_neq in Hne. rewrite Hne. reflexivity. }
      rewrite Hm, IH.
      destruct (k <=? n)%nat eqn:E1.
      * apply Nat.leb_le in E1.
        assert (E2 : (S k <=? n)%nat = true) by (apply Nat.leb_le; lia).
        rewrite E2. cbn [andb]. replace (n - k)%nat with (S (n - S k)) by lia. reflexivity.
      * apply Nat.leb_gt in E1.
        assert (E2 : (S k <=? n)%nat = false) by (apply Nat.leb_gt; lia).
        rewrite E2. reflexivity.
Qed.

Lemma nonzero1_nil_iff r k : nonzero1 k r = [] <-> row_any r = false.
Proof.
  revert k. induction r as [|b t IH]; intro k; cbn; [tauto|].
  destruct b; cbn; [split; discriminate|apply IH].
Qed.

Lemma memn_map_fst_pair n i (l : list nat) : memn n (map fst (map (pair i) l)) = match l with [] => false | _ => Nat.eqb n i end.
Proof.
  induction l as [|x l IH]; cbn; [reflexivity|]. rewrite IH.
  destruct l; [apply orb_false_r|apply orb_diag].
Qed.

Lemma memn_map_snd_pair n (i : nat) (l : list nat) : memn n (map snd (map (pair i) l)) = memn n l.
Proof. induction l as [|x l IH]; cbn; [reflexivity|]. rewrite IH. reflexivity. Qed.

(* rows: position n is among the row indices of nonzero iff row n has a true *)
Lemma memn_rows m : forall i n,
  memn n (map fst (nonzero2 i m)) = (i <=? n)%nat && row_any (nth (n - i) m []).
Proof.
  induction m as [|r t IH]; intros i n; cbn [nonzero2].
  - cbn. destruct (n - i)%nat; rewrite andb_false_r; reflexivity.
  - rewrite map_app, memn_app, memn_map_fst_pair, IH.
    destruct (Nat.eq_dec n i) as [->|Hne].
    + rewrite Nat.leb_refl, Nat.sub_diag. cbn [nth andb].
      replace (S i <=? i)%nat with false by (symmetry; apply Nat.leb_gt; lia).
      cbn [andb]. rewrite orb_false_r.
      destruct (nonzero1 0 r) eqn:E.
      * apply nonzero1_nil_iff in E. rewrite E. reflexivity.
      * rewrite Nat.eqb_refl. symmetry.
        destruct (row_any r) eqn:E2; [reflexivity|].
        apply (nonzero1_nil_iff r 0%nat) in E2. congruence.
    + assert (E0 : match nonzero1 0 r with [] => false | _ => Nat.eqb n i end = false).
      { destruct (nonzero1 0 r); [reflexivity|]. apply Nat.eqb_neq. exact Hne. }
      rewrite E0. cbn [orb].
      destruct (i <=? n)%nat eqn:E1.
      * apply Nat.leb_le in E1.
        assert (E2 : (S i <=? n)%nat = true) by (apply Nat.leb_le; lia).
        rewrite E2. cbn [andb]. replace (n - i)%nat with (S (n - S i)) by lia. reflexivity.
      * apply Nat.leb_gt in E1.
        assert (E2 : (S i <=? n)%nat = false) by (apply Nat.leb_gt; lia).
        rewrite E2. reflexivity.
Qed.

(* columns: position n is among the column indices of nonzero iff column n has a true *)
Lemma memn_cols m : forall i n, memn n (map snd (nonzero2 i m)) = col_any m n.
Proof.
  induction m as [|r t IH]; intros i n; cbn [nonzero2]; [reflexivity|].
  rewrite map_app, memn_app, memn_map_snd_pair, IH, memn_nonzero1.
  cbn. rewrite Nat.sub_0_r. reflexivity.
Qed.

(* ---- delete by an index list = select by the complementary mask --------- *)

Lemma delete_from_mask {A} (idx : list nat) (l : list A) : forall k,
  delete_from k idx l = filter_mask (map (fun n => negb (memn n idx)) (seq k (length l))) l.
Proof.
  induction l as [|x r IH]; intro k; cbn; [reflexivity|].
  rewrite IH. destruct (memn k idx); reflexivity.
Qed.

Lemma filter_mask_filter {A} (f : A -> bool) (l : list A) : filter_mask (map f l) l = filter f l.
Proof. induction l as [|x r IH]; cbn; [reflexivity|]. rewrite IH. reflexivity. Qed.

Lemma map_seq_nth {A B} (f : A -> B) (d : A) (l : list A) : forall k,
  map (fun n => f (nth (n - k) l d)) (seq k (length l)) = map f l.
Proof.
  induction l as [|x r IH]; intro k; cbn [length seq map]; [reflexivity|].
  rewrite Nat.sub_diag. cbn [nth]. f_equal.
  rewrite <- (IH (S k)). apply map_ext_in. intros n Hn. apply in_seq in Hn.
  replace (n - k)%nat with (S (n - S k)) by lia. reflexivity.
Qed.

(* np.delete(rows, np.nonzero(mask)[0]) keeps exactly the rows whose mask row is all false *)
Theorem delete_rows_spec {A} (m : list (list bool)) (l : list A) :
  length l = length m ->
  np_delete (map fst (nonzero2 0 m)) l = filter_mask (map (fun r => negb (row_any r)) m) l.
Proof.
  intro Hlen. unfold np_delete. rewrite delete_from_mask. f_equal.
  rewrite Hlen, <- (map_seq_nth (fun r => negb (row_any r)) [] m 0).
  apply map_ext_in. intros n Hn. apply in_seq in Hn.
  rewrite memn_rows. cbn. reflexivity.
Qed.

(* np.delete(x, np.nonzero(mask)[1]) keeps exactly the columns in which the mask is all false *)
Theorem delete_cols_spec {A} (m : list (list bool)) (l : list A) :
  np_delete (map snd (nonzero2 0 m)) l
  = filter_mask (map (fun j => negb (col_any m j)) (seq 0 (length l))) l.
Proof.
  unfold np_delete. rewrite delete_from_mask. f_equal.
  apply map_ext. intro n. rewrite memn_cols. reflexivity.
Qed.

Theorem delete_idx1_spec {A} (r : list bool) (l : list A) :
  length l = length r ->
  np_delete (nonzero1 0 r) l = filter_mask (map negb r) l.
Proof.
  intro Hlen. unfold np_delete. rewrite delete_from_mask. f_equal.
  rewrite Hlen, <- (map_seq_nth negb false r 0).
  apply map_ext_in. intros n Hn. apply in_seq in Hn.
  rewrite memn_nonzero1. cbn. rewrite Nat.sub_0_r. reflexivity.
Qed.

(* nonzero is empty exactly when the mask is false everywhere *)
Lemma nonzero2_nil_iff m : forall i, nonzero2 i m = [] <-> existsb row_any m = false.
Proof.
  induction m as [|r t IH]; intro i; cbn; [tauto|].
  rewrite orb_false_iff, <- (IH (S i)), <- (nonzero1_nil_iff r 0%nat). split.
  - intro H. apply app_eq_nil in H. destruct H as [H1 H2]. split; [|exact H2].
    destruct (nonzero1 0 r); [reflexivity|discriminate].
  - intros [H1 H2]. rewrite H1, H2. reflexivity.
Qed.

(* every pair returned by nonzero points at a true cell *)
Lemma nonzero1_sound r : forall k j, In j (nonzero1 k r) -> (k <= j)%nat /\ nth (j - k) r false = true.
Proof.
  intros k j H. assert (M : memn j (nonzero1 k r) = true).
  { clear -H. induction (nonzero1 k r) as [|x l IH]; [contradiction|]. cbn.
    destruct H as [->|H]; [rewrite Nat.eqb_refl; reflexivity|rewrite (IH H); apply orb_true_r]. }
  rewrite memn_nonzero1 in M. apply andb_true_iff in M. destruct M as [M1 M2].
  apply Nat.leb_le in M1. tauto.
Qed.

Lemma nonzero2_sound m : forall i a b, In (a, b) (nonzero2 i m) ->
  (i <= a)%nat /\ nth b (nth (a - i) m []) false = true.
Proof.
  induction m as [|r t IH]; intros i a b H; cbn in H; [contradiction|].
  apply in_app_or in H. destruct H as [H|H].
  - apply in_map_iff in H. destruct H as [j [E Hj]]. inversion E; subst.
    apply nonzero1_sound in Hj. rewrite Nat.sub_diag, Nat.sub_0_r in *. cbn. split; [lia|tauto].
  - apply IH in H. destruct H as [H1 H2]. split; [lia|].
    replace (a - i)%nat with (S (a - S i)) by lia. exact H2.
Qed.
