(* MiniPy - a deep embedding of the small Python subset that the source translator
   (harness/pytrans.py) accepts, with a definitional interpreter.

   The translator regenerates, on every run, the abstract syntax of selected pure
   functions of /repo (sim_genotype._find_coord, _find_random_sample, start_segment,
   get_segment, ...) as terms of type [fundef]; the files coq/translated/*.v then prove
   that the interpretation of that syntax equals the hand-written models the property
   theorems are about.  No proofs of properties live here.

   Semantics notes (what is modelled, fail-closed otherwise):
   - values: unbounded ints, bools, None, opaque strings (interned tokens), floats as exact
     rationals (VQ: every finite float64 is a rational; comparisons are exact) and NaN (VNaN),
     tuples, lists, dicts (association lists), objects of translated classes.  Float
     arithmetic is not modelled except int / int, which goes through the function table
     ("$truediv": the rounding of the quotient is a parameter, see truediv_fn).
   - objects are values; identity of objects (x in list, for a class without __eq__) is
     structural equality, so a client that needs identity gives each object a distinguishing
     field (coq/translated/TVM_C17.v: the row index).
   - lists are values: [x.append(v)] rebinds x; the translator rejects programs in which
     two names could alias one mutable list, and calls write mutated parameters back
     into the argument l-values (see SCall).
   - all local names of a function are bound from the start to [VUnbound], so that reading a
     local before assignment is UnboundLocalError (Err 6), as in Python, and the shape of
     the environment never changes.
   - strings whose characters matter are VText (code points): == by content, len, slices, truth value and
     `a in b` (substring) are interpreted; every other string method is a call of an untranslated
     function (Section variable of the generated module, see pytrans.py "ext_methods"); s[i] and
     int(s) on a VText are unsupported (Err 96 / the translator refuses), iterating over one is NOT
     modelled (the for loop reports TypeError).  Dict literals (EDict), enumerate (EEnumerate), x.copy()
     (ECopy: containers are values) and stores through several subscripts x[i][j][k] = e (SSetPath: e is
     evaluated first, then the indices, as Python does) are interpreted.
   - exceptions are [Err kind] with the enum of harness/core.py; a dynamic situation the
     interpreter does not model is [Err 96] (never confused with a Python exception),
     running out of loop fuel is [Err 98].
   - collections.Counter() (VCounter: a dict whose missing keys read as 0) and set() (VSet: the elements in
     insertion order, no two ==) hold hashable scalars only (anything else is Err 96); the translator lets such a
     value live in ONE local that is only subscripted / tested with `in` / extended with .add (pytrans.py), so it
     never reaches ==, len, iteration or a call.  An f-string (EFmt) is the concatenation of its parts: a string is
     itself, an int its decimal string (dec_text = Coq's DecimalString printer of Z.to_int), anything else whatever
     the untranslated "$str" of the function table returns (Section variable ext_str of the generated module).
     [l] * n repeats a list.  x.attr = v on an object of a translated class is a store through a path whose last step
     is a field (SSetAttr: objects are values, the containers along the path are rebuilt).
   - set(e) / tuple(e) of a list or tuple (ESetOf / ETupleOf): the distinct elements in order of first occurrence as a
     VSet (hashable scalars only, else Err 96) / the same elements as a VTuple.  == on sets is NOT modelled (py_eq
     is false on two VSet): the translator admits set(e) only in slices without ==, !=, in, .index, for (pytrans.py).
   - dict(zip(a, b)) (EDictZip): the pairs are entered left to right, a repeated key keeps its first position and takes
     the LAST value (dict_zip; keys are hashable scalars, else Err 96); `k in d` for a dict d asks the keys;
     Counter(a).items() (ECountItems): the (key, count) pairs in order of first occurrence, as a list of tuples (the
     translator lets such a value only be iterated over or measured with len). *)
From HV Require Import Prelude.
From Coq Require Import String QArith Qabs.
From Coq Require DecimalString DecimalZ Ascii.
Open Scope Z_scope.

Definition E_Unsupported : Z := 96.
Definition E_Fuel : Z := 98.

Inductive val :=
| VInt (z : Z)
| VBool (b : bool)
| VNone
| VStr (s : Z)                 (* opaque token: only compared *)
| VTuple (l : list val)
| VList (l : list val)
| VDict (l : list (val * val))
| VObj (cls : Z) (fs : list val)
| VUnbound
| VNumStr (z : Z)               (* the decimal string of an integer ("12"): equal only to itself; int() converts *)
| VDDict (l : list (val * val))   (* collections.defaultdict(list): a missing key reads as [] *)
| VQ (q : Q)                    (* a finite float, by its exact value *)
| VNaN                          (* float nan: every ordered comparison and == is False *)
| VText (s : list Z)            (* a string by its code points (== by content, len, slicing, substring test) *)
| VCounter (l : list (val * val))  (* collections.Counter(): a missing key reads as 0 *)
| VSet (l : list val).          (* a set of hashable scalars: its elements in insertion order, no two of them == *)

Section ValEq.
  Variable veq : val -> val -> bool.
  Fixpoint vlist_eqb (l1 l2 : list val) : bool :=
    match l1, l2 with
    | [], [] => true
    | a :: r, b :: s => veq a b && vlist_eqb r s
    | _, _ => false
    end.
  Fixpoint vdict_eqb (l1 l2 : list (val * val)) : bool :=
    match l1, l2 with
    | [], [] => true
    | (a, x) :: r, (b, y) :: s => veq a b && veq x y && vdict_eqb r s
    | _, _ => false
    end.
End ValEq.

(* structural equality (used by the checkers to compare with observed values) *)
Fixpoint val_eqb (a b : val) {struct a} : bool :=
  match a, b with
  | VInt x, VInt y => x =? y
  | VBool x, VBool y => Bool.eqb x y
  | VNone, VNone => true
  | VStr x, VStr y => x =? y
  | VTuple x, VTuple y => vlist_eqb val_eqb x y
  | VList x, VList y => vlist_eqb val_eqb x y
  | VDict x, VDict y => vdict_eqb val_eqb x y
  | VObj c x, VObj d y => (c =? d) && vlist_eqb val_eqb x y
  | VUnbound, VUnbound => true
  | VNumStr x, VNumStr y => x =? y
  | VDDict x, VDDict y => vdict_eqb val_eqb x y
  | VQ x, VQ y => Qeq_bool x y
  | VNaN, VNaN => true
  | VText x, VText y => list_eqb Z.eqb x y
  | VCounter x, VCounter y => vdict_eqb val_eqb x y
  | VSet x, VSet y => vlist_eqb val_eqb x y
  | _, _ => false
  end.

Definition as_num (v : val) : option Z :=
  match v with
  | VInt z => Some z
  | VBool b => Some (if b then 1 else 0)
  | _ => None
  end.

(* a number as a float operand: Some None = NaN; ints and bools by their exact value *)
Definition as_flt (v : val) : option (option Q) :=
  match v with
  | VQ q => Some (Some q)
  | VNaN => Some None
  | VInt z => Some (Some (inject_Z z))
  | VBool b => Some (Some (inject_Z (if b then 1 else 0)))
  | _ => None
  end.

(* Python ==  (ints and bools compare numerically; containers element-wise) *)
Fixpoint py_eq (a b : val) {struct a} : bool :=
  match as_num a, as_num b with
  | Some x, Some y => x =? y
  | _, _ =>
    match a, b with
    | VNone, VNone => true
    | VStr x, VStr y => x =? y
    | VTuple x, VTuple y => vlist_eqb py_eq x y
    | VList x, VList y => vlist_eqb py_eq x y
    | VObj c x, VObj d y => (c =? d) && vlist_eqb val_eqb x y
    | VNumStr x, VNumStr y => x =? y
    | VText x, VText y => list_eqb Z.eqb x y
    | VQ x, _ => match as_flt b with Some (Some y) => Qeq_bool x y | _ => false end
    | _, VQ y => match as_flt a with Some (Some x) => Qeq_bool x y | _ => false end
    | _, _ => false
    end
  end.

(* truth value; None = not modelled (opaque string) *)
Definition truthy (v : val) : option bool :=
  match v with
  | VInt z => Some (negb (z =? 0))
  | VBool b => Some b
  | VNone => Some false
  | VStr _ => None
  | VTuple l | VList l => Some (match l with [] => false | _ => true end)
  | VDict l => Some (match l with [] => false | _ => true end)
  | VObj _ _ => Some true
  | VUnbound => None
  | VNumStr _ => Some true
  | VDDict l => Some (match l with [] => false | _ => true end)
  | VQ q => Some (negb (Qeq_bool q 0))
  | VNaN => Some true
  | VText s => Some (match s with [] => false | _ => true end)
  | VCounter l => Some (match l with [] => false | _ => true end)
  | VSet l => Some (match l with [] => false | _ => true end)
  end.

(* the values a set or a Counter may hold / be asked about here: immutable scalars (a tuple is hashable in Python
   too; it is not modelled: Err 96) *)
Definition hashable (v : val) : bool :=
  match v with
  | VInt _ | VBool _ | VNone | VStr _ | VNumStr _ | VText _ | VQ _ => true
  | _ => false
  end.

(* Python's str(int) as code points: Coq's own decimal printer *)
Definition dec_text (z : Z) : list Z :=
  map (fun a => Z.of_N (Ascii.N_of_ascii a))
      (String.list_ascii_of_string (DecimalString.NilEmpty.string_of_int (Z.to_int z))).

(* l * n for a list *)
Definition repeat_list {A} (l : list A) (n : Z) : list A := List.concat (repeat l (Z.to_nat n)).

(* s.add(v) *)
Definition set_add (l : list val) (v : val) : list val :=
  if existsb (fun y => py_eq y v) l then l else l ++ [v].

(* set(l) for a sequence l: the elements in order of first occurrence (Python's own iteration order of a set is not
   modelled: a VSet is only asked for membership, its length and its truth value) *)
Definition set_of (l : list val) : list val := fold_left set_add l [].

(* d[k] = v on an association list: a key that is already there keeps its position *)
Fixpoint dict_put (d : list (val * val)) (k v : val) : list (val * val) :=
  match d with
  | [] => [(k, v)]
  | (k', w) :: r => if py_eq k' k then (k', v) :: r else (k', w) :: dict_put r k v
  end.

(* dict(zip(ks, vs)) entered into d: as many pairs as the shorter sequence has, left to right *)
Fixpoint dict_zip (ks vs : list val) (d : list (val * val)) : list (val * val) :=
  match ks, vs with
  | k :: kr, v :: vr => dict_zip kr vr (dict_put d k v)
  | _, _ => d
  end.

(* Counter(l): how often each element occurs, keys in order of first occurrence *)
Fixpoint count_bump (d : list (val * Z)) (k : val) : list (val * Z) :=
  match d with
  | [] => [(k, 1)]
  | (k', c) :: r => if py_eq k' k then (k', c + 1) :: r else (k', c) :: count_bump r k
  end.
Definition count_pairs (l : list val) : list (val * Z) := fold_left count_bump l [].
Definition count_items (l : list val) : list val := map (fun p => VTuple [fst p; VInt (snd p)]) (count_pairs l).

Inductive binop := Add | Sub | Mul | FloorDiv | Mod.
Inductive cmpop := CEq | CNe | CLt | CLe | CGt | CGe.

Inductive expr :=
| EInt (z : Z)
| EBool (b : bool)
| ENone
| EStr (s : Z)
| EVar (x : string)
| EBin (o : binop) (a b : expr)
| ECmp (o : cmpop) (a b : expr)
| EAnd (a b : expr)
| EOr (a b : expr)
| ENot (a : expr)
| ENeg (a : expr)
| EIndex (a i : expr)
| ESlice (a : expr) (lo hi : option expr)
| ETuple (l : list expr)
| EList (l : list expr)
| ELen (a : expr)
| ERange (a : expr)
| EField (a : expr) (cands : list (Z * nat))   (* obj.attr / getter call: (class, field index) per translated class *)
| ENew (cls : Z) (args : list expr)
| ECall (f : string) (args : list expr)    (* call of a translated function that mutates no parameter *)
| EIndexOf (a x : expr)                   (* a.index(x): first position equal to x, ValueError if absent *)
| EToInt (a : expr)                       (* int(a) for an int or the decimal string of an int *)
| EAsArray (lo hi : option Z) (a : expr)  (* np.asarray(a, dtype): the list itself; every element must fit the dtype *)
| EFloat (q : Q)                          (* a float literal, by its exact value *)
| EAbs (a : expr)                         (* abs(a) *)
| EIn (neg : bool) (x l : expr)           (* x in l / x not in l for a list or tuple l: some element is == x;
                                             for two strings: x is a substring of l *)
| EText (s : list Z)                      (* a string literal, by its code points *)
| EDict (l : list (expr * expr))          (* {k1: v1, ...}: keys and values evaluated left to right *)
| EEnumerate (a : expr)                   (* enumerate(a) for a list or tuple: the list of (index, element) *)
| ECopy (a : expr)                        (* a.copy() for a list or dict: lists and dicts are values *)
| ECounter                                (* collections.Counter() *)
| ESet                                    (* set() *)
| EFmt (parts : list expr)                (* an f-string without format specs: each part evaluated and turned into text,
                                             left to right *)
| ESetOf (a : expr)                       (* set(a) for a list / tuple of hashable scalars (or a set): its distinct elements *)
| ETupleOf (a : expr)                     (* tuple(a) for a list / tuple: the same elements *)
| EDictZip (a b : expr)                   (* dict(zip(a, b)) for two lists / tuples, the keys hashable scalars *)
| ECountItems (a : expr).                 (* Counter(a).items() for a list / tuple of hashable scalars: (key, count) pairs *)

Inductive lval := LVar (x : string) | LIdx (x : string) (i : expr).

Inductive stmt :=
| SSkip
| SSeq (a b : stmt)
| SAssign (x : string) (e : expr)
| SSetIdx (x : string) (i e : expr)
| SAppend (l : lval) (e : expr)
| SIf (c : expr) (a b : stmt)
| SWhile (c : expr) (body : stmt)
| SFor (x : string) (it : expr) (body : stmt)
| SReturn (e : expr)
| SBreak
| SContinue
| SRaise (k : Z)
| SExpr (e : expr)
| SCall (dst : option string) (f : string) (args : list expr) (wb : list (option lval))
| SExtend (l : lval) (e : expr)            (* x.extend(e) *)
| SOracle (x : string) (bound : Z)        (* x = np.random.randint(bound): next recorded draw, from the variable "$draws" *)
| SShuffle (l : lval)                     (* np.random.shuffle(l): the list as the recorded shuffle left it ("$shuffles") *)
| SChoice (x : string) (e : expr)         (* x = np.random.choice(e): e[next recorded index] ("$choices"); ValueError if e is empty *)
| SSetPath (x : string) (path : list expr) (e : expr)
                                          (* x[i1]...[in] = e (n >= 1): e is evaluated first, then i1 ... in (Python's order) *)
| SSetAdd (x : string) (e : expr)         (* x.add(e) for a set x *)
| SSetAttr (x : string) (path : list expr) (cands : list (Z * nat)) (e : expr).
                                          (* x[i1]...[in].attr = e (n >= 0) for an object of a translated class: e first,
                                             then i1 ... in; (class, field index) per translated class as for EField *)

Record fundef := mkfun { fparams : list string; flocals : list string; fbody : stmt }.

Definition env := list (string * val).

Fixpoint lookup (x : string) (en : env) : option val :=
  match en with
  | [] => None
  | (y, v) :: r => if String.eqb x y then Some v else lookup x r
  end.

(* replace in place; a name that is not in the environment is not added (the translator
   declares every assigned name in [flocals]) *)
Fixpoint update (x : string) (v : val) (en : env) : env :=
  match en with
  | [] => []
  | (y, w) :: r => if String.eqb x y then (y, v) :: r else (y, w) :: update x v r
  end.

Definition read_var (x : string) (en : env) : res val :=
  match lookup x en with
  | None => Err E_Unsupported
  | Some VUnbound => Err 6
  | Some v => Ok v
  end.

Definition binop_sem (o : binop) (a b : val) : res val :=
  match as_num a, as_num b with
  | Some x, Some y =>
      match o with
      | Add => Ok (VInt (x + y))
      | Sub => Ok (VInt (x - y))
      | Mul => Ok (VInt (x * y))
      | FloorDiv => if y =? 0 then Err 13 else Ok (VInt (x / y))
      | Mod => if y =? 0 then Err 13 else Ok (VInt (x mod y))
      end
  | _, _ =>
      match o, a, b with
      | Add, VList x, VList y => Ok (VList (x ++ y))
      | Add, VTuple x, VTuple y => Ok (VTuple (x ++ y))
      | Mul, VList x, VInt n => Ok (VList (repeat_list x n))
      | Mul, VInt n, VList x => Ok (VList (repeat_list x n))
      | _, _, _ => Err E_Unsupported
      end
  end.

Definition cmp_sem (o : cmpop) (a b : val) : res val :=
  match o with
  | CEq => Ok (VBool (py_eq a b))
  | CNe => Ok (VBool (negb (py_eq a b)))
  | _ =>
    match as_num a, as_num b with
    | Some x, Some y =>
        Ok (VBool (match o with
                   | CLt => x <? y | CLe => x <=? y | CGt => y <? x | CGe => y <=? x
                   | _ => false end))
    | _, _ =>
        (* a float operand: exact comparison of the values; anything with NaN is False *)
        match as_flt a, as_flt b with
        | Some x, Some y =>
            Ok (VBool (match x, y with
                       | Some p, Some q =>
                           match o with
                           | CLt => negb (Qle_bool q p) | CLe => Qle_bool p q
                           | CGt => negb (Qle_bool p q) | CGe => Qle_bool q p
                           | _ => false end
                       | _, _ => false end))
        | _, _ => Err E_Unsupported
        end
    end
  end.

(* list indexing by a Z counter (reduces by [cbn] for literal indices and literal list
   prefixes); equal to Prelude.nthZ, see MiniPyFacts.nth_z_nthZ *)
Fixpoint nth_from {A} (l : list A) (i : Z) : option A :=
  match l with
  | [] => None
  | x :: r => if i =? 0 then Some x else nth_from r (i - 1)
  end.
Definition nth_z {A} (l : list A) (i : Z) : option A :=
  if i <? 0 then None else nth_from l i.

Definition as_seq (v : val) : option (list val) :=
  match v with VList l | VTuple l => Some l | _ => None end.

Definition index_sem (a i : val) : res val :=
  match a with
  | VDict d =>
      (fix go (d : list (val * val)) : res val :=
         match d with
         | [] => Err 3
         | (k, v) :: r => if py_eq k i then Ok v else go r
         end) d
  | VDDict d =>
      (fix go (d : list (val * val)) : res val :=
         match d with
         | [] => Ok (VList [])
         | (k, v) :: r => if py_eq k i then Ok v else go r
         end) d
  | VText _ => Err E_Unsupported      (* s[i] (a one-character string) is not modelled *)
  | VCounter d =>
      if hashable i then
        (fix go (d : list (val * val)) : res val :=
           match d with
           | [] => Ok (VInt 0)
           | (k, v) :: r => if py_eq k i then Ok v else go r
           end) d
      else Err E_Unsupported
  | VSet _ => Err 4
  | _ =>
    match as_seq a, i with
    | Some l, VInt z =>
        let n := lenZ l in
        let j := if z <? 0 then z + n else z in
        match nth_z l j with Some v => Ok v | None => Err 2 end
    | Some _, _ => Err E_Unsupported
    | None, _ => Err 4
    end
  end.

(* Python slice bounds: negative counts from the end, then clamped to [0, len] *)
Definition clampi (n : Z) (i : Z) : Z :=
  let j := if i <? 0 then i + n else i in
  if j <? 0 then 0 else if n <? j then n else j.

Definition slice_list {A} (l : list A) (lo hi : Z) : list A :=
  firstn (Z.to_nat (hi - lo)) (skipn (Z.to_nat lo) l).

Definition slice_sem (a : val) (lo hi : option val) : res val :=
  let bound (d : Z) (n : Z) (o : option val) : res Z :=
    match o with
    | None | Some VNone => Ok d
    | Some (VInt z) => Ok (clampi n z)
    | Some _ => Err E_Unsupported
    end in
  match a with
  | VList l =>
      bind (bound 0 (lenZ l) lo) (fun x => bind (bound (lenZ l) (lenZ l) hi) (fun y =>
        Ok (VList (slice_list l x y))))
  | VTuple l =>
      bind (bound 0 (lenZ l) lo) (fun x => bind (bound (lenZ l) (lenZ l) hi) (fun y =>
        Ok (VTuple (slice_list l x y))))
  | VText l =>
      bind (bound 0 (lenZ l) lo) (fun x => bind (bound (lenZ l) (lenZ l) hi) (fun y =>
        Ok (VText (slice_list l x y))))
  | _ => Err E_Unsupported
  end.

Fixpoint range_list (n : nat) (from : Z) : list val :=
  match n with O => [] | S n' => VInt from :: range_list n' (from + 1) end.

Definition set_index (a i v : val) : res val :=
  match a, i with
  | VList l, VInt z =>
      let n := lenZ l in
      let j := if z <? 0 then z + n else z in
      if (j <? 0) || (n <=? j) then Err 2
      else Ok (VList (firstn (Z.to_nat j) l ++ v :: skipn (S (Z.to_nat j)) l))
  | VList _, _ => Err E_Unsupported
  | VDDict d, _ =>
      Ok (VDDict ((fix go (d : list (val * val)) : list (val * val) :=
                     match d with
                     | [] => [(i, v)]
                     | (k, w) :: r => if py_eq k i then (k, v) :: r else (k, w) :: go r
                     end) d))
  | VDict d, _ =>
      Ok (VDict ((fix go (d : list (val * val)) : list (val * val) :=
                    match d with
                    | [] => [(i, v)]
                    | (k, w) :: r => if py_eq k i then (k, v) :: r else (k, w) :: go r
                    end) d))
  | VCounter d, _ =>
      if hashable i then
        Ok (VCounter ((fix go (d : list (val * val)) : list (val * val) :=
                         match d with
                         | [] => [(i, v)]
                         | (k, w) :: r => if py_eq k i then (k, v) :: r else (k, w) :: go r
                         end) d))
      else Err E_Unsupported
  | _, _ => Err 4
  end.

Definition in_range (lo hi : option Z) (v : val) : bool :=
  match as_num v with
  | None => match lo, hi with None, None => true | _, _ => false end
  | Some z => match lo with Some l => l <=? z | None => true end
              && match hi with Some h => z <=? h | None => true end
  end.

(* substring test on code points (Python's `x in s` for two strings) *)
Fixpoint text_prefix (p s : list Z) : bool :=
  match p, s with
  | [], _ => true
  | a :: p', b :: s' => (a =? b) && text_prefix p' s'
  | _ :: _, [] => false
  end.
Fixpoint text_sub (p s : list Z) : bool :=
  text_prefix p s || match s with [] => false | _ :: r => text_sub p r end.

Fixpoint enum_from (i : Z) (l : list val) : list val :=
  match l with [] => [] | v :: r => VTuple [VInt i; v] :: enum_from (i + 1) r end.

(* x[i1]...[in] = v on values: the containers along the path are rebuilt *)
Fixpoint set_path (a : val) (idx : list val) (v : val) : res val :=
  match idx with
  | [] => Err E_Unsupported
  | [i] => set_index a i v
  | i :: r => bind (index_sem a i) (fun sub => bind (set_path sub r v) (fun sub' => set_index a i sub'))
  end.

(* obj.attr = v on values: the object with that field replaced *)
Fixpoint set_nth_field (fs : list val) (n : nat) (v : val) : option (list val) :=
  match fs, n with
  | [], _ => None
  | _ :: r, O => Some (v :: r)
  | f :: r, S n' => option_map (cons f) (set_nth_field r n' v)
  end.
Definition set_field (a : val) (cands : list (Z * nat)) (v : val) : res val :=
  match a with
  | VObj c fs =>
      match find (fun p => fst p =? c) cands with
      | Some (_, idx) => match set_nth_field fs idx v with Some fs' => Ok (VObj c fs') | None => Err E_Unsupported end
      | None => Err E_Unsupported
      end
  | _ => Err E_Unsupported
  end.
(* x[i1]...[in].attr = v *)
Fixpoint set_attr_path (a : val) (idx : list val) (cands : list (Z * nat)) (v : val) : res val :=
  match idx with
  | [] => set_field a cands v
  | i :: r => bind (index_sem a i) (fun sub => bind (set_attr_path sub r cands v) (fun sub' => set_index a i sub'))
  end.

Definition ftable := string -> option (list val -> res (val * list val)).

Section Interp.
  Variable ft : ftable.

  (* str(v) / format(v, ""): a string is itself, an int its decimal string, anything else is the untranslated "$str" *)
  Definition str_of (v : val) : res (list Z) :=
    match v with
    | VText s => Ok s
    | VInt z => Ok (dec_text z)
    | _ =>
      match ft "$str"%string with
      | Some g => match g [v] with
                  | Ok (VText s, _) => Ok s
                  | Ok _ => Err E_Unsupported
                  | Err k => Err k
                  end
      | None => Err E_Unsupported
      end
    end.

  Section Lists.
    Variable ev : expr -> res val.
    Fixpoint eval_list (l : list expr) : res (list val) :=
      match l with
      | [] => Ok []
      | x :: r => bind (ev x) (fun v => bind (eval_list r) (fun vs => Ok (v :: vs)))
      end.
    (* a dict literal: each key then its value, left to right; a repeated key keeps its first position *)
    Fixpoint eval_pairs (l : list (expr * expr)) (d : val) : res val :=
      match l with
      | [] => Ok d
      | (k, x) :: r => bind (ev k) (fun kv => bind (ev x) (fun xv => bind (set_index d kv xv) (eval_pairs r)))
      end.
    (* an f-string: every part is evaluated and formatted before the next one is evaluated *)
    Fixpoint eval_fmt (l : list expr) : res (list Z) :=
      match l with
      | [] => Ok []
      | x :: r => bind (ev x) (fun v => bind (str_of v) (fun s => bind (eval_fmt r) (fun t => Ok (s ++ t))))
      end.
  End Lists.

  Definition eval_opt (ev : expr -> res val) (o : option expr) : res (option val) :=
    match o with None => Ok None | Some e => bind (ev e) (fun v => Ok (Some v)) end.

  Fixpoint eval (e : expr) (en : env) {struct e} : res val :=
    match e with
    | EInt z => Ok (VInt z)
    | EBool b => Ok (VBool b)
    | ENone => Ok VNone
    | EStr s => Ok (VStr s)
    | EVar x => read_var x en
    | EBin o a b => bind (eval a en) (fun x => bind (eval b en) (fun y => binop_sem o x y))
    | ECmp o a b => bind (eval a en) (fun x => bind (eval b en) (fun y => cmp_sem o x y))
    | EAnd a b =>
        bind (eval a en) (fun x =>
          match truthy x with
          | None => Err E_Unsupported
          | Some false => Ok x
          | Some true => eval b en
          end)
    | EOr a b =>
        bind (eval a en) (fun x =>
          match truthy x with
          | None => Err E_Unsupported
          | Some true => Ok x
          | Some false => eval b en
          end)
    | ENot a =>
        bind (eval a en) (fun x =>
          match truthy x with None => Err E_Unsupported | Some t => Ok (VBool (negb t)) end)
    | ENeg a =>
        bind (eval a en) (fun x =>
          match as_num x with None => Err E_Unsupported | Some z => Ok (VInt (- z)) end)
    | EIndex a i => bind (eval a en) (fun x => bind (eval i en) (fun y => index_sem x y))
    | ESlice a lo hi =>
        bind (eval a en) (fun x =>
          bind (eval_opt (fun e' => eval e' en) lo) (fun l =>
            bind (eval_opt (fun e' => eval e' en) hi) (fun h => slice_sem x l h)))
    | ETuple l => bind (eval_list (fun e' => eval e' en) l) (fun vs => Ok (VTuple vs))
    | EList l => bind (eval_list (fun e' => eval e' en) l) (fun vs => Ok (VList vs))
    | ELen a =>
        bind (eval a en) (fun x =>
          match x with
          | VList l | VTuple l => Ok (VInt (lenZ l))
          | VDict d => Ok (VInt (lenZ d))
          | VText s => Ok (VInt (lenZ s))
          | VSet s => Ok (VInt (lenZ s))
          | VCounter d => Ok (VInt (lenZ d))
          | _ => Err 4
          end)
    | ERange a =>
        bind (eval a en) (fun x =>
          match x with
          | VInt n => Ok (VList (range_list (Z.to_nat n) 0))
          | _ => Err E_Unsupported
          end)
    | EField a cands =>
        bind (eval a en) (fun x =>
          match x with
          | VObj c fs =>
              match find (fun p => fst p =? c) cands with
              | Some (_, idx) => match nth_error fs idx with Some v => Ok v | None => Err 5 end
              | None => Err 5
              end
          | _ => Err 5
          end)
    | ENew cls args => bind (eval_list (fun e' => eval e' en) args) (fun vs => Ok (VObj cls vs))
    | ECall f args =>
        bind (eval_list (fun e' => eval e' en) args) (fun vs =>
          match ft f with
          | None => Err E_Unsupported
          | Some g => bind (g vs) (fun r => Ok (fst r))
          end)
    | EToInt a =>
        bind (eval a en) (fun x =>
          match x with
          | VInt z | VNumStr z => Ok (VInt z)
          | VBool b => Ok (VInt (if b then 1 else 0))
          | VStr _ => Err 1
          | _ => Err 4
          end)
    | EAsArray lo hi a =>
        bind (eval a en) (fun x =>
          match as_seq x with
          | Some l => if forallb (in_range lo hi) l then Ok (VList l) else Err E_Unsupported
          | None => Err E_Unsupported
          end)
    | EFloat q => Ok (VQ q)
    | EAbs a =>
        bind (eval a en) (fun x =>
          match x with
          | VQ q => Ok (VQ (Qabs q))
          | VNaN => Ok VNaN
          | _ => match as_num x with Some z => Ok (VInt (Z.abs z)) | None => Err 4 end
          end)
    | EIn neg x l =>
        bind (eval x en) (fun xv => bind (eval l en) (fun lv =>
          match as_seq lv with
          | None =>
              match lv, xv with
              | VText s, VText p => Ok (VBool (xorb neg (text_sub p s)))
              | VText _, _ => Err 4
              | VSet vs, _ =>
                  if hashable xv then Ok (VBool (xorb neg (existsb (fun y => py_eq y xv) vs))) else Err E_Unsupported
              | VDict d, _ =>
                  if hashable xv then Ok (VBool (xorb neg (existsb (fun p => py_eq (fst p) xv) d))) else Err E_Unsupported
              | _, _ => Err E_Unsupported
              end
          | Some vs => Ok (VBool (xorb neg (existsb (fun y => py_eq y xv) vs)))
          end))
    | EIndexOf a x =>
        bind (eval a en) (fun av => bind (eval x en) (fun xv =>
          match as_seq av with
          | None => Err 5
          | Some l =>
              (fix go (l : list val) (i : Z) : res val :=
                 match l with
                 | [] => Err 1
                 | y :: r => if py_eq y xv then Ok (VInt i) else go r (i + 1)
                 end) l 0
          end))
    | EText s => Ok (VText s)
    | EDict l => eval_pairs (fun e' => eval e' en) l (VDict [])
    | EEnumerate a =>
        bind (eval a en) (fun x =>
          match as_seq x with
          | Some l => Ok (VList (enum_from 0 l))
          | None => Err E_Unsupported
          end)
    | ECopy a =>
        bind (eval a en) (fun x =>
          match x with
          | VList _ | VDict _ | VDDict _ => Ok x
          | _ => Err E_Unsupported
          end)
    | ECounter => Ok (VCounter [])
    | ESet => Ok (VSet [])
    | EFmt l => bind (eval_fmt (fun e' => eval e' en) l) (fun s => Ok (VText s))
    | ESetOf a =>
        bind (eval a en) (fun x =>
          match x with
          | VSet l => Ok (VSet l)
          | _ =>
            match as_seq x with
            | Some l => if forallb hashable l then Ok (VSet (set_of l)) else Err E_Unsupported
            | None => Err E_Unsupported
            end
          end)
    | ETupleOf a =>
        bind (eval a en) (fun x =>
          match as_seq x with
          | Some l => Ok (VTuple l)
          | None => Err E_Unsupported
          end)
    | EDictZip a b =>
        bind (eval a en) (fun x => bind (eval b en) (fun y =>
          match as_seq x, as_seq y with
          | Some ks, Some vs => if forallb hashable ks then Ok (VDict (dict_zip ks vs [])) else Err E_Unsupported
          | _, _ => Err E_Unsupported
          end))
    | ECountItems a =>
        bind (eval a en) (fun x =>
          match as_seq x with
          | Some l => if forallb hashable l then Ok (VList (count_items l)) else Err E_Unsupported
          | None => Err E_Unsupported
          end)
    end.

  Inductive outcome :=
  | ONorm (en : env)
  | OBrk (en : env)
  | OCont (en : env)
  | ORet (v : val) (en : env)
  | OErr (k : Z).

  (* x.append(v) / x[i].append(v) *)
  Definition append_to (l : lval) (v : val) (en : env) : res env :=
    match l with
    | LVar x =>
        bind (read_var x en) (fun a =>
          match a with
          | VList xs => Ok (update x (VList (xs ++ [v])) en)
          | _ => Err 5
          end)
    | LIdx x i =>
        bind (read_var x en) (fun a => bind (eval i en) (fun iv => bind (index_sem a iv) (fun b =>
          match b with
          | VList xs => bind (set_index a iv (VList (xs ++ [v]))) (fun a' => Ok (update x a' en))
          | _ => Err 5
          end)))
    end.

  (* x.extend(ys) *)
  Definition extend_to (l : lval) (ys : list val) (en : env) : res env :=
    match l with
    | LVar x =>
        bind (read_var x en) (fun a =>
          match a with
          | VList xs => Ok (update x (VList (xs ++ ys)) en)
          | _ => Err 5
          end)
    | LIdx x i =>
        bind (read_var x en) (fun a => bind (eval i en) (fun iv => bind (index_sem a iv) (fun b =>
          match b with
          | VList xs => bind (set_index a iv (VList (xs ++ ys))) (fun a' => Ok (update x a' en))
          | _ => Err 5
          end)))
    end.

  (* write the final value of a mutated parameter back into the caller's l-value; the
     index expression is evaluated in the caller's environment before the call *)
  Definition write_back (l : option lval) (v : val) (en0 en : env) : res env :=
    match l with
    | None => Ok en
    | Some (LVar x) => Ok (update x v en)
    | Some (LIdx x i) =>
        bind (read_var x en) (fun a => bind (eval i en0) (fun iv =>
          bind (set_index a iv v) (fun a' => Ok (update x a' en))))
    end.

  Fixpoint write_backs (ls : list (option lval)) (vs : list val) (en0 en : env) : res env :=
    match ls, vs with
    | l :: lr, v :: vr => bind (write_back l v en0 en) (fun en' => write_backs lr vr en0 en')
    | _, _ => Ok en
    end.

  Section Loops.
    Variable body : env -> outcome.

    Fixpoint for_loop (x : string) (l : list val) (en : env) : outcome :=
      match l with
      | [] => ONorm en
      | v :: r =>
          match body (update x v en) with
          | ONorm en' | OCont en' => for_loop x r en'
          | OBrk en' => ONorm en'
          | o => o
          end
      end.

    Variable cond : env -> res val.

    Fixpoint while_loop (n : nat) (en : env) : outcome :=
      match n with
      | O => OErr E_Fuel
      | S n' =>
          match cond en with
          | Err k => OErr k
          | Ok v =>
              match truthy v with
              | None => OErr E_Unsupported
              | Some false => ONorm en
              | Some true =>
                  match body en with
                  | ONorm en' | OCont en' => while_loop n' en'
                  | OBrk en' => ONorm en'
                  | o => o
                  end
              end
          end
      end.
  End Loops.

  Fixpoint exec (s : stmt) (fuel : nat) (en : env) {struct s} : outcome :=
    match s with
    | SSkip => ONorm en
    | SSeq a b => match exec a fuel en with ONorm en' => exec b fuel en' | o => o end
    | SAssign x e =>
        match eval e en with Ok v => ONorm (update x v en) | Err k => OErr k end
    | SSetIdx x i e =>
        match bind (read_var x en) (fun a => bind (eval i en) (fun iv => bind (eval e en) (fun v =>
                bind (set_index a iv v) (fun a' => Ok (update x a' en))))) with
        | Ok en' => ONorm en'
        | Err k => OErr k
        end
    | SAppend l e =>
        match bind (eval e en) (fun v => append_to l v en) with
        | Ok en' => ONorm en'
        | Err k => OErr k
        end
    | SIf c a b =>
        match eval c en with
        | Err k => OErr k
        | Ok v =>
            match truthy v with
            | None => OErr E_Unsupported
            | Some true => exec a fuel en
            | Some false => exec b fuel en
            end
        end
    | SWhile c body => while_loop (exec body fuel) (eval c) fuel en
    | SFor x it body =>
        match eval it en with
        | Err k => OErr k
        | Ok v =>
            match as_seq v with
            | None => OErr 4
            | Some l => for_loop (exec body fuel) x l en
            end
        end
    | SReturn e => match eval e en with Ok v => ORet v en | Err k => OErr k end
    | SBreak => OBrk en
    | SContinue => OCont en
    | SRaise k => OErr k
    | SExpr e => match eval e en with Ok _ => ONorm en | Err k => OErr k end
    | SCall dst f args wb =>
        match eval_list (fun e' => eval e' en) args with
        | Err k => OErr k
        | Ok vs =>
            match ft f with
            | None => OErr E_Unsupported
            | Some g =>
                match g vs with
                | Err k => OErr k
                | Ok (r, finals) =>
                    match write_backs wb finals en en with
                    | Err k => OErr k
                    | Ok en1 => ONorm (match dst with Some x => update x r en1 | None => en1 end)
                    end
                end
            end
        end
    | SExtend l e =>
        match bind (eval e en) (fun v =>
                match as_seq v with None => Err 4 | Some ys => extend_to l ys en end) with
        | Ok en' => ONorm en'
        | Err k => OErr k
        end
    | SOracle x bound =>
        match read_var "$draws"%string en with
        | Err k => OErr k
        | Ok (VList []) => OErr E_Fuel            (* the recorded draw stream is exhausted *)
        | Ok (VList (VInt d :: r)) =>
            if (0 <=? d) && (d <? bound) then ONorm (update x (VInt d) (update "$draws"%string (VList r) en))
            else OErr E_Unsupported              (* a draw outside numpy's contract *)
        | Ok _ => OErr E_Unsupported
        end
    | SShuffle l =>
        (* the list to shuffle; an empty list is left alone and consumes no recorded shuffle *)
        match (match l with
               | LVar x => read_var x en
               | LIdx x i => bind (read_var x en) (fun a => bind (eval i en) (fun iv => index_sem a iv))
               end) with
        | Err k => OErr k
        | Ok (VList []) => ONorm en
        | Ok (VList _) =>
            match read_var "$shuffles"%string en with
            | Err k => OErr k
            | Ok (VList []) => OErr E_Fuel
            | Ok (VList (VList perm :: r)) =>
                let en1 := update "$shuffles"%string (VList r) en in
                match (match l with
                       | LVar x => Ok (update x (VList perm) en1)
                       | LIdx x i =>
                           bind (read_var x en1) (fun a => bind (eval i en) (fun iv =>
                             bind (set_index a iv (VList perm)) (fun a' => Ok (update x a' en1))))
                       end) with
                | Ok en' => ONorm en'
                | Err k => OErr k
                end
            | Ok _ => OErr E_Unsupported
            end
        | Ok _ => OErr 4
        end
    | SChoice x e =>
        match eval e en with
        | Err k => OErr k
        | Ok v =>
            match as_seq v with
            | None => OErr E_Unsupported
            | Some [] => OErr 1
            | Some l =>
                match read_var "$choices"%string en with
                | Err k => OErr k
                | Ok (VList []) => OErr E_Fuel
                | Ok (VList (VInt i :: r)) =>
                    match nth_z l i with
                    | Some c => ONorm (update x c (update "$choices"%string (VList r) en))
                    | None => OErr E_Fuel
                    end
                | Ok _ => OErr E_Unsupported
                end
            end
        end
    | SSetPath x path e =>
        match bind (eval e en) (fun v => bind (read_var x en) (fun a =>
                bind (eval_list (fun e' => eval e' en) path) (fun idx =>
                  bind (set_path a idx v) (fun a' => Ok (update x a' en))))) with
        | Ok en' => ONorm en'
        | Err k => OErr k
        end
    | SSetAdd x e =>
        match bind (read_var x en) (fun a => bind (eval e en) (fun v =>
                match a with
                | VSet l => if hashable v then Ok (update x (VSet (set_add l v)) en) else Err E_Unsupported
                | _ => Err E_Unsupported
                end)) with
        | Ok en' => ONorm en'
        | Err k => OErr k
        end
    | SSetAttr x path cands e =>
        match bind (eval e en) (fun v => bind (read_var x en) (fun a =>
                bind (eval_list (fun e' => eval e' en) path) (fun idx =>
                  bind (set_attr_path a idx cands v) (fun a' => Ok (update x a' en))))) with
        | Ok en' => ONorm en'
        | Err k => OErr k
        end
    end.

  Fixpoint bind_params (ps : list string) (vs : list val) : option env :=
    match ps, vs with
    | [], [] => Some []
    | p :: pr, v :: vr =>
        match bind_params pr vr with Some en => Some ((p, v) :: en) | None => None end
    | _, _ => None
    end.

  Definition final_params (ps : list string) (en : env) : list val :=
    map (fun p => match lookup p en with Some v => v | None => VUnbound end) ps.

  (* the denotation of a translated function: result and the final values of its
     parameters (what the caller observes of in-place mutation) *)
  Definition run_fun (fd : fundef) (fuel : nat) (args : list val) : res (val * list val) :=
    match bind_params (fparams fd) args with
    | None => Err 4
    | Some en0 =>
        let en := en0 ++ map (fun x => (x, VUnbound)) (flocals fd) in
        match exec (fbody fd) fuel en with
        | ONorm en' => Ok (VNone, final_params (fparams fd) en')
        | ORet v en' => Ok (v, final_params (fparams fd) en')
        | OErr k => Err k
        | OBrk _ | OCont _ => Err E_Unsupported
        end
    end.
End Interp.

Definition ft_empty : ftable := fun _ => None.

(* int / int: Python's true division returns the float nearest to the quotient.  The rounding
   [fdiv x y] (the exact value of that float) is a parameter of the generated module; with
   fdiv x y := x # y nothing is rounded.  ZeroDivisionError = 13. *)
Definition truediv_fn (fdiv : Z -> Z -> Q) (args : list val) : res (val * list val) :=
  match args with
  | [a; b] =>
      match as_num a, as_num b with
      | Some x, Some y => if y =? 0 then Err 13 else Ok (VQ (fdiv x y), args)
      | _, _ => Err E_Unsupported
      end
  | _ => Err 4
  end.

(* a function of the repository that is not translated: an arbitrary function of its arguments
   that mutates none of them *)
Definition ext_fn (g : list val -> res val) (args : list val) : res (val * list val) :=
  bind (g args) (fun r => Ok (r, args)).
Definition ft_add (name : string) (g : list val -> res (val * list val)) (ft : ftable) : ftable :=
  fun f => if String.eqb f name then Some g else ft f.

Definition rv_eqb (a b : res (val * list val)) : bool :=
  res_eqb (fun x y => val_eqb (fst x) (fst y) && vlist_eqb val_eqb (snd x) (snd y)) a b.
