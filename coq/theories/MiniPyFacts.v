(* Facts about the MiniPy interpreter used by the translation-validation proofs
   (coq/translated/*.v). *)
From HV Require Import Prelude MiniPy.
From Coq Require Import String.
Open Scope Z_scope.

Lemma nth_from_nth_error {A} (l : list A) : forall i, 0 <= i ->
  nth_from l i = nth_error l (Z.to_nat i).
Proof.
  induction l as [|x r IH]; intros i Hi.
  - cbn. destruct (Z.to_nat i); reflexivity.
  - cbn [nth_from]. destruct (i =? 0) eqn:E.
    + apply Z.eqb_eq in E. subst. reflexivity.
    + apply Z.eqb_neq in E. rewrite IH by lia.
      replace (Z.to_nat i) with (S (Z.to_nat (i - 1))) by lia. reflexivity.
Qed.

Lemma nth_z_nthZ {A} (l : list A) i : nth_z l i = nthZ l i.
Proof.
  unfold nth_z, nthZ. destruct (i <? 0) eqn:E; [reflexivity|].
  apply Z.ltb_ge in E. apply nth_from_nth_error. exact E.
Qed.

Lemma nthZ_map {A B} (f : A -> B) (l : list A) i :
  nthZ (map f l) i = option_map f (nthZ l i).
Proof.
  unfold nthZ. destruct (i <? 0); [reflexivity|].
  generalize (Z.to_nat i). induction l as [|x r IH]; intros [|n]; cbn; auto.
Qed.

Lemma nthZ_some_range {A} (l : list A) i x : nthZ l i = Some x -> 0 <= i < lenZ l.
Proof.
  unfold nthZ, lenZ. destruct (i <? 0) eqn:E; [discriminate|]. intro H.
  apply Z.ltb_ge in E.
  assert (Hn : (Z.to_nat i < List.length l)%nat) by (apply nth_error_Some; congruence). lia.
Qed.

Lemma nthZ_none_range {A} (l : list A) i : nthZ l i = None -> i < 0 \/ lenZ l <= i.
Proof.
  unfold nthZ, lenZ. destruct (i <? 0) eqn:E; [intros _; left; apply Z.ltb_lt; exact E|].
  intro H. right. apply nth_error_None in H. apply Z.ltb_ge in E. lia.
Qed.

Lemma lenZ_map {A B} (f : A -> B) (l : list A) : lenZ (map f l) = lenZ l.
Proof. unfold lenZ. rewrite map_length. reflexivity. Qed.

(* indexing a list value with a non-negative index *)
Lemma index_list_nonneg (l : list val) i : 0 <= i ->
  index_sem (VList l) (VInt i) = match nthZ l i with Some v => Ok v | None => Err 2 end.
Proof.
  intro Hi. unfold index_sem. cbn [as_seq].
  assert (E : (i <? 0) = false) by (apply Z.ltb_ge; exact Hi).
  rewrite E. rewrite nth_z_nthZ. reflexivity.
Qed.

Lemma firstn_skipn_set {A} (l : list A) : forall (n : nat) (x : A), (n < List.length l)%nat ->
  firstn n l ++ x :: skipn (S n) l =
  (fix set_nth (l : list A) (n : nat) (x : A) : list A :=
     match l, n with
     | [], _ => []
     | _ :: r, O => x :: r
     | y :: r, S n' => y :: set_nth r n' x
     end) l n x.
Proof.
  induction l as [|y r IH]; intros n x Hn; cbn in Hn; [lia|].
  destruct n as [|n]; [reflexivity|].
  cbn [firstn skipn app]. f_equal. apply IH. lia.
Qed.

Lemma set_index_list (l : list val) i v : 0 <= i < lenZ l ->
  set_index (VList l) (VInt i) v =
  Ok (VList (firstn (Z.to_nat i) l ++ v :: skipn (S (Z.to_nat i)) l)).
Proof.
  intros [H0 H1]. unfold set_index.
  assert (E1 : (i <? 0) = false) by (apply Z.ltb_ge; exact H0).
  rewrite E1.
  assert (E2 : (lenZ l <=? i) = false) by (apply Z.leb_gt; exact H1).
  rewrite E1, E2. reflexivity.
Qed.

(* an identity dictionary over a set of integer keys *)
Notation iddict dom := (VDict (map (fun i => (VInt i, VInt i)) dom)).

Lemma index_iddict (dom : list Z) s :
  index_sem (iddict dom) (VInt s) = if existsb (Z.eqb s) dom then Ok (VInt s) else Err 3.
Proof.
  unfold index_sem. induction dom as [|d r IH]; [reflexivity|].
  cbn [map existsb]. cbn [py_eq as_num].
  rewrite Z.eqb_sym. destruct (s =? d) eqn:E; cbn [orb].
  - apply Z.eqb_eq in E. subst. reflexivity.
  - exact IH.
Qed.

Lemma range_list_2 : range_list 2 0 = [VInt 0; VInt 1].
Proof. reflexivity. Qed.

Lemma index_list_map {A} (f : A -> val) (l : list A) i : 0 <= i ->
  index_sem (VList (map f l)) (VInt i) =
  match nthZ l i with Some x => Ok (f x) | None => Err 2 end.
Proof.
  intro Hi. rewrite index_list_nonneg by exact Hi. rewrite nthZ_map.
  destruct (nthZ l i); reflexivity.
Qed.

(* run_fun of a body [a ; rest] in terms of the outcome of [a] *)
Section Finish.
  Variable ft : ftable.
  Definition conclude (ps : list string) (o : outcome) : res (val * list val) :=
    match o with
    | ONorm en' => Ok (VNone, final_params ps en')
    | ORet v en' => Ok (v, final_params ps en')
    | OErr k => Err k
    | OBrk _ | OCont _ => Err E_Unsupported
    end.
  Definition finish (ps : list string) (rest : stmt) (fuel : nat) (o : outcome) : res (val * list val) :=
    match o with
    | ONorm en => conclude ps (exec ft rest fuel en)
    | o' => conclude ps o'
    end.
  Lemma run_fun_seq ps ls a rest fuel args en0 :
    bind_params ps args = Some en0 ->
    run_fun ft (mkfun ps ls (SSeq a rest)) fuel args =
    finish ps rest fuel (exec ft a fuel (en0 ++ map (fun x => (x, VUnbound)) ls)).
  Proof.
    intro H. unfold run_fun. cbn [fparams flocals fbody]. rewrite H. cbn [exec].
    destruct (exec ft a fuel _); reflexivity.
  Qed.
End Finish.

Definition res_map {A B} (f : A -> B) (r : res A) : res B :=
  match r with Ok a => Ok (f a) | Err k => Err k end.

Lemma exec_seq ft a b fuel en :
  exec ft (SSeq a b) fuel en = match exec ft a fuel en with ONorm en' => exec ft b fuel en' | o => o end.
Proof. reflexivity. Qed.
