(* Pearson correlation of integer dosages, exactly: sums over Z, the result a
   sign and a squared correlation in Q.  Shared by C16 (haptools ld) and C17
   (clump).  A sample is a pair (x, y) of dosages; [None] is NaN. *)
From HV Require Import Prelude.
From Coq Require Import QArith.
Open Scope Z_scope.

Definition sumZ (l : list Z) : Z := fold_right Z.add 0 l.

Section Dot.
  Context {A : Type}.
  Definition dot (f g : A -> Z) (l : list A) : Z := sumZ (map (fun p => f p * g p) l).
  Definition sumf (f : A -> Z) (l : list A) : Z := sumZ (map f l).

  Lemma lenZ_cons (a : A) l : lenZ (a :: l) = lenZ l + 1.
  Proof. unfold lenZ. cbn [length]. lia. Qed.

  Lemma lenZ_nonneg (l : list A) : 0 <= lenZ l.
  Proof. unfold lenZ. lia. Qed.

  Lemma dot_cons f g a l : dot f g (a :: l) = f a * g a + dot f g l.
  Proof. reflexivity. Qed.

  Lemma sumf_cons f a l : sumf f (a :: l) = f a + sumf f l.
  Proof. reflexivity. Qed.

  Lemma dot_sym f g l : dot f g l = dot g f l.
  Proof. induction l as [|a l IH]; [reflexivity|]. rewrite !dot_cons, IH. ring. Qed.

  Lemma dot_self_nonneg f l : 0 <= dot f f l.
  Proof.
    induction l as [|a l IH]; [cbn; lia|]. rewrite dot_cons.
    pose proof (Z.square_nonneg (f a)). lia.
  Qed.

  Lemma dot_self_zero f l : dot f f l = 0 -> forall a, In a l -> f a = 0.
  Proof.
    induction l as [|b l IH]; intros H a Ha; [contradiction|].
    rewrite dot_cons in H. pose proof (Z.square_nonneg (f b)) as Hb.
    pose proof (dot_self_nonneg f l) as Hl.
    destruct Ha as [->|Ha].
    - assert (f a * f a = 0) as E by lia. apply Z.mul_eq_0 in E. lia.
    - apply IH; [lia|exact Ha].
  Qed.

  Lemma dot_zero_l f g l : (forall a, In a l -> f a = 0) -> dot f g l = 0.
  Proof.
    induction l as [|b l IH]; intro H; [reflexivity|].
    rewrite dot_cons, IH, (H b); [lia|left; reflexivity|].
    intros a Ha. apply H. right. exact Ha.
  Qed.

  (* affine change of both arguments *)
  Lemma dot_affine f g (a b c : Z) l :
    dot (fun p => a * f p - b) (fun p => a * g p - c) l
    = a * a * dot f g l - a * c * sumf f l - a * b * sumf g l + lenZ l * b * c.
  Proof.
    induction l as [|x l IH]; [cbn; ring|].
    rewrite !dot_cons, !sumf_cons, lenZ_cons, IH. ring.
  Qed.

  Lemma dot_comb f g (u v : Z) l :
    dot (fun p => u * g p - v * f p) (fun p => u * g p - v * f p) l
    = u * u * dot g g l - 2 * u * v * dot f g l + v * v * dot f f l.
  Proof.
    induction l as [|x l IH]; [cbn; ring|].
    rewrite !dot_cons, IH. ring.
  Qed.

  (* Cauchy-Schwarz over Z *)
  Lemma cauchy_schwarz f g l : dot f g l * dot f g l <= dot f f l * dot g g l.
  Proof.
    pose proof (dot_self_nonneg (fun p => dot f f l * g p - dot f g l * f p) l) as H.
    rewrite dot_comb in H.
    pose proof (dot_self_nonneg f l) as Hf.
    destruct (Z.eq_dec (dot f f l) 0) as [E|NE].
    - rewrite (dot_zero_l f g l (dot_self_zero f l E)), E. lia.
    - set (u := dot f f l) in *. set (v := dot f g l) in *. set (w := dot g g l) in *.
      assert (0 <= u * (u * w - v * v)) as H' by (replace (u * (u * w - v * v)) with
        (u * u * w - 2 * u * v * v + v * v * u) by ring; exact H).
      assert (0 < u) as Hu by lia.
      assert (0 <= u * w - v * v) as H2.
      { destruct (Z_lt_le_dec (u * w - v * v) 0) as [L|L]; [|exact L].
        exfalso. pose proof (Z.mul_pos_neg u (u * w - v * v) Hu L). lia. }
      lia.
  Qed.
End Dot.

(* ---- the statistic ------------------------------------------------------- *)

Definition smp := (Z * Z)%type.
Definition fx (p : smp) : Z := fst p.
Definition fy (p : smp) : Z := snd p.

Definition nZ (l : list smp) : Z := lenZ l.
Definition covn (l : list smp) : Z := nZ l * dot fx fy l - sumf fx l * sumf fy l.
Definition varn (f : smp -> Z) (l : list smp) : Z := nZ l * dot f f l - sumf f l * sumf f l.

(* sign of the covariance and r^2; None = NaN (a variance is 0) *)
Definition pearson (l : list smp) : option (Z * Q) :=
  if (varn fx l =? 0) || (varn fy l =? 0) then None
  else Some (Z.sgn (covn l), Qmake (covn l * covn l) (Z.to_pos (varn fx l * varn fy l))).

Definition pearson_r2 (l : list smp) : option Q := option_map snd (pearson l).

Definition swap (p : smp) : smp := (snd p, fst p).

Definition constant_on (f : smp -> Z) (l : list smp) : Prop :=
  forall a b, In a l -> In b l -> f a = f b.

(* boolean version used by checkers *)
Definition constantb (f : smp -> Z) (l : list smp) : bool :=
  match l with
  | [] => true
  | a :: r => forallb (fun b => f b =? f a) r
  end.

(* ---- lemmas --------------------------------------------------------------- *)

Lemma dot_map_swap f g l : dot f g (map swap l) = dot (fun p => f (swap p)) (fun p => g (swap p)) l.
Proof. unfold dot. rewrite map_map. reflexivity. Qed.

Lemma sumf_map_swap f l : sumf f (map swap l) = sumf (fun p => f (swap p)) l.
Proof. unfold sumf. rewrite map_map. reflexivity. Qed.

Lemma nZ_map_swap l : nZ (map swap l) = nZ l.
Proof. unfold nZ, lenZ. rewrite map_length. reflexivity. Qed.

Lemma varn_swap_x l : varn fx (map swap l) = varn fy l.
Proof. unfold varn. rewrite nZ_map_swap, dot_map_swap, sumf_map_swap. reflexivity. Qed.

Lemma varn_swap_y l : varn fy (map swap l) = varn fx l.
Proof. unfold varn. rewrite nZ_map_swap, dot_map_swap, sumf_map_swap. reflexivity. Qed.

Lemma covn_swap l : covn (map swap l) = covn l.
Proof.
  unfold covn. rewrite nZ_map_swap, dot_map_swap, !sumf_map_swap.
  change (fun p => fx (swap p)) with fy. change (fun p => fy (swap p)) with fx.
  rewrite (dot_sym fy fx). ring.
Qed.

Lemma pearson_swap l : pearson (map swap l) = pearson l.
Proof.
  unfold pearson. rewrite varn_swap_x, varn_swap_y, covn_swap.
  rewrite (orb_comm (varn fy l =? 0)), (Z.mul_comm (varn fy l)). reflexivity.
Qed.

(* centred sums *)
Lemma centred_dot f g l :
  dot (fun p => nZ l * f p - sumf f l) (fun p => nZ l * g p - sumf g l) l
  = nZ l * (nZ l * dot f g l - sumf f l * sumf g l).
Proof. rewrite dot_affine. unfold nZ. ring. Qed.

Lemma varn_centred f l :
  dot (fun p => nZ l * f p - sumf f l) (fun p => nZ l * f p - sumf f l) l = nZ l * varn f l.
Proof. apply centred_dot. Qed.

Lemma nZ_pos_of_In (a : smp) l : In a l -> 0 < nZ l.
Proof. destruct l; [contradiction|]. intros _. unfold nZ. rewrite lenZ_cons. pose proof (lenZ_nonneg l). lia. Qed.

Lemma varn_nonneg f l : 0 <= varn f l.
Proof.
  destruct l as [|a l]; [cbn; lia|].
  pose proof (dot_self_nonneg (fun p => nZ (a :: l) * f p - sumf f (a :: l)) (a :: l)) as H.
  rewrite varn_centred in H.
  assert (0 < nZ (a :: l)) as Hn by (apply (nZ_pos_of_In a); left; reflexivity).
  destruct (Z_lt_le_dec (varn f (a :: l)) 0) as [L|L]; [|exact L].
  pose proof (Z.mul_pos_neg _ _ Hn L). lia.
Qed.

Lemma sums_of_constant f l c :
  (forall a, In a l -> f a = c) -> sumf f l = nZ l * c /\ dot f f l = nZ l * (c * c).
Proof.
  induction l as [|b l IH]; intro H; [cbn; split; ring|].
  destruct IH as [I1 I2]; [intros a Ha; apply H; right; exact Ha|].
  rewrite sumf_cons, dot_cons, I1, I2, (H b) by (left; reflexivity).
  unfold nZ. rewrite lenZ_cons. split; ring.
Qed.

Lemma varn_zero_iff_constant f l : varn f l = 0 <-> constant_on f l.
Proof.
  split.
  - intros H a b Ha Hb.
    assert (dot (fun p => nZ l * f p - sumf f l) (fun p => nZ l * f p - sumf f l) l = 0) as E
      by (rewrite varn_centred, H; ring).
    pose proof (dot_self_zero _ _ E a Ha) as E1. pose proof (dot_self_zero _ _ E b Hb) as E2.
    cbn beta in E1, E2. pose proof (nZ_pos_of_In a l Ha) as Hn.
    assert (nZ l * f a = nZ l * f b) as E3 by lia.
    apply Z.mul_reg_l in E3; [exact E3|lia].
  - intro H. destruct l as [|a l]; [reflexivity|].
    destruct (sums_of_constant f (a :: l) (f a)) as [S1 S2].
    { intros b Hb. apply H; [exact Hb|left; reflexivity]. }
    unfold varn. rewrite S1, S2. ring.
Qed.

Lemma constantb_spec f l : constantb f l = true <-> constant_on f l.
Proof.
  destruct l as [|a r]; cbn [constantb].
  - split; [intros _ x y []|reflexivity].
  - rewrite forallb_forall. split.
    + intros H x y Hx Hy.
      assert (forall z, In z (a :: r) -> f z = f a) as K.
      { intros z [->|Hz]; [reflexivity|]. apply Z.eqb_eq, H, Hz. }
      rewrite (K x Hx), (K y Hy). reflexivity.
    + intros H b Hb. apply Z.eqb_eq. apply H; [right; exact Hb|left; reflexivity].
Qed.

Lemma pearson_none_iff l :
  pearson l = None <-> constant_on fx l \/ constant_on fy l.
Proof.
  unfold pearson. rewrite <- !varn_zero_iff_constant.
  destruct (Z.eqb_spec (varn fx l) 0) as [E1|E1]; destruct (Z.eqb_spec (varn fy l) 0) as [E2|E2];
    cbn [orb]; split; intro H; try reflexivity; try discriminate; try tauto.
Qed.

Lemma covn_sq_le l : covn l * covn l <= varn fx l * varn fy l.
Proof.
  destruct l as [|a l]; [cbn; lia|].
  set (L := a :: l).
  pose proof (cauchy_schwarz (fun p => nZ L * fx p - sumf fx L) (fun p => nZ L * fy p - sumf fy L) L) as H.
  rewrite !varn_centred, centred_dot in H.
  fold (covn L) in H.
  assert (0 < nZ L) as Hn by (apply (nZ_pos_of_In a); left; reflexivity).
  assert (nZ L * nZ L * (covn L * covn L) <= nZ L * nZ L * (varn fx L * varn fy L)) as H2
    by (replace (nZ L * nZ L * (covn L * covn L)) with (nZ L * covn L * (nZ L * covn L)) by ring;
        replace (nZ L * nZ L * (varn fx L * varn fy L)) with (nZ L * varn fx L * (nZ L * varn fy L)) by ring;
        exact H).
  apply Z.mul_le_mono_pos_l in H2; [exact H2|].
  apply Z.mul_pos_pos; exact Hn.
Qed.

Lemma pearson_r2_range l s r : pearson l = Some (s, r) -> (0 <= r <= 1)%Q.
Proof.
  unfold pearson.
  destruct ((varn fx l =? 0) || (varn fy l =? 0)) eqn:E; [discriminate|].
  apply orb_false_iff in E. destruct E as [E1 E2].
  apply Z.eqb_neq in E1. apply Z.eqb_neq in E2.
  intro H. inversion H; subst; clear H.
  pose proof (varn_nonneg fx l) as P1. pose proof (varn_nonneg fy l) as P2.
  assert (0 < varn fx l * varn fy l) as P by (apply Z.mul_pos_pos; lia).
  unfold Qle. cbn [Qnum Qden]. rewrite Z2Pos.id by exact P.
  pose proof (covn_sq_le l). pose proof (Z.square_nonneg (covn l)). lia.
Qed.

(* the sign is that of the covariance; r^2 = 0 iff the sign is 0 *)
Lemma pearson_sign_zero l s r : pearson l = Some (s, r) -> (s = 0 <-> (r == 0)%Q).
Proof.
  unfold pearson.
  destruct ((varn fx l =? 0) || (varn fy l =? 0)) eqn:E; [discriminate|].
  intro H. inversion H; subst; clear H.
  unfold Qeq. cbn [Qnum Qden]. rewrite Z.mul_1_r, Z.mul_0_l.
  rewrite Z.sgn_null_iff. split; intro K; [rewrite K; reflexivity|].
  apply Z.mul_eq_0 in K. tauto.
Qed.
