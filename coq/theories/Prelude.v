(* Shared definitions for all property models: result type, boolean equalities,
   the per-shard evaluator used by the correspondence check.  No proofs of
   properties live here. *)
From Coq Require Export ZArith List Bool Lia.
Export ListNotations.
Open Scope Z_scope.

(* Python-level outcome: a value, or an exception of a given class (small enum
   chosen by the harness: see harness/core.py ERR_KINDS). *)
Inductive res (A : Type) : Type :=
| Ok (a : A)
| Err (kind : Z).
Arguments Ok {A} a.
Arguments Err {A} kind.

Definition res_eqb {A} (e : A -> A -> bool) (x y : res A) : bool :=
  match x, y with
  | Ok a, Ok b => e a b
  | Err k, Err k' => k =? k'
  | _, _ => false
  end.

Definition bind {A B} (x : res A) (f : A -> res B) : res B :=
  match x with Ok a => f a | Err k => Err k end.

Fixpoint list_eqb {A} (e : A -> A -> bool) (l1 l2 : list A) : bool :=
  match l1, l2 with
  | [], [] => true
  | a :: r, b :: s => e a b && list_eqb e r s
  | _, _ => false
  end.

Definition opt_eqb {A} (e : A -> A -> bool) (a b : option A) : bool :=
  match a, b with
  | None, None => true
  | Some x, Some y => e x y
  | _, _ => false
  end.

Definition pair_eqb {A B} (ea : A -> A -> bool) (eb : B -> B -> bool) (x y : A * B) : bool :=
  ea (fst x) (fst y) && eb (snd x) (snd y).

Lemma list_eqb_spec {A} (e : A -> A -> bool) :
  (forall a b, e a b = true <-> a = b) ->
  forall l1 l2, list_eqb e l1 l2 = true <-> l1 = l2.
Proof.
  intros He l1. induction l1 as [|a r IH]; intros [|b s]; cbn; split; intro H;
    try reflexivity; try discriminate.
  - apply andb_true_iff in H. destruct H as [H1 H2].
    apply He in H1. apply IH in H2. subst. reflexivity.
  - inversion H; subst. apply andb_true_iff. split; [apply He|apply IH]; reflexivity.
Qed.

Lemma opt_eqb_spec {A} (e : A -> A -> bool) :
  (forall a b, e a b = true <-> a = b) ->
  forall x y, opt_eqb e x y = true <-> x = y.
Proof.
  intros He [a|] [b|]; cbn; split; intro H; try reflexivity; try discriminate.
  - apply He in H. subst. reflexivity.
  - inversion H. apply He. reflexivity.
Qed.

(* Evaluator used by generated case shards: [chk c = (agree, holds)];
   returns the indices where agree resp. holds is false. *)
Fixpoint bad_from {C} (chk : C -> bool * bool) (n : Z) (l : list C) : list Z * list Z :=
  match l with
  | [] => ([], [])
  | x :: r =>
      let '(d, v) := bad_from chk (n + 1) r in
      let '(ag, ho) := chk x in
      ((if ag then d else n :: d), (if ho then v else n :: v))
  end.
Definition bad_indices {C} (chk : C -> bool * bool) (l : list C) : list Z * list Z :=
  bad_from chk 0 l.

(* nth with explicit failure, on Z indices (Python list indexing, no negatives) *)
Definition nthZ {A} (l : list A) (i : Z) : option A :=
  if i <? 0 then None else nth_error l (Z.to_nat i).

Definition lenZ {A} (l : list A) : Z := Z.of_nat (length l).

Definition last_opt {A} (l : list A) : option A :=
  match rev l with [] => None | x :: _ => Some x end.

Lemma last_opt_app {A} (l : list A) x : last_opt (l ++ [x]) = Some x.
Proof. unfold last_opt. rewrite rev_app_distr. reflexivity. Qed.

Lemma last_opt_nil {A} : @last_opt A [] = None.
Proof. reflexivity. Qed.

(* Error kinds shared with harness/core.py ERR_KINDS.  E_Unobserved marks a case
   the harness could not observe (e.g. the draw protocol it records changed):
   checkers return agree = false, holds = true for it, so it is reported as a
   broken correspondence and never as a failing input. *)
Definition E_Unobserved : Z := 97.
