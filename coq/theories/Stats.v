(* Shared by C09 and C15: exact rational statistics (every float64 is a rational),
   float64 <-> Q / bit-pattern helpers, tolerance comparison.  Definitions and
   the few general lemmas the property proofs need; no axioms (the Reals facts
   live in StatsR.v). *)
From HV Require Import Prelude.
From Coq Require Export QArith Qabs Qminmax.
From Coq Require Import PrimFloat Uint63 FloatOps SpecFloat.
Open Scope Z_scope.

(* ---------- sums, mean, population variance over Q ------------------------ *)

(* Qred keeps the representation small (vm_compute has no native bignums); it is the
   identity up to == (Qred_correct) *)
Definition qsum (l : list Q) : Q := fold_right (fun x acc => Qred (x + acc)) 0%Q l.
Definition qlen {A} (l : list A) : Q := inject_Z (lenZ l).
Definition qsq (x : Q) : Q := (x * x)%Q.
Definition qmean (l : list Q) : Q := Qred (qsum l / qlen l).
Definition qdev (l : list Q) : list Q := let m := qmean l in map (fun x => Qred (x - m)) l.
(* numpy var/std with ddof = 0 *)
Definition qvar (l : list Q) : Q := Qred (qsum (map qsq (qdev l)) / qlen l).

Definition qsgn (x : Q) : Z := Z.sgn (Qnum x).

(* |a - b| <= tol * scale *)
Definition qclose (tol scale a b : Q) : bool :=
  Qle_bool (Qabs (a - b)) (tol * scale).

Definition tol9 : Q := 1 # 1000000000.

(* ---------- float64 as data ---------------------------------------------- *)

(* value of a finite float (None for nan / infinities) *)
Definition sf2q (x : spec_float) : option Q :=
  match x with
  | S754_zero _ => Some 0%Q
  | S754_finite s m e =>
      let n := if s then Z.neg m else Z.pos m in
      Some (if 0 <=? e then Qmake (n * 2 ^ e) 1 else Qmake n (Z.to_pos (2 ^ (- e))))
  | _ => None
  end.
Definition f2q (f : float) : option Q := sf2q (Prim2SF f).
Definition f2q0 (f : float) : Q := match f2q f with Some q => q | None => 0%Q end.
Definition ffinite (f : float) : bool := match f2q f with Some _ => true | None => false end.

(* structural (bit-level up to nan payload) equality of floats: distinguishes -0 from +0 *)
Definition sf_same (a b : spec_float) : bool :=
  match a, b with
  | S754_zero s, S754_zero t => Bool.eqb s t
  | S754_infinity s, S754_infinity t => Bool.eqb s t
  | S754_nan, S754_nan => true
  | S754_finite s m e, S754_finite t n f => Bool.eqb s t && Pos.eqb m n && (e =? f)
  | _, _ => false
  end.
Definition fsame (a b : float) : bool := sf_same (Prim2SF a) (Prim2SF b).

(* Python int(x) for a finite float: truncation toward zero *)
Definition sf_trunc (x : spec_float) : option Z :=
  match x with
  | S754_zero _ => Some 0
  | S754_finite s m e =>
      let a := if 0 <=? e then Z.pos m * 2 ^ e else Z.pos m / 2 ^ (- e) in
      Some (if s then - a else a)
  | _ => None
  end.
Definition ftrunc (f : float) : option Z := sf_trunc (Prim2SF f).
Definition f_of_Z (n : Z) : float := PrimFloat.of_uint63 (Uint63.of_Z n).

(* the IEEE-754 binary64 bit pattern as an integer in [0, 2^64): used where only
   bit identity matters (C15).  Value of a finite pattern: *)
Definition bits2q (b : Z) : option Q :=
  let s := b / 2 ^ 63 in
  let e := (b / 2 ^ 52) mod 2 ^ 11 in
  let m := b mod 2 ^ 52 in
  if e =? 2047 then None
  else
    let '(mm, ee) := if e =? 0 then (m, -1074) else (2 ^ 52 + m, e - 1075) in
    let n := if s =? 1 then - mm else mm in
    Some (if 0 <=? ee then Qmake (n * 2 ^ ee) 1 else Qmake n (Z.to_pos (2 ^ (- ee)))).
Definition bits_nan (b : Z) : bool :=
  ((b / 2 ^ 52) mod 2 ^ 11 =? 2047) && negb (b mod 2 ^ 52 =? 0).
(* bit identity, all nans identified (DESIGN section 10, C15) *)
Definition bits_eqb (a b : Z) : bool := (a =? b) || (bits_nan a && bits_nan b).

(* ---------- general lemmas ------------------------------------------------ *)

Lemma qsq_nonneg x : (0 <= qsq x)%Q.
Proof.
  unfold qsq. destruct (Qlt_le_dec x 0) as [H|H].
  - setoid_replace (x * x)%Q with ((- x) * (- x))%Q by ring.
    apply Qmult_le_0_compat; apply (Qopp_le_compat x 0); apply Qlt_le_weak; exact H.
  - apply Qmult_le_0_compat; exact H.
Qed.

Lemma qred_nonneg q : (0 <= q)%Q -> (0 <= Qred q)%Q.
Proof.
  intro H. apply (Qle_trans _ q); [exact H|]. apply Qle_lteq. right. symmetry. apply Qred_correct.
Qed.

Lemma qsum_cons a r : qsum (a :: r) = Qred (a + qsum r).
Proof. reflexivity. Qed.

Lemma qsum_nonneg l : (forall x, In x l -> (0 <= x)%Q) -> (0 <= qsum l)%Q.
Proof.
  induction l as [|a r IH]; intro H.
  - apply Qle_refl.
  - rewrite qsum_cons. apply qred_nonneg. apply (Qle_trans _ (0 + 0)%Q); [apply Qle_refl|].
    apply Qplus_le_compat; [apply H; left; reflexivity | apply IH; intros; apply H; right; assumption].
Qed.

Lemma qlen_nonneg {A} (l : list A) : (0 <= qlen l)%Q.
Proof. unfold qlen, lenZ, Qle; cbn. lia. Qed.

Lemma qvar_nonneg l : (0 <= qvar l)%Q.
Proof.
  unfold qvar. apply qred_nonneg.
  assert (Hs : (0 <= qsum (map qsq (qdev l)))%Q).
  { apply qsum_nonneg. intros x Hx. apply in_map_iff in Hx. destruct Hx as [y [<- _]]. apply qsq_nonneg. }
  destruct l as [|a r].
  - cbn. unfold Qdiv, Qle; cbn. lia.
  - unfold Qdiv. apply Qmult_le_0_compat; [exact Hs|].
    apply Qinv_le_0_compat. apply qlen_nonneg.
Qed.
