(* Standardisation over the reals (C09 normalize_gts, C15 standardize): the one place
   where a square root is needed.  Uses Coq's Reals, hence the standard library's
   real-number axioms (listed in harness/c09.py ALLOWED_AXIOMS). *)
From Coq Require Import Reals List Lra Psatz.
Import ListNotations.
Open Scope R_scope.

Definition rsum (l : list R) : R := fold_right Rplus 0 l.
Definition rlen (l : list R) : R := INR (length l).
Definition rmean (l : list R) : R := rsum l / rlen l.
(* population variance (numpy ddof = 0) *)
Definition rvar (l : list R) : R := let m := rmean l in rmean (map (fun x => (x - m) * (x - m)) l).

(* (x - mean) / std, or all zeros when the variance is 0 *)
Definition rstandardize (l : list R) : list R :=
  let m := rmean l in
  let s := sqrt (rvar l) in
  if Req_EM_T (rvar l) 0 then map (fun _ => 0) l else map (fun x => (x - m) / s) l.

Lemma rsum_nonneg l : (forall x, In x l -> 0 <= x) -> 0 <= rsum l.
Proof.
  induction l as [|a r IH]; intro H; [cbn; lra|].
  assert (0 <= a) by (apply H; left; reflexivity).
  assert (0 <= rsum r) by (apply IH; intros; apply H; right; assumption).
  change (0 <= a + rsum r). lra.
Qed.

Lemma rvar_nonneg l : 0 <= rvar l.
Proof.
  unfold rvar, rmean. destruct l as [|a r].
  - cbn. unfold Rdiv. rewrite Rmult_0_l. lra.
  - apply Rmult_le_pos.
    + apply rsum_nonneg. intros x Hx. apply in_map_iff in Hx. destruct Hx as [y [<- _]].
      apply Rle_0_sqr.
    + apply Rlt_le. apply Rinv_0_lt_compat. unfold rlen. rewrite map_length. apply lt_0_INR. cbn. apply Nat.lt_0_succ.
Qed.

Lemma rsum_shift_scale m s : s <> 0 -> forall l,
  rsum (map (fun x => (x - m) / s) l) = (rsum l - rlen l * m) / s.
Proof.
  intros Hs. induction l as [|a r IH].
  - cbn. unfold rlen. cbn. field. exact Hs.
  - cbn [map rsum fold_right]. fold (rsum (map (fun x => (x - m) / s) r)). rewrite IH.
    unfold rlen. cbn [length]. rewrite S_INR. fold (rsum r). field. exact Hs.
Qed.

Lemma rsum_sq_scale m s : s <> 0 -> forall l,
  rsum (map (fun z => (z - 0) * (z - 0)) (map (fun x => (x - m) / s) l))
  = rsum (map (fun x => (x - m) * (x - m)) l) / (s * s).
Proof.
  intros Hs. induction l as [|a r IH].
  - cbn. field. exact Hs.
  - cbn [map rsum fold_right].
    fold (rsum (map (fun z => (z - 0) * (z - 0)) (map (fun x => (x - m) / s) r))). rewrite IH.
    fold (rsum (map (fun x => (x - m) * (x - m)) r)). field. exact Hs.
Qed.

Lemma rvar_pos_nonempty l : 0 < rvar l -> 0 < rlen l.
Proof.
  destruct l as [|a r]; intro H.
  - unfold rvar, rmean in H. cbn in H. unfold Rdiv in H. rewrite Rmult_0_l in H. lra.
  - unfold rlen. apply lt_0_INR. cbn. apply Nat.lt_0_succ.
Qed.

Lemma rlen_map {A} (f : A -> R) (l : list A) : rlen (map f l) = INR (length l).
Proof. unfold rlen. rewrite map_length. reflexivity. Qed.

(* for a column with positive variance the standardised column has mean 0 and variance 1 *)
Theorem standardize_mean0_var1_lemma : forall l,
  0 < rvar l -> rmean (rstandardize l) = 0 /\ rvar (rstandardize l) = 1.
Proof.
  intros l Hv. unfold rstandardize.
  destruct (Req_EM_T (rvar l) 0) as [E|_]; [lra|].
  pose proof (rvar_pos_nonempty l Hv) as Hn.
  set (s := sqrt (rvar l)).
  assert (Hs : s <> 0). { unfold s. intro H0. apply sqrt_eq_0 in H0; lra. }
  assert (Hss : s * s = rvar l). { unfold s. apply sqrt_sqrt. lra. }
  set (m := rmean l) in *.
  set (S := rsum (map (fun x => (x - m) * (x - m)) l)).
  assert (Hvar : rvar l = S / rlen l).
  { unfold rvar. cbv zeta. fold m. unfold rmean. rewrite rlen_map. reflexivity. }
  assert (Hmean : rmean (map (fun x => (x - m) / s) l) = 0).
  { unfold rmean. rewrite rlen_map, rsum_shift_scale by exact Hs. fold (rlen l).
    unfold m, rmean. field. split; [lra|exact Hs]. }
  split; [exact Hmean|].
  unfold rvar. cbv zeta. rewrite Hmean.
  unfold rmean. rewrite rlen_map, map_length, rsum_sq_scale by exact Hs. fold (rlen l). fold S.
  rewrite Hss, Hvar. rewrite Hvar in Hv.
  assert (HS : S <> 0).
  { intro H0. rewrite H0 in Hv. unfold Rdiv in Hv. rewrite Rmult_0_l in Hv. lra. }
  field. split; [lra|exact HS].
Qed.

(* zero variance: all zeros; and a constant column has zero variance *)
Lemma standardize_var0_lemma : forall l, rvar l = 0 -> rstandardize l = map (fun _ => 0) l.
Proof.
  intros l H. unfold rstandardize. destruct (Req_EM_T (rvar l) 0) as [_|N]; [reflexivity|contradiction].
Qed.

Lemma rsum_repeat c n : rsum (repeat c n) = INR n * c.
Proof.
  induction n as [|k IH]; [cbn; lra|]. cbn [repeat rsum fold_right]. fold (rsum (repeat c k)).
  rewrite IH, S_INR. lra.
Qed.

Lemma constant_var0_lemma : forall c n, rvar (repeat c n) = 0.
Proof.
  intros c n. destruct n as [|k].
  - unfold rvar, rmean. cbn. unfold Rdiv. apply Rmult_0_l.
  - assert (Hm : rmean (repeat c (S k)) = c).
    { unfold rmean, rlen. rewrite rsum_repeat, repeat_length. field.
      apply not_0_INR. discriminate. }
    unfold rvar. cbv zeta. rewrite Hm.
    assert (Hz : map (fun x => (x - c) * (x - c)) (repeat c (S k)) = repeat 0 (S k)).
    { generalize (S k). induction n as [|j IH]; [reflexivity|]. cbn. rewrite IH. f_equal. ring. }
    rewrite Hz. unfold rmean. rewrite rsum_repeat. unfold Rdiv. rewrite Rmult_0_r. apply Rmult_0_l.
Qed.

Lemma standardize_constant_zero_lemma : forall (c : R) (n : nat),
  rstandardize (repeat c n) = map (fun _ => 0) (repeat c n).
Proof. intros c n. apply standardize_var0_lemma. apply constant_var0_lemma. Qed.

(* what the boolean check  z^2 var = dev^2 /\ sign z = sign dev  means (tolerance 0) *)
Lemma zcheck_exact_sound : forall v d z,
  0 < v -> z * z * v = d * d -> (0 <= z <-> 0 <= d) -> z = d / sqrt v.
Proof.
  intros v d z Hv Hsq Hsg.
  set (s := sqrt v).
  assert (Hs : 0 < s) by (apply sqrt_lt_R0; exact Hv).
  assert (Hss : s * s = v) by (apply sqrt_sqrt; lra).
  assert (H2 : (z * s) * (z * s) = d * d) by (rewrite <- Hsq, <- Hss; ring).
  assert (Hzs : z * s = d).
  { destruct (Rle_dec 0 z) as [Hz|Hz].
    - assert (0 <= d) by (apply Hsg; exact Hz).
      apply Rsqr_inj; [apply Rmult_le_pos; lra|lra|exact H2].
    - assert (Hd : ~ 0 <= d) by (intro Hd; apply Hz; apply Hsg; exact Hd).
      assert (Hneg : - (z * s) = - d).
      { apply Rsqr_inj.
        - assert (z * s <= 0) by nra. lra.
        - lra.
        - unfold Rsqr. replace (- (z * s) * - (z * s)) with ((z * s) * (z * s)) by ring.
          replace (- d * - d) with (d * d) by ring. exact H2. }
      lra. }
  rewrite <- Hzs. unfold s. field. apply Rgt_not_eq. exact Hs.
Qed.
