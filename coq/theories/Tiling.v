(* Runs and tilings of chromosomes by ancestry tracts (C01, C02). *)
From HV Require Import Prelude Tracts.

Definition MAXC : Z := 2147483647.   (* np.iinfo(np.int32).max, the chromosome-end sentinel *)

(* g is a strictly increasing run of tracts on chromosome c, all ends > lo, last end = hi *)
Fixpoint run_ok (c lo : Z) (g : list seg) (hi : Z) : Prop :=
  match g with
  | [] => False
  | s :: r => chrom s = c /\ lo < endc s /\
              match r with [] => endc s = hi | _ => run_ok c (endc s) r hi end
  end.

Definition chain (c lo : Z) (p : list seg) (x : Z) : Prop := (p = [] /\ x = lo) \/ run_ok c lo p x.

(* l is, chromosome by chromosome in the order chs, a run from -1 to MAXC:
   every position 0..MAXC of every chromosome of chs is covered exactly once *)
Fixpoint tiles (chs : list Z) (l : list seg) : Prop :=
  match chs with
  | [] => l = []
  | c :: r => exists t rest, l = t ++ rest /\ run_ok c (-1) t MAXC /\ tiles r rest
  end.

Lemma run_ok_app c lo p x g hi : run_ok c lo p x -> run_ok c x g hi -> run_ok c lo (p ++ g) hi.
Proof.
  revert lo. induction p as [|s r IH]; intros lo Hp Hg; [destruct Hp|].
  destruct Hp as [Hc [Hlo Hr]]. cbn [app run_ok]. split; [exact Hc|]. split; [exact Hlo|].
  destruct r as [|s' r'].
  - subst x. cbn [app]. destruct g as [|g0 g']; [destruct Hg|]. exact Hg.
  - cbn [app]. specialize (IH (endc s) Hr Hg). cbn [app] in IH. exact IH.
Qed.

Lemma chain_app c lo p x g hi : chain c lo p x -> run_ok c x g hi -> run_ok c lo (p ++ g) hi.
Proof. intros [[-> ->]|H] Hg; [exact Hg|eapply run_ok_app; eauto]. Qed.

Lemma run_ok_last c lo g hi : run_ok c lo g hi ->
  exists l, last_opt g = Some l /\ endc l = hi /\ chrom l = c.
Proof.
  revert lo. induction g as [|s r IH]; intros lo H; [destruct H|].
  destruct H as [Hc [Hlo Hr]]. destruct r as [|s' r'].
  - exists s. cbn. auto.
  - destruct (IH _ Hr) as [l [Hl [He Hcl]]]. exists l. split; [|auto].
    unfold last_opt in *. cbn [rev] in *. destruct (rev r' ++ [s']) eqn:E; [discriminate|].
    cbn. exact Hl.
Qed.

Lemma last_opt_app_ne {A} (d p : list A) : p <> [] -> last_opt (d ++ p) = last_opt p.
Proof.
  intros Hp. unfold last_opt. rewrite rev_app_distr. destruct (rev p) eqn:E; [|reflexivity].
  exfalso. apply Hp. rewrite <- (rev_involutive p), E. reflexivity.
Qed.

Lemma tiles_app l1 d1 l2 d2 : tiles l1 d1 -> tiles l2 d2 -> tiles (l1 ++ l2) (d1 ++ d2).
Proof.
  revert d1. induction l1 as [|c r IH]; intros d1 H1 H2; cbn in *.
  - subst d1. exact H2.
  - destruct H1 as [t [rest [-> [Ht Hr]]]]. exists t, (rest ++ d2). rewrite app_assoc. auto.
Qed.

Lemma tiles_snoc l d c t : tiles l d -> run_ok c (-1) t MAXC -> tiles (l ++ [c]) (d ++ t).
Proof. intros H Ht. apply tiles_app; [exact H|]. cbn. exists t, []. rewrite app_nil_r. auto. Qed.

Lemma firstn_S_nth {A} (l : list A) i x : nth_error l i = Some x -> firstn (S i) l = firstn i l ++ [x].
Proof.
  revert i. induction l as [|a l IH]; intros [|i] H; cbn in *; try discriminate.
  - inversion H; reflexivity.
  - f_equal. apply IH. exact H.
Qed.

Lemma run_ok_lt c lo g hi : run_ok c lo g hi -> lo < hi.
Proof.
  revert lo. induction g as [|s r IH]; intros lo H; [destruct H|].
  destruct H as [_ [Hlo Hr]]. destruct r; [lia|]. specialize (IH _ Hr). lia.
Qed.

Lemma chain_le c lo p x : chain c lo p x -> lo <= x.
Proof. intros [[_ ->]|H]; [lia|]. apply run_ok_lt in H. lia. Qed.

(* facts about runs used to discharge get_segment's precondition *)
Lemma run_ok_all c lo g hi : run_ok c lo g hi ->
  forall s, In s g -> chrom s = c /\ lo < endc s <= hi.
Proof.
  revert lo. induction g as [|x r IH]; intros lo H s Hs; [destruct H|].
  destruct H as [Hc [Hlo Hr]]. destruct Hs as [<-|Hs].
  - split; [exact Hc|]. destruct r; [lia|]. apply run_ok_lt in Hr. lia.
  - destruct r as [|y r']; [destruct Hs|]. destruct (IH _ Hr s Hs) as [A B]. split; [exact A|lia].
Qed.

Lemma run_ok_sorted c lo g hi : run_ok c lo g hi -> sorted g.
Proof.
  revert lo. induction g as [|x r IH]; intros lo H; [exact I|].
  destruct H as [Hc [Hlo Hr]]. destruct r as [|y r']; [cbn; auto|].
  cbn [sorted]. split; [|eapply IH; eauto].
  destruct Hr as [Hyc [Hy _]]. right. split; [congruence|exact Hy].
Qed.

Lemma run_ok_reach c lo g hi : run_ok c lo g hi -> on_c_reach c hi g.
Proof.
  intros H. destruct (run_ok_last _ _ _ _ H) as [l [Hl [He Hc]]]. exists l.
  split; [|split; [exact Hc|lia]].
  unfold last_opt in Hl. destruct (rev g) eqn:E; [discriminate|]. inversion Hl; subst.
  apply in_rev. rewrite E. left. reflexivity.
Qed.
