(* Ancestry tracts: the data structure shared by simgenotype (C01-C03, C14),
   the breakpoint reader (C05) and the karyogram (C18).
   A haplotype is a list of tracts; a tract covers (previous end, end] on its
   chromosome.  [cm] is an opaque token (interned centimorgan value): the code
   only ever copies it. *)
From HV Require Import Prelude.

Record seg := mkseg { pop : Z; chrom : Z; endc : Z; cm : Z }.

Definition seg_eqb (a b : seg) : bool :=
  (pop a =? pop b) && (chrom a =? chrom b) && (endc a =? endc b) && (cm a =? cm b).

Lemma seg_eqb_spec a b : seg_eqb a b = true <-> a = b.
Proof.
  destruct a as [p c e m], b as [p' c' e' m']. unfold seg_eqb. cbn.
  rewrite !andb_true_iff, !Z.eqb_eq. split.
  - intros [[[-> ->] ->] ->]. reflexivity.
  - intros H. inversion H. auto.
Qed.

(* label of the first tract on chromosome c whose end is >= p *)
Fixpoint label_at (l : list seg) (c p : Z) : option Z :=
  match l with
  | [] => None
  | s :: r => if (chrom s =? c) && (p <=? endc s) then Some (pop s) else label_at r c p
  end.

Definition lt_seg (a b : seg) : Prop :=
  chrom a < chrom b \/ (chrom a = chrom b /\ endc a < endc b).

Definition lt_segb (a b : seg) : bool :=
  (chrom a <? chrom b) || ((chrom a =? chrom b) && (endc a <? endc b)).

Lemma lt_segb_spec a b : lt_segb a b = true <-> lt_seg a b.
Proof.
  unfold lt_segb, lt_seg. rewrite orb_true_iff, andb_true_iff, Z.ltb_lt, Z.eqb_eq, Z.ltb_lt. tauto.
Qed.

(* strictly sorted by (chromosome, end) *)
Fixpoint sorted (l : list seg) : Prop :=
  match l with
  | [] => True
  | a :: r => match r with [] => True | b :: _ => lt_seg a b end /\ sorted r
  end.

Fixpoint sortedb (l : list seg) : bool :=
  match l with
  | [] => true
  | a :: r => match r with [] => true | b :: _ => lt_segb a b end && sortedb r
  end.

Lemma sortedb_spec l : sortedb l = true <-> sorted l.
Proof.
  induction l as [|a r IH]; cbn [sortedb sorted]; [tauto|].
  rewrite andb_true_iff, IH. destruct r as [|b r']; [tauto|]. rewrite lt_segb_spec. tauto.
Qed.

(* some tract of chromosome c reaches position e *)
Definition on_c_reach (c e : Z) (l : list seg) : Prop :=
  exists s, In s l /\ chrom s = c /\ e <= endc s.

Definition on_c_reachb (c e : Z) (l : list seg) : bool :=
  existsb (fun s => (chrom s =? c) && (e <=? endc s)) l.

Lemma on_c_reachb_spec c e l : on_c_reachb c e l = true <-> on_c_reach c e l.
Proof.
  unfold on_c_reachb, on_c_reach. rewrite existsb_exists. split.
  - intros [s [H1 H2]]. apply andb_true_iff in H2. destruct H2 as [A B].
    apply Z.eqb_eq in A. apply Z.leb_le in B. eauto.
  - intros [s [H1 [A B]]]. exists s. split; [exact H1|].
    apply andb_true_iff. split; [apply Z.eqb_eq|apply Z.leb_le]; assumption.
Qed.

(* ends of the tracts of chromosome c *)
Definition ends_on (c : Z) (l : list seg) : list Z :=
  map endc (filter (fun s => chrom s =? c) l).

(* positions at which label_at (as a function of p) can change, inside [a,b] *)
Definition crit (l : list seg) (c a b : Z) : list Z :=
  a :: b :: flat_map (fun s => if chrom s =? c then [endc s; endc s + 1] else []) l.
