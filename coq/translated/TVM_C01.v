(* Encoders/decoders between the hand-written C01 model's data and MiniPy values, and the
   evaluation of the code as translated from the current source on observed kernel calls.
   Definitions only (compiled per run against HVG.Gen_SimGenotype): it stays runnable when a
   translation-validation proof in TV_C01.v breaks. *)
From HV Require Import Prelude MiniPy MiniPyFacts Tracts C01_Model C01_Check.
From HVG Require Import Gen_SimGenotype.
From Coq Require Import String.
Open Scope string_scope.
Open Scope Z_scope.

Definition enc_seg (s : seg) : val := VObj 1 [VInt (pop s); VInt (chrom s); VInt (endc s); VStr (cm s)].
Notation enc_segs l := (VList (map enc_seg l)).
Notation enc_gen prev := (VList (map (fun l : list seg => enc_segs l) prev)).

(* ---- evaluation of the translated code on observed calls (correspondence) ---------- *)

Definition dec_seg (v : val) : option seg :=
  match v with
  | VObj 1 [VInt p; VInt c; VInt e; VStr m] => Some (mkseg p c e m)
  | _ => None
  end.
Fixpoint dec_list {A} (d : val -> option A) (l : list val) : option (list A) :=
  match l with
  | [] => Some []
  | x :: r => match d x, dec_list d r with Some a, Some s => Some (a :: s) | _, _ => None end
  end.
Definition dec_segs (v : val) : option (list seg) :=
  match v with VList l => dec_list dec_seg l | _ => None end.

Definition tv_fuel : nat := 64%nat.

Definition model_tv_kernel (k : kcase) : res (list seg) * res Z :=
  (match fn_get_segment tv_fuel
           [VInt (k_pop k); VInt (k_h k); VInt (k_chrom k); VInt (k_start k); VInt (k_end k);
            VStr (k_cm k); enc_gen (k_prev k)] with
   | Ok (v, _) => match dec_segs v with Some g => Ok g | None => Err E_Unsupported end
   | Err e => Err e
   end,
   match nthZ (k_prev k) (k_h k) with
   | Some parent =>
       match fn_start_segment tv_fuel [VInt (k_start k); VInt (k_chrom k); enc_segs parent] with
       | Ok (VInt i, _) => Ok i
       | Ok _ => Err E_Unsupported
       | Err e => Err e
       end
   | None => Err E_Index
   end).

Definition check_tv_kernel (k : kcase) : bool * bool :=
  let '(g, i) := model_tv_kernel k in
  (rsegs_eqb g (k_obs k) && res_eqb Z.eqb i (k_idx k), holds_kernel k).

(* ---- the per-child loop of _simulate as translated (slice _simulate_child) ---------- *)

(* GeneticMarker(chrom, cm_map_pos, bp_map_pos, prev_coord) = VObj 2 [...] *)
Definition enc_marker (c bp cm : Z) (prev : val) : val := VObj 2 [VInt c; VStr cm; VInt bp; prev].
(* an end-of-chromosome marker: the loop reads only its bp and cM (the chrom field is a token) *)
Definition enc_end (e : Z * Z) : val := enc_marker 0 (fst e) (snd e) VNone.
(* a recombination event: the marker at which it was drawn (own position unused by the loop)
   whose prev_coord carries the bp / cM the tract ends at *)
Definition enc_event (e : event) : val :=
  enc_marker (ev_chrom e) 0 0 (enc_marker (ev_chrom e) (ev_bp e) (ev_cm e) VNone).
Definition b2z (b : bool) : Z := if b then 1 else 0.
Definition enc_draws (hd : list bool) : val := VList (map (fun b => VInt (b2z b)) hd).

Definition child_args (chroms : list Z) (ends : list (Z * Z)) (p ha hb : Z) (prev : list (list seg))
    (h0 : bool) (hd : list bool) (evs : list event) : list val :=
  [VList (map VInt chroms); VList (map enc_end ends); VInt p;
   VList [VInt ha; VInt hb]; VInt (b2z h0); VList (map enc_event evs); enc_gen prev;
   VList []; enc_draws hd].

Definition model_tv_child (k : ccase) : res (list seg) :=
  match fn__simulate_child tv_fuel
          (child_args (c_chroms k) (c_ends k) (c_pop k) 0 1 [c_pa k; c_pb k] (c_h0 k) (c_hd k) (c_evs k)) with
  | Ok (v, _) => match dec_segs v with Some g => Ok g | None => Err E_Unsupported end
  | Err e => Err e
  end.

Definition check_tv_child (k : ccase) : bool * bool :=
  (rsegs_eqb (model_tv_child k) (c_obs k), holds_child k).
