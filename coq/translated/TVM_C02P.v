(* Definitions for the translation validation of the tail of _prepare_coords (C02, C20; no theorems): the statement
   slice of haptools/sim_genotype.py's _prepare_coords from `if region:` to `end_coords = [...]` - the region loop
   over coords[0], the sentinel store `chrom_coord[-1].bp_map_pos = np.iinfo(np.int32).max` and the list of end
   markers - regenerated from /repo's current source as the synthetic function
   _prepare_coords_tail(coords, region) of HVG.Gen_SimGenotype (returns end_coords; the final value of `coords`
   is its first output parameter), and the model on markers that carry everything a GeneticMarker holds.

   A GeneticMarker is TVM_C01.enc_marker (VObj 2 [chrom; cM token; bp; prev_coord]): chromosome, cM token and
   prev_coord are arbitrary; region is None or the dict {"chr": .., "start": s, "end": e} (string keys by code
   points). *)
From HV Require Import Prelude MiniPy MiniPyFacts Tracts Tiling C01_Model C02_Model C02_Generations C02_Coords C20_Model.
From HVG Require Import Gen_SimGenotype TVM_C01.
From Coq Require Import String.
Open Scope string_scope.
Open Scope list_scope.
Open Scope Z_scope.

Record pmarker := mkpm { pm_chrom : Z; pm_bp : Z; pm_cm : Z; pm_prev : val }.
Definition enc_pm (m : pmarker) : val := enc_marker (pm_chrom m) (pm_bp m) (pm_cm m) (pm_prev m).
Definition enc_pms (l : list pmarker) : val := VList (map enc_pm l).
Definition enc_coords (cs : list (list pmarker)) : val := VList (map enc_pms cs).
(* C02_Coords' marker (bp, cM token) and C20_Model's pair (.., bp) *)
Definition mk_of (m : pmarker) : marker := (pm_bp m, pm_cm m).
Definition bp_pair (m : pmarker) : Z * Z := (pm_cm m, pm_bp m).

Definition k_chr : list Z := [99; 104; 114].
Definition k_start : list Z := [115; 116; 97; 114; 116].
Definition k_end : list Z := [101; 110; 100].
Definition enc_region (rg : option (Z * Z)) (c : val) : val :=
  match rg with
  | None => VNone
  | Some (s, e) => VDict [(VText k_chr, c); (VText k_start, VInt s); (VText k_end, VInt e)]
  end.

(* chrom_coord[-1].bp_map_pos = np.iinfo(np.int32).max *)
Definition sealed (m : pmarker) : pmarker := mkpm (pm_chrom m) MAXC (pm_cm m) (pm_prev m).
Fixpoint seal_pm (l : list pmarker) : list pmarker :=
  match l with
  | [] => []
  | m :: r => match r with [] => [sealed m] | _ :: _ => m :: seal_pm r end
  end.
Definition seal_pm_res (l : list pmarker) : res (list pmarker) :=
  match l with [] => Err 2 | _ :: _ => Ok (seal_pm l) end.

(* the region loop and the slice, by C20_Model's scan: coords[0][start_ind:end_ind] *)
Definition region_pm (s e : Z) (l : list pmarker) : res (list pmarker) :=
  match l with
  | [] => Err 6             (* end_ind is never bound: UnboundLocalError *)
  | _ :: _ => let '(si, ei) := cut_scan (map bp_pair l) 0 (-1) s e (lenZ l) in Ok (pyslice l si ei)
  end.

Fixpoint map_res {A B} (f : A -> res B) (l : list A) : res (list B) :=
  match l with
  | [] => Ok []
  | a :: r => match f a with
              | Err k => Err k
              | Ok b => match map_res f r with Err k => Err k | Ok bs => Ok (b :: bs) end
              end
  end.

Definition tail_pm (cs : list (list pmarker)) (rg : option (Z * Z)) : res (list (list pmarker)) :=
  match (match rg with
         | None => Ok cs
         | Some (s, e) =>
             match cs with
             | [] => Err 2
             | c0 :: _ => match region_pm s e c0 with Ok x => Ok [x] | Err k => Err k end
             end
         end) with
  | Err k => Err k
  | Ok cs1 => map_res seal_pm_res cs1
  end.

(* end_coords = [chrom_coord[-1] for chrom_coord in coords] *)
Definition pm0 : pmarker := mkpm 0 MAXC 0 VNone.
Definition ends_pm (cs : list (list pmarker)) : list pmarker := map (fun l => last l pm0) cs.

(* the same part of C02_Coords.prepare_coords, on its (bp, cM) markers *)
Definition tail_c02 (cs : list (list marker)) (rg : option (Z * Z)) : res (list (list marker)) :=
  bind (match rg with
        | None => Ok cs
        | Some (s, e) =>
            match cs with
            | [] => Err E_Index
            | c0 :: _ => bind (region_slice s e c0) (fun x => Ok [x])
            end
        end) (mapM seal_res).

(* ---- evaluation (used by the theorems' example; the C02 relations observe _prepare_coords through whole runs) ---- *)
Definition tv_tail (cs : list (list pmarker)) (rg : option (Z * Z)) : res (val * list val) :=
  fn__prepare_coords_tail 0%nat [enc_coords cs; enc_region rg (VInt 1)].

(* ---- evaluation on the cases of the tv_coords relation ------------------------------------------ *)
Record pcase := mkpc {
  pc_coords : list (list (Z * Z));      (* the lines of the map files, in chromosome order: (bp, cM rank) *)
  pc_region : option (Z * Z);
  pc_obs : res (list (list (Z * Z)) * list (Z * Z))
                                        (* what _prepare_coords returned: coords and end_coords, as (bp, cM rank) *)
}.

Definition dec_pm (v : val) : option (Z * Z) :=
  match v with VObj 2 [_; VStr cm; VInt bp; _] => Some (bp, cm) | _ => None end.
Definition dec_pms (v : val) : option (list (Z * Z)) :=
  match v with VList l => dec_list dec_pm l | _ => None end.

Definition tv_model_coords (k : pcase) : res (list (list (Z * Z)) * list (Z * Z)) :=
  match tv_tail (map (map (fun p : Z * Z => mkpm 0 (fst p) (snd p) VNone)) (pc_coords k)) (pc_region k) with
  | Ok (ends, [VList cds; _]) =>
      match dec_list dec_pms cds, dec_pms ends with
      | Some cs, Some es => Ok (cs, es)
      | _, _ => Err E_Unsupported
      end
  | Ok _ => Err E_Unsupported
  | Err e => Err e
  end.

Definition zz_eqb (a b : Z * Z) : bool := (fst a =? fst b) && (snd a =? snd b).

(* agree: the tail of _prepare_coords as translated from the current source, interpreted on the markers of the map
   files, leaves the marker lists and returns the end markers that _prepare_coords returned (or raises its error
   kind) - this also checks np.iinfo(np.int32).max = 2147483647 against the running numpy; holds: nothing is demanded
   here (the property is checked by the bpfile / seq relations) *)
Definition check_tv_coords (k : pcase) : bool * bool :=
  (res_eqb (fun a b => list_eqb (list_eqb zz_eqb) (fst a) (fst b) && list_eqb zz_eqb (snd a) (snd b))
           (tv_model_coords k) (pc_obs k), true).
