(* Definitions for the translation validation of write_breakpoints (C02; no theorems): the statement slice of
   haptools/sim_genotype.py's write_breakpoints after the numpy sub-sampling - the body of
   `with open(breakpt_file, 'w') as output:` - regenerated from /repo's current source as the synthetic function
   write_breakpoints_lines(pop_dict, breakpoints, $out) of HVG.Gen_SimGenotype (every output.write(e) appends the
   string e to $out), the numpy sub-sampling `breakpoints[breakpoints_ind]` as a function of the recorded draw
   (take_idx), and the evaluation of the translated loop on the cases of the bpfile relation (tv_bpwrite).

   A HaplotypeSegment is TVM_C01.enc_seg (VObj 1 [pop; chrom; end_coord; end_pos]); its cM end is an opaque token
   (VStr), whose text in the f-string is whatever the untranslated str()/format() returns (Section variable ext_str
   of the generated module); ints are printed by MiniPy.dec_text; population names are strings (VText). *)
From HV Require Import Prelude MiniPy MiniPyFacts Tracts C01_Model BpText C02_Model C02_Reader.
From HVG Require Import Gen_SimGenotype TVM_C01.
From Coq Require Import String.
Open Scope string_scope.
Open Scope list_scope.
Open Scope Z_scope.

(* the text of one written line, from its tab-separated tokens (C02_Reader.render gives token lines) *)
Fixpoint line_text (toks : list str) : str :=
  match toks with
  | [] => [10]
  | a :: r => match r with [] => a ++ [10] | _ :: _ => a ++ 9 :: line_text r end
  end.

(* breakpoints = np.array(breakpoints, dtype=object)[breakpoints_ind]: the haplotypes at the drawn indices
   (IndexError for an index outside the generation; np.random.choice never draws one) *)
Fixpoint take_idx (gen : list (list seg)) (idx : list Z) : res (list (list seg)) :=
  match idx with
  | [] => Ok []
  | i :: r =>
      match nthZ gen i with
      | None => Err 2
      | Some h => bind (take_idx gen r) (fun hs => Ok (h :: hs))
      end
  end.

(* the rows of C02_Model.write_rows for the sub-sampled haplotypes: numbered from ind *)
Fixpoint number_rows (hs : list (list seg)) (ind : Z) : list bprow :=
  match hs with
  | [] => []
  | h :: r => (ind / 2 + 1, ind mod 2 + 1, h) :: number_rows r (ind + 1)
  end.

(* pop_dict: population code -> name *)
Fixpoint enc_pop_dict (names : list str) (i : Z) : list (val * val) :=
  match names with
  | [] => []
  | n :: r => (VInt i, VText n) :: enc_pop_dict r (i + 1)
  end.

Definition enc_lines (ls : list (list str)) : list val := map (fun l => VText (line_text l)) ls.

Fixpoint dec_texts (l : list val) : option (list str) :=
  match l with
  | [] => Some []
  | VText s :: r => option_map (cons s) (dec_texts r)
  | _ => None
  end.

(* ---- evaluation on the cases of the tv_bpwrite relation ---------------------------------------- *)
Record wcase := mkw {
  w_final : list (list seg);        (* last generation returned by simulate_gt (cM ends as ranks) *)
  w_idx : list Z;                   (* recorded np.random.choice(..., replace=False) *)
  w_pops : list str;                (* population names, by code *)
  w_cms : list str;                 (* Python's text of the float behind each cM rank *)
  w_obs : res (list (list str))     (* the .bp file as written: the tab-separated tokens of every line *)
}.

Definition ev_str (cms : list str) (a : list val) : res val :=
  match a with
  | [VStr z] => match nthZ cms z with Some s => Ok (VText s) | None => Err E_Unsupported end
  | _ => Err E_Unsupported
  end.

Definition tv_model_bpwrite (k : wcase) : res (list str) :=
  match take_idx (w_final k) (w_idx k) with
  | Err e => Err e
  | Ok hs =>
      match fn_write_breakpoints_lines (ev_str (w_cms k)) 0%nat
              [VDict (enc_pop_dict (w_pops k) 0); enc_gen hs; VList []] with
      | Ok (_, [_; _; VList out]) => match dec_texts out with Some ls => Ok ls | None => Err E_Unsupported end
      | Ok _ => Err E_Unsupported
      | Err e => Err e
      end
  end.

(* agree: the loop as translated from the current source, interpreted on the sub-sampled haplotypes, writes the
   lines of the file the implementation wrote; holds: nothing is demanded here (the property is checked by the
   bpfile relation) *)
Definition check_tv_bpwrite (k : wcase) : bool * bool :=
  (res_eqb (list_eqb (list_eqb Z.eqb)) (tv_model_bpwrite k)
           (match w_obs k with Ok ls => Ok (map line_text ls) | Err e => Err e end), true).
