(* Definitions for the translation validation of C06's version check (no theorems): the whole of
   Haplotypes.check_version(version, err_msgr) (haptools/data/haplotypes.py), regenerated from /repo's current
   source (HVG.Gen_Version), and its evaluation on the version strings of the tv_version relation.

   Strings are code points (text mode).  `s.split(".")` and `int(s)` are untranslated (Section variables extm_split /
   extb_int of the generated module; their contracts in TV_C06.v are C06_Model.split_on / py_int, which the header
   relation validates at character level).  `a, b, c = map(int, ...)` is Python's unpacking of the lazy map object,
   element by element.  `self.version` is a parameter.  What is reported is an OUTPUT: `self.log.warning(m)` appends
   the 1-tuple (m,) to "$out"; `err_msgr(m)` - a callable handed in by check_header, which logs a warning or raises
   ValueError - is a call with an effect on "$out" that may fail (Section variable exts_err_msgr on ($out, m)). *)
From HV Require Import Prelude C06_Model MiniPy MiniPyFacts.
From HVG Require Import Gen_Version.
From Coq Require Import String Ascii.
Open Scope string_scope.
Open Scope list_scope.
Open Scope Z_scope.

Definition txt (s : string) : list Z := map (fun a => Z.of_N (N_of_ascii a)) (list_ascii_of_string s).

(* the three messages, as check_version formats them *)
Definition u1 : list Z := Eval cbv in txt "The version of the provided .hap file is v".
Definition u2 : list Z := Eval cbv in txt " but this tool only works with >= v".
Definition u3 : list Z := Eval cbv in txt ".0.x and <= v".
Definition u4 : list Z := Eval cbv in txt ".".
Definition u5 : list Z := Eval cbv in txt ".x .hap files".
Definition msg_unsupported (v : list Z) (eM em : Z) : list Z :=
  u1 ++ v ++ u2 ++ dec_text eM ++ u3 ++ dec_text eM ++ u4 ++ dec_text em ++ u5.
Definition o1 : list Z := Eval cbv in txt "The version of the provided .hap file (v".
Definition o2 : list Z := Eval cbv in txt ") is outdated. Consider upgrading to v".
Definition msg_outdated (v cur : list Z) : list Z := o1 ++ v ++ o2 ++ cur.
Definition msg_patch : list Z := Eval cbv in txt "There have been fixes to the .hap spec".

(* an event of the hand model as the entry the translated code appends to "$out" *)
Definition enc_event (cur : list Z) (e : Z * Z * Z) (ev : event) : val :=
  match ev with
  | EvUnsupported v => VTuple [VText (msg_unsupported v (fst (fst e)) (snd (fst e)))]
  | EvOutdated v => VTuple [VText (msg_outdated v cur)]
  | EvPatch => VTuple [VText msg_patch]
  | _ => VNone
  end.

(* the untranslated operations, as the hand model reads them *)
Definition m_split (args : list val) : res val :=
  match args with
  | [VText s; VText [sep]] => Ok (VList (map VText (split_on sep s)))
  | _ => Err E_Unsupported
  end.
Definition m_int (args : list val) : res val :=
  match args with
  | [VText s] => match py_int s with Some z => Ok (VInt z) | None => Err 1 end
  | _ => Err E_Unsupported
  end.
(* err_msgr as check_header builds it: softly = log a warning, else raise ValueError (which the reader's callers see as
   "unsupported version reported": C06_Model.ErrVersionReported) *)
Definition m_err_msgr (softly : bool) (args : list val) : res val :=
  match args with
  | [VList out; VText m] => if softly then Ok (VList (out ++ [VTuple [VText m]])) else Err ErrVersionReported
  | _ => Err E_Unsupported
  end.

Definition tv_check_version (softly : bool) (cur v : list Z) : res (val * list val) :=
  match fn_check_version m_split m_int (m_err_msgr softly) 0%nat [VText v; VText cur; VList []] with
  | Ok (r, [_; _; VList out]) => Ok (r, out)
  | Ok _ => Err E_Unsupported
  | Err k => Err k
  end.

(* ---- evaluation on the cases of the tv_version relation ---- *)
Record tvcase := mktvv {
  tvv_softly : bool;
  tvv_cur : list Z;                      (* self.version *)
  tvv_v : list Z;                        (* the version string of the file *)
  tvv_obs : res (list Z * list (list Z)) (* the returned triple and the messages reported, in order; or the exception *)
}.

Definition tv_model_version (k : tvcase) := tv_check_version (tvv_softly k) (tvv_cur k) (tvv_v k).

Definition dec_triple (r : val) : option (list Z) :=
  match r with VTuple [VInt a; VInt b; VInt c] => Some [a; b; c] | _ => None end.
Fixpoint dec_msgs (l : list val) : option (list (list Z)) :=
  match l with
  | [] => Some []
  | VTuple [VText m] :: r => option_map (cons m) (dec_msgs r)
  | _ => None
  end.

(* agree: the interpreted check_version returns the triple and reports exactly the messages (texts included) the real
   one did, or fails with the same kind - and C06_Model.check_version predicts the same events;
   holds: nothing is demanded here (C06 is judged by the header / read / roundtrip relations) *)
Definition check_tv_version (k : tvcase) : bool * bool :=
  (match tv_model_version k, tvv_obs k with
   | Ok (r, out), Ok (t, ms) =>
       opt_eqb (list_eqb Z.eqb) (dec_triple r) (Some t)
       && opt_eqb (list_eqb (list_eqb Z.eqb)) (dec_msgs out) (Some ms)
       && match check_version (tvv_softly k) (tvv_cur k) (tvv_v k), parse3 (tvv_cur k) with
          | Ok evs, Some e => vlist_eqb val_eqb (map (enc_event (tvv_cur k) e) evs) out
          | _, _ => false
          end
   | Err a, Err b => (a =? b) && res_eqb (fun _ _ => true) (check_version (tvv_softly k) (tvv_cur k) (tvv_v k)) (Err a)
   | _, _ => false
   end, true).
