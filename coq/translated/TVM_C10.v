(* Definitions for the translation validation of C10's two seed statements (no theorems): the seed guard of
   simulate_gt (haptools/sim_genotype.py: the top-level `if` statement whose body calls np.random.seed) and the
   statement `self.rng = np.random.default_rng(seed)` of PhenoSimulator.__init__ (haptools/sim_phenotype.py),
   regenerated from /repo's current source (HVG.Gen_Seed), and their evaluation on the cases of the tv_guard
   relation.

   numpy is not translated.  `np.random.seed(a)` is a call with an EFFECT on the process-global generator: the
   model threads that state through the slice as the parameter "$gen", and the call replaces it by
   exts_np_random_seed [old state; a] - any function (Section variable of the generated module);
   `np.random.default_rng(a)` is the Section variable extc_np_random_default_rng on [a].  `log.info(...)` is
   skipped (logging).  A seed is an int or None. *)
From HV Require Import Prelude MiniPy MiniPyFacts C10_Model.
From HVG Require Import Gen_Seed.
From Coq Require Import String.
Open Scope string_scope.
Open Scope list_scope.
Open Scope Z_scope.

Definition enc_seed (s : option Z) : val := match s with Some k => VInt k | None => VNone end.

(* for the evaluation: a generator state that records the seeds it was given, and a default_rng that returns
   a token carrying its argument *)
Definition rec_seed (args : list val) : res val :=
  match args with
  | [VList l; VInt k] => Ok (VList (l ++ [VInt k]))
  | _ => Err E_Unsupported
  end.
Definition rng_token : Z := 777.
Definition rec_rng (args : list val) : res val :=
  match args with
  | [a] => Ok (VTuple [VInt rng_token; a])
  | _ => Err E_Unsupported
  end.

Fixpoint dec_ints (l : list val) : option (list Z) :=
  match l with
  | [] => Some []
  | VInt z :: r => option_map (cons z) (dec_ints r)
  | _ => None
  end.

(* the seeds np.random.seed is called with by the guard, in order *)
Definition tv_guard_calls (seed : option Z) : res (list Z) :=
  match fn_simulate_gt_seed_guard rec_rng rec_seed 0 [enc_seed seed; VList []] with
  | Ok (_, [_; VList l]) => match dec_ints l with Some x => Ok x | None => Err E_Unsupported end
  | Ok _ => Err E_Unsupported
  | Err k => Err k
  end.

(* the argument default_rng is called with; the result is what self.rng is bound to *)
Definition tv_rng_arg (seed : option Z) : res (option Z) :=
  match fn_pheno_init_rng rec_rng rec_seed 0 [enc_seed seed] with
  | Ok (VTuple [VInt t; VInt k], _) => if t =? rng_token then Ok (Some k) else Err E_Unsupported
  | Ok (VTuple [VInt t; VNone], _) => if t =? rng_token then Ok None else Err E_Unsupported
  | Ok _ => Err E_Unsupported
  | Err k => Err k
  end.

(* ---- evaluation on the cases of the tv_guard relation ---- *)
Record tgcase := mktg {
  tg_seed : option Z;
  tg_seed_calls : res (list Z);          (* the arguments of the np.random.seed calls simulate_gt made *)
  tg_rng_args : res (list (option Z));   (* the arguments of the np.random.default_rng calls of PhenoSimulator(...) *)
  tg_rng_bound : bool                    (* self.rng is the object that call returned *)
}.

Definition tv_model_guard (k : tgcase) := (tv_guard_calls (tg_seed k), tv_rng_arg (tg_seed k)).

(* agree: the interpreted statements make the calls the real ones made (and the model's guard_fires says so too);
   holds: nothing is demanded here (C10 is judged by the genotype / phenotype / replicates relations) *)
Definition check_tv_guard (k : tgcase) : bool * bool :=
  (res_eqb (list_eqb Z.eqb) (tv_guard_calls (tg_seed k)) (tg_seed_calls k)
   && res_eqb (list_eqb Z.eqb)
        (Ok (match tg_seed k with
             | Some z => if guard_fires false (tg_seed k) then [z] else []
             | None => []
             end)) (tg_seed_calls k)
   && res_eqb (list_eqb (opt_eqb Z.eqb))
        (match tv_rng_arg (tg_seed k) with Ok a => Ok [a] | Err e => Err e end) (tg_rng_args k)
   && tg_rng_bound k,
   true).
