(* Definitions for the translation validation of C12's ID-index maintenance (no theorems): the whole bodies of
   Genotypes.index(samples, variants) (haptools/data/genotypes.py) and Phenotypes.index(samples, names), and the
   index part of Phenotypes.append(name, data) (haptools/data/phenotypes.py: from `if self._name_idx is not None:` to
   the end), regenerated from /repo's current source (HVG.Gen_Index), and their evaluation on the histories of the
   tv_index relation.

   The attributes self._samp_idx / self._var_idx / self._name_idx (and self.names in append) are VARIABLES of the
   slices (slice key "self_state"): parameters whose final values are the attributes' final values; self.samples /
   self.names are read-only parameters, the numpy column self.variants["id"] enters as the list of its elements
   ("struct_cols": len(self.variants) is the length of that list).  A `raise ValueError(...)` statement is emitted as
   `$raised = 1; return None` ("raise_state"), so that the caches AT the raise are visible.  IDs are strings that are
   only compared: opaque tokens (VStr).  dict(zip(ids, range(len(ids)))) is MiniPy.dict_zip: a repeated key keeps its
   first position and takes the LAST value - exactly C12_Model.lastpos (TV_C12.TV_cache_lookup). *)
From HV Require Import Prelude GenoTable MiniPy MiniPyFacts C13_Model C12_Model.
From HVG Require Import Gen_Index.
From Coq Require Import String.
Open Scope string_scope.
Open Scope list_scope.
Open Scope Z_scope.

(* an ID sequence: a tuple (self.samples, self.names) or a list (the elements of the numpy column) *)
Definition enc_ids (tup : bool) (ids : list Z) : val :=
  if tup then VTuple (map VStr ids) else VList (map VStr ids).

(* the dictionary dict(zip(ids, range(len(ids)))) as the interpreter builds it *)
Definition snap_dict (s : list Z) : list (val * val) :=
  dict_zip (map VStr s) (range_list (List.length s) 0) [].

(* a cache of the hand model (None, or the snapshot of the ID list it was built from) as the value of the attribute *)
Definition enc_cache (c : option (list Z)) : val :=
  match c with None => VNone | Some s => VDict (snap_dict s) end.

Definition enc_raised {A} (r : res A) : val := match r with Ok _ => VNone | Err k => VInt k end.

(* the hand model of index() on an object whose table is just its two ID lists: C12_Model.m_stepx with heal = true
   (index() as repaired by 7ca5520: the dictionary in which duplicates were found is discarded) *)
Definition idtab : Type := (list Z * list Z)%type.
Definition id_sub (snap req : list Z) (t : idtab) : res idtab := Ok t.
Definition index_model (b1 b2 : bool) (c1 c2 : option (list Z)) (ids1 ids2 : list Z)
  : obj idtab * res (out idtab unit) :=
  m_stepx idtab unit fst snd id_sub id_sub true (mko (ids1, ids2) c1 c2) (Index b1 b2).

(* the hand model of append()'s effect on the name cache (C12_Model.p_interp, PAppend, fixapp = true) *)
Definition append_act (name : Z) (names : list Z) : act :=
  if memZ name names then Reset else Push name.

(* ---- running the translated code ---- *)
Definition run_index (cls : Z) (b1 b2 : bool) (c1 c2 : val) (tup2 : bool) (ids1 ids2 : list Z)
  : res (val * val * val) :=
  match (if cls =? 0 then fn_geno_index else fn_pheno_index) 0%nat
          [VBool b1; VBool b2; c1; c2; enc_ids true ids1; enc_ids tup2 ids2; VNone] with
  | Ok (_, [_; _; c1'; c2'; _; _; r]) => Ok (c1', c2', r)
  | Ok _ => Err E_Unsupported
  | Err k => Err k
  end.

Definition run_append (name : Z) (c2 : val) (names : list Z) : res (val * val) :=
  match fn_pheno_append_index 0%nat [VStr name; c2; enc_ids true names] with
  | Ok (_, [_; c2'; names']) => Ok (c2', names')
  | Ok _ => Err E_Unsupported
  | Err k => Err k
  end.

(* ---- evaluation on the histories of the tv_index relation ---- *)
(* what the harness saw of a cache: None, or the (ID, position) items of the dictionary in iteration order *)
Definition obs_cache := option (list (Z * Z)).
Definition enc_obs (o : obs_cache) : val :=
  match o with None => VNone | Some l => VDict (map (fun p => (VStr (fst p), VInt (snd p))) l) end.

Inductive tiop :=
| TIndex (b1 b2 : bool)                 (* obj.index(b1, b2) *)
| TAppend (x : Z)                       (* Phenotypes only: obj.append(x, column) *)
| TSet (reset : bool) (ids1 ids2 : list Z).
    (* the harness replaces obj.samples / the variants array / obj.names; reset: it also sets both index attributes to
       None (as read() does), else they are left as they are (stale) *)

Record tistep := mkts {
  ts_op : tiop;
  ts_c1 : obs_cache; ts_c2 : obs_cache;   (* the two index attributes after the operation *)
  ts_ids2 : list Z;                       (* variant IDs / names after the operation *)
  ts_raised : option Z                    (* the kind of the exception the operation raised *)
}.

Record ticase := mkti {
  ti_cls : Z;                             (* 0 = a Genotypes object, 1 = a Phenotypes object *)
  ti_ids1 : list Z; ti_ids2 : list Z;
  ti_steps : list tistep
}.

(* the translated code along a history, threading the attribute values; and the hand model beside it *)
Record tistate := mkst { st_c1 : val; st_c2 : val; st_m1 : option (list Z); st_m2 : option (list Z);
                         st_ids1 : list Z; st_ids2 : list Z }.

Definition tv_step (cls : Z) (s : tistate) (p : tiop) : res (tistate * option Z) :=
  match p with
  | TIndex b1 b2 =>
      match run_index cls b1 b2 (st_c1 s) (st_c2 s) (negb (cls =? 0)) (st_ids1 s) (st_ids2 s) with
      | Err k => Err k
      | Ok (c1, c2, r) =>
          let '(o, mr) := index_model b1 b2 (st_m1 s) (st_m2 s) (st_ids1 s) (st_ids2 s) in
          Ok (mkst c1 c2 (o_c1 o) (o_c2 o) (st_ids1 s) (st_ids2 s),
              match r with VInt k => Some k | _ => None end)
      end
  | TAppend x =>
      match run_append x (st_c2 s) (st_ids2 s) with
      | Err k => Err k
      | Ok (c2, _) =>
          Ok (mkst (st_c1 s) c2 (st_m1 s) (apply_act (append_act x (st_ids2 s)) (st_m2 s))
                   (st_ids1 s) (st_ids2 s ++ [x]), None)
      end
  | TSet reset i1 i2 =>
      Ok (if reset then mkst VNone VNone None None i1 i2
          else mkst (st_c1 s) (st_c2 s) (st_m1 s) (st_m2 s) i1 i2, None)
  end.

Fixpoint tv_run (cls : Z) (s : tistate) (steps : list tistep) : list (res (val * val * list Z * option Z)) :=
  match steps with
  | [] => []
  | t :: r =>
      match tv_step cls s (ts_op t) with
      | Err k => [Err k]
      | Ok (s', raised) => Ok (st_c1 s', st_c2 s', st_ids2 s', raised) :: tv_run cls s' r
      end
  end.

Definition tv_model_index (k : ticase) :=
  tv_run (ti_cls k) (mkst VNone VNone None None (ti_ids1 k) (ti_ids2 k)) (ti_steps k).

(* one step agrees when the interpreted code leaves exactly the dictionaries (items in order), the names and the
   exception the real call left, and the hand model's caches denote the same dictionaries *)
Fixpoint tv_agree (cls : Z) (s : tistate) (steps : list tistep) : bool :=
  match steps with
  | [] => true
  | t :: r =>
      match tv_step cls s (ts_op t) with
      | Err _ => false
      | Ok (s', raised) =>
          val_eqb (st_c1 s') (enc_obs (ts_c1 t)) && val_eqb (st_c2 s') (enc_obs (ts_c2 t))
          && list_eqb Z.eqb (st_ids2 s') (ts_ids2 t)
          && opt_eqb Z.eqb raised (ts_raised t)
          && val_eqb (enc_cache (st_m1 s')) (st_c1 s') && val_eqb (enc_cache (st_m2 s')) (st_c2 s')
          && tv_agree cls s' r
      end
  end.

(* agree as above; holds: nothing is demanded here (C12 is judged by the geno / pheno / haps relations) *)
Definition check_tv_index (k : ticase) : bool * bool :=
  (tv_agree (ti_cls k) (mkst VNone VNone None None (ti_ids1 k) (ti_ids2 k)) (ti_steps k), true).
