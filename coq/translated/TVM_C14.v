(* Encoders/decoders between the hand-written C14 model's data and MiniPy values, and the
   evaluation of the code as translated from the current source on observed call histories.
   Definitions only (compiled per run against HVG.Gen_SimGenotype): it stays runnable when a
   translation-validation proof in TV_C14.v breaks. *)
From HV Require Import Prelude MiniPy MiniPyFacts Tracts C01_Model C14_Model C14_Check.
From HVG Require Import Gen_SimGenotype.
From Coq Require Import String.
Open Scope string_scope.
Open Scope Z_scope.

(* an interval of the haps_used table; [ec] encodes the chromosome key (the kernel relations use
   ints, _convert_haplotype registers the command-line string, or the int 23 for X) *)
Definition enc_ival_g (ec : Z -> val) (u : ival) : val := let '(c, a, b) := u in VTuple [ec c; VInt a; VInt b].
Notation enc_used_g ec u := (VList (map (enc_ival_g ec) u)).
Notation enc_hu_g ec hu := (VList (map (fun u : used => enc_used_g ec u) hu)).
Notation enc_ival := (enc_ival_g VInt).
Notation enc_used u := (enc_used_g VInt u).
Notation enc_hu hu := (enc_hu_g VInt hu).

(* ---- evaluation of the translated code on observed histories (correspondence) ------ *)

Definition dec_ival (v : val) : option ival :=
  match v with VTuple [VInt c; VInt a; VInt b] => Some (c, a, b) | _ => None end.
Fixpoint dec_list {A} (d : val -> option A) (l : list val) : option (list A) :=
  match l with
  | [] => Some []
  | x :: r => match d x, dec_list d r with Some a, Some s => Some (a :: s) | _, _ => None end
  end.
Definition dec_used (v : val) : option used :=
  match v with VList l => dec_list dec_ival l | _ => None end.
Definition dec_hu (v : val) : option (list used) :=
  match v with VList l => dec_list dec_used l | _ => None end.

Definition tv_fuel : nat := 64%nat.

Fixpoint zrange (n : nat) (from : Z) : list Z :=
  match n with O => [] | S n' => from :: zrange n' (from + 1) end.

Definition tv_op (dom : list Z) (hu : list used) (o : op) : bool * list used :=
  match o with
  | OpCoord hap c a b obs =>
      match nthZ hu hap with
      | None => (res_eqb Bool.eqb (Err E_Index) obs, hu)
      | Some cur =>
          match fn__find_coord tv_fuel [enc_used cur; VInt c; VInt a; VInt b] with
          | Ok (VBool f, cur' :: _) =>
              match dec_used cur' with
              | Some u => (res_eqb Bool.eqb (Ok f) obs, set_nth hu (Z.to_nat hap) u)
              | None => (false, hu)
              end
          | Ok _ => (false, hu)
          | Err k => (res_eqb Bool.eqb (Err k) obs, hu)
          end
      end
  | OpSample samples c a b obs =>
      match fn__find_random_sample tv_fuel
              [VList (map VInt samples); iddict dom; enc_hu hu; VInt c; VInt a; VInt b] with
      | Ok (VTuple [VInt s; VInt h], [_; _; hu'; _; _; _]) =>
          match dec_hu hu' with
          | Some x => (res_eqb zz_eqb (Ok (s, h)) obs, x)
          | None => (false, hu)
          end
      | Ok _ => (false, hu)
      | Err k => (res_eqb zz_eqb (Err k) obs, hu)
      end
  end.

Fixpoint tv_ops (dom : list Z) (hu : list used) (ops : list op) : bool * list used :=
  match ops with
  | [] => (true, hu)
  | o :: r => let '(ok, hu') := tv_op dom hu o in
              let '(ok', hu'') := tv_ops dom hu' r in (ok && ok', hu'')
  end.

(* the harness's sample dictionary names the reference samples 0 .. n/2+1 *)
Definition model_tv_kernel (k : kcase) : bool * list used :=
  tv_ops (zrange (Z.to_nat (k_nhaps k / 2 + 2)) 0) (init_used (k_nhaps k)) (k_ops k).

(* agree: the translated source, run on the recorded calls, gives what the implementation gave;
   holds: the property on the observed history (as in C14_Check) *)
Definition check_tv_kernel (k : kcase) : bool * bool :=
  let '(ok, hu) := model_tv_kernel k in
  (ok && list_eqb used_eqb hu (k_final k), holds_kernel k).

(* ---- _convert_haplotype as translated, on observed calls (conv relation) ------------- *)
From HV Require Import C03_Model C14_CheckConv.
From HVG Require Import TVM_C01.

(* chromosome as the command line gives it: the decimal string, or 'X' (token strlit_X) *)
Definition enc_chrom_arg (c : Z) : val := if c =? 23 then VStr strlit_X else VNumStr c.
(* ... and as _convert_haplotype registers it: the string, or the int 23 *)
Definition enc_chrom_reg (c : Z) : val := if c =? 23 then VInt 23 else VNumStr c.
Definition enc_ival_s (u : ival) : val := let '(c, a, b) := u in VTuple [enc_chrom_reg c; VInt a; VInt b].
Definition enc_hu_s (hu : list used) : val := VList (map (fun u : used => VList (map enc_ival_s u)) hu).
Definition dec_ival_s (v : val) : option ival :=
  match v with
  | VTuple [VNumStr c; VInt a; VInt b] => Some (c, a, b)
  | VTuple [VInt c; VInt a; VInt b] => Some (c, a, b)
  | _ => None
  end.
Definition dec_hu_s (v : val) : option (list used) :=
  match v with
  | VList l => dec_list (fun u => match u with VList x => dec_list dec_ival_s x | _ => None end) l
  | _ => None
  end.

Notation label_tok k := (VStr (100 + k)).
Definition enc_pop_dict (npop : Z) : val :=
  VDict (map (fun i => (VInt i, label_tok i)) (zrange (Z.to_nat npop) 0)).
Definition enc_pop_sample (t : poptab) : val :=
  VDDict (map (fun kv : Z * list Z => (label_tok (fst kv), VList (map VInt (snd kv)))) t).
Definition dec_zlist (v : val) : option (list Z) :=
  match v with VList l => dec_list (fun x => match x with VInt z => Some z | _ => None end) l | _ => None end.
Fixpoint dec_ddict (l : list (val * val)) : option poptab :=
  match l with
  | [] => Some []
  | (VStr k, v) :: r =>
      match dec_zlist v, dec_ddict r with
      | Some zs, Some t => Some ((k - 100, zs) :: t)
      | _, _ => None
      end
  | _ => None
  end.

Fixpoint zip_blocks (pos pops samp inds : list Z) : list block :=
  match pos, pops, samp with
  | e :: pr, q :: qr, s :: sr =>
      match inds with
      | h :: hr => mkb e q s h :: zip_blocks pr qr sr hr
      | [] => mkb e q s (-1) :: zip_blocks pr qr sr []
      end
  | _, _, _ => []
  end.

Definition conv_args (k : vcase) : list val :=
  [enc_segs (v_hap k); enc_chrom_arg (v_c k); enc_pop_dict (v_npop k);
   enc_pop_sample (v_tab k);
   iddict (zrange (Z.to_nat (lenZ (v_hu k) / 2 + 2)) 0);
   enc_hu_s (v_hu k); VBool (v_norep k);
   VList (map (fun p => VList (map VInt p)) (v_shuf k)); VList (map VInt (v_choice k))].

(* result blocks, final haps_used, final population table *)
Definition model_tv_conv (k : vcase) : res (list block * list used * poptab) :=
  match fn__convert_haplotype tv_fuel (conv_args k) with
  | Ok (VTuple [p1; p2; _; p4; p5], [_; _; _; VDDict ps; _; hu; _; _; _]) =>
      match dec_zlist p1, dec_zlist p2, dec_zlist p4, dec_zlist p5, dec_hu_s hu, dec_ddict ps with
      | Some a, Some b, Some c, Some d, Some h, Some t => Ok (zip_blocks a b c d, h, t)
      | _, _, _, _, _, _ => Err E_Unsupported
      end
  | Ok _ => Err E_Unsupported
  | Err e => Err e
  end.

(* the population table may have gained entries: a defaultdict creates the key it is asked for;
   the model's table keeps only what was there, so empty additions are dropped before comparing *)
Definition drop_empty (t : poptab) : poptab :=
  filter (fun kv => match snd kv with [] => false | _ => true end) t.

Definition check_tv_conv (k : vcase) : bool * bool :=
  (match model_tv_conv k, v_obs k with
   | Ok (bl, hu, t), Ok obl =>
       block_list_eqb bl obl && hu_eqb hu (v_hu_after k)
       && poptab_eqb (drop_empty t) (drop_empty (v_tab_after k))
   | Err e, Err e' => e =? e'
   | _, _ => false
   end, holds_conv k).
