(* Encoders/decoders between the hand-written C14 model's data and MiniPy values, and the
   evaluation of the code as translated from the current source on observed call histories.
   Definitions only (compiled per run against HVG.Gen_SimGenotype): it stays runnable when a
   translation-validation proof in TV_C14.v breaks. *)
From HV Require Import Prelude MiniPy MiniPyFacts Tracts C01_Model C14_Model C14_Check.
From HVG Require Import Gen_SimGenotype.
From Coq Require Import String.
Open Scope string_scope.
Open Scope Z_scope.

Definition enc_ival (u : ival) : val := let '(c, a, b) := u in VTuple [VInt c; VInt a; VInt b].
Notation enc_used u := (VList (map enc_ival u)).
Notation enc_hu hu := (VList (map (fun u : used => enc_used u) hu)).

(* ---- evaluation of the translated code on observed histories (correspondence) ------ *)

Definition dec_ival (v : val) : option ival :=
  match v with VTuple [VInt c; VInt a; VInt b] => Some (c, a, b) | _ => None end.
Fixpoint dec_list {A} (d : val -> option A) (l : list val) : option (list A) :=
  match l with
  | [] => Some []
  | x :: r => match d x, dec_list d r with Some a, Some s => Some (a :: s) | _, _ => None end
  end.
Definition dec_used (v : val) : option used :=
  match v with VList l => dec_list dec_ival l | _ => None end.
Definition dec_hu (v : val) : option (list used) :=
  match v with VList l => dec_list dec_used l | _ => None end.

Definition tv_fuel : nat := 64%nat.

Fixpoint zrange (n : nat) (from : Z) : list Z :=
  match n with O => [] | S n' => from :: zrange n' (from + 1) end.

Definition tv_op (dom : list Z) (hu : list used) (o : op) : bool * list used :=
  match o with
  | OpCoord hap c a b obs =>
      match nthZ hu hap with
      | None => (res_eqb Bool.eqb (Err E_Index) obs, hu)
      | Some cur =>
          match fn__find_coord tv_fuel [enc_used cur; VInt c; VInt a; VInt b] with
          | Ok (VBool f, cur' :: _) =>
              match dec_used cur' with
              | Some u => (res_eqb Bool.eqb (Ok f) obs, set_nth hu (Z.to_nat hap) u)
              | None => (false, hu)
              end
          | Ok _ => (false, hu)
          | Err k => (res_eqb Bool.eqb (Err k) obs, hu)
          end
      end
  | OpSample samples c a b obs =>
      match fn__find_random_sample tv_fuel
              [VList (map VInt samples); iddict dom; enc_hu hu; VInt c; VInt a; VInt b] with
      | Ok (VTuple [VInt s; VInt h], [_; _; hu'; _; _; _]) =>
          match dec_hu hu' with
          | Some x => (res_eqb zz_eqb (Ok (s, h)) obs, x)
          | None => (false, hu)
          end
      | Ok _ => (false, hu)
      | Err k => (res_eqb zz_eqb (Err k) obs, hu)
      end
  end.

Fixpoint tv_ops (dom : list Z) (hu : list used) (ops : list op) : bool * list used :=
  match ops with
  | [] => (true, hu)
  | o :: r => let '(ok, hu') := tv_op dom hu o in
              let '(ok', hu'') := tv_ops dom hu' r in (ok && ok', hu'')
  end.

(* the harness's sample dictionary names the reference samples 0 .. n/2+1 *)
Definition model_tv_kernel (k : kcase) : bool * list used :=
  tv_ops (zrange (Z.to_nat (k_nhaps k / 2 + 2)) 0) (init_used (k_nhaps k)) (k_ops k).

(* agree: the translated source, run on the recorded calls, gives what the implementation gave;
   holds: the property on the observed history (as in C14_Check) *)
Definition check_tv_kernel (k : kcase) : bool * bool :=
  let '(ok, hu) := model_tv_kernel k in
  (ok && list_eqb used_eqb hu (k_final k), holds_kernel k).
