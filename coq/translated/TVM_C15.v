(* Definitions for the translation validation of C15 (no theorems): how the values of the
   unique-column-name loop of Phenotypes.write (haptools/data/phenotypes.py) are represented as MiniPy
   values, and the evaluation of the translated code (regenerated from /repo's current source:
   HVG.Gen_Phenotypes, the statement slice `uniq_names = Counter()` ... `names[idx] = new_name`) on the
   name tuples of the roundtrip relation (tv_names).

   A column name is a VText (code points); self.names is a tuple (or a list) of them; the Counter is a
   VCounter keyed by names, the set of written names a VSet. *)
From HV Require Import Prelude MiniPy MiniPyFacts C15_Model C15_Check.
From HVG Require Import Gen_Phenotypes.
From Coq Require Import String.
Open Scope string_scope.
Open Scope list_scope.
Open Scope Z_scope.

Definition enc_names (l : list name) : list val := map VText l.
(* self.names: a tuple by convention; a list behaves the same in the slice *)
Definition enc_seq (tup : bool) (l : list val) : val := if tup then VTuple l else VList l.

Fixpoint dec_names (l : list val) : option (list name) :=
  match l with
  | [] => Some []
  | VText s :: r => option_map (cons s) (dec_names r)
  | _ => None
  end.

(* the fuel of the interpreter: the while loop runs at most once per name already written, plus once *)
Definition tv_fuel (names : list name) : nat := S (S (List.length names)).

Definition tv_unique_names (names : list name) : res (list name) :=
  match fn_write_unique_names (tv_fuel names) [enc_seq true (enc_names names)] with
  | Ok (VList l, _) => match dec_names l with Some out => Ok out | None => Err E_Unsupported end
  | Ok _ => Err E_Unsupported
  | Err k => Err k
  end.

(* ---- evaluation on the cases of the tv_names relation ------------------------------------------ *)
Record tvncase := mktvn {
  tn_names : list name;            (* Phenotypes.names *)
  tn_obs : res (list name)         (* the column names of the header line Phenotypes.write wrote *)
}.

Definition tv_model_names (k : tvncase) : res (list name) := tv_unique_names (tn_names k).

(* agree: the slice as translated from the current source, interpreted, computes the names the implementation
   wrote; holds: nothing is demanded here (the property is checked by the roundtrip relation) *)
Definition check_tv_names (k : tvncase) : bool * bool :=
  (res_eqb (list_eqb name_eqb) (tv_model_names k) (tn_obs k), true).
