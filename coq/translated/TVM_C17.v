(* Definitions for the translation validation of C17 (no theorems): how summary-statistics rows,
   tables and clumps are represented as MiniPy values, the window test the translated
   QueryWindow computes, and the evaluation of the translated clumping loop (regenerated from
   /repo's current source: HVG.Gen_Clump) on the cases of the clump relation (tv_clump).

   A Variant object is VObj cls_Variant [varid; chrom; pos; pval; vartype; KEY]: the five
   attributes its __init__ stores, and as a sixth component the index of the row among the loaded
   rows.  Python compares Variant objects by identity (`variant not in clumpvars`; the class has
   no __eq__, the translator checks that); MiniPy compares objects structurally, so the key makes
   two rows that agree on all five attributes two objects - in every table whose keys are
   distinct (C17_Model.rekey), equality of the encodings is identity of the rows. *)
From HV Require Import Prelude MiniPy MiniPyFacts PearsonQ Stats C17_Model C17_Check.
From HVG Require Import Gen_Clump.
From Coq Require Import String QArith.
From Coq Require PrimFloat.
Open Scope string_scope.
Open Scope Z_scope.

Definition enc_var (v : svar) : val :=
  VObj cls_Variant [VStr (sv_id v); VStr (sv_chrom v); VInt (sv_pos v); VQ (sv_p v); VStr (sv_type v);
                    VInt (sv_key v)].
Definition enc_vars (l : list svar) : val := VList (map enc_var l).
Definition enc_stats (l : list svar) : val := VObj cls_SummaryStats [enc_vars l].
Definition enc_opt (o : option svar) : val := match o with Some v => enc_var v | None => VNone end.
(* what WriteClump receives: (indexvar, clumpvars) *)
Definition enc_clump (c : clump) : val := VTuple [enc_var (fst c); enc_vars (snd c)].

(* QueryWindow's test: same chromosome and abs(dpos) / 1000 < window_kb, with the float quotient
   [fdiv |dpos| 1000] and an exact comparison.  With fdiv x y := x # y it is C17_Model.win_q. *)
Definition win_fdiv (fdiv : Z -> Z -> Q) (kb : Q) (iv v : svar) : bool :=
  (sv_chrom v =? sv_chrom iv) && Qlt_bool (fdiv (Z.abs (sv_pos v - sv_pos iv)) 1000) kb.

(* "r2 > clump_r2" on what ComputeLD returned: a pair (Dprime, r2) with r2 a number; nan > x is False *)
Definition r2_gt (t : val) (r2 : Q) : bool :=
  match t with
  | VTuple [_; r] => match as_flt r with Some (Some q) => Qlt_bool r2 q | _ => false end
  | _ => false
  end.

(* the loop's two uses of the untranslated functions, as the [load] / [pass] of C17_Model.clump_loop
   (G := val: the genotype array LoadVariant returned) *)
Definition tv_load (eL : list val -> res val) (gts log : val) (iv : svar) : res val :=
  eL [enc_var iv; gts; log].
Definition tv_pass (eL eC : list val -> res val) (gts ldt log : val) (r2 : Q) (gi : val) (iv c : svar) : res bool :=
  bind (eL [enc_var c; gts; log]) (fun gc =>
  bind (eC [gc; gi; ldt; log]) (fun t => Ok (r2_gt t r2))).
(* the total r2 test they induce (false where a lookup fails: such a run returns no clumps) *)
Definition tv_pb (eL eC : list val -> res val) (gts ldt log : val) (r2 : Q) (iv c : svar) : bool :=
  match tv_load eL gts log iv with
  | Ok gi => match tv_pass eL eC gts ldt log r2 gi iv c with Ok b => b | Err _ => false end
  | Err _ => false
  end.

(* ---- evaluation on the cases of the clump relation ------------------------------------------------- *)

(* Python's int / int in float64 arithmetic (|x|, |y| < 2^53), as the exact value of the result *)
Definition fdiv_float (x y : Z) : Q := f2q0 (PrimFloat.div (f_of_Z x) (f_of_Z y)).

(* LoadVariant / ComputeLD for the evaluation: the hand model's genotype lookup and the r2 oracle of
   the case (Pearson: the model's r2; Exact: the values recorded from the run).  A loaded genotype
   array is represented by (ID, CHROM, POS, calls) of the variant it was loaded for. *)
Definition dec_var (v : val) : option svar :=
  match v with
  | VObj _ [VStr i; VStr c; VInt p; VQ pv; VStr t; VInt k] => Some (mksv i c p pv t k)
  | _ => None
  end.
Definition enc_calls (v : svar) (calls : list (Z * Z)) : val :=
  VTuple [VStr (sv_id v); VStr (sv_chrom v); VInt (sv_pos v);
          VList (map (fun c : Z * Z => VTuple [VInt (fst c); VInt (snd c)]) calls)].
Definition dec_calls (g : val) : option (svar * list (Z * Z)) :=
  match g with
  | VTuple [VStr i; VStr c; VInt p; VList l] =>
      Some (mksv i c p 0 0 0,
            map (fun x => match x with VTuple [VInt a; VInt b] => (a, b) | _ => (0, 0) end) l)
  | _ => None
  end.
Definition ev_load (gts : list gent) (args : list val) : res val :=
  match args with
  | [v; _; _] => match dec_var v with
                 | Some sv => match load_variant gts sv with Ok calls => Ok (enc_calls sv calls) | Err e => Err e end
                 | None => Err E_Unsupported end
  | _ => Err E_Unsupported
  end.
Definition ev_ld (orc : r2oracle) (args : list val) : res val :=
  match args with
  | [gc; gi; _; _] =>
      match dec_calls gc, dec_calls gi with
      | Some (c, cc), Some (iv, ci) =>
          match orc iv c cc ci with
          | Ok (Some q) => Ok (VTuple [VNone; VQ q])
          | Ok None => Ok (VTuple [VNone; VNaN])
          | Err e => Err e
          end
      | _, _ => Err E_Unsupported
      end
  | _ => Err E_Unsupported
  end.

Definition dec_out (v : val) : option (list clump) :=
  match v with
  | VList l =>
      fold_right (fun x acc =>
        match x, acc with
        | VTuple [i; VList ms], Some r =>
            match dec_var i, fold_right (fun m a => match dec_var m, a with Some s, Some t => Some (s :: t) | _, _ => None end)
                                        (Some []) ms with
            | Some iv, Some mv => Some ((iv, mv) :: r)
            | _, _ => None end
        | _, _ => None end) (Some []) l
  | _ => None
  end.

(* clumpstr with the TRANSLATED loop in place of C17_Model.clump_loop: [fdiv] the float quotient,
   [orc] the r2 oracle, [kq] the value of clump_kb *)
Definition tv_clumpstr (fdiv : Z -> Z -> Q) (orc : r2oracle) (kq : Q) (c : cfg) : res (list clump) :=
  bind (clumpstr_gen (fun gts stats =>
          fn__clump_loop fdiv (ev_load gts) (ev_ld orc) (S (List.length stats))
            [enc_stats stats; VQ (k_p1 c); VQ kq; VQ (k_r2 c); VNone; VNone; VNone; VList []]) c)
       (fun r => match dec_out (nth 7 (snd r) VNone) with
                 | Some cl => Ok cl
                 | None => Err E_Unsupported end).

Definition tv_model_clump (k : ccase) : res (list orow) :=
  match f2q (cc_kb k) with
  | None => Err E_Unobserved
  | Some kq =>
      match tv_clumpstr fdiv_float (oracle_of k) kq (cc_cfg k) with
      | Ok cl => Ok (rows_of cl)
      | Err e => Err e end
  end.

(* agree: the translated loop, interpreted, gives the rows the implementation wrote (or its error
   kind); holds: nothing is demanded here (the property is checked by the clump relation) *)
Definition check_tv_clump (k : ccase) : bool * bool :=
  (res_eqb (list_eqb orow_eqb) (tv_model_clump k) (cc_obs k), true).
