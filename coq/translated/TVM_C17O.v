(* Definitions for the translation validation of GetOverlappingSamples (haptools/clump.py; no theorems): how
   sample-name tuples and the result of _SortSamples are represented as MiniPy values, and the evaluation of the
   translated function (regenerated from /repo's current source: HVG.Gen_Clump, the whole body of
   GetOverlappingSamples from `snp_match_inds = []` through its return statement, cut out as the synthetic function
   _overlap_walk(snpgts_samples, strgts_samples)) on the cases of the tv_overlap relation.

   Sample names are strings that the function only compares with < and ==; as in C17_Model they are integers
   assigned order-preservingly by the harness (the rank of the name among all names of the case, in Python's string
   order).  `snpgts.samples` / `strgts.samples` are read-only attribute reads: the two slice parameters.
   _SortSamples is NOT translated (np.arange, sorted(zip(...)), comprehensions with tuple targets): it is the
   Section variable ext__SortSamples of the generated module, declared in a late section so that the functions
   translated before keep their arity; its contract (TV_C17O.v) is the model's sort_samples, and the tv_overlap
   relation compares the real _SortSamples with sort_samples on every case. *)
From HV Require Import Prelude MiniPy MiniPyFacts C17_Model.
From HVG Require Import Gen_Clump.
From Coq Require Import String QArith.
Open Scope string_scope.
Open Scope list_scope.
Open Scope Z_scope.

(* Genotypes.samples is a tuple by convention; a list behaves the same in the function *)
Definition enc_names (tup : bool) (l : list Z) : val :=
  if tup then VTuple (map VInt l) else VList (map VInt l).
(* what _SortSamples returns: (sorted_samples, sorted_inds), two lists *)
Definition enc_sorted (s : list (Z * Z)) : val :=
  VTuple [VList (map (fun p : Z * Z => VInt (fst p)) s); VList (map (fun p : Z * Z => VInt (snd p)) s)].
(* what GetOverlappingSamples returns: (snp_match_inds, str_match_inds) *)
Definition enc_overlap (ov : list (Z * Z)) : val :=
  VTuple [VList (map VInt (map fst ov)); VList (map VInt (map snd ov))].

Fixpoint dec_ints (l : list val) : option (list Z) :=
  match l with
  | [] => Some []
  | VInt z :: r => option_map (cons z) (dec_ints r)
  | _ => None
  end.

(* _SortSamples for the evaluation: the model's sort *)
Definition sort_fn (args : list val) : res val :=
  match args with
  | [v] => match as_seq v with
           | Some l => match dec_ints l with
                       | Some names => Ok (enc_sorted (sort_samples names))
                       | None => Err E_Unsupported
                       end
           | None => Err E_Unsupported
           end
  | _ => Err E_Unsupported
  end.

(* the three Section variables of the generated module that GetOverlappingSamples does not use *)
Definition no_fdiv (x y : Z) : Q := 0%Q.
Definition no_ext (args : list val) : res val := Err E_Unsupported.

(* every iteration of the walk advances in at least one of the two lists *)
Definition ov_fuel (snp str : list Z) : nat := S (List.length snp + List.length str).

Definition tv_overlap (snp str : list Z) : res (list Z * list Z) :=
  match fn__overlap_walk no_fdiv no_ext no_ext sort_fn (ov_fuel snp str) [enc_names true snp; enc_names true str] with
  | Ok (VTuple [VList a; VList b], _) =>
      match dec_ints a, dec_ints b with
      | Some x, Some y => Ok (x, y)
      | _, _ => Err E_Unsupported
      end
  | Ok _ => Err E_Unsupported
  | Err k => Err k
  end.

(* ---- evaluation on the cases of the tv_overlap relation ---- *)
Record ovcase := mkov {
  ov_snp : list Z;                    (* snpgts.samples, interned order-preservingly *)
  ov_str : list Z;                    (* strgts.samples *)
  ov_sort_snp : list (Z * Z);         (* what _SortSamples(snpgts.samples) returned: (name, index) pairs *)
  ov_sort_str : list (Z * Z);
  ov_obs : res (list Z * list Z)      (* what GetOverlappingSamples returned *)
}.

Definition pairs_eqb : list (Z * Z) -> list (Z * Z) -> bool := list_eqb (pair_eqb Z.eqb Z.eqb).
Definition ovres_eqb : res (list Z * list Z) -> res (list Z * list Z) -> bool :=
  res_eqb (pair_eqb (list_eqb Z.eqb) (list_eqb Z.eqb)).

Definition tv_model_overlap (k : ovcase) := tv_overlap (ov_snp k) (ov_str k).

(* agree: the interpreted function returns the two index lists the real one returned; the hand model `overlapping`
   does too; and the real _SortSamples is the contract under which the theorems are stated (sort_samples).
   holds: nothing is demanded here (C17 is judged by the clump relation) *)
Definition check_tv_overlap (k : ovcase) : bool * bool :=
  (ovres_eqb (tv_model_overlap k) (ov_obs k)
   && ovres_eqb (let ov := overlapping (ov_snp k) (ov_str k) in Ok (map fst ov, map snd ov)) (ov_obs k)
   && pairs_eqb (sort_samples (ov_snp k)) (ov_sort_snp k)
   && pairs_eqb (sort_samples (ov_str k)) (ov_sort_str k),
   true).
