(* Definitions for the translation validation of C18 (no theorems): how the values of
   haptools/karyogram.py's GetChrom / GetHaplotypeBlocks are represented as MiniPy values, the
   instance of C18_Model that the translated code is proved equal to (TV_C18.v), and the evaluation
   of the translated code (regenerated from /repo's current source: HVG.Gen_Karyogram) on the cases
   of the blocks relation (tv_blocks).

   Strings are VText (code points).  A haplotype block is the dict the code builds:
   {"pop": str, "chrom": int, "start": float, "end": float}.  Floats are NOT modelled: a float is
   whatever value the untranslated float() returns, 0.0001 is the literal (VQ of its exact value) and
   x + 0.0001 is whatever the untranslated addition returns - so C18_Model is instantiated with
   F := val, parse_flt := float(), plus_eps := (+ 0.0001), about which its theorems assume nothing. *)
From HV Require Import Prelude MiniPy MiniPyFacts BpText C18_Model C18_Check.
From HVG Require Import Gen_Karyogram.
From Coq Require Import String QArith.
From Coq Require Import PrimFloat FloatOps SpecFloat.
Open Scope string_scope.
Open Scope list_scope.
Open Scope Z_scope.

Definition k_pop : str := [112; 111; 112].
Definition k_chrom : str := [99; 104; 114; 111; 109].
Definition k_start : str := [115; 116; 97; 114; 116].
Definition k_end : str := [101; 110; 100].
Definition s_r : str := [114].
(* the float literal 0.0001, by its exact value *)
Definition eps_q : Q := Qmake 7378697629483821 73786976294838206464.

Notation vblock := (hblock val).
Definition enc_block (b : vblock) : val :=
  VDict [(VText k_pop, VText (h_pop b)); (VText k_chrom, VInt (h_chrom b));
         (VText k_start, h_start b); (VText k_end, h_end b)].
Definition enc_blocks (l : list vblock) : val := VList (map enc_block l).
Definition enc_sb (sb : list (list vblock)) : val := VList (map enc_blocks sb).
Definition enc_toks (l : list str) : val := VList (map VText l).
Definition enc_ends (d : list (Z * val)) : val := VDict (map (fun p : Z * val => (VInt (fst p), snd p)) d).

(* Python's s.split(c) for a one-character separator and c.join(l) *)
Fixpoint split_on (c : Z) (s : str) : list str :=
  match s with
  | [] => [[]]
  | x :: r =>
      if x =? c then [] :: split_on c r
      else match split_on c r with p :: ps => (x :: p) :: ps | [] => [[x]] end
  end.
Fixpoint join_with (c : Z) (l : list str) : str :=
  match l with
  | [] => []
  | a :: r => match r with [] => a | _ :: _ => a ++ c :: join_with c r end
  end.

(* ---- the instance of C18_Model ---------------------------------------------------------------- *)
Section Inst.
  (* int(), float() and the float addition of the generated module *)
  Variables eInt eFloat eAdd : list val -> res val.

  Definition tv_parse_int (s : str) : res Z :=
    match eInt [VText s] with
    | Ok (VInt z) => Ok z
    | Ok _ => Err E_Unsupported
    | Err k => Err k
    end.
  Definition tv_parse_flt (s : str) : res val := eFloat [VText s].
  Definition tv_eps : val := VQ eps_q.
  Definition tv_plus_eps (v : val) : val :=
    match eAdd [v; VQ eps_q] with Ok r => r | Err _ => VNone end.

  Definition tv_get_chrom : str -> res Z := get_chrom tv_parse_int.
  Definition tv_parse_blocks := parse_blocks val tv_parse_flt tv_parse_int tv_eps tv_plus_eps.
  Definition tv_chrom_ends := chrom_ends val tv_parse_flt tv_parse_int.
  Definition tv_get_blocks := get_blocks val tv_parse_flt tv_parse_int tv_eps tv_plus_eps.
End Inst.

(* ---- evaluation on the cases of the blocks relation -------------------------------------------- *)

(* a binary64 value as an opaque object *)
Definition cls_f64 : Z := -2.
Definition enc_f (f : float) : val :=
  match Prim2SF f with
  | S754_zero s => VObj cls_f64 [VInt 0; VBool s]
  | S754_infinity s => VObj cls_f64 [VInt 1; VBool s]
  | S754_nan => VObj cls_f64 [VInt 2]
  | S754_finite s m e => VObj cls_f64 [VInt 3; VBool s; VInt (Zpos m); VInt e]
  end.
Definition dec_f (v : val) : option float :=
  match v with
  | VObj _ [VInt 0; VBool s] => Some (SF2Prim (S754_zero s))
  | VObj _ [VInt 1; VBool s] => Some (SF2Prim (S754_infinity s))
  | VObj _ [VInt 2] => Some (SF2Prim S754_nan)
  | VObj _ [VInt 3; VBool s; VInt (Zpos m); VInt e] => Some (SF2Prim (S754_finite s m e))
  | VQ _ => Some f_eps       (* the only float literal of the translated code is 0.0001 *)
  | _ => None
  end.

Fixpoint texts (l : list val) : option (list str) :=
  match l with
  | [] => Some []
  | VText s :: r => option_map (cons s) (texts r)
  | _ => None
  end.

Section Eval.
  Variable t : ftab.
  Variables lines : list (list str).
  Variable cen : option (list (list str)).

  (* a raw line is handed over already tokenised (as in the blocks relation): strip is the identity and
     split() without separator returns the tokens *)
  Definition ev_strip (a : list val) : res val :=
    match a with [v] => Ok v | _ => Err E_Unsupported end.
  Definition ev_split (a : list val) : res val :=
    match a with
    | [VList l] => Ok (VList l)
    | [VText s; VText [c]] => Ok (VList (map VText (split_on c s)))
    | _ => Err E_Unsupported
    end.
  Definition ev_join (a : list val) : res val :=
    match a with
    | [VText [c]; VList l] => match texts l with Some ss => Ok (VText (join_with c ss)) | None => Err 4 end
    | _ => Err E_Unsupported
    end.
  Definition ev_endswith (a : list val) : res val :=
    match a with [VText s; VText p] => Ok (VBool (ends_with p s)) | _ => Err E_Unsupported end.
  Definition ev_startswith (a : list val) : res val :=
    match a with [VText s; VText p] => Ok (VBool (starts_with p s)) | _ => Err E_Unsupported end.
  Definition ev_int (a : list val) : res val :=
    match a with
    | [VText s] => match tab_int t s with Ok z => Ok (VInt z) | Err k => Err k end
    | _ => Err E_Unsupported
    end.
  Definition ev_float (a : list val) : res val :=
    match a with
    | [VText s] => match tab_flt t s with Ok f => Ok (enc_f f) | Err k => Err k end
    | _ => Err E_Unsupported
    end.
  Definition ev_exists (a : list val) : res val := Ok (VBool true).
  (* the two files: path 0 = the .bp file, path 1 = the chromosome-ends file *)
  Definition ev_open (a : list val) : res val :=
    match a with
    | [VInt 0; _] => Ok (VList (map enc_toks lines))
    | [VInt 1; _] => match cen with Some cl => Ok (VList (map enc_toks cl)) | None => Err 15 end
    | _ => Err E_Unsupported
    end.
  Definition ev_fadd (a : list val) : res val :=
    match a with
    | [x; y] => match dec_f x, dec_f y with
                | Some f, Some g => Ok (enc_f (PrimFloat.add f g))
                | _, _ => Err 4
                end
    | _ => Err E_Unsupported
    end.

  Definition dec_block (v : val) : option hb :=
    match v with
    | VDict [(VText _, VText p); (VText _, VInt c); (VText _, s); (VText _, e)] =>
        match dec_f s, dec_f e with
        | Some fs, Some fe => Some (mkhb p c fs fe)
        | _, _ => None
        end
    | _ => None
    end.
  Fixpoint all_opt {A B} (f : A -> option B) (l : list A) : option (list B) :=
    match l with
    | [] => Some []
    | a :: r => match f a, all_opt f r with Some b, Some bs => Some (b :: bs) | _, _ => None end
    end.
  Definition dec_sb (v : val) : option (list (list hb)) :=
    match v with
    | VList l => all_opt (fun s => match s with VList bs => all_opt dec_block bs | _ => None end) l
    | _ => None
    end.

  Definition tv_run (name : str) : res (val * list val) :=
    fn_GetHaplotypeBlocks ev_strip ev_split ev_join ev_endswith ev_startswith ev_int ev_float ev_exists ev_open
      ev_fadd 0%nat [VInt 0; VText name; match cen with Some _ => VInt 1 | None => VNone end].
End Eval.

Definition tv_model_blocks (k : bcase) : res (list (list hb)) :=
  match tv_run (b_tab k) (b_lines k) (b_cen k) (b_name k) with
  | Ok (v, _) => match dec_sb v with Some sb => Ok sb | None => Err E_Unsupported end
  | Err e => Err e
  end.

(* agree: GetHaplotypeBlocks as translated from the current source, interpreted, returns the blocks the
   implementation returned (or its error kind); holds: nothing is demanded here (the property is checked
   by the blocks relation) *)
Definition check_tv_blocks (k : bcase) : bool * bool :=
  (res_eqb sb_eqb (tv_model_blocks k) (b_obs k), true).
