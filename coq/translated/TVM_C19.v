(* Definitions for the translation validation of C19 (no theorems): how the values of the option
   post-processing of haptools/__main__.py (the click commands transform, simphenotype and ld) are
   represented as MiniPy values, and the evaluation of the translated code (regenerated from /repo's
   current source: HVG.Gen_Main, the top-level statement slices from `if samples and samples_file:` up to
   and including the call of the Python entry point) on the invocations of the resolve relation
   (tv_resolve).

   What click hands the command function (checked syntactically on the @click.option declarations by the
   translator, slice key "click_options"): a repeated option (type=str, multiple=True) is a tuple of str,
   empty when the option is not given; a click.File("r") option is None or ONE open text file.  A file
   object is a VObj (truthy, as every object without __bool__ / __len__) carrying the text that .read()
   returns; .read() and str.splitlines() are NOT translated (Section variables extm_read /
   extm_splitlines of the generated module: any functions), their contracts are stated in TV_C19.v.
   The call of the entry point (transform_haps / simulate_pt / calc_ld) appends the pair of its
   (samples, ids) arguments to the list "$out" (translator spec key "outputs"). *)
From HV Require Import Prelude MiniPy MiniPyFacts C19_Model C19_Check.
From HVG Require Import Gen_Main.
From Coq Require Import String.
Open Scope string_scope.
Open Scope list_scope.
Open Scope Z_scope.

Definition enc_texts (l : list str) : list val := map VText l.
(* -s A -s B / -i A -i B: a tuple of str *)
Definition enc_opts (l : list str) : val := VTuple (enc_texts l).
(* -S FILE / -I FILE: None or an open text file whose content is t *)
Definition file_cls : Z := 1900.
Definition enc_file (f : option str) : val :=
  match f with None => VNone | Some t => VObj file_cls [VText t] end.
(* the collection handed to the entry point: None, a set, or (ld's ids) a tuple *)
Definition enc_set (l : list str) : val := VSet (set_of (enc_texts l)).
Definition enc_coll (tuple : bool) (c : option (list str)) : val :=
  match c with
  | None => VNone
  | Some l => if tuple then VTuple (enc_texts l) else enc_set l
  end.

Fixpoint dec_texts (l : list val) : option (list str) :=
  match l with
  | [] => Some []
  | VText s :: r => option_map (cons s) (dec_texts r)
  | _ => None
  end.
(* (Python type as in C19_Check.v_kinds: 0 None, 1 set, 2 tuple; the members) *)
Definition dec_coll (v : val) : option (Z * option (list str)) :=
  match v with
  | VNone => Some (0, None)
  | VSet l => option_map (fun x => (1, Some x)) (dec_texts l)
  | VTuple l => option_map (fun x => (2, Some x)) (dec_texts l)
  | _ => None
  end.

(* the two untranslated methods as the correspondence run supplies them: file.read() returns the text,
   str.splitlines() is the model's splitlines (validated at character level by the resolve relation) *)
Definition read_fn (args : list val) : res val :=
  match args with
  | [VObj c [VText t]] => if c =? file_cls then Ok (VText t) else Err E_Unsupported
  | _ => Err E_Unsupported
  end.
Definition splitlines_fn (args : list val) : res val :=
  match args with
  | [VText t] => Ok (VList (enc_texts (splitlines t)))
  | _ => Err E_Unsupported
  end.

(* the translated front end of command cmd (0 transform, 1 simphenotype, 2 ld) on an invocation; simphenotype's
   slice also reads heritability, environment and normalize (the log.error test between the resolution and the
   call): any values h e and any bool nz *)
Definition fn_front (rd sp : list val -> res val) (cmd : Z) (h e : val) (nz : bool) (fuel : nat)
  (samples sfile ids ifile out : val) : res (val * list val) :=
  if cmd =? 0 then fn_transform_front rd sp fuel [samples; sfile; ids; ifile; out]
  else if cmd =? 1 then
    match fn_simphenotype_front rd sp fuel [samples; sfile; ids; ifile; h; e; VBool nz; out] with
    | Ok (r, [s'; sf'; i'; if'; _; _; _; out']) => Ok (r, [s'; sf'; i'; if'; out'])
    | Ok _ => Err E_Unsupported
    | Err k => Err k
    end
  else if cmd =? 2 then fn_ld_front rd sp fuel [samples; sfile; ids; ifile; out]
  else Err E_Unsupported.

(* what the entry point was called with: the "$out" list at the end of the slice *)
Definition called_with (r : res (val * list val)) : res (list val) :=
  match r with
  | Ok (_, [_; _; _; _; VList o]) => Ok o
  | Ok _ => Err E_Unsupported
  | Err k => Err k
  end.

(* ---- evaluation on the cases of the tv_resolve relation (the rcase literals of the resolve relation) ---- *)
Definition tv_inv (cmd : Z) (v : inv) : res (list val) :=
  called_with (fn_front read_fn splitlines_fn cmd VNone VNone true 0
                 (enc_opts (v_sopts v)) (enc_file (v_sfile v)) (enc_opts (v_iopts v)) (enc_file (v_ifile v)) (VList [])).

Definition tv_model_inv (cmd : Z) (v : inv) : res ((Z * Z) * (option (list str) * option (list str))) :=
  match tv_inv cmd v with
  | Ok [VTuple [s; i]] =>
      match dec_coll s, dec_coll i with
      | Some (ks, cs), Some (ki, ci) => Ok ((ks, ki), (cs, ci))
      | _, _ => Err E_Unsupported
      end
  | Ok _ => Err E_Unsupported            (* the entry point is called exactly once *)
  | Err k => Err k
  end.

(* agree: the interpreted slice calls the entry point with the collections (members and Python type) the real command
   function passed to it, or raises the kind of error that gives the observed exit status without reaching it *)
Definition tv_agree_inv (cmd : Z) (v : inv) : bool :=
  match tv_model_inv cmd v, v_got v with
  | Ok (kinds, m), Some g =>
      got_eqb cmd m g && (v_exit v =? 0) && (fst (v_kinds v) =? fst kinds) && (snd (v_kinds v) =? snd kinds)
  | Err k, None => v_exit v =? exit_code (@Err unit k)
  | _, _ => false
  end.

(* the case literals are those of the resolve relation (C19_Check.mkr / mkinv) *)
Definition tvrcase : Type := rcase.

Definition tv_model_resolve (k : tvrcase) :=
  (tv_model_inv (r_cmd k) (r_a k), match r_b k with Some b => Some (tv_model_inv (r_cmd k) b) | None => None end).

(* holds: nothing is demanded here (the property is judged by the resolve relation) *)
Definition check_tv_resolve (k : tvrcase) : bool * bool :=
  (tv_agree_inv (r_cmd k) (r_a k) && match r_b k with Some b => tv_agree_inv (r_cmd k) b | None => true end, true).
