(* Translation validation for C01: the MiniPy syntax of sim_genotype.start_segment and
   get_segment (and of class admix_storage.HaplotypeSegment), REGENERATED FROM /repo's CURRENT
   SOURCE on every run (HVG.Gen_SimGenotype, written by harness/pytrans.py), denotes exactly
   the hand-written models C01_Model.start_segment / get_segment that the C01 and C02
   theorems are about.  Compiled per run against the generated module. *)
From HV Require Import Prelude MiniPy MiniPyFacts Tracts Tiling C01_Model C01_Check C01_Bsearch C01_Kernel.
From HVG Require Import Gen_SimGenotype TVM_C01.
From Coq Require Import String.
Open Scope string_scope.
Open Scope Z_scope.


(* ---- start_segment ---- *)
Definition ss_loop : stmt :=
  Eval cbv in match fbody src_start_segment with
              | SSeq _ (SSeq _ (SSeq _ (SSeq w _))) => w
              | _ => SSkip
              end.
Definition ss_cond : expr := Eval cbv in match ss_loop with SWhile c _ => c | _ => ENone end.
Definition ss_body : stmt := Eval cbv in match ss_loop with SWhile _ b => b | _ => SSkip end.
Definition ss_rest : stmt :=
  Eval cbv in match fbody src_start_segment with
              | SSeq _ (SSeq _ (SSeq _ (SSeq _ r))) => r
              | _ => SSkip
              end.

Definition ss_params := ["start"; "chrom"; "segments"].
Definition ss_locals := ["low"; "high"; "mid"; "cur_coord"; "cur_chrom"; "prev_coord"; "prev_chrom"].

Lemma ss_shape :
  src_start_segment =
  mkfun ss_params ss_locals
    (SSeq (SAssign "low" (EInt 0))
    (SSeq (SAssign "high" (EBin Sub (ELen (EVar "segments")) (EInt 1)))
    (SSeq (SAssign "mid" (EInt 0))
    (SSeq (SWhile ss_cond ss_body) ss_rest)))).
Proof. reflexivity. Qed.

Record ssl := mkssl { l_mid : val; l_cc : val; l_cch : val; l_pc : val; l_pch : val }.

Definition ss_env (st c : Z) (l : list seg) (low high : Z) (L : ssl) : env :=
  [("start", VInt st); ("chrom", VInt c); ("segments", enc_segs l);
   ("low", VInt low); ("high", VInt high); ("mid", l_mid L);
   ("cur_coord", l_cc L); ("cur_chrom", l_cch L); ("prev_coord", l_pc L); ("prev_chrom", l_pch L)].

(* one iteration of the model's binary search: return mid, or continue on [lo, hi] *)
Definition bs_step (st c : Z) (l : list seg) (low high : Z) : option (Z + Z * Z) :=
  let mid := (high + low) / 2 in
  match nthZ l mid with
  | None => None
  | Some cur =>
    let '(prev_coord, prev_chrom) :=
      if mid =? 0 then (-1, -1)
      else match nthZ l (mid - 1) with
           | Some p => (endc p, chrom p)
           | None => (-1, -1) end in
    Some (if c =? chrom cur then
            if endc cur <? st then inr (mid + 1, high)
            else if prev_chrom <? chrom cur then inl mid
            else if (prev_chrom =? chrom cur) && (prev_coord <? st) then inl mid
            else inr (low, mid - 1)
          else if c <? chrom cur then inr (low, mid - 1)
          else inr (mid + 1, high))
  end.

Lemma bsearch_step n st c l low high :
  bsearch (S n) st c l low high =
  if high <? low then lenZ l else
  match bs_step st c l low high with
  | None => lenZ l
  | Some (inl m) => m
  | Some (inr (lo, hi)) => bsearch n st c l lo hi
  end.
Proof.
  cbn [bsearch]. unfold bs_step. destruct (high <? low); [reflexivity|].
  destruct (nthZ l ((high + low) / 2)) as [cur|]; [|reflexivity].
  destruct (if (high + low) / 2 =? 0 then (-1, -1) else _) as [pc pch].
  destruct (c =? chrom cur).
  - destruct (endc cur <? st); [reflexivity|].
    destruct (pch <? chrom cur); [reflexivity|].
    destruct ((pch =? chrom cur) && (pc <? st)); reflexivity.
  - destruct (c <? chrom cur); reflexivity.
Qed.

Definition ss_newL (l : list seg) (low high : Z) : ssl :=
  let mid := (high + low) / 2 in
  match nthZ l mid with
  | None => mkssl VNone VNone VNone VNone VNone
  | Some cur =>
    let '(pc, pch) :=
      if mid =? 0 then (-1, -1)
      else match nthZ l (mid - 1) with
           | Some p => (endc p, chrom p)
           | None => (-1, -1) end in
    mkssl (VInt mid) (VInt (endc cur)) (VInt (chrom cur)) (VInt pc) (VInt pch)
  end.

Lemma ss_body_step ft F st c l low high L :
  0 <= low -> low <= high -> high <= lenZ l - 1 ->
  exec ft ss_body F (ss_env st c l low high L) =
  match bs_step st c l low high with
  | None => OErr 2
  | Some (inl m) => ORet (VInt m) (ss_env st c l low high (ss_newL l low high))
  | Some (inr (lo, hi)) => ONorm (ss_env st c l lo hi (ss_newL l low high))
  end.
Proof.
  intros H0 H1 H2. unfold ss_body, ss_env, bs_step, ss_newL.
  assert (Hm : 0 <= (high + low) / 2) by (apply Z.div_pos; lia).
  assert (Hm2 : (high + low) / 2 <= high) by (apply Z.div_le_upper_bound; lia).
  set (mid := (high + low) / 2) in *.
  remember (-1) as m1 eqn:Hm1.
  cbn -[index_sem Z.div Z.add Z.sub].
  fold mid.
  rewrite (index_list_map enc_seg l _ Hm).
  destruct (nthZ l mid) as [cur|] eqn:Ecur; [|reflexivity].
  assert (Hpy : forall x y, py_eq (VInt x) (VInt y) = (x =? y)) by reflexivity.
  destruct (mid =? 0) eqn:Em0.
  - repeat first [ progress cbn -[index_sem Z.div Z.add Z.sub py_eq]
                 | rewrite Hpy | rewrite Em0
                 | rewrite (index_list_map enc_seg) by lia | rewrite Ecur ].
    destruct (c =? chrom cur) eqn:E1.
    + repeat first [ progress cbn -[index_sem Z.div Z.add Z.sub py_eq] | rewrite Hpy | rewrite E1 ].
      destruct (endc cur <? st) eqn:E2; [reflexivity|].
      assert (E3 : (st <=? endc cur) = true) by (apply Z.leb_le; apply Z.ltb_ge in E2; lia).
      repeat first [ progress cbn -[index_sem Z.div Z.add Z.sub py_eq] | rewrite E3 ].
      destruct (m1 <? chrom cur) eqn:E4; [reflexivity|].
      repeat first [ progress cbn -[index_sem Z.div Z.add Z.sub py_eq] | rewrite Hpy ].
      destruct (m1 =? chrom cur) eqn:E5; cbn -[index_sem Z.div Z.add Z.sub py_eq].
      * destruct (m1 <? st); reflexivity.
      * reflexivity.
    + repeat first [ progress cbn -[index_sem Z.div Z.add Z.sub py_eq] | rewrite Hpy | rewrite E1
                   | rewrite (index_list_map enc_seg) by lia | rewrite Ecur ].
      destruct (c <? chrom cur); reflexivity.
  - assert (Hmm : 0 <= mid - 1) by (apply Z.eqb_neq in Em0; lia).
    destruct (nthZ l (mid - 1)) as [p|] eqn:Ep.
    2:{ apply nthZ_none_range in Ep. lia. }
    repeat first [ progress cbn -[index_sem Z.div Z.add Z.sub py_eq]
                 | rewrite Hpy | rewrite Em0
                 | rewrite (index_list_map enc_seg) by lia | rewrite Ecur | rewrite Ep ].
    destruct (c =? chrom cur) eqn:E1.
    + repeat first [ progress cbn -[index_sem Z.div Z.add Z.sub py_eq] | rewrite Hpy | rewrite E1 ].
      destruct (endc cur <? st) eqn:E2; [reflexivity|].
      assert (E3 : (st <=? endc cur) = true) by (apply Z.leb_le; apply Z.ltb_ge in E2; lia).
      repeat first [ progress cbn -[index_sem Z.div Z.add Z.sub py_eq] | rewrite E3 ].
      destruct (chrom p <? chrom cur) eqn:E4; [reflexivity|].
      repeat first [ progress cbn -[index_sem Z.div Z.add Z.sub py_eq] | rewrite Hpy ].
      destruct (chrom p =? chrom cur) eqn:E5; cbn -[index_sem Z.div Z.add Z.sub py_eq].
      * destruct (endc p <? st); reflexivity.
      * reflexivity.
    + repeat first [ progress cbn -[index_sem Z.div Z.add Z.sub py_eq] | rewrite Hpy | rewrite E1
                   | rewrite (index_list_map enc_seg) by lia | rewrite Ecur ].
      destruct (c <? chrom cur); reflexivity.
Qed.

Lemma bs_step_cases st c l low high :
  0 <= low -> low <= high -> high <= lenZ l - 1 ->
  let mid := (high + low) / 2 in
  low <= mid <= high /\
  (exists m, bs_step st c l low high = Some (inl m)) \/
  bs_step st c l low high = Some (inr ((high + low) / 2 + 1, high)) \/
  bs_step st c l low high = Some (inr (low, (high + low) / 2 - 1)).
Proof.
  intros H0 H1 H2 mid.
  assert (Hm : low <= mid) by (apply Z.div_le_lower_bound; lia).
  assert (Hm2 : mid <= high) by (apply Z.div_le_upper_bound; lia).
  unfold bs_step. fold mid.
  destruct (nthZ l mid) as [cur|] eqn:E.
  2:{ apply nthZ_none_range in E. lia. }
  destruct (if mid =? 0 then (-1, -1) else _) as [pc pch].
  destruct (c =? chrom cur).
  - destruct (endc cur <? st); [right; left; reflexivity|].
    destruct (pch <? chrom cur); [left; split; [lia|eexists; reflexivity]|].
    destruct ((pch =? chrom cur) && (pc <? st)); [left; split; [lia|eexists; reflexivity]|].
    right; right; reflexivity.
  - destruct (c <? chrom cur); [right; right; reflexivity | right; left; reflexivity].
Qed.

Arguments ss_body : simpl never.

Lemma ss_while ft F st c l : forall n k low high L,
  (n < k)%nat -> 0 <= low -> high <= lenZ l - 1 -> high - low + 1 < Z.of_nat n + 1 ->
  MiniPyFacts.finish ft ss_params ss_rest F
    (while_loop (exec ft ss_body F) (eval ft ss_cond) k (ss_env st c l low high L)) =
  Ok (VInt (bsearch n st c l low high), [VInt st; VInt c; enc_segs l]).
Proof.
  induction n as [|n IH]; intros k low high L Hk H0 H2 Hmeas.
  - destruct k as [|k]; [lia|]. cbn [while_loop]. unfold ss_cond, ss_env at 1.
    cbn [eval read_var lookup String.eqb Ascii.eqb Bool.eqb bind cmp_sem as_num truthy].
    assert (E : (low <=? high) = false) by (apply Z.leb_gt; lia). rewrite E.
    unfold MiniPyFacts.finish, ss_rest, ss_env. cbn. rewrite lenZ_map. reflexivity.
  - destruct k as [|k]; [lia|]. cbn [while_loop]. rewrite bsearch_step. unfold ss_cond, ss_env at 1.
    cbn [eval read_var lookup String.eqb Ascii.eqb Bool.eqb bind cmp_sem as_num truthy].
    fold (ss_env st c l low high L).
    destruct (low <=? high) eqn:E.
    + apply Z.leb_le in E.
      assert (E' : (high <? low) = false) by (apply Z.ltb_ge; exact E). rewrite E'.
      rewrite ss_body_step by assumption.
      destruct (bs_step_cases st c l low high H0 E H2) as [[Hb [m Hm]] | [Hm | Hm]]; rewrite Hm.
      * unfold MiniPyFacts.finish, conclude, ss_env. reflexivity.
      * pose proof (Z.div_le_lower_bound (high + low) 2 low ltac:(lia) ltac:(lia)).
        pose proof (Z.div_le_upper_bound (high + low) 2 high ltac:(lia) ltac:(lia)).
        apply IH; lia.
      * pose proof (Z.div_le_lower_bound (high + low) 2 low ltac:(lia) ltac:(lia)).
        pose proof (Z.div_le_upper_bound (high + low) 2 high ltac:(lia) ltac:(lia)).
        apply IH; lia.
    + apply Z.leb_gt in E.
      assert (E' : (high <? low) = true) by (apply Z.ltb_lt; exact E). rewrite E'.
      unfold MiniPyFacts.finish, ss_rest, ss_env. cbn. rewrite lenZ_map. reflexivity.
Qed.

Theorem TV_start_segment_refines : forall st c l ft fuel,
  (S (List.length l) < fuel)%nat ->
  run_fun ft src_start_segment fuel [VInt st; VInt c; enc_segs l] =
  Ok (VInt (start_segment st c l), [VInt st; VInt c; enc_segs l]).
Proof.
  intros st c l ft fuel Hf. rewrite ss_shape.
  unfold run_fun. cbn [fparams flocals fbody ss_params ss_locals bind_params app map].
  cbn [exec eval read_var lookup String.eqb Ascii.eqb Bool.eqb bind binop_sem as_num update].
  rewrite lenZ_map.
  pose proof (ss_while ft fuel st c l (S (List.length l)) fuel 0 (lenZ l - 1)
                (mkssl (VInt 0) VUnbound VUnbound VUnbound VUnbound) Hf ltac:(lia) ltac:(lia)) as H.
  unfold start_segment. unfold MiniPyFacts.finish, ss_env in H. cbn [l_mid l_cc l_cch l_pc l_pch] in H.
  assert (Hl : lenZ l - 1 - 0 + 1 < Z.of_nat (S (List.length l)) + 1) by (unfold lenZ; lia).
  specialize (H Hl). rewrite <- H.
  destruct (while_loop _ _ _ _); reflexivity.
Qed.
Print Assumptions TV_start_segment_refines.


(* ---- get_segment ---- *)
Definition gs_else : stmt :=
  Eval cbv in match fbody src_get_segment with SIf _ _ b => b | _ => SSkip end.
Definition gs_body : stmt :=
  Eval cbv in match gs_else with
              | SSeq _ (SSeq _ (SSeq _ (SSeq (SFor _ _ b) _))) => b
              | _ => SSkip
              end.
Definition gs_rest : stmt :=
  Eval cbv in match gs_else with
              | SSeq _ (SSeq _ (SSeq _ (SSeq _ r))) => r
              | _ => SSkip
              end.

Definition gs_params := ["pop"; "haplotype"; "chrom"; "start_coord"; "end_coord"; "end_pos"; "prev_gen_samples"].
Definition gs_locals := ["segments"; "prev_gen_segments"; "start_seg"; "prev_segment"; "out_pop"].

Lemma gs_shape :
  src_get_segment =
  mkfun gs_params gs_locals
    (SIf (EVar "pop")
       (SReturn (EList [ENew 1 [EVar "pop"; EVar "chrom"; EVar "end_coord"; EVar "end_pos"]]))
       (SSeq (SAssign "segments" (EList []))
       (SSeq (SAssign "prev_gen_segments" (EIndex (EVar "prev_gen_samples") (EVar "haplotype")))
       (SSeq (SAssign "start_seg" (ECall "start_segment" [EVar "start_coord"; EVar "chrom"; EVar "prev_gen_segments"]))
       (SSeq (SFor "prev_segment" (ESlice (EVar "prev_gen_segments") (Some (EVar "start_seg")) None) gs_body)
             gs_rest))))).
Proof. reflexivity. Qed.

Definition gs_env (p h c s e m : Z) (prev : list (list seg)) (segs pgs ss ps op : val) : env :=
  [("pop", VInt p); ("haplotype", VInt h); ("chrom", VInt c); ("start_coord", VInt s);
   ("end_coord", VInt e); ("end_pos", VStr m); ("prev_gen_samples", enc_gen prev);
   ("segments", segs); ("prev_gen_segments", pgs); ("start_seg", ss); ("prev_segment", ps); ("out_pop", op)].

Lemma gs_body_step ft F p h c s e m prev acc pgs ss x op :
  exec ft gs_body F (gs_env p h c s e m prev (enc_segs acc) pgs ss (enc_seg x) op) =
  if (e <=? endc x) || (c <? chrom x)
  then OBrk (gs_env p h c s e m prev (enc_segs acc) pgs ss (enc_seg x) op)
  else ONorm (gs_env p h c s e m prev (enc_segs (acc ++ [x])) pgs ss (enc_seg x) op).
Proof.
  unfold gs_body, gs_env. cbn.
  destruct (e <=? endc x); cbn; [reflexivity|].
  destruct (c <? chrom x); cbn; [reflexivity|].
  rewrite map_app. reflexivity.
Qed.

Arguments gs_body : simpl never.

Definition optv (o : option seg) : val := match o with Some x => enc_seg x | None => VUnbound end.

Lemma gs_loop ft F p h c s e m prev pgs ss op : forall rest acc last,
  for_loop (exec ft gs_body F) "prev_segment" (map enc_seg rest)
    (gs_env p h c s e m prev (enc_segs acc) pgs ss (optv last) op) =
  ONorm (gs_env p h c s e m prev (enc_segs (acc ++ fst (copy_loop c e rest last))) pgs ss
           (optv (snd (copy_loop c e rest last))) op).
Proof.
  induction rest as [|x r IH]; intros acc last.
  - cbn [map for_loop copy_loop fst snd]. rewrite app_nil_r. reflexivity.
  - cbn [map for_loop copy_loop].
    change (update "prev_segment" (enc_seg x) (gs_env p h c s e m prev (enc_segs acc) pgs ss (optv last) op))
      with (gs_env p h c s e m prev (enc_segs acc) pgs ss (enc_seg x) op).
    rewrite gs_body_step.
    destruct ((e <=? endc x) || (c <? chrom x)).
    + cbn [fst snd optv]. rewrite app_nil_r. reflexivity.
    + change (gs_env p h c s e m prev (enc_segs (acc ++ [x])) pgs ss (enc_seg x) op)
        with (gs_env p h c s e m prev (enc_segs (acc ++ [x])) pgs ss (optv (Some x)) op). rewrite IH.
      destruct (copy_loop c e r (Some x)) as [cp st]. cbn [fst snd].
      rewrite <- app_assoc. reflexivity.
Qed.

Lemma bsearch_range st c l : forall n low high, 0 <= bsearch n st c l low high <= lenZ l.
Proof.
  assert (Hl : 0 <= lenZ l) by (unfold lenZ; lia).
  induction n as [|n IH]; intros low high; cbn [bsearch]; [lia|].
  destruct (high <? low); [lia|].
  destruct (nthZ l ((high + low) / 2)) as [cur|] eqn:E; [|lia].
  apply nthZ_some_range in E.
  destruct (if (high + low) / 2 =? 0 then (-1, -1) else _) as [pc pch].
  destruct (c =? chrom cur).
  - destruct (endc cur <? st); [apply IH|].
    destruct (pch <? chrom cur); [lia|].
    destruct ((pch =? chrom cur) && (pc <? st)); [lia|apply IH].
  - destruct (c <? chrom cur); apply IH.
Qed.

Lemma slice_from (l : list val) i : 0 <= i <= lenZ l ->
  slice_sem (VList l) (Some (VInt i)) None = Ok (VList (skipn (Z.to_nat i) l)).
Proof.
  intros [H0 H1]. unfold slice_sem. cbn [bind]. unfold clampi.
  assert (E1 : (i <? 0) = false) by (apply Z.ltb_ge; lia). rewrite E1, E1.
  assert (E2 : (lenZ l <? i) = false) by (apply Z.ltb_ge; lia). rewrite E2.
  unfold slice_list. f_equal. f_equal.
  rewrite firstn_all2; [reflexivity|]. rewrite skipn_length. unfold lenZ in *. lia.
Qed.

Definition gs_expected (p h c s e m : Z) (prev : list (list seg)) (r : res (list seg)) : res (val * list val) :=
  match r with
  | Ok g => Ok (enc_segs g, [VInt p; VInt h; VInt c; VInt s; VInt e; VStr m; enc_gen prev])
  | Err k => Err k
  end.

Theorem TV_get_segment_refines : forall p h c s e m prev fuel,
  0 <= h ->
  (forall parent, nthZ prev h = Some parent -> (S (List.length parent) < fuel)%nat) ->
  fn_get_segment fuel [VInt p; VInt h; VInt c; VInt s; VInt e; VStr m; enc_gen prev] =
  gs_expected p h c s e m prev (get_segment p h c s e m prev).
Proof.
  intros p h c s e m prev fuel Hh Hfuel.
  unfold fn_get_segment, run_fun. rewrite gs_shape.
  cbn [fparams flocals fbody gs_params gs_locals bind_params app map].
  unfold get_segment, get_segment_with.
  cbn [exec eval read_var lookup String.eqb Ascii.eqb Bool.eqb truthy].
  destruct (p =? 0) eqn:Ep; cbn [negb].
  2:{ reflexivity. }
  apply Z.eqb_eq in Ep. subst p.
  cbn -[index_sem slice_sem fn_start_segment start_segment].
  rewrite (index_list_map (fun l : list seg => enc_segs l) prev h Hh).
  destruct (nthZ prev h) as [parent|] eqn:Epar; [|reflexivity].
  cbn -[index_sem slice_sem fn_start_segment start_segment].
  unfold fn_start_segment. rewrite TV_start_segment_refines by (apply Hfuel; reflexivity).
  cbn -[index_sem slice_sem fn_start_segment start_segment].
  pose proof (bsearch_range s c parent (S (List.length parent)) 0 (lenZ parent - 1)) as Hr.
  fold (start_segment s c parent) in Hr.
  rewrite slice_from by (rewrite lenZ_map; exact Hr).
  cbn -[index_sem slice_sem fn_start_segment start_segment].
  rewrite skipn_map.
  pose proof (gs_loop (ft_2 fuel) fuel 0 h c s e m prev (enc_segs parent) (VInt (start_segment s c parent)) VUnbound
                (skipn (Z.to_nat (start_segment s c parent)) parent) [] None) as HL.
  change (VList []) with (enc_segs []).
  change VUnbound with (optv None) at 1.
  fold (gs_env 0 h c s e m prev (enc_segs []) (enc_segs parent) (VInt (start_segment s c parent)) (optv None) VUnbound).
  rewrite HL. cbn [app].
  destruct (copy_loop c e (skipn (Z.to_nat (start_segment s c parent)) parent) None) as [cp [st|]];
    cbn [fst snd optv]; unfold gs_rest, gs_env.
  - cbn. rewrite map_app. reflexivity.
  - reflexivity.
Qed.
Print Assumptions TV_get_segment_refines.

(* ---- the property, stated about the code as translated ---------------------------- *)

(* C01 for the kernel as translated from the current source: on a call as _simulate makes it
   (sorted parent reaching the interval end) the translated get_segment returns tracts that
   carry, at every position of [start, e], exactly the parent's label; nothing is lengthened,
   shortened, relabelled or dropped *)
Theorem TV_get_segment_inherits : forall prev h parent c start e m fuel,
  0 <= h -> nthZ prev h = Some parent -> (S (List.length parent) < fuel)%nat ->
  C01_Kernel.wf_call parent c start e ->
  exists out,
    fn_get_segment fuel [VInt 0; VInt h; VInt c; VInt start; VInt e; VStr m; enc_gen prev] =
      Ok (enc_segs out, [VInt 0; VInt h; VInt c; VInt start; VInt e; VStr m; enc_gen prev]) /\
    (forall p, start <= p <= e -> label_at out c p = label_at parent c p) /\
    Tiling.run_ok c (start - 1) out e /\
    map endc (removelast out) = filter (fun x => (start <=? x) && (x <? e)) (ends_on c parent).
Proof.
  intros prev h parent c start e m fuel Hh Hp Hf Hwf.
  destruct (C01_Kernel.get_segment_spec prev h parent c start e m Hp Hwf)
    as [cp [st [Hg [_ [_ [_ [_ [_ [Hlab [Hrun Hends]]]]]]]]]].
  exists (cp ++ [mkseg (pop st) c e m])%list.
  split.
  - rewrite TV_get_segment_refines.
    + rewrite Hg. reflexivity.
    + exact Hh.
    + intros q Hq. rewrite Hp in Hq. inversion Hq; subst. exact Hf.
  - split; [exact Hlab|]. split; [exact Hrun|].
    rewrite removelast_last. exact Hends.
Qed.
Print Assumptions TV_get_segment_inherits.

(* the translated binary search is the linear scan specification on sorted parents *)
Theorem TV_start_segment_is_scan : forall st c l ft fuel,
  (S (List.length l) < fuel)%nat -> sorted l -> 0 <= c ->
  run_fun ft src_start_segment fuel [VInt st; VInt c; enc_segs l] =
  Ok (VInt (Z.of_nat (start_scan st c l)), [VInt st; VInt c; enc_segs l]).
Proof.
  intros st c l ft fuel Hf Hs Hc. rewrite TV_start_segment_refines by exact Hf.
  rewrite (C01_Bsearch.bsearch_eq_scan st c l Hs Hc). reflexivity.
Qed.
Print Assumptions TV_start_segment_is_scan.
