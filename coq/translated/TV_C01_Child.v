(* Translation validation for the per-child loop of sim_genotype._simulate (C01, C02): the
   MiniPy syntax of the statements from `prev_chrom = chroms[0]` to just before
   `hap_samples.append(segments)`, REGENERATED FROM /repo's CURRENT SOURCE on every run as the
   synthetic function _simulate_child (harness/pytrans.py, slice), denotes exactly the
   hand-written model C01_Model.sim_sample — the model that the tiling theorems of C02 and the
   mosaic theorems of C01 are about — with the numpy homolog draws as a recorded stream and the
   call of get_segment discharged by TV_get_segment_refines.  Compiled per run. *)
From HV Require Import Prelude MiniPy MiniPyFacts Tracts Tiling C01_Model C01_Check C02_Tiling.
From HVG Require Import Gen_SimGenotype TVM_C01 TV_C01.
From Coq Require Import String.
Open Scope string_scope.
Open Scope Z_scope.

(* ---- pieces of the generated syntax ---- *)
Definition sc_body : stmt := Eval cbv in fbody src__simulate_child.
Definition sc_ev : stmt :=
  Eval cbv in match sc_body with SSeq _ (SSeq _ (SSeq (SFor _ _ b) _)) => b | _ => SSkip end.
Definition sc_fin : stmt :=
  Eval cbv in match sc_body with SSeq _ (SSeq _ (SSeq _ r)) => r | _ => SSkip end.
(* the two copies of the "emit whole chromosomes" loop body *)
Definition sc_emit1 : stmt :=
  Eval cbv in match sc_ev with
              | SSeq _ (SSeq _ (SSeq _ (SSeq (SIf _ (SSeq _ (SSeq _ (SSeq (SFor _ _ b) _))) _) _))) => b
              | _ => SSkip end.
Definition sc_emit2 : stmt :=
  Eval cbv in match sc_fin with SSeq _ (SSeq (SFor _ _ b) _) => b | _ => SSkip end.
Lemma sc_emit_same : sc_emit1 = sc_emit2. Proof. reflexivity. Qed.
Lemma sc_emit_nontrivial : sc_emit1 <> SSkip. Proof. discriminate. Qed.

Section Child.
  Variables (chroms : list Z) (ends : list (Z * Z)) (p ha hb : Z) (prev : list (list seg)).
  Variable fuel : nat.
  Hypothesis Hha : 0 <= ha.
  Hypothesis Hhb : 0 <= hb.
  Hypothesis Hfuel : forall h parent, nthZ prev h = Some parent -> (S (List.length parent) < fuel)%nat.
  Variable TC : val.   (* true_coords: not read after the loop has started *)

  Notation CH := (VList (map VInt chroms)).
  Notation EC := (VList (map enc_end ends)).
  Notation HP := (VList [VInt ha; VInt hb]).

  (* the environment: model state + the values of the locals the model does not track *)
  Definition cenv (s : st) (sb : val) (j_coord j_i j_pc j_cc j_eb j_pm j_ci : val) : env :=
    [("chroms", CH); ("end_coords", EC); ("p_pop", VInt p); ("haps", HP);
     ("homolog", VInt (b2z (homolog s))); ("true_coords", TC); ("prev_gen_samples", enc_gen prev);
     ("segments", enc_segs (segs s)); ("$draws", enc_draws (hd s));
     ("prev_chrom", VInt (prev_chrom s)); ("prev_ind", VInt (Z.of_nat (prev_ind s)));
     ("coord", j_coord); ("i", j_i); ("prev_coord", j_pc); ("cur_chrom", j_cc);
     ("end_bp", j_eb); ("prev_map_pos", j_pm); ("start_bp", sb); ("cur_ind", j_ci)].

  Definition gsm := get_segment.

  Lemma hap_of_nonneg h : 0 <= hap_of ha hb h.
  Proof. unfold hap_of. destruct h; assumption. Qed.

  (* the call of the translated get_segment *)
  Lemma call_get_segment h c sb e m :
    fn_get_segment fuel [VInt p; VInt (hap_of ha hb h); VInt c; VInt sb; VInt e; VStr m; enc_gen prev] =
    match get_segment p (hap_of ha hb h) c sb e m prev with
    | Ok g => Ok (enc_segs g, [VInt p; VInt (hap_of ha hb h); VInt c; VInt sb; VInt e; VStr m; enc_gen prev])
    | Err k => Err k
    end.
  Proof.
    rewrite TV_get_segment_refines.
    - unfold gs_expected. reflexivity.
    - apply hap_of_nonneg.
    - intros parent Hp. apply (Hfuel _ _ Hp).
  Qed.

  Lemma index_haps h : index_sem HP (VInt (b2z h)) = Ok (VInt (hap_of ha hb h)).
  Proof. destruct h; reflexivity. Qed.

  Lemma index_chroms i : index_sem CH (VInt (Z.of_nat i)) =
    match nth_error chroms i with Some c => Ok (VInt c) | None => Err 2 end.
  Proof.
    rewrite index_list_map by lia. unfold nthZ.
    assert (E : (Z.of_nat i <? 0) = false) by (apply Z.ltb_ge; lia). rewrite E.
    rewrite Nat2Z.id. destruct (nth_error chroms i); reflexivity.
  Qed.

  Lemma index_ends i : index_sem EC (VInt (Z.of_nat i)) =
    match nth_error ends i with Some e => Ok (enc_end e) | None => Err 2 end.
  Proof.
    rewrite index_list_map by lia. unfold nthZ.
    assert (E : (Z.of_nat i <? 0) = false) by (apply Z.ltb_ge; lia). rewrite E.
    rewrite Nat2Z.id. destruct (nth_error ends i); reflexivity.
  Qed.

  Arguments Z.of_nat : simpl never.

  Definition emit_out (s : st) (j : nat) (jc jpc jcc jci : val) : outcome :=
    match nth_error chroms (prev_ind s + j), nth_error ends (prev_ind s + j) with
    | Some c, Some (ebp, ecm) =>
        match get_segment p (hap_of ha hb (homolog s)) c (start_bp s) ebp ecm prev with
        | Err k => OErr k
        | Ok g =>
            match next_h s with
            | None => OErr 98
            | Some (b, r) =>
                ONorm (cenv (mkst (segs s ++ g) (prev_chrom s) (prev_ind s) b r 0) (VInt 0)
                         jc (VInt (Z.of_nat j)) jpc jcc (VInt ebp) (VStr ecm) jci)
            end
        end
    | _, _ => OErr 2
    end.

  Lemma emit_step s j jc jpc jcc jeb jpm jci :
    exec (ft_3 fuel) sc_emit1 fuel
      (cenv s (VInt (start_bp s)) jc (VInt (Z.of_nat j)) jpc jcc jeb jpm jci) =
    emit_out s j jc jpc jcc jci.
  Proof.
    unfold sc_emit1, cenv, emit_out.
    cbn -[index_sem fn_get_segment get_segment Z.add].
    rewrite <- Nat2Z.inj_add.
    rewrite index_ends.
    destruct (nth_error ends (prev_ind s + j)) as [[ebp ecm]|] eqn:Ee.
    2:{ destruct (nth_error chroms (prev_ind s + j)); reflexivity. }
    cbn -[index_sem fn_get_segment get_segment Z.add].
    rewrite <- Nat2Z.inj_add.
    rewrite index_ends, Ee.
    cbn -[index_sem fn_get_segment get_segment Z.add].
    rewrite index_haps.
    cbn -[index_sem fn_get_segment get_segment Z.add].
    rewrite <- Nat2Z.inj_add. rewrite index_chroms.
    destruct (nth_error chroms (prev_ind s + j)) as [c|] eqn:Ec; [|reflexivity].
    cbn -[index_sem fn_get_segment get_segment Z.add].
    rewrite call_get_segment.
    destruct (get_segment p (hap_of ha hb (homolog s)) c (start_bp s) ebp ecm prev) as [g|k]; [|reflexivity].
    cbn -[index_sem fn_get_segment get_segment Z.add].
    rewrite <- map_app.
    unfold next_h. destruct (hd s) as [|b r]; [reflexivity|].
    cbn -[index_sem fn_get_segment get_segment Z.add].
    destruct b; reflexivity.
  Qed.

  Arguments sc_emit1 : simpl never.

  Lemma range_list_S k z : range_list (S k) z = VInt z :: range_list k (z + 1).
  Proof. reflexivity. Qed.

  (* the emit loop = emit_chroms; [prev_ind] and [prev_chrom] stay fixed *)
  Lemma emit_loop jc jpc jcc jci : forall k j s ji jeb jpm,
    match emit_chroms get_segment chroms ends p ha hb prev k (prev_ind s + j) s with
    | Ok s' =>
        prev_ind s' = prev_ind s /\ prev_chrom s' = prev_chrom s /\
        (k <> O -> start_bp s' = 0) /\ (k = O -> s' = s) /\
        exists ji' jeb' jpm',
          for_loop (exec (ft_3 fuel) sc_emit1 fuel) "i" (range_list k (Z.of_nat j))
            (cenv s (VInt (start_bp s)) jc ji jpc jcc jeb jpm jci) =
          ONorm (cenv s' (VInt (start_bp s')) jc ji' jpc jcc jeb' jpm' jci)
    | Err e =>
        for_loop (exec (ft_3 fuel) sc_emit1 fuel) "i" (range_list k (Z.of_nat j))
          (cenv s (VInt (start_bp s)) jc ji jpc jcc jeb jpm jci) = OErr e
    end.
  Proof.
    induction k as [|k IH]; intros j s ji jeb jpm.
    - cbn [emit_chroms range_list for_loop]. repeat split; try congruence. do 3 eexists. reflexivity.
    - cbn [emit_chroms]. rewrite range_list_S. cbn [for_loop].
      change (update "i" (VInt (Z.of_nat j)) (cenv s (VInt (start_bp s)) jc ji jpc jcc jeb jpm jci))
        with (cenv s (VInt (start_bp s)) jc (VInt (Z.of_nat j)) jpc jcc jeb jpm jci).
      rewrite emit_step. unfold emit_out.
      destruct (nth_error chroms (prev_ind s + j)) as [c|]; [|reflexivity].
      destruct (nth_error ends (prev_ind s + j)) as [[ebp ecm]|]; [|reflexivity].
      destruct (get_segment p (hap_of ha hb (homolog s)) c (start_bp s) ebp ecm prev) as [g|e]; [|reflexivity].
      destruct (next_h s) as [[b r]|]; [|reflexivity].
      set (s1 := mkst (segs s ++ g) (prev_chrom s) (prev_ind s) b r 0).
      specialize (IH (S j) s1 (VInt (Z.of_nat j)) (VInt ebp) (VStr ecm)).
      replace (prev_ind s1 + S j)%nat with (S (prev_ind s + j)) in IH by (cbn; lia).
      replace (Z.of_nat j + 1) with (Z.of_nat (S j)) by lia.
      destruct (emit_chroms get_segment chroms ends p ha hb prev k (S (prev_ind s + j)) s1) as [s'|e].
      + destruct IH as [H1 [H2 [H3 [H4 [ji' [jeb' [jpm' H5]]]]]]].
        split; [exact H1|]. split; [exact H2|].
        split.
        { intros _. destruct k; [rewrite (H4 eq_refl); reflexivity | apply H3; discriminate]. }
        split; [discriminate|].
        exists ji', jeb', jpm'. exact H5.
      + exact IH.
  Qed.

  (* ---- the loop over recombination events ---- *)
  Definition ev_sb : stmt :=
    Eval cbv in match sc_ev with SSeq _ (SSeq _ (SSeq b _)) => b | _ => SSkip end.
  Definition ev_swap : stmt :=
    Eval cbv in match sc_ev with SSeq _ (SSeq _ (SSeq _ (SSeq b _))) => b | _ => SSkip end.
  Definition ev_tail : stmt :=
    Eval cbv in match sc_ev with SSeq _ (SSeq _ (SSeq _ (SSeq _ b))) => b | _ => SSkip end.
  Definition ev_a1 : stmt := Eval cbv in match sc_ev with SSeq a _ => a | _ => SSkip end.
  Definition ev_a2 : stmt := Eval cbv in match sc_ev with SSeq _ (SSeq a _) => a | _ => SSkip end.
  Lemma sc_ev_shape : sc_ev = SSeq ev_a1 (SSeq ev_a2 (SSeq ev_sb (SSeq ev_swap ev_tail))).
  Proof. reflexivity. Qed.

  Lemma index_last (l : list seg) :
    index_sem (enc_segs l) (VInt (-1)) =
    match last_opt l with Some x => Ok (enc_seg x) | None => Err 2 end.
  Proof.
    unfold index_sem. cbn [as_seq]. change (-1 <? 0) with true. cbv iota.
    rewrite nth_z_nthZ, lenZ_map, nthZ_map. unfold nthZ, lenZ, last_opt.
    destruct l as [|x r] using rev_ind.
    - reflexivity.
    - rewrite rev_app_distr. cbn [rev app].
      rewrite app_length. cbn [List.length].
      assert (E : (-1 + Z.of_nat (List.length r + 1) <? 0) = false) by (apply Z.ltb_ge; lia).
      rewrite E. replace (Z.to_nat (-1 + Z.of_nat (List.length r + 1))) with (List.length r) by lia.
      rewrite nth_error_app2 by lia. rewrite Nat.sub_diag. reflexivity.
  Qed.

  Lemma truthy_segs (l : list seg) :
    truthy (enc_segs l) = Some (match last_opt l with Some _ => true | None => false end).
  Proof.
    unfold last_opt. destruct l as [|x r] using rev_ind; [reflexivity|].
    rewrite rev_app_distr, map_app. cbn. destruct (map enc_seg r); reflexivity.
  Qed.

  Lemma index_of_sem cur : forall (l : list Z) (i0 : Z),
    (fix go (l : list val) (i : Z) : res val :=
       match l with
       | [] => Err 1
       | y :: r => if py_eq y (VInt cur) then Ok (VInt i) else go r (i + 1)
       end) (map VInt l) i0 =
    match index_of cur l with Some ci => Ok (VInt (i0 + Z.of_nat ci)) | None => Err 1 end.
  Proof.
    induction l as [|y r IH]; intros i0; [reflexivity|].
    cbn [map index_of]. change (py_eq (VInt y) (VInt cur)) with (y =? cur).
    destruct (y =? cur).
    - f_equal. f_equal. lia.
    - rewrite IH. destruct (index_of cur r) as [ci|]; cbn [option_map]; [|reflexivity].
      f_equal. f_equal. lia.
  Qed.

  (* model pieces of [step] *)
  Definition m_sb (s : st) : Z :=
    match last_opt (segs s) with
    | Some l => if chrom l =? prev_chrom s then endc l + 1 else 0
    | None => 0
    end.
  Definition with_sb (s : st) (sb : Z) : st :=
    mkst (segs s) (prev_chrom s) (prev_ind s) (homolog s) (hd s) sb.

  Lemma cenv_with_sb s sb X jc ji jpc jcc jeb jpm jci :
    cenv (with_sb s sb) X jc ji jpc jcc jeb jpm jci = cenv s X jc ji jpc jcc jeb jpm jci.
  Proof. reflexivity. Qed.

  Lemma ev_sb_step s sb0 jc ji jpc jcc jeb jpm jci :
    exec (ft_3 fuel) ev_sb fuel (cenv s sb0 jc ji jpc jcc jeb jpm jci) =
    ONorm (cenv s (VInt (m_sb s)) jc ji jpc jcc jeb jpm jci).
  Proof.
    unfold ev_sb, cenv, m_sb.
    destruct (last_opt (segs s)) as [l|] eqn:El;
      repeat first [ progress cbn -[index_sem truthy Z.add]
                   | rewrite truthy_segs | rewrite index_last | rewrite El ].
    - change (py_eq (VInt (chrom l)) (VInt (prev_chrom s))) with (chrom l =? prev_chrom s).
      destruct (chrom l =? prev_chrom s);
        repeat first [ progress cbn -[index_sem truthy Z.add]
                     | rewrite truthy_segs | rewrite index_last | rewrite El ]; reflexivity.
    - reflexivity.
  Qed.

  Definition m_tail (s' : st) (e : event) : res st :=
    bind (get_segment p (hap_of ha hb (homolog s')) (ev_chrom e) (start_bp s') (ev_bp e) (ev_cm e) prev) (fun g =>
      Ok (mkst (segs s' ++ g) (ev_chrom e) (prev_ind s') (negb (homolog s')) (hd s') (start_bp s'))).

  Lemma ev_tail_step s' e jc ji jeb jpm jci :
    match m_tail s' e with
    | Ok s2 =>
        exec (ft_3 fuel) ev_tail fuel
          (cenv s' (VInt (start_bp s')) jc ji (enc_marker (ev_chrom e) (ev_bp e) (ev_cm e) VNone)
             (VInt (ev_chrom e)) jeb jpm jci) =
        ONorm (cenv s2 (VInt (start_bp s2)) jc ji (enc_marker (ev_chrom e) (ev_bp e) (ev_cm e) VNone)
                 (VInt (ev_chrom e)) (VInt (ev_bp e)) (VStr (ev_cm e)) jci)
    | Err k =>
        exec (ft_3 fuel) ev_tail fuel
          (cenv s' (VInt (start_bp s')) jc ji (enc_marker (ev_chrom e) (ev_bp e) (ev_cm e) VNone)
             (VInt (ev_chrom e)) jeb jpm jci) = OErr k
    end.
  Proof.
    unfold m_tail, ev_tail, cenv, enc_marker.
    cbn -[index_sem fn_get_segment get_segment Z.add Z.sub].
    rewrite index_haps.
    cbn -[index_sem fn_get_segment get_segment Z.add Z.sub].
    rewrite call_get_segment.
    destruct (get_segment p (hap_of ha hb (homolog s')) (ev_chrom e) (start_bp s') (ev_bp e) (ev_cm e) prev)
      as [g|k]; [|reflexivity].
    cbn -[index_sem fn_get_segment get_segment Z.add Z.sub].
    rewrite <- map_app.
    destruct (homolog s'); reflexivity.
  Qed.

  (* the "we moved to another chromosome" part of [step] *)
  Definition m_ended (s0 : st) : res st :=
    match last_opt (segs s0), nth_error ends (prev_ind s0) with
    | Some l, Some (ebp, _) =>
        if endc l =? ebp then
          match nth_error chroms (S (prev_ind s0)) with
          | Some c' => Ok (mkst (segs s0) c' (S (prev_ind s0)) (homolog s0) (hd s0) 0)
          | None => Err E_Index
          end
        else Ok s0
    | Some _, None => Err E_Index
    | None, _ => Ok s0
    end.

  Definition m_swap (s0 : st) (cur : Z) : res st :=
    if negb (cur =? prev_chrom s0) then
      bind (m_ended s0) (fun s1 =>
        match index_of cur chroms with
        | None => Err E_Value
        | Some ci =>
            bind (emit_chroms get_segment chroms ends p ha hb prev (ci - prev_ind s1)%nat (prev_ind s1) s1) (fun s2 =>
              Ok (mkst (segs s2) cur ci (homolog s2) (hd s2) (start_bp s2)))
        end)
    else Ok s0.

  Definition ev_ended : stmt :=
    Eval cbv in match ev_swap with SIf _ (SSeq a _) _ => a | _ => SSkip end.
  Definition ev_after : stmt :=
    Eval cbv in match ev_swap with SIf _ (SSeq _ b) _ => b | _ => SSkip end.
  Lemma ev_swap_shape :
    ev_swap = SIf (ECmp CNe (EVar "cur_chrom") (EVar "prev_chrom")) (SSeq ev_ended ev_after) SSkip.
  Proof. reflexivity. Qed.

  Lemma ev_ended_step s0 jc ji jpc jcc jeb jpm jci :
    match m_ended s0 with
    | Ok s1 =>
        exec (ft_3 fuel) ev_ended fuel (cenv s0 (VInt (start_bp s0)) jc ji jpc jcc jeb jpm jci) =
        ONorm (cenv s1 (VInt (start_bp s1)) jc ji jpc jcc jeb jpm jci)
    | Err k =>
        exec (ft_3 fuel) ev_ended fuel (cenv s0 (VInt (start_bp s0)) jc ji jpc jcc jeb jpm jci) = OErr k
    end.
  Proof.
    unfold m_ended.
    destruct (last_opt (segs s0)) as [l|] eqn:El.
    2:{ unfold ev_ended, cenv.
        repeat first [ progress cbn -[index_sem truthy Z.add] | rewrite truthy_segs | rewrite El ].
        destruct s0; reflexivity. }
    destruct (nth_error ends (prev_ind s0)) as [[ebp ecm]|] eqn:Ee.
    2:{ unfold ev_ended, cenv.
        repeat first [ progress cbn -[index_sem truthy Z.add]
                     | rewrite truthy_segs | rewrite index_last | rewrite index_ends | rewrite El | rewrite Ee ].
        reflexivity. }
    destruct (endc l =? ebp) eqn:E1.
    2:{ unfold ev_ended, cenv.
        repeat first [ progress cbn -[index_sem truthy Z.add py_eq]
                     | rewrite truthy_segs | rewrite index_last | rewrite index_ends | rewrite El | rewrite Ee ].
        change (py_eq (VInt (endc l)) (VInt ebp)) with (endc l =? ebp). rewrite E1.
        destruct s0; reflexivity. }
    destruct (nth_error chroms (S (prev_ind s0))) as [c'|] eqn:Ec; unfold ev_ended, cenv;
      repeat first [ progress cbn -[index_sem truthy Z.add py_eq]
                   | rewrite truthy_segs | rewrite index_last | rewrite index_ends | rewrite El | rewrite Ee ];
      change (py_eq (VInt (endc l)) (VInt ebp)) with (endc l =? ebp); rewrite E1;
      cbn -[index_sem truthy Z.add py_eq];
      replace (Z.of_nat (prev_ind s0) + 1) with (Z.of_nat (S (prev_ind s0))) by lia;
      rewrite index_chroms, Ec; reflexivity.
  Qed.

  Lemma ev_after_shape :
    ev_after =
    SSeq (SAssign "cur_ind" (EIndexOf (EVar "chroms") (EVar "cur_chrom")))
      (SSeq (SFor "i" (ERange (EBin Sub (EVar "cur_ind") (EVar "prev_ind"))) sc_emit1)
         (SSeq (SAssign "prev_ind" (EVar "cur_ind")) (SAssign "prev_chrom" (EVar "cur_chrom")))).
  Proof. reflexivity. Qed.

  Lemma ev_after_step s1 cur jc ji jpc jeb jpm jci :
    match index_of cur chroms with
    | None =>
        exec (ft_3 fuel) ev_after fuel (cenv s1 (VInt (start_bp s1)) jc ji jpc (VInt cur) jeb jpm jci) = OErr 1
    | Some ci =>
        match emit_chroms get_segment chroms ends p ha hb prev (ci - prev_ind s1)%nat (prev_ind s1) s1 with
        | Err e =>
            exec (ft_3 fuel) ev_after fuel (cenv s1 (VInt (start_bp s1)) jc ji jpc (VInt cur) jeb jpm jci) = OErr e
        | Ok s2 =>
            exists ji' jeb' jpm',
              exec (ft_3 fuel) ev_after fuel (cenv s1 (VInt (start_bp s1)) jc ji jpc (VInt cur) jeb jpm jci) =
              ONorm (cenv (mkst (segs s2) cur ci (homolog s2) (hd s2) (start_bp s2)) (VInt (start_bp s2))
                       jc ji' jpc (VInt cur) jeb' jpm' (VInt (Z.of_nat ci)))
        end
    end.
  Proof.
    pose proof (emit_loop jc jpc (VInt cur)) as EL.
    destruct (index_of cur chroms) as [ci|] eqn:Ei.
    - specialize (EL (VInt (Z.of_nat ci)) (ci - prev_ind s1)%nat O s1 ji jeb jpm).
      rewrite Nat.add_0_r in EL. change (Z.of_nat 0) with 0 in EL.
      destruct (emit_chroms get_segment chroms ends p ha hb prev (ci - prev_ind s1) (prev_ind s1) s1) as [s2|e].
      + destruct EL as [H1 [H2 [_ [_ [ji' [jeb' [jpm' H5]]]]]]].
        exists ji', jeb', jpm'.
        rewrite ev_after_shape. unfold cenv at 1.
        cbn -[index_sem truthy Z.add Z.sub for_loop].
        rewrite index_of_sem, Ei. rewrite Z.add_0_l.
        cbn -[index_sem truthy Z.add Z.sub for_loop].
        replace (Z.to_nat (Z.of_nat ci - Z.of_nat (prev_ind s1))) with (ci - prev_ind s1)%nat by lia.
        fold (cenv s1 (VInt (start_bp s1)) jc ji jpc (VInt cur) jeb jpm (VInt (Z.of_nat ci))).
        rewrite H5. unfold cenv. cbn. reflexivity.
      + rewrite ev_after_shape. unfold cenv at 1.
        cbn -[index_sem truthy Z.add Z.sub for_loop].
        rewrite index_of_sem, Ei. rewrite Z.add_0_l.
        cbn -[index_sem truthy Z.add Z.sub for_loop].
        replace (Z.to_nat (Z.of_nat ci - Z.of_nat (prev_ind s1))) with (ci - prev_ind s1)%nat by lia.
        fold (cenv s1 (VInt (start_bp s1)) jc ji jpc (VInt cur) jeb jpm (VInt (Z.of_nat ci))).
        rewrite EL. reflexivity.
    - rewrite ev_after_shape. unfold cenv.
      cbn -[index_sem truthy Z.add Z.sub for_loop].
      rewrite index_of_sem, Ei. reflexivity.
  Qed.

  Arguments ev_ended : simpl never.
  Arguments ev_after : simpl never.

  Lemma ev_swap_step s0 cur jc ji jpc jeb jpm jci :
    match m_swap s0 cur with
    | Ok s' =>
        exists ji' jeb' jpm' jci',
          exec (ft_3 fuel) ev_swap fuel (cenv s0 (VInt (start_bp s0)) jc ji jpc (VInt cur) jeb jpm jci) =
          ONorm (cenv s' (VInt (start_bp s')) jc ji' jpc (VInt cur) jeb' jpm' jci')
    | Err k =>
        exec (ft_3 fuel) ev_swap fuel (cenv s0 (VInt (start_bp s0)) jc ji jpc (VInt cur) jeb jpm jci) = OErr k
    end.
  Proof.
    unfold m_swap. rewrite ev_swap_shape.
    assert (Hc : eval (ft_3 fuel) (ECmp CNe (EVar "cur_chrom") (EVar "prev_chrom"))
                   (cenv s0 (VInt (start_bp s0)) jc ji jpc (VInt cur) jeb jpm jci) =
                 Ok (VBool (negb (cur =? prev_chrom s0)))) by reflexivity.
    cbn [exec]. rewrite Hc. cbn [truthy].
    destruct (negb (cur =? prev_chrom s0)).
    2:{ exists ji, jeb, jpm, jci. reflexivity. }
    pose proof (ev_ended_step s0 jc ji jpc (VInt cur) jeb jpm jci) as HE.
    destruct (m_ended s0) as [s1|k]; cbn [bind]; rewrite HE; [|reflexivity].
    pose proof (ev_after_step s1 cur jc ji jpc jeb jpm jci) as HA.
    destruct (index_of cur chroms) as [ci|]; [|exact HA].
    destruct (emit_chroms get_segment chroms ends p ha hb prev (ci - prev_ind s1) (prev_ind s1) s1) as [s2|e];
      cbn [bind]; [|exact HA].
    destruct HA as [ji' [jeb' [jpm' HA]]].
    exists ji', jeb', jpm', (VInt (Z.of_nat ci)). exact HA.
  Qed.

  Arguments ev_sb : simpl never.
  Arguments ev_swap : simpl never.
  Arguments ev_tail : simpl never.

  (* [step] of the hand-written model, decomposed *)
  Lemma step_decomp s e :
    step get_segment chroms ends p ha hb prev s e =
    bind (m_swap (with_sb s (m_sb s)) (ev_chrom e)) (fun s' => m_tail s' e).
  Proof.
    unfold step, m_swap, m_ended, m_tail, with_sb, m_sb. cbn [segs prev_chrom prev_ind homolog hd start_bp].
    destruct (negb (ev_chrom e =? prev_chrom s)); reflexivity.
  Qed.

  (* one iteration of the loop over recombination events *)
  Lemma ev_step s e sb0 ji jpc jcc jeb jpm jci :
    match step get_segment chroms ends p ha hb prev s e with
    | Ok s2 =>
        exists jc' ji' jpc' jcc' jeb' jpm' jci',
          exec (ft_3 fuel) sc_ev fuel (cenv s sb0 (enc_event e) ji jpc jcc jeb jpm jci) =
          ONorm (cenv s2 (VInt (start_bp s2)) jc' ji' jpc' jcc' jeb' jpm' jci')
    | Err k =>
        exec (ft_3 fuel) sc_ev fuel (cenv s sb0 (enc_event e) ji jpc jcc jeb jpm jci) = OErr k
    end.
  Proof.
    rewrite step_decomp. rewrite sc_ev_shape.
    unfold ev_a1, ev_a2. unfold cenv at 1 2. unfold enc_event at 1 2. unfold enc_marker at 1 2.
    cbn -[index_sem truthy Z.add Z.sub].
    fold (enc_marker (ev_chrom e) (ev_bp e) (ev_cm e) VNone).
    fold (enc_marker (ev_chrom e) 0 0 (enc_marker (ev_chrom e) (ev_bp e) (ev_cm e) VNone)).
    fold (enc_event e).
    fold (cenv s sb0 (enc_event e) ji (enc_marker (ev_chrom e) (ev_bp e) (ev_cm e) VNone) (VInt (ev_chrom e)) jeb jpm jci).
    rewrite ev_sb_step.
    rewrite <- (cenv_with_sb s (m_sb s)).
    pose proof (ev_swap_step (with_sb s (m_sb s)) (ev_chrom e) (enc_event e) ji
                  (enc_marker (ev_chrom e) (ev_bp e) (ev_cm e) VNone) jeb jpm jci) as HS.
    change (start_bp (with_sb s (m_sb s))) with (m_sb s) in HS.
    destruct (m_swap (with_sb s (m_sb s)) (ev_chrom e)) as [s'|k]; cbn [bind].
    - destruct HS as [ji' [jeb' [jpm' [jci' HS]]]]. rewrite HS.
      pose proof (ev_tail_step s' e (enc_event e) ji' jeb' jpm' jci') as HT.
      destruct (m_tail s' e) as [s2|k].
      + do 7 eexists. exact HT.
      + exact HT.
    - rewrite HS. reflexivity.
  Qed.

  Arguments sc_ev : simpl never.

  Definition sb_ok (sb : val) (s : st) : Prop := sb = VInt (start_bp s) \/ segs s = [].

  Lemma ev_loop : forall evs s sb0 jc ji jpc jcc jeb jpm jci,
    match run get_segment chroms ends p ha hb prev evs s with
    | Ok s' =>
        exists sb' jc' ji' jpc' jcc' jeb' jpm' jci',
          for_loop (exec (ft_3 fuel) sc_ev fuel) "coord" (map enc_event evs)
            (cenv s sb0 jc ji jpc jcc jeb jpm jci) =
          ONorm (cenv s' sb' jc' ji' jpc' jcc' jeb' jpm' jci') /\
          (sb_ok sb0 s -> sb_ok sb' s')
    | Err k =>
        for_loop (exec (ft_3 fuel) sc_ev fuel) "coord" (map enc_event evs)
          (cenv s sb0 jc ji jpc jcc jeb jpm jci) = OErr k
    end.
  Proof.
    induction evs as [|e r IH]; intros s sb0 jc ji jpc jcc jeb jpm jci.
    - cbn [run map for_loop]. do 8 eexists. split; [reflexivity|auto].
    - cbn [run map for_loop].
      change (update "coord" (enc_event e) (cenv s sb0 jc ji jpc jcc jeb jpm jci))
        with (cenv s sb0 (enc_event e) ji jpc jcc jeb jpm jci).
      pose proof (ev_step s e sb0 ji jpc jcc jeb jpm jci) as HS.
      destruct (step get_segment chroms ends p ha hb prev s e) as [s2|k]; cbn [bind].
      + destruct HS as [jc' [ji' [jpc' [jcc' [jeb' [jpm' [jci' HS]]]]]]]. rewrite HS.
        specialize (IH s2 (VInt (start_bp s2)) jc' ji' jpc' jcc' jeb' jpm' jci').
        destruct (run get_segment chroms ends p ha hb prev r s2) as [s'|k].
        * destruct IH as [sb' [a1 [a2 [a3 [a4 [a5 [a6 [a7 [H1 H2]]]]]]]]].
          exists sb', a1, a2, a3, a4, a5, a6, a7. split; [exact H1|].
          intros _. apply H2. left. reflexivity.
        * exact IH.
      + rewrite HS. reflexivity.
  Qed.

  (* ---- after the events: close the current chromosome and emit the remaining ones ---- *)
  Definition fin_if : stmt := Eval cbv in match sc_fin with SSeq a _ => a | _ => SSkip end.
  Lemma sc_fin_shape :
    sc_fin = SSeq fin_if (SSeq (SFor "i" (ERange (EBin Sub (ELen (EVar "chroms")) (EVar "prev_ind"))) sc_emit1)
                            (SReturn (EVar "segments"))).
  Proof. reflexivity. Qed.

  Definition m_fin1 (s : st) : res st :=
    match last_opt (segs s) with
    | None => Ok (mkst (segs s) (prev_chrom s) (prev_ind s) (homolog s) (hd s) 0)
    | Some l =>
      match nth_error ends (prev_ind s) with
      | Some (ebp, _) =>
          if endc l =? ebp
          then Ok (mkst (segs s) (prev_chrom s) (S (prev_ind s)) (homolog s) (hd s) (start_bp s))
          else Ok (mkst (segs s) (prev_chrom s) (prev_ind s) (homolog s) (hd s) (endc l + 1))
      | None => Err E_Index
      end
    end.

  Lemma fin_if_step s sb jc ji jpc jcc jeb jpm jci :
    sb_ok sb s ->
    match m_fin1 s with
    | Ok s1 =>
        exec (ft_3 fuel) fin_if fuel (cenv s sb jc ji jpc jcc jeb jpm jci) =
        ONorm (cenv s1 (VInt (start_bp s1)) jc ji jpc jcc jeb jpm jci)
    | Err k => exec (ft_3 fuel) fin_if fuel (cenv s sb jc ji jpc jcc jeb jpm jci) = OErr k
    end.
  Proof.
    intro Hsb. unfold m_fin1.
    destruct (last_opt (segs s)) as [l|] eqn:El.
    2:{ unfold fin_if, cenv.
        repeat first [ progress cbn -[index_sem truthy Z.add] | rewrite truthy_segs | rewrite El ].
        reflexivity. }
    assert (Hs : sb = VInt (start_bp s)).
    { destruct Hsb as [H|H]; [exact H|]. rewrite H in El. discriminate. }
    subst sb.
    destruct (nth_error ends (prev_ind s)) as [[ebp ecm]|] eqn:Ee.
    2:{ unfold fin_if, cenv.
        repeat first [ progress cbn -[index_sem truthy Z.add py_eq]
                     | rewrite truthy_segs | rewrite index_last | rewrite index_ends | rewrite El | rewrite Ee ].
        reflexivity. }
    destruct (endc l =? ebp) eqn:E1; unfold fin_if, cenv;
      repeat first [ progress cbn -[index_sem truthy Z.add py_eq]
                   | rewrite truthy_segs | rewrite index_last | rewrite index_ends | rewrite El | rewrite Ee ];
      change (py_eq (VInt (endc l)) (VInt ebp)) with (endc l =? ebp); rewrite E1;
      repeat first [ progress cbn -[index_sem truthy Z.add py_eq]
                   | rewrite truthy_segs | rewrite index_last | rewrite index_ends | rewrite El | rewrite Ee ].
    - replace (Z.of_nat (prev_ind s) + 1) with (Z.of_nat (S (prev_ind s))) by lia. reflexivity.
    - reflexivity.
  Qed.

  Arguments fin_if : simpl never.

  Lemma fin_step s sb jc ji jpc jcc jeb jpm jci :
    sb_ok sb s ->
    match C01_Model.finish get_segment chroms ends p ha hb prev s with
    | Ok g => exists en', exec (ft_3 fuel) sc_fin fuel (cenv s sb jc ji jpc jcc jeb jpm jci) = ORet (enc_segs g) en'
    | Err k => exec (ft_3 fuel) sc_fin fuel (cenv s sb jc ji jpc jcc jeb jpm jci) = OErr k
    end.
  Proof.
    intro Hsb.
    pose proof (fin_if_step s sb jc ji jpc jcc jeb jpm jci Hsb) as H1.
    unfold C01_Model.finish. fold (m_fin1 s).
    destruct (m_fin1 s) as [s1|k]; cbn [bind].
    2:{ rewrite sc_fin_shape. cbn [exec]. rewrite H1. reflexivity. }
    pose proof (emit_loop jc jpc jcc jci (List.length chroms - prev_ind s1)%nat O s1 ji jeb jpm) as EL.
    rewrite Nat.add_0_r in EL. change (Z.of_nat 0) with 0 in EL.
    assert (HR : forall X,
      exec (ft_3 fuel) sc_fin fuel (cenv s sb jc ji jpc jcc jeb jpm jci) =
      match for_loop (exec (ft_3 fuel) sc_emit1 fuel) "i" (range_list (List.length chroms - prev_ind s1) 0)
              (cenv s1 (VInt (start_bp s1)) jc ji jpc jcc jeb jpm jci) with
      | ONorm en' => exec (ft_3 fuel) (SReturn (EVar "segments")) fuel en'
      | o => o
      end -> X -> X) by auto.
    assert (HX :
      exec (ft_3 fuel) sc_fin fuel (cenv s sb jc ji jpc jcc jeb jpm jci) =
      match for_loop (exec (ft_3 fuel) sc_emit1 fuel) "i" (range_list (List.length chroms - prev_ind s1) 0)
              (cenv s1 (VInt (start_bp s1)) jc ji jpc jcc jeb jpm jci) with
      | ONorm en' => exec (ft_3 fuel) (SReturn (EVar "segments")) fuel en'
      | o => o
      end).
    { rewrite sc_fin_shape. cbn [exec]. rewrite H1. unfold cenv at 1.
      cbn -[index_sem truthy Z.add Z.sub for_loop].
      rewrite lenZ_map. unfold lenZ.
      replace (Z.to_nat (Z.of_nat (List.length chroms) - Z.of_nat (prev_ind s1)))
        with (List.length chroms - prev_ind s1)%nat by lia.
      fold (cenv s1 (VInt (start_bp s1)) jc ji jpc jcc jeb jpm jci).
      destruct (for_loop _ _ _ _); reflexivity. }
    clear HR.
    destruct (emit_chroms get_segment chroms ends p ha hb prev (List.length chroms - prev_ind s1) (prev_ind s1) s1)
      as [s2|e]; cbn [bind].
    - destruct EL as [_ [_ [_ [_ [ji' [jeb' [jpm' H5]]]]]]].
      eexists. rewrite HX, H5. reflexivity.
    - rewrite HX, EL. reflexivity.
  Qed.
End Child.

Arguments sc_ev : simpl never.
Arguments sc_fin : simpl never.

Lemma sc_shape :
  src__simulate_child =
  mkfun ["chroms"; "end_coords"; "p_pop"; "haps"; "homolog"; "true_coords"; "prev_gen_samples"; "segments"; "$draws"]
        ["prev_chrom"; "prev_ind"; "coord"; "i"; "prev_coord"; "cur_chrom"; "end_bp"; "prev_map_pos"; "start_bp"; "cur_ind"]
    (SSeq (SAssign "prev_chrom" (EIndex (EVar "chroms") (EInt 0)))
    (SSeq (SAssign "prev_ind" (EInt 0))
    (SSeq (SFor "coord" (EVar "true_coords") sc_ev) sc_fin))).
Proof. reflexivity. Qed.

Lemma sim_sample_head chroms ends p ha hb prev h0 hd evs :
  sim_sample get_segment chroms ends p ha hb prev h0 hd evs =
  match nth_error chroms 0 with
  | None => Err E_Index
  | Some c0 => bind (run get_segment chroms ends p ha hb prev evs (mkst [] c0 O h0 hd 0))
                    (C01_Model.finish get_segment chroms ends p ha hb prev)
  end.
Proof. unfold sim_sample. destruct chroms; reflexivity. Qed.

(* The per-child loop of _simulate, as translated from the current source, computes exactly
   C01_Model.sim_sample (the model the tiling / mosaic theorems of C01 and C02 are about): same
   tracts, same exception kind, for every chromosome list, end list, parent pair, draw stream
   and event list. *)
Theorem TV_simulate_child_refines : forall chroms ends p ha hb prev h0 hd evs fuel,
  0 <= ha -> 0 <= hb ->
  (forall h parent, nthZ prev h = Some parent -> (S (List.length parent) < fuel)%nat) ->
  res_map fst (fn__simulate_child fuel (child_args chroms ends p ha hb prev h0 hd evs)) =
  res_map (fun g => enc_segs g) (sim_sample get_segment chroms ends p ha hb prev h0 hd evs).
Proof.
  intros chroms ends p ha hb prev h0 hd evs fuel Hha Hhb Hfuel.
  unfold fn__simulate_child, run_fun, child_args. rewrite sc_shape.
  cbn [fparams flocals fbody bind_params app map].
  rewrite sim_sample_head.
  assert (H0 : index_sem (VList (map VInt chroms)) (VInt 0) =
               match nth_error chroms 0 with Some c => Ok (VInt c) | None => Err 2 end).
  { rewrite (index_list_map VInt chroms 0) by lia. destruct chroms; reflexivity. }
  destruct (nth_error chroms 0) as [c0|] eqn:Ec0;
    cbn -[index_sem for_loop]; rewrite H0; clear H0; [|reflexivity].
  cbn -[index_sem for_loop].
  set (TC := VList (map enc_event evs)).
  pose proof (ev_loop chroms ends p ha hb prev fuel Hha Hhb Hfuel TC evs (mkst [] c0 O h0 hd 0)
                VUnbound VUnbound VUnbound VUnbound VUnbound VUnbound VUnbound VUnbound) as HL.
  unfold cenv in HL. cbn [segs prev_chrom prev_ind homolog C01_Model.hd start_bp map] in HL.
  change (Z.of_nat 0) with 0 in HL.
  destruct (run get_segment chroms ends p ha hb prev evs (mkst [] c0 O h0 hd 0)) as [s'|k]; cbn [bind].
  - destruct HL as [sb' [a1 [a2 [a3 [a4 [a5 [a6 [a7 [H1 H2]]]]]]]]].
    rewrite H1.
    pose proof (fin_step chroms ends p ha hb prev fuel Hha Hhb Hfuel TC s' sb' a1 a2 a3 a4 a5 a6 a7
                  (H2 (or_intror eq_refl))) as HF. unfold cenv in HF.
    destruct (C01_Model.finish get_segment chroms ends p ha hb prev s') as [g|k].
    + destruct HF as [en' HF]. rewrite HF. reflexivity.
    + rewrite HF. reflexivity.
  - rewrite HL. reflexivity.
Qed.
Print Assumptions TV_simulate_child_refines.


(* C02's tiling theorem, restated about the loop as translated from the current source: for every
   strictly increasing chromosome list, every ordered event list and every draw stream, given
   get_segment's shape contract for the parents at hand, the translated loop returns (never
   raises) tracts that tile every chromosome *)
Theorem TV_simulate_child_tiles : forall chroms ends p ha hb prev fuel,
  0 <= ha -> 0 <= hb ->
  (forall h parent, nthZ prev h = Some parent -> (S (List.length parent) < fuel)%nat) ->
  List.length ends = List.length chroms ->
  (forall i e, nth_error ends i = Some e -> fst e = MAXC) ->
  incr chroms ->
  (forall (h : bool) c a e m, In c chroms -> 0 <= a -> a <= e -> e <= MAXC ->
     exists g, get_segment p (hap_of ha hb h) c a e m prev = Ok g /\ run_ok c (a - 1) g e) ->
  forall h0 hdraws evs,
  chroms <> [] -> (List.length chroms <= List.length hdraws)%nat -> evs_ok chroms 0 (-1) evs ->
  exists out,
    res_map fst (fn__simulate_child fuel (child_args chroms ends p ha hb prev h0 hdraws evs)) = Ok (enc_segs out) /\
    tiles chroms out.
Proof.
  intros chroms ends p ha hb prev fuel Hha Hhb Hfuel Hlen Hmax Hincr Hgs h0 hdraws evs Hne Hd Hev.
  destruct (sim_sample_tiles get_segment chroms ends p ha hb prev Hlen Hmax Hincr Hgs h0 hdraws evs Hne Hd Hev)
    as [out [Hs Ht]].
  exists out. split; [|exact Ht].
  rewrite TV_simulate_child_refines by assumption. rewrite Hs. reflexivity.
Qed.
Print Assumptions TV_simulate_child_tiles.
