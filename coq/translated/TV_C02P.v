(* Translation validation for C02 / C20, the tail of _prepare_coords: the MiniPy syntax of the statements of
   haptools/sim_genotype.py's _prepare_coords from `if region:` to `end_coords = [...]` (cut out as the synthetic
   function _prepare_coords_tail(coords, region)), REGENERATED FROM /repo's CURRENT SOURCE on every run
   (HVG.Gen_SimGenotype, written by harness/pytrans.py), denotes exactly that part of the hand-written
   C02_Coords.prepare_coords (region_slice, seal, ends_of) and C20_Model's region loop (cut_scan, pyslice) -
   same marker lists and end markers, or the same error kind - for ALL marker lists and regions.
   Compiled per run against the generated module; not part of the static build. *)
From HV Require Import Prelude MiniPy MiniPyFacts Tracts Tiling C01_Model C02_Model C02_Generations C02_Coords C20_Model.
From HVG Require Import Gen_SimGenotype TVM_C01 TVM_C02P.
From Coq Require Import String.
Open Scope string_scope.
Open Scope list_scope.
Open Scope Z_scope.

(* ---- the pieces of the generated term ---- *)
Definition rg_then : stmt :=
  Eval cbv in match fbody src__prepare_coords_tail with SSeq (SIf _ t _) _ => t | _ => SSkip end.
Definition rl_body : stmt :=
  Eval cbv in match rg_then with SSeq _ (SSeq (SFor _ _ b) _) => b | _ => SSkip end.
Definition sl_body : stmt :=
  Eval cbv in match fbody src__prepare_coords_tail with SSeq _ (SSeq (SFor _ _ b) _) => b | _ => SSkip end.
Definition ec_body : stmt :=
  Eval cbv in match fbody src__prepare_coords_tail with
              | SSeq _ (SSeq _ (SSeq _ (SSeq (SFor _ _ b) _))) => b | _ => SSkip end.

Lemma pc_shape :
  src__prepare_coords_tail =
  mkfun ["coords"; "region"]
        ["chrom_coord"; "end_coords"; "_c1"; "start_ind"; "ind"; "marker"; "end_ind"; "_t1"; "_t2"]
    (SSeq (SIf (EVar "region") rg_then SSkip)
    (SSeq (SFor "_t2" (EEnumerate (EVar "coords")) sl_body)
    (SSeq (SAssign "end_coords" (EList []))
    (SSeq (SFor "_c1" (EVar "coords") ec_body)
          (SReturn (EVar "end_coords")))))).
Proof. reflexivity. Qed.

Lemma rg_then_shape :
  rg_then =
  SSeq (SAssign "start_ind" (EInt (-1)))
  (SSeq (SFor "_t1" (EEnumerate (EIndex (EVar "coords") (EInt 0))) rl_body)
        (SAssign "coords" (EList [ESlice (EIndex (EVar "coords") (EInt 0))
                                         (Some (EVar "start_ind")) (Some (EVar "end_ind"))]))).
Proof. reflexivity. Qed.

Definition pc_env (cds rg cc ec c1 si ind mk ei t1 t2 : val) : env :=
  [("coords", cds); ("region", rg); ("chrom_coord", cc); ("end_coords", ec); ("_c1", c1);
   ("start_ind", si); ("ind", ind); ("marker", mk); ("end_ind", ei); ("_t1", t1); ("_t2", t2)].

(* ---- Python's slice = C20_Model.pyslice ---- *)
Lemma clampi_lo n a : 0 <= n -> clampi n a = if a <? 0 then Z.max (n + a) 0 else Z.min a n.
Proof.
  intro Hn. unfold clampi. destruct (a <? 0) eqn:A.
  - apply Z.ltb_lt in A. destruct (a + n <? 0) eqn:B.
    + apply Z.ltb_lt in B. lia.
    + apply Z.ltb_ge in B. assert (n <? a + n = false) as -> by (apply Z.ltb_ge; lia). lia.
  - apply Z.ltb_ge in A. assert (a <? 0 = false) as -> by (apply Z.ltb_ge; lia).
    destruct (n <? a) eqn:B; [apply Z.ltb_lt in B|apply Z.ltb_ge in B]; lia.
Qed.

Lemma slice_is_pyslice {A} (l : list A) a b :
  slice_list l (clampi (lenZ l) a) (clampi (lenZ l) b) = pyslice l a b.
Proof.
  unfold slice_list, pyslice. rewrite !clampi_lo by (unfold lenZ; lia). reflexivity.
Qed.

Lemma pyslice_map {A B} (f : A -> B) l a b : pyslice (map f l) a b = map f (pyslice l a b).
Proof. unfold pyslice, lenZ. rewrite map_length, skipn_map, firstn_map. reflexivity. Qed.

(* ---- the region loop over coords[0] = C20_Model.cut_scan ---- *)
Section Region.
  Variables s e : Z.
  Variable c : val.
  Variable l0 : list pmarker.
  Variable rest : list val.
  Variables cc ec c1 t2 : val.
  Variable fuel : nat.

  Local Notation rgv := (enc_region (Some (s, e)) c).
  Local Notation cds := (VList (enc_pms l0 :: rest)).
  Local Notation ft := (ft_4 fuel).

  Lemma idx_t0 a b : index_sem (VTuple [a; b]) (VInt 0) = Ok a.
  Proof. reflexivity. Qed.
  Lemma idx_t1 a b : index_sem (VTuple [a; b]) (VInt 1) = Ok b.
  Proof. reflexivity. Qed.
  Lemma idx_l0 x r : index_sem (VList (x :: r)) (VInt 0) = Ok x.
  Proof. reflexivity. Qed.
  Lemma idx_start : index_sem rgv (VText [115; 116; 97; 114; 116]) = Ok (VInt s).
  Proof. reflexivity. Qed.
  Lemma idx_end : index_sem rgv (VText [101; 110; 100]) = Ok (VInt e).
  Proof. reflexivity. Qed.

  Lemma nu_rgv : match rgv with VUnbound => @Err val 6 | _ => Ok rgv end = Ok rgv.
  Proof. reflexivity. Qed.

  Ltac pstep :=
    repeat (progress (cbn -[ft_4 lenZ Z.leb Z.ltb index_sem enc_region];
                      rewrite ?nu_rgv, ?idx_t0, ?idx_t1, ?idx_start, ?idx_end, ?idx_l0, ?lenZ_map)).

  Lemma rl_step si ind m ind0 mk0 ei0 :
    exec ft rl_body fuel (pc_env cds rgv cc ec c1 (VInt si) ind0 mk0 ei0 (VTuple [VInt ind; enc_pm m]) t2) =
    (let si' := if (s <=? pm_bp m) && (si <? 0) then ind else si in
     if e <=? pm_bp m
     then OBrk (pc_env cds rgv cc ec c1 (VInt si') (VInt ind) (enc_pm m) (VInt (ind + 1)) (VTuple [VInt ind; enc_pm m]) t2)
     else ONorm (pc_env cds rgv cc ec c1 (VInt si') (VInt ind) (enc_pm m) (VInt (lenZ l0)) (VTuple [VInt ind; enc_pm m]) t2)).
  Proof.
    unfold rl_body, pc_env, enc_pm, enc_marker, enc_pms. pstep.
    destruct (s <=? pm_bp m) eqn:Es; pstep.
    - destruct (si <? 0) eqn:Ei; pstep; (destruct (e <=? pm_bp m) eqn:Ee; pstep; reflexivity).
    - destruct (e <=? pm_bp m) eqn:Ee; pstep; reflexivity.
  Qed.

  Arguments rl_body : simpl never.

  Lemma rl_loop : forall (ms : list pmarker) ind si ei0 ind0 mk0 t1,
    exists ind' mk' t1',
      for_loop (exec ft rl_body fuel) "_t1" (enum_from ind (map enc_pm ms))
        (pc_env cds rgv cc ec c1 (VInt si) ind0 mk0 ei0 t1 t2) =
      ONorm (pc_env cds rgv cc ec c1 (VInt (fst (cut_scan (map bp_pair ms) ind si s e (lenZ l0)))) ind' mk'
                    (match ms with [] => ei0 | _ :: _ => VInt (snd (cut_scan (map bp_pair ms) ind si s e (lenZ l0))) end)
                    t1' t2).
  Proof.
    induction ms as [|m r IH]; intros ind si ei0 ind0 mk0 t1.
    - exists ind0, mk0, t1. reflexivity.
    - cbn [map enum_from for_loop cut_scan bp_pair snd].
      change (update "_t1" ?v (pc_env cds rgv cc ec c1 (VInt si) ind0 mk0 ei0 t1 t2))
        with (pc_env cds rgv cc ec c1 (VInt si) ind0 mk0 ei0 v t2).
      rewrite rl_step. cbv zeta.
      destruct (e <=? pm_bp m) eqn:Ee.
      + exists (VInt ind), (enc_pm m), (VTuple [VInt ind; enc_pm m]). reflexivity.
      + destruct (IH (ind + 1) (if (s <=? pm_bp m) && (si <? 0) then ind else si) (VInt (lenZ l0)) (VInt ind) (enc_pm m)
                     (VTuple [VInt ind; enc_pm m])) as (i' & m' & t' & E).
        exists i', m', t'. rewrite E. destruct r as [|m2 r2]; reflexivity.
  Qed.
End Region.

Arguments rl_body : simpl never.

(* ---- `if region:` ... `coords = [coords[0][start_ind:end_ind]]` ---- *)
Lemma then_exec fuel s e c (cs : list (list pmarker)) cc ec c1 si0 ind0 mk0 t1 t2 :
  exists si' ind' mk' ei' t1',
    exec (ft_4 fuel) rg_then fuel
      (pc_env (enc_coords cs) (enc_region (Some (s, e)) c) cc ec c1 si0 ind0 mk0 VUnbound t1 t2) =
    match cs with
    | [] => OErr 2
    | l0 :: _ =>
        match region_pm s e l0 with
        | Err k => OErr k
        | Ok x => ONorm (pc_env (enc_coords [x]) (enc_region (Some (s, e)) c) cc ec c1 si' ind' mk' ei' t1' t2)
        end
    end.
Proof.
  rewrite rg_then_shape. destruct cs as [|l0 rest].
  - exists si0, ind0, mk0, VUnbound, t1. reflexivity.
  - unfold enc_coords. cbn [map].
    destruct (rl_loop s e c l0 (map enc_pms rest) cc ec c1 t2 fuel l0 0 (-1) VUnbound ind0 mk0 t1)
      as (ind' & mk' & t1' & E).
    rewrite !exec_seq.
    unfold pc_env at 1. cbn -[ft_4 lenZ index_sem enc_region rl_body for_loop enum_from enc_pms].
    rewrite idx_l0. cbn -[ft_4 lenZ index_sem enc_region rl_body for_loop enum_from].
    fold (pc_env (VList (enc_pms l0 :: map enc_pms rest)) (enc_region (Some (s, e)) c) cc ec c1 (VInt (-1)) ind0 mk0
                 VUnbound t1 t2).
    rewrite E. clear E.
    unfold pc_env. cbn -[ft_4 lenZ index_sem enc_region clampi slice_list cut_scan].
    rewrite idx_l0. cbn -[ft_4 lenZ index_sem enc_region clampi slice_list cut_scan].
    unfold region_pm. destruct l0 as [|m0 r0].
    + exists (VInt (-1)), ind', mk', VUnbound, t1'. reflexivity.
    + set (l0 := m0 :: r0) in *.
      change (map bp_pair l0) with (map bp_pair l0).
      destruct (cut_scan (map bp_pair l0) 0 (-1) s e (lenZ l0)) as [si ei] eqn:EC.
      cbn -[ft_4 lenZ index_sem enc_region clampi slice_list cut_scan l0].
      exists (VInt si), ind', mk', (VInt ei), t1'.
      change (VObj 2 [VInt (pm_chrom m0); VStr (pm_cm m0); VInt (pm_bp m0); pm_prev m0] :: map enc_pm r0)
        with (map enc_pm l0).
      rewrite slice_is_pyslice, pyslice_map. reflexivity.
Qed.

(* ---- list facts: the element / the store at the end and in the middle ---- *)
Lemma idx_m1 (l : list val) x : index_sem (VList (l ++ [x])) (VInt (-1)) = Ok x.
Proof.
  unfold index_sem. cbn [as_seq]. change (-1 <? 0) with true. cbv iota zeta.
  rewrite nth_z_nthZ. unfold nthZ, lenZ. rewrite app_length. cbn [List.length].
  destruct (-1 + Z.of_nat (List.length l + 1) <? 0) eqn:E; [apply Z.ltb_lt in E; lia|].
  replace (Z.to_nat (-1 + Z.of_nat (List.length l + 1))) with (List.length l) by lia.
  rewrite nth_error_app2, Nat.sub_diag by lia. reflexivity.
Qed.

Lemma idx_m1_nil : index_sem (VList []) (VInt (-1)) = Err 2.
Proof. reflexivity. Qed.

Lemma set_m1 (l : list val) x v : set_index (VList (l ++ [x])) (VInt (-1)) v = Ok (VList (l ++ [v])).
Proof.
  unfold set_index. change (-1 <? 0) with true. cbv iota zeta.
  assert (Hn : lenZ (l ++ [x]) = Z.of_nat (List.length l) + 1).
  { unfold lenZ. rewrite app_length. cbn [List.length]. lia. }
  rewrite Hn.
  assert (E1 : (-1 + (Z.of_nat (List.length l) + 1) <? 0) = false) by (apply Z.ltb_ge; lia).
  assert (E2 : (Z.of_nat (List.length l) + 1 <=? -1 + (Z.of_nat (List.length l) + 1)) = false) by (apply Z.leb_gt; lia).
  rewrite E1, E2. cbn [orb].
  replace (Z.to_nat (-1 + (Z.of_nat (List.length l) + 1))) with (List.length l) by lia.
  rewrite firstn_app, Nat.sub_diag, firstn_all. cbn [firstn]. rewrite app_nil_r.
  replace (S (List.length l)) with (List.length (l ++ [x])) by (rewrite app_length; cbn; lia).
  rewrite skipn_all. reflexivity.
Qed.

Lemma idx_mid (a b : list val) x : index_sem (VList (a ++ x :: b)) (VInt (lenZ a)) = Ok x.
Proof.
  rewrite index_list_nonneg by (unfold lenZ; lia). unfold nthZ, lenZ.
  assert (E : (Z.of_nat (List.length a) <? 0) = false) by (apply Z.ltb_ge; lia). rewrite E.
  rewrite Nat2Z.id, nth_error_app2, Nat.sub_diag by lia. reflexivity.
Qed.

Lemma set_mid (a b : list val) (x v : val) :
  set_index (VList (a ++ x :: b)) (VInt (lenZ a)) v = Ok (VList (a ++ v :: b)).
Proof.
  rewrite set_index_list.
  - unfold lenZ. rewrite Nat2Z.id. rewrite firstn_app, Nat.sub_diag, firstn_all. cbn [firstn].
    rewrite app_nil_r.
    replace (S (List.length a)) with (List.length (a ++ [x])) by (rewrite app_length; cbn; lia).
    replace (a ++ x :: b) with ((a ++ [x]) ++ b) by (rewrite <- app_assoc; reflexivity).
    rewrite skipn_app, Nat.sub_diag, skipn_all. reflexivity.
  - unfold lenZ. rewrite app_length. cbn [List.length]. lia.
Qed.

Lemma seal_pm_last pre m : seal_pm (pre ++ [m]) = pre ++ [sealed m].
Proof.
  induction pre as [|a r IH]; [reflexivity|].
  cbn [app].
  change (seal_pm (a :: r ++ [m])) with (match r ++ [m] with [] => [sealed a] | _ :: _ => a :: seal_pm (r ++ [m]) end).
  rewrite IH. destruct r; reflexivity.
Qed.

(* chrom_coord[-1].bp_map_pos = 2147483647 on a list of markers *)
Lemma seal_store (h : list pmarker) :
  set_attr_path (enc_pms h) [VInt (-1)] [(2, 2%nat)] (VInt 2147483647) =
  match seal_pm_res h with Ok h' => Ok (enc_pms h') | Err k => Err k end.
Proof.
  destruct h as [|m0 r0] using rev_ind; [reflexivity|]. clear IHr0.
  assert (E : seal_pm_res (r0 ++ [m0]) = Ok (r0 ++ [sealed m0])).
  { unfold seal_pm_res. destruct (r0 ++ [m0]) eqn:F; [destruct r0; discriminate|]. rewrite <- F, seal_pm_last. reflexivity. }
  rewrite E. unfold enc_pms. rewrite !map_app. cbn [map set_attr_path].
  rewrite idx_m1. cbn [bind].
  change (set_field (enc_pm m0) [(2, 2%nat)] (VInt 2147483647)) with (Ok (enc_pm (sealed m0))).
  cbn [bind]. rewrite set_m1. reflexivity.
Qed.

(* ---- `for chrom_coord in coords: chrom_coord[-1].bp_map_pos = ...` ---- *)
Lemma sl_step fuel rg ec c1 si ind mk ei t1 (dn : list (list pmarker)) (h : list pmarker) (rs : list (list pmarker)) cc :
  rg <> VUnbound ->
  exec (ft_4 fuel) sl_body fuel
    (pc_env (VList (map enc_pms dn ++ enc_pms h :: map enc_pms rs)) rg cc ec c1 si ind mk ei t1
            (VTuple [VInt (lenZ dn); enc_pms h])) =
  match seal_pm_res h with
  | Err k => OErr k
  | Ok h' => ONorm (pc_env (VList (map enc_pms (dn ++ [h']) ++ map enc_pms rs)) rg (enc_pms h') ec c1 si ind mk ei t1
                           (VTuple [VInt (lenZ dn); enc_pms h]))
  end.
Proof.
  intro Hrg. unfold sl_body, pc_env.
  repeat (progress (cbn -[ft_4 lenZ index_sem set_index set_attr_path enc_pms]; rewrite ?idx_t0, ?idx_t1)).
  rewrite <- (lenZ_map enc_pms dn).
  cbn [set_attr_path]. rewrite idx_mid. cbn [bind].
  change (bind (index_sem (enc_pms h) (VInt (-1)))
            (fun sub : val => bind (set_field sub [(2, 2%nat)] (VInt 2147483647))
               (fun sub' : val => set_index (enc_pms h) (VInt (-1)) sub')))
    with (set_attr_path (enc_pms h) [VInt (-1)] [(2, 2%nat)] (VInt 2147483647)).
  rewrite seal_store.
  destruct (seal_pm_res h) as [h'|k]; cbn [bind]; [|reflexivity].
  rewrite set_mid.
  repeat (progress (cbn -[ft_4 lenZ index_sem set_index set_attr_path enc_pms]; rewrite ?idx_t0, ?idx_t1, ?idx_mid)).
  rewrite (map_app enc_pms dn [h']), <- app_assoc. reflexivity.
Qed.

Arguments sl_body : simpl never.

Lemma sl_loop fuel rg ec c1 si ind mk ei t1 (Hrg : rg <> VUnbound) :
  forall (rs dn : list (list pmarker)) cc t2,
  exists cc' t2',
    for_loop (exec (ft_4 fuel) sl_body fuel) "_t2" (enum_from (lenZ dn) (map enc_pms rs))
      (pc_env (VList (map enc_pms dn ++ map enc_pms rs)) rg cc ec c1 si ind mk ei t1 t2) =
    match map_res seal_pm_res rs with
    | Err k => OErr k
    | Ok rs' => ONorm (pc_env (enc_coords (dn ++ rs')) rg cc' ec c1 si ind mk ei t1 t2')
    end.
Proof.
  induction rs as [|h r IH]; intros dn cc t2.
  - exists cc, t2. cbn [map enum_from for_loop map_res]. unfold enc_coords. rewrite !app_nil_r. reflexivity.
  - cbn [map enum_from for_loop map_res].
    change (update "_t2" ?v (pc_env ?a rg cc ec c1 si ind mk ei t1 t2)) with (pc_env a rg cc ec c1 si ind mk ei t1 v).
    rewrite (sl_step fuel rg ec c1 si ind mk ei t1 dn h r cc Hrg).
    destruct (seal_pm_res h) as [h'|k]; [|exists cc, t2; reflexivity].
    destruct (IH (dn ++ [h']) (enc_pms h') (VTuple [VInt (lenZ dn); enc_pms h])) as (cc' & t2' & E).
    replace (lenZ (dn ++ [h'])) with (lenZ dn + 1) in E by (unfold lenZ; rewrite app_length; cbn [List.length]; lia).
    rewrite E. exists cc', t2'.
    destruct (map_res seal_pm_res r) as [rs'|k]; [|reflexivity]. rewrite <- app_assoc. reflexivity.
Qed.

Lemma map_res_nonempty : forall rs rs', map_res seal_pm_res rs = Ok rs' -> Forall (fun l => l <> []) rs'.
Proof.
  induction rs as [|h r IH]; intros rs' H; cbn [map_res] in H.
  - inversion H. constructor.
  - destruct (seal_pm_res h) as [h'|] eqn:E; [|discriminate].
    destruct (map_res seal_pm_res r) as [t|]; [|discriminate]. inversion H; subst.
    constructor; [|apply IH; reflexivity].
    unfold seal_pm_res in E. destruct h as [|m0 r0]; [discriminate|]. inversion E; subst.
    destruct r0 as [|m1 r1]; cbn [seal_pm]; discriminate.
Qed.

(* ---- `end_coords = [chrom_coord[-1] for chrom_coord in coords]` ---- *)
Lemma ec_loop fuel cds rg cc si ind mk ei t1 t2 : forall (ls : list (list pmarker)) acc c1,
  Forall (fun l => l <> []) ls ->
  exists c1',
    for_loop (exec (ft_4 fuel) ec_body fuel) "_c1" (map enc_pms ls)
      (pc_env cds rg cc (VList acc) c1 si ind mk ei t1 t2) =
    ONorm (pc_env cds rg cc (VList (acc ++ map enc_pm (ends_pm ls))) c1' si ind mk ei t1 t2).
Proof.
  induction ls as [|l r IH]; intros acc c1 HF.
  - exists c1. cbn [map for_loop ends_pm]. rewrite app_nil_r. reflexivity.
  - inversion HF as [|? ? Hl Hr]; subst. cbn [map for_loop ends_pm].
    destruct (exists_last Hl) as (pre & m & ->).
    change (update "_c1" ?v (pc_env cds rg cc (VList acc) c1 si ind mk ei t1 t2))
      with (pc_env cds rg cc (VList acc) v si ind mk ei t1 t2).
    assert (Es : exec (ft_4 fuel) ec_body fuel (pc_env cds rg cc (VList acc) (enc_pms (pre ++ [m])) si ind mk ei t1 t2) =
                 ONorm (pc_env cds rg cc (VList (acc ++ [enc_pm m])) (enc_pms (pre ++ [m])) si ind mk ei t1 t2)).
    { unfold ec_body, pc_env, enc_pms. rewrite map_app. cbn [map].
      cbn -[ft_4 index_sem]. rewrite idx_m1. reflexivity. }
    rewrite Es. destruct (IH (acc ++ [enc_pm m]) (enc_pms (pre ++ [m])) Hr) as (c1' & E). exists c1'. rewrite E.
    rewrite last_last, <- app_assoc. reflexivity.
Qed.

Arguments ec_body : simpl never.
Arguments rg_then : simpl never.

(* ---- the slice ---- *)

(* for ALL lists of marker lists (any chromosome, cM token and prev_coord per marker), regions (None or a dict with
   "start" / "end") and fuel: the interpretation of the tail of _prepare_coords returns the end markers of the model
   and leaves `coords` as the model's marker lists - or raises the model's error (IndexError for no / an empty marker
   list, UnboundLocalError for a region on an empty coords[0]) *)
Theorem TV_prepare_coords_tail_refines : forall (cs : list (list pmarker)) (rg : option (Z * Z)) (c : val) (fuel : nat),
  fn__prepare_coords_tail fuel [enc_coords cs; enc_region rg c] =
  match tail_pm cs rg with
  | Err k => Err k
  | Ok cs' => Ok (VList (map enc_pm (ends_pm cs')), [enc_coords cs'; enc_region rg c])
  end.
Proof.
  intros cs rg c fuel. unfold fn__prepare_coords_tail, run_fun. rewrite pc_shape.
  cbn [fparams flocals fbody bind_params app map].
  assert (Hrg : enc_region rg c <> VUnbound) by (destruct rg as [[s e]|]; discriminate).
  assert (Hnu : match enc_region rg c with VUnbound => @Err val 6 | _ => Ok (enc_region rg c) end = Ok (enc_region rg c))
    by (destruct rg as [[s e]|]; reflexivity).
  (* after `if region:` the variable coords holds cs1 *)
  assert (H1 : exists si' ind' mk' ei' t1',
    exec (ft_4 fuel) (SIf (EVar "region") rg_then SSkip) fuel
      (pc_env (enc_coords cs) (enc_region rg c) VUnbound VUnbound VUnbound VUnbound VUnbound VUnbound VUnbound VUnbound VUnbound) =
    match (match rg with
           | None => Ok cs
           | Some (s, e) => match cs with
                            | [] => Err 2
                            | c0 :: _ => match region_pm s e c0 with Ok x => Ok [x] | Err k => Err k end
                            end
           end) with
    | Err k => OErr k
    | Ok cs1 => ONorm (pc_env (enc_coords cs1) (enc_region rg c) VUnbound VUnbound VUnbound si' ind' mk' ei' t1' VUnbound)
    end).
  { destruct rg as [[s e]|].
    - destruct (then_exec fuel s e c cs VUnbound VUnbound VUnbound VUnbound VUnbound VUnbound VUnbound VUnbound)
        as (si' & ind' & mk' & ei' & t1' & E).
      exists si', ind', mk', ei', t1'.
      cbn [exec eval]. unfold pc_env at 1. cbn [read_var MiniPy.lookup String.eqb Ascii.eqb Bool.eqb enc_region truthy].
      fold (pc_env (enc_coords cs) (enc_region (Some (s, e)) c) VUnbound VUnbound VUnbound VUnbound VUnbound VUnbound
                   VUnbound VUnbound VUnbound).
      change (VDict [(VText k_chr, c); (VText k_start, VInt s); (VText k_end, VInt e)])
        with (enc_region (Some (s, e)) c).
      rewrite E. destruct cs as [|c0 r]; [reflexivity|]. destruct (region_pm s e c0); reflexivity.
    - exists VUnbound, VUnbound, VUnbound, VUnbound, VUnbound. reflexivity. }
  destruct H1 as (si' & ind' & mk' & ei' & t1' & H1).
  rewrite !exec_seq.
  change ([("coords", enc_coords cs); ("region", enc_region rg c); ("chrom_coord", VUnbound); ("end_coords", VUnbound);
           ("_c1", VUnbound); ("start_ind", VUnbound); ("ind", VUnbound); ("marker", VUnbound); ("end_ind", VUnbound);
           ("_t1", VUnbound); ("_t2", VUnbound)])
    with (pc_env (enc_coords cs) (enc_region rg c) VUnbound VUnbound VUnbound VUnbound VUnbound VUnbound VUnbound VUnbound VUnbound).
  rewrite H1. unfold tail_pm.
  destruct (match rg with
            | None => Ok cs
            | Some (s, e) => match cs with
                             | [] => Err 2
                             | c0 :: _ => match region_pm s e c0 with Ok x => Ok [x] | Err k => Err k end
                             end
            end) as [cs1|k]; [|reflexivity].
  (* the seal loop *)
  destruct (sl_loop fuel (enc_region rg c) VUnbound VUnbound si' ind' mk' ei' t1' Hrg cs1 [] VUnbound VUnbound)
    as (cc' & t2' & E2).
  cbn [map app lenZ List.length Z.of_nat] in E2.
  change (VList (map enc_pms cs1)) with (enc_coords cs1) in E2.
  cbn [exec eval]. unfold pc_env at 1. cbn [read_var MiniPy.lookup String.eqb Ascii.eqb Bool.eqb].
  fold (pc_env (enc_coords cs1) (enc_region rg c) VUnbound VUnbound VUnbound si' ind' mk' ei' t1' VUnbound).
  change (match enc_coords cs1 with VUnbound => @Err val 6 | _ => Ok (enc_coords cs1) end) with (Ok (enc_coords cs1)).
  cbn [bind]. change (as_seq (enc_coords cs1)) with (Some (map enc_pms cs1)). cbv iota. cbn [as_seq].
  rewrite E2. clear E2.
  destruct (map_res seal_pm_res cs1) as [cs'|k] eqn:EM; [|reflexivity].
  cbn [app].
  (* the end markers *)
  destruct (ec_loop fuel (enc_coords cs') (enc_region rg c) cc' si' ind' mk' ei' t1' t2' cs' [] VUnbound
              (map_res_nonempty _ _ EM)) as (c1' & E3).
  cbn [eval_list bind].
  change (update "end_coords" (VList []) (pc_env (enc_coords cs') (enc_region rg c) cc' VUnbound VUnbound si' ind' mk' ei' t1' t2'))
    with (pc_env (enc_coords cs') (enc_region rg c) cc' (VList []) VUnbound si' ind' mk' ei' t1' t2').
  change (read_var "coords" (pc_env (enc_coords cs') (enc_region rg c) cc' (VList []) VUnbound si' ind' mk' ei' t1' t2'))
    with (@Ok val (enc_coords cs')).
  cbv iota. change (as_seq (enc_coords cs')) with (Some (map enc_pms cs')). cbv iota.
  rewrite E3. unfold pc_env. cbn -[enc_coords enc_region ends_pm]. reflexivity.
Qed.
Print Assumptions TV_prepare_coords_tail_refines.

(* ---- the model on full markers = C02_Coords' model on (bp, cM) markers = C20_Model's region loop ---- *)

Lemma first_ge_idx_lt x : forall (l : list marker) k, first_ge_idx x l = Some k -> (k < List.length l)%nat.
Proof.
  induction l as [|m r IH]; intros k H; cbn [first_ge_idx] in H; [discriminate|].
  destruct (x <=? fst m); [inversion H; cbn; lia|].
  destruct (first_ge_idx x r) as [k'|]; [|discriminate]. inversion H; subst. specialize (IH k' eq_refl). cbn. lia.
Qed.

(* the scan of the loop in terms of "first marker at or beyond" (after C20_ProofsSim.cut_scan_first) *)
Lemma scan_first s e len : forall (ms : list pmarker) ind si, 0 <= ind ->
  cut_scan (map bp_pair ms) ind si s e len =
  let l := map mk_of ms in
  match first_ge_idx e l with
  | Some ie =>
      ((if si <? 0 then match first_ge_idx s (firstn (S ie) l) with Some k => ind + Z.of_nat k | None => si end else si),
       ind + Z.of_nat ie + 1)
  | None =>
      ((if si <? 0 then match first_ge_idx s l with Some k => ind + Z.of_nat k | None => si end else si), len)
  end.
Proof.
  induction ms as [|m r IH]; intros ind si Hind; cbn zeta.
  - cbn. destruct (si <? 0); reflexivity.
  - cbn [map cut_scan first_ge_idx]. cbn [bp_pair mk_of fst snd].
    destruct (e <=? pm_bp m) eqn:Ee.
    + cbn [firstn first_ge_idx fst mk_of option_map].
      destruct (s <=? pm_bp m) eqn:Es; destruct (si <? 0) eqn:Esi; cbn [andb]; f_equal; lia.
    + rewrite (IH (ind + 1) _ ltac:(lia)). cbn zeta.
      destruct (first_ge_idx e (map mk_of r)) as [ie|] eqn:Eie; cbn [option_map].
      * rewrite firstn_cons. cbn [first_ge_idx fst mk_of].
        destruct (s <=? pm_bp m) eqn:Es; destruct (si <? 0) eqn:Esi; cbn [andb].
        -- assert (X : ind <? 0 = false) by (apply Z.ltb_ge; lia). rewrite X. f_equal; lia.
        -- rewrite Esi. f_equal; lia.
        -- rewrite Esi. destruct (first_ge_idx s (firstn (S ie) (map mk_of r))) as [k|]; cbn [option_map];
             f_equal; lia.
        -- rewrite Esi. f_equal; lia.
      * cbn [first_ge_idx fst mk_of].
        destruct (s <=? pm_bp m) eqn:Es; destruct (si <? 0) eqn:Esi; cbn [andb].
        -- assert (X : ind <? 0 = false) by (apply Z.ltb_ge; lia). rewrite X. f_equal; lia.
        -- rewrite Esi. reflexivity.
        -- rewrite Esi. destruct (first_ge_idx s (map mk_of r)) as [k|]; cbn [option_map]; f_equal; lia.
        -- rewrite Esi. reflexivity.
Qed.

(* the region loop and slice on full markers is C02_Coords.region_slice (after C20_ProofsSim.region_agree) *)
Lemma region_pm_is_slice s e (ms : list pmarker) :
  region_slice s e (map mk_of ms) =
  match region_pm s e ms with Ok x => Ok (map mk_of x) | Err k => Err k end.
Proof.
  unfold region_slice, region_pm. destruct ms as [|m0 r0]; [reflexivity|].
  set (ms := m0 :: r0). change (map mk_of ms) with (map mk_of ms).
  assert (Hne : ms <> []) by discriminate.
  destruct (map mk_of ms) as [|x0 y0] eqn:El; [discriminate|]. rewrite <- El. clear x0 y0 El.
  rewrite (scan_first s e (lenZ ms) ms 0 (-1) ltac:(lia)). cbn zeta.
  set (l := map mk_of ms).
  assert (Hlen : List.length l = List.length ms) by (unfold l; apply map_length).
  assert (Hpos : (0 < List.length ms)%nat) by (unfold ms; cbn; lia).
  change (-1 <? 0) with true. cbn iota.
  assert (Hmap : forall a b, map mk_of (firstn a (skipn b ms)) = firstn a (skipn b l)).
  { intros a b. unfold l. rewrite skipn_map, firstn_map. reflexivity. }
  destruct (first_ge_idx e l) as [ie|] eqn:Eie.
  - pose proof (first_ge_idx_lt _ _ _ Eie) as Hie.
    destruct (first_ge_idx s (firstn (S ie) l)) as [k|] eqn:Ek; cbn beta iota; f_equal; unfold pyslice; rewrite Hmap.
    + pose proof (first_ge_idx_lt _ _ _ Ek) as Hk. rewrite firstn_length in Hk.
      assert (X : 0 + Z.of_nat k <? 0 = false) by (apply Z.ltb_ge; lia). rewrite X.
      assert (Y : 0 + Z.of_nat ie + 1 <? 0 = false) by (apply Z.ltb_ge; lia). rewrite Y.
      unfold lenZ. f_equal; [lia|f_equal; lia].
    + change (-1 <? 0) with true.
      assert (Y : 0 + Z.of_nat ie + 1 <? 0 = false) by (apply Z.ltb_ge; lia). rewrite Y.
      unfold lenZ. f_equal; [lia|f_equal; lia].
  - rewrite firstn_all.
    destruct (first_ge_idx s l) as [k|] eqn:Ek; cbn beta iota; f_equal; unfold pyslice; rewrite Hmap.
    + pose proof (first_ge_idx_lt _ _ _ Ek) as Hk.
      assert (X : 0 + Z.of_nat k <? 0 = false) by (apply Z.ltb_ge; lia). rewrite X.
      assert (Y : lenZ ms <? 0 = false) by (apply Z.ltb_ge; unfold lenZ; lia). rewrite Y.
      unfold lenZ. f_equal; [lia|f_equal; lia].
    + change (-1 <? 0) with true.
      assert (Y : lenZ ms <? 0 = false) by (apply Z.ltb_ge; unfold lenZ; lia). rewrite Y.
      unfold lenZ. f_equal; [lia|f_equal; lia].
Qed.

Lemma seal_pm_is_seal : forall l, map mk_of (seal_pm l) = seal (map mk_of l).
Proof.
  induction l as [|m r IH]; [reflexivity|].
  cbn [seal_pm map seal]. destruct r as [|m2 r2]; [reflexivity|].
  cbn [map] in *. rewrite <- IH. reflexivity.
Qed.

Lemma seal_res_is_seal l :
  seal_res (map mk_of l) = match seal_pm_res l with Ok x => Ok (map mk_of x) | Err k => Err k end.
Proof. destruct l as [|m r]; [reflexivity|]. unfold seal_res, seal_pm_res. cbn [map]. f_equal. symmetry. apply (seal_pm_is_seal (m :: r)). Qed.

Lemma mapM_seal_is : forall cs,
  mapM seal_res (map (map mk_of) cs) =
  match map_res seal_pm_res cs with Ok x => Ok (map (map mk_of) x) | Err k => Err k end.
Proof.
  induction cs as [|l r IH]; [reflexivity|].
  cbn [map mapM map_res]. rewrite seal_res_is_seal. destruct (seal_pm_res l) as [x|k]; cbn [bind]; [|reflexivity].
  rewrite IH. destruct (map_res seal_pm_res r); reflexivity.
Qed.

(* the model of the slice on full markers, projected to (bp, cM), is C02_Coords' *)
Theorem TV_tail_pm_is_c02 : forall cs rg,
  tail_c02 (map (map mk_of) cs) rg =
  match tail_pm cs rg with Ok cs' => Ok (map (map mk_of) cs') | Err k => Err k end.
Proof.
  intros cs rg. unfold tail_c02, tail_pm. destruct rg as [[s e]|].
  - destruct cs as [|c0 r]; [reflexivity|]. cbn [map]. rewrite region_pm_is_slice.
    destruct (region_pm s e c0) as [x|k]; cbn [bind]; [|reflexivity].
    apply (mapM_seal_is [x]).
  - cbn [bind]. apply mapM_seal_is.
Qed.
Print Assumptions TV_tail_pm_is_c02.

(* ... and tail_c02 is literally the middle of C02_Coords.prepare_coords: between the check that every requested
   chromosome has its map file and the final max() over the list lengths *)
Theorem TV_prepare_coords_unfold : forall maps chroms rg,
  C02_Coords.prepare_coords maps chroms rg =
  let files := filter (C02_Coords.wanted chroms) maps in
  if negb ((List.length files =? List.length chroms)%nat
           && forallb (fun c => existsb (fun f : C02_Coords.mapfile => fst f =? c) files) chroms)
  then Err C02_Coords.E_Exception
  else bind (tail_c02 (map snd files) rg) (fun cs' => match cs' with [] => Err E_Value | _ => Ok cs' end).
Proof.
  intros maps chroms rg. unfold C02_Coords.prepare_coords, tail_c02. cbv zeta.
  destruct (negb _); [reflexivity|].
  destruct rg as [[s e]|].
  - destruct (filter (C02_Coords.wanted chroms) maps) as [|f r]; [reflexivity|]. cbn [map].
    destruct (region_slice s e (snd f)); reflexivity.
  - reflexivity.
Qed.
Print Assumptions TV_prepare_coords_unfold.

Lemma ends_pm_is_ends_of cs : map mk_of (ends_pm cs) = ends_of (map (map mk_of) cs).
Proof.
  unfold ends_pm, ends_of. rewrite !map_map. apply map_ext. intro l.
  induction l as [|m r IH]; [reflexivity|]. destruct r as [|m2 r2]; [reflexivity|]. exact IH.
Qed.

(* the refinement stated against C02_Coords' model: same marker lists and end markers (projected to (bp, cM)), or the
   same error kind *)
Theorem TV_prepare_coords_tail_is_c02 : forall (cs : list (list pmarker)) (rg : option (Z * Z)) (c : val) (fuel : nat),
  match tail_c02 (map (map mk_of) cs) rg with
  | Err k => fn__prepare_coords_tail fuel [enc_coords cs; enc_region rg c] = Err k
  | Ok ms =>
      exists cs', fn__prepare_coords_tail fuel [enc_coords cs; enc_region rg c] =
                    Ok (VList (map enc_pm (ends_pm cs')), [enc_coords cs'; enc_region rg c])
                  /\ map (map mk_of) cs' = ms /\ map mk_of (ends_pm cs') = ends_of ms
  end.
Proof.
  intros cs rg c fuel. rewrite TV_tail_pm_is_c02, TV_prepare_coords_tail_refines.
  destruct (tail_pm cs rg) as [cs'|k]; [|reflexivity].
  exists cs'. split; [reflexivity|]. split; [reflexivity|]. apply ends_pm_is_ends_of.
Qed.
Print Assumptions TV_prepare_coords_tail_is_c02.

(* C02_prepare_coords_ends restated about the translated code: whenever the slice returns, every end marker it returns
   carries the int32-max sentinel, and it is the last marker of the corresponding list left in `coords` *)
Theorem TV_prepare_coords_tail_ends : forall cs rg c fuel v outs,
  fn__prepare_coords_tail fuel [enc_coords cs; enc_region rg c] = Ok (v, outs) ->
  exists cs', outs = [enc_coords cs'; enc_region rg c] /\ v = VList (map enc_pm (ends_pm cs'))
    /\ List.length (ends_pm cs') = List.length cs'
    /\ Forall (fun m => pm_bp m = MAXC) (ends_pm cs')
    /\ Forall2 (fun (l : list pmarker) m => exists pre, l = pre ++ [m]) cs' (ends_pm cs').
Proof.
  intros cs rg c fuel v outs H. rewrite TV_prepare_coords_tail_refines in H.
  destruct (tail_pm cs rg) as [cs'|k] eqn:E; [|discriminate]. inversion H; subst. clear H.
  exists cs'. split; [reflexivity|]. split; [reflexivity|].
  assert (HS : exists cs1, map_res seal_pm_res cs1 = Ok cs').
  { unfold tail_pm in E. destruct rg as [[s e]|].
    - destruct cs as [|c0 r]; [discriminate|]. destruct (region_pm s e c0) as [x|]; [|discriminate]. exists [x]. exact E.
    - exists cs. exact E. }
  destruct HS as (cs1 & HS). clear E. unfold ends_pm. rewrite map_length. split; [reflexivity|].
  revert cs' HS. induction cs1 as [|h r IH]; intros cs' HS; cbn [map_res] in HS.
  - inversion HS; subst. split; constructor.
  - destruct (seal_pm_res h) as [h'|] eqn:Eh; [|discriminate].
    destruct (map_res seal_pm_res r) as [t|]; [|discriminate]. inversion HS; subst.
    destruct (IH t eq_refl) as [I1 I2]. cbn [map].
    unfold seal_pm_res in Eh. destruct h as [|m0 r0]; [discriminate|].
    assert (Hne : m0 :: r0 <> []) by discriminate.
    destruct (exists_last Hne) as (pre & m & Ep). rewrite Ep, seal_pm_last in Eh. inversion Eh; subst h'.
    rewrite last_last.
    split; constructor; auto. exists pre. reflexivity.
Qed.
Print Assumptions TV_prepare_coords_tail_ends.

(* C20_Model's reading of the region loop: the markers the translated slice keeps are C20_Model.region_cut's *)
Theorem TV_region_is_region_cut : forall s e (l x : list pmarker),
  region_pm s e l = Ok x -> map bp_pair x = region_cut (map bp_pair l) s e.
Proof.
  intros s e l x H. unfold region_pm in H. destruct l as [|m0 r0]; [discriminate|].
  unfold region_cut. rewrite lenZ_map.
  destruct (cut_scan (map bp_pair (m0 :: r0)) 0 (-1) s e (lenZ (m0 :: r0))) as [si ei].
  inversion H; subst. symmetry. apply pyslice_map.
Qed.
Print Assumptions TV_region_is_region_cut.

(* the cases of the theorem, evaluated: a region inside the map, a region beyond it (the slice starts at the last
   marker), an empty coords[0] (UnboundLocalError), no marker list at all and an empty marker list (IndexError) *)
Example TV_prepare_coords_tail_examples :
  let l0 := [mkpm 1 10 0 VNone; mkpm 1 20 1 VNone; mkpm 1 30 2 VNone; mkpm 1 40 3 VNone] in
  tail_pm [l0] (Some (15, 30)) = Ok [[mkpm 1 20 1 VNone; mkpm 1 MAXC 2 VNone]]
  /\ tail_pm [l0] (Some (50, 60)) = Ok [[mkpm 1 MAXC 3 VNone]]
  /\ tv_tail [l0] (Some (15, 30)) =
       Ok (VList [enc_pm (mkpm 1 MAXC 2 VNone)],
           [enc_coords [[mkpm 1 20 1 VNone; mkpm 1 MAXC 2 VNone]]; enc_region (Some (15, 30)) (VInt 1)])
  /\ tv_tail [[]] (Some (50, 60)) = Err 6 /\ tv_tail [] (Some (1, 2)) = Err 2 /\ tv_tail [l0; []] None = Err 2.
Proof. vm_compute. repeat split; reflexivity. Qed.
Print Assumptions TV_prepare_coords_tail_examples.
