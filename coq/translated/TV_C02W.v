(* Translation validation for C02, write_breakpoints: the MiniPy syntax of the writing loop of
   haptools/sim_genotype.py's write_breakpoints (the body of `with open(breakpt_file, 'w') as output:`, cut out as the
   synthetic function write_breakpoints_lines(pop_dict, breakpoints, $out)), REGENERATED FROM /repo's CURRENT SOURCE on
   every run (HVG.Gen_SimGenotype, written by harness/pytrans.py), writes exactly the text of the rows of the
   hand-written C02_Model.write_breakpoints as rendered by C02_Reader.render - for ALL generations, index draws,
   population dictionaries and float formatters.
   Compiled per run against the generated module; not part of the static build. *)
From HV Require Import Prelude MiniPy MiniPyFacts Tracts C01_Model BpText C02_Model C02_Reader.
From HV Require C02_Check C02_Proofs.
From HVG Require Import Gen_SimGenotype TVM_C01 TVM_C02W TV_DecText.
From Coq Require Import String.
Open Scope string_scope.
Open Scope list_scope.
Open Scope Z_scope.

(* ---- the numpy sub-sampling, as a function of the recorded draw ---- *)

Lemma write_rows_split gen : forall idx k,
  write_rows gen idx k = match take_idx gen idx with Ok hs => Ok (number_rows hs k) | Err e => Err e end.
Proof.
  induction idx as [|i r IH]; intro k; cbn [write_rows take_idx]; [reflexivity|].
  destruct (nthZ gen i) as [h|]; [|reflexivity].
  rewrite IH. destruct (take_idx gen r); reflexivity.
Qed.

(* ---- the pieces of the generated term ---- *)

Definition ob_body : stmt :=
  Eval cbv in match fbody src_write_breakpoints_lines with SFor _ _ b => b | _ => SSkip end.
Definition ib_body : stmt :=
  Eval cbv in match ob_body with
              | SSeq _ (SSeq _ (SSeq _ (SSeq _ (SSeq _ (SFor _ _ b))))) => b
              | _ => SSkip
              end.
Lemma wb_shape :
  src_write_breakpoints_lines =
  mkfun ["pop_dict"; "breakpoints"; "$out"]
        ["ind"; "sample"; "haplotype"; "sample_num"; "segment"; "pop"; "chrom"; "end_coord"; "end_pos"; "_t1"]
    (SFor "_t1" (EEnumerate (EVar "breakpoints")) ob_body).
Proof. reflexivity. Qed.

Lemma ob_shape :
  ob_body =
  SSeq (SAssign "ind" (EIndex (EVar "_t1") (EInt 0)))
  (SSeq (SAssign "sample" (EIndex (EVar "_t1") (EInt 1)))
  (SSeq (SAssign "haplotype" (EBin Add (EBin Mod (EVar "ind") (EInt 2)) (EInt 1)))
  (SSeq (SAssign "sample_num" (EBin Add (EBin FloorDiv (EVar "ind") (EInt 2)) (EInt 1)))
  (SSeq (SAppend (LVar "$out") (EFmt [EText [83; 97; 109; 112; 108; 101; 95]; EVar "sample_num"; EText [95];
                                      EVar "haplotype"; EText [10]]))
        (SFor "segment" (EVar "sample") ib_body))))).
Proof. reflexivity. Qed.

Section TV.
  (* str()/format() of a value that is neither a string nor an int (here: the float behind a cM token), the
     population dictionary and the two printers of C02_Reader.render: arbitrary, under the contracts below *)
  Variable eS : list val -> res val.
  Variable pd : val.
  Variable pop_name : Z -> str.
  Variable fmt_cm : Z -> str.
  Variable P : seg -> Prop.       (* the segments whose population code pop_dict knows *)
  Hypothesis pd_nu : pd <> VUnbound.
  Hypothesis pd_get : forall s, P s -> index_sem pd (VInt (pop s)) = Ok (VText (pop_name (pop s))).
  Hypothesis eS_fmt : forall z, eS [VStr z] = Ok (VText (fmt_cm z)).

  Lemma nu_read (v : val) : v <> VUnbound ->
    match v with VUnbound => @Err val 6 | _ => Ok v end = Ok v.
  Proof. destruct v; intro H; try reflexivity. exfalso. apply H. reflexivity. Qed.

  Definition wb_env (bp : val) (out : list val) (ind smp hapl snum sg pp ch ec ep t1 : val) : env :=
    [("pop_dict", pd); ("breakpoints", bp); ("$out", VList out); ("ind", ind); ("sample", smp);
     ("haplotype", hapl); ("sample_num", snum); ("segment", sg); ("pop", pp); ("chrom", ch);
     ("end_coord", ec); ("end_pos", ep); ("_t1", t1)].

  (* ---- one block line ---- *)
  Lemma ib_step fuel bp out ind smp hapl snum s pp ch ec ep t1 :
    P s ->
    exec (ft_str eS fuel) ib_body fuel (wb_env bp out ind smp hapl snum (enc_seg s) pp ch ec ep t1) =
    ONorm (wb_env bp (out ++ [VText (line_text (blk_line pop_name fmt_cm s))]) ind smp hapl snum (enc_seg s)
                  (VText (pop_name (pop s))) (VInt (chrom s)) (VInt (endc s)) (VStr (cm s)) t1).
  Proof.
    intro HP. unfold ib_body, wb_env, enc_seg.
    cbn -[index_sem dec_text ft_4]. rewrite (nu_read pd pd_nu).
    cbn -[index_sem dec_text ft_4]. rewrite (pd_get s HP).
    cbn -[index_sem dec_text ft_4]. unfold ext_fn. rewrite eS_fmt.
    cbn -[index_sem dec_text ft_4]. rewrite !TV_dec_text_is_dec. reflexivity.
  Qed.

  Arguments ib_body : simpl never.

  (* ---- the block lines of one haplotype ---- *)
  Lemma ib_loop fuel bp ind smp hapl snum t1 : forall (h : list seg) out sg pp ch ec ep,
    Forall P h ->
    exists sg' pp' ch' ec' ep',
      for_loop (exec (ft_str eS fuel) ib_body fuel) "segment" (map enc_seg h)
        (wb_env bp out ind smp hapl snum sg pp ch ec ep t1) =
      ONorm (wb_env bp (out ++ enc_lines (map (blk_line pop_name fmt_cm) h)) ind smp hapl snum sg' pp' ch' ec' ep' t1).
  Proof.
    induction h as [|s r IH]; intros out sg pp ch ec ep HP.
    - exists sg, pp, ch, ec, ep. cbn [map for_loop enc_lines]. rewrite app_nil_r. reflexivity.
    - inversion HP as [|? ? Hs Hr]; subst. cbn [map for_loop].
      change (update "segment" (enc_seg s) (wb_env bp out ind smp hapl snum sg pp ch ec ep t1))
        with (wb_env bp out ind smp hapl snum (enc_seg s) pp ch ec ep t1).
      rewrite (ib_step fuel bp out ind smp hapl snum s pp ch ec ep t1 Hs).
      destruct (IH (out ++ [VText (line_text (blk_line pop_name fmt_cm s))]) (enc_seg s)
                   (VText (pop_name (pop s))) (VInt (chrom s)) (VInt (endc s)) (VStr (cm s)) Hr)
        as (sg' & pp' & ch' & ec' & ep' & E).
      exists sg', pp', ch', ec', ep'. rewrite E. unfold enc_lines. cbn [map]. rewrite <- app_assoc. reflexivity.
  Qed.

  (* ---- one haplotype: its header line, then its block lines ---- *)
  Lemma ob_step fuel bp out k h ind smp hapl snum sg pp ch ec ep :
    Forall P h ->
    exists ind' smp' hapl' snum' sg' pp' ch' ec' ep',
      exec (ft_str eS fuel) ob_body fuel
        (wb_env bp out ind smp hapl snum sg pp ch ec ep (VTuple [VInt k; enc_segs h])) =
      ONorm (wb_env bp (out ++ enc_lines (row_lines pop_name fmt_cm (k / 2 + 1, k mod 2 + 1, h)))
                    ind' smp' hapl' snum' sg' pp' ch' ec' ep' (VTuple [VInt k; enc_segs h])).
  Proof.
    intro HP. rewrite ob_shape. unfold wb_env.
    cbn -[dec_text ft_4 Z.div Z.modulo enc_seg ib_body for_loop].
    rewrite !TV_dec_text_is_dec.
    match goal with |- context [for_loop _ _ _ ?en] =>
      change en with (wb_env bp (out ++ [VText ([83; 97; 109; 112; 108; 101; 95] ++ dec (k / 2 + 1) ++ [95] ++ dec (k mod 2 + 1) ++ [10] ++ [])])
                             (VInt k) (enc_segs h) (VInt (k mod 2 + 1)) (VInt (k / 2 + 1)) sg pp ch ec ep
                             (VTuple [VInt k; enc_segs h])) end.
    destruct (ib_loop fuel bp (VInt k) (enc_segs h) (VInt (k mod 2 + 1)) (VInt (k / 2 + 1)) (VTuple [VInt k; enc_segs h])
                h (out ++ [VText ([83; 97; 109; 112; 108; 101; 95] ++ dec (k / 2 + 1) ++ [95] ++ dec (k mod 2 + 1) ++ [10] ++ [])])
                sg pp ch ec ep HP) as (sg' & pp' & ch' & ec' & ep' & E).
    rewrite E. exists (VInt k), (enc_segs h), (VInt (k mod 2 + 1)), (VInt (k / 2 + 1)), sg', pp', ch', ec', ep'.
    f_equal. unfold wb_env. f_equal. f_equal. f_equal. f_equal.
    unfold enc_lines, row_lines. cbn [map line_text]. rewrite <- app_assoc. cbn [app]. f_equal. f_equal. f_equal.
    unfold hdr, hdr_name, s_Sample, c_us. rewrite <- !app_assoc. reflexivity.
  Qed.

  Arguments ob_body : simpl never.

  (* ---- all haplotypes ---- *)
  Lemma ob_loop fuel bp : forall (hs : list (list seg)) k out ind smp hapl snum sg pp ch ec ep t1,
    Forall (Forall P) hs ->
    exists ind' smp' hapl' snum' sg' pp' ch' ec' ep' t1',
      for_loop (exec (ft_str eS fuel) ob_body fuel) "_t1" (enum_from k (map (fun h : list seg => enc_segs h) hs))
        (wb_env bp out ind smp hapl snum sg pp ch ec ep t1) =
      ONorm (wb_env bp (out ++ enc_lines (render pop_name fmt_cm (number_rows hs k)))
                    ind' smp' hapl' snum' sg' pp' ch' ec' ep' t1').
  Proof.
    induction hs as [|h r IH]; intros k out ind smp hapl snum sg pp ch ec ep t1 HP.
    - exists ind, smp, hapl, snum, sg, pp, ch, ec, ep, t1. cbn [map enum_from for_loop number_rows render flat_map enc_lines].
      rewrite app_nil_r. reflexivity.
    - inversion HP as [|? ? Hh Hr]; subst. cbn [map enum_from for_loop number_rows].
      change (update "_t1" ?v (wb_env bp out ind smp hapl snum sg pp ch ec ep t1))
        with (wb_env bp out ind smp hapl snum sg pp ch ec ep v).
      destruct (ob_step fuel bp out k h ind smp hapl snum sg pp ch ec ep Hh)
        as (i1 & s1 & h1 & n1 & g1 & p1 & c1 & e1 & q1 & E).
      rewrite E.
      destruct (IH (k + 1) (out ++ enc_lines (row_lines pop_name fmt_cm (k / 2 + 1, k mod 2 + 1, h)))
                   i1 s1 h1 n1 g1 p1 c1 e1 q1 (VTuple [VInt k; enc_segs h]) Hr)
        as (i2 & s2 & h2 & n2 & g2 & p2 & c2 & e2 & q2 & t2 & E2).
      exists i2, s2, h2, n2, g2, p2, c2, e2, q2, t2. rewrite E2.
      unfold render. cbn [flat_map]. unfold enc_lines. rewrite map_app, <- app_assoc. reflexivity.
  Qed.

  (* for ALL lists of sub-sampled haplotypes (whose population codes pop_dict knows), all lines written before and all
     fuel: the translated loop appends exactly the rendered rows of the model, numbered from 0 *)
  Theorem TV_write_lines_refines : forall (hs : list (list seg)) (out0 : list val) (fuel : nat),
    Forall (Forall P) hs ->
    fn_write_breakpoints_lines eS fuel [pd; enc_gen hs; VList out0] =
    Ok (VNone, [pd; enc_gen hs; VList (out0 ++ enc_lines (render pop_name fmt_cm (number_rows hs 0)))]).
  Proof.
    intros hs out0 fuel HP. unfold fn_write_breakpoints_lines, run_fun. rewrite wb_shape.
    cbn [fparams flocals fbody bind_params app map].
    cbn -[ft_4 ob_body for_loop enum_from].
    destruct (ob_loop fuel (enc_gen hs) hs 0 out0 VUnbound VUnbound VUnbound VUnbound VUnbound VUnbound VUnbound
                VUnbound VUnbound VUnbound HP)
      as (i2 & s2 & h2 & n2 & g2 & p2 & c2 & e2 & q2 & t2 & E).
    unfold wb_env in E at 1. rewrite E. unfold wb_env. cbn -[enc_lines]. reflexivity.
  Qed.

  (* the same about C02_Model.write_breakpoints: for ALL generations and ALL index draws - whenever the model gives
     rows (every drawn index inside the generation), the translated loop, run on the haplotypes numpy's
     breakpoints[breakpoints_ind] selects, writes exactly those rows rendered *)
  Theorem TV_write_breakpoints_refines : forall (gen : list (list seg)) (idx : list Z) (out0 : list val) (fuel : nat),
    (forall h, In h gen -> Forall P h) ->
    match write_breakpoints gen idx with
    | Ok rows =>
        exists hs, take_idx gen idx = Ok hs /\
          fn_write_breakpoints_lines eS fuel [pd; enc_gen hs; VList out0] =
          Ok (VNone, [pd; enc_gen hs; VList (out0 ++ enc_lines (render pop_name fmt_cm rows))])
    | Err k => take_idx gen idx = Err k
    end.
  Proof.
    intros gen idx out0 fuel HP. unfold write_breakpoints. rewrite write_rows_split.
    destruct (take_idx gen idx) as [hs|e] eqn:E; [|reflexivity].
    exists hs. split; [reflexivity|]. apply TV_write_lines_refines.
    clear out0 fuel. revert hs E. induction idx as [|i r IH]; intros hs E; cbn [take_idx] in E.
    - inversion E; subst. constructor.
    - destruct (nthZ gen i) as [h|] eqn:N; [|discriminate].
      destruct (take_idx gen r) as [hs'|]; cbn [bind] in E; [|discriminate]. inversion E; subst.
      constructor; [|apply IH; reflexivity].
      apply HP. unfold nthZ in N. destruct (i <? 0); [discriminate|]. eapply nth_error_In; exact N.
  Qed.
End TV.
Print Assumptions TV_write_lines_refines.
Print Assumptions TV_write_breakpoints_refines.

(* C02_write_breakpoints_spec restated about the translated loop: what the loop of write_breakpoints (as it is in the
   source now) writes for the haplotypes drawn by idx is the rendering of one row per drawn index, headed
   Sample_{i/2+1}_{i mod 2+1} in order, each with the haplotype at its drawn index *)
Theorem TV_write_breakpoints_spec : forall eS pd pop_name fmt_cm (P : seg -> Prop) gen idx hs out0 fuel,
  pd <> VUnbound ->
  (forall s, P s -> index_sem pd (VInt (pop s)) = Ok (VText (pop_name (pop s)))) ->
  (forall z, eS [VStr z] = Ok (VText (fmt_cm z))) ->
  (forall h, In h gen -> Forall P h) ->
  take_idx gen idx = Ok hs ->
  exists rows,
    fn_write_breakpoints_lines eS fuel [pd; enc_gen hs; VList out0] =
      Ok (VNone, [pd; enc_gen hs; VList (out0 ++ enc_lines (render pop_name fmt_cm rows))])
    /\ write_breakpoints gen idx = Ok rows
    /\ List.length rows = List.length idx /\ C02_Check.headers_ok rows 0 = true
    /\ Forall2 (fun (row : bprow) i => nthZ gen i = Some (snd row)) rows idx.
Proof.
  intros eS pd pop_name fmt_cm P gen idx hs out0 fuel Hnu Hget Hfmt HP Hidx.
  pose proof (TV_write_breakpoints_refines eS pd pop_name fmt_cm P Hnu Hget Hfmt gen idx out0 fuel HP) as H.
  destruct (write_breakpoints gen idx) as [rows|e] eqn:E.
  - destruct H as (hs' & H1 & H2). rewrite Hidx in H1. inversion H1; subst hs'.
    exists rows. split; [exact H2|]. split; [reflexivity|]. apply C02_Proofs.write_breakpoints_spec. exact E.
  - rewrite Hidx in H. discriminate.
Qed.
Print Assumptions TV_write_breakpoints_spec.

(* the contracts are satisfiable: the instance the tv_bpwrite relation evaluates *)
Example TV_write_contracts_satisfiable :
  let pops := [[65]; [67; 69; 85]; [89; 82; 73]] in
  let cms := [[49; 46; 53]; [50; 46; 48]] in
  let pop_name := fun i => match nthZ pops i with Some s => s | None => [] end in
  let fmt_cm := fun z => match nthZ cms z with Some s => s | None => [] end in
  let P := fun s : seg => (0 <= pop s < 3) in
  let eS := fun a => match a with [VStr z] => Ok (VText (fmt_cm z)) | _ => Err E_Unsupported end in
  VDict (enc_pop_dict pops 0) <> VUnbound
  /\ (forall s, P s -> index_sem (VDict (enc_pop_dict pops 0)) (VInt (pop s)) = Ok (VText (pop_name (pop s))))
  /\ (forall z, eS [VStr z] = Ok (VText (fmt_cm z)))
  /\ fn_write_breakpoints_lines eS 0 [VDict (enc_pop_dict pops 0);
        enc_gen [[mkseg 2 23 2147483647 1]; [mkseg 1 1 100 0; mkseg 2 1 2147483647 1]]; VList []] =
     Ok (VNone, [VDict (enc_pop_dict pops 0);
        enc_gen [[mkseg 2 23 2147483647 1]; [mkseg 1 1 100 0; mkseg 2 1 2147483647 1]];
        VList (enc_lines (render pop_name fmt_cm
                 [(1, 1, [mkseg 2 23 2147483647 1]); (1, 2, [mkseg 1 1 100 0; mkseg 2 1 2147483647 1])]))]).
Proof.
  cbv zeta. split; [discriminate|]. split; [|split; [reflexivity|vm_compute; reflexivity]].
  intros s [H0 H1].
  assert (pop s = 0 \/ pop s = 1 \/ pop s = 2) as [E|[E|E]] by lia; rewrite E; reflexivity.
Qed.
Print Assumptions TV_write_contracts_satisfiable.
