(* Translation validation for C06: the MiniPy syntax of Haplotypes.check_version (haptools/data/haplotypes.py),
   REGENERATED FROM /repo's CURRENT SOURCE on every run (HVG.Gen_Version, written by harness/pytrans.py), denotes
   exactly C06_Model.check_version / parse3 - for ALL version strings of the file and of the tool, both kinds of
   err_msgr, all earlier outputs: same returned triple, same events reported in the same order (with the message texts
   the code formats), same exception kinds.  Contracts (Section hypotheses on the untranslated operations):
   str.split(".") is C06_Model.split_on, int() on a string is C06_Model.py_int (ValueError where it is None), err_msgr
   appends its message (softly) or raises.
   Compiled per run against the generated module; not part of the static build. *)
From HV Require Import Prelude C06_Model C06_Proofs MiniPy MiniPyFacts.
From HVG Require Import Gen_Version TVM_C06.
From Coq Require Import String.
Open Scope string_scope.
Open Scope list_scope.
Open Scope Z_scope.

Section Contracts.
  Variables split int errm : list val -> res val.
  Variable softly : bool.
  Hypothesis split_ok : forall s, split [VText s; VText [46]] = Ok (VList (map VText (split_on 46 s))).
  Hypothesis int_ok : forall s, int [VText s] = match py_int s with Some z => Ok (VInt z) | None => Err 1 end.
  Hypothesis errm_ok : forall out m,
    errm [VList out; VText m] = if softly then Ok (VList (out ++ [VTuple [VText m]])) else Err ErrVersionReported.

  Notation ft := (ft_base split int errm).

  (* Python's unpacking of map(int, pieces) into three names, as a function on the pieces *)
  Fixpoint ploop (ps : list (list Z)) (acc : list Z) : res (list Z) :=
    match ps with
    | [] => Ok acc
    | p :: r =>
        match py_int p with
        | None => Err 1
        | Some z => if 3 <? lenZ (map VInt (acc ++ [z])) then Err 1 else ploop r (acc ++ [z])
        end
    end.

  Definition unpack3 (ps : list (list Z)) : option (Z * Z * Z) :=
    match ploop ps [] with
    | Ok [a; b; c] => Some (a, b, c)
    | _ => None
    end.

  Lemma unpack3_parse3 v : unpack3 (split_on 46 v) = parse3 v.
  Proof.
    unfold unpack3, parse3. change cDOT with 46.
    destruct (split_on 46 v) as [|p1 [|p2 [|p3 [|p4 r]]]]; cbn [ploop]; try reflexivity.
    - destruct (py_int p1); reflexivity.
    - destruct (py_int p1); [|reflexivity]. destruct (py_int p2); reflexivity.
    - destruct (py_int p1); [|reflexivity]. destruct (py_int p2); [|reflexivity]. destruct (py_int p3); reflexivity.
    - destruct (py_int p1); [|reflexivity]. destruct (py_int p2); [|reflexivity]. destruct (py_int p3); [|reflexivity].
      cbn. destruct (py_int p4); reflexivity.
  Qed.

  Lemma ploop_short ps : forall acc l, ploop ps acc = Ok l -> (lenZ l <=? 3) = true \/ ps = [] .
  Proof.
    induction ps as [|p r IH]; intros acc l H; [right; reflexivity|]. left.
    cbn [ploop] in H. destruct (py_int p) as [z|]; [|discriminate].
    destruct (3 <? lenZ (map VInt (acc ++ [z]))) eqn:E; [discriminate|].
    destruct (IH _ _ H) as [G|G]; [exact G|]. subst r. cbn in H. inversion H. subst l.
    rewrite lenZ_map in E. apply Z.leb_le. apply Z.ltb_ge in E. exact E.
  Qed.

  (* the environment of check_version: three parameters, ten locals *)
  Definition cenv (p0 p1 p2 l0 l1 l2 l3 l4 l5 l6 l7 l8 l9 : val) : env :=
    [("version", p0); ("self_version", p1); ("$out", p2);
     ("o_major", l0); ("o_minor", l1); ("o_patch", l2); ("e_major", l3); ("e_minor", l4); ("e_patch", l5);
     ("_t1", l6); ("_t2", l7); ("_t3", l8); ("_t4", l9)].

  Definition blk1 : stmt := Eval cbv in match fbody (src_check_version) with SSeq a _ => a | _ => SSkip end.
  Definition blk2 : stmt := Eval cbv in match fbody (src_check_version) with SSeq _ (SSeq b _) => b | _ => SSkip end.
  Definition tail : stmt := Eval cbv in match fbody (src_check_version) with SSeq _ (SSeq _ c) => c | _ => SSkip end.
  Lemma cv_shape : fbody src_check_version = SSeq blk1 (SSeq blk2 tail).
  Proof. reflexivity. Qed.

  Definition lbody1 : stmt :=
    Eval cbv in match blk1 with SSeq _ (SSeq (SFor _ _ b) _) => b | _ => SSkip end.
  Definition lbody2 : stmt :=
    Eval cbv in match blk2 with SSeq _ (SSeq (SFor _ _ b) _) => b | _ => SSkip end.

  Lemma loop1 fuel ps : forall p0 p1 p2 l0 l1 l2 l3 l4 l5 acc l7 l8 l9,
    exists l7',
    for_loop (exec ft lbody1 fuel) "_t2" (map VText ps)
             (cenv p0 p1 p2 l0 l1 l2 l3 l4 l5 (VList (map VInt acc)) l7 l8 l9)
    = match ploop ps acc with
      | Ok acc' => ONorm (cenv p0 p1 p2 l0 l1 l2 l3 l4 l5 (VList (map VInt acc')) l7' l8 l9)
      | Err k => OErr k
      end.
  Proof.
    induction ps as [|p r IH]; intros; [exists l7; reflexivity|].
    cbn [map for_loop ploop]. unfold lbody1. cbn -[for_loop lenZ Z.ltb ploop]. unfold ext_fn. rewrite int_ok.
    destruct (py_int p) as [z|]; [|exists l7; reflexivity].
    cbn -[for_loop lenZ Z.ltb ploop].
    replace (map VInt acc ++ [VInt z]) with (map VInt (acc ++ [z])) by (rewrite map_app; reflexivity).
    destruct (3 <? lenZ (map VInt (acc ++ [z]))); [exists l7; reflexivity|].
    cbn -[for_loop lenZ Z.ltb ploop]. apply IH.
  Qed.

  Lemma loop2 fuel ps : forall p0 p1 p2 l0 l1 l2 l3 l4 l5 l6 l7 acc l9,
    exists l9',
    for_loop (exec ft lbody2 fuel) "_t4" (map VText ps)
             (cenv p0 p1 p2 l0 l1 l2 l3 l4 l5 l6 l7 (VList (map VInt acc)) l9)
    = match ploop ps acc with
      | Ok acc' => ONorm (cenv p0 p1 p2 l0 l1 l2 l3 l4 l5 l6 l7 (VList (map VInt acc')) l9')
      | Err k => OErr k
      end.
  Proof.
    induction ps as [|p r IH]; intros; [exists l9; reflexivity|].
    cbn [map for_loop ploop]. unfold lbody2. cbn -[for_loop lenZ Z.ltb ploop]. unfold ext_fn. rewrite int_ok.
    destruct (py_int p) as [z|]; [|exists l9; reflexivity].
    cbn -[for_loop lenZ Z.ltb ploop].
    replace (map VInt acc ++ [VInt z]) with (map VInt (acc ++ [z])) by (rewrite map_app; reflexivity).
    destruct (3 <? lenZ (map VInt (acc ++ [z]))); [exists l9; reflexivity|].
    cbn -[for_loop lenZ Z.ltb ploop]. apply IH.
  Qed.

  Definition rest1 : stmt := Eval cbv in match blk1 with SSeq _ (SSeq _ r) => r | _ => SSkip end.
  Definition rest2 : stmt := Eval cbv in match blk2 with SSeq _ (SSeq _ r) => r | _ => SSkip end.
  Lemma blk1_shape : blk1 = SSeq (SAssign "_t1" (EList []))
                              (SSeq (SFor "_t2" (ECall "$m.split" [EVar "version"; EText [46]]) lbody1) rest1).
  Proof. reflexivity. Qed.
  Lemma blk2_shape : blk2 = SSeq (SAssign "_t3" (EList []))
                              (SSeq (SFor "_t4" (ECall "$m.split" [EVar "self_version"; EText [46]]) lbody2) rest2).
  Proof. reflexivity. Qed.
  Arguments lbody1 : simpl never.
  Arguments lbody2 : simpl never.

  Lemma lenZ_ge4 (a b c d : Z) r : (lenZ (map VInt (a :: b :: c :: d :: r)) <=? 3) = false.
  Proof. apply Z.leb_gt. unfold lenZ. cbn [map List.length]. lia. Qed.

  Lemma blk1_exec fuel v p1 p2 l0 l1 l2 l3 l4 l5 l6 l7 l8 l9 :
    exists l7',
    exec ft blk1 fuel (cenv (VText v) p1 p2 l0 l1 l2 l3 l4 l5 l6 l7 l8 l9)
    = match parse3 v with
      | Some (a, b, c) =>
          ONorm (cenv (VText v) p1 p2 (VInt a) (VInt b) (VInt c) l3 l4 l5 (VList [VInt a; VInt b; VInt c]) l7' l8 l9)
      | None => OErr 1
      end.
  Proof.
    rewrite blk1_shape. cbn -[for_loop split_on]. unfold ext_fn. rewrite split_ok. cbn -[for_loop split_on].
    destruct (loop1 fuel (split_on 46 v) (VText v) p1 p2 l0 l1 l2 l3 l4 l5 [] l7 l8 l9) as [l7' L].
    cbn [map] in L. unfold cenv in L. rewrite L. clear L.
    rewrite <- unpack3_parse3. unfold unpack3.
    destruct (ploop (split_on 46 v) []) as [acc|k] eqn:E.
    - destruct acc as [|a [|b [|c [|d r]]]]; try (exists l7'; reflexivity).
      exfalso. destruct (ploop_short _ _ _ E) as [G|G].
      + rewrite <- (lenZ_map VInt) in G. rewrite lenZ_ge4 in G. discriminate.
      + rewrite G in E. discriminate.
    - exists l7'. assert (k = 1) as ->; [|reflexivity].
      clear -E. revert E. generalize (@nil Z). induction (split_on 46 v) as [|p r IH]; intros acc E; [discriminate|].
      cbn [ploop] in E. destruct (py_int p); [|inversion E; reflexivity].
      destruct (3 <? _); [inversion E; reflexivity|]. eapply IH. exact E.
  Qed.

  Lemma blk2_exec fuel cur p0 p2 l0 l1 l2 l3 l4 l5 l6 l7 l8 l9 :
    exists l9',
    exec ft blk2 fuel (cenv p0 (VText cur) p2 l0 l1 l2 l3 l4 l5 l6 l7 l8 l9)
    = match parse3 cur with
      | Some (a, b, c) =>
          ONorm (cenv p0 (VText cur) p2 l0 l1 l2 (VInt a) (VInt b) (VInt c) l6 l7 (VList [VInt a; VInt b; VInt c]) l9')
      | None => OErr 1
      end.
  Proof.
    rewrite blk2_shape. cbn -[for_loop split_on]. unfold ext_fn. rewrite split_ok. cbn -[for_loop split_on].
    destruct (loop2 fuel (split_on 46 cur) p0 (VText cur) p2 l0 l1 l2 l3 l4 l5 l6 l7 [] l9) as [l9' L].
    cbn [map] in L. unfold cenv in L. rewrite L. clear L.
    rewrite <- unpack3_parse3. unfold unpack3.
    destruct (ploop (split_on 46 cur) []) as [acc|k] eqn:E.
    - destruct acc as [|a [|b [|c [|d r]]]]; try (exists l9'; reflexivity).
      exfalso. destruct (ploop_short _ _ _ E) as [G|G].
      + rewrite <- (lenZ_map VInt) in G. rewrite lenZ_ge4 in G. discriminate.
      + rewrite G in E. discriminate.
    - exists l9'. assert (k = 1) as ->; [|reflexivity].
      clear -E. revert E. generalize (@nil Z). induction (split_on 46 cur) as [|p r IH]; intros acc E; [discriminate|].
      cbn [ploop] in E. destruct (py_int p); [|inversion E; reflexivity].
      destruct (3 <? _); [inversion E; reflexivity|]. eapply IH. exact E.
  Qed.

  Definition enc_triple (o : option (Z * Z * Z)) : val :=
    match o with Some (a, b, c) => VTuple [VInt a; VInt b; VInt c] | None => VNone end.
  Definition e_of (cur : list Z) : Z * Z * Z := match parse3 cur with Some e => e | None => (0, 0, 0) end.

  Lemma tail_exec fuel v cur out oM om op eM em ep l6 l7 l8 l9 :
    exec ft tail fuel (cenv (VText v) (VText cur) (VList out) (VInt oM) (VInt om) (VInt op) (VInt eM) (VInt em) (VInt ep)
                            l6 l7 l8 l9)
    = if negb (oM =? eM) || (em <? om) then
        if softly then
          ORet (VTuple [VInt oM; VInt om; VInt op])
               (cenv (VText v) (VText cur) (VList (out ++ [VTuple [VText (msg_unsupported v eM em)]]))
                     (VInt oM) (VInt om) (VInt op) (VInt eM) (VInt em) (VInt ep) l6 l7 l8 l9)
        else OErr ErrVersionReported
      else
        ORet (VTuple [VInt oM; VInt om; VInt op])
             (cenv (VText v) (VText cur)
                   (VList (out ++ if om <? em then [VTuple [VText (msg_outdated v cur)]]
                                  else if op <? ep then [VTuple [VText msg_patch]] else []))
                   (VInt oM) (VInt om) (VInt op) (VInt eM) (VInt em) (VInt ep) l6 l7 l8 l9).
  Proof.
    unfold tail. cbn -[dec_text Z.eqb Z.ltb]. destruct (oM =? eM); cbn -[dec_text Z.eqb Z.ltb].
    - destruct (em <? om); cbn -[dec_text Z.eqb Z.ltb].
      + unfold ext_fn. rewrite errm_ok. destruct softly; reflexivity.
      + destruct (om <? em); cbn -[dec_text Z.eqb Z.ltb]; [rewrite app_nil_r; reflexivity|].
        destruct (op <? ep); cbn -[dec_text Z.eqb Z.ltb]; [reflexivity|]. rewrite app_nil_r. reflexivity.
    - unfold ext_fn. rewrite errm_ok. destruct softly; reflexivity.
  Qed.

  Lemma check_version_refines fuel v cur out :
    fn_check_version split int errm fuel [VText v; VText cur; VList out]
    = match check_version softly cur v with
      | Err k => Err k
      | Ok evs => Ok (enc_triple (parse3 v),
                      [VText v; VText cur; VList (out ++ map (enc_event cur (e_of cur)) evs)])
      end.
  Proof.
    unfold fn_check_version, run_fun. rewrite cv_shape.
    cbn -[exec blk1 blk2 tail final_params check_version parse3]. rewrite exec_seq.
    destruct (blk1_exec fuel v (VText cur) (VList out) VUnbound VUnbound VUnbound VUnbound VUnbound VUnbound
                        VUnbound VUnbound VUnbound VUnbound) as [l7' B1].
    unfold cenv in B1. rewrite B1. clear B1.
    unfold check_version, e_of. destruct (parse3 v) as [[[oM om] op]|]; [|reflexivity].
    rewrite exec_seq.
    destruct (blk2_exec fuel cur (VText v) (VList out) (VInt oM) (VInt om) (VInt op) VUnbound VUnbound VUnbound
                        (VList [VInt oM; VInt om; VInt op]) l7' VUnbound VUnbound) as [l9' B2].
    unfold cenv in B2. rewrite B2. clear B2.
    destruct (parse3 cur) as [[[eM em] ep]|]; [|reflexivity].
    pose proof (tail_exec fuel v cur out oM om op eM em ep (VList [VInt oM; VInt om; VInt op]) l7'
                          (VList [VInt eM; VInt em; VInt ep]) l9') as T.
    unfold cenv in T. rewrite T. clear T.
    unfold unsupported. cbn [fst snd].
    destruct (negb (oM =? eM) || (em <? om)).
    - destruct softly; reflexivity.
    - destruct (om <? em); [reflexivity|]. destruct (op <? ep); reflexivity.
  Qed.
End Contracts.

(* ================= the theorems ================= *)

Theorem TV_check_version_refines :
  forall (split int errm : list val -> res val) (softly : bool),
  (forall s, split [VText s; VText [46]] = Ok (VList (map VText (split_on 46 s)))) ->
  (forall s, int [VText s] = match py_int s with Some z => Ok (VInt z) | None => Err 1 end) ->
  (forall out m, errm [VList out; VText m]
                 = if softly then Ok (VList (out ++ [VTuple [VText m]])) else Err ErrVersionReported) ->
  forall fuel v cur out,
  fn_check_version split int errm fuel [VText v; VText cur; VList out]
  = match check_version softly cur v with
    | Err k => Err k
    | Ok evs => Ok (enc_triple (parse3 v), [VText v; VText cur; VList (out ++ map (enc_event cur (e_of cur)) evs)])
    end.
Proof. exact check_version_refines. Qed.
Print Assumptions TV_check_version_refines.

(* C06_version_decision restated about the translated code: with both versions well-formed, the unsupported-version
   message is reported (appended by a soft err_msgr, raised by a hard one) exactly when the major versions differ or
   the file's minor version is newer *)
Theorem TV_version_unsupported_reported :
  forall (split int errm : list val -> res val) (softly : bool),
  (forall s, split [VText s; VText [46]] = Ok (VList (map VText (split_on 46 s)))) ->
  (forall s, int [VText s] = match py_int s with Some z => Ok (VInt z) | None => Err 1 end) ->
  (forall out m, errm [VList out; VText m]
                 = if softly then Ok (VList (out ++ [VTuple [VText m]])) else Err ErrVersionReported) ->
  forall fuel v cur out oM om op eM em ep,
  parse3 v = Some (oM, om, op) -> parse3 cur = Some (eM, em, ep) ->
  (oM <> eM \/ om > em) ->
  fn_check_version split int errm fuel [VText v; VText cur; VList out]
  = if softly then Ok (VTuple [VInt oM; VInt om; VInt op],
                       [VText v; VText cur; VList (out ++ [VTuple [VText (msg_unsupported v eM em)]])])
    else Err ErrVersionReported.
Proof.
  intros split int errm softly H1 H2 H3 fuel v cur out oM om op eM em ep P1 P2 D.
  rewrite (check_version_refines split int errm softly H1 H2 H3). unfold check_version, e_of. rewrite P1, P2.
  assert (U : unsupported (oM, om, op) (eM, em, ep) = true).
  { unfold unsupported. destruct D as [D|D].
    - apply Z.eqb_neq in D. rewrite D. reflexivity.
    - apply orb_true_iff. right. apply Z.ltb_lt. lia. }
  rewrite U. destruct softly; reflexivity.
Qed.
Print Assumptions TV_version_unsupported_reported.

(* C06_version_supported_quiet restated: a supported version is never refused; an older minor version draws the
   "outdated" warning, an older patch level the "fixes" warning, anything else nothing *)
Theorem TV_version_supported_quiet :
  forall (split int errm : list val -> res val) (softly : bool),
  (forall s, split [VText s; VText [46]] = Ok (VList (map VText (split_on 46 s)))) ->
  (forall s, int [VText s] = match py_int s with Some z => Ok (VInt z) | None => Err 1 end) ->
  (forall out m, errm [VList out; VText m]
                 = if softly then Ok (VList (out ++ [VTuple [VText m]])) else Err ErrVersionReported) ->
  forall fuel v cur out oM om op eM em ep,
  parse3 v = Some (oM, om, op) -> parse3 cur = Some (eM, em, ep) ->
  oM = eM -> om <= em ->
  fn_check_version split int errm fuel [VText v; VText cur; VList out]
  = Ok (VTuple [VInt oM; VInt om; VInt op],
        [VText v; VText cur;
         VList (out ++ if om <? em then [VTuple [VText (msg_outdated v cur)]]
                       else if op <? ep then [VTuple [VText msg_patch]] else [])]).
Proof.
  intros split int errm softly H1 H2 H3 fuel v cur out oM om op eM em ep P1 P2 DM Dm.
  rewrite (check_version_refines split int errm softly H1 H2 H3).
  rewrite (version_supported_quiet softly cur v oM om op eM em ep P1 P2 DM Dm). unfold e_of. rewrite P1, P2.
  destruct (om <? em); [reflexivity|]. destruct (op <? ep); reflexivity.
Qed.
Print Assumptions TV_version_supported_quiet.

(* a version string that is not three dot-separated integers (of the file or of the tool) is a ValueError *)
Theorem TV_version_malformed :
  forall (split int errm : list val -> res val) (softly : bool),
  (forall s, split [VText s; VText [46]] = Ok (VList (map VText (split_on 46 s)))) ->
  (forall s, int [VText s] = match py_int s with Some z => Ok (VInt z) | None => Err 1 end) ->
  (forall out m, errm [VList out; VText m]
                 = if softly then Ok (VList (out ++ [VTuple [VText m]])) else Err ErrVersionReported) ->
  forall fuel v cur out, parse3 v = None \/ parse3 cur = None ->
  fn_check_version split int errm fuel [VText v; VText cur; VList out] = Err 1.
Proof.
  intros split int errm softly H1 H2 H3 fuel v cur out D.
  rewrite (check_version_refines split int errm softly H1 H2 H3). unfold check_version.
  destruct D as [D|D]; rewrite D; [reflexivity|]. destruct (parse3 v); reflexivity.
Qed.
Print Assumptions TV_version_malformed.

(* the contracts are satisfiable - by the functions the tv_version relation evaluates with - and the evaluation is an
   instance of the refinement *)
Theorem TV_version_contracts_satisfiable :
  forall softly,
  (forall s, m_split [VText s; VText [46]] = Ok (VList (map VText (split_on 46 s))))
  /\ (forall s, m_int [VText s] = match py_int s with Some z => Ok (VInt z) | None => Err 1 end)
  /\ (forall out m, m_err_msgr softly [VList out; VText m]
                    = if softly then Ok (VList (out ++ [VTuple [VText m]])) else Err ErrVersionReported).
Proof. intro softly. repeat split; reflexivity. Qed.
Print Assumptions TV_version_contracts_satisfiable.

Theorem TV_check_version_eval :
  forall softly cur v,
  tv_check_version softly cur v
  = match check_version softly cur v with
    | Err k => Err k
    | Ok evs => Ok (enc_triple (parse3 v), map (enc_event cur (e_of cur)) evs)
    end.
Proof.
  intros softly cur v. unfold tv_check_version.
  destruct (TV_version_contracts_satisfiable softly) as [H1 [H2 H3]].
  rewrite (check_version_refines m_split m_int (m_err_msgr softly) softly H1 H2 H3).
  destruct (check_version softly cur v); reflexivity.
Qed.
Print Assumptions TV_check_version_eval.

Theorem TV_version_examples :
  let cur := txt "0.2.0" in
  tv_check_version true cur (txt "0.2.0") = Ok (VTuple [VInt 0; VInt 2; VInt 0], [])
  /\ tv_check_version true cur (txt "0.1.7") = Ok (VTuple [VInt 0; VInt 1; VInt 7], [VTuple [VText (msg_outdated (txt "0.1.7") cur)]])
  /\ tv_check_version true cur (txt "1.0.0")
     = Ok (VTuple [VInt 1; VInt 0; VInt 0], [VTuple [VText (msg_unsupported (txt "1.0.0") 0 2)]])
  /\ tv_check_version false cur (txt "0.3.0") = Err ErrVersionReported
  /\ tv_check_version true cur (txt "0.2") = Err 1
  /\ tv_check_version true cur (txt "0.2.0.1") = Err 1.
Proof. repeat split; vm_compute; reflexivity. Qed.
Print Assumptions TV_version_examples.
