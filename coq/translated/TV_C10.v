(* Translation validation for C10: the MiniPy syntax of the seed guard of simulate_gt (haptools/sim_genotype.py: the
   top-level `if` statement whose body calls np.random.seed - after fix add5f9b `if seed is not None:`, in the pinned
   tree `if seed:`, which ignored seed 0) and of `self.rng = np.random.default_rng(seed)` in PhenoSimulator.__init__
   (haptools/sim_phenotype.py), REGENERATED FROM /repo's CURRENT SOURCE on every run (HVG.Gen_Seed, written by
   harness/pytrans.py), denotes exactly C10_Model.guard_fires false / start_state false, resp. pheno_rng - for ALL
   seeds (every integer, and None), all generator states and all behaviours of the two numpy functions.
   Compiled per run against the generated module; not part of the static build. *)
From HV Require Import Prelude MiniPy MiniPyFacts C10_Model.
From HVG Require Import Gen_Seed TVM_C10.
From Coq Require Import String.
Open Scope string_scope.
Open Scope list_scope.
Open Scope Z_scope.

(* np.random.seed is called exactly when the model's (repaired) guard fires, with the seed, once; otherwise the
   global generator is left alone.  No contract on either numpy function. *)
Lemma seed_guard_calls (dflt seedf : list val -> res val) fuel seed g :
  g <> VUnbound ->
  fn_simulate_gt_seed_guard dflt seedf fuel [enc_seed seed; g]
  = if guard_fires false seed then
      match seedf [g; enc_seed seed] with
      | Ok g' => Ok (VNone, [enc_seed seed; g'])
      | Err k => Err k
      end
    else Ok (VNone, [enc_seed seed; g]).
Proof.
  intro Hg. unfold fn_simulate_gt_seed_guard, run_fun.
  destruct seed as [k|]; cbn -[Z.eqb].
  - unfold read_var. cbn -[Z.eqb]. destruct g; try contradiction; cbn -[Z.eqb]; unfold ext_fn;
      match goal with |- context [seedf ?a] => destruct (seedf a) end; reflexivity.
  - reflexivity.
Qed.

(* with S := val (a generator state is whatever numpy makes it) and reseed k := the state np.random.seed(k) leaves *)
Lemma seed_guard_refines (dflt seedf : list val -> res val) (reseed : Z -> val) :
  (forall g k, seedf [g; VInt k] = Ok (reseed k)) ->
  forall fuel seed g, g <> VUnbound ->
  fn_simulate_gt_seed_guard dflt seedf fuel [enc_seed seed; g]
  = Ok (VNone, [enc_seed seed; start_state val reseed false seed g]).
Proof.
  intros H fuel seed g Hg. rewrite seed_guard_calls by exact Hg.
  destruct seed as [k|]; cbn [guard_fires start_state enc_seed]; [rewrite H|]; reflexivity.
Qed.

(* self.rng is bound to whatever np.random.default_rng(seed) returns (an object: not the interpreter's "unbound"
   marker); it is called once, with the seed *)
Lemma pheno_rng_call (dflt seedf : list val -> res val) fuel seed :
  (forall r, dflt [enc_seed seed] = Ok r -> r <> VUnbound) ->
  fn_pheno_init_rng dflt seedf fuel [enc_seed seed]
  = match dflt [enc_seed seed] with
    | Ok r => Ok (r, [enc_seed seed])
    | Err k => Err k
    end.
Proof.
  intro HB. unfold fn_pheno_init_rng, run_fun. destruct seed as [k|]; cbn; unfold ext_fn;
    match goal with |- context [dflt ?a] => destruct (dflt a) as [r|e] eqn:E end; cbn; try reflexivity;
    specialize (HB r E); destruct r; try reflexivity; contradiction.
Qed.

(* ================= the theorems ================= *)

Theorem TV_seed_guard_calls :
  forall (dflt seedf : list val -> res val) fuel seed g, g <> VUnbound ->
  fn_simulate_gt_seed_guard dflt seedf fuel [enc_seed seed; g]
  = if guard_fires false seed then
      match seedf [g; enc_seed seed] with
      | Ok g' => Ok (VNone, [enc_seed seed; g'])
      | Err k => Err k
      end
    else Ok (VNone, [enc_seed seed; g]).
Proof. exact seed_guard_calls. Qed.
Print Assumptions TV_seed_guard_calls.

Theorem TV_seed_guard_refines :
  forall (dflt seedf : list val -> res val) (reseed : Z -> val),
  (forall g k, seedf [g; VInt k] = Ok (reseed k)) ->
  forall fuel seed g, g <> VUnbound ->
  fn_simulate_gt_seed_guard dflt seedf fuel [enc_seed seed; g]
  = Ok (VNone, [enc_seed seed; start_state val reseed false seed g]).
Proof. exact seed_guard_refines. Qed.
Print Assumptions TV_seed_guard_refines.

(* hence seed 0 reseeds: two processes whose global generators differ start the simulation from the same state
   (what C10_legacy_seed0_refuted shows the pinned guard did not do) *)
Theorem TV_seed_guard_seed0 :
  forall (dflt seedf : list val -> res val) (reseed : Z -> val),
  (forall g k, seedf [g; VInt k] = Ok (reseed k)) ->
  forall fuel k g g', g <> VUnbound -> g' <> VUnbound ->
  fn_simulate_gt_seed_guard dflt seedf fuel [enc_seed (Some k); g]
  = fn_simulate_gt_seed_guard dflt seedf fuel [enc_seed (Some k); g']
  /\ fn_simulate_gt_seed_guard dflt seedf fuel [enc_seed (Some 0); g] = Ok (VNone, [VInt 0; reseed 0]).
Proof.
  intros dflt seedf reseed H fuel k g g' Hg Hg'.
  rewrite !(seed_guard_refines dflt seedf reseed H) by assumption. split; reflexivity.
Qed.
Print Assumptions TV_seed_guard_seed0.

(* the statement of PhenoSimulator.__init__: the private generator is default_rng(seed); with
   reseed k := default_rng(k) and "default_rng(None) is default_rng(fresh OS entropy)" it is the model's pheno_rng *)
Theorem TV_pheno_rng_refines :
  forall (dflt seedf : list val -> res val) (reseed : Z -> val) (entropy : Z),
  (forall k, dflt [VInt k] = Ok (reseed k)) -> dflt [VNone] = Ok (reseed entropy) ->
  (forall k, reseed k <> VUnbound) ->
  forall fuel seed g,
  fn_pheno_init_rng dflt seedf fuel [enc_seed seed]
  = Ok (pheno_rng val reseed seed (mkworld val g entropy), [enc_seed seed]).
Proof.
  intros dflt seedf reseed entropy H HN HB fuel seed g. rewrite pheno_rng_call.
  - destruct seed as [k|]; cbn [enc_seed pheno_rng w_entropy]; [rewrite H|rewrite HN]; reflexivity.
  - intros r E. destruct seed as [k|]; cbn [enc_seed] in E; [rewrite H in E|rewrite HN in E]; inversion E; apply HB.
Qed.
Print Assumptions TV_pheno_rng_refines.

Theorem TV_pheno_rng_call :
  forall (dflt seedf : list val -> res val) fuel seed,
  (forall r, dflt [enc_seed seed] = Ok r -> r <> VUnbound) ->
  fn_pheno_init_rng dflt seedf fuel [enc_seed seed]
  = match dflt [enc_seed seed] with
    | Ok r => Ok (r, [enc_seed seed])
    | Err k => Err k
    end.
Proof. exact pheno_rng_call. Qed.
Print Assumptions TV_pheno_rng_call.

(* the pinned guard `if seed:` as MiniPy syntax (what the translator emits for it) does NOT satisfy
   TV_seed_guard_refines: seed 0 leaves the global generator alone *)
Definition legacy_guard : fundef :=
  mkfun ["seed"; "$gen"] []
    (SIf (EVar "seed")
       (SSeq (SAssign "$gen" (ECall "$s.np.random.seed" [EVar "$gen"; EVar "seed"])) SSkip)
       SSkip).
Theorem TV_legacy_guard_refuted :
  let ft := ft_add "$s.np.random.seed" (ext_fn rec_seed) ft_empty in
  run_fun ft legacy_guard 0 [enc_seed (Some 0); VList []] = Ok (VNone, [VInt 0; VList []])
  /\ start_state val (fun k => VList [VInt k]) false (Some 0) (VList []) = VList [VInt 0]
  /\ tv_guard_calls (Some 0) = Ok [0]
  /\ tv_guard_calls None = Ok []
  /\ tv_rng_arg (Some 0) = Ok (Some 0)
  /\ tv_rng_arg None = Ok None.
Proof. vm_compute. repeat split. Qed.
Print Assumptions TV_legacy_guard_refuted.
